import RtcVerif.Proofs.C01Colloc
/-!
Row-level refinement: the collocation rows of a step, the scattered initial derivatives, the
initial rows, positions of rows inside `g`.
-/
namespace RtcVerif.C01
open RtcVerif RtcVerif.Interp

theorem thetaSpec_eq_blend (F : Residual) (theta t0 : Rat) (p : List Rat) (z : Nat → List Rat)
    (ci : Nat → List Rat) (ts : Nat → Rat) (i : Nat) :
    thetaSpec F theta t0 p z ci ts i
      = blend theta
          (F (z i) ((vsub (z (i + 1)) (z i)).map (· / (ts (i + 1) - ts i))) (ci i) (ts i - t0) p)
          (F (z (i + 1)) ((vsub (z (i + 1)) (z i)).map (· / (ts (i + 1) - ts i))) (ci (i + 1))
            (ts (i + 1) - t0) p) := rfl

theorem thetaSpec_length (F : Residual) (ne : Nat) (hF : ∀ a b c d e, (F a b c d e).length = ne)
    (theta t0 : Rat) (p : List Rat) (z : Nat → List Rat) (ci : Nat → List Rat) (ts : Nat → Rat) (i : Nat) :
    (thetaSpec F theta t0 p z ci ts i).length = ne := by
  rw [thetaSpec_eq_blend, blend_length _ _ _ (by rw [hF, hF]), hF]

/-- core refinement: the rows the code assembles for step `i` of a member are the theta-method
    residuals of the decoded trajectory -/
theorem collocRows_eq_theta (F : Residual) (s : Sys) (c : Mem) (X : Vec)
    (hF : ∀ a b c d e, (F a b c d e).length = s.ne) (i : Nat) (hi : i < s.n - 1) :
    collocRowsCode F s c X i
      = thetaSpec F s.theta s.t0 c.par (decode s X c.idx) (inputsAt s c) s.ts i := by
  obtain ⟨h1, h2, h3, h4, h5, h6⟩ := uRow_pieces s c X i hi
  unfold collocRowsCode mappedOut blockOfRow
  simp only [h1, h2, h3, h4, h5, h6]
  rw [collocBlock_eq_blend F s.ne hF, ← thetaSpec_eq_blend]
  have hl := thetaSpec_length F s.ne hF s.theta s.t0 c.par (decode s X c.idx) (inputsAt s c) s.ts i
  rw [List.take_append_of_le_length (by omega), List.take_of_length_le (by omega)]

/-! ### scatter -/

theorem scatter_length (base : List Rat) (pos : List Nat) (vals : List Rat) :
    (scatter base pos vals).length = base.length := by
  unfold scatter
  generalize pos.zip vals = pv
  induction pv generalizing base with
  | nil => rfl
  | cons p pv ih => simp [List.foldl_cons, ih]

theorem scatter_snoc (base : List Rat) (pos : List Nat) (vals : List Rat) (p : Nat) (v : Rat)
    (h : pos.length = vals.length) :
    scatter base (pos ++ [p]) (vals ++ [v]) = (scatter base pos vals).set p v := by
  unfold scatter
  rw [List.zip_append h, List.foldl_append]
  simp

/-- scatter of a contiguous index range: entries inside the range are replaced -/
theorem scatter_range_getD (base : List Rat) (off : Nat) (g : Nat → Rat) :
    ∀ (a : Nat), off + a ≤ base.length → ∀ j,
      (scatter base ((List.range a).map (off + ·)) ((List.range a).map g)).getD j 0
        = if off ≤ j ∧ j < off + a then g (j - off) else base.getD j 0 := by
  intro a
  induction a with
  | zero =>
    intro _ j
    simp [scatter]
  | succ a ih =>
    intro hle j
    rw [List.range_succ, List.map_append, List.map_append]
    simp only [List.map_cons, List.map_nil]
    rw [scatter_snoc _ _ _ _ _ (by simp)]
    rw [List.getD_eq_getElem?_getD, List.getElem?_set]
    by_cases hj : off + a = j
    · subst hj
      have hlt : off + a < (scatter base ((List.range a).map (off + ·)) ((List.range a).map g)).length := by
        rw [scatter_length]; omega
      simp [hlt]
    · have := ih (by omega) j
      rw [List.getD_eq_getElem?_getD] at this
      simp only [hj, if_false]
      rw [this]
      by_cases hin : off ≤ j ∧ j < off + a
      · have : off ≤ j ∧ j < off + (a + 1) := by omega
        simp [hin, this]
      · have : ¬ (off ≤ j ∧ j < off + (a + 1)) := by omega
        simp [hin, this]

theorem initStateCode_eq (s : Sys) (c : Mem) (X : Vec) :
    initStateCode s c X = (List.range s.k).map (fun v => s.nom v * X (c.idx v 0)) := by
  unfold initStateCode
  rw [List.zipWith_map_left, List.zipWith_map_right, List.zipWith_self]
  apply List.map_congr_left
  intro v _
  ring

/-- the scattered initial derivatives: own decision variable (times its nominal) for the
    differentiated states, the history constant for the other variables -/
theorem initDersCode_eq (s : Sys) (c : Mem) (X : Vec) (hnd : s.nd ≤ s.k) :
    initDersCode s c X = initDers s c X := by
  unfold initDersCode initDers
  simp only
  have hz : List.zipWith (· * ·) ((List.range s.nd).map (fun v => X (c.didx v))) ((List.range s.nd).map s.dnom)
      = (List.range s.nd).map (fun v => s.dnom v * X (c.didx v)) := by
    rw [List.zipWith_map_left, List.zipWith_map_right, List.zipWith_self]
    apply List.map_congr_left
    intro v _
    ring
  rw [hz]
  have hr0 : (List.range s.nd) = (List.range s.nd).map (0 + ·) := by simp
  set z := List.replicate s.k (0 : Rat) with hzdef
  set a := scatter z (List.range s.nd) ((List.range s.nd).map (fun v => s.dnom v * X (c.didx v))) with hadef
  have hal : a.length = s.k := by rw [hadef, scatter_length, hzdef]; simp
  have ha : ∀ j, a.getD j 0 = if j < s.nd then s.dnom j * X (c.didx j) else z.getD j 0 := by
    intro j
    have := scatter_range_getD z 0 (fun v => s.dnom v * X (c.didx v)) s.nd (by rw [hzdef]; simp; omega) j
    rw [← hr0] at this
    rw [hadef, this]
    simp
  have hmap : (List.range (s.k - s.nd)).map (fun j => c.dconst (s.nd + j))
      = (List.range (s.k - s.nd)).map (fun j => (fun q => c.dconst (s.nd + q)) j) := rfl
  apply ext_getD _ _ 0
  · rw [scatter_length, hal]; simp
  · intro j hj
    rw [scatter_length, hal] at hj
    rw [scatter_range_getD a s.nd (fun q => c.dconst (s.nd + q)) (s.k - s.nd) (by rw [hal]; omega) j]
    rw [getD_map_of_lt _ _ _ _ 0 (by simpa using hj)]
    have hr : (List.range s.k).getD j 0 = j := by
      simp [List.getD_eq_getElem?_getD, List.getElem?_range hj]
    rw [hr]
    by_cases hlt : j < s.nd
    · have : ¬ (s.nd ≤ j ∧ j < s.nd + (s.k - s.nd)) := by omega
      simp only [this, if_false, hlt, if_true]
      rw [ha j]
      simp [hlt]
    · have h2 : s.nd ≤ j ∧ j < s.nd + (s.k - s.nd) := by omega
      have h3 : s.nd + (j - s.nd) = j := by omega
      simp only [h2, and_self, if_true, hlt, if_false, h3]

/-- the initial rows in terms of decoded quantities -/
theorem initRowsCode_eq (F Finit : Residual) (s : Sys) (c : Mem) (X : Vec) (hnd : s.nd ≤ s.k) :
    initRowsCode F Finit s c X
      = F ((List.range s.k).map (fun v => s.nom v * X (c.idx v 0))) (initDers s c X) (inputsAt s c 0) 0 c.par
        ++ Finit ((List.range s.k).map (fun v => s.nom v * X (c.idx v 0))) (initDers s c X)
            (inputsAt s c 0) 0 c.par := by
  unfold initRowsCode
  simp only [initStateCode_eq, initDersCode_eq s c X hnd]
  rfl

end RtcVerif.C01
