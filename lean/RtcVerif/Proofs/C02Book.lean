import RtcVerif.Model.C02Book
import RtcVerif.Proofs.C02Loop
/-!
# C02 — the statement-level bookkeeping (`Model/C02Book.lean`) is the loop model (`Model/C02Loop.lean`)
-/
namespace RtcVerif.C02
open RtcVerif RtcVerif.C04

theorem storeOther_eq_set (st : Store) (k : Key) (new : EIvl) :
    storeOther st k new = st.set k (mergeNew EVal.max EVal.min new (st.get k)) := by
  unfold storeOther mergeNew
  cases st.get k <;> rfl

/-- reading `existing` before the write loop or at each write is the same: each step touches its own key -/
theorem hardWrite_fold_aux (fk : String) (h : Nat → EIvl) (src : Store) :
    ∀ (l : List Nat) (st : Store), l.Nodup → (∀ i ∈ l, st.get (fk, i) = src.get (fk, i)) →
      l.foldl (fun st i => st.set (fk, i) (mergeNew EVal.max EVal.min (h i) (src.get (fk, i)))) st
        = l.foldl (fun st i => storeOther st (fk, i) (h i)) st := by
  intro l
  induction l with
  | nil => intros; rfl
  | cons a rest ih =>
    intro st hnd hget
    simp only [List.foldl_cons]
    have ha : st.get (fk, a) = src.get (fk, a) := hget a (List.mem_cons_self ..)
    rw [storeOther_eq_set, ha]
    apply ih
    · exact (List.nodup_cons.mp hnd).2
    · intro i hi
      have hne : i ≠ a := by
        rintro rfl
        exact (List.nodup_cons.mp hnd).1 hi
      rw [get_set_other _ _ _ _ (fun e => hne (Prod.mk.inj e).2)]
      exact hget i (List.mem_cons_of_mem _ hi)

theorem hardCallStep_eq_hardStep (o : HOpts) (g : Goal) (s : Sol) (gj : Nat) (eps fv : Nat → Rat) (i : Nat)
    (he : g.hasTargetBounds = true → eps i = s.eps gj i + o.violationRelaxation)
    (hm : g.hasTargetBounds = false → eps i = s.fval g.fk i)
    (hf : fv i = s.fval g.fk i) : hardCallStep o g eps fv i = hardStep o g s gj i := by
  unfold hardCallStep hardStep
  cases hb : g.hasTargetBounds
  · simp [hm hb]
  · simp [he hb, hf]

/-! ### per-member attributes -/

theorem upd_self {α : Type} (f : Nat → α) (m : Nat) : upd f m (f m) = f := by
  funext k
  unfold upd
  split
  · subst_vars; rfl
  · rfl

theorem upd_upd {α : Type} (f : Nat → α) (m : Nat) (v w : α) : upd (upd f m v) m w = upd f m w := by
  funext k
  unfold upd
  split <;> rfl

theorem Book.sel_put_same {ρ : Type} (B : Book ρ) (p : Bool) (m : Nat) (st : Store) :
    (B.put p m st).sel p m = st := by
  cases p <;> simp [Book.put, Book.sel, upd]

theorem Book.put_put {ρ : Type} (B : Book ρ) (p : Bool) (m : Nat) (st st' : Store) :
    (B.put p m st).put p m st' = B.put p m st' := by
  cases p <;> simp [Book.put, upd_upd]

theorem Book.put_sel {ρ : Type} (B : Book ρ) (p : Bool) (m : Nat) : B.put p m (B.sel p m) = B := by
  cases p <;> simp [Book.put, Book.sel, upd_self]

/-! ### `__soft_to_hard_constraints` -/

theorem softToHardBody_eq {ρ : Type} (o : HOpts) (nT : Nat) (R : Reads) (sym : Nat) (p : Bool) (m : Nat)
    (s : Sol) (heps : ∀ j i, s.eps j i = R.results m (epsName p sym j) i)
    (B : Book ρ) (j : Nat) (g : Goal) (hfv : ∀ i, s.fval g.fk i = R.fvalue m p g i) :
    softToHardBody o nT R sym p m B j g
      = B.put p m (convertGoal o (nSteps p nT) s (B.sel p m) j g) := by
  unfold softToHardBody convertGoal
  cases hc : g.critical
  · simp only [Bool.false_eq_true, if_false]
    congr 1
    unfold hardWrite
    rw [hardWrite_fold_aux g.fk _ (B.sel p m) _ (B.sel p m) List.nodup_range (fun _ _ => rfl)]
    congr 1
    funext st i
    congr 1
    apply hardCallStep_eq_hardStep
    · intro hb
      simp only [hb, if_true]
      rw [heps]; rfl
    · intro hb
      simp only [hb, Bool.false_eq_true, if_false]
      exact (hfv i).symm
    · exact (hfv i).symm
  · simp only [if_true]
    exact (Book.put_sel B p m).symm

theorem softToHard_inner {ρ : Type} (o : HOpts) (nT : Nat) (R : Reads) (sym : Nat) (p : Bool) (m : Nat)
    (s : Sol) (heps : ∀ j i, s.eps j i = R.results m (epsName p sym j) i) :
    ∀ (goals : List Goal) (j : Nat) (B : Book ρ),
      (∀ g ∈ goals, ∀ i, s.fval g.fk i = R.fvalue m p g i) →
      forEnum (softToHardBody o nT R sym p m) B j goals
        = B.put p m (convertFrom o (nSteps p nT) s (B.sel p m) j goals) := by
  intro goals
  induction goals with
  | nil =>
    intro j B _
    simp only [forEnum, convertFrom]
    exact (Book.put_sel B p m).symm
  | cons g rest ih =>
    intro j B h
    simp only [forEnum, convertFrom]
    rw [softToHardBody_eq o nT R sym p m s heps B j g (h g (List.mem_cons_self ..))]
    rw [ih (j + 1) _ (fun g' hg' => h g' (List.mem_cons_of_mem _ hg'))]
    rw [Book.put_put, Book.sel_put_same]

/-- a member loop whose body rewrites the member's own store -/
theorem forRange_put {ρ : Type} (p : Bool) (F : Nat → Store → Store) (f : Book ρ → Nat → Book ρ)
    (hf : ∀ B m, f B m = B.put p m (F m (B.sel p m))) (E : Nat) (B : Book ρ) :
    forRange E f B = B.putAll p (fun m => if m < E then F m (B.sel p m) else B.sel p m) := by
  induction E with
  | zero =>
    unfold forRange
    cases p <;> simp [Book.putAll, Book.sel]
  | succ E ih =>
    have hstep : forRange (E + 1) f B = f (forRange E f B) E := by
      unfold forRange
      rw [List.range_succ, List.foldl_append]
      rfl
    rw [hstep, ih, hf]
    cases p <;>
    · simp only [Book.putAll, Book.put, Book.sel, Bool.false_eq_true, if_false, if_true]
      congr 1
      funext k
      unfold upd
      by_cases hk : k = E
      · subst hk; simp
      · simp only [hk, if_false]
        by_cases hlt : k < E
        · have : k < E + 1 := by omega
          simp [hlt, this]
        · have : ¬ k < E + 1 := by omega
          simp [hlt, this]

end RtcVerif.C02
