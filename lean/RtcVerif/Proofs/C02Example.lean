import RtcVerif.Model.C02Loop
/-! A concrete two-priority run with a concrete solver oracle (used by the non-vacuity examples of
    `Props/C02.lean`): p1 wants `x ≥ 2` (range (-10, 10)) and is answered with `x = -1`, ε = 1/4;
    p2 minimises `x` and is answered with `x = -1`. -/
namespace RtcVerif.C02
open RtcVerif RtcVerif.C04

def exG1 : Goal := { fk := "x", tmin := .scalar (.fin 2), rangeLo := [.fin (-10)], rangeHi := [.fin 10],
                     rangeDefault := false }
def exG2 : Goal := { fk := "x", priority := 2 }
def exS1 : Sol := { fval := fun _ _ => -1, eps := fun _ _ => 1/4 }
def exS2 : Sol := { fval := fun _ _ => -1, eps := fun _ _ => 0 }
def exSt1 : Store := [(("x", 0), ⟨EVal.fin (-1), EVal.pinf⟩)]
/-- a solver that answers exactly the two problems of the run (and fails on everything else) -/
def exOracle : Store → List Goal → Option Sol := fun st gs =>
  if st = [] ∧ gs = [exG1] then some exS1
  else if st = exSt1 ∧ gs = [exG2] then some exS2 else none

/-! A run in which equality folding triggers: p1 wants `2 ≤ x ≤ 2 + 1e-9` (range (-10, 10)) and is
    answered with `x = 2 + 0.25e-9`, ε = 0 — the retained interval `[2, 2 + 1e-9]` is narrower than
    `equality_threshold = 1e-8` and is folded to its mid point `c = 2 + 0.5e-9`; p2 minimises `x`
    under the store `[c, c]` and is answered with `x = c` (which is *not* the value attained at p1). -/

def exC : Rat := 2 + 1 / 2000000000
def exF1 : Goal := { fk := "x", tmin := .scalar (.fin 2), tmax := .scalar (.fin (2 + 1 / 1000000000)),
                     rangeLo := [.fin (-10)], rangeHi := [.fin 10], rangeDefault := false }
def exF2 : Goal := { fk := "x", priority := 2 }
def exFS1 : Sol := { fval := fun _ _ => 2 + 1 / 4000000000, eps := fun _ _ => 0 }
def exFS2 : Sol := { fval := fun _ _ => exC, eps := fun _ _ => 0 }
def exFSt1 : Store := [(("x", 0), ⟨EVal.fin exC, EVal.fin exC⟩)]
def exOracleM : (Unit → Store) → (Unit → List Goal) → Option (Unit → Sol) := fun st gs =>
  if st () = [] ∧ gs () = [exF1] then some (fun _ => exFS1)
  else if st () = exFSt1 ∧ gs () = [exF2] then some (fun _ => exFS2) else none

end RtcVerif.C02
