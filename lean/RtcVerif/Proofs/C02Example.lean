import RtcVerif.Model.C02Loop
/-! A concrete two-priority run with a concrete solver oracle (used by the non-vacuity examples of
    `Props/C02.lean`): p1 wants `x ≥ 2` (range (-10, 10)) and is answered with `x = -1`, ε = 1/4;
    p2 minimises `x` and is answered with `x = -1`. -/
namespace RtcVerif.C02
open RtcVerif RtcVerif.C04

def exG1 : Goal := { fk := "x", tmin := .scalar (.fin 2), rangeLo := [.fin (-10)], rangeHi := [.fin 10],
                     rangeDefault := false }
def exG2 : Goal := { fk := "x", priority := 2 }
def exS1 : Sol := { fval := fun _ _ => -1, eps := fun _ _ => 1/4 }
def exS2 : Sol := { fval := fun _ _ => -1, eps := fun _ _ => 0 }
def exSt1 : Store := [(("x", 0), ⟨EVal.fin (-1), EVal.pinf⟩)]
/-- a solver that answers exactly the two problems of the run (and fails on everything else) -/
def exOracle : Store → List Goal → Option Sol := fun st gs =>
  if st = [] ∧ gs = [exG1] then some exS1
  else if st = exSt1 ∧ gs = [exG2] then some exS2 else none

end RtcVerif.C02
