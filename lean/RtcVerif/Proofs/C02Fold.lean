import RtcVerif.Proofs.C02Loop
import Mathlib.Order.MinMax
/-!
No degradation **with equality folding**, for any number of goals sharing a key within one
priority, and for a family of independent stores (ensemble members × {point, path} store) solved
together by one solver call per priority.

Idea.  Let `v` be the scaled value of a goal function at the solution of its own priority and
`B = [v - thr/2, v + thr/2]` (`thr = equality_threshold`).  Folding replaces an interval
`[a, b] ∋ v` with `b - a < thr` by its mid point, which lies in `B`.  Invariant of the conversion
walk over the goals of the priority: every store entry of the key *meets* `B`.  Merging
(`enforce="other"`) clamps the new interval into the existing entry; a clamp of a point of `B` into
an interval meeting `B` stays in `B`.  Hence after the conversion of goal `g` the entry lies in
the hull of `g`'s unfolded interval and `B`, and every later operation only tightens it.
-/
namespace RtcVerif.C02
open RtcVerif RtcVerif.C04

/-! ### order lemmas -/

section generic
variable {α : Type} [LinearOrder α]

theorem clamp_comm (p l h : α) (hlh : l ≤ h) : min (max p l) h = max (min p h) l := by
  rcases le_total p l with h1 | h1 <;> rcases le_total p h with h2 | h2
  · rw [max_eq_right h1, min_eq_left hlh, min_eq_left h2, max_eq_right h1]
  · rw [max_eq_right h1, min_eq_left hlh, min_eq_right h2, max_eq_right (le_trans h2 h1)]
  · rw [max_eq_left h1, min_eq_left h2, max_eq_left h1]
  · rw [max_eq_left h1, min_eq_right h2, max_eq_left hlh]

/-- merging (`enforce="other"`) a new interval that meets `B` into an entry that meets `B` gives
    an entry that meets `B` -/
theorem ub_other_near (n e b : Ivl α) (w : α) (hn : n.ok) (hwe : Ivl.mem w e) (hwb : Ivl.mem w b)
    (h1 : n.lo ≤ b.hi) (h2 : b.lo ≤ n.hi) :
    ∃ w', Ivl.mem w' (ub n e false) ∧ Ivl.mem w' b := by
  have hb : b.lo ≤ b.hi := le_trans hwb.1 hwb.2
  have hlh : e.lo ≤ e.hi := le_trans hwe.1 hwe.2
  -- a point of n ∩ b
  have hp1 : n.lo ≤ max n.lo b.lo := le_max_left _ _
  have hp2 : max n.lo b.lo ≤ n.hi := max_le hn h2
  have hp3 : b.lo ≤ max n.lo b.lo := le_max_right _ _
  have hp4 : max n.lo b.lo ≤ b.hi := max_le h1 hb
  refine ⟨min (max (max n.lo b.lo) e.lo) e.hi, ⟨?_, ?_⟩, ⟨?_, ?_⟩⟩
  · simp only [ub, updateBoundsWith, Bool.false_eq_true, if_false]
    exact le_trans (min_le_left _ _) (min_le_min (max_le_max hp1 (le_refl _)) (le_refl _))
  · simp only [ub, updateBoundsWith, Bool.false_eq_true, if_false]
    rw [clamp_comm _ _ _ hlh]
    exact max_le_max (min_le_min hp2 (le_refl _)) (le_refl _)
  · exact le_trans (le_min hp3 hwb.1) (clamp_between _ w e.lo e.hi hwe.1 hwe.2).1
  · exact le_trans (clamp_between _ w e.lo e.hi hwe.1 hwe.2).2 (max_le hp4 hwb.2)

end generic

/-! ### the unfolded interval, the ball, the hull -/

/-- `hardStep` without the equality folding -/
def unfoldedStep (o : HOpts) (g : Goal) (s : Sol) (gj i : Nat) : EIvl :=
  if g.hasTargetBounds then
    if vtFires o (s.eps gj i + o.violationRelaxation) then fixedStep o g (s.fval g.fk i)
    else ⟨subFin (targetLo g (s.eps gj i + o.violationRelaxation) i) o.constraintRelaxation,
          addFin (targetHi g (s.eps gj i + o.violationRelaxation) i) o.constraintRelaxation⟩
  else hardMinStep o g (s.fval g.fk i)

/-- `[v - thr/2, v + thr/2]` around the scaled value of the solution at a key -/
def ball (o : HOpts) (nomOf : String → Rat) (s : Sol) (k : Key) : EIvl :=
  ⟨EVal.fin (s.fval k.1 k.2 / nomOf k.1 - o.equalityThreshold / 2),
   EVal.fin (s.fval k.1 k.2 / nomOf k.1 + o.equalityThreshold / 2)⟩

/-- hull of the unfolded interval and the ball: what is retained when folding may trigger -/
def hullStep (o : HOpts) (nomOf : String → Rat) (g : Goal) (s : Sol) (gj i : Nat) : EIvl :=
  ⟨min (unfoldedStep o g s gj i).lo (ball o nomOf s (g.fk, i)).lo,
   max (unfoldedStep o g s gj i).hi (ball o nomOf s (g.fk, i)).hi⟩

theorem scaled_mem_ball (o : HOpts) (nomOf : String → Rat) (s : Sol) (k : Key)
    (hthr : 0 ≤ o.equalityThreshold) : Ivl.mem (scaled nomOf s k) (ball o nomOf s k) := by
  simp only [Ivl.mem, scaled, ball, EVal.le_fin_fin]
  constructor <;> linarith

/-- what the conversion of goal `g` at step `i` needs (all consequences of solver feasibility,
    see `stepFacts_of_feasible`) -/
structure StepFacts (o : HOpts) (nomOf : String → Rat) (g : Goal) (s : Sol) (gj i : Nat) : Prop where
  new_ok : Ivl.ok (hardStep o g s gj i)
  new_sub : Ivl.sub (hardStep o g s gj i) (unfoldedStep o g s gj i)
  meets_lo : (hardStep o g s gj i).lo ≤ (ball o nomOf s (g.fk, i)).hi
  meets_hi : (ball o nomOf s (g.fk, i)).lo ≤ (hardStep o g s gj i).hi
  ball_ok : (ball o nomOf s (g.fk, i)).lo ≤ (ball o nomOf s (g.fk, i)).hi

/-- every entry of the store meets the ball of its key -/
def NearStore (o : HOpts) (nomOf : String → Rat) (s : Sol) (st : Store) : Prop :=
  ∀ k e, st.get k = some e → ∃ w, Ivl.mem w e ∧ Ivl.mem w (ball o nomOf s k)

theorem NearStore.of_sat {o : HOpts} {nomOf : String → Rat} {s : Sol} {st : Store}
    (hthr : 0 ≤ o.equalityThreshold) (h : SatStore nomOf s st) : NearStore o nomOf s st :=
  fun k e he => ⟨scaled nomOf s k, h k e he, scaled_mem_ball o nomOf s k hthr⟩

/-- the store retains goal `g` (converted with solution `s`) at step `i`, up to the folding slack -/
def RetH (o : HOpts) (nomOf : String → Rat) (st : Store) (g : Goal) (s : Sol) (gj i : Nat) : Prop :=
  ∃ e, st.get (g.fk, i) = some e ∧ Ivl.ok e ∧ Ivl.sub e (hullStep o nomOf g s gj i)

theorem RetH.of_shrinks {o : HOpts} {nomOf : String → Rat} {st st' : Store} {g : Goal} {s : Sol}
    {gj i : Nat} (h : Shrinks st st') (hr : RetH o nomOf st g s gj i) : RetH o nomOf st' g s gj i := by
  obtain ⟨e, he, hok, hsub⟩ := hr
  obtain ⟨e', he', hok', hsub'⟩ := h _ e he hok
  exact ⟨e', he', hok', Ivl.sub_trans hsub' hsub⟩

theorem storeOther_establishH (o : HOpts) (nomOf : String → Rat) (s : Sol) (st : Store)
    (g : Goal) (gj i : Nat) (hnear : NearStore o nomOf s st) (hf : StepFacts o nomOf g s gj i) :
    NearStore o nomOf s (storeOther st (g.fk, i) (hardStep o g s gj i)) ∧
      RetH o nomOf (storeOther st (g.fk, i) (hardStep o g s gj i)) g s gj i := by
  have hsubH : Ivl.sub (hardStep o g s gj i) (hullStep o nomOf g s gj i) :=
    ⟨le_trans (min_le_left _ _) hf.new_sub.1, le_trans hf.new_sub.2 (le_max_left _ _)⟩
  unfold storeOther
  cases hg : st.get (g.fk, i) with
  | none =>
    refine ⟨?_, hardStep o g s gj i, get_set_same _ _ _, hf.new_ok, hsubH⟩
    intro k' e he
    by_cases hk : k' = (g.fk, i)
    · subst hk
      rw [get_set_same] at he
      cases he
      -- max new.lo ball.lo lies in both
      exact ⟨max (hardStep o g s gj i).lo (ball o nomOf s (g.fk, i)).lo,
        ⟨le_max_left _ _, max_le hf.new_ok hf.meets_hi⟩,
        ⟨le_max_right _ _, max_le hf.meets_lo hf.ball_ok⟩⟩
    · rw [get_set_other _ _ _ _ hk] at he
      exact hnear k' e he
  | some ex =>
    obtain ⟨w, hwe, hwb⟩ := hnear _ ex hg
    refine ⟨?_, updateBounds (hardStep o g s gj i) ex false, get_set_same _ _ _, ub_ok _ _ _, ?_⟩
    · intro k' e he
      by_cases hk : k' = (g.fk, i)
      · subst hk
        rw [get_set_same] at he
        cases he
        exact ub_other_near _ ex _ w hf.new_ok hwe hwb hf.meets_lo hf.meets_hi
      · rw [get_set_other _ _ _ _ hk] at he
        exact hnear k' e he
    · exact ub_other_within_hull _ ex _ _ w hf.new_ok hsubH.1 hsubH.2
        (le_trans (min_le_right _ _) hwb.1) (le_trans hwb.2 (le_max_right _ _)) hwe

/-- converting the steps `is` of one goal -/
theorem convertSteps_specH (o : HOpts) (nomOf : String → Rat) (s : Sol) (g : Goal) (gj : Nat) :
    ∀ (is : List Nat) (st : Store), NearStore o nomOf s st → (∀ i ∈ is, StepFacts o nomOf g s gj i) →
      NearStore o nomOf s (is.foldl (fun st i => storeOther st (g.fk, i) (hardStep o g s gj i)) st) ∧
      ∀ i ∈ is, RetH o nomOf
        (is.foldl (fun st i => storeOther st (g.fk, i) (hardStep o g s gj i)) st) g s gj i := by
  intro is
  induction is with
  | nil => intro st hn _; exact ⟨hn, by simp⟩
  | cons i rest ih =>
    intro st hn hv
    obtain ⟨hn1, hr1⟩ := storeOther_establishH o nomOf s st g gj i hn (hv i (by simp))
    obtain ⟨hn2, hret⟩ := ih _ hn1 (fun j hj => hv j (by simp [hj]))
    refine ⟨hn2, ?_⟩
    intro j hj
    rcases List.mem_cons.1 hj with rfl | hj
    · have hsh := foldl_shrinks (fun st i => storeOther st (g.fk, i) (hardStep o g s gj i))
        (fun st i => storeOther_shrinks st _ _) rest (storeOther st (g.fk, j) (hardStep o g s gj j))
      exact RetH.of_shrinks hsh hr1
    · exact hret j hj

theorem convertGoal_specH (o : HOpts) (n : Nat) (nomOf : String → Rat) (s : Sol) (g : Goal) (gj : Nat)
    (st : Store) (hn : NearStore o nomOf s st)
    (hv : g.critical = false → ∀ i < n, StepFacts o nomOf g s gj i) :
    NearStore o nomOf s (convertGoal o n s st gj g) ∧
      (g.critical = false → ∀ i < n, RetH o nomOf (convertGoal o n s st gj g) g s gj i) := by
  unfold convertGoal
  cases hc : g.critical with
  | true => simp [hn]
  | false =>
    simp only [Bool.false_eq_true, if_false]
    obtain ⟨h1, h2⟩ := convertSteps_specH o nomOf s g gj (List.range n) st hn
      (fun i hi => hv hc i (List.mem_range.1 hi))
    exact ⟨h1, fun _ i hi => h2 i (List.mem_range.2 hi)⟩

theorem convertFrom_specH (o : HOpts) (n : Nat) (nomOf : String → Rat) (s : Sol) :
    ∀ (gs : List Goal) (st : Store) (gj0 : Nat), NearStore o nomOf s st →
      (∀ j g, gs[j]? = some g → g.critical = false → ∀ i < n, StepFacts o nomOf g s (gj0 + j) i) →
      NearStore o nomOf s (convertFrom o n s st gj0 gs) ∧
      ∀ j g, gs[j]? = some g → g.critical = false → ∀ i < n,
        RetH o nomOf (convertFrom o n s st gj0 gs) g s (gj0 + j) i := by
  intro gs
  induction gs with
  | nil => intro st gj0 hn _; exact ⟨hn, by simp⟩
  | cons g rest ih =>
    intro st gj0 hn hv
    simp only [convertFrom]
    obtain ⟨hn1, hret1⟩ := convertGoal_specH o n nomOf s g gj0 st hn
      (fun hc i hi => by simpa using hv 0 g (by simp) hc i hi)
    obtain ⟨hn2, hret2⟩ := ih (convertGoal o n s st gj0 g) (gj0 + 1) hn1
      (fun j g' hg' hc i hi => by
        have := hv (j + 1) g' (by simpa using hg') hc i hi
        rwa [show gj0 + (j + 1) = gj0 + 1 + j by omega] at this)
    refine ⟨hn2, ?_⟩
    intro j g' hg' hc i hi
    cases j with
    | zero =>
      simp only [List.getElem?_cons_zero, Option.some.injEq] at hg'
      subst hg'
      exact RetH.of_shrinks (convertFrom_shrinks o n s rest _ _) (hret1 hc i hi)
    | succ j =>
      have := hret2 j g' (by simpa using hg') hc i hi
      rwa [show gj0 + 1 + j = gj0 + (j + 1) by omega] at this

/-! ### the loop over a family of stores -/

section multi
variable {ι : Type}

def InvM (o : HOpts) (n : ι → Nat) (nomOf : String → Rat) (st : ι → Store)
    (done : List ((ι → List Goal) × (ι → Sol))) : Prop :=
  ∀ j, ∀ p ∈ done, ∀ gj g, (p.1 j)[gj]? = some g → g.critical = false → ∀ i < n j,
    RetH o nomOf (st j) g (p.2 j) gj i

/-- for every store index (member, kind): the solution of every later priority lies, for every
    goal of every earlier priority, in the hull of the interval retained for it and the folding ball -/
def NoDegrM (o : HOpts) (n : ι → Nat) (nomOf : String → Rat)
    (done : List ((ι → List Goal) × (ι → Sol))) : Prop :=
  ∀ (j : ι) (a b : Nat) (pa pb : (ι → List Goal) × (ι → Sol)), a < b →
    done[a]? = some pa → done[b]? = some pb →
    ∀ gj g, (pa.1 j)[gj]? = some g → g.critical = false → ∀ i < n j,
      Ivl.mem (scaled nomOf (pb.2 j) (g.fk, i)) (hullStep o nomOf g (pa.2 j) gj i)

def ContractM (o : HOpts) (n : ι → Nat) (nomOf : String → Rat)
    (oracle : (ι → Store) → (ι → List Goal) → Option (ι → Sol)) (P : List (ι → List Goal)) : Prop :=
  ∀ st gs s, gs ∈ P → oracle st gs = some s → ∀ j, SatStore nomOf (s j) (st j) ∧
    ∀ gj g, (gs j)[gj]? = some g → g.critical = false → ∀ i < n j, StepFacts o nomOf g (s j) gj i

theorem runLoopM_noDegr (o : HOpts) (n : ι → Nat) (nomOf : String → Rat)
    (oracle : (ι → Store) → (ι → List Goal) → Option (ι → Sol)) (P : List (ι → List Goal))
    (hthr : 0 ≤ o.equalityThreshold) (hc : ContractM o n nomOf oracle P) :
    ∀ (prios : List (ι → List Goal)) (st : ι → Store) (done : List ((ι → List Goal) × (ι → Sol))),
      (∀ gs ∈ prios, gs ∈ P) → InvM o n nomOf st done → NoDegrM o n nomOf done →
      NoDegrM o n nomOf (runLoopM o n oracle prios st done).1 := by
  intro prios
  induction prios with
  | nil => intro st done _ _ hnd; simpa [runLoopM] using hnd
  | cons gs rest ih =>
    intro st done hP hinv hnd
    simp only [runLoopM]
    have hsh1 : ∀ j, Shrinks (st j) (insertCriticals o (n j) (st j) (gs j)) :=
      fun j => insertCriticals_shrinks o (n j) (st j) (gs j)
    cases ho : oracle (fun j => insertCriticals o (n j) (st j) (gs j)) gs with
    | none => simpa using hnd
    | some s =>
      simp only []
      have hcs := hc _ _ _ (hP gs (by simp)) ho
      apply ih
      · exact fun g hg => hP g (by simp [hg])
      · intro j p hp gj g hg hcrit i hi
        rcases List.mem_append.1 hp with hp | hp
        · exact RetH.of_shrinks ((hsh1 j).trans (convertFrom_shrinks o (n j) (s j) (gs j) _ 0))
            (hinv j p hp gj g hg hcrit i hi)
        · simp only [List.mem_singleton] at hp
          subst hp
          have := (convertFrom_specH o (n j) nomOf (s j) (gs j) _ 0
            (NearStore.of_sat hthr (hcs j).1)
            (fun j' g hg hc i hi => by simpa using (hcs j).2 j' g hg hc i hi)).2 gj g hg hcrit i hi
          simpa [convertAll] using this
      · intro j a b pa pb hab ha hb gj g hg hcrit i hi
        by_cases hb' : b < done.length
        · have ha' : a < done.length := by omega
          rw [List.getElem?_append_left ha'] at ha
          rw [List.getElem?_append_left hb'] at hb
          exact hnd j a b pa pb hab ha hb gj g hg hcrit i hi
        · have hbl : b = done.length := by
            have := (List.getElem?_eq_some_iff.1 hb).1
            simp at this
            omega
          subst hbl
          simp only [List.getElem?_append_right (le_refl _), Nat.sub_self, List.getElem?_cons_zero,
            Option.some.injEq] at hb
          subst hb
          rw [List.getElem?_append_left hab] at ha
          have hmem : pa ∈ done := List.mem_of_getElem? ha
          obtain ⟨e, he, _, hsub⟩ := RetH.of_shrinks (hsh1 j) (hinv j pa hmem gj g hg hcrit i hi)
          exact Ivl.mem_of_sub hsub ((hcs j).1 _ e he)

end multi

/-! ### from solver feasibility to `StepFacts` -/

theorem ninf_le (x : EVal) : EVal.ninf ≤ x := by simp [EVal.le_def, EVal.le]
theorem le_pinf (x : EVal) : x ≤ EVal.pinf := by cases x <;> simp [EVal.le_def, EVal.le]

theorem subFin_le (x : EVal) (c : Rat) (hc : 0 ≤ c) : subFin x c ≤ x := by
  cases x with
  | fin q => simp only [subFin, EVal.le_fin_fin]; linarith
  | ninf => exact le_refl _
  | pinf => exact le_refl _

theorem le_addFin (x : EVal) (c : Rat) (hc : 0 ≤ c) : x ≤ addFin x c := by
  cases x with
  | fin q => simp only [addFin, EVal.le_fin_fin]; linarith
  | ninf => exact le_refl _
  | pinf => exact le_refl _

theorem subFin_mono (x y : EVal) (c : Rat) (h : x ≤ y) : subFin x c ≤ subFin y c := by
  cases x <;> cases y <;> simp_all [subFin, EVal.le_def, EVal.le]

theorem addFin_mono (x y : EVal) (c : Rat) (h : x ≤ y) : addFin x c ≤ addFin y c := by
  cases x <;> cases y <;> simp_all [addFin, EVal.le_def, EVal.le]

/-- the folding step around a value `v` with `m0 ≤ v ≤ M0`: the result stays inside `[m0, M0]`,
    is consistent, and meets `[v - thr/2, v + thr/2]` -/
theorem foldEq_facts (thr : Rat) (both : Bool) (m0 M0 : EVal) (v : Rat) (hthr : 0 ≤ thr)
    (h1 : m0 ≤ EVal.fin v) (h2 : EVal.fin v ≤ M0) :
    (foldEq thr both m0 M0).1 ≤ (foldEq thr both m0 M0).2 ∧ m0 ≤ (foldEq thr both m0 M0).1 ∧
    (foldEq thr both m0 M0).2 ≤ M0 ∧ (foldEq thr both m0 M0).1 ≤ EVal.fin (v + thr / 2) ∧
    EVal.fin (v - thr / 2) ≤ (foldEq thr both m0 M0).2 := by
  have hup : EVal.fin v ≤ EVal.fin (v + thr / 2) := by simp only [EVal.le_fin_fin]; linarith
  have hdn : EVal.fin (v - thr / 2) ≤ EVal.fin v := by simp only [EVal.le_fin_fin]; linarith
  have hplain : m0 ≤ M0 ∧ m0 ≤ m0 ∧ M0 ≤ M0 ∧ m0 ≤ EVal.fin (v + thr / 2) ∧ EVal.fin (v - thr / 2) ≤ M0 :=
    ⟨le_trans h1 h2, le_refl _, le_refl _, le_trans h1 hup, le_trans hdn h2⟩
  unfold foldEq
  split
  · rename_i a b
    split
    · rename_i hf
      simp only [Bool.and_eq_true, decide_eq_true_eq] at hf
      have ha : a ≤ v := (EVal.le_fin_fin _ _).1 h1
      have hb : v ≤ b := (EVal.le_fin_fin _ _).1 h2
      have hq : b - a < thr := by
        have := hf.2
        unfold qabs at this
        split at this <;> linarith
      simp only [EVal.le_fin_fin]
      refine ⟨le_refl _, ?_, ?_, ?_, ?_⟩ <;> linarith
    · exact hplain
  · exact hplain

/-- the two ends of the pre-relaxation interval bracket the achieved value -/
theorem value_in_pre (o : HOpts) (nomOf : String → Rat) (g : Goal) (s : Sol) (gj i : Nat)
    (hcrit : g.critical = false) (hs : Sane nomOf g) (hvr : 0 ≤ o.violationRelaxation)
    (ht : g.hasTargetBounds = true) (hsoft : SoftOK g s gj i) :
    targetLo g (s.eps gj i + o.violationRelaxation) i ≤ EVal.fin (s.fval g.fk i / nomOf g.fk) ∧
    EVal.fin (s.fval g.fk i / nomOf g.fk) ≤ targetHi g (s.eps gj i + o.violationRelaxation) i := by
  have hnom := hs.nom_pos
  obtain ⟨lo, hlo⟩ := hs.lo_fin ht
  obtain ⟨hi, hhi⟩ := hs.hi_fin ht
  obtain ⟨hs1, hs2⟩ := hsoft
  constructor
  · rcases targetLo_cases g (s.eps gj i + o.violationRelaxation) i with h | ⟨tm, hm, htm, hval⟩
    · rw [h]; exact ninf_le _
    · rw [hval]
      obtain ⟨hlt, habs⟩ := hs.tmin_ok i tm lo htm hlo
      have hrow := hs1 tm lo hm htm hlo
      rw [softRow_active _ _ _ _ _ habs, hs.nom_eq] at hrow
      have h1 : 0 ≤ s.fval g.fk i - s.eps gj i * (lo - tm) - tm := by
        have := mul_nonneg hrow (le_of_lt hnom)
        rwa [div_mul_cancel₀ _ (ne_of_gt hnom)] at this
      rw [hcrit, hlo, hs.nom_eq]
      simp only [Bool.false_eq_true, if_false, finVal, EVal.le_fin_fin]
      apply div_le_div_of_nonneg_right _ (le_of_lt hnom)
      have : o.violationRelaxation * (lo - tm) ≤ 0 :=
        mul_nonpos_of_nonneg_of_nonpos hvr (by linarith)
      nlinarith [hs.relax_nonneg]
  · rcases targetHi_cases g (s.eps gj i + o.violationRelaxation) i with h | ⟨tM, hm, htM, hval⟩
    · rw [h]; exact le_pinf _
    · rw [hval]
      obtain ⟨hlt, habs⟩ := hs.tmax_ok i tM hi htM hhi
      have hrow := hs2 tM hi hm htM hhi
      rw [softRow_active _ _ _ _ _ habs, hs.nom_eq] at hrow
      have h1 : s.fval g.fk i - s.eps gj i * (hi - tM) - tM ≤ 0 := by
        have := mul_nonpos_of_nonpos_of_nonneg hrow (le_of_lt hnom)
        rwa [div_mul_cancel₀ _ (ne_of_gt hnom)] at this
      rw [hcrit, hhi, hs.nom_eq]
      simp only [Bool.false_eq_true, if_false, finVal, EVal.le_fin_fin]
      apply div_le_div_of_nonneg_right _ (le_of_lt hnom)
      have : 0 ≤ o.violationRelaxation * (hi - tM) := mul_nonneg hvr (by linarith)
      nlinarith [hs.relax_nonneg]

/-- **solver feasibility gives everything the conversion needs — folding included** -/
theorem stepFacts_of_feasible (o : HOpts) (nomOf : String → Rat) (g : Goal) (s : Sol) (gj i : Nat)
    (hcrit : g.critical = false) (hs : Sane nomOf g) (hvr : 0 ≤ o.violationRelaxation)
    (hcr : 0 ≤ o.constraintRelaxation) (hthr : 0 ≤ o.equalityThreshold)
    (hsoft : g.hasTargetBounds = true → SoftOK g s gj i) : StepFacts o nomOf g s gj i := by
  have hball := scaled_mem_ball o nomOf s (g.fk, i) hthr
  have hbok : (ball o nomOf s (g.fk, i)).lo ≤ (ball o nomOf s (g.fk, i)).hi := le_trans hball.1 hball.2
  -- branches without folding: `hardStep = unfoldedStep ∋ v`
  have plain : hardStep o g s gj i = unfoldedStep o g s gj i → ValueIn o nomOf g s gj i →
      StepFacts o nomOf g s gj i := by
    intro heq hv
    unfold ValueIn at hv
    refine ⟨le_trans hv.1 hv.2, ?_, le_trans hv.1 hball.2, le_trans hball.1 hv.2, hbok⟩
    rw [heq]; exact Ivl.sub_refl _
  cases ht : g.hasTargetBounds with
  | false =>
    apply plain
    · simp [hardStep, unfoldedStep, ht]
    · exact valueIn_of_feasible o nomOf g s gj i hcrit hs hvr hcr
        (fun h => by rw [ht] at h; cases h) (fun h => by rw [ht] at h; cases h)
  | true =>
    cases hvt : vtFires o (s.eps gj i + o.violationRelaxation) with
    | true =>
      apply plain
      · simp [hardStep, unfoldedStep, ht, hvt]
      · exact valueIn_of_feasible o nomOf g s gj i hcrit hs hvr hcr hsoft
          (fun _ h => by rw [hvt] at h; cases h)
    | false =>
      obtain ⟨hp1, hp2⟩ := value_in_pre o nomOf g s gj i hcrit hs hvr ht (hsoft ht)
      obtain ⟨f1, f2, f3, f4, f5⟩ := foldEq_facts o.equalityThreshold (g.hasMin && g.hasMax) _ _ _ hthr hp1 hp2
      have hN : hardStep o g s gj i =
          ⟨subFin (foldEq o.equalityThreshold (g.hasMin && g.hasMax)
              (targetLo g (s.eps gj i + o.violationRelaxation) i)
              (targetHi g (s.eps gj i + o.violationRelaxation) i)).1 o.constraintRelaxation,
           addFin (foldEq o.equalityThreshold (g.hasMin && g.hasMax)
              (targetLo g (s.eps gj i + o.violationRelaxation) i)
              (targetHi g (s.eps gj i + o.violationRelaxation) i)).2 o.constraintRelaxation⟩ := by
        simp [hardStep, ht, hvt, hardTargetStep]
      have hU : unfoldedStep o g s gj i =
          ⟨subFin (targetLo g (s.eps gj i + o.violationRelaxation) i) o.constraintRelaxation,
           addFin (targetHi g (s.eps gj i + o.violationRelaxation) i) o.constraintRelaxation⟩ := by
        simp [unfoldedStep, ht, hvt]
      have hb : ball o nomOf s (g.fk, i) =
          ⟨EVal.fin (s.fval g.fk i / nomOf g.fk - o.equalityThreshold / 2),
           EVal.fin (s.fval g.fk i / nomOf g.fk + o.equalityThreshold / 2)⟩ := rfl
      refine ⟨?_, ?_, ?_, ?_, hbok⟩
      · rw [hN]
        exact le_trans (subFin_le _ _ hcr) (le_trans f1 (le_addFin _ _ hcr))
      · rw [hN, hU]
        exact ⟨subFin_mono _ _ _ f2, addFin_mono _ _ _ f3⟩
      · rw [hN, hb]
        exact le_trans (subFin_le _ _ hcr) f4
      · rw [hN, hb]
        exact le_trans f5 (le_addFin _ _ hcr)

end RtcVerif.C02
