import RtcVerif.Model.C02KeepSoft
import RtcVerif.Proofs.NumOrder
import Mathlib.Algebra.Order.Field.Basic
import Mathlib.Tactic.Linarith
/-! Lemmas about the retained objective rows of the keep_soft / single-pass loops. -/
namespace RtcVerif.C02

/-- the solution satisfies every retained objective row -/
def SatRows (s : ObjSol) (rows : List ObjRow) : Prop :=
  ∀ r ∈ rows, r.lo ≤ EVal.fin (s r.k) ∧ EVal.fin (s r.k) ≤ r.hi

/-- every solved priority's objective is retained in every later solution -/
def ObjNoDegr (fix : Bool) (cr : Rat) (k0 : Nat) (done : List ObjSol) : Prop :=
  ∀ (a b : Nat) (sa sb : ObjSol), a < b → done[a]? = some sa → done[b]? = some sb →
    sb (k0 + a) ≤ sa (k0 + a) + (if fix then 0 else cr) ∧ (fix = true → sb (k0 + a) = sa (k0 + a))

theorem objRow_sat (fix : Bool) (cr : Rat) (k : Nat) (v x : Rat)
    (h : (objRow fix cr k v).lo ≤ EVal.fin x ∧ EVal.fin x ≤ (objRow fix cr k v).hi) :
    x ≤ v + (if fix then 0 else cr) ∧ (fix = true → x = v) := by
  cases fix with
  | true =>
    simp only [objRow, if_true, EVal.le_fin_fin] at h
    exact ⟨by simp; exact h.2, fun _ => le_antisymm h.2 h.1⟩
  | false =>
    simp only [objRow, Bool.false_eq_true, if_false, EVal.le_fin_fin] at h
    exact ⟨h.2, fun hf => by cases hf⟩

theorem objRow_k (fix : Bool) (cr : Rat) (k : Nat) (v : Rat) : (objRow fix cr k v).k = k := by
  cases fix <;> rfl

theorem appendLoop_noDegr (fix : Bool) (cr : Rat) (oracle : List ObjRow → Nat → Option ObjSol)
    (hc : ∀ rows k s, oracle rows k = some s → SatRows s rows) (k0 : Nat) :
    ∀ (m : Nat) (rows : List ObjRow) (done : List ObjSol),
      (∀ a sa, done[a]? = some sa → objRow fix cr (k0 + a) (sa (k0 + a)) ∈ rows) →
      ObjNoDegr fix cr k0 done →
      ObjNoDegr fix cr k0 (appendLoop fix cr oracle m (k0 + done.length) rows done).1 := by
  intro m
  induction m with
  | zero => intro rows done _ h; simpa [appendLoop] using h
  | succ m ih =>
    intro rows done hrows hnd
    simp only [appendLoop]
    cases ho : oracle rows (k0 + done.length) with
    | none => simpa using hnd
    | some s =>
      simp only []
      have hsat := hc _ _ _ ho
      have := ih (rows ++ [objRow fix cr (k0 + done.length) (s (k0 + done.length))]) (done ++ [s]) ?_ ?_
      · simpa [Nat.add_assoc] using this
      · intro a sa ha
        by_cases hlt : a < done.length
        · rw [List.getElem?_append_left hlt] at ha
          exact List.mem_append_left _ (hrows a sa ha)
        · have hal : a = done.length := by
            have := (List.getElem?_eq_some_iff.1 ha).1
            simp at this
            omega
          subst hal
          simp only [List.getElem?_append_right (le_refl _), Nat.sub_self, List.getElem?_cons_zero,
            Option.some.injEq] at ha
          subst ha
          simp
      · intro a b sa sb hab ha hb
        by_cases hb' : b < done.length
        · rw [List.getElem?_append_left (by omega)] at ha
          rw [List.getElem?_append_left hb'] at hb
          exact hnd a b sa sb hab ha hb
        · have hbl : b = done.length := by
            have := (List.getElem?_eq_some_iff.1 hb).1
            simp at this
            omega
          subst hbl
          simp only [List.getElem?_append_right (le_refl _), Nat.sub_self, List.getElem?_cons_zero,
            Option.some.injEq] at hb
          subst hb
          rw [List.getElem?_append_left hab] at ha
          have hrow := hsat _ (hrows a sa ha)
          rw [objRow_k] at hrow
          exact objRow_sat fix cr _ _ _ hrow

theorem updateLoop_noDegr (fix : Bool) (cr : Rat) (oracle : List ObjRow → Nat → Option ObjSol)
    (hc : ∀ rows k s, oracle rows k = some s → SatRows s rows) :
    ∀ (m : Nat) (rows : List ObjRow) (done : List ObjSol),
      done.length + m ≤ rows.length →
      (∀ a sa, done[a]? = some sa → rows[a]? = some (objRow fix cr a (sa a))) →
      ObjNoDegr fix cr 0 done →
      ObjNoDegr fix cr 0 (updateLoop fix cr oracle m done.length rows done).1 := by
  intro m
  induction m with
  | zero => intro rows done _ _ h; simpa [updateLoop] using h
  | succ m ih =>
    intro rows done hlen hrows hnd
    simp only [updateLoop]
    cases ho : oracle rows done.length with
    | none => simpa using hnd
    | some s =>
      simp only []
      have hsat := hc _ _ _ ho
      have := ih (rows.set done.length (objRow fix cr done.length (s done.length))) (done ++ [s]) ?_ ?_ ?_
      · simpa using this
      · simp only [List.length_append, List.length_cons, List.length_nil, List.length_set]
        omega
      · intro a sa ha
        by_cases hlt : a < done.length
        · rw [List.getElem?_append_left hlt] at ha
          rw [List.getElem?_set_ne (by omega)]
          exact hrows a sa ha
        · have hal : a = done.length := by
            have := (List.getElem?_eq_some_iff.1 ha).1
            simp at this
            omega
          subst hal
          simp only [List.getElem?_append_right (le_refl _), Nat.sub_self, List.getElem?_cons_zero,
            Option.some.injEq] at ha
          subst ha
          rw [List.getElem?_set_self (by omega)]
      · intro a b sa sb hab ha hb
        by_cases hb' : b < done.length
        · rw [List.getElem?_append_left (by omega)] at ha
          rw [List.getElem?_append_left hb'] at hb
          simpa using hnd a b sa sb hab ha hb
        · have hbl : b = done.length := by
            have := (List.getElem?_eq_some_iff.1 hb).1
            simp at this
            omega
          subst hbl
          simp only [List.getElem?_append_right (le_refl _), Nat.sub_self, List.getElem?_cons_zero,
            Option.some.injEq] at hb
          subst hb
          rw [List.getElem?_append_left hab] at ha
          have hrow := hsat _ (List.mem_of_getElem? (hrows a sa ha))
          rw [objRow_k] at hrow
          simpa using objRow_sat fix cr _ _ _ hrow

end RtcVerif.C02
