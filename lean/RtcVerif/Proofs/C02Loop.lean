import RtcVerif.Model.C02Loop
import RtcVerif.Proofs.C04Store
import RtcVerif.Proofs.C04Rows
import Mathlib.Algebra.Order.Field.Basic
import Mathlib.Tactic.Linarith
import Mathlib.Tactic.Ring
/-!
Lemmas about the store of the priority loop: `get`/`set`, monotonicity (`Shrinks`), the
"retained" invariant and its establishment / preservation by the loop's operations.
-/
namespace RtcVerif.C02
open RtcVerif RtcVerif.C04

/-! ### get / set -/

theorem get_set_same (st : Store) (k : Key) (v : EIvl) : (st.set k v).get k = some v := by
  induction st with
  | nil => simp [Store.set, Store.get]
  | cons kv rest ih =>
    obtain ⟨k', w⟩ := kv
    by_cases h : k' = k
    · subst h
      simp [Store.set, Store.get]
    · have h1 : (k' == k) = false := by simpa using h
      have h2 : (k == k') = false := by simpa using (fun e : k = k' => h e.symm)
      simp only [Store.set, h1, Bool.false_eq_true, if_false, Store.get, List.lookup_cons, h2]
      exact ih

theorem get_set_other (st : Store) (k k' : Key) (v : EIvl) (hne : k' ≠ k) :
    (st.set k v).get k' = st.get k' := by
  induction st with
  | nil =>
    have : (k' == k) = false := by simpa using hne
    simp only [Store.set, Store.get, List.lookup_cons, this, List.lookup_nil]
  | cons kv rest ih =>
    obtain ⟨k0, w⟩ := kv
    by_cases h : k0 = k
    · subst h
      have : (k' == k0) = false := by simpa using hne
      simp only [Store.set, beq_self_eq_true, if_true, Store.get, List.lookup_cons, this]
    · have h1 : (k0 == k) = false := by simpa using h
      simp only [Store.set, h1, Bool.false_eq_true, if_false, Store.get, List.lookup_cons]
      cases hb : (k' == k0) with
      | true => rfl
      | false => exact ih

/-! ### monotone stores -/

/-- `st'` keeps every (consistent) entry of `st`, possibly tightened -/
def Shrinks (st st' : Store) : Prop :=
  ∀ k e, st.get k = some e → Ivl.ok e → ∃ e', st'.get k = some e' ∧ Ivl.ok e' ∧ Ivl.sub e' e

theorem Shrinks.refl (st : Store) : Shrinks st st :=
  fun _ e h hok => ⟨e, h, hok, Ivl.sub_refl e⟩

theorem Shrinks.trans {a b c : Store} (h1 : Shrinks a b) (h2 : Shrinks b c) : Shrinks a c := by
  intro k e he hok
  obtain ⟨e1, hg1, ok1, s1⟩ := h1 k e he hok
  obtain ⟨e2, hg2, ok2, s2⟩ := h2 k e1 hg1 ok1
  exact ⟨e2, hg2, ok2, Ivl.sub_trans s2 s1⟩

theorem storeOther_shrinks (st : Store) (k : Key) (new : EIvl) : Shrinks st (storeOther st k new) := by
  intro k' e he hok
  unfold storeOther
  by_cases hk : k' = k
  · subst hk
    rw [he]
    refine ⟨updateBounds new e false, get_set_same _ _ _, ?_, ?_⟩
    · exact ub_ok new e false
    · exact ub_other_sub new e hok
  · cases hg : st.get k with
    | none => exact ⟨e, by rw [get_set_other _ _ _ _ hk]; exact he, hok, Ivl.sub_refl e⟩
    | some ex => exact ⟨e, by rw [get_set_other _ _ _ _ hk]; exact he, hok, Ivl.sub_refl e⟩

theorem storeSelf_shrinks (st : Store) (k : Key) (new : EIvl) : Shrinks st (storeSelf st k new) := by
  intro k' e he hok
  unfold storeSelf
  by_cases hk : k' = k
  · subst hk
    rw [he]
    refine ⟨updateBounds e new true, get_set_same _ _ _, ?_, ?_⟩
    · exact ub_ok e new true
    · exact ub_self_sub e new hok
  · cases hg : st.get k with
    | none => exact ⟨e, by rw [get_set_other _ _ _ _ hk]; exact he, hok, Ivl.sub_refl e⟩
    | some ex => exact ⟨e, by rw [get_set_other _ _ _ _ hk]; exact he, hok, Ivl.sub_refl e⟩

theorem foldl_shrinks {β : Type} (f : Store → β → Store) (hf : ∀ st b, Shrinks st (f st b)) :
    ∀ (l : List β) (st : Store), Shrinks st (l.foldl f st) := by
  intro l
  induction l with
  | nil => intro st; exact Shrinks.refl st
  | cons b rest ih => intro st; exact (hf st b).trans (ih (f st b))

theorem convertGoal_shrinks (o : HOpts) (n : Nat) (s : Sol) (st : Store) (gj : Nat) (g : Goal) :
    Shrinks st (convertGoal o n s st gj g) := by
  unfold convertGoal
  split
  · exact Shrinks.refl st
  · exact foldl_shrinks _ (fun st i => storeOther_shrinks st _ _) _ st

theorem convertFrom_shrinks (o : HOpts) (n : Nat) (s : Sol) :
    ∀ (gs : List Goal) (st : Store) (gj : Nat), Shrinks st (convertFrom o n s st gj gs) := by
  intro gs
  induction gs with
  | nil => intro st gj; exact Shrinks.refl st
  | cons g rest ih =>
    intro st gj
    exact (convertGoal_shrinks o n s st gj g).trans (ih _ _)

theorem insertCritical_shrinks (o : HOpts) (n : Nat) (st : Store) (g : Goal) :
    Shrinks st (insertCritical o n st g) := by
  unfold insertCritical
  split
  · exact foldl_shrinks _ (fun st i => storeSelf_shrinks st _ _) _ st
  · exact Shrinks.refl st

theorem insertCriticals_shrinks (o : HOpts) (n : Nat) (st : Store) (gs : List Goal) :
    Shrinks st (insertCriticals o n st gs) :=
  foldl_shrinks _ (insertCritical_shrinks o n) gs st

/-- consecutive stores of a run -/
def Chained : List Store → Prop
  | a :: b :: rest => Shrinks a b ∧ Chained (b :: rest)
  | _ => True

/-! ### feasibility, the retained invariant -/

/-- the scaled goal function `f/nominal` of a solution at a store key -/
def scaled (nomOf : String → Rat) (s : Sol) (k : Key) : EVal := EVal.fin (s.fval k.1 k.2 / nomOf k.1)

/-- the solution satisfies every row of the store -/
def SatStore (nomOf : String → Rat) (s : Sol) (st : Store) : Prop :=
  ∀ k e, st.get k = some e → Ivl.mem (scaled nomOf s k) e

/-- the store retains goal `g` (converted with solution `s`) at step `i` -/
def Ret (o : HOpts) (st : Store) (g : Goal) (s : Sol) (gj i : Nat) : Prop :=
  ∃ e, st.get (g.fk, i) = some e ∧ Ivl.ok e ∧ Ivl.sub e (hardStep o g s gj i)

theorem Ret.of_shrinks {o : HOpts} {st st' : Store} {g : Goal} {s : Sol} {gj i : Nat}
    (h : Shrinks st st') (hr : Ret o st g s gj i) : Ret o st' g s gj i := by
  obtain ⟨e, he, hok, hsub⟩ := hr
  obtain ⟨e', he', hok', hsub'⟩ := h _ e he hok
  exact ⟨e', he', hok', Ivl.sub_trans hsub' hsub⟩

/-- the value the solution attains lies in the interval derived from that same solution -/
def ValueIn (o : HOpts) (nomOf : String → Rat) (g : Goal) (s : Sol) (gj i : Nat) : Prop :=
  Ivl.mem (scaled nomOf s (g.fk, i)) (hardStep o g s gj i)

theorem storeOther_establish (nomOf : String → Rat) (s : Sol) (st : Store) (k : Key) (new : EIvl)
    (hsat : SatStore nomOf s st) (hv : Ivl.mem (scaled nomOf s k) new) :
    SatStore nomOf s (storeOther st k new) ∧
      ∃ e, (storeOther st k new).get k = some e ∧ Ivl.ok e ∧ Ivl.sub e new := by
  unfold storeOther
  cases hg : st.get k with
  | none =>
    refine ⟨?_, new, get_set_same _ _ _, le_trans hv.1 hv.2, Ivl.sub_refl _⟩
    intro k' e he
    by_cases hk : k' = k
    · subst hk
      rw [get_set_same] at he
      cases he
      exact hv
    · rw [get_set_other _ _ _ _ hk] at he
      exact hsat k' e he
  | some ex =>
    have hex := hsat k ex hg
    refine ⟨?_, updateBounds new ex false, get_set_same _ _ _, ub_ok _ _ _, (ub_sub_both new ex false _ hv hex).1⟩
    intro k' e he
    by_cases hk : k' = k
    · subst hk
      rw [get_set_same] at he
      cases he
      exact ub_mem new ex false _ hv hex
    · rw [get_set_other _ _ _ _ hk] at he
      exact hsat k' e he

/-- converting the steps `is` of one goal -/
theorem convertSteps_spec (o : HOpts) (nomOf : String → Rat) (s : Sol) (g : Goal) (gj : Nat) :
    ∀ (is : List Nat) (st : Store), SatStore nomOf s st → (∀ i ∈ is, ValueIn o nomOf g s gj i) →
      SatStore nomOf s (is.foldl (fun st i => storeOther st (g.fk, i) (hardStep o g s gj i)) st) ∧
      ∀ i ∈ is, Ret o (is.foldl (fun st i => storeOther st (g.fk, i) (hardStep o g s gj i)) st) g s gj i := by
  intro is
  induction is with
  | nil => intro st hsat _; exact ⟨hsat, by simp⟩
  | cons i rest ih =>
    intro st hsat hv
    obtain ⟨hsat1, e, he, hok, hsub⟩ :=
      storeOther_establish nomOf s st (g.fk, i) (hardStep o g s gj i) hsat (hv i (by simp))
    obtain ⟨hsat2, hret⟩ := ih _ hsat1 (fun j hj => hv j (by simp [hj]))
    refine ⟨hsat2, ?_⟩
    intro j hj
    rcases List.mem_cons.1 hj with rfl | hj
    · have hsh := foldl_shrinks (fun st i => storeOther st (g.fk, i) (hardStep o g s gj i))
        (fun st i => storeOther_shrinks st _ _) rest (storeOther st (g.fk, j) (hardStep o g s gj j))
      exact Ret.of_shrinks hsh ⟨e, he, hok, hsub⟩
    · exact hret j hj

theorem convertGoal_spec (o : HOpts) (n : Nat) (nomOf : String → Rat) (s : Sol) (g : Goal) (gj : Nat)
    (st : Store) (hsat : SatStore nomOf s st)
    (hv : g.critical = false → ∀ i < n, ValueIn o nomOf g s gj i) :
    SatStore nomOf s (convertGoal o n s st gj g) ∧
      (g.critical = false → ∀ i < n, Ret o (convertGoal o n s st gj g) g s gj i) := by
  unfold convertGoal
  cases hc : g.critical with
  | true => simp [hsat]
  | false =>
    simp only [Bool.false_eq_true, if_false]
    obtain ⟨h1, h2⟩ := convertSteps_spec o nomOf s g gj (List.range n) st hsat
      (fun i hi => hv hc i (List.mem_range.1 hi))
    exact ⟨h1, fun _ i hi => h2 i (List.mem_range.2 hi)⟩

theorem convertFrom_spec (o : HOpts) (n : Nat) (nomOf : String → Rat) (s : Sol) :
    ∀ (gs : List Goal) (st : Store) (gj0 : Nat), SatStore nomOf s st →
      (∀ j g, gs[j]? = some g → g.critical = false → ∀ i < n, ValueIn o nomOf g s (gj0 + j) i) →
      SatStore nomOf s (convertFrom o n s st gj0 gs) ∧
      ∀ j g, gs[j]? = some g → g.critical = false → ∀ i < n,
        Ret o (convertFrom o n s st gj0 gs) g s (gj0 + j) i := by
  intro gs
  induction gs with
  | nil => intro st gj0 hsat _; exact ⟨hsat, by simp⟩
  | cons g rest ih =>
    intro st gj0 hsat hv
    simp only [convertFrom]
    obtain ⟨hsat1, hret1⟩ := convertGoal_spec o n nomOf s g gj0 st hsat
      (fun hc i hi => by simpa using hv 0 g (by simp) hc i hi)
    obtain ⟨hsat2, hret2⟩ := ih (convertGoal o n s st gj0 g) (gj0 + 1) hsat1
      (fun j g' hg' hc i hi => by
        have := hv (j + 1) g' (by simpa using hg') hc i hi
        rwa [show gj0 + (j + 1) = gj0 + 1 + j by omega] at this)
    refine ⟨hsat2, ?_⟩
    intro j g' hg' hc i hi
    cases j with
    | zero =>
      simp only [List.getElem?_cons_zero, Option.some.injEq] at hg'
      subst hg'
      exact Ret.of_shrinks (convertFrom_shrinks o n s rest _ _) (hret1 hc i hi)
    | succ j =>
      have := hret2 j g' (by simpa using hg') hc i hi
      rwa [show gj0 + 1 + j = gj0 + (j + 1) by omega] at this

/-! ### the loop -/

/-- every non-critical goal of every completed priority is retained by the store -/
def Inv (o : HOpts) (n : Nat) (st : Store) (done : List (List Goal × Sol)) : Prop :=
  ∀ p ∈ done, ∀ gj g, p.1[gj]? = some g → g.critical = false → ∀ i < n, Ret o st g p.2 gj i

/-- the solution of every later priority lies in the interval retained for every goal of every
    earlier priority -/
def NoDegr (o : HOpts) (n : Nat) (nomOf : String → Rat) (done : List (List Goal × Sol)) : Prop :=
  ∀ (a b : Nat) (pa pb : List Goal × Sol), a < b → done[a]? = some pa → done[b]? = some pb →
    ∀ gj g, pa.1[gj]? = some g → g.critical = false → ∀ i < n,
      Ivl.mem (scaled nomOf pb.2 (g.fk, i)) (hardStep o g pa.2 gj i)

/-- what the loop needs from the solver: its answer satisfies the store rows, and the value it
    attains for a goal of the priority lies in the interval derived from that same answer -/
def Contract (o : HOpts) (n : Nat) (nomOf : String → Rat) (oracle : Store → List Goal → Option Sol)
    (P : List (List Goal)) : Prop :=
  ∀ st gs s, gs ∈ P → oracle st gs = some s → SatStore nomOf s st ∧
    ∀ gj g, gs[gj]? = some g → g.critical = false → ∀ i < n, ValueIn o nomOf g s gj i

theorem runLoop_noDegr (o : HOpts) (n : Nat) (nomOf : String → Rat)
    (oracle : Store → List Goal → Option Sol) (P : List (List Goal)) (hc : Contract o n nomOf oracle P) :
    ∀ (prios : List (List Goal)) (st : Store) (done : List (List Goal × Sol)),
      (∀ gs ∈ prios, gs ∈ P) → Inv o n st done → NoDegr o n nomOf done →
      NoDegr o n nomOf (runLoop o n oracle prios st done).1 := by
  intro prios
  induction prios with
  | nil => intro st done _ _ hnd; simpa [runLoop] using hnd
  | cons gs rest ih =>
    intro st done hP hinv hnd
    simp only [runLoop]
    have hsh1 := insertCriticals_shrinks o n st gs
    cases ho : oracle (insertCriticals o n st gs) gs with
    | none => simpa using hnd
    | some s =>
      simp only []
      obtain ⟨hsat, hval⟩ := hc _ _ _ (hP gs (by simp)) ho
      apply ih
      · exact fun g hg => hP g (by simp [hg])
      · -- invariant for the converted store
        intro p hp gj g hg hcrit i hi
        rcases List.mem_append.1 hp with hp | hp
        · exact Ret.of_shrinks ((hsh1).trans (convertFrom_shrinks o n s gs _ 0)) (hinv p hp gj g hg hcrit i hi)
        · simp only [List.mem_singleton] at hp
          subst hp
          have := (convertFrom_spec o n nomOf s gs (insertCriticals o n st gs) 0 hsat
            (fun j g hg hc i hi => by simpa using hval j g hg hc i hi)).2 gj g hg hcrit i hi
          simpa [convertAll] using this
      · -- the new solution respects everything retained so far
        intro a b pa pb hab ha hb gj g hg hcrit i hi
        by_cases hb' : b < done.length
        · have ha' : a < done.length := by omega
          rw [List.getElem?_append_left ha'] at ha
          rw [List.getElem?_append_left hb'] at hb
          exact hnd a b pa pb hab ha hb gj g hg hcrit i hi
        · have hbl : b = done.length := by
            have := (List.getElem?_eq_some_iff.1 hb).1
            simp at this
            omega
          subst hbl
          simp only [List.getElem?_append_right (le_refl _), Nat.sub_self, List.getElem?_cons_zero,
            Option.some.injEq] at hb
          subst hb
          rw [List.getElem?_append_left hab] at ha
          have hmem : pa ∈ done := List.mem_of_getElem? ha
          obtain ⟨e, he, _, hsub⟩ := Ret.of_shrinks hsh1 (hinv pa hmem gj g hg hcrit i hi)
          exact Ivl.mem_of_sub hsub (hsat _ e he)

theorem runStores_chained (o : HOpts) (n : Nat) (oracle : Store → List Goal → Option Sol) :
    ∀ (prios : List (List Goal)) (st : Store),
      Chained (runStores o n oracle prios st) ∧
      ∀ st1, (runStores o n oracle prios st).head? = some st1 → Shrinks st st1 := by
  intro prios
  induction prios with
  | nil => intro st; simp [runStores, Chained]
  | cons gs rest ih =>
    intro st
    simp only [runStores]
    have hsh1 := insertCriticals_shrinks o n st gs
    cases ho : oracle (insertCriticals o n st gs) gs with
    | none => simp [Chained, hsh1]
    | some s =>
      simp only [List.head?_cons, Option.some.injEq, forall_eq']
      refine ⟨?_, hsh1⟩
      obtain ⟨hch, hhead⟩ := ih (convertAll o n s (insertCriticals o n st gs) gs)
      cases hr : runStores o n oracle rest (convertAll o n s (insertCriticals o n st gs) gs) with
      | nil => simp [Chained]
      | cons b more =>
        rw [hr] at hch hhead
        refine ⟨?_, hch⟩
        exact (convertFrom_shrinks o n s gs _ 0).trans (hhead b rfl)

/-! ### from solver feasibility to `ValueIn` -/

/-- equality folding does not trigger for this goal / solution / step -/
def NoFold (o : HOpts) (g : Goal) (eps : Rat) (i : Nat) : Prop :=
  foldEq o.equalityThreshold (g.hasMin && g.hasMax) (targetLo g eps i) (targetHi g eps i)
    = (targetLo g eps i, targetHi g eps i)

/-- one-sided goals never fold -/
theorem noFold_of_one_sided (o : HOpts) (g : Goal) (eps : Rat) (i : Nat)
    (h : (g.hasMin && g.hasMax) = false) : NoFold o g eps i := by
  unfold NoFold foldEq
  rw [h]
  split <;> simp

/-- two bounds at least `equality_threshold` apart do not fold -/
theorem noFold_of_gap (o : HOpts) (g : Goal) (eps : Rat) (i : Nat) (a b : Rat)
    (ha : targetLo g eps i = EVal.fin a) (hb : targetHi g eps i = EVal.fin b)
    (hgap : o.equalityThreshold ≤ qabs (a - b)) : NoFold o g eps i := by
  unfold NoFold foldEq
  rw [ha, hb]
  simp [not_lt.2 hgap]

/-- the soft rows of a target goal hold at the solution (scalar goal, component 0) -/
def SoftOK (g : Goal) (s : Sol) (gj i : Nat) : Prop :=
  (∀ tm lo, g.hasMin = true → g.mAt 0 i = XVal.e (EVal.fin tm) → g.loAt 0 = XVal.e (EVal.fin lo) →
      0 ≤ softRow (XVal.e (EVal.fin tm)) (s.fval g.fk i) (s.eps gj i) lo (g.nomAt 0)) ∧
  (∀ tM hi, g.hasMax = true → g.MAt 0 i = XVal.e (EVal.fin tM) → g.hiAt 0 = XVal.e (EVal.fin hi) →
      softRow (XVal.e (EVal.fin tM)) (s.fval g.fk i) (s.eps gj i) hi (g.nomAt 0) ≤ 0)

/-- validated, non-critical goal data as the conversion uses it -/
structure Sane (nomOf : String → Rat) (g : Goal) : Prop where
  nom_eq : g.nomAt 0 = nomOf g.fk
  nom_pos : 0 < nomOf g.fk
  relax_nonneg : 0 ≤ g.relaxation
  lo_fin : g.hasTargetBounds = true → ∃ lo, g.loAt 0 = XVal.e (EVal.fin lo)
  hi_fin : g.hasTargetBounds = true → ∃ hi, g.hiAt 0 = XVal.e (EVal.fin hi)
  tmin_ok : ∀ i tm lo, g.mAt 0 i = XVal.e (EVal.fin tm) → g.loAt 0 = XVal.e (EVal.fin lo) →
    lo ≤ tm ∧ qabs tm < floatMax
  tmax_ok : ∀ i tM hi, g.MAt 0 i = XVal.e (EVal.fin tM) → g.hiAt 0 = XVal.e (EVal.fin hi) →
    tM ≤ hi ∧ qabs tM < floatMax

theorem le_subFin_of (a : EVal) (c : Rat) (x : Rat) (hc : 0 ≤ c)
    (h : ∀ q, a = EVal.fin q → q ≤ x) (hp : a ≠ EVal.pinf) : subFin a c ≤ EVal.fin x := by
  cases a with
  | ninf => simp [subFin, EVal.le_def, EVal.le]
  | pinf => exact absurd rfl hp
  | fin q =>
    have := h q rfl
    simp only [subFin, EVal.le_fin_fin]
    linarith

theorem addFin_ge_of (a : EVal) (c : Rat) (x : Rat) (hc : 0 ≤ c)
    (h : ∀ q, a = EVal.fin q → x ≤ q) (hp : a ≠ EVal.ninf) : EVal.fin x ≤ addFin a c := by
  cases a with
  | pinf => simp [addFin, EVal.le_def, EVal.le]
  | ninf => exact absurd rfl hp
  | fin q =>
    have := h q rfl
    simp only [addFin, EVal.le_fin_fin]
    linarith

theorem targetLo_cases (g : Goal) (eps : Rat) (i : Nat) :
    targetLo g eps i = EVal.ninf ∨
    ∃ tm, g.hasMin = true ∧ g.mAt 0 i = XVal.e (EVal.fin tm) ∧
      targetLo g eps i = EVal.fin (((if g.critical then 0 else eps *
        (finVal (g.loAt 0) - tm)) + tm - g.relaxation) / g.nomAt 0) := by
  unfold targetLo
  cases hm : g.hasMin with
  | false => left; simp
  | true =>
    cases hv : g.mAt 0 i with
    | nan => left; simp [finOr]
    | e x =>
      cases x with
      | ninf => left; simp [finOr]
      | pinf => left; simp [finOr]
      | fin tm => right; exact ⟨tm, rfl, rfl, by simp only [finOr, if_true]⟩

theorem targetHi_cases (g : Goal) (eps : Rat) (i : Nat) :
    targetHi g eps i = EVal.pinf ∨
    ∃ tM, g.hasMax = true ∧ g.MAt 0 i = XVal.e (EVal.fin tM) ∧
      targetHi g eps i = EVal.fin (((if g.critical then 0 else eps *
        (finVal (g.hiAt 0) - tM)) + tM + g.relaxation) / g.nomAt 0) := by
  unfold targetHi
  cases hm : g.hasMax with
  | false => left; simp
  | true =>
    cases hv : g.MAt 0 i with
    | nan => left; simp [finOr]
    | e x =>
      cases x with
      | ninf => left; simp [finOr]
      | pinf => left; simp [finOr]
      | fin tM => right; exact ⟨tM, rfl, rfl, by simp only [finOr, if_true]⟩

/-- **the achieved value lies in the interval derived from the achieved epsilon** -/
theorem valueIn_of_feasible (o : HOpts) (nomOf : String → Rat) (g : Goal) (s : Sol) (gj i : Nat)
    (hcrit : g.critical = false) (hs : Sane nomOf g) (hvr : 0 ≤ o.violationRelaxation)
    (hcr : 0 ≤ o.constraintRelaxation)
    (hsoft : g.hasTargetBounds = true → SoftOK g s gj i)
    (hnf : g.hasTargetBounds = true → vtFires o (s.eps gj i + o.violationRelaxation) = false →
      NoFold o g (s.eps gj i + o.violationRelaxation) i) :
    ValueIn o nomOf g s gj i := by
  unfold ValueIn hardStep scaled
  have hnom := hs.nom_pos
  cases ht : g.hasTargetBounds with
  | false =>
    simp only [Bool.false_eq_true, if_false, hardMinStep]
    split
    · rw [hs.nom_eq]
      exact ⟨le_refl _, le_refl _⟩
    · rw [hs.nom_eq]
      refine ⟨by simp [EVal.le_def, EVal.le], ?_⟩
      simp only [EVal.le_fin_fin]
      have h1 : s.fval g.fk i / nomOf g.fk ≤ (s.fval g.fk i + g.relaxation) / nomOf g.fk :=
        div_le_div_of_nonneg_right (by linarith [hs.relax_nonneg]) (le_of_lt hnom)
      linarith
  | true =>
    simp only [if_true]
    cases hvt : vtFires o (s.eps gj i + o.violationRelaxation) with
    | true =>
      simp only [if_true, fixedStep, hs.nom_eq, Ivl.mem, EVal.le_fin_fin]
      have h1 : (s.fval g.fk i - g.relaxation) / nomOf g.fk ≤ s.fval g.fk i / nomOf g.fk :=
        div_le_div_of_nonneg_right (by linarith [hs.relax_nonneg]) (le_of_lt hnom)
      have h2 : s.fval g.fk i / nomOf g.fk ≤ (s.fval g.fk i + g.relaxation) / nomOf g.fk :=
        div_le_div_of_nonneg_right (by linarith [hs.relax_nonneg]) (le_of_lt hnom)
      constructor <;> linarith
    | false =>
    simp only [Bool.false_eq_true, if_false]
    obtain ⟨lo, hlo⟩ := hs.lo_fin ht
    obtain ⟨hi, hhi⟩ := hs.hi_fin ht
    obtain ⟨hs1, hs2⟩ := hsoft ht
    have hnf' := hnf ht hvt
    unfold NoFold at hnf'
    simp only [hardTargetStep, hnf']
    constructor
    · apply le_subFin_of _ _ _ hcr
      · intro q hq
        rcases targetLo_cases g (s.eps gj i + o.violationRelaxation) i with h | ⟨tm, hm, htm, hval⟩
        · rw [h] at hq; cases hq
        · rw [hval] at hq
          have hq' := EVal.fin.inj hq
          obtain ⟨hlt, habs⟩ := hs.tmin_ok i tm lo htm hlo
          have hrow := hs1 tm lo hm htm hlo
          rw [softRow_active _ _ _ _ _ habs, hs.nom_eq] at hrow
          have h1 : 0 ≤ s.fval g.fk i - s.eps gj i * (lo - tm) - tm := by
            have := mul_nonneg hrow (le_of_lt hnom)
            rwa [div_mul_cancel₀ _ (ne_of_gt hnom)] at this
          rw [← hq', hcrit, hlo, hs.nom_eq]
          simp only [Bool.false_eq_true, if_false, finVal]
          apply div_le_div_of_nonneg_right _ (le_of_lt hnom)
          have : o.violationRelaxation * (lo - tm) ≤ 0 :=
            mul_nonpos_of_nonneg_of_nonpos hvr (by linarith)
          nlinarith [hs.relax_nonneg]
      · rcases targetLo_cases g (s.eps gj i + o.violationRelaxation) i with h | ⟨tm, _, _, hval⟩
        · rw [h]; simp
        · rw [hval]; simp
    · apply addFin_ge_of _ _ _ hcr
      · intro q hq
        rcases targetHi_cases g (s.eps gj i + o.violationRelaxation) i with h | ⟨tM, hm, htM, hval⟩
        · rw [h] at hq; cases hq
        · rw [hval] at hq
          have hq' := EVal.fin.inj hq
          obtain ⟨hlt, habs⟩ := hs.tmax_ok i tM hi htM hhi
          have hrow := hs2 tM hi hm htM hhi
          rw [softRow_active _ _ _ _ _ habs, hs.nom_eq] at hrow
          have h1 : s.fval g.fk i - s.eps gj i * (hi - tM) - tM ≤ 0 := by
            have := mul_nonpos_of_nonpos_of_nonneg hrow (le_of_lt hnom)
            rwa [div_mul_cancel₀ _ (ne_of_gt hnom)] at this
          rw [← hq', hcrit, hhi, hs.nom_eq]
          simp only [Bool.false_eq_true, if_false, finVal]
          apply div_le_div_of_nonneg_right _ (le_of_lt hnom)
          have : 0 ≤ o.violationRelaxation * (hi - tM) :=
            mul_nonneg hvr (by linarith)
          nlinarith [hs.relax_nonneg]
      · rcases targetHi_cases g (s.eps gj i + o.violationRelaxation) i with h | ⟨tM, _, _, hval⟩
        · rw [h]; simp
        · rw [hval]; simp

end RtcVerif.C02
