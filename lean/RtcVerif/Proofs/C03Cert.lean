import RtcVerif.Model.C03Cert
import Mathlib.Algebra.Order.Field.Rat
import Mathlib.Tactic.Linarith
import Mathlib.Tactic.Ring
/-! Helper lemmas for the C03 certificate theorems (list-level linear algebra, weak duality). -/
namespace RtcVerif.C03

theorem addAt_length (r : List Rat) (j : Nat) (d : Rat) : (addAt r j d).length = r.length := by
  induction r generalizing j with
  | nil => rfl
  | cons a as ih =>
    cases j with
    | zero => simp [addAt]
    | succ j => simp [addAt, ih]

theorem dot_nil_right (r : List Rat) : dot r [] = 0 := by
  cases r <;> rfl

theorem dot_addAt (r : List Rat) (j : Nat) (d : Rat) (x : List Rat) (hj : j < r.length) :
    dot (addAt r j d) x = dot r x + d * x.getD j 0 := by
  induction r generalizing j x with
  | nil => simp at hj
  | cons a as ih =>
    cases j with
    | zero =>
      cases x with
      | nil => simp [addAt, dot]
      | cons b bs => simp [addAt, dot]; ring
    | succ j =>
      have hj' : j < as.length := by simpa using hj
      cases x with
      | nil => simp [addAt, dot]
      | cons b bs =>
        simp only [addAt, dot, List.getD_cons_succ]
        rw [ih j bs hj']; ring

theorem axpy_length (r : List Rat) (k : Rat) (row : SRow) : (axpy r k row).length = r.length := by
  induction row generalizing r with
  | nil => rfl
  | cons jv rest ih =>
    obtain ⟨j, v⟩ := jv
    simp [axpy, ih, addAt_length]

theorem dot_axpy (r : List Rat) (k : Rat) (row : SRow) (x : List Rat)
    (h : rowInRange r.length row = true) :
    dot (axpy r k row) x = dot r x + k * rowDot row x := by
  induction row generalizing r with
  | nil => simp [axpy, rowDot]
  | cons jv rest ih =>
    obtain ⟨j, v⟩ := jv
    simp only [rowInRange, List.all_cons, Bool.and_eq_true, decide_eq_true_eq] at h
    have hrest : rowInRange (addAt r j (k * v)).length rest = true := by
      simpa [rowInRange, addAt_length] using h.2
    simp only [axpy, rowDot]
    rw [ih _ hrest, dot_addAt r j (k * v) x h.1]; ring

/-- `Σ_i (y⁺_i - y⁻_i) * (A_i · x)` over the common prefix of rows and multipliers -/
def ySum : List Row → List (Rat × Rat) → List Rat → Rat
  | row :: rows, y :: ys, x => (y.1 - y.2) * rowDot row.coefs x + ySum rows ys x
  | _, _, _ => 0

theorem reduced_length (r : List Rat) (rows : List Row) (ys : List (Rat × Rat)) :
    (reduced r rows ys).length = r.length := by
  induction rows generalizing r ys with
  | nil => simp [reduced]
  | cons row rows ih =>
    cases ys with
    | nil => simp [reduced]
    | cons y ys => simp [reduced, ih, axpy_length]

theorem dot_reduced (r : List Rat) (rows : List Row) (ys : List (Rat × Rat)) (x : List Rat)
    (h : rows.all (fun row => rowInRange r.length row.coefs) = true) :
    dot (reduced r rows ys) x = dot r x - ySum rows ys x := by
  induction rows generalizing r ys with
  | nil => simp [reduced, ySum]
  | cons row rows ih =>
    cases ys with
    | nil => simp [reduced, ySum]
    | cons y ys =>
      simp only [List.all_cons, Bool.and_eq_true] at h
      have hrest : rows.all (fun row' => rowInRange (axpy r (-(y.1 - y.2)) row.coefs).length row'.coefs) = true := by
        simpa [axpy_length] using h.2
      simp only [reduced, ySum]
      rw [ih _ ys hrest, dot_axpy r _ row.coefs x h.1]; ring

theorem le_of_EVal_le_fin {lo : EVal} {v : Rat} (h : EVal.le lo (.fin v) = true) :
    ∀ q, lo = .fin q → q ≤ v := by
  intro q hq; subst hq; simpa [EVal.le] using h

theorem le_of_fin_EVal_le {hi : EVal} {v : Rat} (h : EVal.le (.fin v) hi = true) :
    ∀ q, hi = .fin q → v ≤ q := by
  intro q hq; subst hq; simpa [EVal.le] using h

/-- lower side: `y * (lo - b0) ≤ y * s` when `lo ≤ s + b0` -/
theorem sideTerm_lo {y b0 s a : Rat} {lo : EVal} (h : sideTerm y lo b0 = some a)
    (hf : EVal.le lo (.fin (s + b0)) = true) : a ≤ y * s := by
  unfold sideTerm at h
  split at h
  · cases h
  · split at h
    · next h0 => cases h; simp [h0]
    · next hneg h0 =>
      have hy : 0 < y := lt_of_le_of_ne (not_lt.1 hneg) (Ne.symm h0)
      cases lo with
      | fin q =>
        simp only [Option.some.injEq] at h
        have := le_of_EVal_le_fin hf q rfl
        rw [← h]; nlinarith
      | ninf => cases h
      | pinf => cases h

/-- upper side: `y * s ≤ y * (hi - b0)` when `s + b0 ≤ hi` -/
theorem sideTerm_hi {y b0 s b : Rat} {hi : EVal} (h : sideTerm y hi b0 = some b)
    (hf : EVal.le (.fin (s + b0)) hi = true) : y * s ≤ b := by
  unfold sideTerm at h
  split at h
  · cases h
  · split at h
    · next h0 => cases h; simp [h0]
    · next hneg h0 =>
      have hy : 0 < y := lt_of_le_of_ne (not_lt.1 hneg) (Ne.symm h0)
      cases hi with
      | fin q =>
        simp only [Option.some.injEq] at h
        have := le_of_fin_EVal_le hf q rfl
        rw [← h]; nlinarith
      | ninf => cases h
      | pinf => cases h

theorem rowPart_le (rows : List Row) (ys : List (Rat × Rat)) (x : List Rat) (R : Rat)
    (h : rowPart rows ys = some R) (hf : rowsFeasible rows x = true) : R ≤ ySum rows ys x := by
  induction rows generalizing ys R with
  | nil =>
    cases ys with
    | nil => simp [rowPart] at h; simp [ySum, ← h]
    | cons y ys => simp [rowPart] at h
  | cons row rows ih =>
    cases ys with
    | nil => simp [rowPart] at h
    | cons y ys =>
      simp only [rowPart, Option.bind_eq_bind, Option.pure_def, Option.bind_eq_some_iff,
        Option.some.injEq] at h
      obtain ⟨a, ha, b, hb, rest, hrest, hR⟩ := h
      simp only [rowsFeasible, inBnd, Bool.and_eq_true] at hf
      obtain ⟨⟨hlo, hhi⟩, hfr⟩ := hf
      have h1 := sideTerm_lo ha hlo
      have h2 := sideTerm_hi hb hhi
      have h3 := ih ys rest hrest hfr
      simp only [ySum]
      rw [← hR]; linarith

theorem colTerm_le {r v a : Rat} {cl : Col} (h : colTerm r cl = some a)
    (hf : inBnd cl.lb cl.ub v = true) : a ≤ r * v := by
  simp only [inBnd, Bool.and_eq_true] at hf
  unfold colTerm at h
  split at h
  · next h0 => cases h; simp [h0]
  · split at h
    · next hpos =>
      cases hlb : cl.lb with
      | fin q =>
        rw [hlb] at h; simp only [Option.some.injEq] at h
        have := le_of_EVal_le_fin hf.1 q hlb
        rw [← h]; nlinarith
      | ninf => rw [hlb] at h; cases h
      | pinf => rw [hlb] at h; cases h
    · next h0 hpos =>
      have hneg : r < 0 := lt_of_le_of_ne (not_lt.1 hpos) h0
      cases hub : cl.ub with
      | fin q =>
        rw [hub] at h; simp only [Option.some.injEq] at h
        have := le_of_fin_EVal_le hf.2 q hub
        rw [← h]; nlinarith
      | ninf => rw [hub] at h; cases h
      | pinf => rw [hub] at h; cases h

theorem boxPart_le (r : List Rat) (cols : List Col) (x : List Rat) (B : Rat)
    (h : boxPart r cols = some B) (hf : boxFeasible cols x = true) : B ≤ dot r x := by
  induction r generalizing cols x B with
  | nil =>
    cases cols with
    | nil => simp [boxPart] at h; simp [dot, ← h]
    | cons cl cs => simp [boxPart] at h
  | cons a as ih =>
    cases cols with
    | nil => simp [boxPart] at h
    | cons cl cs =>
      cases x with
      | nil => simp [boxFeasible] at hf
      | cons v xs =>
        simp only [boxPart, Option.bind_eq_bind, Option.pure_def, Option.bind_eq_some_iff,
          Option.some.injEq] at h
        obtain ⟨t, ht, rest, hrest, hB⟩ := h
        simp only [boxFeasible, Bool.and_eq_true] at hf
        have h1 := colTerm_le ht hf.1
        have h2 := ih cs xs rest hrest hf.2
        simp only [dot]
        rw [← hB]; linarith

end RtcVerif.C03

namespace RtcVerif.C03

/-! ### tangent of a sum of squares -/

theorem tangentC_length (c : List Rat) (sqs : List Sq) (xt : List Rat) :
    (tangentC c sqs xt).length = c.length := by
  induction sqs generalizing c with
  | nil => simp [tangentC]
  | cons s rest ih => simp [tangentC, ih, axpy_length]

/-- `Σ_k 2 κ_k s̃_k (a_k · x)` -/
def tanLin : List Sq → List Rat → List Rat → Rat
  | [], _, _ => 0
  | s :: rest, xt, x => 2 * s.kappa * (rowDot s.coefs xt + s.d) * rowDot s.coefs x + tanLin rest xt x

theorem dot_tangentC (c : List Rat) (sqs : List Sq) (xt x : List Rat)
    (h : sqs.all (fun s => rowInRange c.length s.coefs) = true) :
    dot (tangentC c sqs xt) x = dot c x + tanLin sqs xt x := by
  induction sqs generalizing c with
  | nil => simp [tangentC, tanLin]
  | cons s rest ih =>
    simp only [List.all_cons, Bool.and_eq_true] at h
    have hrest : rest.all (fun s' => rowInRange
        (axpy c (2 * s.kappa * (rowDot s.coefs xt + s.d)) s.coefs).length s'.coefs) = true := by
      simpa [axpy_length] using h.2
    simp only [tangentC, tanLin]
    rw [ih _ hrest, dot_axpy c _ s.coefs x h.1]; ring

/-- each square dominates its tangent: `κ s² ≥ κ (2 s̃ s - s̃²)` for `κ ≥ 0` -/
theorem sq_tangent (kappa s st : Rat) (hk : 0 ≤ kappa) :
    kappa * (2 * st * s - st ^ 2) ≤ kappa * s ^ 2 := by
  have : 0 ≤ kappa * (s - st) ^ 2 := mul_nonneg hk (sq_nonneg _)
  nlinarith

theorem tangent_sum_le (sqs : List Sq) (xt x : List Rat)
    (hk : sqs.all (fun s => decide (0 ≤ s.kappa)) = true) :
    tanLin sqs xt x + (sqs.map fun s =>
        let st := rowDot s.coefs xt + s.d
        s.kappa * (2 * st * s.d - st ^ 2)).sum
      ≤ (sqs.map (sqValue x)).sum := by
  induction sqs with
  | nil => simp [tanLin]
  | cons s rest ih =>
    simp only [List.all_cons, Bool.and_eq_true, decide_eq_true_eq] at hk
    have h1 := ih hk.2
    have h2 := sq_tangent s.kappa (rowDot s.coefs x + s.d) (rowDot s.coefs xt + s.d) hk.1
    simp only [tanLin, List.map_cons, List.sum_cons, sqValue] at *
    nlinarith

theorem tangent_sum_eq (sqs : List Sq) (xt : List Rat) :
    tanLin sqs xt xt + (sqs.map fun s =>
        let st := rowDot s.coefs xt + s.d
        s.kappa * (2 * st * s.d - st ^ 2)).sum
      = (sqs.map (sqValue xt)).sum := by
  induction sqs with
  | nil => simp [tanLin]
  | cons s rest ih =>
    simp only [tanLin, List.map_cons, List.sum_cons, sqValue] at *
    linarith [ih, show (2 * s.kappa * (rowDot s.coefs xt + s.d) * rowDot s.coefs xt
        + s.kappa * (2 * (rowDot s.coefs xt + s.d) * s.d - (rowDot s.coefs xt + s.d) ^ 2))
        = s.kappa * (rowDot s.coefs xt + s.d) ^ 2 by ring]

end RtcVerif.C03
