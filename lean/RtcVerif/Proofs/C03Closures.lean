import RtcVerif.Model.C03Closures
import RtcVerif.Proofs.C03Objective
/-! Bridging lemmas: the list of `_objective_func` closures (Model/C03Closures.lean) evaluated the way
`_gp_n_objectives` / `_gp_objective` / `_gp_path_objective` evaluate it is the objective-vector list the
C03 property theorems are about. -/
namespace RtcVerif.C03

theorem closures_eq_map (sbs isPath : Bool) (T : Nat) (val : Val) (goals : List Goal) :
    closures sbs isPath T val goals = (objectiveFns goals).map (closureOf sbs isPath T val) := by
  unfold closures objectiveFns
  induction indexed goals with
  | nil => rfl
  | cons gj rest ih =>
    cases hc : gj.1.critical <;> simp [goalClosure, hc, ih, List.filterMap_cons]

/-- `[o(self, m) for o in objectives]` at time step `i` -/
theorem closures_flatMap (sbs isPath : Bool) (T : Nat) (val : Val) (goals : List Goal) (m i : Nat) :
    (closures sbs isPath T val goals).flatMap (fun o => o m i)
      = (objectiveFns goals).flatMap (objVec sbs isPath T val m (if isPath then i else 0)) := by
  rw [closures_eq_map, List.flatMap_map]
  rfl

theorem closures_length (sbs isPath : Bool) (T : Nat) (val : Val) (goals : List Goal) :
    (closures sbs isPath T val goals).length = (objectiveFns goals).length := by
  rw [closures_eq_map, List.length_map]

/-- `_gp_objective` / `_gp_path_objective` (source shape) applied to the closure list -/
theorem gpObjectiveCode_closures (sbs isPath : Bool) (T : Nat) (val : Val) (goals : List Goal) (m i n : Nat) :
    gpObjectiveCode sbs (fun o : Closure => o m i) (closures sbs isPath T val goals) n
      = gpObjective sbs isPath T val m (if isPath then i else 0) goals n := by
  rw [gpObjective_code]
  unfold gpObjectiveCode
  rw [closures_flatMap, closures_length]

/-- `_gp_n_objectives` applied to the two closure lists -/
theorem nObjectives_closures (sbs : Bool) (T : Nat) (val : Val) (goals pathGoals : List Goal) (m : Nat) :
    ((closures sbs false T val goals).flatMap (fun o => o m 0)).length
        + ((closures sbs true T val pathGoals).flatMap (fun o => o m 0)).length
      = nObjectives sbs T val m goals pathGoals := by
  rw [closures_flatMap, closures_flatMap]
  unfold nObjectives
  rw [vertcat_eq_fns, vertcat_eq_fns]
  rfl

end RtcVerif.C03
