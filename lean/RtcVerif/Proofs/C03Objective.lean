import RtcVerif.Proofs.C03Sums
/-! Lemmas relating the code-shaped objective assembly, the coefficient table and the documented formula. -/
namespace RtcVerif.C03

theorem map_fst_indexFrom (k : Nat) (gs : List Goal) : (indexFrom k gs).map Prod.fst = gs := by
  induction gs generalizing k with
  | nil => rfl
  | cons g gs ih => simp [indexFrom, ih]

theorem fst_mem_of_mem_indexed {gs : List Goal} {gj : Goal × Nat} (h : gj ∈ indexed gs) : gj.1 ∈ gs := by
  have : gj.1 ∈ (indexed gs).map Prod.fst := List.mem_map_of_mem h
  simpa [indexed, map_fst_indexFrom] using this

/-- summing a function of the goal over the indexed list = summing it over the list -/
theorem sum_indexed_fst (gs : List Goal) (F : Goal → Rat) :
    ((indexed gs).map fun gj => F gj.1).sum = (gs.map F).sum := by
  have : ((indexed gs).map fun gj => F gj.1) = ((indexed gs).map Prod.fst).map F := by simp
  rw [this, indexed, map_fst_indexFrom]

theorem natsum_indexed_fst (gs : List Goal) (F : Goal → Nat) :
    ((indexed gs).map fun gj => F gj.1).sum = (gs.map F).sum := by
  have : ((indexed gs).map fun gj => F gj.1) = ((indexed gs).map Prod.fst).map F := by simp
  rw [this, indexed, map_fst_indexFrom]

/-! ### the model in the shape of the source (used by the generated module `Gen/GpObjective.lean`) -/

theorem vertcat_eq_fns (sbs isPath : Bool) (T : Nat) (val : Val) (m i : Nat) (gs : List Goal) :
    vertcat sbs isPath T val m i gs = (objectiveFns gs).flatMap (objVec sbs isPath T val m i) := by
  unfold vertcat objectiveFns
  induction indexed gs with
  | nil => rfl
  | cons gj rest ih =>
    cases hc : gj.1.critical
    · simp [hc, ih]
    · simp [hc, ih, objVec]

theorem objectiveFns_map_fst (gs : List Goal) :
    (objectiveFns gs).map Prod.fst = gs.filter fun g => !g.critical := by
  unfold objectiveFns
  have h : ((indexed gs).filter fun gj => !gj.1.critical)
      = (indexed gs).filter ((fun g : Goal => !g.critical) ∘ Prod.fst) := rfl
  rw [h, ← List.filter_map, indexed, map_fst_indexFrom]

theorem gpObjective_code (sbs isPath : Bool) (T : Nat) (val : Val) (m i : Nat) (gs : List Goal) (n : Nat) :
    gpObjective sbs isPath T val m i gs n
      = gpObjectiveCode sbs (objVec sbs isPath T val m i) (objectiveFns gs) n := by
  unfold gpObjective gpObjectiveCode
  rw [← vertcat_eq_fns]
  have hlen : (gs.filter fun g => !g.critical).length = (objectiveFns gs).length := by
    rw [← objectiveFns_map_fst, List.length_map]
  by_cases he : (gs.filter fun g => !g.critical) = []
  · have h0 : (objectiveFns gs).length = 0 := by rw [← hlen, he]; rfl
    simp [he, h0]
  · have hpos : 0 < (objectiveFns gs).length := by
      rw [← hlen]; exact List.length_pos_iff.2 he
    have hne : (gs.filter fun g => !g.critical).isEmpty = false := by
      cases h : (gs.filter fun g => !g.critical) with
      | nil => exact absurd h he
      | cons a l => rfl
    simp [hne, hpos]

/-- one entry of an objective vector -/
def entry (sbs isPath : Bool) (T : Nat) (val : Val) (m i : Nat) (gj : Goal × Nat) (c : Nat) : Rat :=
  gj.1.weight * (base gj.1 isPath gj.2 val m i c) ^ gj.1.order / gj.1.nActive sbs isPath T c

theorem objVec_sum (sbs isPath : Bool) (T : Nat) (val : Val) (m i : Nat) (gj : Goal × Nat) :
    (objVec sbs isPath T val m i gj).sum
      = if gj.1.critical then 0 else ((List.range gj.1.size).map (entry sbs isPath T val m i gj)).sum := by
  unfold objVec entry
  split <;> simp

theorem objVec_length (sbs isPath : Bool) (T : Nat) (val : Val) (m i : Nat) (gj : Goal × Nat) :
    (objVec sbs isPath T val m i gj).length = if !gj.1.critical then gj.1.size else 0 := by
  unfold objVec
  split <;> simp_all

theorem vertcat_length (sbs isPath : Bool) (T : Nat) (val : Val) (m i : Nat) (gs : List Goal) :
    (vertcat sbs isPath T val m i gs).length = ((gs.filter fun g => !g.critical).map (·.size)).sum := by
  unfold vertcat
  rw [length_flatMap', natsum_filter']
  simp only [objVec_length]
  exact natsum_indexed_fst gs (fun g => if !g.critical then g.size else 0)

theorem nObjectives_eq (sbs : Bool) (T : Nat) (val : Val) (m : Nat) (goals pathGoals : List Goal) :
    nObjectives sbs T val m goals pathGoals = nGoalsDoc goals pathGoals := by
  simp only [nObjectives, nGoalsDoc, vertcat_length]

theorem vertcat_nil_of_all_critical (sbs isPath : Bool) (T : Nat) (val : Val) (m i : Nat) (gs : List Goal)
    (h : (gs.filter fun g => !g.critical) = []) : vertcat sbs isPath T val m i gs = [] := by
  unfold vertcat
  rw [List.flatMap_eq_nil_iff]
  intro gj hgj
  have hmem := fst_mem_of_mem_indexed hgj
  have hc : gj.1.critical = true := by
    have := (List.filter_eq_nil_iff.1 h) gj.1 hmem
    simpa using this
  simp [objVec, hc]

/-- `_gp_objective` is the sum of the concatenated vector over the divisor, in every case -/
theorem gpObjective_eq (sbs isPath : Bool) (T : Nat) (val : Val) (m i : Nat) (gs : List Goal) (n : Nat) :
    gpObjective sbs isPath T val m i gs n
      = (vertcat sbs isPath T val m i gs).sum / (if sbs then (n : Rat) else 1) := by
  unfold gpObjective
  split
  · next h =>
    have h' : (gs.filter fun g => !g.critical) = [] := by simpa using h
    simp [vertcat_nil_of_all_critical sbs isPath T val m i gs h']
  · cases sbs <;> simp

theorem vertcat_sum (sbs isPath : Bool) (T : Nat) (val : Val) (m i : Nat) (gs : List Goal) :
    (vertcat sbs isPath T val m i gs).sum
      = ((indexed gs).map fun gj => (objVec sbs isPath T val m i gj).sum).sum := by
  unfold vertcat; exact sum_flatMap' _ _

theorem nActive_point (g : Goal) (sbs : Bool) (T c : Nat) : g.nActive sbs false T c = 1 := by
  simp [Goal.nActive]

theorem nActive_path (g : Goal) (sbs : Bool) (T c : Nat) : g.nActive sbs true T c = nActiveDoc g sbs true T c := by
  unfold Goal.nActive nActiveDoc
  cases sbs <;> simp [Nat.max_comm]

/-- point goal: the entries of its objective vector sum to the documented `Σ_c w ε^r` -/
theorem objVec_point_doc (sbs : Bool) (T : Nat) (val : Val) (m : Nat) (gj : Goal × Nat) :
    (objVec sbs false T val m 0 gj).sum = if !gj.1.critical then docPoint val m gj else 0 := by
  rw [objVec_sum]
  cases hc : gj.1.critical
  · simp only [Bool.false_eq_true, if_false, Bool.not_false, if_true, docPoint]
    apply sum_map_congr'
    intro c _
    simp [entry, nActive_point]
  · simp

/-- path goal: summed over the time steps, the entries give the documented
    `Σ_c (Σ_t w ε^r) / n_active_c` -/
theorem objVec_path_doc (sbs : Bool) (T : Nat) (val : Val) (m : Nat) (gj : Goal × Nat) :
    ((List.range T).map fun i => (objVec sbs true T val m i gj).sum).sum
      = if !gj.1.critical then docPath sbs T val m gj else 0 := by
  simp only [objVec_sum]
  cases hc : gj.1.critical
  · simp only [Bool.false_eq_true, if_false, Bool.not_false, if_true, docPath]
    rw [sum_comm']
    apply sum_map_congr'
    intro c _
    simp only [entry, nActive_path]
    rw [sum_map_div']
  · simp

/-- objective of one ensemble member in documented form -/
theorem memberObjective_doc (sbs : Bool) (T : Nat) (val : Val) (goals pathGoals : List Goal) (m : Nat) :
    memberObjective sbs T val goals pathGoals m
      = ((((indexed goals).filter (fun gj => !gj.1.critical)).map (docPoint val m)).sum
          + (((indexed pathGoals).filter (fun gj => !gj.1.critical)).map (docPath sbs T val m)).sum)
        / (if sbs then (nGoalsDoc goals pathGoals : Rat) else 1) := by
  simp only [memberObjective, gpObjective_eq, nObjectives_eq, vertcat_sum]
  rw [sum_map_div', sum_comm']
  simp only [objVec_point_doc, objVec_path_doc]
  rw [sum_filter', sum_filter']
  ring

theorem objective_eq_documented (sbs : Bool) (T : Nat) (probs : List Rat) (val : Val)
    (goals pathGoals : List Goal) :
    objective sbs T probs val goals pathGoals = documented sbs T probs val goals pathGoals := by
  unfold objective documented
  apply sum_map_congr'
  intro pm _
  rw [memberObjective_doc]; ring

/-! ### coefficient table -/

theorem evalTerms_append (val : Val) (a b : List Term) :
    evalTerms val (a ++ b) = evalTerms val a + evalTerms val b := by
  simp [evalTerms, List.sum_append]

theorem evalTerms_flatMap {α : Type} (val : Val) (l : List α) (f : α → List Term) :
    evalTerms val (l.flatMap f) = (l.map fun a => evalTerms val (f a)).sum := by
  induction l with
  | nil => simp [evalTerms]
  | cons a l ih => simp [List.flatMap_cons, evalTerms_append, ih]

theorem eval_goalTerms (sbs isPath : Bool) (T : Nat) (val : Val) (p : Rat) (n m i : Nat) (gj : Goal × Nat) :
    evalTerms val (goalTerms sbs isPath T p n m i gj)
      = p * ((objVec sbs isPath T val m i gj).sum / (if sbs then (n : Rat) else 1)) := by
  rw [objVec_sum]
  unfold goalTerms evalTerms
  cases hc : gj.1.critical
  · simp only [Bool.false_eq_true, if_false, List.map_map]
    rw [← sum_map_div', ← sum_map_mul_left']
    apply sum_map_congr'
    intro c _
    simp only [Function.comp, Term.eval, entry, base]
    cases hb : gj.1.hasBounds <;> cases sbs <;> simp <;> ring
  · simp

end RtcVerif.C03
