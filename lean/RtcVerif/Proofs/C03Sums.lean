import RtcVerif.Model.C03Subproblem
import Mathlib.Algebra.Order.Field.Rat
import Mathlib.Tactic.Linarith
import Mathlib.Tactic.Ring
import Mathlib.Tactic.FieldSimp
/-! Finite-sum bookkeeping lemmas for the C03 objective-assembly theorem (plain `List.sum`). -/
namespace RtcVerif.C03

section sums
variable {α β : Type}

theorem sum_map_add' (l : List α) (f g : α → Rat) :
    (l.map fun a => f a + g a).sum = (l.map f).sum + (l.map g).sum := by
  induction l with
  | nil => simp
  | cons a l ih => simp only [List.map_cons, List.sum_cons, ih]; ring

theorem sum_map_mul_left' (l : List α) (k : Rat) (f : α → Rat) :
    (l.map fun a => k * f a).sum = k * (l.map f).sum := by
  induction l with
  | nil => simp
  | cons a l ih => simp only [List.map_cons, List.sum_cons, ih]; ring

theorem sum_map_div' (l : List α) (f : α → Rat) (d : Rat) :
    (l.map fun a => f a / d).sum = (l.map f).sum / d := by
  induction l with
  | nil => simp
  | cons a l ih => simp only [List.map_cons, List.sum_cons, ih]; ring

theorem sum_map_zero' (l : List α) : (l.map fun _ => (0 : Rat)).sum = 0 := by
  induction l with
  | nil => simp
  | cons a l ih => simp

theorem sum_map_congr' (l : List α) (f g : α → Rat) (h : ∀ a ∈ l, f a = g a) :
    (l.map f).sum = (l.map g).sum := by
  induction l with
  | nil => simp
  | cons a l ih =>
    simp only [List.map_cons, List.sum_cons]
    rw [h a (by simp), ih (fun b hb => h b (by simp [hb]))]

/-- exchange of two finite sums -/
theorem sum_comm' (l₁ : List α) (l₂ : List β) (F : α → β → Rat) :
    (l₁.map fun a => (l₂.map fun b => F a b).sum).sum
      = (l₂.map fun b => (l₁.map fun a => F a b).sum).sum := by
  induction l₁ with
  | nil => simp
  | cons a l ih =>
    simp only [List.map_cons, List.sum_cons, ih]
    rw [← sum_map_add']

theorem sum_flatMap' (l : List α) (f : α → List Rat) :
    (l.flatMap f).sum = (l.map fun a => (f a).sum).sum := by
  induction l with
  | nil => simp
  | cons a l ih => simp [List.flatMap_cons, List.sum_append, ih]

theorem length_flatMap' (l : List α) (f : α → List β) :
    (l.flatMap f).length = (l.map fun a => (f a).length).sum := by
  induction l with
  | nil => simp
  | cons a l ih => simp [List.flatMap_cons, ih]

/-- a sum over the elements that pass a filter = sum of the guarded summand -/
theorem sum_filter' (l : List α) (p : α → Bool) (f : α → Rat) :
    ((l.filter p).map f).sum = (l.map fun a => if p a then f a else 0).sum := by
  induction l with
  | nil => simp
  | cons a l ih =>
    by_cases h : p a <;> simp [h, ih]

theorem natsum_filter' (l : List α) (p : α → Bool) (f : α → Nat) :
    ((l.filter p).map f).sum = (l.map fun a => if p a then f a else 0).sum := by
  induction l with
  | nil => simp
  | cons a l ih =>
    by_cases h : p a <;> simp [h, ih]

end sums

end RtcVerif.C03
