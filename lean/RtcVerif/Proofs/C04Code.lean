import RtcVerif.Model.C04Code
import RtcVerif.Proofs.C04Validate
import RtcVerif.Proofs.C04Rows
import Mathlib.Tactic.Common
/-!
The code-level references of `Model/C04Code.lean` (what `Gen/GoalCode.lean` is proved equal to on every
run) are the model of the C04 property theorems: validation (`checkDef`, `checkMono`, `checkTargets`,
`validate`), target broadcasting (`Target.at`), soft constraints (`Goal.minSym`, `Goal.keepMin`, `softRow`,
`softRows`).
-/
namespace RtcVerif.C04
open RtcVerif

/-! ## validation -/

theorem ite_and_bool {α : Type} (a b : Bool) (x y : α) :
    (if (a && b) = true then x else y) = (if a = true then (if b = true then x else y) else y) := by
  cases a <;> cases b <;> rfl

theorem firstErr_ite_cons (c : Prop) [Decidable c] (e : Err) (rest : List (Option Err)) :
    firstErr ((if c then some e else none) :: rest) = if c then some e else firstErr rest := by
  split <;> simp [firstErr]

theorem firstErr_single (x : Option Err) : firstErr [x] = x := by cases x <;> rfl

/-- the NaN mask `indices = np.where(~(isnan(a) | isnan(b)))` in front of a strict comparison is void:
    a comparison with NaN is false anyway -/
theorem nanmask_xlt (a b : XVal) : ((!(xIsNan a || xIsNan b)) && xlt a b) = xlt a b := by
  cases a <;> cases b <;> simp [xIsNan, xlt]

theorem nanmask_xlt' (a b : XVal) : ((!(xIsNan a || xIsNan b)) && xlt b a) = xlt b a := by
  cases a <;> cases b <;> simp [xIsNan, xlt]

theorem anyCell_eq (size n : Nat) (p : Nat → Nat → Bool) (q : Nat × Nat → Bool)
    (h : ∀ c i, p c i = q (c, i)) : anyCell size n p = (cells size n).any q := by
  unfold anyCell
  congr 1
  funext x
  obtain ⟨c, i⟩ := x
  exact h c i

theorem checkMonoRef_eq (n : Nat) (g prev : Goal) : checkMonoRef n g prev = checkMono n g prev := by
  simp only [checkMonoRef, checkMono, ite_and_bool]
  rw [anyCell_eq g.size n _ (fun x => xlt (g.mAt x.1 x.2) (prev.mAt x.1 x.2)) (fun c i => nanmask_xlt _ _),
    anyCell_eq g.size n _ (fun x => xlt (prev.MAt x.1 x.2) (g.MAt x.1 x.2)) (fun c i => nanmask_xlt' _ _)]

theorem checkTargetsRef_eq (n : Nat) (g : Goal) : checkTargetsRef n g = checkTargets n g := by
  simp only [checkTargetsRef, checkTargets, ite_and_bool]
  rw [anyCell_eq g.size n _ (fun x => xlt (g.MAt x.1 x.2) (g.mAt x.1 x.2)) (fun c i => nanmask_xlt' _ _),
    anyCell_eq g.size n _ (fun x => (g.mAt x.1 x.2).isFinite && xle (g.mAt x.1 x.2) (g.loAt x.1)) (fun c i => rfl),
    anyCell_eq g.size n _ (fun x => (g.mAt x.1 x.2).isFinite && xlt (g.hiAt x.1) (g.mAt x.1 x.2)) (fun c i => rfl),
    anyCell_eq g.size n _ (fun x => (g.MAt x.1 x.2).isFinite && xle (g.hiAt x.1) (g.MAt x.1 x.2)) (fun c i => rfl),
    anyCell_eq g.size n _ (fun x => (g.MAt x.1 x.2).isFinite && xlt (g.MAt x.1 x.2) (g.loAt x.1)) (fun c i => rfl)]
  simp only [firstErr_ite_cons, firstErr_single, decide_eq_true_eq]

theorem checkDefRef_eq (o : Opts) (isPath : Bool) (g : Goal) : checkDefRef o isPath g = checkDef o isPath g := by
  simp only [checkDefRef, checkDef, firstErr_ite_cons, firstErr_single, decide_eq_true_eq]
  generalize (g.nominal.any fun n => decide (n ≤ 0)) = a0
  generalize g.critical = a1
  generalize g.hasTargetBounds = a2
  generalize (g.rangeLo.all XVal.isFinite) = a3
  generalize (g.rangeHi.all XVal.isFinite) = a4
  generalize ((List.range g.size).any fun c => xle (g.hiAt c) (g.loAt c)) = a5
  generalize g.rangeDefault = a7
  generalize g.tmin.isSeries = a9
  generalize g.tmax.isSeries = a10
  generalize o.keepSoft = a11
  generalize g.violationId = a13
  by_cases h1 : g.weight ≤ 0 <;> by_cases h2 : g.relaxation = 0 <;> by_cases h3 : g.size > 1 <;>
    simp only [h1, h2, h3, ne_eq, not_true_eq_false, not_false_eq_true, if_true, if_false, decide_true,
      decide_false] <;>
    (revert a0 a1 a2 a3 a4 a5 a7 a9 a10 a11 a13 isPath; decide +kernel)

theorem monoWalkWith_checkMono (n : Nat) (gs : List Goal) : ∀ seen : List (String × Goal),
    monoWalkWith (checkMono n) seen gs = monoWalk n seen gs := by
  induction gs with
  | nil => intro seen; rfl
  | cons g rest ih =>
    intro seen
    simp only [monoWalkWith, monoWalk, ih]
    cases List.lookup g.fk seen with
    | none => rfl
    | some prev => cases checkMono n g prev <;> rfl

/-- the code-level reference of `_gp_validate_goals` is the model `validate` -/
theorem validateRef_eq (o : Opts) (isPath : Bool) (nTimes : Nat) (goals : List Goal) :
    validateRef o isPath nTimes goals = validate o isPath nTimes goals := by
  have h1 : checkDefRef = checkDef := by funext o isPath g; exact checkDefRef_eq o isPath g
  have h2 : checkMonoRef = checkMono := by funext n g p; exact checkMonoRef_eq n g p
  have h3 : checkTargetsRef = checkTargets := by funext n g; exact checkTargetsRef_eq n g
  simp only [validateRef, validate, h1, h2, h3, monoWalkWith_checkMono]

/-! ## target broadcasting -/

/-- whenever `_gp_min_max_arrays` passes its shape assertions, entry (component `c`, step `i`) of the lower
    array is the target entry the model reads (`Target.at`).  `hc`: a goal of size one has only component 0;
    `hv`: an ndarray target of length one on a longer goal is read at component 0 only (the non-path branch
    `np.array([target]).transpose()` does not broadcast; the method's assertion rejects that shape). -/
theorem minArrRef_reads (path gt1 : Bool) (tmin tmax : Target) (c i : Nat) (v : XVal)
    (h : minArrRef path gt1 tmin tmax c i = some v)
    (hv : ∀ vs, tmin = .vector vs → vs.length = 1 → c = 0) : v = tmin.at c i := by
  cases tmin with
  | scalar x =>
    cases path <;> cases gt1 <;> simp only [minArrRef, Target.sv, if_true, Bool.false_eq_true, if_false,
      Option.some.injEq] at h <;> exact h.symm
  | vector vs =>
    cases path <;> cases gt1 <;> simp only [minArrRef, Target.vec, if_true, Bool.false_eq_true, if_false,
      Option.some.injEq, reduceCtorEq] at h
    · subst h
      match vs, hv with
      | [], _ => rfl
      | [x], hv => have := hv [x] rfl rfl; subst this; rfl
      | _ :: _ :: _, _ => rfl
    · exact h.symm
  | series cols =>
    match cols, h with
    | [], h =>
      cases path <;> cases gt1 <;> simp only [minArrRef, Target.cols, if_true, Bool.false_eq_true, if_false,
        Option.some.injEq, reduceCtorEq] at h
      exact h.symm
    | [a], h =>
      cases path <;> cases gt1 <;> simp only [minArrRef, Target.cols, if_true, Bool.false_eq_true, if_false,
        Option.some.injEq, reduceCtorEq] at h <;> exact h.symm
    | a :: b :: t, h =>
      cases path <;> cases gt1 <;> simp only [minArrRef, Target.cols, if_true, Bool.false_eq_true, if_false,
        Option.some.injEq, reduceCtorEq] at h
      exact h.symm

theorem maxArrRef_reads (path gt1 : Bool) (tmin tmax : Target) (c i : Nat) (v : XVal)
    (h : maxArrRef path gt1 tmin tmax c i = some v)
    (hv : ∀ vs, tmax = .vector vs → vs.length = 1 → c = 0) : v = tmax.at c i := by
  cases tmax with
  | scalar x =>
    cases path <;> cases gt1 <;> simp only [maxArrRef, Target.sv, if_true, Bool.false_eq_true, if_false,
      Option.some.injEq] at h <;> exact h.symm
  | vector vs =>
    cases path <;> cases gt1 <;> simp only [maxArrRef, Target.vec, if_true, Bool.false_eq_true, if_false,
      Option.some.injEq, reduceCtorEq] at h
    · subst h
      match vs, hv with
      | [], _ => rfl
      | [x], hv => have := hv [x] rfl rfl; subst this; rfl
      | _ :: _ :: _, _ => rfl
    · exact h.symm
  | series cols =>
    match cols, h with
    | [], h =>
      cases path <;> cases gt1 <;> simp only [maxArrRef, Target.cols, if_true, Bool.false_eq_true, if_false,
        Option.some.injEq, reduceCtorEq] at h
      exact h.symm
    | [a], h =>
      cases path <;> cases gt1 <;> simp only [maxArrRef, Target.cols, if_true, Bool.false_eq_true, if_false,
        Option.some.injEq, reduceCtorEq] at h <;> exact h.symm
    | a :: b :: t, h =>
      cases path <;> cases gt1 <;> simp only [maxArrRef, Target.cols, if_true, Bool.false_eq_true, if_false,
        Option.some.injEq, reduceCtorEq] at h
      exact h.symm

/-- the combinations the validation lets through are defined: scalar targets always; Timeseries targets with
    1-D values on path goals; ndarray targets and 2-D Timeseries values on vector goals -/
theorem minArrRef_defined (path gt1 : Bool) (tmin tmax : Target) (c i : Nat)
    (h : (∃ x, tmin = .scalar x) ∨ (∃ col, tmin = .series [col] ∧ path = true) ∨
         ((∃ vs, tmin = .vector vs) ∧ gt1 = true) ∨ ((∃ cols, tmin = .series cols) ∧ path = true ∧ gt1 = true)) :
    (minArrRef path gt1 tmin tmax c i).isSome = true := by
  rcases h with ⟨x, rfl⟩ | ⟨col, rfl, rfl⟩ | ⟨⟨vs, rfl⟩, rfl⟩ | ⟨⟨cols, rfl⟩, rfl, rfl⟩
  · cases path <;> cases gt1 <;> rfl
  · cases gt1 <;> rfl
  · cases path <;> rfl
  · match cols with
    | [] => rfl
    | [_] => rfl
    | _ :: _ :: _ => rfl

theorem maxArrRef_defined (path gt1 : Bool) (tmin tmax : Target) (c i : Nat)
    (h : (∃ x, tmax = .scalar x) ∨ (∃ col, tmax = .series [col] ∧ path = true) ∨
         ((∃ vs, tmax = .vector vs) ∧ gt1 = true) ∨ ((∃ cols, tmax = .series cols) ∧ path = true ∧ gt1 = true)) :
    (maxArrRef path gt1 tmin tmax c i).isSome = true := by
  rcases h with ⟨x, rfl⟩ | ⟨col, rfl, rfl⟩ | ⟨⟨vs, rfl⟩, rfl⟩ | ⟨⟨cols, rfl⟩, rfl, rfl⟩
  · cases path <;> cases gt1 <;> rfl
  · cases gt1 <;> rfl
  · cases path <;> rfl
  · match cols with
    | [] => rfl
    | [_] => rfl
    | _ :: _ :: _ => rfl

/-! ## soft constraints -/

theorem xIsNinf_iff (v : XVal) : xIsNinf v = (v == XVal.ninf) := rfl

theorem sentinelMin_code (x : XVal) :
    (if (xIsNan x || xIsNinf x) = true then XVal.fin (-floatMax) else x) = sentinelMin true x := by
  cases x with
  | nan => rfl
  | e y => cases y <;> simp [xIsNan, xIsNinf, sentinelMin, XVal.ninf, XVal.fin]

theorem sentinelMax_code (x : XVal) :
    (if (xIsNan x || xIsPinf x) = true then XVal.fin floatMax else x) = sentinelMax true x := by
  cases x with
  | nan => rfl
  | e y => cases y <;> simp [xIsNan, xIsPinf, sentinelMax, XVal.pinf, XVal.fin]

theorem minConstRef_eq (g : Goal) (c i : Nat) : minConstRef g c i = g.minSym c i := by
  unfold minConstRef Goal.minSym Goal.mAt
  cases ht : g.tmin with
  | scalar x => cases x with
    | nan => rfl
    | e y => cases y <;> rfl
  | vector vs =>
    simp only [Target.at, Target.isArr]
    exact sentinelMin_code _
  | series cols =>
    simp only [Target.at, Target.isArr]
    exact sentinelMin_code _

theorem maxConstRef_eq (g : Goal) (c i : Nat) : maxConstRef g c i = g.maxSym c i := by
  unfold maxConstRef Goal.maxSym Goal.MAt
  cases ht : g.tmax with
  | scalar x => cases x with
    | nan => rfl
    | e y => cases y <;> rfl
  | vector vs =>
    simp only [Target.at, Target.isArr]
    exact sentinelMax_code _
  | series cols =>
    simp only [Target.at, Target.isArr]
    exact sentinelMax_code _

theorem keepMinRef_eq (g : Goal) (n c : Nat) : keepMinRef g n c = g.keepMin n c := by
  unfold keepMinRef Goal.keepMin
  cases g.tmin <;> rfl

theorem keepMaxRef_eq (g : Goal) (n c : Nat) : keepMaxRef g n c = g.keepMax n c := by
  unfold keepMaxRef Goal.keepMax
  cases g.tmax <;> rfl

theorem softExprRef_eq (target : XVal) (f eps bound nom : Rat) :
    softExprRef target f eps bound nom = softRow target f eps bound nom := by
  unfold softExprRef ifAbsLt softRow
  cases target with
  | nan => rfl
  | e y => cases y <;> rfl

/-- the code-level reference of the soft-constraint construction is the model `softRows` -/
theorem softRowsRef_eq (g : Goal) (n : Nat) (fs eps : List (List Rat)) :
    softRowsRef g n fs eps = softRows g n fs eps := by
  have h1 : minConstRef = Goal.minSym := by funext g c i; exact minConstRef_eq g c i
  have h2 : maxConstRef = Goal.maxSym := by funext g c i; exact maxConstRef_eq g c i
  have h3 : keepMinRef = Goal.keepMin := by funext g n c; exact keepMinRef_eq g n c
  have h4 : keepMaxRef = Goal.keepMax := by funext g n c; exact keepMaxRef_eq g n c
  have h5 : softExprRef = softRow := by funext t f e b m; exact softExprRef_eq t f e b m
  have hr : ∀ (b : XVal) (k : Rat → Rat) (lb ub : EVal),
      rowWith b k lb ub = (match b with | .e (.fin q) => ⟨k q, lb, ub⟩ | _ => ⟨0, lb, ub⟩ : Row) := by
    intro b k lb ub; rfl
  simp only [softRowsRef, softRows, h1, h2, h3, h4, h5]
  rfl

/-! ## Goal properties -/

theorem Target.has_eq (t : Target) : t.has = (t.isSeries || t.anyFinite) := by
  cases t <;> rfl

theorem hasMinRef_eq (g : Goal) : hasMinRef g = g.hasMin := by
  unfold hasMinRef Goal.hasMin
  cases g.tmin <;> rfl

theorem hasMaxRef_eq (g : Goal) : hasMaxRef g = g.hasMax := by
  unfold hasMaxRef Goal.hasMax
  cases g.tmax <;> rfl

theorem isEmptyRef_eq (g : Goal) : isEmptyRef g = g.isEmpty := by
  simp only [isEmptyRef, Goal.isEmpty, Goal.hasTargetBounds, Goal.hasMin, Goal.hasMax, Target.has_eq]
  generalize g.tmin.isSeries = a
  generalize g.tmin.anyFinite = b
  generalize g.tmax.isSeries = c
  generalize g.tmax.anyFinite = d
  revert a b c d
  decide

end RtcVerif.C04
