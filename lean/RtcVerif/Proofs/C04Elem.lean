import RtcVerif.Model.C04Elem
import RtcVerif.Proofs.C02Loop
import Mathlib.Tactic.Ring
/-!
The mask-level element-wise reading of `_gp_goal_hard_constraint` (`C04.hardElemX`, target of the
source-to-Lean translation) equals the `EVal`-level model of the property theorems
(`C04.hardTargetStep`, `C02.fixedStep`, `C04.hardMinStep`, `C02.hardStep`), under the hypotheses the
model already carries: a non-zero (validated: positive) nominal, and a finite function range for
non-critical target goals.  NaN / ±inf targets: the mask code computes garbage (`nan`, `±inf`),
never folds it, and overwrites it with `∓inf`; the model writes `∓inf` directly.
-/
namespace RtcVerif.C04
open RtcVerif

/-! ### non-finite values stay non-finite -/

theorem infTimes_not_fin (q : Rat) : (infTimes q).isFinite = false := by
  unfold infTimes
  split
  · rfl
  · split <;> rfl

theorem xadd_nf_left (a b : XVal) (h : a.isFinite = false) : (xadd a b).isFinite = false := by
  cases a with
  | nan => cases b <;> rfl
  | e x =>
    cases x with
    | fin q => simp [XVal.isFinite] at h
    | ninf => cases b with
      | nan => rfl
      | e y => cases y <;> rfl
    | pinf => cases b with
      | nan => rfl
      | e y => cases y <;> rfl

theorem xadd_nf_right (a b : XVal) (h : b.isFinite = false) : (xadd a b).isFinite = false := by
  cases b with
  | nan => cases a with
    | nan => rfl
    | e x => cases x <;> rfl
  | e y =>
    cases y with
    | fin q => simp [XVal.isFinite] at h
    | ninf => cases a with
      | nan => rfl
      | e x => cases x <;> rfl
    | pinf => cases a with
      | nan => rfl
      | e x => cases x <;> rfl

theorem xneg_nf (a : XVal) (h : a.isFinite = false) : (xneg a).isFinite = false := by
  cases a with
  | nan => rfl
  | e x => cases x with
    | fin q => simp [XVal.isFinite] at h
    | ninf => rfl
    | pinf => rfl

theorem xsub_nf_right (a b : XVal) (h : b.isFinite = false) : (xsub a b).isFinite = false :=
  xadd_nf_right _ _ (xneg_nf b h)

theorem xsub_nf_left (a b : XVal) (h : a.isFinite = false) : (xsub a b).isFinite = false :=
  xadd_nf_left _ _ h

theorem xmul_fin_nf (q : Rat) (b : XVal) (h : b.isFinite = false) :
    (xmul (XVal.fin q) b).isFinite = false := by
  cases b with
  | nan => rfl
  | e y => cases y with
    | fin r => simp [XVal.isFinite] at h
    | ninf => exact infTimes_not_fin _
    | pinf => exact infTimes_not_fin _

theorem xdiv_nf_fin (a : XVal) (q : Rat) (h : a.isFinite = false) :
    (xdiv a (XVal.fin q)).isFinite = false := by
  cases a with
  | nan => rfl
  | e x => cases x with
    | fin r => simp [XVal.isFinite] at h
    | ninf => exact infTimes_not_fin _
    | pinf => exact infTimes_not_fin _

/-! ### the envelope formula -/

theorem envLoX_fin (e t relax nom : Rat) (r0 : XVal) (critical : Bool) (hnom : nom ≠ 0)
    (hr : critical = true ∨ ∃ lo, r0 = XVal.e (EVal.fin lo)) :
    envLoX e (XVal.e (EVal.fin t)) r0 relax nom critical =
      XVal.e (EVal.fin (((if critical then 0 else e * (finVal r0 - t)) + t - relax) / nom)) := by
  cases critical with
  | true =>
    simp only [envLoX, if_true, XVal.fin, xmul, xadd, xsub, xneg, EVal.neg, xdiv, hnom, if_false]
    congr 2
    ring
  | false =>
    rcases hr with h | ⟨lo, rfl⟩
    · cases h
    · simp only [envLoX, Bool.false_eq_true, if_false, XVal.fin, xmul, xadd, xsub, xneg, EVal.neg, xdiv,
        hnom, finVal]
      congr 2
      ring

theorem envHiX_fin (e t relax nom : Rat) (r1 : XVal) (critical : Bool) (hnom : nom ≠ 0)
    (hr : critical = true ∨ ∃ hi, r1 = XVal.e (EVal.fin hi)) :
    envHiX e (XVal.e (EVal.fin t)) r1 relax nom critical =
      XVal.e (EVal.fin (((if critical then 0 else e * (finVal r1 - t)) + t + relax) / nom)) := by
  cases critical with
  | true =>
    simp only [envHiX, if_true, XVal.fin, xmul, xadd, xdiv, hnom, if_false]
    congr 2
    ring
  | false =>
    rcases hr with h | ⟨hi, rfl⟩
    · cases h
    · simp only [envHiX, Bool.false_eq_true, if_false, XVal.fin, xmul, xadd, xsub, xneg, EVal.neg, xdiv,
        hnom, finVal]
      congr 2
      ring

theorem envLoX_nf (e relax nom : Rat) (gm r0 : XVal) (critical : Bool) (h : gm.isFinite = false) :
    (envLoX e gm r0 relax nom critical).isFinite = false := by
  unfold envLoX
  exact xdiv_nf_fin _ _ (xsub_nf_left _ _ (xadd_nf_right _ _ h))

theorem envHiX_nf (e relax nom : Rat) (gM r1 : XVal) (critical : Bool) (h : gM.isFinite = false) :
    (envHiX e gM r1 relax nom critical).isFinite = false := by
  unfold envHiX
  exact xdiv_nf_fin _ _ (xadd_nf_left _ _ (xadd_nf_right _ _ h))

/-! ### classification of the two bounds before folding -/

/-- the mask-level bound `A` (for target `gt`) against the model's bound `tl`, default `d` -/
inductive Cls (d : EVal) (A gt : XVal) (tl : EVal) : Prop
  | fin (a : Rat) (hA : A = XVal.e (EVal.fin a)) (ht : tl = EVal.fin a) (hg : gt.isFinite = true)
  | dflt (hA : A = XVal.e d) (ht : tl = d)
  | junk (hA : A.isFinite = false) (hg : gt.isFinite = false) (ht : tl = d)

theorem cls_lo (g : Goal) (eps : Rat) (i : Nat) (hnom : g.nomAt 0 ≠ 0)
    (hr : g.critical = true ∨ ∃ lo, g.loAt 0 = XVal.e (EVal.fin lo)) :
    Cls EVal.ninf
      (if g.hasMin then envLoX eps (g.mAt 0 i) (g.loAt 0) g.relaxation (g.nomAt 0) g.critical else XVal.ninf)
      (g.mAt 0 i) (targetLo g eps i) := by
  unfold targetLo
  cases hm : g.hasMin with
  | false => exact .dflt (by simp [XVal.ninf]) (by simp)
  | true =>
    simp only [if_true]
    cases hv : g.mAt 0 i with
    | nan => exact .junk (envLoX_nf _ _ _ _ _ _ rfl) rfl (by simp [finOr])
    | e x =>
      cases x with
      | ninf => exact .junk (envLoX_nf _ _ _ _ _ _ rfl) rfl (by simp [finOr])
      | pinf => exact .junk (envLoX_nf _ _ _ _ _ _ rfl) rfl (by simp [finOr])
      | fin t =>
        refine .fin _ (envLoX_fin eps t g.relaxation (g.nomAt 0) (g.loAt 0) g.critical hnom hr) ?_ rfl
        simp only [finOr]

theorem cls_hi (g : Goal) (eps : Rat) (i : Nat) (hnom : g.nomAt 0 ≠ 0)
    (hr : g.critical = true ∨ ∃ hi, g.hiAt 0 = XVal.e (EVal.fin hi)) :
    Cls EVal.pinf
      (if g.hasMax then envHiX eps (g.MAt 0 i) (g.hiAt 0) g.relaxation (g.nomAt 0) g.critical else XVal.pinf)
      (g.MAt 0 i) (targetHi g eps i) := by
  unfold targetHi
  cases hm : g.hasMax with
  | false => exact .dflt (by simp [XVal.pinf]) (by simp)
  | true =>
    simp only [if_true]
    cases hv : g.MAt 0 i with
    | nan => exact .junk (envHiX_nf _ _ _ _ _ _ rfl) rfl (by simp [finOr])
    | e x =>
      cases x with
      | ninf => exact .junk (envHiX_nf _ _ _ _ _ _ rfl) rfl (by simp [finOr])
      | pinf => exact .junk (envHiX_nf _ _ _ _ _ _ rfl) rfl (by simp [finOr])
      | fin t =>
        refine .fin _ (envHiX_fin eps t g.relaxation (g.nomAt 0) (g.hiAt 0) g.critical hnom hr) ?_ rfl
        simp only [finOr]

/-! ### folding and reset -/

theorem foldMask_nf_left (A B : XVal) (thr : Rat) (h : A.isFinite = false) : foldMaskX A B thr = false := by
  cases A with
  | nan => simp [foldMaskX, xIsNan]
  | e x => cases x with
    | fin q => simp [XVal.isFinite] at h
    | ninf => cases B with
      | nan => simp [foldMaskX, xIsNan]
      | e y => cases y <;> simp [foldMaskX, xIsNan, xsub, xneg, EVal.neg, xadd, xabs, xlt, EVal.lt, EVal.le, XVal.fin, XVal.pinf, XVal.ninf]
    | pinf => cases B with
      | nan => simp [foldMaskX, xIsNan]
      | e y => cases y <;> simp [foldMaskX, xIsNan, xsub, xneg, EVal.neg, xadd, xabs, xlt, EVal.lt, EVal.le, XVal.fin, XVal.pinf, XVal.ninf]

theorem foldMask_nf_right (A B : XVal) (thr : Rat) (h : B.isFinite = false) : foldMaskX A B thr = false := by
  cases B with
  | nan => cases A <;> simp [foldMaskX, xIsNan]
  | e y => cases y with
    | fin q => simp [XVal.isFinite] at h
    | ninf => cases A with
      | nan => simp [foldMaskX, xIsNan]
      | e x => cases x <;> simp [foldMaskX, xIsNan, xsub, xneg, EVal.neg, xadd, xabs, xlt, EVal.lt, EVal.le, XVal.fin, XVal.pinf, XVal.ninf]
    | pinf => cases A with
      | nan => simp [foldMaskX, xIsNan]
      | e x => cases x <;> simp [foldMaskX, xIsNan, xsub, xneg, EVal.neg, xadd, xabs, xlt, EVal.lt, EVal.le, XVal.fin, XVal.pinf, XVal.ninf]

theorem foldMask_fin (a b thr : Rat) :
    foldMaskX (XVal.e (EVal.fin a)) (XVal.e (EVal.fin b)) thr = decide (qabs (a - b) < thr) := by
  simp only [foldMaskX, xIsNan, Bool.or_self, Bool.not_false, Bool.true_and, xsub, xneg, EVal.neg, xadd,
    XVal.fin, xabs, xlt, EVal.lt, EVal.le, ← sub_eq_add_neg]
  by_cases h : qabs (a - b) < thr
  · simp [h, le_of_lt h, not_le.2 h]
  · have : thr ≤ qabs (a - b) := not_lt.1 h
    by_cases h2 : qabs (a - b) ≤ thr <;> simp [h, h2, this]

/-- after folding and the reset of non-finite targets, the mask-level bounds are the model's -/
theorem fold_reset (thr : Rat) (both : Bool) (A B gm gM : XVal) (tl th : EVal)
    (ca : Cls EVal.ninf A gm tl) (cb : Cls EVal.pinf B gM th) :
    xsel (!(XVal.isFinite gm)) XVal.ninf
        (if both then xsel (foldMaskX A B thr) (xmul (XVal.fin (1 / 2)) (xadd A B)) A else A)
      = XVal.e (foldEq thr both tl th).1
    ∧ xsel (!(XVal.isFinite gM)) XVal.pinf
        (if both then xsel (foldMaskX A B thr) (xmul (XVal.fin (1 / 2)) (xadd A B)) B else B)
      = XVal.e (foldEq thr both tl th).2 := by
  have noFoldL : ∀ x : EVal, (∀ q, x ≠ EVal.fin q) → ∀ y, foldEq thr both x y = (x, y) := by
    intro x hx y
    unfold foldEq
    split
    · rename_i a b
      exact absurd rfl (hx a)
    · rfl
  have noFoldR : ∀ y : EVal, (∀ q, y ≠ EVal.fin q) → ∀ x, foldEq thr both x y = (x, y) := by
    intro y hy x
    unfold foldEq
    split
    · rename_i a b
      exact absurd rfl (hy b)
    · rfl
  -- the masked value when the mask is off
  have off : ∀ X : XVal, foldMaskX A B thr = false →
      (if both then xsel (foldMaskX A B thr) (xmul (XVal.fin (1 / 2)) (xadd A B)) X else X) = X := by
    intro X h
    cases both <;> simp [xsel, h]
  cases ca with
  | fin a hA ht hg =>
    cases cb with
    | fin b hB ht' hg' =>
      subst hA hB ht ht'
      simp only [hg, hg', Bool.not_true, xsel, Bool.false_eq_true, if_false, foldMask_fin, foldEq]
      cases both with
      | false => simp
      | true =>
        simp only [if_true, Bool.true_and]
        by_cases h : qabs (a - b) < thr
        · simp only [h, decide_true, if_true, XVal.fin, xadd, xmul]
          constructor <;> (congr 2; ring)
        · simp [h]
    | dflt hB ht' =>
      have hm : foldMaskX A B thr = false := foldMask_nf_right _ _ _ (by rw [hB]; rfl)
      rw [off _ hm, off _ hm, ht', noFoldR _ (by intro q h; cases h)]
      subst hA ht
      constructor
      · simp [xsel, hg]
      · rw [hB]
        cases hf : XVal.isFinite gM <;> simp [xsel, XVal.pinf]
    | junk hB hg' ht' =>
      have hm : foldMaskX A B thr = false := foldMask_nf_right _ _ _ hB
      rw [off _ hm, off _ hm, ht', noFoldR _ (by intro q h; cases h)]
      subst hA ht
      constructor
      · simp [xsel, hg]
      · simp [xsel, hg', XVal.pinf]
  | dflt hA ht =>
    have hm : foldMaskX A B thr = false := foldMask_nf_left _ _ _ (by rw [hA]; rfl)
    rw [off _ hm, off _ hm, ht, noFoldL _ (by intro q h; cases h)]
    constructor
    · rw [hA]
      cases hf : XVal.isFinite gm <;> simp [xsel, XVal.ninf]
    · cases cb with
      | fin b hB ht' hg' => subst hB ht'; simp [xsel, hg']
      | dflt hB ht' => rw [hB, ht']; cases hf : XVal.isFinite gM <;> simp [xsel, XVal.pinf]
      | junk hB hg' ht' => rw [ht']; simp [xsel, hg', XVal.pinf]
  | junk hA hg ht =>
    have hm : foldMaskX A B thr = false := foldMask_nf_left _ _ _ hA
    rw [off _ hm, off _ hm, ht, noFoldL _ (by intro q h; cases h)]
    constructor
    · simp [xsel, hg, XVal.ninf]
    · cases cb with
      | fin b hB ht' hg' => subst hB ht'; simp [xsel, hg']
      | dflt hB ht' => rw [hB, ht']; cases hf : XVal.isFinite gM <;> simp [xsel, XVal.pinf]
      | junk hB hg' ht' => rw [ht']; simp [xsel, hg', XVal.pinf]

theorem xsub_e_fin (x : EVal) (c : Rat) : xsub (XVal.e x) (XVal.fin c) = XVal.e (subFin x c) := by
  cases x <;> simp [xsub, xneg, EVal.neg, xadd, XVal.fin, subFin, XVal.ninf, XVal.pinf, sub_eq_add_neg]

theorem xadd_e_fin (x : EVal) (c : Rat) : xadd (XVal.e x) (XVal.fin c) = XVal.e (addFin x c) := by
  cases x <;> simp [xadd, XVal.fin, addFin, XVal.ninf, XVal.pinf]

/-! ### the element-wise mask code is the model -/

/-- `violation_tolerance` as the code holds it (`inf` by default) -/
def vtX (o : HOpts) : XVal :=
  match o.violationTolerance with
  | some q => XVal.fin q
  | none => XVal.pinf

theorem xlt_vtX (o : HOpts) (e : Rat) : xlt (vtX o) (XVal.fin e) = C02.vtFires o e := by
  unfold vtX C02.vtFires
  cases o.violationTolerance with
  | none => simp [xlt, XVal.pinf, XVal.fin, EVal.lt, EVal.le]
  | some q =>
    simp only [xlt, XVal.fin, EVal.lt, EVal.le]
    by_cases h : q < e
    · simp [h, le_of_lt h, not_le.2 h]
    · have : e ≤ q := not_lt.1 h
      by_cases h2 : q ≤ e <;> simp [h, h2, this]

/-- target-goal branch without the `violation_tolerance` step: `hardTargetStep` -/
theorem hardElemX_target (o : HOpts) (g : Goal) (eps v : Rat) (i : Nat) (vt : XVal)
    (ht : g.hasTargetBounds = true) (hnom : g.nomAt 0 ≠ 0)
    (hr : g.critical = true ∨ ((∃ lo, g.loAt 0 = XVal.e (EVal.fin lo)) ∧ ∃ hi, g.hiAt 0 = XVal.e (EVal.fin hi)))
    (hvt : xlt vt (XVal.fin eps) = false) :
    hardElemX eps (g.mAt 0 i) (g.MAt 0 i) (g.loAt 0) (g.hiAt 0) g.relaxation (g.nomAt 0) g.critical
        g.hasMin g.hasMax g.hasTargetBounds o.equalityThreshold o.constraintRelaxation vt
        o.fixMinimizedValues v
      = (XVal.e (hardTargetStep o g eps i).lo, XVal.e (hardTargetStep o g eps i).hi) := by
  have ca := cls_lo g eps i hnom (hr.imp id (fun h => h.1))
  have cb := cls_hi g eps i hnom (hr.imp id (fun h => h.2))
  obtain ⟨f1, f2⟩ := fold_reset o.equalityThreshold (g.hasMin && g.hasMax) _ _ _ _ _ _ ca cb
  simp only [hardElemX, ht, if_true, hvt, xsel, Bool.false_eq_true, if_false, hardTargetStep]
  simp only [xsel] at f1 f2
  rw [f1, f2, xsub_e_fin, xadd_e_fin]

end RtcVerif.C04

namespace RtcVerif.C02
open RtcVerif RtcVerif.C04

/-- **`hardElemX` is `hardStep`**: the element the code stores for goal `g` at step `i` from the
    solution `s` of its priority (the call `__goal_hard_constraint(goal, epsilon, …)` with
    `epsilon = eps + violation_relaxation` for target goals, `= function value` otherwise). -/
theorem hardElemX_eq_hardStep (o : HOpts) (g : Goal) (s : Sol) (gj i : Nat) (hnom : g.nomAt 0 ≠ 0)
    (hr : g.hasTargetBounds = true → g.critical = true ∨
      ((∃ lo, g.loAt 0 = XVal.e (EVal.fin lo)) ∧ ∃ hi, g.hiAt 0 = XVal.e (EVal.fin hi))) :
    hardElemX (if g.hasTargetBounds then s.eps gj i + o.violationRelaxation else s.fval g.fk i)
        (g.mAt 0 i) (g.MAt 0 i) (g.loAt 0) (g.hiAt 0) g.relaxation (g.nomAt 0) g.critical
        g.hasMin g.hasMax g.hasTargetBounds o.equalityThreshold o.constraintRelaxation (vtX o)
        o.fixMinimizedValues (s.fval g.fk i)
      = (XVal.e (hardStep o g s gj i).lo, XVal.e (hardStep o g s gj i).hi) := by
  cases ht : g.hasTargetBounds with
  | true =>
    simp only [if_true, hardStep, ht]
    cases hv : vtFires o (s.eps gj i + o.violationRelaxation) with
    | false =>
      simp only [Bool.false_eq_true, if_false]
      have := hardElemX_target o g (s.eps gj i + o.violationRelaxation) (s.fval g.fk i) i (vtX o) ht hnom
        (hr ht) (by rw [xlt_vtX]; exact hv)
      rw [ht] at this
      exact this
    | true =>
      simp only [if_true, fixedStep]
      have hx : xlt (vtX o) (XVal.fin (s.eps gj i + o.violationRelaxation)) = true := by
        rw [xlt_vtX]; exact hv
      simp only [hardElemX, if_true, xsel, hx]
      simp only [XVal.fin, xsub, xneg, EVal.neg, xadd, xdiv, hnom, if_false, ← sub_eq_add_neg]
  | false =>
    simp only [Bool.false_eq_true, if_false, hardStep, ht, hardMinStep, hardElemX]
    have hq : xeqX (XVal.fin g.relaxation) (XVal.fin 0) = (g.relaxation == 0) := by
      simp only [xeqX, XVal.fin]
      rw [Bool.eq_iff_iff]
      simp
    rw [hq]
    cases hf : (o.fixMinimizedValues && g.relaxation == 0) with
    | true => simp [XVal.fin, xdiv, hnom]
    | false =>
      simp only [Bool.false_eq_true, if_false, XVal.fin, xadd, xdiv, hnom, xmul, XVal.ninf, infTimes]
      norm_num

/-- the merge at the end of `__goal_hard_constraint` is what `storeOther` stores -/
theorem storeOther_get_eq_mergeNew (st : Store) (k : Key) (new : EIvl) :
    (storeOther st k new).get k = some (mergeNew EVal.max EVal.min new (st.get k)) := by
  unfold storeOther mergeNew
  cases st.get k <;> simp [get_set_same, updateBounds]

/-- `_gp_update_constraint_store` is what `storeSelf` stores -/
theorem storeSelf_get_eq_mergeStored (st : Store) (k : Key) (new : EIvl) :
    (storeSelf st k new).get k = some (mergeStored EVal.max EVal.min (st.get k) new) := by
  unfold storeSelf mergeStored
  cases st.get k <;> simp [get_set_same, updateBounds]

end RtcVerif.C02
