import RtcVerif.Model.C04Inputs
import Mathlib.Tactic.Common
/-! Lemmas about the dictionary model of `constant_inputs()` / `parameters()` (C04). -/
set_option linter.unusedSimpArgs false
namespace RtcVerif.C04

theorem dictGet_dictSet_same {V : Type} (d : Dict V) (k : String) (v : V) : dictGet (dictSet d k v) k = some v := by
  induction d with
  | nil => simp [dictSet, dictGet]
  | cons kv rest ih =>
    obtain ⟨k', v'⟩ := kv
    by_cases h : k' = k
    · simp [dictSet, dictGet, h]
    · have hb : (k' == k) = false := by simpa using h
      simp only [dictSet, hb, Bool.false_eq_true, if_false]
      simp only [dictGet, List.find?, hb] at ih ⊢
      exact ih

theorem dictGet_dictSet_other {V : Type} (d : Dict V) (k k2 : String) (v : V) (h : k ≠ k2) :
    dictGet (dictSet d k v) k2 = dictGet d k2 := by
  induction d with
  | nil =>
    have hb : (k == k2) = false := by simpa using h
    simp [dictSet, dictGet, hb]
  | cons kv rest ih =>
    obtain ⟨k', v'⟩ := kv
    by_cases h1 : k' = k
    · subst h1
      have hb : (k' == k2) = false := by simpa using h
      simp [dictSet, dictGet, hb]
    · have hb : (k' == k) = false := by simpa using h1
      simp only [dictSet, hb, Bool.false_eq_true, if_false]
      by_cases h2 : k' = k2
      · simp [dictGet, h2]
      · have hb2 : (k' == k2) = false := by simpa using h2
        simp only [dictGet, List.find?, hb2] at ih ⊢
        exact ih

/-- after writing all pending pairs, a name reads the LAST pending value registered under it -/
theorem foldl_set_last {V : Type} (conv : V → V) (pending : List (String × V)) :
    ∀ (d : Dict V) (k : String),
      dictGet (pending.foldl (fun acc kv => dictSet acc kv.1 (conv kv.2)) d) k =
        match (pending.reverse.find? (fun kv => kv.1 == k)) with
        | some kv => some (conv kv.2)
        | none => dictGet d k := by
  induction pending with
  | nil => intro d k; rfl
  | cons p rest ih =>
    intro d k
    simp only [List.foldl_cons, List.reverse_cons, List.find?_append]
    rw [ih]
    cases hr : rest.reverse.find? (fun kv => kv.1 == k) with
    | some kv => simp
    | none =>
      by_cases h : p.1 = k
      · subst h
        simp [dictGet_dictSet_same]
      · have hb : (p.1 == k) = false := by simpa using h
        simp [hb, dictGet_dictSet_other _ _ _ _ h]

theorem dictGet_cons_other {V : Type} (k' k : String) (v' : V) (l : Dict V) (hk : k' ≠ k) :
    dictGet ((k', v') :: l) k = dictGet l k := by
  have hb : (k' == k) = false := by simpa using hk
  simp [dictGet, List.find?_cons, hb]

theorem dictGet_keepOnly {V : Type} (d : Dict V) (orig : List String) (k : String) :
    dictGet (dictKeepOnly d orig) k = if k ∈ orig then dictGet d k else none := by
  induction d with
  | nil => simp [dictKeepOnly, dictGet]
  | cons kv rest ih =>
    obtain ⟨k', v'⟩ := kv
    simp only [dictKeepOnly] at ih ⊢
    rw [List.filter_cons]
    by_cases ho : k' ∈ orig
    · rw [if_pos (by simpa using ho)]
      by_cases hk : k' = k
      · subst hk; simp [dictGet, ho]
      · rw [dictGet_cons_other _ _ _ _ hk, dictGet_cons_other _ _ _ _ hk, ih]
    · rw [if_neg (by simpa using ho), ih]
      by_cases hk : k' = k
      · subst hk; simp [ho]
      · rw [dictGet_cons_other _ _ _ _ hk]

theorem constConv_at (n : Nat) (t : Target) (c i : Nat) (hi : i < n)
    (hc : ∀ vs, t = .vector vs → c < vs.length) : (constConv n t).at c i = t.at c i := by
  cases t with
  | scalar v => simp [constConv, Target.at, getB, hi]
  | series cols => rfl
  | vector vs =>
    have hc' := hc vs rfl
    simp only [constConv, Target.at]
    match vs, hc' with
    | [x], _ => simp [getB, hi]
    | a :: b :: t, hc' =>
      simp only [getB, List.map_cons]
      rw [← List.map_cons, ← List.map_cons]
      generalize (a :: b :: t) = l at hc'
      simp [List.getD_eq_getElem?_getD, List.getElem?_map, List.getElem?_eq_getElem hc', List.getElem?_replicate, hi]

/-- what a name reads after one call of the overridden method -/
theorem inputsCall_reads {V : Type} (conv : V → V) (remember : Bool) (origKeys : Option (List String)) (d : Dict V)
    (pending : List (String × V)) (k : String) :
    dictGet (inputsCallRef conv remember origKeys d pending).2 k =
      match pending.reverse.find? (fun kv => kv.1 == k) with
      | some kv => some (conv kv.2)
      | none =>
          if remember then (if k ∈ (inputsCallRef conv remember origKeys d pending).1 then dictGet d k else none)
          else dictGet d k := by
  simp only [inputsCallRef]
  rw [foldl_set_last]
  cases pending.reverse.find? (fun kv => kv.1 == k) with
  | some kv => rfl
  | none =>
    cases remember with
    | false => rfl
    | true => simp only [if_true]; exact dictGet_keepOnly _ _ _

end RtcVerif.C04
