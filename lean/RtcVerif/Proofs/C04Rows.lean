import RtcVerif.Model.C04Goals
import RtcVerif.Proofs.NumOrder
import Mathlib.Algebra.Order.Field.Basic
import Mathlib.Tactic.Common
/-! Helper lemmas about the soft-row model (active branch, sentinel, slice indices). -/
namespace RtcVerif.C04
open RtcVerif

theorem softRow_active (t f eps b nom : Rat) (ht : qabs t < floatMax) :
    softRow (XVal.e (EVal.fin t)) f eps b nom = (f - eps * (b - t) - t) / nom := by
  simp [softRow, ht]

theorem sentinelMin_fin (b : Bool) (t : Rat) : sentinelMin b (XVal.e (EVal.fin t)) = XVal.e (EVal.fin t) := by
  cases b <;> rfl
theorem sentinelMax_fin (b : Bool) (t : Rat) : sentinelMax b (XVal.e (EVal.fin t)) = XVal.e (EVal.fin t) := by
  cases b <;> rfl

theorem keepMin_of_finite (g : Goal) (n c i : Nat) (hi : i < n) (t : Rat)
    (ht : g.mAt c i = XVal.e (EVal.fin t)) : g.keepMin n c = true := by
  unfold Goal.keepMin
  cases htm : g.tmin with
  | scalar v => rfl
  | vector vs =>
    have : g.mAt c 0 = g.mAt c i := by simp [Goal.mAt, Target.at, htm]
    simp [this, ht, xIsNan, XVal.ninf]
  | series cols =>
    simp only [Bool.not_eq_true', List.all_eq_false]
    exact ⟨i, List.mem_range.2 hi, by simp [ht, xIsNan, XVal.ninf]⟩

theorem keepMax_of_finite (g : Goal) (n c i : Nat) (hi : i < n) (t : Rat)
    (ht : g.MAt c i = XVal.e (EVal.fin t)) : g.keepMax n c = true := by
  unfold Goal.keepMax
  cases htm : g.tmax with
  | scalar v => rfl
  | vector vs =>
    have : g.MAt c 0 = g.MAt c i := by simp [Goal.MAt, Target.at, htm]
    simp [this, ht, xIsNan, XVal.pinf]
  | series cols =>
    simp only [Bool.not_eq_true', List.all_eq_false]
    exact ⟨i, List.mem_range.2 hi, by simp [ht, xIsNan, XVal.pinf]⟩


end RtcVerif.C04
