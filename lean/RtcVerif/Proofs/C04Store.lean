import RtcVerif.Model.C04Store
import RtcVerif.Proofs.NumOrder
import Mathlib.Order.Defs.LinearOrder
import Mathlib.Order.Lattice
import Mathlib.Order.MinMax
/-!
Lemmas about `_GoalConstraint.update_bounds` over an arbitrary linear order, and their
instances for `EVal` (the executable `updateBounds` of the model).
-/
namespace RtcVerif.C04

section generic
variable {α : Type} [LinearOrder α]

/-- `a ⊆ b` for closed intervals given by their end points -/
def Ivl.sub (a b : Ivl α) : Prop := b.lo ≤ a.lo ∧ a.hi ≤ b.hi
def Ivl.mem (x : α) (a : Ivl α) : Prop := a.lo ≤ x ∧ x ≤ a.hi
def Ivl.ok (a : Ivl α) : Prop := a.lo ≤ a.hi

theorem Ivl.sub_refl (a : Ivl α) : a.sub a := ⟨le_refl _, le_refl _⟩
theorem Ivl.sub_trans {a b c : Ivl α} (h1 : a.sub b) (h2 : b.sub c) : a.sub c :=
  ⟨le_trans h2.1 h1.1, le_trans h1.2 h2.2⟩
theorem Ivl.mem_of_sub {a b : Ivl α} {x : α} (h : a.sub b) (hx : Ivl.mem x a) : Ivl.mem x b :=
  ⟨le_trans h.1 hx.1, le_trans hx.2 h.2⟩

/-- the generic `update_bounds` with the order's own `max` / `min` -/
abbrev ub (s o : Ivl α) (e : Bool) : Ivl α := updateBoundsWith max min s o e
abbrev ubLegacy (s o : Ivl α) (e : Bool) : Ivl α := updateBoundsLegacyWith max min s o e

/-- the result is always a consistent interval (last line of `update_bounds`) -/
theorem ub_ok (s o : Ivl α) (e : Bool) : (ub s o e).ok := by
  simp only [ub, updateBoundsWith, Ivl.ok]
  exact min_le_right _ _

/-- `enforce = "other"`: the result never leaves the other (previous) interval -/
theorem ub_other_sub (s o : Ivl α) (ho : o.ok) : (ub s o false).sub o := by
  simp only [ub, updateBoundsWith, Ivl.sub, Ivl.ok, Bool.false_eq_true, if_false] at *
  constructor
  · exact le_min (le_min (le_max_right _ _) ho) (le_max_right _ _)
  · exact max_le (min_le_right _ _) ho

/-- `enforce = "self"` (repaired code): the result never leaves the stored (self) interval -/
theorem ub_self_sub (s o : Ivl α) (hs : s.ok) : (ub s o true).sub s := by
  simp only [ub, updateBoundsWith, Ivl.sub, Ivl.ok, if_true] at *
  constructor
  · exact le_min (le_min (le_max_left _ _) hs) (le_max_right _ _)
  · exact max_le (min_le_left _ _) hs

/-- when the two intervals share a point the result is exactly the intersection -/
theorem ub_eq_inter (s o : Ivl α) (e : Bool) (x : α) (hs : Ivl.mem x s) (ho : Ivl.mem x o) :
    ub s o e = ⟨max s.lo o.lo, min s.hi o.hi⟩ := by
  obtain ⟨hs1, hs2⟩ := hs; obtain ⟨ho1, ho2⟩ := ho
  have h1 : max s.lo o.lo ≤ x := max_le hs1 ho1
  have h2 : x ≤ min s.hi o.hi := le_min hs2 ho2
  have h12 := le_trans h1 h2
  cases e <;> simp only [ub, updateBoundsWith, Bool.false_eq_true, if_false, if_true]
  · have a : min (max s.lo o.lo) o.hi = max s.lo o.lo := min_eq_left (le_trans h12 (min_le_right _ _))
    have b : max (min s.hi o.hi) o.lo = min s.hi o.hi := max_eq_left (le_trans (le_max_right _ _) h12)
    rw [a, b, min_eq_left h12]
  · have a : min (max s.lo o.lo) s.hi = max s.lo o.lo := min_eq_left (le_trans h12 (min_le_left _ _))
    have b : max (min s.hi o.hi) s.lo = min s.hi o.hi := max_eq_left (le_trans (le_max_left _ _) h12)
    rw [a, b, min_eq_left h12]

/-- a shared point stays in the result -/
theorem ub_mem (s o : Ivl α) (e : Bool) (x : α) (hs : Ivl.mem x s) (ho : Ivl.mem x o) :
    Ivl.mem x (ub s o e) := by
  rw [ub_eq_inter s o e x hs ho]
  exact ⟨max_le hs.1 ho.1, le_min hs.2 ho.2⟩

/-- with a shared point the result lies inside *both* arguments -/
theorem ub_sub_both (s o : Ivl α) (e : Bool) (x : α) (hs : Ivl.mem x s) (ho : Ivl.mem x o) :
    (ub s o e).sub s ∧ (ub s o e).sub o := by
  rw [ub_eq_inter s o e x hs ho]
  exact ⟨⟨le_max_left _ _, min_le_left _ _⟩, ⟨le_max_right _ _, min_le_right _ _⟩⟩

/-- clamping `p` into an interval that contains `v` lands between `p` and `v` -/
theorem clamp_between (p v lo hi : α) (h1 : lo ≤ v) (h2 : v ≤ hi) :
    min p v ≤ min (max p lo) hi ∧ min (max p lo) hi ≤ max p v := by
  constructor
  · apply le_min
    · exact le_trans (min_le_left _ _) (le_max_left _ _)
    · exact le_trans (min_le_right _ _) h2
  · rcases le_total p lo with h | h
    · rw [max_eq_right h]
      exact le_trans (min_le_left _ _) (le_trans h1 (le_max_right _ _))
    · rw [max_eq_left h]
      exact le_trans (min_le_left _ _) (le_max_left _ _)

theorem clamp_between' (p v lo hi : α) (h1 : lo ≤ v) (h2 : v ≤ hi) :
    min p v ≤ max (min p hi) lo ∧ max (min p hi) lo ≤ max p v := by
  constructor
  · rcases le_total p hi with h | h
    · rw [min_eq_left h]
      exact le_trans (min_le_left _ _) (le_max_left _ _)
    · rw [min_eq_right h]
      exact le_trans (min_le_right _ _) (le_trans h2 (le_max_left _ _))
  · apply max_le
    · exact le_trans (min_le_left _ _) (le_max_left _ _)
    · exact le_trans h1 (le_max_right _ _)

/-- **soft-to-hard merge keeps the new goal's interval**: if the value `v` achieved at the
    solution lies in the existing entry `ex` and in a hull `[a, b]`, then merging any new interval
    `n ⊆ [a, b]` (e.g. the equality-folded one) with `enforce="other"` stays inside `[a, b]`. -/
theorem ub_other_within_hull (n ex : Ivl α) (a b v : α) (hn : n.ok) (hna : a ≤ n.lo) (hnb : n.hi ≤ b)
    (hva : a ≤ v) (hvb : v ≤ b) (hv : Ivl.mem v ex) :
    (ub n ex false).sub ⟨a, b⟩ := by
  simp only [ub, updateBoundsWith, Ivl.sub, Bool.false_eq_true, if_false]
  obtain ⟨h1, h2⟩ := hv
  have c1 := clamp_between n.lo v ex.lo ex.hi h1 h2
  have c2 := clamp_between' n.hi v ex.lo ex.hi h1 h2
  have hlo : a ≤ min (max n.lo ex.lo) ex.hi := le_trans (le_min hna hva) c1.1
  have hhi : max (min n.hi ex.hi) ex.lo ≤ b := le_trans c2.2 (max_le hnb hvb)
  constructor
  · exact le_min hlo (le_trans (le_trans (le_min (le_trans hna hn) hva) c2.1) (le_refl _))
  · exact hhi

end generic

/-! ## sequences of store operations on one entry -/

section ops
variable {α : Type} [LinearOrder α]

/-- one later operation on a store entry: `(n, true)` = a critical goal merged with
    `enforce="self"` (`entry.update_bounds(n)`), `(n, false)` = a soft-to-hard conversion
    (`n.update_bounds(entry, enforce="other")`, the result replaces the entry) -/
def applyOp (entry : Ivl α) (op : Ivl α × Bool) : Ivl α :=
  if op.2 then ub entry op.1 true else ub op.1 entry false

def applyOps (entry : Ivl α) (ops : List (Ivl α × Bool)) : Ivl α := ops.foldl applyOp entry

theorem applyOp_ok (entry : Ivl α) (op : Ivl α × Bool) : (applyOp entry op).ok := by
  unfold applyOp
  split <;> exact ub_ok _ _ _

theorem applyOp_sub (entry : Ivl α) (op : Ivl α × Bool) (h : entry.ok) : (applyOp entry op).sub entry := by
  unfold applyOp
  split
  · exact ub_self_sub _ _ h
  · exact ub_other_sub _ _ h

/-- **an entry only ever tightens** under any sequence of later operations -/
theorem applyOps_sub (ops : List (Ivl α × Bool)) : ∀ (entry : Ivl α), entry.ok →
    (applyOps entry ops).sub entry ∧ (applyOps entry ops).ok := by
  induction ops with
  | nil => intro entry h; exact ⟨Ivl.sub_refl _, h⟩
  | cons op rest ih =>
    intro entry h
    have h1 := applyOp_sub entry op h
    have h2 := ih (applyOp entry op) (applyOp_ok entry op)
    exact ⟨Ivl.sub_trans h2.1 h1, h2.2⟩

/-- the entry after a critical goal with interval `crit` has been put into the store -/
def critEntry (existing : Option (Ivl α)) (crit : Ivl α) : Ivl α :=
  match existing with
  | none => crit
  | some s => ub s crit true

theorem critEntry_sub (existing : Option (Ivl α)) (crit : Ivl α) (hc : crit.ok)
    (hex : ∀ s, existing = some s → ∃ x, Ivl.mem x s ∧ Ivl.mem x crit) :
    (critEntry existing crit).sub crit ∧ (critEntry existing crit).ok := by
  cases existing with
  | none => exact ⟨Ivl.sub_refl _, hc⟩
  | some s =>
    obtain ⟨x, hs, hx⟩ := hex s rfl
    exact ⟨(ub_sub_both s crit true x hs hx).2, ub_ok _ _ _⟩

end ops

/-! ## `EVal` instances: the executable model functions are the generic ones -/

theorem updateBounds_eq_ub (s o : EIvl) (e : Bool) : updateBounds s o e = ub s o e := rfl
theorem updateBoundsLegacy_eq (s o : EIvl) (e : Bool) : updateBoundsLegacy s o e = ubLegacy s o e := rfl

end RtcVerif.C04
