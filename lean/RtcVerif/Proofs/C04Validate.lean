import RtcVerif.Model.C04Goals
import RtcVerif.Proofs.NumOrder
import Mathlib.Order.Defs.LinearOrder
import Mathlib.Algebra.Order.Field.Rat
import Mathlib.Tactic.Common
import Mathlib.Data.List.Induction
/-!
Helper lemmas for the validation model: `firstErr` / `firstOf` / `cells`, the priority sort, the
monotonicity walk, and the declarative well-formedness predicates.
-/
namespace RtcVerif.C04

/-! ### small combinators -/

theorem firstErr_none (l : List (Option Err)) : firstErr l = none ↔ ∀ x ∈ l, x = none := by
  induction l with
  | nil => simp [firstErr]
  | cons a t ih =>
    cases a with
    | none => simp [firstErr, ih]
    | some e => simp [firstErr]

theorem firstOf_none {α : Type} (f : α → Option Err) (l : List α) :
    firstOf f l = none ↔ ∀ a ∈ l, f a = none := by
  induction l with
  | nil => simp [firstOf]
  | cons a t ih =>
    simp only [firstOf, List.mem_cons, forall_eq_or_imp]
    cases h : f a with
    | none => simp [ih]
    | some e => simp

theorem mem_cells (size n c i : Nat) : (c, i) ∈ cells size n ↔ c < size ∧ i < n := by
  simp [cells]

theorem any_cells (size n : Nat) (p : Nat × Nat → Bool) :
    (cells size n).any p = false ↔ ∀ c < size, ∀ i < n, p (c, i) = false := by
  rw [List.any_eq_false]
  constructor
  · intro h c hc i hi
    have := h (c, i) ((mem_cells size n c i).2 ⟨hc, hi⟩)
    simpa using this
  · rintro h ⟨c, i⟩ hm
    have := (mem_cells size n c i).1 hm
    simp [h c this.1 i this.2]

/-! ### NumPy comparisons -/

theorem xle_fin (p q : Rat) : xle (XVal.fin p) (XVal.fin q) = decide (p ≤ q) := by
  simp [xle, XVal.fin, EVal.le]

theorem xlt_fin (p q : Rat) : xlt (XVal.fin p) (XVal.fin q) = decide (p < q) := by
  simp only [xlt, XVal.fin, EVal.lt, EVal.le]
  by_cases h : p < q
  · simp [h, le_of_lt h, not_le.2 h]
  · have : q ≤ p := not_lt.1 h
    by_cases h2 : p ≤ q <;> simp [h, h2, this]

theorem isFinite_iff (v : XVal) : v.isFinite = true ↔ ∃ q, v = XVal.fin q := by
  cases v with
  | nan => simp [XVal.isFinite, XVal.fin]
  | e x => cases x <;> simp [XVal.isFinite, XVal.fin]

/-- for numbers, "not `b ≤ a`" is `a < b` -/
theorem xle_false_iff_xlt (a b : XVal) (ha : a.isFinite = true) (hb : b.isFinite = true) :
    xle b a = false ↔ xlt a b = true := by
  obtain ⟨p, rfl⟩ := (isFinite_iff a).1 ha
  obtain ⟨q, rfl⟩ := (isFinite_iff b).1 hb
  rw [xle_fin, xlt_fin]
  simp

theorem xlt_false_iff_xle (a b : XVal) (ha : a.isFinite = true) (hb : b.isFinite = true) :
    xlt b a = false ↔ xle a b = true := by
  obtain ⟨p, rfl⟩ := (isFinite_iff a).1 ha
  obtain ⟨q, rfl⟩ := (isFinite_iff b).1 hb
  rw [xle_fin, xlt_fin]
  simp

/-! ### broadcasting -/

theorem getB_mem {α : Type} (l : List α) (c : Nat) (d : α) (n : Nat) (hc : c < n)
    (hl : l.length = 1 ∨ l.length = n) : getB l c d ∈ l := by
  match l, hl with
  | [x], _ => simp [getB]
  | [], h => simp at h; omega
  | a :: b :: t, h =>
    have hlen : (a :: b :: t).length = n := by
      rcases h with h | h
      · simp at h
      · exact h
    unfold getB
    simp only []
    have hc' : c < (a :: b :: t).length := by omega
    simp only [List.getD, List.getElem?_eq_getElem hc', Option.getD_some]
    exact List.getElem_mem _

/-! ### the priority sort -/

theorem mem_insertByPriority (g x : Goal) (l : List Goal) :
    x ∈ insertByPriority g l ↔ x = g ∨ x ∈ l := by
  induction l with
  | nil => simp [insertByPriority]
  | cons h t ih =>
    simp only [insertByPriority]
    split
    · simp
    · simp only [List.mem_cons, ih]
      tauto

theorem mem_sortByPriority (x : Goal) (l : List Goal) : x ∈ sortByPriority l ↔ x ∈ l := by
  induction l with
  | nil => simp [sortByPriority]
  | cons g t ih => simp [sortByPriority, mem_insertByPriority, ih]

theorem insertByPriority_perm (g : Goal) (l : List Goal) : (insertByPriority g l).Perm (g :: l) := by
  induction l with
  | nil => simp [insertByPriority]
  | cons h t ih =>
    simp only [insertByPriority]
    split
    · exact List.Perm.refl _
    · exact (List.Perm.cons h ih).trans (List.Perm.swap g h t)

theorem sortByPriority_perm (l : List Goal) : (sortByPriority l).Perm l := by
  induction l with
  | nil => simp [sortByPriority]
  | cons g t ih =>
    simp only [sortByPriority]
    exact (insertByPriority_perm g _).trans (List.Perm.cons g ih)

theorem insertByPriority_sorted (g : Goal) (l : List Goal)
    (h : l.Pairwise (fun a b => a.priority ≤ b.priority)) :
    (insertByPriority g l).Pairwise (fun a b => a.priority ≤ b.priority) := by
  induction l with
  | nil => simp [insertByPriority]
  | cons x t ih =>
    simp only [insertByPriority]
    rw [List.pairwise_cons] at h
    split
    · rename_i hgx
      rw [List.pairwise_cons]
      refine ⟨?_, List.pairwise_cons.2 h⟩
      intro a ha
      rcases List.mem_cons.1 ha with rfl | ha
      · exact hgx
      · exact le_trans hgx (h.1 a ha)
    · rename_i hgx
      rw [List.pairwise_cons]
      refine ⟨?_, ih h.2⟩
      intro a ha
      rcases (mem_insertByPriority g a t).1 ha with rfl | ha
      · exact le_of_lt (not_le.1 hgx)
      · exact h.1 a ha

/-- `sortByPriority` is a sort by priority (and a permutation: `sortByPriority_perm`) -/
theorem sortByPriority_sorted (l : List Goal) :
    (sortByPriority l).Pairwise (fun a b => a.priority ≤ b.priority) := by
  induction l with
  | nil => simp [sortByPriority]
  | cons g t ih => exact insertByPriority_sorted g _ ih

/-! ### the monotonicity walk -/

/-- the association list the walk has built after the goals `pre` (latest first) -/
def seenAfter (seen : List (String × Goal)) (pre : List Goal) : List (String × Goal) :=
  (pre.map fun g => (g.fk, g)).reverse ++ seen

theorem seenAfter_cons (seen : List (String × Goal)) (g : Goal) (pre : List Goal) :
    seenAfter seen (g :: pre) = seenAfter ((g.fk, g) :: seen) pre := by
  simp [seenAfter]

theorem monoWalk_none (n : Nat) (gs : List Goal) : ∀ (seen : List (String × Goal)),
    monoWalk n seen gs = none ↔
      ∀ pre g post, gs = pre ++ g :: post →
        ∀ prev, (seenAfter seen pre).lookup g.fk = some prev → checkMono n g prev = none := by
  induction gs with
  | nil =>
    intro seen
    simp [monoWalk]
  | cons h t ih =>
    intro seen
    simp only [monoWalk]
    constructor
    · intro hw pre g post heq prev hlk
      cases pre with
      | nil =>
        simp only [List.nil_append, List.cons.injEq] at heq
        obtain ⟨rfl, rfl⟩ := heq
        simp only [seenAfter, List.map_nil, List.reverse_nil, List.nil_append] at hlk
        rw [hlk] at hw
        simp only at hw
        cases hc : checkMono n h prev with
        | none => rfl
        | some e => simp [hc] at hw
      | cons p pre' =>
        simp only [List.cons_append, List.cons.injEq] at heq
        obtain ⟨hp, ht⟩ := heq
        subst ht
        subst hp
        rw [seenAfter_cons] at hlk
        have hrest : monoWalk n ((h.fk, h) :: seen) (pre' ++ g :: post) = none := by
          cases hl : List.lookup h.fk seen with
          | none => simpa [hl] using hw
          | some pv =>
            rw [hl] at hw
            simp only at hw
            cases hc : checkMono n h pv with
            | none => simpa [hc] using hw
            | some e => simp [hc] at hw
        exact (ih _).1 hrest pre' g post rfl prev hlk
    · intro hall
      have hrest : monoWalk n ((h.fk, h) :: seen) t = none := by
        rw [ih]
        intro pre g post heq prev hlk
        apply hall (h :: pre) g post (by simp [heq]) prev
        rw [seenAfter_cons]
        exact hlk
      cases hl : List.lookup h.fk seen with
      | none => simpa [hl] using hrest
      | some pv =>
        have := hall [] h t rfl pv (by simpa [seenAfter] using hl)
        simp [this, hrest]

/-- looking a key up in the reversed list of processed goals finds the latest goal with it -/
theorem lookup_rev_some (k : String) (pre : List Goal) (prev : Goal) :
    ((pre.map fun g => (g.fk, g)).reverse).lookup k = some prev ↔
      ∃ p1 mid, pre = p1 ++ prev :: mid ∧ prev.fk = k ∧ ∀ x ∈ mid, x.fk ≠ k := by
  induction pre using List.reverseRecOn with
  | nil => simp
  | append_singleton p1 last ih =>
    simp only [List.map_append, List.map_cons, List.map_nil, List.reverse_append,
      List.reverse_cons, List.reverse_nil, List.nil_append, List.cons_append, List.lookup_cons]
    by_cases hk : k = last.fk
    · subst hk
      simp only [beq_self_eq_true, Option.some.injEq]
      constructor
      · rintro rfl
        exact ⟨p1, [], by simp, rfl, by simp⟩
      · rintro ⟨q1, mid, heq, hfk, hmid⟩
        rcases List.eq_nil_or_concat mid with rfl | ⟨mid', l', rfl⟩
        · have h2 : p1 ++ [last] = q1 ++ [prev] := heq
          exact (List.append_inj_right' h2 rfl |> List.singleton_inj.1)
        · exfalso
          have h2 : p1 ++ [last] = (q1 ++ prev :: mid') ++ [l'] := by simpa using heq
          have h3 : last = l' := List.singleton_inj.1 (List.append_inj_right' h2 rfl)
          subst h3
          exact hmid last (by simp) rfl
    · have hb : (k == last.fk) = false := by simpa using hk
      simp only [hb]
      rw [ih]
      constructor
      · rintro ⟨q1, mid, rfl, hfk, hmid⟩
        refine ⟨q1, mid ++ [last], by simp, hfk, ?_⟩
        intro x hx
        rcases List.mem_append.1 hx with hx | hx
        · exact hmid x hx
        · simp only [List.mem_singleton] at hx
          subst hx
          exact fun h => hk h.symm
      · rintro ⟨q1, mid, heq, hfk, hmid⟩
        rcases List.eq_nil_or_concat mid with rfl | ⟨mid', l', rfl⟩
        · exfalso
          have h2 : p1 ++ [last] = q1 ++ [prev] := heq
          have h3 : last = prev := List.singleton_inj.1 (List.append_inj_right' h2 rfl)
          subst h3
          exact hk hfk.symm
        · have h2 : p1 ++ [last] = (q1 ++ prev :: mid') ++ [l'] := by simpa using heq
          have h3 := List.append_inj_left' h2 rfl
          refine ⟨q1, mid', h3, hfk, ?_⟩
          intro x hx
          exact hmid x (by simp [hx])

/-! ### declarative well-formedness (the documented conditions) -/

/-- array attributes have one entry or one per component -/
structure Goal.ShapeOK (g : Goal) : Prop where
  rangeLo_len : g.rangeLo.length = 1 ∨ g.rangeLo.length = g.size
  rangeHi_len : g.rangeHi.length = 1 ∨ g.rangeHi.length = g.size

/-- conditions on the definition of one goal (first loop of the validation) -/
structure GoalDefOK (o : Opts) (isPath : Bool) (g : Goal) : Prop where
  /-- every nominal is positive -/
  nominal_pos : ∀ q ∈ g.nominal, 0 < q
  /-- a critical goal is a target goal (no critical minimisation goal) -/
  critical_has_target : g.critical = true → g.hasTargetBounds = true
  /-- a non-critical target goal has a finite function range ... -/
  range_finite : g.critical = false → g.hasTargetBounds = true →
    (∀ v ∈ g.rangeLo, v.isFinite = true) ∧ (∀ v ∈ g.rangeHi, v.isFinite = true)
  /-- ... with `m < M` in every component ... -/
  range_strict : g.critical = false → g.hasTargetBounds = true →
    ∀ c < g.size, xlt (g.loAt c) (g.hiAt c) = true
  /-- ... and a positive weight -/
  weight_pos : g.critical = false → g.hasTargetBounds = true → 0 < g.weight
  /-- a minimisation goal has no function range -/
  no_range_on_min : g.critical = false → g.hasTargetBounds = false → g.rangeDefault = true
  /-- Timeseries targets only on path goals -/
  no_series_on_point : isPath = false → g.tmin.isSeries = false ∧ g.tmax.isSeries = false
  /-- with `keep_soft_constraints`: no relaxation, no violation time series -/
  keep_soft : o.keepSoft = true → g.relaxation = 0 ∧ g.violationId = false
  /-- vector goals only with `keep_soft_constraints` -/
  vector_needs_keep_soft : o.keepSoft = false → g.size ≤ 1
  /-- critical goals are scalar -/
  critical_scalar : g.critical = true → g.size ≤ 1

/-- conditions on the targets of one goal (last loop of the validation) -/
structure GoalTargetsOK (nSteps : Nat) (g : Goal) : Prop where
  /-- where both targets are numbers, `target_min ≤ target_max` -/
  min_le_max : g.hasMin = true → g.hasMax = true →
    ∀ c < g.size, ∀ i < nSteps, xlt (g.MAt c i) (g.mAt c i) = false
  /-- finite lower targets lie in `(m, M]` -/
  tmin_in_range : g.hasMin = true → g.critical = false → ∀ c < g.size, ∀ i < nSteps,
    (g.mAt c i).isFinite = true → xlt (g.loAt c) (g.mAt c i) = true ∧ xle (g.mAt c i) (g.hiAt c) = true
  /-- finite upper targets lie in `[m, M)` -/
  tmax_in_range : g.hasMax = true → g.critical = false → ∀ c < g.size, ∀ i < nSteps,
    (g.MAt c i).isFinite = true → xlt (g.MAt c i) (g.hiAt c) = true ∧ xle (g.loAt c) (g.MAt c i) = true
  relaxation_nonneg : 0 ≤ g.relaxation

/-- `g` (later) is not looser than `prev` (earlier) at any entry where both are numbers -/
def MonoOK (nSteps : Nat) (g prev : Goal) : Prop :=
  (g.hasMin = true → ∀ c < g.size, ∀ i < nSteps, xlt (g.mAt c i) (prev.mAt c i) = false) ∧
  (g.hasMax = true → ∀ c < g.size, ∀ i < nSteps, xlt (prev.MAt c i) (g.MAt c i) = false)

/-- every goal is monotone against the latest earlier goal with the same function key -/
def MonoChain (nSteps : Nat) (gs : List Goal) : Prop :=
  ∀ pre prev mid g post, gs = pre ++ prev :: (mid ++ g :: post) → prev.fk = g.fk →
    (∀ x ∈ mid, x.fk ≠ g.fk) → MonoOK nSteps g prev

/-- the documented conditions on a list of goals (`goals()` or `path_goals()`) -/
structure WellFormed (o : Opts) (isPath : Bool) (nTimes : Nat) (goals : List Goal) : Prop where
  defs : ∀ g ∈ goals, GoalDefOK o isPath g
  mono : o.checkMonotonicity = true →
    MonoChain (if isPath then nTimes else 1) (sortByPriority goals)
  targets : ∀ g ∈ goals, GoalTargetsOK (if isPath then nTimes else 1) g

theorem checkMono_none (n : Nat) (g prev : Goal) : checkMono n g prev = none ↔ MonoOK n g prev := by
  simp only [checkMono, firstErr_none, List.mem_cons, List.not_mem_nil, or_false, forall_eq_or_imp,
    forall_eq, MonoOK]
  constructor
  · rintro ⟨h1, h2⟩
    constructor
    · intro hm
      have : (cells g.size n).any (fun x => xlt (g.mAt x.1 x.2) (prev.mAt x.1 x.2)) = false := by
        by_contra hc
        simp only [Bool.not_eq_false] at hc
        simp [hm, hc] at h1
      exact (any_cells g.size n _).1 this
    · intro hm
      have : (cells g.size n).any (fun x => xlt (prev.MAt x.1 x.2) (g.MAt x.1 x.2)) = false := by
        by_contra hc
        simp only [Bool.not_eq_false] at hc
        simp [hm, hc] at h2
      exact (any_cells g.size n _).1 this
  · rintro ⟨h1, h2⟩
    constructor
    · by_cases hm : g.hasMin = true
      · have := (any_cells g.size n (fun x => xlt (g.mAt x.1 x.2) (prev.mAt x.1 x.2))).2 (h1 hm)
        simp [this]
      · simp [hm]
    · by_cases hm : g.hasMax = true
      · have := (any_cells g.size n (fun x => xlt (prev.MAt x.1 x.2) (g.MAt x.1 x.2))).2 (h2 hm)
        simp [this]
      · simp [hm]

theorem monoWalk_none_iff_chain (n : Nat) (gs : List Goal) :
    monoWalk n [] gs = none ↔ MonoChain n gs := by
  rw [monoWalk_none]
  constructor
  · intro h pre prev mid g post heq hfk hmid
    rw [← checkMono_none]
    apply h (pre ++ prev :: mid) g post (by simp [heq]) prev
    simp only [seenAfter, List.append_nil]
    rw [lookup_rev_some]
    exact ⟨pre, mid, rfl, hfk, hmid⟩
  · intro h pre g post heq prev hlk
    simp only [seenAfter, List.append_nil] at hlk
    rw [lookup_rev_some] at hlk
    obtain ⟨p1, mid, rfl, hfk, hmid⟩ := hlk
    rw [checkMono_none]
    exact h p1 prev mid g post (by simp [heq]) hfk hmid



theorem ite_none {c : Prop} [Decidable c] (e : Err) : (if c then some e else none) = none ↔ ¬ c := by
  by_cases h : c <;> simp [h]

theorem range_strict_iff (g : Goal) (hs : g.ShapeOK)
    (hlo : ∀ v ∈ g.rangeLo, v.isFinite = true) (hhi : ∀ v ∈ g.rangeHi, v.isFinite = true) :
    (List.range g.size).any (fun c => xle (g.hiAt c) (g.loAt c)) = false ↔
      ∀ c < g.size, xlt (g.loAt c) (g.hiAt c) = true := by
  rw [List.any_eq_false]
  constructor
  · intro h c hc
    have h1 := h c (List.mem_range.2 hc)
    have flo := hlo _ (getB_mem g.rangeLo c .nan g.size hc hs.rangeLo_len)
    have fhi := hhi _ (getB_mem g.rangeHi c .nan g.size hc hs.rangeHi_len)
    exact (xle_false_iff_xlt (g.loAt c) (g.hiAt c) flo fhi).1 (by simpa using h1)
  · intro h c hc
    have hc := List.mem_range.1 hc
    have flo := hlo _ (getB_mem g.rangeLo c .nan g.size hc hs.rangeLo_len)
    have fhi := hhi _ (getB_mem g.rangeHi c .nan g.size hc hs.rangeHi_len)
    have := (xle_false_iff_xlt (g.loAt c) (g.hiAt c) flo fhi).2 (h c hc)
    simp [this]

theorem checkDef_none (o : Opts) (isPath : Bool) (g : Goal) (hs : g.ShapeOK) :
    checkDef o isPath g = none ↔ GoalDefOK o isPath g := by
  simp only [checkDef, firstErr_none, List.mem_cons, List.not_mem_nil, or_false, forall_eq_or_imp,
    forall_eq]
  constructor
  · rintro ⟨h1, h2, h3, h4, h5, h6, h7⟩
    rw [ite_none] at h1 h2 h4 h5 h7
    refine ⟨?_, ?_, ?_, ?_, ?_, ?_, ?_, ?_, ?_, ?_⟩
    · intro q hq
      by_contra hn
      exact h1 (List.any_eq_true.2 ⟨q, hq, by simpa using not_lt.1 hn⟩)
    · intro hc
      by_contra hn
      exact h2 (by simp [hc, hn])
    · intro hc ht
      simp only [hc, ht, Bool.false_eq_true, if_false, if_true] at h3
      by_cases hf : (!(g.rangeLo.all XVal.isFinite) || !(g.rangeHi.all XVal.isFinite)) = true
      · simp [hf] at h3
      · simp only [Bool.or_eq_true, Bool.not_eq_true', not_or, Bool.not_eq_false] at hf
        exact ⟨List.all_eq_true.1 hf.1, List.all_eq_true.1 hf.2⟩
    · intro hc ht
      simp only [hc, ht, Bool.false_eq_true, if_false, if_true] at h3
      by_cases hf : (!(g.rangeLo.all XVal.isFinite) || !(g.rangeHi.all XVal.isFinite)) = true
      · simp [hf] at h3
      · rw [if_neg hf] at h3
        simp only [Bool.or_eq_true, Bool.not_eq_true', not_or, Bool.not_eq_false] at hf
        by_cases hb : (List.range g.size).any (fun c => xle (g.hiAt c) (g.loAt c)) = true
        · simp [hb] at h3
        · exact (range_strict_iff g hs (List.all_eq_true.1 hf.1) (List.all_eq_true.1 hf.2)).1
            (by simpa using hb)
    · intro hc ht
      simp only [hc, ht, Bool.false_eq_true, if_false, if_true] at h3
      by_cases hf : (!(g.rangeLo.all XVal.isFinite) || !(g.rangeHi.all XVal.isFinite)) = true
      · simp [hf] at h3
      · rw [if_neg hf] at h3
        by_cases hb : (List.range g.size).any (fun c => xle (g.hiAt c) (g.loAt c)) = true
        · simp [hb] at h3
        · rw [if_neg hb, ite_none] at h3
          exact not_le.1 h3
    · intro hc ht
      simp only [hc, ht, Bool.false_eq_true, if_false] at h3
      rw [ite_none] at h3
      simpa using h3
    · intro hp
      subst hp
      simp only [Bool.not_false, Bool.true_and] at h4 h5
      exact ⟨by simpa using h4, by simpa using h5⟩
    · intro hk
      simp only [hk, if_true] at h6
      by_cases hr : g.relaxation ≠ 0
      · simp [hr] at h6
      · rw [if_neg hr, ite_none] at h6
        exact ⟨not_not.1 hr, by simpa using h6⟩
    · intro hk
      simp only [hk, Bool.false_eq_true, if_false] at h6
      rw [ite_none] at h6
      omega
    · intro hc
      simp only [hc, Bool.true_and, decide_eq_true_eq] at h7
      omega
  · intro h
    refine ⟨?_, ?_, ?_, ?_, ?_, ?_, ?_⟩
    · rw [ite_none]
      intro hn
      obtain ⟨q, hq, hle⟩ := List.any_eq_true.1 hn
      exact absurd (h.nominal_pos q hq) (not_lt.2 (by simpa using hle))
    · rw [ite_none]
      intro hn
      simp only [Bool.and_eq_true, Bool.not_eq_true'] at hn
      have := h.critical_has_target hn.1
      rw [hn.2] at this
      cases this
    · cases hc : g.critical with
      | true => simp
      | false =>
        cases ht : g.hasTargetBounds with
        | true =>
          obtain ⟨f1, f2⟩ := h.range_finite hc ht
          have hf : ¬ ((!(g.rangeLo.all XVal.isFinite) || !(g.rangeHi.all XVal.isFinite)) = true) := by
            simp [List.all_eq_true.2 f1, List.all_eq_true.2 f2]
          have hb := (range_strict_iff g hs f1 f2).2 (h.range_strict hc ht)
          have hw := h.weight_pos hc ht
          simp only [Bool.false_eq_true, if_false, if_true]
          rw [if_neg hf, hb]
          simp only [Bool.false_eq_true, if_false]
          rw [ite_none]
          exact not_le.2 hw
        | false =>
          simp only [Bool.false_eq_true, if_false]
          rw [ite_none]
          simp [h.no_range_on_min hc ht]
    · rw [ite_none]
      intro hn
      simp only [Bool.and_eq_true, Bool.not_eq_true'] at hn
      have := (h.no_series_on_point hn.1).1
      rw [hn.2] at this
      cases this
    · rw [ite_none]
      intro hn
      simp only [Bool.and_eq_true, Bool.not_eq_true'] at hn
      have := (h.no_series_on_point hn.1).2
      rw [hn.2] at this
      cases this
    · cases hk : o.keepSoft with
      | true =>
        obtain ⟨r1, r2⟩ := h.keep_soft hk
        simp [r1, r2]
      | false =>
        have := h.vector_needs_keep_soft hk
        simp only [Bool.false_eq_true, if_false]
        rw [ite_none]
        omega
    · rw [ite_none]
      intro hn
      simp only [Bool.and_eq_true, decide_eq_true_eq] at hn
      have := h.critical_scalar hn.1
      omega


theorem checkTargets_none (n : Nat) (g : Goal)
    (hfin : g.critical = false → g.hasTargetBounds = true →
      ∀ c < g.size, (g.loAt c).isFinite = true ∧ (g.hiAt c).isFinite = true) :
    checkTargets n g = none ↔ GoalTargetsOK n g := by
  simp only [checkTargets, firstErr_none, List.mem_cons, List.not_mem_nil, or_false, forall_eq_or_imp,
    forall_eq]
  constructor
  · rintro ⟨h1, h2, h3, h4⟩
    rw [ite_none] at h1 h4
    refine ⟨?_, ?_, ?_, not_lt.1 h4⟩
    · intro hm hM
      apply (any_cells g.size n (fun x => xlt (g.MAt x.1 x.2) (g.mAt x.1 x.2))).1
      by_contra hc
      exact h1 (by simp [hm, hM, hc])
    · intro hm hc c hcs i hi hf
      have hr := hfin hc (by simp [Goal.hasTargetBounds, hm]) c hcs
      simp only [hm, hc, Bool.not_false, Bool.and_self, if_true] at h2
      by_cases ha : (cells g.size n).any (fun x => (g.mAt x.1 x.2).isFinite && xle (g.mAt x.1 x.2) (g.loAt x.1)) = true
      · simp [ha] at h2
      · rw [if_neg ha, ite_none] at h2
        have a1 := (any_cells g.size n _).1 (Bool.eq_false_iff.2 ha) c hcs i hi
        have a2 := (any_cells g.size n _).1 (Bool.eq_false_iff.2 h2) c hcs i hi
        simp only [hf, Bool.true_and] at a1 a2
        exact ⟨(xle_false_iff_xlt _ _ hr.1 hf).1 a1, (xlt_false_iff_xle _ _ hf hr.2).1 a2⟩
    · intro hm hc c hcs i hi hf
      have hr := hfin hc (by simp [Goal.hasTargetBounds, hm]) c hcs
      simp only [hm, hc, Bool.not_false, Bool.and_self, if_true] at h3
      by_cases ha : (cells g.size n).any (fun x => (g.MAt x.1 x.2).isFinite && xle (g.hiAt x.1) (g.MAt x.1 x.2)) = true
      · simp [ha] at h3
      · rw [if_neg ha, ite_none] at h3
        have a1 := (any_cells g.size n _).1 (Bool.eq_false_iff.2 ha) c hcs i hi
        have a2 := (any_cells g.size n _).1 (Bool.eq_false_iff.2 h3) c hcs i hi
        simp only [hf, Bool.true_and] at a1 a2
        exact ⟨(xle_false_iff_xlt _ _ hf hr.2).1 a1, (xlt_false_iff_xle _ _ hr.1 hf).1 a2⟩
  · intro h
    refine ⟨?_, ?_, ?_, ?_⟩
    · rw [ite_none]
      intro hn
      simp only [Bool.and_eq_true] at hn
      have := (any_cells g.size n (fun x => xlt (g.MAt x.1 x.2) (g.mAt x.1 x.2))).2 (h.min_le_max hn.1.1 hn.1.2)
      rw [this] at hn
      exact absurd hn.2 (by simp)
    · by_cases hmc : (g.hasMin && !g.critical) = true
      · rw [if_pos hmc]
        simp only [Bool.and_eq_true, Bool.not_eq_true'] at hmc
        have hr := hfin hmc.2 (by simp [Goal.hasTargetBounds, hmc.1])
        have a1 : (cells g.size n).any (fun x => (g.mAt x.1 x.2).isFinite && xle (g.mAt x.1 x.2) (g.loAt x.1)) = false := by
          apply (any_cells g.size n _).2
          intro c hc i hi
          cases hf : (g.mAt c i).isFinite with
          | false => simp
          | true =>
            simp only [Bool.true_and]
            exact (xle_false_iff_xlt _ _ (hr c hc).1 hf).2 (h.tmin_in_range hmc.1 hmc.2 c hc i hi hf).1
        have a2 : (cells g.size n).any (fun x => (g.mAt x.1 x.2).isFinite && xlt (g.hiAt x.1) (g.mAt x.1 x.2)) = false := by
          apply (any_cells g.size n _).2
          intro c hc i hi
          cases hf : (g.mAt c i).isFinite with
          | false => simp
          | true =>
            simp only [Bool.true_and]
            exact (xlt_false_iff_xle _ _ hf (hr c hc).2).2 (h.tmin_in_range hmc.1 hmc.2 c hc i hi hf).2
        simp [a1, a2]
      · rw [if_neg hmc]
    · by_cases hmc : (g.hasMax && !g.critical) = true
      · rw [if_pos hmc]
        simp only [Bool.and_eq_true, Bool.not_eq_true'] at hmc
        have hr := hfin hmc.2 (by simp [Goal.hasTargetBounds, hmc.1])
        have a1 : (cells g.size n).any (fun x => (g.MAt x.1 x.2).isFinite && xle (g.hiAt x.1) (g.MAt x.1 x.2)) = false := by
          apply (any_cells g.size n _).2
          intro c hc i hi
          cases hf : (g.MAt c i).isFinite with
          | false => simp
          | true =>
            simp only [Bool.true_and]
            exact (xle_false_iff_xlt _ _ hf (hr c hc).2).2 (h.tmax_in_range hmc.1 hmc.2 c hc i hi hf).1
        have a2 : (cells g.size n).any (fun x => (g.MAt x.1 x.2).isFinite && xlt (g.MAt x.1 x.2) (g.loAt x.1)) = false := by
          apply (any_cells g.size n _).2
          intro c hc i hi
          cases hf : (g.MAt c i).isFinite with
          | false => simp
          | true =>
            simp only [Bool.true_and]
            exact (xlt_false_iff_xle _ _ (hr c hc).1 hf).2 (h.tmax_in_range hmc.1 hmc.2 c hc i hi hf).2
        simp [a1, a2]
      · rw [if_neg hmc]
    · rw [ite_none]
      exact not_lt.2 h.relaxation_nonneg

end RtcVerif.C04
