import RtcVerif.Model.C05
import RtcVerif.Proofs.NumOrder
import Mathlib.Algebra.Order.Field.Rat
/-! # C05 — order lemmas for bounds given under a negated alias -/
namespace RtcVerif.EVal
open RtcVerif

theorem neg_neg' (a : EVal) : a.neg.neg = a := by
  cases a <;> simp [neg]

/-- `-hi ≤ x ↔ -x ≤ hi` also for `hi = ±inf` -/
theorem neg_le_fin_iff (a : EVal) (x : Rat) : a.neg ≤ fin x ↔ fin (-x) ≤ a := by
  cases a with
  | ninf => simp [neg, le_def, le]
  | pinf => simp [neg, le_def, le]
  | fin q => simp only [neg, le_fin_fin]; exact neg_le

/-- `x ≤ -lo ↔ lo ≤ -x` also for `lo = ±inf` -/
theorem fin_le_neg_iff (a : EVal) (x : Rat) : fin x ≤ a.neg ↔ a ≤ fin (-x) := by
  cases a with
  | ninf => simp [neg, le_def, le]
  | pinf => simp [neg, le_def, le]
  | fin q => simp only [neg, le_fin_fin]; exact le_neg

end RtcVerif.EVal

namespace RtcVerif.C05
open RtcVerif

theorem Side.neg_neg (s : Side) : s.neg.neg = s := by
  cases s <;> simp [Side.neg, EVal.neg_neg', Function.comp_def]

end RtcVerif.C05
