import RtcVerif.Proofs.C05Lists
/-!
Block level: the flat array written for one (member, variable) is, entry by entry, the user's
bound of (component, time index) divided by that component's nominal.
-/
namespace RtcVerif.C05
open RtcVerif

theorem Blk.len_eq (b : Blk) : b.len = b.n * b.size := rfl

theorem nomTiled_length (b : Blk) : (nomTiled b).length = b.len := by
  unfold nomTiled
  rw [length_tile, Blk.len_eq, Nat.mul_comm]

theorem nomTiled_get (b : Blk) (c i : Nat) (hc : c < b.size) (hi : i < b.n) :
    (nomTiled b)[c * b.n + i]? = some (b.nom.at c) := by
  unfold nomTiled
  exact getElem?_tile (fun c => b.nom.at c) b.size b.n c i hc hi

theorem index_lt (b : Blk) (c i : Nat) (hc : c < b.size) (hi : i < b.n) : c * b.n + i < b.len := by
  rw [Blk.len_eq]
  calc c * b.n + i < c * b.n + b.n := by omega
    _ = (c + 1) * b.n := by ring
    _ ≤ b.size * b.n := Nat.mul_le_mul_right _ hc
    _ = b.n * b.size := Nat.mul_comm _ _

/-! ### interpolation results have one entry per query stamp -/

theorem interpArrayX_length (mode : Nat) (ks : XKnots) (fl fr : XVal) (ts : List Rat)
    (arr : List XVal) (h : interpArrayX mode ks fl fr ts = some arr) : arr.length = ts.length := by
  unfold interpArrayX at h
  split at h
  · simp at h
  · split at h
    · rename_i heq
      simp only [Option.some.injEq] at h
      subst h
      rw [heq]
      simp
    · exact mapM_some_length _ _ _ h

/-! ### one side → flat array -/

/-- the flat array of one side holds, at `c * n + i`, the user's bound of (component, stamp);
    a one-element array is that bound for every (component, stamp) (it is broadcast) -/
theorem sideVals_entry (b : Blk) (s : Side) (fill : XVal) (vals : List XVal)
    (hwf : b.scalarT = true → b.n = 1)
    (h : sideVals b s fill = some (some vals)) (c i : Nat) (hc : c < b.size) (hi : i < b.n) :
    (vals.length = b.len → vals[c * b.n + i]? = sideAt b s fill c i) ∧
    (∀ x, vals = [x] → sideAt b s fill c i = some x) := by
  have hlt := index_lt b c i hc hi
  cases s with
  | none => simp [sideVals] at h
  | sc x =>
    simp only [sideVals, Option.some.injEq] at h
    subst h
    refine ⟨fun hl => ?_, fun y hy => ?_⟩
    · have : c * b.n + i = 0 := by simp at hl; omega
      rw [this]; simp [sideAt]
    · simp only [List.cons.injEq, and_true] at hy
      subst hy; simp [sideAt]
  | vec xs =>
    simp only [sideVals] at h
    split at h
    · rename_i hsz
      simp only [Option.some.injEq] at h
      subst h
      have hun : ∀ x ∈ xs, (List.replicate b.n (XVal.e x)).length = b.n := by intro x _; simp
      have hentry : (xs.flatMap fun x => List.replicate b.n (XVal.e x))[c * b.n + i]? = (xs[c]?).map XVal.e := by
        rw [getElem?_flatMap_uniform xs _ b.n hun c i hi]
        cases hx : xs[c]? with
        | none => simp
        | some x => simp [hi]
      have hsa : sideAt b (.vec xs) fill c i = (xs[c]?).map XVal.e := by
        unfold sideAt
        match xs, hsz with
        | [x], hsz =>
          have : c = 0 := by simp at hsz; omega
          subst this; simp
        | [], _ => simp
        | _ :: _ :: _, _ => simp
      refine ⟨fun _ => by rw [hentry, hsa], fun y hy => ?_⟩
      rw [hsa]
      have hlen : (xs.flatMap fun x => List.replicate b.n (XVal.e x)).length = xs.length * b.n :=
        length_flatMap_uniform xs _ b.n hun
      rw [hy] at hlen hentry
      have h1 : xs.length * b.n = 1 := by simpa using hlen.symm
      have hn : b.n = 1 := Nat.eq_one_of_mul_eq_one_left h1
      have hci : c * b.n + i = 0 := by
        have : xs.length = 1 := Nat.eq_one_of_mul_eq_one_right h1
        rw [hn] at hi ⊢; omega
      rw [hci] at hentry
      simpa using hentry.symm
    · rename_i hsz
      match xs, h with
      | [x], h =>
        simp only [Option.some.injEq] at h
        subst h
        have hsa : sideAt b (.vec [x]) fill c i = some (XVal.e x) := by simp [sideAt]
        refine ⟨fun _ => ?_, fun y hy => ?_⟩
        · rw [hsa, List.getElem?_replicate]
          rw [Blk.len_eq] at hlt
          simp [hlt]
        · rw [hsa]
          have : (List.replicate (b.n * b.size) (XVal.e x))[0]? = [y][0]? := by rw [hy]
          rw [List.getElem?_replicate] at this
          rw [Blk.len_eq] at hlt
          have h0 : 0 < b.n * b.size := by omega
          simpa [h0] using this
      | [], h => simp at h
      | _ :: _ :: _, h => simp at h
  | ts1 t vs =>
    simp only [sideVals] at h
    split at h
    · simp at h
    · by_cases hsc : b.scalarT = true
      · simp only [hsc, if_true, Option.map_eq_some_iff] at h
        obtain ⟨x, hx, hv⟩ := h
        simp only [Option.some.injEq] at hv
        subst hv
        have hsa : sideAt b (.ts1 t vs) fill c i = some x := by
          unfold sideAt; simp only [hsc, if_true]; exact hx
        refine ⟨fun hl => ?_, fun y hy => ?_⟩
        · have : c * b.n + i = 0 := by simp at hl; omega
          rw [this, hsa]; simp
        · simp only [List.cons.injEq, and_true] at hy
          subst hy; exact hsa
      · simp only [hsc, Bool.false_eq_true, if_false, Option.map_eq_some_iff] at h
        obtain ⟨arr, harr, hv⟩ := h
        simp only [Option.some.injEq] at hv
        subst hv
        have hal : arr.length = b.n := interpArrayX_length _ _ _ _ _ _ harr
        have hsa : sideAt b (.ts1 t vs) fill c i = arr[i]? := by simp [sideAt, hsc, harr]
        refine ⟨fun hl => ?_, fun y hy => ?_⟩
        · rw [hsa]
          rw [hal, Blk.len_eq] at hl
          have hs1 : b.size = 1 := by
            have hnpos : 0 < b.n := by omega
            have : b.n * b.size = b.n * 1 := by omega
            exact Nat.eq_of_mul_eq_mul_left hnpos this
          have : c = 0 := by omega
          subst this; simp
        · subst hy
          rw [hsa]
          simp only [List.length_cons, List.length_nil] at hal
          have : i = 0 := by omega
          subst this; simp
  | ts2 t rows =>
    simp only [sideVals] at h
    split at h
    · simp at h
    · rename_i hshape
      set k := (rows.head?.map List.length).getD 0 with hk
      by_cases hsc : b.scalarT = true
      · simp only [hsc, if_true, Option.map_eq_some_iff] at h
        obtain ⟨cs, hcs, hv⟩ := h
        simp only [Option.some.injEq] at hv
        subst hv
        have hn : b.n = 1 := hwf hsc
        have hi0 : i = 0 := by omega
        have hcl : cs.length = k := by
          rw [mapM_some_length _ _ _ hcs]; simp
        have hget : ∀ c', c' < k → cs[c']? =
            interpScalarX b.mode (toKnots t (column rows c')) fill fill (b.times.headD 0) := by
          intro c' hc'
          have := mapM_some_getElem? _ _ _ hcs c' (toKnots t (column rows c'))
            (by simp [List.getElem?_range hc'])
          exact this
        refine ⟨fun hl => ?_, fun y hy => ?_⟩
        · rw [hcl, Blk.len_eq, hn] at hl
          have hck : c < k := by omega
          have hk1 : (if k = 1 then 0 else c) = c := by
            split
            · omega
            · rfl
          simp only [sideAt, hsc, if_true, ← hk, hk1]
          rw [hn, hi0]
          simpa using hget c hck
        · rw [hy] at hcl hget
          simp only [List.length_cons, List.length_nil] at hcl
          have h0 := hget 0 (by omega)
          simp only [sideAt, hsc, if_true, ← hk, ← hcl, if_true]
          simpa using h0.symm
      · simp only [hsc, Bool.false_eq_true, if_false, Option.map_eq_some_iff] at h
        obtain ⟨cs, hcs, hv⟩ := h
        simp only [Option.some.injEq] at hv
        subst hv
        have hcl : cs.length = k := by
          rw [mapM_some_length _ _ _ hcs]; simp
        have hget : ∀ c', c' < k → cs[c']? =
            interpArrayX b.mode (toKnots t (column rows c')) fill fill b.times := by
          intro c' hc'
          have := mapM_some_getElem? _ _ _ hcs c' (toKnots t (column rows c'))
            (by simp [List.getElem?_range hc'])
          exact this
        have hun : ∀ a ∈ cs, a.length = b.n := by
          intro a ha
          obtain ⟨c', hac⟩ := List.mem_iff_getElem?.1 ha
          have hc'k : c' < k := by
            rw [← hcl]
            exact (List.getElem?_eq_some_iff.1 hac).1
          have := hget c' hc'k
          rw [hac] at this
          exact interpArrayX_length _ _ _ _ _ _ this.symm
        have hfl : cs.flatten.length = k * b.n := by
          have := length_flatMap_uniform cs id b.n hun
          simpa [List.flatMap_id, hcl] using this
        refine ⟨fun hl => ?_, fun y hy => ?_⟩
        · rw [hfl, Blk.len_eq] at hl
          have hks : k = b.size := by
            have hnpos : 0 < b.n := by omega
            have : b.n * k = b.n * b.size := by rw [Nat.mul_comm]; exact hl
            exact Nat.eq_of_mul_eq_mul_left hnpos this
          have hck : c < k := by omega
          have hk1 : (if k = 1 then 0 else c) = c := by
            split
            · omega
            · rfl
          rw [getElem?_flatten_uniform cs b.n hun c i hi, hget c hck]
          simp only [sideAt, hsc, Bool.false_eq_true, if_false, ← hk, hk1]
        · rw [hy] at hfl
          simp only [List.length_cons, List.length_nil] at hfl
          have hk1 : k = 1 := Nat.eq_one_of_mul_eq_one_right hfl.symm
          have hn1 : b.n = 1 := Nat.eq_one_of_mul_eq_one_left hfl.symm
          have hi0 : i = 0 := by omega
          have h0 := hget 0 (by omega)
          have hflat := getElem?_flatten_uniform cs b.n hun 0 0 (by omega)
          rw [hy, h0] at hflat
          simp only [sideAt, hsc, Bool.false_eq_true, if_false, ← hk, hk1, if_true, hi0]
          simpa using hflat.symm

end RtcVerif.C05
