import RtcVerif.Proofs.C05Pass
import Mathlib.Tactic.Ring
import Mathlib.Tactic.Linarith
/-!
Index arithmetic of the layout: running offsets of consecutive slots are strictly increasing and
locate every position uniquely; (component, stamp) pairs inside a slot; members.
-/
namespace RtcVerif.C05
open RtcVerif

theorem offsetOf_zero (bs : List Blk) : offsetOf bs 0 = 0 := by simp [offsetOf, totalLen]

theorem offsetOf_succ (bs : List Blk) (j : Nat) (b : Blk) (hb : bs[j]? = some b) :
    offsetOf bs (j + 1) = offsetOf bs j + b.len := by
  induction bs generalizing j with
  | nil => simp at hb
  | cons a bs ih =>
    cases j with
    | zero =>
      simp only [List.getElem?_cons_zero, Option.some.injEq] at hb
      subst hb
      simp [offsetOf, totalLen]
    | succ j =>
      simp only [List.getElem?_cons_succ] at hb
      have := ih j hb
      simp only [offsetOf, totalLen, List.take_succ_cons, List.map_cons, List.sum_cons] at this ⊢
      omega

theorem offsetOf_ge_length (bs : List Blk) (j : Nat) (h : bs.length ≤ j) :
    offsetOf bs j = totalLen bs := by
  simp [offsetOf, List.take_of_length_le h]

theorem offsetOf_mono (bs : List Blk) (j j' : Nat) (h : j ≤ j') : offsetOf bs j ≤ offsetOf bs j' := by
  induction j' with
  | zero =>
    have : j = 0 := by omega
    subst this; exact le_refl _
  | succ j' ih =>
    by_cases hj : j = j' + 1
    · subst hj; exact le_refl _
    · have h1 := ih (by omega)
      by_cases hl : j' < bs.length
      · obtain ⟨b, hb⟩ : ∃ b, bs[j']? = some b := ⟨bs[j'], List.getElem?_eq_getElem hl⟩
        rw [offsetOf_succ bs j' b hb]; omega
      · rw [offsetOf_ge_length bs (j' + 1) (by omega), ← offsetOf_ge_length bs j' (by omega)]
        exact h1

theorem offsetOf_le_total (bs : List Blk) (j : Nat) : offsetOf bs j ≤ totalLen bs := by
  rw [← offsetOf_ge_length bs (max j bs.length) (le_max_right _ _)]
  exact offsetOf_mono bs j _ (le_max_left _ _)

theorem offsetOf_add_len_le (bs : List Blk) (j : Nat) (b : Blk) (hb : bs[j]? = some b) :
    offsetOf bs j + b.len ≤ totalLen bs := by
  rw [← offsetOf_succ bs j b hb]
  exact offsetOf_le_total bs (j + 1)

/-- slots before `j'` end before slot `j'` starts -/
theorem offsetOf_lt_slots (bs : List Blk) (j j' : Nat) (b : Blk) (hb : bs[j]? = some b) (h : j < j') :
    offsetOf bs j + b.len ≤ offsetOf bs j' := by
  rw [← offsetOf_succ bs j b hb]
  exact offsetOf_mono bs (j + 1) j' h

/-- every position below the total length lies in exactly one slot -/
theorem locate (bs : List Blk) (q : Nat) (hq : q < totalLen bs) :
    ∃ j b, bs[j]? = some b ∧ offsetOf bs j ≤ q ∧ q < offsetOf bs j + b.len := by
  induction bs generalizing q with
  | nil => simp [totalLen] at hq
  | cons a bs ih =>
    by_cases hqa : q < a.len
    · exact ⟨0, a, by simp, by simp [offsetOf_zero], by simpa [offsetOf_zero] using hqa⟩
    · have hq' : q - a.len < totalLen bs := by
        simp only [totalLen, List.map_cons, List.sum_cons] at hq ⊢
        omega
      obtain ⟨j, b, hb, h1, h2⟩ := ih (q - a.len) hq'
      refine ⟨j + 1, b, by simpa using hb, ?_, ?_⟩
      · simp only [offsetOf, totalLen, List.take_succ_cons, List.map_cons, List.sum_cons] at h1 ⊢
        omega
      · simp only [offsetOf, totalLen, List.take_succ_cons, List.map_cons, List.sum_cons] at h2 ⊢
        omega

theorem locate_unique (bs : List Blk) (q j j' : Nat) (b b' : Blk)
    (hb : bs[j]? = some b) (hb' : bs[j']? = some b')
    (h1 : offsetOf bs j ≤ q) (h2 : q < offsetOf bs j + b.len)
    (h1' : offsetOf bs j' ≤ q) (h2' : q < offsetOf bs j' + b'.len) : j = j' := by
  rcases Nat.lt_trichotomy j j' with h | h | h
  · have := offsetOf_lt_slots bs j j' b hb h; omega
  · exact h
  · have := offsetOf_lt_slots bs j' j b' hb' h; omega

/-- (component, stamp) ↔ position inside a slot -/
theorem comp_time_unique (n c i c' i' : Nat) (hi : i < n) (hi' : i' < n)
    (h : c * n + i = c' * n + i') : c = c' ∧ i = i' := by
  have hn : 0 < n := by omega
  have e1 : (c * n + i) / n = c := by
    rw [Nat.mul_comm, Nat.mul_add_div hn, Nat.div_eq_of_lt hi]; simp
  have e2 : (c' * n + i') / n = c' := by
    rw [Nat.mul_comm, Nat.mul_add_div hn, Nat.div_eq_of_lt hi']; simp
  have hc : c = c' := by rw [← e1, ← e2, h]
  subst hc
  exact ⟨rfl, by omega⟩

theorem comp_time_exists (n size r : Nat) (hr : r < n * size) :
    ∃ c i, c < size ∧ i < n ∧ r = c * n + i := by
  have hn : 0 < n := by
    rcases Nat.eq_zero_or_pos n with h | h
    · subst h; simp at hr
    · exact h
  refine ⟨r / n, r % n, ?_, Nat.mod_lt _ hn, ?_⟩
  · exact Nat.div_lt_of_lt_mul hr
  · have := Nat.div_add_mod r n
    rw [Nat.mul_comm] at this
    omega

theorem stateIndex_eq (I : Inst) (m j c i : Nat) (b : Blk) (hb : (stateBlocks I)[j]? = some b) :
    stateIndex I m j c i
      = ctrlSize I + m * memberSize I + offsetOf (stateBlocks I) j + (c * b.n + i) := by
  unfold stateIndex
  simp [List.getD, hb]


end RtcVerif.C05
