import RtcVerif.Model.C05
import RtcVerif.Model.Interp
import Mathlib.Algebra.Order.Field.Rat
import Mathlib.Tactic.Ring
/-!
The extended interpolant of the C05 model (values in `XVal`) restricted to finite values **is** the
C19 interpolant `RtcVerif.Interp.interpCore` — so the C19 theorems (exact at knots, chord /
previous / next value between knots, fills outside) apply to the Timeseries bounds of C05.
-/
namespace RtcVerif.C05
open RtcVerif RtcVerif.Interp

/-- finite knots seen as extended knots -/
def liftKnots (ks : Knots) : XKnots := ks.map fun k => (k.1, XVal.fin k.2)

def toOut : Option XVal → Out
  | none => .raise
  | some v => .val v

theorem lastTimeX_lift (ks : Knots) : lastTimeX (liftKnots ks) = lastTime ks := by
  simp [lastTimeX, lastTime, liftKnots, List.getLast?_map, Option.map_map, Function.comp_def]

theorem lastValX_lift (ks : Knots) (hne : ks ≠ []) :
    lastValX (liftKnots ks) = XVal.fin (lastVal ks) := by
  obtain ⟨l, a, rfl⟩ : ∃ l a, ks = l ++ [a] := ⟨ks.dropLast, ks.getLast hne, (List.dropLast_concat_getLast hne).symm⟩
  simp [lastValX, lastVal, liftKnots]

theorem linFromX_lift (ks : Knots) (fr : XVal) (t : Rat) :
    Out.val (linFromX (liftKnots ks) fr t) = linFrom ks (.val fr) t := by
  induction ks with
  | nil => simp [liftKnots, linFromX, linFrom]
  | cons a ks ih =>
    obtain ⟨t0, f0⟩ := a
    cases ks with
    | nil =>
      simp only [liftKnots, List.map_cons, List.map_nil, linFromX, linFrom]
      split <;> rfl
    | cons b ks =>
      obtain ⟨t1, f1⟩ := b
      simp only [liftKnots, List.map_cons, linFromX, linFrom] at ih ⊢
      by_cases h : t < t1
      · simp only [h, if_true]
        by_cases h0 : t = t0
        · subst h0
          simp [XVal.fin]
        · simp only [h0, if_false, seg, XVal.fin]
      · simp only [h, if_false]
        exact ih

theorem prevFromX_lift (ks : Knots) (cur t : Rat) :
    prevFromX (liftKnots ks) (XVal.fin cur) t = XVal.fin (prevFrom ks cur t) := by
  induction ks generalizing cur with
  | nil => simp [liftKnots, prevFromX, prevFrom]
  | cons a ks ih =>
    obtain ⟨t0, f0⟩ := a
    simp only [liftKnots, List.map_cons, prevFromX, prevFrom] at ih ⊢
    split
    · exact ih f0
    · rfl

theorem nextFromX_lift (ks : Knots) (last t : Rat) :
    nextFromX (liftKnots ks) (XVal.fin last) t = XVal.fin (nextFrom ks last t) := by
  induction ks generalizing last with
  | nil => simp [liftKnots, nextFromX, nextFrom]
  | cons a ks ih =>
    obtain ⟨t0, f0⟩ := a
    simp only [liftKnots, List.map_cons, nextFromX, nextFrom] at ih ⊢
    split
    · rfl
    · exact ih f0

/-- **On finite values the C05 interpolant is the C19 interpolant** (every mode, any fills, the
    error cases included). -/
theorem interpCoreX_fin (mode : Nat) (ks : Knots) (fl fr : XVal) (t : Rat) :
    toOut (interpCoreX mode (liftKnots ks) fl fr t) = interpCore mode ks (some fl) (some fr) t := by
  cases ks with
  | nil => simp [liftKnots, interpCoreX, interpCore, toOut]
  | cons a rest =>
    obtain ⟨t0, f0⟩ := a
    have hl := lastTimeX_lift ((t0, f0) :: rest)
    have hv := lastValX_lift ((t0, f0) :: rest) (by simp)
    simp only [liftKnots, List.map_cons] at hl hv
    simp only [liftKnots, List.map_cons, interpCoreX, interpCore, hl]
    by_cases hm : 2 < mode
    · have hm' : ¬ mode ≤ 2 := by omega
      simp only [hm, if_true, hm', if_false, toOut]
      split
      · rfl
      · split
        · rfl
        · match mode, hm with
          | n + 3, _ => rfl
    · have hm' : mode ≤ 2 := by omega
      simp only [hm, if_false, hm', if_true]
      by_cases h1 : t < t0
      · simp [h1, toOut, fillOut]
      · simp only [h1, if_false]
        by_cases h2 : lastTime ((t0, f0) :: rest) < t
        · simp [h2, toOut, fillOut]
        · simp only [h2, if_false]
          obtain rfl | rfl | rfl : mode = 0 ∨ mode = 1 ∨ mode = 2 := by omega
          · simp only [toOut, fillOut]
            have := linFromX_lift ((t0, f0) :: rest) fr t
            simpa [liftKnots] using this
          · simp only [toOut]
            have := prevFromX_lift rest f0 t
            simp only [liftKnots] at this
            rw [this]
          · simp only [toOut]
            rw [hv]
            have := nextFromX_lift ((t0, f0) :: rest) (lastVal ((t0, f0) :: rest)) t
            simp only [liftKnots, List.map_cons] at this
            rw [this]

end RtcVerif.C05
