import RtcVerif.Model.C05Kernel
import RtcVerif.Proofs.C05Lists
/-!
Bridging lemmas: the kernel written in the shape of the source (`Model/C05Kernel.lean`) is the
model function `C05.blockWrite` that the C05 / C08 property theorems are about.
-/
namespace RtcVerif.C05.K
open RtcVerif RtcVerif.C05

theorem nominalK_eq (b : Blk) : nominalK b = nomTiled b := by
  unfold nominalK nomTiled
  cases hb : b.nom with
  | sc q => simp [scalarNom, cm, List.flatMap, Nom.at]
  | vec qs => simp [broadcastNom, cm, List.flatMap, Nom.at]

theorem flatten_replicate_replicate {α} (s n : Nat) (x : α) :
    (List.replicate s (List.replicate n x)).flatten = List.replicate (n * s) x := by
  induction s with
  | zero => simp
  | succ s ih => rw [List.replicate_succ, List.flatten_cons, ih, ← List.replicate_add]; congr 1; ring

theorem valsK_vec (b : Blk) (xs : List EVal) (fill : XVal) :
    (broadcastVec b xs).map (fun v => some v.cm) = sideVals b (.vec xs) fill := by
  simp only [sideVals, broadcastVec]
  by_cases h : xs.length = b.size
  · simp [h, Val.cm, cm, List.flatMap]
  · simp only [h, if_false]
    match xs, h with
    | [x], _ => simp [Val.cm, cm, flatten_replicate_replicate, Nat.mul_comm]
    | [], _ => rfl
    | _ :: _ :: _, _ => rfl

theorem valsK_ts (b : Blk) (s : Side) (fill : XVal) (hs : (∃ t v, s = .ts1 t v) ∨ ∃ t r, s = .ts2 t r) :
    (interpolate b s fill fill).map (fun v => some v.cm) = sideVals b s fill := by
  rcases hs with ⟨t, v, rfl⟩ | ⟨t, r, rfl⟩
  · simp only [interpolate, sideVals]
    by_cases h1 : t.length ≠ v.length
    · rw [if_pos h1, if_pos h1]; rfl
    · rw [if_neg h1, if_neg h1]
      by_cases h2 : b.scalarT = true
      · simp only [h2, if_true]
        cases interpScalarX b.mode (toKnots t v) fill fill (b.times.headD 0) <;> rfl
      · simp only [h2, if_false]
        cases interpArrayX b.mode (toKnots t v) fill fill b.times <;> rfl
  · simp only [interpolate, sideVals]
    by_cases h1 : r.length ≠ t.length ∨ (!r.all fun x => x.length == (Option.map List.length r.head?).getD 0) = true
    · rw [if_pos h1, if_pos h1]; rfl
    · rw [if_neg h1, if_neg h1]
      by_cases h2 : b.scalarT = true
      · simp only [h2, if_true]
        cases List.mapM (fun ks => interpScalarX b.mode ks fill fill (b.times.headD 0))
          (List.map (fun c => toKnots t (column r c)) (List.range ((Option.map List.length r.head?).getD 0))) <;> rfl
      · simp only [h2, if_false]
        cases List.mapM (fun ks => interpArrayX b.mode ks fill fill b.times)
          (List.map (fun c => toKnots t (column r c)) (List.range ((Option.map List.length r.head?).getD 0))) <;> rfl

/-- what `blockWrite` does with the flat array of a side -/
def post (b : Blk) (sv : Option (Option (List XVal))) : Option (Option (List XVal)) :=
  match sv with
  | none => none
  | some none => some none
  | some (some vals) =>
      if vals.length = b.len then some (some (List.zipWith xdivPos vals (nomTiled b)))
      else match vals with
        | [x] => some (some ((nomTiled b).map fun q => xdivPos x q))
        | _ => none

theorem blockWrite_post (b : Blk) (s : Side) (fill : XVal) :
    blockWrite b s fill = post b (sideVals b s fill) := rfl

theorem bindAssign_post (b : Blk) (vals : Option (List XVal)) :
    bindAssign b vals (nomTiled b) = post b (vals.map some) := by
  cases vals <;> rfl

/-- **the kernel in the shape of the source is the model's `blockWrite`** -/
theorem blockWriteK_eq (b : Blk) (s : Side) (fill : XVal) : blockWriteK b s fill = blockWrite b s fill := by
  rw [blockWrite_post]
  unfold blockWriteK
  rw [nominalK_eq]
  cases s with
  | none => rfl
  | sc x => rfl
  | vec xs =>
    simp only
    rw [bindAssign_post, Option.map_map, ← valsK_vec b xs fill]
    rfl
  | ts1 t v =>
    simp only
    rw [bindAssign_post, Option.map_map, ← valsK_ts b _ fill (Or.inl ⟨t, v, rfl⟩)]
    rfl
  | ts2 t r =>
    simp only
    rw [bindAssign_post, Option.map_map, ← valsK_ts b _ fill (Or.inr ⟨t, r, rfl⟩)]
    rfl

/-- the seed kernel is `blockWrite` with fill 0, except that a raw array seed is assigned as it
    is (no broadcast over the stamps): equal whenever the variable has a single stamp -/
theorem seedWriteK_eq (b : Blk) (s : Side) (h : ∀ xs, s = .vec xs → b.n = 1 ∧ xs.length = b.size) :
    seedWriteK b s = blockWrite b s (XVal.fin 0) := by
  rw [← blockWriteK_eq]
  cases s with
  | none => rfl
  | sc x => rfl
  | ts1 t v => rfl
  | ts2 t r => rfl
  | vec xs =>
    obtain ⟨hn, hl⟩ := h xs rfl
    unfold seedWriteK blockWriteK bindAssign broadcastVec
    simp only [hl, if_true, Option.map_some, Val.cm, cm, hn]
    congr 1
    clear h hl
    induction xs with
    | nil => rfl
    | cons a l ih => simpa using ih
