import RtcVerif.Model.C05Layout
import RtcVerif.Proofs.C05Index
import RtcVerif.Proofs.C05Pins
/-!
# C05 — the source-shaped index allocation / history-pin block (`C05.L`) is the model

Bridging lemmas between `Model/C05Layout.lean` (reference definitions in the shape of
`discretize_states`, `discretize_control(s)`, the index merge and the history block of
`transcribe()`; `Gen/LayoutPins.lean` is proved equal to them on every run) and the model of the C05
property theorems: `memberSize`, `ctrlSize`, `stateIndex`, `ctrlIndex`, `pinIndex`, `derIndex`,
`applyPins`, `derPin`.
-/
namespace RtcVerif.C05.L
open RtcVerif RtcVerif.C05

/-! ## sums -/

theorem accum_eq (vs : List Blk) (term : Blk → Nat) (acc : Nat) :
    accum vs term acc = acc + (vs.map term).sum := by
  unfold accum
  induction vs generalizing acc with
  | nil => simp
  | cons b bs ih => simp only [List.foldl_cons, List.map_cons, List.sum_cons]; rw [ih]; omega

theorem totalLen_append (a b : List Blk) : totalLen (a ++ b) = totalLen a + totalLen b := by
  simp [totalLen]

theorem totalLen_derBlocks (I : Inst) : totalLen (derBlocks I) = I.states.length := by
  unfold derBlocks totalLen
  induction I.states with
  | nil => rfl
  | cons a l ih =>
    simp only [List.map_cons, List.sum_cons, List.length_cons]
    rw [ih]
    simp [Blk.len, Blk.n, initDerBlk]
    omega

theorem stateBlocks_eq (I : Inst) :
    stateBlocks I = (I.states ++ I.algs) ++ I.paths ++ I.extras ++ derBlocks I := by
  simp [stateBlocks, derBlocks]

/-- extra variables have a single stamp (`times = [t0]`) -/
def ExtrasOneStamp (I : Inst) : Prop := ∀ b ∈ I.extras, b.n = 1

theorem sum_len (bs : List Blk) : (bs.map fun b => b.n * b.size).sum = totalLen bs := rfl

theorem sum_size_extras (bs : List Blk) (h : ∀ b ∈ bs, b.n = 1) : (bs.map fun b => b.size).sum = totalLen bs := by
  unfold totalLen
  induction bs with
  | nil => rfl
  | cons a l ih =>
    simp only [List.map_cons, List.sum_cons]
    rw [ih (fun b hb => h b (List.mem_cons_of_mem _ hb))]
    have := h a List.mem_cons_self
    simp [Blk.len, this]

/-- `ensemble_member_size` of `discretize_states` is the model's `memberSize` -/
theorem memberSizeK_eq (I : Inst) (hex : ExtrasOneStamp I) : memberSizeK I = memberSize I := by
  unfold memberSizeK memberSize
  simp only [accum_eq, sum_len, sum_size_extras I.extras hex]
  rw [stateBlocks_eq]
  simp only [totalLen_append, totalLen_derBlocks]
  omega

/-! ## `alloc` -/

/-- what a run of `alloc` over `bs` from `off` must deliver -/
def Spec (bs : List Blk) (off : Nat) (r : List Slot × Nat) : Prop :=
  r.2 = off + totalLen bs ∧ r.1.length = bs.length ∧
  ∀ k b, bs[k]? = some b → ∃ s, r.1[k]? = some s ∧ s.first = off + offsetOf bs k ∧ s.stop = s.first + b.len

theorem alloc_spec (slot : Blk → Nat → Slot) (width : Blk → Nat) (bs : List Blk) (off : Nat)
    (h : ∀ b ∈ bs, width b = b.len ∧ ∀ o, (slot b o).first = o ∧ (slot b o).stop = o + b.len) :
    Spec bs off (alloc slot width bs off) := by
  induction bs generalizing off with
  | nil => exact ⟨by simp [alloc, totalLen], by simp [alloc], by intro k b hb; simp at hb⟩
  | cons a l ih =>
    have ha := h a List.mem_cons_self
    obtain ⟨h1, h2, h3⟩ := ih (off + width a) (fun b hb => h b (List.mem_cons_of_mem _ hb))
    refine ⟨?_, ?_, ?_⟩
    · simp only [alloc]; rw [h1, ha.1, totalLen_cons]; omega
    · simp only [alloc, List.length_cons]; rw [h2]
    · intro k b hb
      cases k with
      | zero =>
        simp only [List.getElem?_cons_zero, Option.some.injEq] at hb
        subst hb
        refine ⟨slot a off, by simp [alloc], ?_, ?_⟩
        · rw [(ha.2 off).1, offsetOf_zero]; rfl
        · rw [(ha.2 off).2, (ha.2 off).1]
      | succ k =>
        simp only [List.getElem?_cons_succ] at hb
        obtain ⟨s, hs1, hs2, hs3⟩ := h3 k b hb
        refine ⟨s, by simpa [alloc] using hs1, ?_, hs3⟩
        rw [hs2, ha.1]
        have : offsetOf (a :: l) (k + 1) = a.len + offsetOf l k := by
          simp [offsetOf, totalLen]
        rw [this]; omega

theorem offsetOf_append_left (a b : List Blk) (k : Nat) (hk : k ≤ a.length) :
    offsetOf (a ++ b) k = offsetOf a k := by
  unfold offsetOf
  rw [List.take_append_of_le_length hk]

theorem offsetOf_append_right (a b : List Blk) (k : Nat) :
    offsetOf (a ++ b) (a.length + k) = totalLen a + offsetOf b k := by
  unfold offsetOf
  have : (a ++ b).take (a.length + k) = a ++ b.take k := by
    simp [List.take_append, List.take_of_length_le]
  rw [this, totalLen_append]

theorem Spec.append {A B : List Blk} {off : Nat} {rA rB : List Slot × Nat}
    (hA : Spec A off rA) (hB : Spec B rA.2 rB) : Spec (A ++ B) off (rA.1 ++ rB.1, rB.2) := by
  obtain ⟨a1, a2, a3⟩ := hA
  obtain ⟨b1, b2, b3⟩ := hB
  refine ⟨?_, ?_, ?_⟩
  · show rB.2 = _; rw [b1, a1, totalLen_append]; omega
  · simp [a2, b2]
  · intro k b hb
    by_cases hk : k < A.length
    · rw [List.getElem?_append_left hk] at hb
      obtain ⟨s, s1, s2, s3⟩ := a3 k b hb
      refine ⟨s, ?_, ?_, s3⟩
      · show (rA.1 ++ rB.1)[k]? = _
        rw [List.getElem?_append_left (by omega)]; exact s1
      · rw [s2, offsetOf_append_left A B k (by omega)]
    · rw [List.getElem?_append_right (by omega)] at hb
      obtain ⟨s, s1, s2, s3⟩ := b3 (k - A.length) b hb
      refine ⟨s, ?_, ?_, s3⟩
      · show (rA.1 ++ rB.1)[k]? = _
        rw [List.getElem?_append_right (by omega), a2]; exact s1
      · have hk' : k = A.length + (k - A.length) := by omega
        rw [s2, a1, hk', offsetOf_append_right]
        have : A.length + (k - A.length) - A.length = k - A.length := by omega
        rw [this]; omega

/-- **`discretize_states` is the model's layout**: the `j`-th entry (insertion order) of
    `indices[m]` starts at the member's block plus the running offset of slot `j` and has the
    slot's length; the final offset of the member is the start of the next member. -/
theorem stateSlotsK_spec (I : Inst) (m : Nat) (hex : ExtrasOneStamp I) :
    (stateSlotsK I m).length = (stateBlocks I).length ∧
    ∀ j b, (stateBlocks I)[j]? = some b → ∃ s, (stateSlotsK I m)[j]? = some s ∧
      s.first = m * memberSize I + offsetOf (stateBlocks I) j ∧ s.stop = s.first + b.len := by
  have h1 := alloc_spec (fun b offset => Slot.slice offset (offset + b.n * b.size)) (fun b => b.n * b.size)
    (I.states ++ I.algs) (m * memberSizeK I) (by intro b _; exact ⟨rfl, fun o => ⟨rfl, rfl⟩⟩)
  have h2 := alloc_spec (fun b offset => Slot.slice offset (offset + b.n * b.size)) (fun b => b.n * b.size)
    I.paths (alloc (fun b offset => Slot.slice offset (offset + b.n * b.size)) (fun b => b.n * b.size)
      (I.states ++ I.algs) (m * memberSizeK I)).2 (by intro b _; exact ⟨rfl, fun o => ⟨rfl, rfl⟩⟩)
  have h12 := h1.append h2
  have h3 := alloc_spec (fun b offset => Slot.slice offset (offset + b.size)) (fun b => b.size) I.extras
    (alloc (fun b offset => Slot.slice offset (offset + b.n * b.size)) (fun b => b.n * b.size) I.paths
      (alloc (fun b offset => Slot.slice offset (offset + b.n * b.size)) (fun b => b.n * b.size)
        (I.states ++ I.algs) (m * memberSizeK I)).2).2
    (by
      intro b hb
      have : b.len = b.size := by simp [Blk.len, hex b hb]
      exact ⟨this.symm, fun o => ⟨rfl, by simp [Slot.stop, this]⟩⟩)
  have h123 := h12.append h3
  have h4 := alloc_spec (fun _ offset => Slot.int offset) (fun _ => 1) (derBlocks I)
    (alloc (fun b offset => Slot.slice offset (offset + b.size)) (fun b => b.size) I.extras
      (alloc (fun b offset => Slot.slice offset (offset + b.n * b.size)) (fun b => b.n * b.size) I.paths
        (alloc (fun b offset => Slot.slice offset (offset + b.n * b.size)) (fun b => b.n * b.size)
          (I.states ++ I.algs) (m * memberSizeK I)).2).2).2
    (by
      intro b hb
      have : b.len = 1 := by
        simp only [derBlocks, List.mem_map] at hb
        obtain ⟨_, _, rfl⟩ := hb
        simp [Blk.len, Blk.n, initDerBlk]
      exact ⟨this.symm, fun o => ⟨rfl, by simp [Slot.stop, Slot.first, this]⟩⟩)
  have h := h123.append h4
  rw [← stateBlocks_eq] at h
  rw [← memberSizeK_eq I hex]
  exact ⟨h.2.1, h.2.2⟩

theorem shiftK_first (k : Nat) (s : Slot) : (shiftK k s).first = s.first + k ∧ (shiftK k s).stop = s.stop + k := by
  cases s <;> simp [shiftK, Slot.first, Slot.stop] <;> omega

/-! ## controls -/

/-- the slots `discretize_controls` must deliver from `count = c` on: every member the same slice -/
def slotsFrom (E : Nat) : List Blk → Nat → List (List Slot)
  | [], _ => []
  | b :: bs, c => List.replicate E (Slot.slice c (c + b.n)) :: slotsFrom E bs (c + b.n)

theorem memberLoop_hit (b : Blk) (j : Nat) (s : Slot) (e : Nat) (st : CSt)
    (hc : st.cache.lookup j = some s) (hs : s.stop ≤ st.count) :
    memberLoop (ctrlStepK b j) e st = (List.replicate e s, st) := by
  induction e with
  | zero => rfl
  | succ e ih =>
    have hstep : ctrlStepK b j st = (s, st) := by
      unfold ctrlStepK discretizeControlK
      simp only [hc]
      cases st
      simp only [CSt.mk.injEq, Prod.mk.injEq, true_and]
      simp at hs
      omega
    simp only [memberLoop, hstep, ih, List.replicate_succ]

theorem memberLoop_miss (b : Blk) (j : Nat) (e : Nat) (st : CSt) (hc : st.cache.lookup j = none) :
    memberLoop (ctrlStepK b j) (e + 1) st =
      (List.replicate (e + 1) (Slot.slice st.count (st.count + b.n)),
       { cache := (j, Slot.slice st.count (st.count + b.n)) :: st.cache, count := st.count + b.n }) := by
  have hstep : ctrlStepK b j st = (Slot.slice st.count (st.count + b.n),
      { cache := (j, Slot.slice st.count (st.count + b.n)) :: st.cache, count := st.count + b.n }) := by
    unfold ctrlStepK discretizeControlK
    simp only [hc, Slot.stop]
    simp
  simp only [memberLoop, hstep]
  rw [memberLoop_hit b j (Slot.slice st.count (st.count + b.n)) e _ (by simp [List.lookup]) (by simp [Slot.stop])]
  simp [List.replicate_succ]

theorem ctrlNest_spec (E : Nat) (bs : List Blk) (j : Nat) (st : CSt)
    (hc : ∀ k, j ≤ k → st.cache.lookup k = none) :
    ∃ cache', ctrlNest (E + 1) ctrlStepK bs j st
        = (slotsFrom (E + 1) bs st.count, { cache := cache', count := st.count + (bs.map Blk.n).sum }) ∧
      ∀ k, j + bs.length ≤ k → cache'.lookup k = none := by
  induction bs generalizing j st with
  | nil =>
    refine ⟨st.cache, ?_, fun k hk => hc k (by simpa using hk)⟩
    cases st; simp [ctrlNest, slotsFrom]
  | cons b bs ih =>
    have hm := memberLoop_miss b j E st (hc j (le_refl _))
    obtain ⟨cache', h1, h2⟩ := ih (j + 1)
      { cache := (j, Slot.slice st.count (st.count + b.n)) :: st.cache, count := st.count + b.n }
      (by
        intro k hk
        have hne : (k == j) = false := by simp; omega
        simp only [List.lookup, hne]
        exact hc k (by omega))
    refine ⟨cache', ?_, fun k hk => h2 k (by simp at hk; omega)⟩
    simp only [ctrlNest, hm, h1, slotsFrom, List.map_cons, List.sum_cons]
    simp [Nat.add_assoc]

theorem sum_n (bs : List Blk) (h : ∀ b ∈ bs, b.size = 1) : (bs.map Blk.n).sum = totalLen bs := by
  unfold totalLen
  induction bs with
  | nil => rfl
  | cons a l ih =>
    simp only [List.map_cons, List.sum_cons]
    rw [ih (fun b hb => h b (List.mem_cons_of_mem _ hb))]
    have := h a List.mem_cons_self
    simp [Blk.len, this]

theorem slotsFrom_get (E : Nat) (bs : List Blk) (c : Nat) (h : ∀ b ∈ bs, b.size = 1) (j : Nat) (b : Blk)
    (hb : bs[j]? = some b) :
    (slotsFrom E bs c)[j]? = some (List.replicate E (Slot.slice (c + offsetOf bs j) (c + offsetOf bs j + b.n))) := by
  induction bs generalizing c j with
  | nil => simp at hb
  | cons a l ih =>
    cases j with
    | zero =>
      simp only [List.getElem?_cons_zero, Option.some.injEq] at hb
      subst hb
      simp [slotsFrom, offsetOf_zero]
    | succ j =>
      simp only [List.getElem?_cons_succ] at hb
      have ha : a.len = a.n := by simp [Blk.len, h a List.mem_cons_self]
      have : offsetOf (a :: l) (j + 1) = a.n + offsetOf l j := by
        simp [offsetOf, totalLen, ha]
      simp only [slotsFrom, List.getElem?_cons_succ]
      rw [ih (c + a.n) (fun b hb => h b (List.mem_cons_of_mem _ hb)) j hb, this]
      simp [Nat.add_assoc]

/-- **`discretize_controls` is the model's control layout**: with at least one member and scalar
    controls, `count` is the model's `ctrlSize` and every member gets, for control `j`, the one
    slice `[ctrlIndex I j 0, ctrlIndex I j 0 + n_j)` (shared entries). -/
theorem ctrlSlotsK_spec (I : Inst) (hE : 0 < I.E) (hsz : ∀ b ∈ I.controls, b.size = 1) :
    (ctrlSlotsK I).2 = ctrlSize I ∧
    ∀ j b, I.controls[j]? = some b →
      (ctrlSlotsK I).1[j]? = some (List.replicate I.E (Slot.slice (ctrlIndex I j 0) (ctrlIndex I j 0 + b.n))) := by
  obtain ⟨E, hE'⟩ : ∃ E, I.E = E + 1 := ⟨I.E - 1, by omega⟩
  obtain ⟨cache', h1, _⟩ := ctrlNest_spec E I.controls 0 { cache := [], count := 0 } (by intro k _; rfl)
  unfold ctrlSlotsK
  rw [hE', h1]
  refine ⟨by simp [ctrlSize, sum_n I.controls hsz], ?_⟩
  intro j b hb
  have := slotsFrom_get (E + 1) I.controls 0 hsz j b hb
  simpa [ctrlIndex] using this

/-! ## the entries the pins address -/

theorem stateBlocks_pin (I : Inst) (k : Nat) (hk : k < I.states.length + I.algs.length) :
    ∃ b, (stateBlocks I)[k]? = some b := by
  have : k < (stateBlocks I).length := by simp [stateBlocks]; omega
  exact ⟨_, List.getElem?_eq_getElem this⟩

/-- **The entry pinned from the history is the model's `pinIndex`**: the first entry of
    `self.__indices[m][variable]` for the `k`-th variable of `states ++ algs ++ controls`. -/
theorem pinSlot_first (I : Inst) (m k : Nat) (hE : 0 < I.E) (hm : m < I.E) (hex : ExtrasOneStamp I)
    (hsz : ∀ b ∈ I.controls, b.size = 1) (hk : k < (pinVars I).length) :
    ∃ s, pinSlot I m k = some s ∧ s.first = pinIndex I m k := by
  obtain ⟨hcnt, hctl⟩ := ctrlSlotsK_spec I hE hsz
  unfold pinSlot pinIndex
  by_cases hs : k < I.states.length + I.algs.length
  · simp only [hs, if_true]
    obtain ⟨b, hb⟩ := stateBlocks_pin I k hs
    obtain ⟨s, s1, s2, _⟩ := (stateSlotsK_spec I m hex).2 k b hb
    refine ⟨shiftK (ctrlSlotsK I).2 s, by simp [s1], ?_⟩
    rw [(shiftK_first _ s).1, s2, hcnt]; omega
  · simp only [hs, if_false]
    have hj : k - (I.states.length + I.algs.length) < I.controls.length := by
      simp [pinVars] at hk; omega
    obtain ⟨b, hb⟩ : ∃ b, I.controls[k - (I.states.length + I.algs.length)]? = some b :=
      ⟨_, List.getElem?_eq_getElem hj⟩
    refine ⟨Slot.slice (ctrlIndex I (k - (I.states.length + I.algs.length)) 0)
      (ctrlIndex I (k - (I.states.length + I.algs.length)) 0 + b.n), ?_, by simp [Slot.first, ctrlIndex]⟩
    rw [hctl _ b hb]
    simp [hm]

/-- **The entry of an initial derivative is the model's `derIndex`.** -/
theorem derSlot_first (I : Inst) (m i : Nat) (hex : ExtrasOneStamp I) (hE : 0 < I.E)
    (hsz : ∀ b ∈ I.controls, b.size = 1) (hi : i < I.states.length) :
    ∃ s, derSlot I m i = some s ∧ s.first = derIndex I m i := by
  obtain ⟨hcnt, _⟩ := ctrlSlotsK_spec I hE hsz
  have hlt : I.states.length + I.algs.length + I.paths.length + I.extras.length + i < (stateBlocks I).length := by
    simp [stateBlocks]; omega
  obtain ⟨s, s1, s2, _⟩ := (stateSlotsK_spec I m hex).2 _ _ (List.getElem?_eq_getElem hlt)
  refine ⟨shiftK (ctrlSlotsK I).2 s, by simp [derSlot, s1], ?_⟩
  rw [(shiftK_first _ s).1, s2, hcnt]
  unfold derIndex; omega

/-- **The merged index table is the model's `stateIndex`**: entry `j` (insertion order) of
    `self.__indices[m]` covers exactly the decision-vector entries `stateIndex I m j c i`. -/
theorem stateSlot_is_stateIndex (I : Inst) (m j : Nat) (b : Blk) (hE : 0 < I.E)
    (hsz : ∀ b ∈ I.controls, b.size = 1) (hex : ExtrasOneStamp I) (hb : (stateBlocks I)[j]? = some b) :
    ∃ s, ((stateSlotsK I m)[j]?).map (shiftK (ctrlSlotsK I).2) = some s ∧ s.stop = s.first + b.len ∧
      ∀ c i, s.first + (c * b.n + i) = stateIndex I m j c i := by
  obtain ⟨hcnt, _⟩ := ctrlSlotsK_spec I hE hsz
  obtain ⟨s, s1, s2, s3⟩ := (stateSlotsK_spec I m hex).2 j b hb
  refine ⟨shiftK (ctrlSlotsK I).2 s, by simp [s1], ?_, ?_⟩
  · rw [(shiftK_first _ s).1, (shiftK_first _ s).2, s3]; omega
  · intro c i
    rw [stateIndex_eq I m j c i b hb, (shiftK_first _ s).1, s2, hcnt]; omega

/-- **The control index table is the model's `ctrlIndex`.** -/
theorem ctrlSlot_is_ctrlIndex (I : Inst) (hE : 0 < I.E) (hsz : ∀ b ∈ I.controls, b.size = 1)
    (m j : Nat) (b : Blk) (hm : m < I.E) (hb : I.controls[j]? = some b) :
    (ctrlSlotsK I).2 = ctrlSize I ∧
    ∃ s, ((ctrlSlotsK I).1[j]?).bind (·[m]?) = some s ∧ s.stop = s.first + b.n ∧
      ∀ i, s.first + i = ctrlIndex I j i := by
  obtain ⟨hcnt, hctl⟩ := ctrlSlotsK_spec I hE hsz
  refine ⟨hcnt, Slot.slice (ctrlIndex I j 0) (ctrlIndex I j 0 + b.n), ?_, rfl, ?_⟩
  · rw [hctl j b hb]; simp [hm]
  · intro i; simp [Slot.first, ctrlIndex]

/-! ## history pins -/

theorem isnan_xdivPos (v : XVal) (q : Rat) : isnan (xdivPos v q) = isnan v := by
  cases v <;> rfl

/-- **The history-pin body is one step of the model's `applyPins`.** -/
theorem pinStepK_eq (I : Inst) (m j : Nat) (b : Blk) (h : Option Hist) (lo hi : List XVal) :
    pinStepK I.t0 b h (pinIndex I m j) lo hi = applyPins I m [(b, h)] j (lo, hi) := by
  unfold pinStepK
  simp only [applyPins, pinValue, interpolate, nominal]
  cases h with
  | none => rfl
  | some h =>
    simp only
    cases interpScalarX b.mode h.knots XVal.nan XVal.nan I.t0 with
    | none => rfl
    | some v => cases v <;> simp [isnan, xdivPos, applyPins]

/-- `derPin` as a function of what it reads from the history -/
def derPinCore (n : Nat) (l2 l1 : Option (Option Rat)) (tl tp : Option Rat) (iv : Option XVal)
    (t0 nomDer : Rat) : DerPin :=
  if n ≤ 1 then .free
  else match l2 with
    | none => .free
    | some none => .free
    | some (some prev) =>
      if tl ≠ some t0 then .raise
      else match l1 with
        | some (some _) =>
            match iv with
            | some (.e (.fin v0)) => .pin ((v0 - prev) / (t0 - (tp.getD 0)) / nomDer)
            | _ => .raise
        | _ => .symbolic

/-- `derStepK` as a function of what it reads from the history -/
def derStepCore (n : Nat) (l2 l1 : Option (Option Rat)) (tl tp : Option Rat) (iv : Option XVal)
    (t0 nomDer : Rat) : DerPin :=
  if n ≤ 1 ∨ isnan (match l2 with | some v => ofHist v | none => .nan) = true then DerPin.free
  else if ¬ (tl = some t0) then DerPin.raise
  else if isnan (match l1 with | some v => ofHist v | none => .nan) = true then DerPin.symbolic
  else
    match iv with
    | none => DerPin.raise
    | some t0_val =>
      pinOf (divNom (backDiff t0_val (match l2 with | some v => ofHist v | none => .nan) tp t0) nomDer)

theorem derCore_eq (n : Nat) (l2 l1 : Option (Option Rat)) (tl tp : Option Rat) (iv : Option XVal)
    (t0 nomDer : Rat) : derStepCore n l2 l1 tl tp iv t0 nomDer = derPinCore n l2 l1 tl tp iv t0 nomDer := by
  unfold derStepCore derPinCore
  by_cases hn : n ≤ 1
  · simp [hn]
  · rcases l2 with _ | _ | prev <;> simp [hn, isnan, ofHist, XVal.fin]
    by_cases ht : tl = some t0
    · rcases l1 with _ | _ | v1 <;> simp [ht, isnan, ofHist, XVal.fin]
      rcases iv with _ | _ | _ | _ | _ <;> simp [backDiff, divNom, pinOf, XVal.fin]
    · simp [ht]

/-- **The initial-derivative body is the model's `derPin`.** -/
theorem derStepK_eq (t0 : Rat) (b : Blk) (h : Option Hist) (nomDer : Rat) :
    derStepK t0 b h nomDer = derPin t0 b h nomDer := by
  cases h with
  | none => rfl
  | some h =>
    have h1 : derStepK t0 b (some h) nomDer = derStepCore h.times.length h.vals.dropLast.getLast?
        h.vals.getLast? h.times.getLast? h.times.dropLast.getLast?
        (interpScalarX b.mode h.knots XVal.nan XVal.nan t0) t0 nomDer := rfl
    have h2 : derPin t0 b (some h) nomDer = derPinCore h.times.length h.vals.dropLast.getLast?
        h.vals.getLast? h.times.getLast? h.times.dropLast.getLast?
        (interpScalarX b.mode h.knots XVal.nan XVal.nan t0) t0 nomDer := rfl
    rw [h1, h2, derCore_eq]

/-- **The initial-derivative nominal of the code is the model's `derNominal`.** -/
theorem derNominalK_eq (b : Blk) (h0 : Option Hist) : derNominalK b h0 = derNominal b h0 := by
  unfold derNominalK derNominal
  simp only [nominal, last1, last2]
  rcases b.times with _ | ⟨a, _ | ⟨c, r⟩⟩ <;> rcases h0 with _ | ⟨⟨_ | ⟨x, xs⟩, hv⟩⟩ <;> simp <;>
    split_ifs <;> simp_all

end RtcVerif.C05.L
