import RtcVerif.Model.C05
import Mathlib.Data.List.Basic
import Mathlib.Tactic.Linarith
import Mathlib.Tactic.Ring
/-!
Generic list lemmas for the C05 layout proofs: slice assignment, concatenations of blocks
(uniform and non-uniform lengths), `mapM` in `Option`.
-/
namespace RtcVerif.C05

/-! ### uniform blocks -/

theorem length_flatMap_uniform {α β} (l : List β) (f : β → List α) (n : Nat)
    (h : ∀ b ∈ l, (f b).length = n) : (l.flatMap f).length = l.length * n := by
  induction l with
  | nil => simp
  | cons a l ih =>
    rw [List.flatMap_cons, List.length_append, ih (fun b hb => h b (List.mem_cons_of_mem _ hb)),
      h a List.mem_cons_self, List.length_cons]
    ring

/-- entry `c * n + i` of a concatenation of blocks of equal length `n` -/
theorem getElem?_flatMap_uniform {α β} (l : List β) (f : β → List α) (n : Nat)
    (h : ∀ b ∈ l, (f b).length = n) (c i : Nat) (hi : i < n) :
    (l.flatMap f)[c * n + i]? = (l[c]?).bind (fun b => (f b)[i]?) := by
  induction l generalizing c with
  | nil => simp
  | cons a l ih =>
    have ha : (f a).length = n := h a List.mem_cons_self
    have hl : ∀ b ∈ l, (f b).length = n := fun b hb => h b (List.mem_cons_of_mem _ hb)
    rw [List.flatMap_cons]
    cases c with
    | zero =>
      rw [List.getElem?_append_left (by omega)]
      simp
    | succ c =>
      rw [List.getElem?_append_right (by rw [ha]; nlinarith)]
      have : (c + 1) * n + i - (f a).length = c * n + i := by
        rw [ha]; have : (c + 1) * n = c * n + n := by ring
        omega
      rw [this, ih hl c]
      simp

theorem getElem?_flatten_uniform {α} (L : List (List α)) (n : Nat)
    (h : ∀ b ∈ L, b.length = n) (c i : Nat) (hi : i < n) :
    L.flatten[c * n + i]? = (L[c]?).bind (·[i]?) := by
  have := getElem?_flatMap_uniform L id n h c i hi
  simpa [List.flatMap_id] using this

/-- tiled array `flatMap (fun c => replicate n (g c)) (range s)`: entry `(c, i)` is `g c` -/
theorem getElem?_tile {α} (g : Nat → α) (s n c i : Nat) (hc : c < s) (hi : i < n) :
    ((List.range s).flatMap fun c => List.replicate n (g c))[c * n + i]? = some (g c) := by
  rw [getElem?_flatMap_uniform _ _ n (by intro b _; simp) c i hi]
  simp [List.getElem?_range hc, hi]

theorem length_tile {α} (g : Nat → α) (s n : Nat) :
    ((List.range s).flatMap fun c => List.replicate n (g c)).length = s * n := by
  rw [length_flatMap_uniform _ _ n (by intro b _; simp)]
  simp

/-! ### non-uniform blocks with running offsets -/

/-- entry `offset j + k` of a concatenation of blocks -/
theorem getElem?_flatMap_offset {α β} (l : List β) (f : β → List α) (j k : Nat)
    (b : β) (hb : l[j]? = some b) (hk : k < (f b).length) :
    (l.flatMap f)[((l.take j).map (fun x => (f x).length)).sum + k]? = (f b)[k]? := by
  induction l generalizing j with
  | nil => simp at hb
  | cons a l ih =>
    cases j with
    | zero =>
      simp only [List.getElem?_cons_zero, Option.some.injEq] at hb
      subst hb
      simp only [List.take_zero, List.map_nil, List.sum_nil, Nat.zero_add, List.flatMap_cons]
      rw [List.getElem?_append_left hk]
    | succ j =>
      simp only [List.getElem?_cons_succ] at hb
      simp only [List.take_succ_cons, List.map_cons, List.sum_cons, List.flatMap_cons]
      rw [List.getElem?_append_right (by omega)]
      have : (f a).length + ((l.take j).map fun x => (f x).length).sum + k - (f a).length
          = ((l.take j).map fun x => (f x).length).sum + k := by omega
      rw [this]
      exact ih j hb

/-! ### slice assignment -/

theorem setSlice_append {α} (pre old post vs : List α) (h : vs.length = old.length) :
    setSlice (pre ++ old ++ post) pre.length vs = pre ++ vs ++ post := by
  unfold setSlice
  have e1 : pre ++ old ++ post = pre ++ (old ++ post) := List.append_assoc _ _ _
  have e2 : List.take pre.length (pre ++ (old ++ post)) = pre := List.take_left' rfl
  have e3 : List.drop (pre.length + vs.length) (pre ++ (old ++ post)) = post := by
    rw [List.drop_append, List.drop_of_length_le (by omega), List.nil_append]
    have : pre.length + vs.length - pre.length = old.length := by omega
    rw [this, List.drop_left' rfl]
  rw [e1, e2, e3]

/-! ### `mapM` in `Option` -/

theorem mapM_some_length {α β} (f : α → Option β) (l : List α) (r : List β)
    (h : l.mapM f = some r) : r.length = l.length := by
  induction l generalizing r with
  | nil => simp at h; subst h; rfl
  | cons a l ih =>
    rw [List.mapM_cons] at h
    cases ha : f a with
    | none => simp [ha] at h
    | some x =>
      cases hl : l.mapM f with
      | none => simp [ha, hl] at h
      | some xs =>
        simp [ha, hl] at h
        subst h
        simp [ih xs hl]

theorem mapM_some_getElem? {α β} (f : α → Option β) (l : List α) (r : List β)
    (h : l.mapM f = some r) (i : Nat) (a : α) (ha : l[i]? = some a) :
    (r[i]?) = f a := by
  induction l generalizing r i with
  | nil => simp at ha
  | cons x l ih =>
    rw [List.mapM_cons] at h
    cases hx : f x with
    | none => simp [hx] at h
    | some y =>
      cases hl : l.mapM f with
      | none => simp [hx, hl] at h
      | some ys =>
        simp [hx, hl] at h
        subst h
        cases i with
        | zero =>
          simp only [List.getElem?_cons_zero, Option.some.injEq] at ha
          subst ha
          simp [hx]
        | succ i =>
          simp only [List.getElem?_cons_succ] at ha ⊢
          exact ih ys hl i ha

end RtcVerif.C05
