import RtcVerif.Proofs.C05Block
/-!
Pass level: the sequence of slice assignments of `_collint_get_lbx_ubx` over consecutive slots,
repeated per member, equals the concatenation of the per-variable blocks; entry lemmas for
`boxArr`.
-/
namespace RtcVerif.C05
open RtcVerif

/-! ### `blockWrite` -/

theorem blockWrite_length (b : Blk) (s : Side) (fill : XVal) (vs : List XVal)
    (h : blockWrite b s fill = some (some vs)) : vs.length = b.len := by
  unfold blockWrite at h
  split at h
  · simp at h
  · simp at h
  · rename_i vals hv
    split at h
    · rename_i hl
      simp only [Option.some.injEq] at h
      subst h
      simp [List.length_zipWith, hl, nomTiled_length]
    · match vals, h with
      | [x], h =>
        simp only [Option.some.injEq] at h
        subst h
        simp [nomTiled_length]
      | [], h => simp at h
      | _ :: _ :: _, h => simp at h

/-- **entry of a written block**: the user's bound of (component `c`, stamp `i`) divided by the
    nominal of component `c`, at position `c * n + i` (component-major) -/
theorem blockWrite_entry (b : Blk) (s : Side) (fill : XVal) (vs : List XVal)
    (hwf : b.scalarT = true → b.n = 1)
    (h : blockWrite b s fill = some (some vs)) (c i : Nat) (hc : c < b.size) (hi : i < b.n) :
    vs[c * b.n + i]? = (sideAt b s fill c i).map (fun x => xdivPos x (b.nom.at c)) := by
  unfold blockWrite at h
  split at h
  · simp at h
  · simp at h
  · rename_i vals hv
    obtain ⟨h1, h2⟩ := sideVals_entry b s fill vals hwf hv c i hc hi
    have hnom := nomTiled_get b c i hc hi
    split at h
    · rename_i hl
      simp only [Option.some.injEq] at h
      subst h
      rw [List.getElem?_zipWith, h1 hl, hnom]
      cases sideAt b s fill c i <;> rfl
    · match vals, h, h2 with
      | [x], h, h2 =>
        simp only [Option.some.injEq] at h
        subst h
        rw [List.getElem?_map, hnom, h2 x rfl]
        rfl
      | [], h, _ => simp at h
      | _ :: _ :: _, h, _ => simp at h

/-! ### closed form of one sweep -/

/-- the block of one slot after the sweep: the written values, or the untouched fill -/
def blockVals (lower : Bool) (b : Blk) : Option (List XVal) :=
  match blockWrite b (sideOf lower b) (fillOf lower) with
  | none => none
  | some none => some (List.replicate b.len (fillOf lower))
  | some (some vs) => some vs

def closedPass (lower : Bool) (bs : List Blk) : Option (List XVal) :=
  (bs.mapM (blockVals lower)).map List.flatten

theorem blockVals_length (lower : Bool) (b : Blk) (vs : List XVal)
    (h : blockVals lower b = some vs) : vs.length = b.len := by
  unfold blockVals at h
  split at h
  · simp at h
  · simp only [Option.some.injEq] at h; subst h; simp
  · rename_i w hw
    simp only [Option.some.injEq] at h; subst h
    exact blockWrite_length _ _ _ _ hw

theorem closedPass_nil (lower : Bool) : closedPass lower [] = some [] := by
  simp [closedPass]

theorem closedPass_cons (lower : Bool) (b : Blk) (bs : List Blk) :
    closedPass lower (b :: bs) =
      (blockVals lower b).bind fun v => (closedPass lower bs).map fun r => v ++ r := by
  unfold closedPass
  rw [List.mapM_cons]
  cases blockVals lower b with
  | none => simp
  | some v =>
    cases List.mapM (blockVals lower) bs with
    | none => simp
    | some r => simp

theorem totalLen_cons (b : Blk) (bs : List Blk) : totalLen (b :: bs) = b.len + totalLen bs := by
  simp [totalLen]

theorem closedPass_length (lower : Bool) (bs : List Blk) (r : List XVal)
    (h : closedPass lower bs = some r) : r.length = totalLen bs := by
  induction bs generalizing r with
  | nil => simp [closedPass] at h; subst h; simp [totalLen]
  | cons b bs ih =>
    rw [closedPass_cons] at h
    cases hb : blockVals lower b with
    | none => simp [hb] at h
    | some v =>
      cases hr : closedPass lower bs with
      | none => simp [hb, hr] at h
      | some r' =>
        simp [hb, hr] at h
        subst h
        rw [List.length_append, blockVals_length lower b v hb, ih r' hr, totalLen_cons]

/-- first sweep over untouched entries -/
theorem writeBlocks_fresh (lower : Bool) (bs : List Blk) (pre post : List XVal) :
    writeBlocks lower bs pre.length
        (pre ++ List.replicate (totalLen bs) (fillOf lower) ++ post)
      = (closedPass lower bs).map fun r => pre ++ r ++ post := by
  induction bs generalizing pre with
  | nil => simp [writeBlocks, closedPass, totalLen]
  | cons b bs ih =>
    rw [closedPass_cons, totalLen_cons]
    have hsplit : List.replicate (b.len + totalLen bs) (fillOf lower)
        = List.replicate b.len (fillOf lower) ++ List.replicate (totalLen bs) (fillOf lower) :=
      List.replicate_add _ _ _
    unfold writeBlocks blockVals
    cases hw : blockWrite b (sideOf lower b) (fillOf lower) with
    | none => simp
    | some w =>
      cases w with
      | none =>
        simp only [Option.bind_some]
        have := ih (pre ++ List.replicate b.len (fillOf lower))
        rw [List.length_append, List.length_replicate] at this
        rw [hsplit]
        have e : pre ++ (List.replicate b.len (fillOf lower) ++ List.replicate (totalLen bs) (fillOf lower)) ++ post
            = pre ++ List.replicate b.len (fillOf lower) ++ List.replicate (totalLen bs) (fillOf lower) ++ post := by
          simp only [List.append_assoc]
        rw [e, this]
        cases closedPass lower bs <;> simp
      | some vs =>
        simp only [Option.bind_some]
        have hl := blockWrite_length _ _ _ _ hw
        rw [hsplit]
        have e : pre ++ (List.replicate b.len (fillOf lower) ++ List.replicate (totalLen bs) (fillOf lower)) ++ post
            = pre ++ List.replicate b.len (fillOf lower) ++ (List.replicate (totalLen bs) (fillOf lower) ++ post) := by
          simp only [List.append_assoc]
        rw [e, setSlice_append pre _ _ vs (by simp [hl])]
        have := ih (pre ++ vs)
        rw [List.length_append, hl] at this
        have e2 : pre ++ vs ++ (List.replicate (totalLen bs) (fillOf lower) ++ post)
            = pre ++ vs ++ List.replicate (totalLen bs) (fillOf lower) ++ post := by
          simp only [List.append_assoc]
        rw [e2, this]
        cases closedPass lower bs <;> simp

/-- a repeated sweep over the same slots (shared controls) changes nothing -/
theorem writeBlocks_again (lower : Bool) (bs : List Blk) (pre post r : List XVal)
    (h : closedPass lower bs = some r) :
    writeBlocks lower bs pre.length (pre ++ r ++ post) = some (pre ++ r ++ post) := by
  induction bs generalizing pre r with
  | nil => simp [writeBlocks]
  | cons b bs ih =>
    rw [closedPass_cons] at h
    cases hb : blockVals lower b with
    | none => simp [hb] at h
    | some v =>
      cases hr : closedPass lower bs with
      | none => simp [hb, hr] at h
      | some r' =>
        simp [hb, hr] at h
        subst h
        have hvl := blockVals_length lower b v hb
        unfold writeBlocks
        unfold blockVals at hb
        cases hw : blockWrite b (sideOf lower b) (fillOf lower) with
        | none => simp [hw] at hb
        | some w =>
          cases w with
          | none =>
            simp only
            have := ih (pre ++ v) r' hr
            rw [List.length_append, hvl] at this
            have e : pre ++ (v ++ r') ++ post = pre ++ v ++ r' ++ post := by simp
            rw [e, this]
          | some vs =>
            simp [hw] at hb
            subst hb
            simp only
            have e : pre ++ (vs ++ r') ++ post = pre ++ vs ++ (r' ++ post) := by simp
            rw [e, setSlice_append pre vs (r' ++ post) vs rfl]
            have := ih (pre ++ vs) r' hr
            rw [List.length_append, hvl] at this
            have e2 : pre ++ vs ++ (r' ++ post) = pre ++ vs ++ r' ++ post := by simp
            rw [e2, this]

/-! ### all members -/

/-- shared slots (controls): any positive number of sweeps gives the closed form -/
theorem sweep_shared_again (lower : Bool) (bs : List Blk) (r : List XVal)
    (h : closedPass lower bs = some r) (e m : Nat) :
    sweepMembers lower bs 0 e m r = some r := by
  induction e generalizing m with
  | zero => rfl
  | succ e ih =>
    unfold sweepMembers
    have := writeBlocks_again lower bs [] [] r h
    simp only [List.length_nil, List.nil_append, List.append_nil] at this
    rw [Nat.mul_zero, this]
    exact ih (m + 1)

theorem sweep_shared (lower : Bool) (bs : List Blk) (e m : Nat) :
    sweepMembers lower bs 0 (e + 1) m (List.replicate (totalLen bs) (fillOf lower))
      = closedPass lower bs := by
  unfold sweepMembers
  have := writeBlocks_fresh lower bs [] []
  simp only [List.length_nil, List.nil_append, List.append_nil] at this
  rw [Nat.mul_zero, this]
  cases h : closedPass lower bs with
  | none => simp
  | some r =>
    simp only [Option.map_some, id]
    have : (fun r => r) = (id : List XVal → List XVal) := rfl
    simpa using sweep_shared_again lower bs r h e (m + 1)

/-- per-member slots (states): member after member -/
theorem sweep_members (lower : Bool) (bs : List Blk) (r : List XVal)
    (h : closedPass lower bs = some r) (e m : Nat) (done : List XVal)
    (hd : done.length = m * totalLen bs) :
    sweepMembers lower bs (totalLen bs) e m
        (done ++ List.replicate (e * totalLen bs) (fillOf lower))
      = some (done ++ (List.replicate e r).flatten) := by
  induction e generalizing m done with
  | zero => simp [sweepMembers]
  | succ e ih =>
    unfold sweepMembers
    have hsplit : List.replicate ((e + 1) * totalLen bs) (fillOf lower)
        = List.replicate (totalLen bs) (fillOf lower) ++ List.replicate (e * totalLen bs) (fillOf lower) := by
      rw [← List.replicate_add]; congr 1; ring
    have := writeBlocks_fresh lower bs done (List.replicate (e * totalLen bs) (fillOf lower))
    rw [hd] at this
    rw [hsplit, ← List.append_assoc, this, h]
    simp only [Option.map_some]
    have hr := closedPass_length lower bs r h
    have := ih (m + 1) (done ++ r) (by rw [List.length_append, hd, hr]; ring)
    rw [this]
    simp [List.replicate_succ]

theorem sweep_members_none (lower : Bool) (bs : List Blk) (h : closedPass lower bs = none)
    (e m : Nat) (done : List XVal) (hd : done.length = m * totalLen bs) :
    sweepMembers lower bs (totalLen bs) (e + 1) m
        (done ++ List.replicate ((e + 1) * totalLen bs) (fillOf lower)) = none := by
  unfold sweepMembers
  have hsplit : List.replicate ((e + 1) * totalLen bs) (fillOf lower)
      = List.replicate (totalLen bs) (fillOf lower) ++ List.replicate (e * totalLen bs) (fillOf lower) := by
    rw [← List.replicate_add]; congr 1; ring
  have := writeBlocks_fresh lower bs done (List.replicate (e * totalLen bs) (fillOf lower))
  rw [hd] at this
  rw [hsplit, ← List.append_assoc, this, h]
  rfl

/-- **closed form of `lbx` / `ubx` before the pins** (at least one ensemble member) -/
theorem boxArr_closed (lower : Bool) (I : Inst) (hE : 0 < I.E) :
    boxArr lower I =
      (closedPass lower I.controls).bind fun c =>
        (closedPass lower (stateBlocks I)).map fun s => c ++ (List.replicate I.E s).flatten := by
  obtain ⟨e, he⟩ : ∃ e, I.E = e + 1 := ⟨I.E - 1, by omega⟩
  unfold boxArr
  simp only [ctrlSize, memberSize, he, bind, pure]
  rw [sweep_shared lower I.controls e 0]
  cases hc : closedPass lower I.controls with
  | none => simp
  | some c =>
    simp only [Option.bind_some]
    cases hs : closedPass lower (stateBlocks I) with
    | none =>
      have := sweep_members_none lower (stateBlocks I) hs e 0 [] (by simp)
      simp only [List.nil_append] at this
      rw [this]; rfl
    | some s =>
      have := sweep_members lower (stateBlocks I) s hs (e + 1) 0 [] (by simp)
      simp only [List.nil_append] at this
      rw [this]; rfl

/-! ### entries of the closed form -/

theorem offsetOf_eq (bs : List Blk) (j : Nat) :
    offsetOf bs j = ((bs.take j).map Blk.len).sum := rfl

/-- entry `offset j + k` of a sweep is entry `k` of slot `j`'s block -/
theorem closedPass_entry (lower : Bool) (bs : List Blk) (r : List XVal)
    (h : closedPass lower bs = some r) (j k : Nat) (b : Blk) (hb : bs[j]? = some b)
    (hk : k < b.len) :
    ∃ v, blockVals lower b = some v ∧ r[offsetOf bs j + k]? = v[k]? := by
  unfold closedPass at h
  cases hm : bs.mapM (blockVals lower) with
  | none => simp [hm] at h
  | some vs =>
    simp [hm] at h
    subst h
    have hvj := mapM_some_getElem? _ _ _ hm j b hb
    have hvl := mapM_some_length _ _ _ hm
    have hjl : j < vs.length := by rw [hvl]; exact (List.getElem?_eq_some_iff.1 hb).1
    obtain ⟨v, hv⟩ : ∃ v, vs[j]? = some v := ⟨vs[j], List.getElem?_eq_getElem hjl⟩
    rw [hv] at hvj
    refine ⟨v, hvj.symm, ?_⟩
    have hlen : v.length = b.len := blockVals_length lower b v hvj.symm
    -- offsets computed from the blocks agree with offsets computed from the written values
    have hoff : offsetOf bs j = ((vs.take j).map fun x => (id x).length).sum := by
      rw [offsetOf_eq]
      clear hv hvj hlen hjl hb hk
      induction bs generalizing vs j with
      | nil => simp at hm; subst hm; simp
      | cons a bs ih =>
        rw [List.mapM_cons] at hm
        cases ha : blockVals lower a with
        | none => simp [ha] at hm
        | some va =>
          cases hr : bs.mapM (blockVals lower) with
          | none => simp [ha, hr] at hm
          | some vr =>
            simp [ha, hr] at hm
            subst hm
            cases j with
            | zero => simp
            | succ j =>
              simp only [List.take_succ_cons, List.map_cons, List.sum_cons, id]
              rw [blockVals_length lower a va ha]
              have := ih (vs := vr) (j := j) hr (by simpa using hvl)
              simp only [id] at this
              rw [this]
    rw [hoff, ← List.flatMap_id]
    exact getElem?_flatMap_offset vs id j k v hv (by simpa [hlen] using hk)

/-! ### entry of a slot's block after the sweep -/

theorem blockVals_entry (lower : Bool) (b : Blk) (v : List XVal) (hwf : WF b)
    (hv : blockVals lower b = some v) (c i : Nat) (hc : c < b.size) (hi : i < b.n) :
    v[c * b.n + i]? = scaledBound lower b c i := by
  unfold blockVals at hv
  split at hv
  · simp at hv
  · rename_i hw
    simp only [Option.some.injEq] at hv
    subst hv
    -- nothing written: the side is `None`, the entry keeps the fill ∓inf
    have hside : sideOf lower b = .none := by
      unfold blockWrite at hw
      split at hw
      · simp at hw
      · rename_i hs
        cases hsd : sideOf lower b with
        | none => rfl
        | sc x => simp [hsd, sideVals] at hs
        | vec xs =>
          simp only [hsd, sideVals] at hs
          split at hs
          · simp at hs
          · split at hs <;> simp at hs
        | ts1 t vs =>
          simp only [hsd, sideVals] at hs
          split at hs
          · simp at hs
          · split at hs
            · cases h' : interpScalarX b.mode (toKnots t vs) (fillOf lower) (fillOf lower) (b.times.headD 0) <;>
                simp [h'] at hs
            · cases h' : interpArrayX b.mode (toKnots t vs) (fillOf lower) (fillOf lower) b.times <;>
                simp [h'] at hs
        | ts2 t rows =>
          simp only [hsd, sideVals] at hs
          split at hs
          · simp at hs
          · split at hs
            · simp only [Option.map_eq_some_iff] at hs
              obtain ⟨_, _, h''⟩ := hs
              simp at h''
            · simp only [Option.map_eq_some_iff] at hs
              obtain ⟨_, _, h''⟩ := hs
              simp at h''
      · split at hw
        · simp at hw
        · split at hw <;> simp at hw
    rw [List.getElem?_replicate]
    have := index_lt b c i hc hi
    simp only [this, if_true, scaledBound, hside, sideAt, Option.map_some]
    cases lower <;> rfl
  · rename_i vs hw
    simp only [Option.some.injEq] at hv
    subst hv
    exact blockWrite_entry b _ _ _ hwf hw c i hc hi

end RtcVerif.C05
