import RtcVerif.Proofs.C05Index
import Mathlib.Algebra.Order.Field.Rat
/-!
History pins: interpolation of a history at its last stamp returns the last value (any mode, also
next to NaN entries); frame and effect lemmas for the sequential single-entry writes.
-/
namespace RtcVerif.C05
open RtcVerif

/-! ### the extended interpolant at the last knot -/

theorem lastTimeX_append (pre : XKnots) (a : Rat) (fa : XVal) : lastTimeX (pre ++ [(a, fa)]) = a := by
  simp [lastTimeX]

theorem lastValX_append (pre : XKnots) (a : Rat) (fa : XVal) : lastValX (pre ++ [(a, fa)]) = fa := by
  simp [lastValX]

theorem linFromX_last (pre : XKnots) (a : Rat) (fa right : XVal)
    (h : ∀ p ∈ pre, p.1 < a) : linFromX (pre ++ [(a, fa)]) right a = fa := by
  induction pre with
  | nil => simp [linFromX]
  | cons p pre ih =>
    obtain ⟨tp, fp⟩ := p
    cases pre with
    | nil =>
      simp only [List.cons_append, List.nil_append, linFromX, lt_irrefl, if_false]
    | cons q pre =>
      obtain ⟨tq, fq⟩ := q
      have hq : tq < a := h (tq, fq) (by simp)
      have : ¬ a < tq := not_lt.2 (le_of_lt hq)
      simp only [List.cons_append, linFromX, this, if_false]
      exact ih (fun p hp => h p (List.mem_cons_of_mem _ hp))

theorem prevFromX_last (pre : XKnots) (a : Rat) (fa cur : XVal)
    (h : ∀ p ∈ pre, p.1 < a) : prevFromX (pre ++ [(a, fa)]) cur a = fa := by
  induction pre generalizing cur with
  | nil => simp [prevFromX]
  | cons p pre ih =>
    obtain ⟨tp, fp⟩ := p
    have : tp ≤ a := le_of_lt (h (tp, fp) (by simp))
    simp only [List.cons_append, prevFromX, this, if_true]
    exact ih fp (fun p hp => h p (List.mem_cons_of_mem _ hp))

theorem nextFromX_last (pre : XKnots) (a : Rat) (fa d : XVal)
    (h : ∀ p ∈ pre, p.1 < a) : nextFromX (pre ++ [(a, fa)]) d a = fa := by
  induction pre generalizing d with
  | nil => simp [nextFromX]
  | cons p pre ih =>
    obtain ⟨tp, fp⟩ := p
    have : ¬ a ≤ tp := not_le.2 (h (tp, fp) (by simp))
    simp only [List.cons_append, nextFromX, this, if_false]
    exact ih fp (fun p hp => h p (List.mem_cons_of_mem _ hp))

/-- **at the last stamp of a series the interpolant is the last value**, in every mode, whatever
    the other values (NaN, ±inf) and fills are -/
theorem interpScalarX_last (mode : Nat) (hm : mode ≤ 2) (pre : XKnots) (a : Rat) (fa fl fr : XVal)
    (h : ∀ p ∈ pre, p.1 < a) : interpScalarX mode (pre ++ [(a, fa)]) fl fr a = some fa := by
  cases pre with
  | nil => simp [interpScalarX]
  | cons p pre =>
    obtain ⟨tp, fp⟩ := p
    have hp : tp < a := h (tp, fp) (by simp)
    have hne : ¬ tp = a := ne_of_lt hp
    have hnm : ¬ 2 < mode := by omega
    have hnl : ¬ a < tp := not_lt.2 (le_of_lt hp)
    have hlast : lastTimeX ((tp, fp) :: pre ++ [(a, fa)]) = a := lastTimeX_append ((tp, fp) :: pre) a fa
    simp only [interpScalarX, List.cons_append, hne, if_false]
    unfold interpCoreX
    simp only [hnm, hnl, if_false]
    rw [show ((tp, fp) :: (pre ++ [(a, fa)])) = ((tp, fp) :: pre) ++ [(a, fa)] from rfl, hlast]
    simp only [lt_irrefl, if_false]
    obtain rfl | rfl | rfl : mode = 0 ∨ mode = 1 ∨ mode = 2 := by omega
    · simp only
      rw [linFromX_last ((tp, fp) :: pre) a fa fr h]
    · simp only
      rw [prevFromX_last pre a fa fp (fun p hp => h p (List.mem_cons_of_mem _ hp))]
    · simp only
      rw [nextFromX_last ((tp, fp) :: pre) a fa _ h]

/-! ### sequential single-entry writes: frame and effect -/

theorem applyPins_frame (I : Inst) (m : Nat) (l : List (Blk × Option Hist)) (j0 : Nat)
    (lo hi lo' hi' : List XVal) (h : applyPins I m l j0 (lo, hi) = some (lo', hi')) (p : Nat)
    (hp : ∀ k, k < l.length → p ≠ pinIndex I m (j0 + k)) :
    lo'[p]? = lo[p]? ∧ hi'[p]? = hi[p]? := by
  induction l generalizing j0 lo hi with
  | nil => simp [applyPins] at h; obtain ⟨rfl, rfl⟩ := h; exact ⟨rfl, rfl⟩
  | cons x l ih =>
    obtain ⟨b, hh⟩ := x
    unfold applyPins at h
    have hp' : ∀ k, k < l.length → p ≠ pinIndex I m (j0 + 1 + k) := by
      intro k hk
      have := hp (k + 1) (by simp; omega)
      rwa [show j0 + (k + 1) = j0 + 1 + k by ring] at this
    have hp0 : p ≠ pinIndex I m j0 := by simpa using hp 0 (by simp)
    cases hv : pinValue I.t0 b hh with
    | none => simp [hv] at h
    | some w =>
      cases w with
      | none =>
        simp only [hv] at h
        exact ih (j0 + 1) lo hi h hp'
      | some v =>
        simp only [hv] at h
        obtain ⟨h1, h2⟩ := ih (j0 + 1) _ _ h hp'
        rw [h1, h2, List.getElem?_set, List.getElem?_set]
        simp [Ne.symm hp0]

theorem applyPins_length (I : Inst) (m : Nat) (l : List (Blk × Option Hist)) (j0 : Nat)
    (lo hi lo' hi' : List XVal) (h : applyPins I m l j0 (lo, hi) = some (lo', hi')) :
    lo'.length = lo.length ∧ hi'.length = hi.length := by
  induction l generalizing j0 lo hi with
  | nil => simp [applyPins] at h; obtain ⟨rfl, rfl⟩ := h; exact ⟨rfl, rfl⟩
  | cons x l ih =>
    obtain ⟨b, hh⟩ := x
    unfold applyPins at h
    cases hv : pinValue I.t0 b hh with
    | none => simp [hv] at h
    | some w =>
      cases w with
      | none => simp only [hv] at h; exact ih (j0 + 1) lo hi h
      | some v =>
        simp only [hv] at h
        have := ih (j0 + 1) _ _ h
        simpa using this

/-- the `k`-th pin of the list is in force afterwards unless a later pin of the same member hits
    the same entry: **both** `lbx` and `ubx` hold the pinned value, whatever the bounds were -/
theorem applyPins_effect (I : Inst) (m : Nat) (l : List (Blk × Option Hist)) (j0 : Nat)
    (lo hi lo' hi' : List XVal) (h : applyPins I m l j0 (lo, hi) = some (lo', hi'))
    (k : Nat) (b : Blk) (hh : Option Hist) (hk : l[k]? = some (b, hh)) (v : XVal)
    (hv : pinValue I.t0 b hh = some (some v))
    (hlen : pinIndex I m (j0 + k) < lo.length ∧ pinIndex I m (j0 + k) < hi.length)
    (hlater : ∀ k', k < k' → k' < l.length → pinIndex I m (j0 + k) ≠ pinIndex I m (j0 + k')) :
    lo'[pinIndex I m (j0 + k)]? = some v ∧ hi'[pinIndex I m (j0 + k)]? = some v := by
  induction l generalizing j0 lo hi k with
  | nil => simp at hk
  | cons x l ih =>
    obtain ⟨b0, h0⟩ := x
    unfold applyPins at h
    cases k with
    | zero =>
      simp only [List.getElem?_cons_zero, Option.some.injEq, Prod.mk.injEq] at hk
      obtain ⟨rfl, rfl⟩ := hk
      simp only [hv] at h
      have hfr := applyPins_frame I m l (j0 + 1) _ _ lo' hi' h (pinIndex I m (j0 + 0))
        (by
          intro k' hk'
          have := hlater (k' + 1) (by omega) (by simp; omega)
          rwa [show j0 + (k' + 1) = j0 + 1 + k' by ring] at this)
      rw [hfr.1, hfr.2, List.getElem?_set, List.getElem?_set]
      simp only [Nat.add_zero] at hlen ⊢
      simp [hlen.1, hlen.2]
    | succ k =>
      simp only [List.getElem?_cons_succ] at hk
      have hidx : j0 + (k + 1) = j0 + 1 + k := by ring
      have hlater' : ∀ k', k < k' → k' < l.length →
          pinIndex I m (j0 + 1 + k) ≠ pinIndex I m (j0 + 1 + k') := by
        intro k' h1 h2
        have := hlater (k' + 1) (by omega) (by simp; omega)
        rwa [hidx, show j0 + (k' + 1) = j0 + 1 + k' by ring] at this
      rw [hidx]
      rw [hidx] at hlen
      cases hv0 : pinValue I.t0 b0 h0 with
      | none => simp [hv0] at h
      | some w =>
        cases w with
        | none =>
          simp only [hv0] at h
          exact ih (j0 + 1) lo hi h k hk hlen hlater'
        | some v0 =>
          simp only [hv0] at h
          exact ih (j0 + 1) _ _ h k hk (by simpa using hlen) hlater'

theorem knots_histEndingAt (pt : List Rat) (pv : List (Option Rat)) (t0 : Rat) (v0 : Option Rat)
    (hl : pt.length = pv.length) :
    ∃ pre : XKnots, (histEndingAt pt pv t0 v0).knots
        = pre ++ [(t0, match v0 with | some q => XVal.fin q | none => .nan)] ∧
      ((∀ t ∈ pt, t < t0) → ∀ p ∈ pre, p.1 < t0) := by
  refine ⟨pt.zip (pv.map fun v => match v with | some q => XVal.fin q | none => .nan), ?_, ?_⟩
  · unfold Hist.knots histEndingAt
    simp only [List.map_append, List.map_cons, List.map_nil]
    rw [List.zip_append (by simp [hl])]
    rfl
  · intro hlt p hp
    obtain ⟨a, x⟩ := p
    exact hlt a (List.of_mem_zip hp).1

end RtcVerif.C05
