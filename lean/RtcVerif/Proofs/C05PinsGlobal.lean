import RtcVerif.Proofs.C05Pins
/-!
The pin sweeps over all members (`pinMembers`): frame (untouched entries keep their box) and
effect (a pinned entry holds its pin at the end, when no later write hits it).
-/
namespace RtcVerif.C05
open RtcVerif

/-! ### initial-derivative pins of one member -/

theorem applyDerPins_frame (I : Inst) (m : Nat) (noms : List Rat) (l : List (Blk × Option Hist))
    (i0 : Nat) (lo hi lo' hi' : List XVal) (sym sym' : List Nat)
    (h : applyDerPins I m noms l i0 (lo, hi, sym) = some (lo', hi', sym')) (p : Nat)
    (hp : ∀ k, k < l.length → p ≠ derIndex I m (i0 + k)) :
    lo'[p]? = lo[p]? ∧ hi'[p]? = hi[p]? := by
  induction l generalizing i0 lo hi sym with
  | nil => simp [applyDerPins] at h; obtain ⟨rfl, rfl, _⟩ := h; exact ⟨rfl, rfl⟩
  | cons x l ih =>
    obtain ⟨b, hh⟩ := x
    unfold applyDerPins at h
    have hp' : ∀ k, k < l.length → p ≠ derIndex I m (i0 + 1 + k) := by
      intro k hk
      have := hp (k + 1) (by simp; omega)
      rwa [show i0 + (k + 1) = i0 + 1 + k by ring] at this
    have hp0 : p ≠ derIndex I m i0 := by simpa using hp 0 (by simp)
    cases hd : derPin I.t0 b hh (noms.getD i0 1) with
    | raise => simp only [hd] at h; cases h
    | free => simp only [hd] at h; exact ih (i0 + 1) lo hi sym h hp'
    | symbolic => simp only [hd] at h; exact ih (i0 + 1) lo hi _ h hp'
    | pin v =>
      simp only [hd] at h
      obtain ⟨h1, h2⟩ := ih (i0 + 1) _ _ _ h hp'
      rw [h1, h2, List.getElem?_set, List.getElem?_set]
      simp [Ne.symm hp0]

theorem applyDerPins_length (I : Inst) (m : Nat) (noms : List Rat) (l : List (Blk × Option Hist))
    (i0 : Nat) (lo hi lo' hi' : List XVal) (sym sym' : List Nat)
    (h : applyDerPins I m noms l i0 (lo, hi, sym) = some (lo', hi', sym')) :
    lo'.length = lo.length ∧ hi'.length = hi.length := by
  induction l generalizing i0 lo hi sym with
  | nil => simp [applyDerPins] at h; obtain ⟨rfl, rfl, _⟩ := h; exact ⟨rfl, rfl⟩
  | cons x l ih =>
    obtain ⟨b, hh⟩ := x
    unfold applyDerPins at h
    cases hd : derPin I.t0 b hh (noms.getD i0 1) with
    | raise => simp only [hd] at h; cases h
    | free => simp only [hd] at h; exact ih (i0 + 1) lo hi sym h
    | symbolic => simp only [hd] at h; exact ih (i0 + 1) lo hi _ h
    | pin v =>
      simp only [hd] at h
      have := ih (i0 + 1) _ _ _ h
      simpa using this

theorem applyDerPins_effect (I : Inst) (m : Nat) (noms : List Rat) (l : List (Blk × Option Hist))
    (i0 : Nat) (lo hi lo' hi' : List XVal) (sym sym' : List Nat)
    (h : applyDerPins I m noms l i0 (lo, hi, sym) = some (lo', hi', sym'))
    (k : Nat) (b : Blk) (hh : Option Hist) (hk : l[k]? = some (b, hh)) (v : Rat)
    (hv : derPin I.t0 b hh (noms.getD (i0 + k) 1) = .pin v)
    (hlen : derIndex I m (i0 + k) < lo.length ∧ derIndex I m (i0 + k) < hi.length)
    (hlater : ∀ k', k < k' → k' < l.length → derIndex I m (i0 + k) ≠ derIndex I m (i0 + k')) :
    lo'[derIndex I m (i0 + k)]? = some (XVal.fin v) ∧ hi'[derIndex I m (i0 + k)]? = some (XVal.fin v) := by
  induction l generalizing i0 lo hi sym k with
  | nil => simp at hk
  | cons x l ih =>
    obtain ⟨b0, h0⟩ := x
    unfold applyDerPins at h
    cases k with
    | zero =>
      simp only [List.getElem?_cons_zero, Option.some.injEq, Prod.mk.injEq] at hk
      obtain ⟨rfl, rfl⟩ := hk
      simp only [Nat.add_zero] at hv hlen hlater ⊢
      simp only [hv] at h
      have hfr := applyDerPins_frame I m noms l (i0 + 1) _ _ lo' hi' _ _ h (derIndex I m i0)
        (by
          intro k' hk'
          have := hlater (k' + 1) (by omega) (by simp; omega)
          rwa [show i0 + (k' + 1) = i0 + 1 + k' by ring] at this)
      rw [hfr.1, hfr.2, List.getElem?_set, List.getElem?_set]
      simp [hlen.1, hlen.2]
    | succ k =>
      simp only [List.getElem?_cons_succ] at hk
      have hidx : i0 + (k + 1) = i0 + 1 + k := by ring
      have hlater' : ∀ k', k < k' → k' < l.length →
          derIndex I m (i0 + 1 + k) ≠ derIndex I m (i0 + 1 + k') := by
        intro k' h1 h2
        have := hlater (k' + 1) (by omega) (by simp; omega)
        rwa [hidx, show i0 + (k' + 1) = i0 + 1 + k' by ring] at this
      rw [hidx] at hv hlen ⊢
      cases hd : derPin I.t0 b0 h0 (noms.getD i0 1) with
      | raise => simp only [hd] at h; cases h
      | free => simp only [hd] at h; exact ih (i0 + 1) lo hi sym h k hk hv hlen hlater'
      | symbolic => simp only [hd] at h; exact ih (i0 + 1) lo hi _ h k hk hv hlen hlater'
      | pin v0 =>
        simp only [hd] at h
        exact ih (i0 + 1) _ _ _ h k hk hv (by simpa using hlen) hlater'

/-! ### all members -/

/-- entry `p` is written by the pin sweep of member `m'` -/
def touches (I : Inst) (m' p : Nat) : Prop :=
  (∃ k, k < (pinVars I).length ∧ p = pinIndex I m' k) ∨ (∃ i, i < I.states.length ∧ p = derIndex I m' i)

theorem zip_pad_length {α β} (l : List α) (hs : List (Option β)) :
    (l.zip (hs ++ List.replicate l.length none)).length = l.length := by
  simp [List.length_zip]

theorem pinMembers_frame (I : Inst) (noms : List Rat) (e m0 : Nat) (lo hi lo' hi' : List XVal)
    (sym sym' : List Nat) (h : pinMembers I noms e m0 (lo, hi, sym) = some (lo', hi', sym')) (p : Nat)
    (hp : ∀ m', m0 ≤ m' → m' < m0 + e → ¬ touches I m' p) :
    lo'[p]? = lo[p]? ∧ hi'[p]? = hi[p]? ∧ lo'.length = lo.length ∧ hi'.length = hi.length := by
  induction e generalizing m0 lo hi sym with
  | zero => simp [pinMembers] at h; obtain ⟨rfl, rfl, _⟩ := h; exact ⟨rfl, rfl, rfl, rfl⟩
  | succ e ih =>
    unfold pinMembers at h
    simp only at h
    cases h1 : applyPins I m0 ((pinVars I).zip (histOf I m0 ++ List.replicate (pinVars I).length none)) 0 (lo, hi) with
    | none => simp [h1] at h
    | some a1 =>
      obtain ⟨lo1, hi1⟩ := a1
      simp only [h1] at h
      cases h2 : applyDerPins I m0 noms (I.states.zip (histOf I m0 ++ List.replicate I.states.length none)) 0 (lo1, hi1, sym) with
      | none => simp [h2] at h
      | some a2 =>
        obtain ⟨lo2, hi2, sym2⟩ := a2
        simp only [h2] at h
        have hnt := hp m0 (le_refl _) (by omega)
        have f1 := applyPins_frame I m0 _ 0 lo hi lo1 hi1 h1 p (by
          intro k hk hpk
          rw [zip_pad_length] at hk
          exact hnt (Or.inl ⟨k, hk, by simpa using hpk⟩))
        have l1 := applyPins_length I m0 _ 0 lo hi lo1 hi1 h1
        have f2 := applyDerPins_frame I m0 noms _ 0 lo1 hi1 lo2 hi2 sym sym2 h2 p (by
          intro k hk hpk
          rw [zip_pad_length] at hk
          exact hnt (Or.inr ⟨k, hk, by simpa using hpk⟩))
        have l2 := applyDerPins_length I m0 noms _ 0 lo1 hi1 lo2 hi2 sym sym2 h2
        obtain ⟨f3a, f3b, l3a, l3b⟩ := ih (m0 + 1) lo2 hi2 sym2 h (by
          intro m' h1' h2'; exact hp m' (by omega) (by omega))
        exact ⟨by rw [f3a, f2.1, f1.1], by rw [f3b, f2.2, f1.2], by rw [l3a, l2.1, l1.1], by rw [l3b, l2.2, l1.2]⟩

/-- decomposition of the sweep at member `m`: arrays before member `m`, after its history pins,
    after its derivative pins, and the final ones -/
theorem pinMembers_split (I : Inst) (noms : List Rat) (e m0 : Nat) (lo hi lo' hi' : List XVal)
    (sym sym' : List Nat) (h : pinMembers I noms e m0 (lo, hi, sym) = some (lo', hi', sym'))
    (m : Nat) (hm0 : m0 ≤ m) (hm : m < m0 + e) :
    ∃ la ha lb hb lc hc sa sc,
      la.length = lo.length ∧ ha.length = hi.length ∧
      applyPins I m ((pinVars I).zip (histOf I m ++ List.replicate (pinVars I).length none)) 0 (la, ha)
        = some (lb, hb) ∧
      applyDerPins I m noms (I.states.zip (histOf I m ++ List.replicate I.states.length none)) 0 (lb, hb, sa)
        = some (lc, hc, sc) ∧
      pinMembers I noms (m0 + e - (m + 1)) (m + 1) (lc, hc, sc) = some (lo', hi', sym') := by
  induction e generalizing m0 lo hi sym with
  | zero => omega
  | succ e ih =>
    unfold pinMembers at h
    simp only at h
    cases h1 : applyPins I m0 ((pinVars I).zip (histOf I m0 ++ List.replicate (pinVars I).length none)) 0 (lo, hi) with
    | none => simp [h1] at h
    | some a1 =>
      obtain ⟨lo1, hi1⟩ := a1
      simp only [h1] at h
      cases h2 : applyDerPins I m0 noms (I.states.zip (histOf I m0 ++ List.replicate I.states.length none)) 0 (lo1, hi1, sym) with
      | none => simp [h2] at h
      | some a2 =>
        obtain ⟨lo2, hi2, sym2⟩ := a2
        simp only [h2] at h
        by_cases hmm : m = m0
        · subst hmm
          refine ⟨lo, hi, lo1, hi1, lo2, hi2, sym, sym2, rfl, rfl, h1, h2, ?_⟩
          have : m + (e + 1) - (m + 1) = e := by omega
          rw [this]; exact h
        · have l1 := applyPins_length I m0 _ 0 lo hi lo1 hi1 h1
          have l2 := applyDerPins_length I m0 noms _ 0 lo1 hi1 lo2 hi2 sym sym2 h2
          obtain ⟨la, ha, lb, hb, lc, hc, sa, sc, e1, e2, e3, e4, e5⟩ :=
            ih (m0 + 1) lo2 hi2 sym2 h (by omega) (by omega)
          refine ⟨la, ha, lb, hb, lc, hc, sa, sc, by rw [e1, l2.1, l1.1], by rw [e2, l2.2, l1.2], e3, e4, ?_⟩
          have : m0 + (e + 1) - (m + 1) = m0 + 1 + e - (m + 1) := by omega
          rw [this]; exact e5

/-! ### where the pinned entries are -/

/-- all slots are non-empty (every variable has at least one time stamp and one component) -/
def NonEmpty (I : Inst) : Prop :=
  (∀ b ∈ stateBlocks I, 0 < b.len) ∧ (∀ b ∈ I.controls, 0 < b.len)

/-- first entry of slot `j` of member `m` -/
def slotStart (I : Inst) (m j : Nat) : Nat := ctrlSize I + m * memberSize I + offsetOf (stateBlocks I) j

theorem slotStart_lt (I : Inst) (m j : Nat) (b : Blk) (hm : m < I.E)
    (hb : (stateBlocks I)[j]? = some b) (hpos : 0 < b.len) : slotStart I m j < totalSize I := by
  have hoff := offsetOf_add_len_le (stateBlocks I) j b hb
  have hmE : (m + 1) * memberSize I ≤ I.E * memberSize I := Nat.mul_le_mul_right _ hm
  have : (m + 1) * memberSize I = m * memberSize I + memberSize I := by ring
  unfold slotStart totalSize memberSize at *
  omega

theorem slotStart_injective (I : Inst) (hne : NonEmpty I) (m j m' j' : Nat) (b b' : Blk)
    (hb : (stateBlocks I)[j]? = some b) (hb' : (stateBlocks I)[j']? = some b')
    (h : slotStart I m j = slotStart I m' j') : m = m' ∧ j = j' := by
  have hpos := hne.1 b (List.mem_of_getElem? hb)
  have hpos' := hne.1 b' (List.mem_of_getElem? hb')
  have hoff := offsetOf_add_len_le (stateBlocks I) j b hb
  have hoff' := offsetOf_add_len_le (stateBlocks I) j' b' hb'
  unfold slotStart at h
  set S := memberSize I with hS
  have hq : offsetOf (stateBlocks I) j < S := by unfold memberSize at hS; omega
  have hq' : offsetOf (stateBlocks I) j' < S := by unfold memberSize at hS; omega
  have hmm : m = m' := by
    rcases Nat.lt_trichotomy m m' with hlt | heq | hlt
    · have : (m + 1) * S ≤ m' * S := Nat.mul_le_mul_right _ hlt
      have : (m + 1) * S = m * S + S := by ring
      omega
    · exact heq
    · have : (m' + 1) * S ≤ m * S := Nat.mul_le_mul_right _ hlt
      have : (m' + 1) * S = m' * S + S := by ring
      omega
  subst hmm
  refine ⟨rfl, ?_⟩
  exact locate_unique (stateBlocks I) (offsetOf (stateBlocks I) j) j j' b b' hb hb'
    (le_refl _) (by omega) (by omega) (by omega)

theorem stateBlocks_length (I : Inst) :
    (stateBlocks I).length
      = I.states.length + I.algs.length + I.paths.length + I.extras.length + I.states.length := by
  simp [stateBlocks]
  omega

theorem pinIndex_state (I : Inst) (m k : Nat) (hk : k < I.states.length + I.algs.length) :
    pinIndex I m k = slotStart I m k := by
  simp [pinIndex, hk, slotStart]

theorem pinIndex_ctrl_lt (I : Inst) (hne : NonEmpty I) (m k : Nat)
    (hk : ¬ k < I.states.length + I.algs.length) (hk' : k < (pinVars I).length) :
    pinIndex I m k < ctrlSize I := by
  have hj : k - (I.states.length + I.algs.length) < I.controls.length := by
    simp [pinVars] at hk'; omega
  obtain ⟨b', hb'⟩ : ∃ b', I.controls[k - (I.states.length + I.algs.length)]? = some b' :=
    ⟨_, List.getElem?_eq_getElem hj⟩
  have h1 := offsetOf_add_len_le I.controls _ b' hb'
  have h2 := hne.2 b' (List.mem_of_getElem? hb')
  simp only [pinIndex, hk, if_false]
  unfold ctrlSize
  omega

theorem derIndex_eq (I : Inst) (m i : Nat) :
    derIndex I m i
      = slotStart I m (I.states.length + I.algs.length + I.paths.length + I.extras.length + i) := rfl

theorem slot_exists (I : Inst) (j : Nat) (hj : j < (stateBlocks I).length) :
    ∃ b, (stateBlocks I)[j]? = some b := ⟨_, List.getElem?_eq_getElem hj⟩

/-- the sweep of member `m'` writes to the first entry of slot `j` of member `m` only if
    `m' = m` and `j` is a pin variable's slot or an initial-derivative slot -/
theorem touches_slotStart (I : Inst) (hne : NonEmpty I) (m j m' : Nat) (b : Blk)
    (hb : (stateBlocks I)[j]? = some b) (ht : touches I m' (slotStart I m j)) :
    m' = m ∧ (j < I.states.length + I.algs.length ∨
      I.states.length + I.algs.length + I.paths.length + I.extras.length ≤ j) := by
  rcases ht with ⟨k, hk, hp⟩ | ⟨i, hi, hp⟩
  · by_cases hks : k < I.states.length + I.algs.length
    · rw [pinIndex_state I m' k hks] at hp
      obtain ⟨bk, hbk⟩ := slot_exists I k (by rw [stateBlocks_length]; omega)
      obtain ⟨h1, h2⟩ := slotStart_injective I hne m j m' k b bk hb hbk hp
      exact ⟨h1.symm, Or.inl (by omega)⟩
    · have := pinIndex_ctrl_lt I hne m' k hks hk
      rw [← hp] at this
      unfold slotStart at this
      omega
  · rw [derIndex_eq] at hp
    obtain ⟨bk, hbk⟩ := slot_exists I
      (I.states.length + I.algs.length + I.paths.length + I.extras.length + i)
      (by rw [stateBlocks_length]; omega)
    obtain ⟨h1, h2⟩ := slotStart_injective I hne m j m' _ b bk hb hbk hp
    exact ⟨h1.symm, Or.inr (by omega)⟩

theorem boxArr_length (lower : Bool) (I : Inst) (arr : List XVal) (hE : 0 < I.E)
    (h : boxArr lower I = some arr) : arr.length = totalSize I := by
  rw [boxArr_closed lower I hE] at h
  cases hcc : closedPass lower I.controls with
  | none => simp [hcc] at h
  | some cc =>
    cases hss : closedPass lower (stateBlocks I) with
    | none => simp [hcc, hss] at h
    | some s =>
      simp [hcc, hss] at h
      subst h
      have hcl : cc.length = ctrlSize I := closedPass_length lower _ cc hcc
      have hsl : s.length = memberSize I := closedPass_length lower _ s hss
      have := length_flatMap_uniform (List.replicate I.E s) id (memberSize I)
        (by intro a ha; rw [List.eq_of_mem_replicate ha]; exact hsl)
      simp only [List.flatMap_id, List.length_replicate] at this
      rw [List.length_append, hcl, this]
      rfl


/-! ### frame lemmas in terms of actual writes (shared control entries) -/

theorem applyPins_frame_nowrite (I : Inst) (m : Nat) (l : List (Blk × Option Hist)) (j0 : Nat)
    (lo hi lo' hi' : List XVal) (h : applyPins I m l j0 (lo, hi) = some (lo', hi')) (p : Nat)
    (hp : ∀ k b hh, l[k]? = some (b, hh) → p = pinIndex I m (j0 + k) → pinValue I.t0 b hh = some none) :
    lo'[p]? = lo[p]? ∧ hi'[p]? = hi[p]? := by
  induction l generalizing j0 lo hi with
  | nil => simp [applyPins] at h; obtain ⟨rfl, rfl⟩ := h; exact ⟨rfl, rfl⟩
  | cons x l ih =>
    obtain ⟨b, hh⟩ := x
    unfold applyPins at h
    have hp' : ∀ k b' hh', l[k]? = some (b', hh') → p = pinIndex I m (j0 + 1 + k) →
        pinValue I.t0 b' hh' = some none := by
      intro k b' hh' hk hpk
      exact hp (k + 1) b' hh' (by simpa using hk) (by rw [show j0 + (k + 1) = j0 + 1 + k by ring]; exact hpk)
    cases hv : pinValue I.t0 b hh with
    | none => simp [hv] at h
    | some w =>
      cases w with
      | none =>
        simp only [hv] at h
        exact ih (j0 + 1) lo hi h hp'
      | some v =>
        simp only [hv] at h
        have hp0 : p ≠ pinIndex I m j0 := by
          intro heq
          have := hp 0 b hh (by simp) (by simpa using heq)
          rw [hv] at this
          cases this
        obtain ⟨h1, h2⟩ := ih (j0 + 1) _ _ h hp'
        rw [h1, h2, List.getElem?_set, List.getElem?_set]
        simp [Ne.symm hp0]

/-- entries that no member *writes* (no history value for them, no derivative slot) keep their box -/
theorem pinMembers_frame_nowrite (I : Inst) (noms : List Rat) (e m0 : Nat) (lo hi lo' hi' : List XVal)
    (sym sym' : List Nat) (h : pinMembers I noms e m0 (lo, hi, sym) = some (lo', hi', sym')) (p : Nat)
    (hp : ∀ m', m0 ≤ m' → m' < m0 + e →
      (∀ k, p = pinIndex I m' k → memberPin I m' k = some none) ∧
      (∀ i, i < I.states.length → p ≠ derIndex I m' i)) :
    lo'[p]? = lo[p]? ∧ hi'[p]? = hi[p]? := by
  induction e generalizing m0 lo hi sym with
  | zero => simp [pinMembers] at h; obtain ⟨rfl, rfl, _⟩ := h; exact ⟨rfl, rfl⟩
  | succ e ih =>
    unfold pinMembers at h
    simp only at h
    cases h1 : applyPins I m0 ((pinVars I).zip (histOf I m0 ++ List.replicate (pinVars I).length none)) 0 (lo, hi) with
    | none => simp [h1] at h
    | some a1 =>
      obtain ⟨lo1, hi1⟩ := a1
      simp only [h1] at h
      cases h2 : applyDerPins I m0 noms (I.states.zip (histOf I m0 ++ List.replicate I.states.length none)) 0 (lo1, hi1, sym) with
      | none => simp [h2] at h
      | some a2 =>
        obtain ⟨lo2, hi2, sym2⟩ := a2
        simp only [h2] at h
        obtain ⟨hpa, hpb⟩ := hp m0 (le_refl _) (by omega)
        have f1 := applyPins_frame_nowrite I m0 _ 0 lo hi lo1 hi1 h1 p (by
          intro k b hh hk hpk
          have := hpa k (by simpa using hpk)
          simpa [memberPin, hk] using this)
        have f2 := applyDerPins_frame I m0 noms _ 0 lo1 hi1 lo2 hi2 sym sym2 h2 p (by
          intro k hk
          rw [zip_pad_length] at hk
          simpa using hpb k hk)
        obtain ⟨f3a, f3b⟩ := ih (m0 + 1) lo2 hi2 sym2 h (by
          intro m' h1' h2'; exact hp m' (by omega) (by omega))
        exact ⟨by rw [f3a, f2.1, f1.1], by rw [f3b, f2.2, f1.2]⟩

/-- control entries are the same for every member -/
theorem pinIndex_ctrl_shared (I : Inst) (m m' k : Nat) (hk : ¬ k < I.states.length + I.algs.length) :
    pinIndex I m k = pinIndex I m' k := by
  simp [pinIndex, hk]

theorem pinVars_length (I : Inst) :
    (pinVars I).length = I.states.length + I.algs.length + I.controls.length := by
  simp [pinVars]; omega

/-- entries of different controls are different entries -/
theorem pinIndex_ctrl_ne (I : Inst) (hne : NonEmpty I) (m m' k k' : Nat)
    (hk : ¬ k < I.states.length + I.algs.length) (hk' : ¬ k' < I.states.length + I.algs.length)
    (hlt : k < k') (hl : k' < (pinVars I).length) : pinIndex I m k ≠ pinIndex I m' k' := by
  simp only [pinIndex, hk, hk', if_false]
  rw [pinVars_length] at hl
  set ns := I.states.length + I.algs.length
  have hj : k - ns < I.controls.length := by omega
  obtain ⟨b, hb⟩ : ∃ b, I.controls[k - ns]? = some b := ⟨_, List.getElem?_eq_getElem hj⟩
  have hpos := hne.2 b (List.mem_of_getElem? hb)
  have := offsetOf_lt_slots I.controls (k - ns) (k' - ns) b hb (by omega)
  omega

/-- a control entry is never an entry of a state-pass slot -/
theorem pinIndex_ctrl_ne_slot (I : Inst) (hne : NonEmpty I) (m m' k j : Nat)
    (hk : ¬ k < I.states.length + I.algs.length) (hl : k < (pinVars I).length) :
    pinIndex I m k ≠ slotStart I m' j := by
  have := pinIndex_ctrl_lt I hne m k hk hl
  unfold slotStart
  omega


theorem memberPin_out_of_range (I : Inst) (m k : Nat) (h : ¬ k < (pinVars I).length) :
    memberPin I m k = some none := by
  unfold memberPin
  have : ((pinVars I).zip (histOf I m ++ List.replicate (pinVars I).length none))[k]? = none := by
    rw [List.getElem?_eq_none_iff, zip_pad_length]; omega
  rw [this]

/-- a member that has no value for control `k` writes nothing to that control's first entry -/
theorem ctrl_nowrite (I : Inst) (hne : NonEmpty I) (m m' k : Nat)
    (hk : ¬ k < I.states.length + I.algs.length) (hl : k < (pinVars I).length)
    (hnone : memberPin I m' k = some none) :
    (∀ k'', pinIndex I m k = pinIndex I m' k'' → memberPin I m' k'' = some none) ∧
    (∀ i, i < I.states.length → pinIndex I m k ≠ derIndex I m' i) := by
  constructor
  · intro k'' heq
    by_cases hl'' : k'' < (pinVars I).length
    · by_cases hs : k'' < I.states.length + I.algs.length
      · rw [pinIndex_state I m' k'' hs] at heq
        exact absurd heq (pinIndex_ctrl_ne_slot I hne m m' k k'' hk hl)
      · rcases Nat.lt_trichotomy k k'' with h | h | h
        · exact absurd heq (pinIndex_ctrl_ne I hne m m' k k'' hk hs h hl'')
        · rw [← h]; exact hnone
        · exact absurd heq.symm (pinIndex_ctrl_ne I hne m' m k'' k hs hk h hl)
    · exact memberPin_out_of_range I m' k'' hl''
  · intro i _
    rw [derIndex_eq]
    exact pinIndex_ctrl_ne_slot I hne m m' k _ hk hl


theorem transcribe_unfold (I : Inst) (r : Result) (h : transcribeBounds I = some r) :
    ∃ noms lo hi, boxArr true I = some lo ∧ boxArr false I = some hi ∧
      pinMembers I noms I.E 0 (lo, hi, []) = some (r.lbx, r.ubx, r.symbolic) ∧ r.derNoms = noms := by
  unfold transcribeBounds at h
  cases hn : (I.states.zip (histOf I 0 ++ List.replicate I.states.length none)).mapM
      (fun p => derNominal p.1 p.2) with
  | none => simp [hn] at h
  | some noms =>
    cases hlo : boxArr true I with
    | none => simp [hn, hlo] at h
    | some lo =>
      cases hhi : boxArr false I with
      | none => simp [hn, hlo, hhi] at h
      | some hi =>
        cases hres : pinMembers I noms I.E 0 (lo, hi, []) with
        | none => simp [hn, hlo, hhi, hres] at h
        | some res =>
          obtain ⟨lo', hi', sym'⟩ := res
          simp [hn, hlo, hhi, hres] at h
          subst h
          exact ⟨noms, lo, hi, rfl, rfl, hres, rfl⟩


end RtcVerif.C05
