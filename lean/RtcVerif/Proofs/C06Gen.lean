import RtcVerif.Proofs.C06Lemmas
/-!
# C06 — bridging lemmas between the NumPy / CasADi-level primitives emitted by the source
translator (`harness/translate_c06.py`, `Gen/UserRows.lean`) and the model of `Model/C06.lean`
-/
namespace RtcVerif.C06
open RtcVerif RtcVerif.Interp

/-- the row / column slice of the mapped output written with explicit ends is the model's slice,
    when the column range covers all mapped columns -/
theorem vecRange_eq_vecSlice (lo hi c1 a len : Nat) (cols : List (List Rat))
    (h1 : lo = a) (h2 : hi - lo = len) (hc : cols.length ≤ c1) :
    vecRange lo hi 0 c1 cols = vecSlice a len cols := by
  subst h1 h2
  simp [vecRange, vecSlice, List.take_of_length_le hc]

theorem sequence_length : ∀ (l : List Out) (row : List XVal), sequence l = some row →
    row.length = l.length := fun l row h => (sequence_some_getD l row h).1

theorem interpArray_length (mode : Nat) (ks : Knots) (fl fr : Fill) (ts : List Rat) (row : List XVal)
    (h : interpArray mode ks fl fr ts = some row) : row.length = ts.length := by
  unfold interpArray at h
  split at h
  · simp at h
  · split at h
    · rename_i heq
      simp only [Option.some.injEq] at h
      subst h
      rw [heq]
      simp
    · simpa using sequence_length _ row h

theorem transpose_replicate_rows (s n : Nat) (vs : List XVal) (h : vs.length = s) :
    (List.range s).map (fun j => (List.replicate n vs).map (fun row => row.getD j .nan))
      = vs.map (fun v => List.replicate n v) := by
  subst h
  apply List.ext_getElem
  · simp
  · intro i h1 h2
    simp only [List.length_map, List.length_range] at h1
    simp [List.map_replicate, List.getD_eq_getElem?_getD, h1]

theorem transpose_replicate_const (s n : Nat) (v : XVal) :
    (List.range s).map (fun j => (List.replicate n (List.replicate s v)).map (fun row => row.getD j .nan))
      = List.replicate s (List.replicate n v) := by
  apply List.ext_getElem
  · simp
  · intro i h1 h2
    simp only [List.length_map, List.length_range] at h1
    simp [List.map_replicate, List.getD_eq_getElem?_getD, h1]

/-- scalar bound: the assignment broadcasts it over the block -/
theorem gen_block_scalar (s : Nat) (times : List Rat) (fill : XVal) (v : XVal) :
    npAssignRows s times.length (some (.sc v)) = pathBlock s times fill (.scalar v) := rfl

/-- array bound: `np.broadcast_to(b, (n, s)).transpose()` assigned to the block -/
theorem gen_block_vec (s : Nat) (times : List Rat) (fill : XVal) (vs : List XVal) :
    npAssignRows s times.length (npTranspose (npBroadcastTo times.length s (some (.d1 vs))))
      = pathBlock s times fill (.vec vs) := by
  by_cases h : vs.length = s
  · have e : npBroadcastTo times.length s (some (.d1 vs))
        = some (.d2 times.length s (List.replicate times.length vs)) := by
      simp [npBroadcastTo, h]
    rw [e]
    simp only [npTranspose, npAssignRows, transpose_replicate_rows s times.length vs h, pathBlock, h]
    simp
  · by_cases h1 : vs.length = 1
    · have hs : ¬ (1 = s) := fun e => h (h1.trans e)
      have e : npBroadcastTo times.length s (some (.d1 vs))
          = some (.d2 times.length s (List.replicate times.length (List.replicate s (vs.getD 0 .nan)))) := by
        simp [npBroadcastTo, h1, hs]
      rw [e]
      simp only [npTranspose, npAssignRows, transpose_replicate_const, pathBlock, h1]
      simp [hs]
    · simp [npBroadcastTo, pathBlock, h, h1, npTranspose, npAssignRows]

/-- Timeseries bound with 1-D values -/
theorem gen_block_ts1 (s : Nat) (times : List Rat) (fill : XVal) (ts vals : List Rat) :
    npAssignRows s times.length (npInterpT times fill (.ts1 ts vals))
      = pathBlock s times fill (.ts1 ts vals) := by
  simp only [npInterpT, pathBlock]
  cases h : interpArray 0 (ts.zip vals) (some fill) (some fill) times with
  | none => simp [npAssignRows]
  | some row =>
    simp [npAssignRows, interpArray_length _ _ _ _ _ _ h]

/-- Timeseries bound with 2-D values -/
theorem gen_block_ts2 (s : Nat) (times : List Rat) (fill : XVal) (ts : List Rat) (cols : List (List Rat)) :
    npAssignRows s times.length (npInterpT times fill (.ts2 ts cols))
      = pathBlock s times fill (.ts2 ts cols) := by
  simp only [npInterpT, pathBlock]
  cases h : interpColumns 0 (cols.map (fun c => ts.zip c)) (some fill) (some fill) times with
  | none => simp [npAssignRows]
  | some rows => simp [npAssignRows]

/-! ## point constraints -/

/-- both bounds of one constraint, or the exception of either -/
def optPair {α β : Type} : Option α → Option β → Option (α × β)
  | some a, some b => some (a, b)
  | _, _ => none

/-- the point-constraint rows assembled from any per-constraint bound function that agrees with
    `pointBound` on both sides -/
theorem pointRows_of_pairs (F : PointCon → Option (List XVal × List XVal))
    (hF : ∀ p, F p = optPair (pointBound p.g.length p.lb) (pointBound p.g.length p.ub)) :
    ∀ (pts : List PointCon),
      (mapMOpt F pts).map (fun bs => (⟨(pts.map (·.g)).flatten, (bs.map (·.1)).flatten, (bs.map (·.2)).flatten⟩ : Rows))
        = pointRows pts
  | [] => by simp [mapMOpt, pointRows]
  | p :: pts => by
    have ih := pointRows_of_pairs F hF pts
    unfold pointRows at ih ⊢
    simp only [mapMOpt, hF p]
    cases h1 : pointBound p.g.length p.lb <;> cases h2 : pointBound p.g.length p.ub <;>
      cases h3 : mapMOpt F pts <;>
      cases h4 : mapMOpt (fun p => pointBound p.g.length p.lb) pts <;>
      cases h5 : mapMOpt (fun p => pointBound p.g.length p.ub) pts <;>
      simp_all [optPair]

/-! ## path constraints -/

theorem pathRows_of_blocks (nd nj R n : Nat) (times : List Rat) (me : MemberEval)
    (FL FU : PathCon → Option (List (List XVal)))
    (hL : ∀ c, FL c = pathBlock c.size times .ninf c.lb)
    (hU : ∀ c, FU c = pathBlock c.size times .pinf c.ub)
    (g : List Rat) (hg : g = me.initG ++ vecSlice (nd + nj) R me.cols) (hn : n = times.length) :
    (if me.paths.isEmpty then some (⟨[], [], []⟩ : Rows) else
      match stackRavel n (mapMOpt FL me.paths), stackRavel n (mapMOpt FU me.paths) with
      | some l, some u => some ⟨g, l, u⟩
      | _, _ => none) = pathRows nd nj R times me := by
  subst hn hg
  have eL : FL = fun c => pathBlock c.size times .ninf c.lb := funext hL
  have eU : FU = fun c => pathBlock c.size times .pinf c.ub := funext hU
  subst eL eU
  unfold pathRows pathBoundMatrix stackRavel
  simp only [if_true, Bool.false_eq_true, if_false]
  split
  · rfl
  · cases mapMOpt (fun c : PathCon => pathBlock c.size times .ninf c.lb) me.paths <;>
      cases mapMOpt (fun c : PathCon => pathBlock c.size times .pinf c.ub) me.paths <;> rfl

end RtcVerif.C06
