import RtcVerif.Model.C06
import RtcVerif.Props.C19
import Mathlib.Algebra.Order.Field.Rat
import Mathlib.Tactic.Ring
import Mathlib.Data.List.Basic
/-!
Helper lemmas for `Props/C06.lean`: sums, slices of the mapped output, bound blocks.
-/
namespace RtcVerif.C06
open RtcVerif RtcVerif.Interp

/-! ## sums -/

theorem sumList_append (a b : List Rat) : sumList (a ++ b) = sumList a + sumList b := by
  induction a with
  | nil => simp [sumList]
  | cons x xs ih => simp [sumList, ih]; ring

theorem sumList_map_range_succ (f : Nat → Rat) (n : Nat) :
    sumList ((List.range (n + 1)).map f) = f 0 + sumList ((List.range n).map (fun i => f (i + 1))) := by
  rw [List.range_succ_eq_map]
  simp [sumList, List.map_map, Function.comp_def]

theorem sumList_flatMap_singleton (f : Nat → Rat) (l : List Nat) :
    sumList (l.flatMap (fun i => [f i])) = sumList (l.map f) := by
  induction l with
  | nil => rfl
  | cons x xs ih => simp [sumList, ih]

/-! ## slices of the mapped output -/

theorem slice_jpath (nd nj : Nat) (dae jp g dl : List Rat) (h1 : dae.length = nd) (h2 : jp.length = nj) :
    ((stepColumn dae jp g dl).drop nd).take nj = jp := by
  unfold stepColumn
  rw [List.append_assoc, List.append_assoc, List.drop_left' h1, List.take_left' h2]

theorem slice_gpath (nd nj R : Nat) (dae jp g dl : List Rat) (h1 : dae.length = nd)
    (h2 : jp.length = nj) (h3 : g.length = R) :
    ((stepColumn dae jp g dl).drop (nd + nj)).take R = g := by
  unfold stepColumn
  have : (dae ++ jp).length = nd + nj := by simp [h1, h2]
  rw [List.append_assoc (dae ++ jp), List.drop_left' this, List.take_left' h3]

theorem vecSlice_jpath (nd nj k : Nat) (dae jp g dl : Nat → List Rat)
    (h1 : ∀ i, (dae i).length = nd) (h2 : ∀ i, (jp i).length = nj) :
    vecSlice nd nj ((List.range k).map (fun i => stepColumn (dae i) (jp i) (g i) (dl i)))
      = (List.range k).flatMap jp := by
  unfold vecSlice
  rw [List.flatMap_map]
  apply List.flatMap_congr
  intro i _
  exact slice_jpath nd nj _ _ _ _ (h1 i) (h2 i)

theorem vecSlice_gpath (nd nj R k : Nat) (dae jp g dl : Nat → List Rat)
    (h1 : ∀ i, (dae i).length = nd) (h2 : ∀ i, (jp i).length = nj) (h3 : ∀ i, (g i).length = R) :
    vecSlice (nd + nj) R ((List.range k).map (fun i => stepColumn (dae i) (jp i) (g i) (dl i)))
      = (List.range k).flatMap g := by
  unfold vecSlice
  rw [List.flatMap_map]
  apply List.flatMap_congr
  intro i _
  exact slice_gpath nd nj R _ _ _ _ (h1 i) (h2 i) (h3 i)

/-- the `t0` instance followed by the mapped instances is one instance per time index -/
theorem init_append_steps {α : Type} (f : Nat → List α) (n : Nat) (hn : 1 ≤ n) :
    f 0 ++ (List.range (n - 1)).flatMap (fun i => f (i + 1)) = (List.range n).flatMap f := by
  obtain ⟨k, rfl⟩ : ∃ k, n = k + 1 := ⟨n - 1, by omega⟩
  rw [List.range_succ_eq_map]
  simp [List.flatMap_map]

/-! ## bounds -/

/-- well-formed bound: a Timeseries has strictly increasing, non-empty time stamps -/
def UBound.WF : UBound → Prop
  | .ts1 ts vals => Sorted (ts.zip vals) ∧ ts.zip vals ≠ []
  | .ts2 ts cols => ∀ c ∈ cols, Sorted (ts.zip c) ∧ ts.zip c ≠ []
  | _ => True

theorem sequence_some_getD : ∀ (l : List Out) (row : List XVal), sequence l = some row →
    row.length = l.length ∧ ∀ i, i < l.length → l.getD i .raise = .val (row.getD i .nan)
  | [], row, h => by
    simp [sequence] at h
    subst h
    simp
  | .raise :: l, row, h => by simp [sequence] at h
  | .val v :: l, row, h => by
    simp only [sequence, Option.map_eq_some_iff] at h
    obtain ⟨r, hr, rfl⟩ := h
    obtain ⟨h1, h2⟩ := sequence_some_getD l r hr
    refine ⟨by simp [h1], ?_⟩
    intro i hi
    cases i with
    | zero => simp
    | succ i =>
      simp only [List.length_cons] at hi
      simpa using h2 i (by omega)

theorem interpArray_getD (ks : Knots) (hs : Sorted ks) (hne : ks ≠ []) (fl fr : Fill)
    (times : List Rat) (row : List XVal) (h : interpArray 0 ks fl fr times = some row) :
    row.length = times.length ∧
    ∀ i, i < times.length → interpCore 0 ks fl fr (times.getD i 0) = .val (row.getD i .nan) := by
  rw [RtcVerif.C19.interp_array_early_exit_agrees 0 (by omega) ks hs hne] at h
  obtain ⟨h1, h2⟩ := sequence_some_getD _ row h
  refine ⟨by simpa using h1, ?_⟩
  intro i hi
  have := h2 i (by simpa using hi)
  rw [← this]
  simp [List.getD_eq_getElem?_getD, hi]

theorem mapMOpt_some {α β : Type} (f : α → Option β) : ∀ (l : List α) (bs : List β),
    mapMOpt f l = some bs → List.Forall₂ (fun a b => f a = some b) l bs
  | [], bs, h => by
    simp [mapMOpt] at h
    subst h
    exact List.Forall₂.nil
  | a :: l, bs, h => by
    unfold mapMOpt at h
    cases ha : f a with
    | none => simp [ha] at h
    | some b =>
      cases hl : mapMOpt f l with
      | none => simp [ha, hl] at h
      | some bs' =>
        simp [ha, hl] at h
        subst h
        exact List.Forall₂.cons ha (mapMOpt_some f l bs' hl)

theorem mapM_forall₂ {α β : Type} (f : α → Option β) : ∀ (l : List α) (bs : List β),
    l.mapM f = some bs → List.Forall₂ (fun a b => f a = some b) l bs
  | [], bs, h => by
    simp at h
    subst h
    exact List.Forall₂.nil
  | a :: l, bs, h => by
    simp only [List.mapM_cons, Option.bind_eq_bind, Option.pure_def] at h
    cases ha : f a with
    | none => simp [ha] at h
    | some b =>
      cases hl : l.mapM f with
      | none => simp [ha, hl] at h
      | some bs' =>
        simp [ha, hl] at h
        subst h
        exact List.Forall₂.cons ha (mapM_forall₂ f l bs' hl)

theorem map_getD_replicate (s n i : Nat) (v : XVal) (hi : i < n) :
    (List.replicate s (List.replicate n v)).map (fun row => row.getD i .nan) = List.replicate s v := by
  simp [List.map_replicate, List.getD_eq_getElem?_getD, hi]

theorem range_map_const (s : Nat) (v : XVal) : (List.range s).map (fun _ => v) = List.replicate s v := by
  induction s with
  | zero => rfl
  | succ s ih => rw [List.range_succ, List.map_append, ih]; simp [List.replicate_succ']

/-- **column `i` of a bound block** is the documented bound of every row at time index `i` -/
theorem pathBlock_col (s : Nat) (times : List Rat) (fill : XVal) (b : UBound) (M : List (List XVal))
    (h : pathBlock s times fill b = some M) (hwf : b.WF) (i : Nat) (hi : i < times.length) :
    M.map (fun row => row.getD i .nan) = (List.range s).map (fun r => boundAt times fill b r i) := by
  cases b with
  | scalar v =>
    simp only [pathBlock, Option.some.injEq] at h
    subst h
    rw [map_getD_replicate s _ i v hi]
    simp only [boundAt]
    exact (range_map_const s v).symm
  | vec vs =>
    simp only [pathBlock] at h
    split at h
    · rename_i hlen
      simp only [Option.some.injEq] at h
      subst h
      rw [List.map_map]
      apply List.ext_getElem
      · simp [hlen]
      · intro r h1 h2
        simp only [List.getElem_map, Function.comp, List.getElem_range, boundAt]
        have hr : r < vs.length := by simpa using h1
        split
        · rename_i h1len
          have : r = 0 := by omega
          subst this
          simp [List.getD_eq_getElem?_getD, hi, hr]
        · simp [List.getD_eq_getElem?_getD, hi, hr]
    · split at h
      · rename_i hne h1len
        simp only [Option.some.injEq] at h
        subst h
        rw [map_getD_replicate s _ i _ hi]
        simp only [boundAt, h1len, if_true]
        exact (range_map_const s _).symm
      · cases h
  | ts1 ts vals =>
    simp only [pathBlock, Option.map_eq_some_iff] at h
    obtain ⟨row, hrow, rfl⟩ := h
    obtain ⟨_, hget⟩ := interpArray_getD (ts.zip vals) hwf.1 hwf.2 _ _ times row hrow
    simp only [List.map_replicate, boundAt, hget i hi]
    exact (range_map_const s _).symm
  | ts2 ts cols =>
    simp only [pathBlock] at h
    cases hc : interpColumns 0 (cols.map (fun c => ts.zip c)) (some fill) (some fill) times with
    | none => simp [hc] at h
    | some rows =>
      simp only [hc] at h
      obtain ⟨hlen, hcol⟩ := RtcVerif.C19.interp_columnwise 0 _ _ _ times rows hc
      simp only [List.length_map] at hlen
      have hrow : ∀ r (hr : r < cols.length),
          interpCore 0 (ts.zip cols[r]) (some fill) (some fill) (times.getD i 0)
            = .val ((rows.getD r []).getD i .nan) := by
        intro r hr
        have h1 := hcol r (by simpa using hr)
        simp only [List.getElem_map] at h1
        have hrr : r < rows.length := by omega
        rw [List.getElem?_eq_getElem hrr] at h1
        have hw := hwf cols[r] (List.getElem_mem hr)
        obtain ⟨_, hget⟩ := interpArray_getD (ts.zip cols[r]) hw.1 hw.2 _ _ times rows[r] h1.symm
        rw [hget i hi]
        simp [List.getD_eq_getElem?_getD, hrr]
      split at h
      · rename_i hs
        simp only [Option.some.injEq] at h
        subst h
        apply List.ext_getElem
        · simp [hs]
        · intro r h1 h2
          have hr : r < rows.length := by rw [List.length_map] at h1; exact h1
          have hrc : r < cols.length := by omega
          simp only [List.getElem_map, List.getElem_range]
          by_cases h1len : cols.length = 1
          · have : r = 0 := by omega
            subst this
            have := hrow 0 hrc
            simp only [boundAt, h1len, if_true]
            rw [List.getD_eq_getElem?_getD (l := cols), List.getElem?_eq_getElem hrc, Option.getD_some, this]
            simp [List.getD_eq_getElem?_getD, List.getElem?_eq_getElem hr]
          · have := hrow r hrc
            simp only [boundAt, h1len, if_false]
            rw [List.getD_eq_getElem?_getD (l := cols), List.getElem?_eq_getElem hrc, Option.getD_some, this]
            simp [List.getD_eq_getElem?_getD, List.getElem?_eq_getElem hr]
      · split at h
        · rename_i hne h1len
          simp only [Option.some.injEq] at h
          subst h
          have hc1 : cols.length = 1 := by omega
          have h0 := hrow 0 (by omega)
          simp only [List.map_replicate, boundAt, hc1, if_true]
          rw [List.getD_eq_getElem?_getD (l := cols),
            List.getElem?_eq_getElem (show 0 < cols.length by omega), Option.getD_some, h0]
          exact (range_map_const s _).symm
        · cases h

/-- the rows of a block: as many as the constraint has -/
theorem pathBlock_length (s : Nat) (times : List Rat) (fill : XVal) (b : UBound) (M : List (List XVal))
    (h : pathBlock s times fill b = some M) : M.length = s := by
  cases b with
  | scalar v => simp only [pathBlock, Option.some.injEq] at h; subst h; simp
  | vec vs =>
    simp only [pathBlock] at h
    split at h
    · rename_i hl; simp only [Option.some.injEq] at h; subst h; simp [hl]
    · split at h
      · simp only [Option.some.injEq] at h; subst h; simp
      · cases h
  | ts1 ts vals =>
    simp only [pathBlock, Option.map_eq_some_iff] at h
    obtain ⟨row, _, rfl⟩ := h
    simp
  | ts2 ts cols =>
    simp only [pathBlock] at h
    cases hc : interpColumns 0 (cols.map (fun c => ts.zip c)) (some fill) (some fill) times with
    | none => simp [hc] at h
    | some rows =>
      simp only [hc] at h
      split at h
      · rename_i hs; simp only [Option.some.injEq] at h; subst h; exact hs
      · split at h
        · simp only [Option.some.injEq] at h; subst h; simp
        · cases h

/-- the time-major ravel of the stacked bound matrix is, per time index, the documented column -/
theorem pathBoundMatrix_ravel (times : List Rat) (lower : Bool) (cs : List PathCon)
    (M : List (List XVal)) (h : pathBoundMatrix times lower cs = some M)
    (hwf : ∀ c ∈ cs, (if lower then c.lb else c.ub).WF) :
    ravelT times.length M = (List.range times.length).flatMap (pathBoundCol times lower cs) := by
  unfold pathBoundMatrix at h
  simp only [Option.map_eq_some_iff] at h
  obtain ⟨blocks, hb, rfl⟩ := h
  have hf := mapMOpt_some _ cs blocks hb
  unfold ravelT
  apply List.flatMap_congr
  intro i hi
  have hi' : i < times.length := by simpa using hi
  unfold pathBoundCol
  rw [List.map_flatten]
  clear hb
  induction hf with
  | nil => rfl
  | @cons c blk cs' blocks' hc _ ih =>
    simp only [List.map_cons, List.flatten_cons, List.flatMap_cons]
    rw [ih (fun c' hc' => hwf c' (List.mem_cons_of_mem _ hc'))]
    congr 1
    exact pathBlock_col c.size times _ _ blk hc (hwf c (List.mem_cons_self)) i hi'

theorem pointBound_spec (s : Nat) (b : UBound) (l : List XVal) (h : pointBound s b = some l)
    (hs : 1 ≤ s) (hok : b.pointOk s) : l = (List.range s).map (pointBoundAt b) := by
  cases b with
  | scalar v =>
    simp only [pointBound, Option.some.injEq] at h
    subst h
    have hfun : pointBoundAt (.scalar v) = fun _ => v := by funext r; rfl
    rw [hfun]
    split
    · exact (range_map_const s v).symm
    · have : s = 1 := by omega
      subst this
      rfl
  | vec vs =>
    simp only [pointBound] at h
    simp only [UBound.pointOk] at hok
    split at h
    · rename_i hs1
      split at h
      · rename_i h1
        simp only [Option.some.injEq] at h
        subst h
        have hfun : pointBoundAt (.vec vs) = fun _ => vs.getD 0 .nan := by
          funext r; simp [pointBoundAt, h1]
        rw [hfun]
        exact (range_map_const s _).symm
      · rename_i h1
        split at h
        · cases h
        · rename_i hlen
          simp only [Option.some.injEq] at h
          subst h
          have hlen' : vs.length = s := by simpa using hlen
          apply List.ext_getElem
          · simp [hlen']
          · intro r h1' h2'
            simp [pointBoundAt, h1, List.getD_eq_getElem?_getD, h1']
    · rename_i hs1
      simp only [Option.some.injEq] at h
      subst h
      have h1 : vs.length = 1 := by
        rcases hok with hok | hok
        · omega
        · exact hok
      have : s = 1 := by omega
      subst this
      match vs, h1 with
      | [v], _ => simp [pointBoundAt]
  | ts1 _ _ => simp [UBound.pointOk] at hok
  | ts2 _ _ => simp [UBound.pointOk] at hok

theorem pointBounds_flatten (pts : List PointCon) (side : PointCon → UBound) (bs : List (List XVal))
    (h : mapMOpt (fun p => pointBound p.g.length (side p)) pts = some bs)
    (hok : ∀ p ∈ pts, 1 ≤ p.g.length ∧ (side p).pointOk p.g.length) :
    bs.flatten = pts.flatMap (fun p => (List.range p.g.length).map (pointBoundAt (side p))) := by
  have hf := mapMOpt_some _ pts bs h
  clear h
  induction hf with
  | nil => rfl
  | @cons p b pts' bs' hp _ ih =>
    simp only [List.flatten_cons, List.flatMap_cons]
    rw [ih (fun p' hp' => hok p' (List.mem_cons_of_mem _ hp'))]
    congr 1
    exact pointBound_spec _ _ b hp (hok p (List.mem_cons_self)).1 (hok p (List.mem_cons_self)).2

theorem mapMOpt_none {α β : Type} (f : α → Option β) : ∀ (l : List α) (a : α), a ∈ l → f a = none →
    mapMOpt f l = none
  | [], a, h, _ => by simp at h
  | x :: l, a, h, hn => by
    unfold mapMOpt
    rcases List.mem_cons.1 h with rfl | h
    · rw [hn]
    · rw [mapMOpt_none f l a h hn]
      cases f x <;> rfl

/-- element of a concatenation of equal-length blocks -/
theorem flatMap_range_getD {α : Type} (f : Nat → List α) (r : Nat) (d : α) (hlen : ∀ v, (f v).length = r) :
    ∀ (k j i : Nat), j < k → i < r →
      ((List.range k).flatMap f).getD (j * r + i) d = (f j).getD i d := by
  intro k
  induction k with
  | zero => intro j i hj; omega
  | succ k ih =>
    intro j i hj hi
    rw [List.range_succ, List.flatMap_append]
    have hl : ((List.range k).flatMap f).length = k * r := by
      clear ih hj
      induction k with
      | zero => simp
      | succ k ih2 => rw [List.range_succ, List.flatMap_append, List.length_append, ih2]; simp [hlen]; ring
    by_cases hjk : j < k
    · have hlt : j * r + i < ((List.range k).flatMap f).length := by
        rw [hl]; calc j * r + i < j * r + r := by omega
          _ = (j + 1) * r := by ring
          _ ≤ k * r := Nat.mul_le_mul_right r hjk
      rw [show ∀ (l1 l2 : List α) (n : Nat), n < l1.length → (l1 ++ l2).getD n d = l1.getD n d from
        fun l1 l2 n h => by simp [List.getD_eq_getElem?_getD, List.getElem?_append_left h]]
      · exact ih j i hjk hi
      · exact hlt
    · have hjeq : j = k := by omega
      subst hjeq
      have hge : ((List.range j).flatMap f).length ≤ j * r + i := by rw [hl]; omega
      rw [show ∀ (l1 l2 : List α) (n : Nat), l1.length ≤ n → (l1 ++ l2).getD n d = l2.getD (n - l1.length) d from
        fun l1 l2 n h => by simp [List.getD_eq_getElem?_getD, List.getElem?_append_right h]]
      · rw [hl]; simp
      · exact hge

end RtcVerif.C06
