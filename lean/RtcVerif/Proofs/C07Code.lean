import RtcVerif.Model.C07Code
import RtcVerif.Proofs.C07Lemmas
import Mathlib.Algebra.Order.Field.Rat
import Mathlib.Tactic.Linarith
import Mathlib.Tactic.Ring
import Mathlib.Data.List.Basic
import Mathlib.Data.List.Induction
/-!
# C07 — the reference definitions of `Model/C07Code.lean` against the model of `Model/C07.lean`

* distance fill: `fillEntryRef` (positions, `+=` over the forecast variables) is the table
  `distSpec` in member ids; `distSpec` is a pseudo-metric when the per-variable norms are;
* base class: the member loop with the cached slice is `flatIdx .shared` / `flatAlloc .shared`;
* control tree: one call of `discretize_control` is one round of the model's allocator requests
  (`reqAll st (memberReqs c ts m)`), the array it returns is `treeIdx`-shaped.
-/
namespace RtcVerif.C07

/-! ## windows -/

theorem winRef_eq_inSeg (t0 : Rat) (bts : List Rat) (L : Nat) (hL : L ≤ bts.length) (t : Rat) :
    winRef t0 bts L (L + 1) t = inSeg t0 bts L t := by
  unfold winRef inSeg
  congr 1
  · cases L with
    | zero =>
      simp only [btAt, geBT, segLo]
      exact decide_eq_decide.2 Iff.rfl
    | succ L =>
      have hlt : L < bts.length := by omega
      simp [btAt, geBT, segLo, List.getD_eq_getElem?_getD, List.getElem?_eq_getElem hlt]
  · simp only [btAt]
    cases bts[L]? <;> simp [ltBT]

/-! ## distance fill -/

theorem foldl_add_eq_sum (f : Nat → Rat) : ∀ (l : List Nat) (z : Rat),
    l.foldl (fun acc v => acc + f v) z = z + (l.map f).sum
  | [], z => by simp
  | a :: l, z => by
    simp only [List.foldl_cons, List.map_cons, List.sum_cons]
    rw [foldl_add_eq_sum f l]
    ring

theorem getD_idxOf (ms : List Nat) (a : Nat) (h : a ∈ ms) : ms.getD (ms.idxOf a) 0 = a := by
  have hlt : ms.idxOf a < ms.length := List.idxOf_lt_length_iff.2 h
  simp [List.getD_eq_getElem?_getD, List.getElem?_eq_getElem hlt]

/-- the filled table, read through the reverse map (`distances[reverse[a], reverse[b]]`), is the
    sum over the forecast variables of the norms of members `a` and `b` on the deciding window -/
theorem fillEntryRef_eq_distSpec (fc : Forecasts) (t0 : Rat) (bts : List Rat) (nv L : Nat)
    (ms : List Nat) (a b : Nat) (ha : a ∈ ms) (hb : b ∈ ms) :
    fillEntryRef fc t0 bts nv L ms (ms.idxOf a) (ms.idxOf b) = distSpec fc t0 bts nv L a b := by
  unfold fillEntryRef distSpec
  rw [foldl_add_eq_sum, getD_idxOf ms a ha, getD_idxOf ms b hb]
  simp

/-- what is assumed of the external norm, per forecast variable: a pseudo-metric on members -/
structure PairNormOK (N : Nat → Nat → Nat → Rat) : Prop where
  nonneg : ∀ v a b, 0 ≤ N v a b
  symm : ∀ v a b, N v a b = N v b a
  tri : ∀ v a b c, N v a c ≤ N v a b + N v b c

theorem sum_map_nonneg (f : Nat → Rat) : ∀ (l : List Nat), (∀ v, 0 ≤ f v) → 0 ≤ (l.map f).sum
  | [], _ => by simp
  | a :: l, h => by
    simp only [List.map_cons, List.sum_cons]
    have := sum_map_nonneg f l h
    have := h a
    linarith

theorem sum_map_le (f g : Nat → Rat) : ∀ (l : List Nat), (∀ v, f v ≤ g v) →
    (l.map f).sum ≤ (l.map g).sum
  | [], _ => by simp
  | a :: l, h => by
    simp only [List.map_cons, List.sum_cons]
    have := sum_map_le f g l h
    have := h a
    linarith

theorem sum_map_add (f g : Nat → Rat) : ∀ (l : List Nat),
    (l.map (fun v => f v + g v)).sum = (l.map f).sum + (l.map g).sum
  | [] => by simp
  | a :: l => by
    simp only [List.map_cons, List.sum_cons]
    rw [sum_map_add f g l]
    ring

theorem sum_map_zero (f : Nat → Rat) : ∀ (l : List Nat), (∀ v ∈ l, f v = 0) → (l.map f).sum = 0
  | [], _ => by simp
  | a :: l, h => by
    simp only [List.map_cons, List.sum_cons]
    rw [sum_map_zero f l (fun v hv => h v (List.mem_cons_of_mem _ hv)), h a List.mem_cons_self]
    ring

/-- the table of a level is a pseudo-metric when the per-variable norms are -/
theorem distSpec_pseudometric (fc : Forecasts) (t0 : Rat) (bts : List Rat) (nv L : Nat)
    (hN : PairNormOK (fun v a b => pairNorm fc t0 bts 0 (L + 1) (L + 2) v a b)) :
    (∀ x y, distSpec fc t0 bts nv L x y = distSpec fc t0 bts nv L y x) ∧
    (∀ x y, 0 ≤ distSpec fc t0 bts nv L x y) ∧
    (∀ x y z, distSpec fc t0 bts nv L x z ≤ distSpec fc t0 bts nv L x y + distSpec fc t0 bts nv L y z) := by
  refine ⟨?_, ?_, ?_⟩
  · intro x y
    unfold distSpec
    congr 1
    apply List.map_congr_left
    intro v _
    exact hN.symm v x y
  · intro x y
    exact sum_map_nonneg _ _ (fun v => hN.nonneg v x y)
  · intro x y z
    unfold distSpec
    rw [← sum_map_add]
    exact sum_map_le _ _ _ (fun v => hN.tri v x y z)

theorem subVec_self_zero : ∀ (l : List Rat), ∀ x ∈ subVec l l, x = 0
  | [], x, h => by simp [subVec] at h
  | a :: l, x, h => by
    simp only [subVec, List.mem_cons] at h
    rcases h with rfl | h
    · ring
    · exact subVec_self_zero l x h

/-- identical forecast values of two members on every forecast variable give distance 0 -/
theorem distSpec_zero_of_identical (fc : Forecasts) (t0 : Rat) (bts : List Rat) (nv L a b : Nat)
    (hz : ∀ l : List Rat, (∀ x ∈ l, x = 0) → fc.norm2 l = 0)
    (hF : ∀ v, v < nv → fc.F v a = fc.F v b) : distSpec fc t0 bts nv L a b = 0 := by
  unfold distSpec
  apply sum_map_zero
  intro v hv
  unfold pairNorm
  rw [hF v (List.mem_range.1 hv)]
  exact hz _ (subVec_self_zero _)

/-! ## base class: all members share the slice -/

theorem foldl_ctrlStep_eq {R C : Type} (dc : Nat → Nat → C → R × C) (stop : R → Nat) :
    ∀ (ms : List Nat) (st : Nat × C × List R),
    ms.foldl (ctrlStepRef dc stop) st = ctrlLoopRef dc stop ms st
  | [], st => rfl
  | m :: ms, (count, cache, out) => by
    simp only [List.foldl_cons, ctrlLoopRef]
    exact foldl_ctrlStep_eq dc stop ms _

theorem int16Ok_eq_bits (count : Nat) : int16Ok count = decide (count ≤ 2 ^ indexBitsRef) := rfl

theorem defaultLoop_cached (n : Nat) (s : Nat × Nat) : ∀ (ms : List Nat) (count : Nat)
    (out : List (Nat × Nat)),
    ctrlLoopRef (defaultControlRef n) stopSlice ms (count, some s, out) =
      (if ms = [] then count else max count s.2, some s, out ++ List.replicate ms.length s)
  | [], count, out => by simp [ctrlLoopRef]
  | m :: ms, count, out => by
    simp only [ctrlLoopRef, defaultControlRef, stopSlice]
    rw [defaultLoop_cached n s ms]
    simp only [List.length_cons, List.replicate_succ, List.append_assoc, List.singleton_append,
      reduceCtorEq, if_false]
    by_cases h : ms = []
    · simp [h]
    · simp [h]

theorem flatAlloc_shared (E' n count0 : Nat) :
    flatAlloc .shared (E' + 1) n count0 = ⟨count0 + n, [(none, count0)]⟩ := by
  have hrep : ∀ (j : Nat), (reqAll (⟨count0 + n, [(none, count0)]⟩ : Alloc (Option Nat))
      (List.replicate j ((none : Option Nat), n))).1 = ⟨count0 + n, [(none, count0)]⟩ := by
    intro j
    induction j with
    | zero => rfl
    | succ j ih =>
      simp only [List.replicate_succ, reqAll]
      have : req (⟨count0 + n, [(none, count0)]⟩ : Alloc (Option Nat)) none n
          = (⟨count0 + n, [(none, count0)]⟩, count0) := by
        simp [req, lookup, List.find?]
      rw [this]
      exact ih
  unfold flatAlloc
  have : flatReqs .shared (E' + 1) n = (none, n) :: List.replicate E' (none, n) := by
    simp [flatReqs, List.map_const', List.replicate_succ]
  rw [this]
  simp only [reqAll]
  have h0 : req (⟨count0, []⟩ : Alloc (Option Nat)) none n = (⟨count0 + n, [(none, count0)]⟩, count0) := by
    simp [req, lookup, List.find?]
  rw [h0]
  exact hrep E'

/-- **The default member loop is the model's shared policy**: every member receives the slice
    `count0 … count0+n`, allocated when member 0 is processed; the running count ends at the
    model's count; the entries of the slice are `flatIdx .shared`. -/
theorem defaultLoop_eq_model (E n count0 : Nat) (hE : 0 < E) :
    ctrlLoopRef (defaultControlRef n) stopSlice (List.range E) (count0, none, []) =
      ((flatAlloc .shared E n count0).count, some (count0, count0 + n),
        List.replicate E (count0, count0 + n)) ∧
    ∀ m i, sliceIdx (count0, count0 + n) i = flatIdx .shared E n count0 m i := by
  obtain ⟨E', rfl⟩ : ∃ E', E = E' + 1 := ⟨E - 1, by omega⟩
  constructor
  · rw [flatAlloc_shared]
    have hr : List.range (E' + 1) = 0 :: (List.range E').map (· + 1) := by
      rw [List.range_succ_eq_map]
    rw [hr]
    simp only [ctrlLoopRef, defaultControlRef, stopSlice]
    rw [defaultLoop_cached]
    simp only [List.length_map, List.length_range, List.nil_append]
    have hmax : max (max count0 (count0 + n)) (count0 + n) = count0 + n := by omega
    have hmax' : max count0 (count0 + n) = count0 + n := by omega
    by_cases h : (List.range E').map (· + 1) = []
    · have : E' = 0 := by simpa using h
      subst this
      simp
    · simp only [h, if_false, hmax, List.replicate_succ]
      simp
  · intro m i
    unfold flatIdx sliceIdx
    rw [flatAlloc_shared]
    simp [lookup, List.find?]

/-! ## control tree: one call of `discretize_control` -/

theorem writeMask_length : ∀ (arr : List Nat) (mask : List Bool) (vals : List Nat),
    (writeMask arr mask vals).length = arr.length
  | [], _, _ => by simp [writeMask]
  | _ :: _, [], _ => by simp [writeMask]
  | _ :: as, true :: ms, [] => by simp [writeMask]
  | _ :: as, true :: ms, v :: vs => by simp [writeMask, writeMask_length as ms vs]
  | a :: as, false :: ms, vs => by simp [writeMask, writeMask_length as ms vs]

theorem readMask_writeMask : ∀ (arr : List Nat) (mask : List Bool) (vals : List Nat),
    arr.length = mask.length → vals.length = mask.count true →
    readMask (writeMask arr mask vals) mask = vals
  | [], [], vals, _, h => by
    simp at h
    simp [writeMask, readMask, h]
  | [], _ :: _, _, h, _ => by simp at h
  | _ :: _, [], _, h, _ => by simp at h
  | _ :: as, true :: ms, [], _, h => by simp at h
  | _ :: as, true :: ms, v :: vs, h1, h2 => by
    simp only [writeMask, readMask]
    rw [readMask_writeMask as ms vs (by simpa using h1) (by simpa using h2)]
  | a :: as, false :: ms, vs, h1, h2 => by
    simp only [writeMask, readMask]
    exact readMask_writeMask as ms vs (by simpa using h1) (by simpa using h2)

/-- entry `i` after `arr[mask] = vals` -/
theorem writeMask_getD : ∀ (arr : List Nat) (mask : List Bool) (vals : List Nat),
    arr.length = mask.length → vals.length = mask.count true → ∀ i,
    (writeMask arr mask vals).getD i 0 =
      if mask.getD i false then vals.getD ((mask.take i).count true) 0 else arr.getD i 0
  | [], [], vals, _, _, i => by simp [writeMask]
  | [], _ :: _, _, h, _, _ => by simp at h
  | _ :: _, [], _, h, _, _ => by simp at h
  | _ :: as, true :: ms, [], _, h, _ => by simp at h
  | a :: as, true :: ms, v :: vs, h1, h2, i => by
    cases i with
    | zero => simp [writeMask]
    | succ i =>
      have := writeMask_getD as ms vs (by simpa using h1) (by simpa using h2) i
      simp only [writeMask, List.getD_cons_succ, List.take_succ_cons, List.count_cons_self]
      rw [this]
  | a :: as, false :: ms, vs, h1, h2, i => by
    cases i with
    | zero => simp [writeMask]
    | succ i =>
      have := writeMask_getD as ms vs (by simpa using h1) (by simpa using h2) i
      simp only [writeMask, List.getD_cons_succ, List.take_succ_cons]
      rw [this]
      simp

theorem count_map_true (f : Rat → Bool) : ∀ (l : List Rat), (l.map f).count true = (l.filter f).length
  | [] => rfl
  | a :: l => by
    simp only [List.map_cons, List.filter_cons]
    cases h : f a <;> simp [count_map_true f l]

theorem range'_getD (s n r : Nat) (h : r < n) : (List.range' s n).getD r 0 = s + r := by
  simp [List.getD_eq_getElem?_getD, h]

/-- the else-branch of `dcStepRef` for a branch that contains the member: key `p` -/
def dcKeyStep (t0 : Rat) (bts : List Rat) (ts : List Rat) (st : DC) (p : List Nat) : DC :=
  let els := ts.map (winRef t0 bts (p.length + 0) (p.length + 1))
  let nnz := els.count true
  match lookupB st.cache p with
  | some blk => { st with arr := writeMask st.arr els blk }
  | none =>
    let arr' := writeMask st.arr els (List.range' st.offset nnz)
    ⟨arr', st.offset + nnz, (p, readMask arr' els) :: st.cache⟩

theorem foldl_dcStep_eq (t0 : Rat) (bts : List Rat) (ts : List Rat) (m : Nat) :
    ∀ (brs : List (List Nat × List Nat)) (st : DC),
    brs.foldl (dcStepRef t0 bts ts m) st =
      ((brs.filter (fun br => br.2.contains m)).map (·.1)).foldl (dcKeyStep t0 bts ts) st
  | [], st => rfl
  | br :: brs, st => by
    simp only [List.foldl_cons, List.filter_cons]
    cases h : br.2.contains m
    · have : dcStepRef t0 bts ts m st br = st := by
        simp only [dcStepRef, h, Bool.not_false, ↓reduceIte]
      rw [this]
      simpa using foldl_dcStep_eq t0 bts ts m brs st
    · have : dcStepRef t0 bts ts m st br = dcKeyStep t0 bts ts st br.1 := by
        simp only [dcStepRef, h, Bool.not_true, Bool.false_eq_true, ↓reduceIte]
        rfl
      rw [this]
      simpa using foldl_dcStep_eq t0 bts ts m brs _

/-- block cache of the code vs start cache of the model: the cached block of a key is
    `start … start + size - 1` -/
def Rel (size : List Nat → Nat) (cC : BlockCache) (cM : List (List Nat × Nat)) : Prop :=
  ∀ p, lookupB cC p = (lookup cM p).map (fun s => List.range' s (size p))

theorem lookupB_cons (c : BlockCache) (k : List Nat) (b : List Nat) (key : List Nat) :
    lookupB ((k, b) :: c) key = if k = key then some b else lookupB c key := by
  unfold lookupB
  by_cases h : k = key
  · simp [List.find?, h]
  · have hb : (k == key) = false := by simpa using h
    simp [List.find?, hb, h]

theorem map_winRef_eq (t0 : Rat) (bts : List Rat) (ts : List Rat) (L : Nat) (hL : L ≤ bts.length) :
    ts.map (winRef t0 bts (L + 0) (L + 1)) = ts.map (inSeg t0 bts L) := by
  apply List.map_congr_left
  intro t _
  exact winRef_eq_inSeg t0 bts L hL t

/-- one branch of the member = one request of the model's allocator -/
theorem dcKeyStep_spec (t0 : Rat) (bts : List Rat) (ts : List Rat) (st : DC)
    (stM : Alloc (List Nat)) (p : List Nat) (hp : p.length ≤ bts.length)
    (hrel : Rel (fun p => segCount t0 bts p.length ts) st.cache stM.cache)
    (hoff : st.offset = stM.count) (hlen : st.arr.length = ts.length) :
    let rq := req stM p (segCount t0 bts p.length ts)
    let st' := dcKeyStep t0 bts ts st p
    Rel (fun p => segCount t0 bts p.length ts) st'.cache rq.1.cache ∧
    st'.offset = rq.1.count ∧ st'.arr.length = ts.length ∧
    ∀ i, i < ts.length → st'.arr.getD i 0 =
      if inSeg t0 bts p.length (ts.getD i 0) then rq.2 + rankIn t0 bts p.length ts i
      else st.arr.getD i 0 := by
  intro rq st'
  have hels := map_winRef_eq t0 bts ts p.length hp
  have hcnt : (ts.map (inSeg t0 bts p.length)).count true = segCount t0 bts p.length ts := by
    rw [count_map_true]; rfl
  have hmlen : st.arr.length = (ts.map (inSeg t0 bts p.length)).length := by simp [hlen]
  have hentry : ∀ (vals : List Nat) (s : Nat), vals = List.range' s (segCount t0 bts p.length ts) →
      ∀ i, i < ts.length →
      (writeMask st.arr (ts.map (inSeg t0 bts p.length)) vals).getD i 0 =
        if inSeg t0 bts p.length (ts.getD i 0) then s + rankIn t0 bts p.length ts i
        else st.arr.getD i 0 := by
    intro vals s hv i hi
    rw [writeMask_getD _ _ _ hmlen (by rw [hv, hcnt]; simp)]
    have hg : (ts.map (inSeg t0 bts p.length)).getD i false = inSeg t0 bts p.length (ts.getD i 0) := by
      simp [List.getD_eq_getElem?_getD, List.getElem?_eq_getElem hi]
    rw [hg]
    split
    · rename_i hin
      have hr : ((ts.map (inSeg t0 bts p.length)).take i).count true = rankIn t0 bts p.length ts i := by
        rw [← List.map_take, count_map_true]; rfl
      rw [hr, hv]
      have hget : ts.getD i 0 = ts[i] := by simp [List.getD_eq_getElem?_getD, hi]
      rw [hget] at hin
      exact range'_getD _ _ _ (rankIn_lt_segCount t0 bts p.length ts i hi hin)
    · rfl
  have hl := hrel p
  cases hm : lookup stM.cache p with
  | some s =>
    rw [hm] at hl
    simp only [Option.map_some] at hl
    have hrq : rq = (stM, s) := by simp [rq, req, hm]
    have hst' : st' = ⟨writeMask st.arr (ts.map (inSeg t0 bts p.length))
        (List.range' s (segCount t0 bts p.length ts)), st.offset, st.cache⟩ := by
      simp only [st', dcKeyStep, hl, hels]
    rw [hrq, hst']
    refine ⟨hrel, hoff, by simp [writeMask_length, hlen], ?_⟩
    intro i hi
    exact hentry _ s rfl i hi
  | none =>
    rw [hm] at hl
    simp only [Option.map_none] at hl
    have hrq : rq = (⟨stM.count + segCount t0 bts p.length ts, (p, stM.count) :: stM.cache⟩, stM.count) := by
      simp [rq, req, hm]
    have hst' : st' = ⟨writeMask st.arr (ts.map (inSeg t0 bts p.length))
          (List.range' st.offset (segCount t0 bts p.length ts)),
        st.offset + segCount t0 bts p.length ts,
        (p, List.range' st.offset (segCount t0 bts p.length ts)) :: st.cache⟩ := by
      simp only [st', dcKeyStep, hl, hels, hcnt]
      rw [readMask_writeMask _ _ _ hmlen (by rw [hcnt]; simp)]
    rw [hrq, hst']
    refine ⟨?_, by simp [hoff], by simp [writeMask_length, hlen], ?_⟩
    · intro q
      simp only
      rw [lookupB_cons, lookup_cons]
      split
      · rename_i e
        subst e
        simp [hoff]
      · exact hrel q
    · intro i hi
      simp only
      rw [← hoff]
      exact hentry _ st.offset rfl i hi

theorem reqAll_snoc {κ : Type} [DecidableEq κ] : ∀ (l : List (κ × Nat)) (st : Alloc κ) (r : κ × Nat),
    (reqAll st (l ++ [r])).1 = (req (reqAll st l).1 r.1 r.2).1
  | [], st, (k, n) => by simp [reqAll]
  | (k, n) :: l, st, r => by
    simp only [List.cons_append, reqAll]
    exact reqAll_snoc l _ r

/-- the branches of one member, level by level, against the model's requests of that member -/
theorem levels_spec (c : TreeCfg) (ts : List Rat) (m : Nat) (st0 : DC) (stM : Alloc (List Nat))
    (hinv : Inv (fun p : List Nat => segCount c.t0 c.bts p.length ts) stM)
    (hrel : Rel (fun p => segCount c.t0 c.bts p.length ts) st0.cache stM.cache)
    (hoff : st0.offset = stM.count) (hlen : st0.arr.length = ts.length)
    (harr0 : ∀ i, i < ts.length → st0.arr.getD i 0 = 0) :
    ∀ n, n ≤ c.bts.length + 1 →
    Inv (fun p : List Nat => segCount c.t0 c.bts p.length ts)
      (reqAll stM ((List.range n).map (fun L => (c.path m L, segCount c.t0 c.bts L ts)))).1 ∧
    Rel (fun p => segCount c.t0 c.bts p.length ts)
      (((List.range n).map (c.path m)).foldl (dcKeyStep c.t0 c.bts ts) st0).cache
      (reqAll stM ((List.range n).map (fun L => (c.path m L, segCount c.t0 c.bts L ts)))).1.cache ∧
    (((List.range n).map (c.path m)).foldl (dcKeyStep c.t0 c.bts ts) st0).offset =
      (reqAll stM ((List.range n).map (fun L => (c.path m L, segCount c.t0 c.bts L ts)))).1.count ∧
    (((List.range n).map (c.path m)).foldl (dcKeyStep c.t0 c.bts ts) st0).arr.length = ts.length ∧
    (∀ key s, lookup stM.cache key = some s →
      lookup (reqAll stM ((List.range n).map (fun L => (c.path m L, segCount c.t0 c.bts L ts)))).1.cache key = some s) ∧
    (∀ L, L < n → ∃ s,
      lookup (reqAll stM ((List.range n).map (fun L => (c.path m L, segCount c.t0 c.bts L ts)))).1.cache (c.path m L) = some s) ∧
    ∀ i, i < ts.length →
      (((List.range n).map (c.path m)).foldl (dcKeyStep c.t0 c.bts ts) st0).arr.getD i 0 =
        match lastLevel (fun L => inSeg c.t0 c.bts L (ts.getD i 0)) n with
        | none => 0
        | some L =>
          (lookup (reqAll stM ((List.range n).map (fun L => (c.path m L, segCount c.t0 c.bts L ts)))).1.cache
            (c.path m L)).getD 0 + rankIn c.t0 c.bts L ts i := by
  intro n
  induction n with
  | zero =>
    intro _
    refine ⟨hinv, hrel, hoff, hlen, fun _ _ h => h, fun L hL => absurd hL (Nat.not_lt_zero L), ?_⟩
    intro i hi
    simpa [lastLevel] using harr0 i hi
  | succ n ih =>
    intro hn
    obtain ⟨i1, i2, i3, i4, i5, i6, i7⟩ := ih (by omega)
    have hplen : (c.path m n).length = n := pathOf_length c.dist c.k c.E m n
    rw [List.range_succ, List.map_append, List.map_append, List.foldl_append]
    simp only [List.map_cons, List.map_nil, List.foldl_cons, List.foldl_nil]
    rw [reqAll_snoc]
    generalize hstM : (reqAll stM ((List.range n).map (fun L => (c.path m L, segCount c.t0 c.bts L ts)))).1 = stMn at *
    generalize hst : ((List.range n).map (c.path m)).foldl (dcKeyStep c.t0 c.bts ts) st0 = stn at *
    have hsz : segCount c.t0 c.bts n ts = (fun p : List Nat => segCount c.t0 c.bts p.length ts) (c.path m n) := by
      simp only [hplen]
    simp only []
    rw [hsz]
    obtain ⟨r1, r2, r3, r4⟩ := req_spec (fun p : List Nat => segCount c.t0 c.bts p.length ts) stMn i1 (c.path m n)
    obtain ⟨k1, k2, k3, k4⟩ := dcKeyStep_spec c.t0 c.bts ts stn stMn (c.path m n) (by rw [hplen]; omega) i2 i3 i4
    refine ⟨r1, k1, k2, k3, fun key s h => r3 key s (i5 key s h), ?_, ?_⟩
    · intro L hL
      by_cases hLn : L = n
      · subst hLn
        exact ⟨_, r2⟩
      · obtain ⟨s, hs⟩ := i6 L (by omega)
        exact ⟨s, r3 _ _ hs⟩
    · intro i hi
      rw [k4 i hi, hplen]
      simp only [lastLevel]
      split
      · rename_i hin
        simp only [hplen] at r2 ⊢
        rw [r2]
        rfl
      · rename_i hin
        rw [i7 i hi]
        cases hl : lastLevel (fun L => inSeg c.t0 c.bts L (ts.getD i 0)) n with
        | none => rfl
        | some L =>
          obtain ⟨hLn, _, _⟩ := lastLevel_some _ _ _ hl
          obtain ⟨s, hs⟩ := i6 L hLn
          simp only [hs, r3 _ _ hs]

/-- the dictionary of the run, restricted to the branches that contain member `m`, is the chain of
    `m`'s branches in increasing depth (what the scan over `self.__branches.items()` relies on) -/
def ChainOf (c : TreeCfg) (brs : List (List Nat × List Nat)) (m : Nat) : Prop :=
  (brs.filter (fun br => br.2.contains m)).map (·.1) = (List.range (c.bts.length + 1)).map (c.path m)

/-- **One call of `ControlTreeMixin.discretize_control` is one round of the model's allocator**:
    from a code cache that matches the model's cache and `offset` = the model's count, the call
    returns an array whose entry at time stamp `i` is the model's block start of the member's
    branch at the level that is written last there plus the rank of the stamp inside that
    segment (0 where no segment covers the stamp), and leaves a cache that matches the model's
    state after the member's requests. -/
theorem discretizeControlRef_spec (c : TreeCfg) (brs : List (List Nat × List Nat)) (ts : List Rat)
    (m : Nat) (stM : Alloc (List Nat)) (cC : BlockCache) (hchain : ChainOf c brs m)
    (hinv : Inv (fun p : List Nat => segCount c.t0 c.bts p.length ts) stM)
    (hrel : Rel (fun p => segCount c.t0 c.bts p.length ts) cC stM.cache) :
    Inv (fun p : List Nat => segCount c.t0 c.bts p.length ts) (reqAll stM (memberReqs c ts m)).1 ∧
    Rel (fun p => segCount c.t0 c.bts p.length ts)
      (discretizeControlRef brs c.t0 c.bts ts m stM.count cC).2 (reqAll stM (memberReqs c ts m)).1.cache ∧
    (discretizeControlRef brs c.t0 c.bts ts m stM.count cC).1.length = ts.length ∧
    (∀ key s, lookup stM.cache key = some s →
      lookup (reqAll stM (memberReqs c ts m)).1.cache key = some s) ∧
    (∀ L, L < c.bts.length + 1 → ∃ s,
      lookup (reqAll stM (memberReqs c ts m)).1.cache (c.path m L) = some s) ∧
    ∀ i, i < ts.length →
      (discretizeControlRef brs c.t0 c.bts ts m stM.count cC).1.getD i 0 =
        match levelAt c.t0 c.bts (ts.getD i 0) with
        | none => 0
        | some L => (lookup (reqAll stM (memberReqs c ts m)).1.cache (c.path m L)).getD 0
            + rankIn c.t0 c.bts L ts i := by
  unfold discretizeControlRef
  simp only []
  rw [foldl_dcStep_eq, hchain]
  obtain ⟨i1, i2, _, i4, i5, i6, i7⟩ := levels_spec c ts m ⟨List.replicate ts.length 0, stM.count, cC⟩ stM
    hinv hrel rfl (by simp) (by intro i hi; simp [List.getD_eq_getElem?_getD, hi])
    (c.bts.length + 1) (le_refl _)
  exact ⟨i1, i2, i4, i5, i6, i7⟩

/-! ## control tree: the running count of the member loop -/

abbrev mReqs (c : TreeCfg) (ts : List Rat) (m n : Nat) : List (List Nat × Nat) :=
  (List.range n).map (fun L => (c.path m L, segCount c.t0 c.bts L ts))

abbrev mKeys (c : TreeCfg) (m n : Nat) : List (List Nat) := (List.range n).map (c.path m)

theorem exists_last_in_filter (f : Rat → Bool) : ∀ (l : List Rat), 0 < (l.filter f).length →
    ∃ i, ∃ (h : i < l.length), f l[i] = true ∧
      ((l.take i).filter f).length + 1 = (l.filter f).length := by
  intro l
  induction l using List.reverseRec with
  | nil => intro h; simp at h
  | append_singleton l a ih =>
    intro h
    by_cases hfa : f a = true
    · refine ⟨l.length, by simp, ?_, ?_⟩
      · simp [hfa]
      · simp [List.filter_append, hfa]
    · have hfa' : f a = false := by simpa using hfa
      have hf : (l ++ [a]).filter f = l.filter f := by simp [List.filter_append, hfa']
      rw [hf] at h ⊢
      obtain ⟨i, hi, h1, h2⟩ := ih h
      refine ⟨i, by simp; omega, ?_, ?_⟩
      · rw [List.getElem_append_left hi]; exact h1
      · rw [List.take_append_of_le_length (by omega)]; exact h2

theorem levels_top (c : TreeCfg) (ts : List Rat) (m : Nat) (st0 : DC) (stM : Alloc (List Nat))
    (hinv : Inv (fun p : List Nat => segCount c.t0 c.bts p.length ts) stM)
    (hrel : Rel (fun p => segCount c.t0 c.bts p.length ts) st0.cache stM.cache)
    (hoff : st0.offset = stM.count) (hlen : st0.arr.length = ts.length)
    (harr0 : ∀ i, i < ts.length → st0.arr.getD i 0 = 0)
    (hcc : ∀ n, (lookup stM.cache (c.path m n)).isSome →
      ∀ L, L < n → (lookup stM.cache (c.path m L)).isSome) :
    ∀ n, n ≤ c.bts.length + 1 →
    (∀ key s, lookup (reqAll stM (mReqs c ts m n)).1.cache key = some s →
      lookup stM.cache key = some s ∨ ∃ L, L < n ∧ key = c.path m L) ∧
    ((∀ L, L < n → (lookup stM.cache (c.path m L)).isSome) →
      (reqAll stM (mReqs c ts m n)).1.count = stM.count) ∧
    ((reqAll stM (mReqs c ts m n)).1.count = stM.count ∨
      ∃ i, i < ts.length ∧
        ((mKeys c m n).foldl (dcKeyStep c.t0 c.bts ts) st0).arr.getD i 0 + 1 =
          (reqAll stM (mReqs c ts m n)).1.count) := by
  intro n
  induction n with
  | zero =>
    intro _
    refine ⟨fun key s h => Or.inl h, fun _ => rfl, Or.inl rfl⟩
  | succ n ih =>
    intro hn
    obtain ⟨j8, j9, j10⟩ := ih (by omega)
    obtain ⟨i1, i2, i3, i4, i5, i6, i7⟩ := levels_spec c ts m st0 stM hinv hrel hoff hlen harr0 n (by omega)
    have hplen : (c.path m n).length = n := pathOf_length c.dist c.k c.E m n
    have e1 : mReqs c ts m (n + 1) = mReqs c ts m n ++ [(c.path m n, segCount c.t0 c.bts n ts)] := by
      simp [mReqs, List.range_succ]
    have e2 : mKeys c m (n + 1) = mKeys c m n ++ [c.path m n] := by
      simp [mKeys, List.range_succ]
    rw [e1, e2, reqAll_snoc, List.foldl_append]
    simp only [List.foldl_cons, List.foldl_nil]
    change Inv _ (reqAll stM (mReqs c ts m n)).1 at i1
    change Rel _ ((mKeys c m n).foldl (dcKeyStep c.t0 c.bts ts) st0).cache (reqAll stM (mReqs c ts m n)).1.cache at i2
    change ((mKeys c m n).foldl (dcKeyStep c.t0 c.bts ts) st0).offset = (reqAll stM (mReqs c ts m n)).1.count at i3
    change ((mKeys c m n).foldl (dcKeyStep c.t0 c.bts ts) st0).arr.length = ts.length at i4
    change ∀ key s, lookup stM.cache key = some s → lookup (reqAll stM (mReqs c ts m n)).1.cache key = some s at i5
    generalize (reqAll stM (mReqs c ts m n)).1 = Sn at *
    generalize (mKeys c m n).foldl (dcKeyStep c.t0 c.bts ts) st0 = An at *
    obtain ⟨_, _, _, k4⟩ := dcKeyStep_spec c.t0 c.bts ts An Sn (c.path m n) (by rw [hplen]; omega) i2 i3 i4
    simp only [hplen] at k4
    cases hl : lookup Sn.cache (c.path m n) with
    | some s =>
      have hrq : req Sn (c.path m n) (segCount c.t0 c.bts n ts) = (Sn, s) := by simp [req, hl]
      rw [hrq]
      simp only []
      -- a hit: the key was cached before this call, hence so were all shallower branches
      have hold : lookup stM.cache (c.path m n) = some s := by
        rcases j8 _ _ hl with h | ⟨L, hL, hk⟩
        · exact h
        · exfalso
          have := congrArg List.length hk
          have hL' : (c.path m L).length = L := pathOf_length c.dist c.k c.E m L
          rw [hplen, hL'] at this
          omega
      have hall : ∀ L, L < n → (lookup stM.cache (c.path m L)).isSome :=
        hcc n (by rw [hold]; rfl)
      refine ⟨?_, ?_, Or.inl (j9 hall)⟩
      · intro key s' h
        rcases j8 key s' h with h | ⟨L, hL, hk⟩
        · exact Or.inl h
        · exact Or.inr ⟨L, by omega, hk⟩
      · intro _
        exact j9 hall
    | none =>
      have hrq : req Sn (c.path m n) (segCount c.t0 c.bts n ts) =
          (⟨Sn.count + segCount c.t0 c.bts n ts, (c.path m n, Sn.count) :: Sn.cache⟩, Sn.count) := by
        simp [req, hl]
      rw [hrq] at k4 ⊢
      simp only [] at k4 ⊢
      refine ⟨?_, ?_, ?_⟩
      · intro key s' h
        rw [lookup_cons] at h
        split at h
        · rename_i e
          exact Or.inr ⟨n, by omega, e.symm⟩
        · rcases j8 key s' h with h | ⟨L, hL, hk⟩
          · exact Or.inl h
          · exact Or.inr ⟨L, by omega, hk⟩
      · intro hall
        exfalso
        have h1 := hall n (by omega)
        obtain ⟨s, hs⟩ := Option.isSome_iff_exists.1 h1
        rw [i5 _ _ hs] at hl
        cases hl
      · by_cases hsz : segCount c.t0 c.bts n ts = 0
        · rw [hsz]
          simp only [Nat.add_zero]
          rcases j10 with h | ⟨i, hi, h⟩
          · exact Or.inl h
          · refine Or.inr ⟨i, hi, ?_⟩
            rw [k4 i hi]
            split
            · rename_i hin
              exfalso
              have hget : ts.getD i 0 = ts[i] := by simp [List.getD_eq_getElem?_getD, hi]
              rw [hget] at hin
              have := rankIn_lt_segCount c.t0 c.bts n ts i hi hin
              omega
            · exact h
        · obtain ⟨i, hi, h1, h2⟩ := exists_last_in_filter (inSeg c.t0 c.bts n) ts (by
            unfold segCount at hsz; omega)
          refine Or.inr ⟨i, hi, ?_⟩
          rw [k4 i hi]
          have hget : ts.getD i 0 = ts[i] := by simp [List.getD_eq_getElem?_getD, hi]
          rw [hget, h1]
          simp only [if_true]
          unfold rankIn segCount
          omega

theorem foldl_max_ge_init : ∀ (l : List Nat) (z : Nat), z ≤ l.foldl max z
  | [], z => le_refl z
  | a :: l, z => by
    simp only [List.foldl_cons]
    exact le_trans (Nat.le_max_left z a) (foldl_max_ge_init l (max z a))

theorem le_foldl_max : ∀ (l : List Nat) (z x : Nat), x ∈ l → x ≤ l.foldl max z
  | [], _, _, h => by simp at h
  | a :: l, z, x, h => by
    simp only [List.foldl_cons]
    rcases List.mem_cons.1 h with rfl | h
    · exact le_trans (Nat.le_max_right z x) (foldl_max_ge_init l (max z x))
    · exact le_foldl_max l (max z a) x h

theorem foldl_max_le : ∀ (l : List Nat) (z b : Nat), z ≤ b → (∀ x ∈ l, x ≤ b) → l.foldl max z ≤ b
  | [], z, b, hz, _ => hz
  | a :: l, z, b, hz, h => by
    simp only [List.foldl_cons]
    exact foldl_max_le l (max z a) b (Nat.max_le.2 ⟨hz, h a List.mem_cons_self⟩)
      (fun x hx => h x (List.mem_cons_of_mem _ hx))

/-- the cached keys are closed under taking the parent branch -/
def Closed (cM : List (List Nat × Nat)) : Prop :=
  ∀ i p, (lookup cM (i :: p)).isSome → (lookup cM p).isSome

theorem closed_chain (c : TreeCfg) (m : Nat) (cM : List (List Nat × Nat)) (h : Closed cM) :
    ∀ n, (lookup cM (c.path m n)).isSome → ∀ L, L < n → (lookup cM (c.path m L)).isSome := by
  intro n
  induction n with
  | zero => intro _ L hL; omega
  | succ n ih =>
    intro hs L hL
    have hp : c.path m (n + 1) = _ :: c.path m n := pathOf_succ c.dist c.k c.E m n
    rw [hp] at hs
    have hn := h _ _ hs
    by_cases hLn : L = n
    · subst hLn; exact hn
    · exact ih hn L (by omega)

theorem reqAll_append {κ : Type} [DecidableEq κ] : ∀ (l1 l2 : List (κ × Nat)) (st : Alloc κ),
    (reqAll st (l1 ++ l2)).1 = (reqAll (reqAll st l1).1 l2).1
  | [], l2, st => by simp [reqAll]
  | (k, n) :: l1, l2, st => by
    simp only [List.cons_append, reqAll]
    exact reqAll_append l1 l2 _

/-- **The running count of the base loop is the model's count**: after the call for member `m`,
    `count = max(count, int(np.max(control_indices)) + 1)` is the allocator's count after the
    member's requests (the top index of the last fresh non-empty block survives in the array:
    fresh blocks of one call form a suffix of the member's levels), and the cached keys stay
    closed under parents. -/
theorem call_count (c : TreeCfg) (brs : List (List Nat × List Nat)) (ts : List Rat)
    (m : Nat) (stM : Alloc (List Nat)) (cC : BlockCache) (hchain : ChainOf c brs m)
    (hinv : Inv (fun p : List Nat => segCount c.t0 c.bts p.length ts) stM)
    (hrel : Rel (fun p => segCount c.t0 c.bts p.length ts) cC stM.cache)
    (hcl : Closed stM.cache) (hts : ts ≠ []) (ht0 : ∀ t ∈ ts, c.t0 ≤ t) :
    max stM.count (stopArr (discretizeControlRef brs c.t0 c.bts ts m stM.count cC).1) =
      (reqAll stM (memberReqs c ts m)).1.count ∧
    Closed (reqAll stM (memberReqs c ts m)).1.cache := by
  have hS : memberReqs c ts m = mReqs c ts m (c.bts.length + 1) := rfl
  obtain ⟨a1, _, a3, a4, a5, a6⟩ := discretizeControlRef_spec c brs ts m stM cC hchain hinv hrel
  have harr : (discretizeControlRef brs c.t0 c.bts ts m stM.count cC).1 =
      ((mKeys c m (c.bts.length + 1)).foldl (dcKeyStep c.t0 c.bts ts)
        ⟨List.replicate ts.length 0, stM.count, cC⟩).arr := by
    unfold discretizeControlRef
    simp only []
    rw [foldl_dcStep_eq, hchain]
  obtain ⟨t8, _, t10⟩ := levels_top c ts m ⟨List.replicate ts.length 0, stM.count, cC⟩ stM
    hinv hrel rfl (by simp) (by intro i hi; simp [List.getD_eq_getElem?_getD, hi])
    (closed_chain c m stM.cache hcl) (c.bts.length + 1) (le_refl _)
  rw [← harr, ← hS] at t10
  rw [← hS] at t8
  obtain ⟨_, _, _, hge⟩ := reqAll_spec (fun p : List Nat => segCount c.t0 c.bts p.length ts)
    (memberReqs c ts m) stM hinv (by
      intro r hr
      simp only [memberReqs, List.mem_map, List.mem_range] at hr
      obtain ⟨L, _, rfl⟩ := hr
      simp [TreeCfg.path, pathOf_length])
  generalize (reqAll stM (memberReqs c ts m)).1 = S at *
  generalize (discretizeControlRef brs c.t0 c.bts ts m stM.count cC).1 = arr at *
  -- every entry is below the new count
  have hentry : ∀ i, i < ts.length → arr.getD i 0 + 1 ≤ S.count := by
    intro i hi
    have hget : ts.getD i 0 = ts[i] := by simp [List.getD_eq_getElem?_getD, hi]
    rw [a6 i hi, hget]
    obtain ⟨L, hL⟩ := levelAt_isSome c.t0 c.bts ts[i] (ht0 _ (List.getElem_mem hi))
    rw [hL]
    simp only []
    obtain ⟨hLlt, hin, _⟩ := lastLevel_some _ _ _ hL
    obtain ⟨s, hs⟩ := a5 L hLlt
    rw [hs]
    have hb := a1.bound _ s hs
    have hr := rankIn_lt_segCount c.t0 c.bts L ts i hi hin
    have hpl : (c.path m L).length = L := pathOf_length c.dist c.k c.E m L
    simp only [hpl] at hb
    simp only [Option.getD_some]
    omega
  have hpos : 0 < ts.length := List.length_pos_iff.2 hts
  have h0 := hentry 0 hpos
  refine ⟨?_, ?_⟩
  · apply le_antisymm
    · apply Nat.max_le.2
      refine ⟨hge, ?_⟩
      unfold stopArr
      have : arr.foldl max 0 ≤ S.count - 1 := by
        apply foldl_max_le _ _ _ (Nat.zero_le _)
        intro x hx
        obtain ⟨i, hi, rfl⟩ := List.getElem_of_mem hx
        have := hentry i (by omega)
        simp only [List.getD_eq_getElem?_getD, List.getElem?_eq_getElem hi, Option.getD_some] at this
        omega
      omega
    · rcases t10 with h | ⟨i, hi, h⟩
      · rw [h]; exact Nat.le_max_left _ _
      · have hi' : i < arr.length := by omega
        have hmem : arr.getD i 0 ∈ arr := by
          simp only [List.getD_eq_getElem?_getD, List.getElem?_eq_getElem hi', Option.getD_some]
          exact List.getElem_mem hi'
        have := le_foldl_max arr 0 _ hmem
        unfold stopArr
        omega
  · intro i p hs
    obtain ⟨s, hs⟩ := Option.isSome_iff_exists.1 hs
    rcases t8 _ _ hs with h | ⟨L, hL, hk⟩
    · have := hcl i p (by rw [h]; rfl)
      obtain ⟨s', hs'⟩ := Option.isSome_iff_exists.1 this
      rw [a4 _ _ hs']; rfl
    · cases L with
      | zero =>
        have := congrArg List.length hk
        simp [TreeCfg.path, pathOf_length] at this
      | succ L =>
        have hp : c.path m (L + 1) = _ :: c.path m L := pathOf_succ c.dist c.k c.E m L
        rw [hp] at hk
        have : p = c.path m L := (List.cons.inj hk).2
        obtain ⟨s', hs'⟩ := a5 L (by omega)
        rw [this, hs']; rfl

/-- the member loop of the base `discretize_controls` around the tree's `discretize_control` -/
theorem treeLoop_gen (c : TreeCfg) (brs : List (List Nat × List Nat)) (ts : List Rat)
    (hts : ts ≠ []) (ht0 : ∀ t ∈ ts, c.t0 ≤ t) :
    ∀ (ms : List Nat) (stM : Alloc (List Nat)) (cC : BlockCache) (out : List (List Nat)),
    (∀ m ∈ ms, ChainOf c brs m) →
    Inv (fun p : List Nat => segCount c.t0 c.bts p.length ts) stM →
    Rel (fun p => segCount c.t0 c.bts p.length ts) cC stM.cache → Closed stM.cache →
    (ctrlLoopRef (discretizeControlRef brs c.t0 c.bts ts) stopArr ms (stM.count, cC, out)).1 =
      (reqAll stM (ms.flatMap (memberReqs c ts))).1.count ∧
    (∀ key s, lookup stM.cache key = some s →
      lookup (reqAll stM (ms.flatMap (memberReqs c ts))).1.cache key = some s) ∧
    ∃ outs, (ctrlLoopRef (discretizeControlRef brs c.t0 c.bts ts) stopArr ms (stM.count, cC, out)).2.2
        = out ++ outs ∧ outs.length = ms.length ∧
      ∀ j, j < ms.length → (outs.getD j []).length = ts.length ∧ ∀ i, i < ts.length →
        (outs.getD j []).getD i 0 =
          match levelAt c.t0 c.bts (ts.getD i 0) with
          | none => 0
          | some L => (lookup (reqAll stM (ms.flatMap (memberReqs c ts))).1.cache
              (c.path (ms.getD j 0) L)).getD 0 + rankIn c.t0 c.bts L ts i
  | [], stM, cC, out, _, _, _, _ => by
    exact ⟨rfl, fun _ _ h => h, [], by simp [ctrlLoopRef], rfl, fun j hj => absurd hj (by simp)⟩
  | m :: ms, stM, cC, out, hch, hinv, hrel, hcl => by
    have hchm := hch m List.mem_cons_self
    obtain ⟨a1, a2, a3, a4, a5, a6⟩ := discretizeControlRef_spec c brs ts m stM cC hchm hinv hrel
    obtain ⟨b1, b2⟩ := call_count c brs ts m stM cC hchm hinv hrel hcl hts ht0
    simp only [ctrlLoopRef, List.flatMap_cons]
    rw [b1, reqAll_append]
    generalize hS : (reqAll stM (memberReqs c ts m)).1 = S at *
    generalize hr : discretizeControlRef brs c.t0 c.bts ts m stM.count cC = rc at *
    obtain ⟨g1, g2, outs, g3, g4, g5⟩ := treeLoop_gen c brs ts hts ht0 ms S rc.2 (out ++ [rc.1])
      (fun m' hm' => hch m' (List.mem_cons_of_mem _ hm')) a1 a2 b2
    refine ⟨g1, fun key s h => g2 key s (a4 key s h), rc.1 :: outs, ?_, by simp [g4], ?_⟩
    · rw [g3]; simp
    · intro j hj
      cases j with
      | zero =>
        simp only [List.getD_cons_zero]
        refine ⟨a3, ?_⟩
        intro i hi
        rw [a6 i hi]
        cases hl : levelAt c.t0 c.bts (ts.getD i 0) with
        | none => rfl
        | some L =>
          obtain ⟨hLlt, _, _⟩ := lastLevel_some _ _ _ hl
          obtain ⟨s, hs⟩ := a5 L hLlt
          simp only [hs, g2 _ _ hs]
      | succ j =>
        simp only [List.getD_cons_succ]
        exact g5 j (by simpa using hj)

/-- **The member loop under the control tree is the model's allocator**: running the base loop
    `for ensemble_member in range(E)` with `ControlTreeMixin.discretize_control` and
    `count = max(count, max(indices) + 1)` from `count0` with an empty cache gives, for every
    member and time stamp, the model's `treeIdx`, and ends at the model's count. -/
theorem treeLoop_eq_model (c : TreeCfg) (brs : List (List Nat × List Nat)) (ts : List Rat)
    (count0 : Nat) (hts : ts ≠ []) (ht0 : ∀ t ∈ ts, c.t0 ≤ t)
    (hch : ∀ m, m < c.E → ChainOf c brs m) :
    (ctrlLoopRef (discretizeControlRef brs c.t0 c.bts ts) stopArr (List.range c.E) (count0, [], [])).1
      = (treeAlloc c ts count0).count ∧
    (ctrlLoopRef (discretizeControlRef brs c.t0 c.bts ts) stopArr (List.range c.E) (count0, [], [])).2.2.length
      = c.E ∧
    ∀ m i, m < c.E → i < ts.length →
      ((ctrlLoopRef (discretizeControlRef brs c.t0 c.bts ts) stopArr (List.range c.E)
        (count0, [], [])).2.2.getD m []).getD i 0 = treeIdx c ts count0 m i := by
  obtain ⟨g1, _, outs, g3, g4, g5⟩ := treeLoop_gen c brs ts hts ht0 (List.range c.E) ⟨count0, []⟩ [] []
    (fun m hm => hch m (List.mem_range.1 hm)) (inv_init _ count0)
    (by intro p; simp [lookupB, lookup])
    (by intro i p h; simp [lookup] at h)
  simp only [List.nil_append] at g3
  refine ⟨g1, by rw [g3, g4]; simp, ?_⟩
  intro m i hm hi
  rw [g3]
  obtain ⟨_, h⟩ := g5 m (by simpa using hm)
  rw [h i hi]
  have : (List.range c.E).getD m 0 = m := by
    simp [List.getD_eq_getElem?_getD, hm]
  rw [this]
  rfl

/-! ## the order hypothesis `ChainOf` holds for the model's dictionary -/

theorem levelPaths_length (dist : Nat → Dist) (k E : Nat) :
    ∀ L, ∀ p ∈ levelPaths dist k E L, p.length = L
  | 0, p, h => by simp [levelPaths] at h; simp [h]
  | L + 1, p, h => by
    simp only [levelPaths, List.mem_flatMap, List.mem_filter, List.mem_map, List.mem_range] at h
    obtain ⟨q, ⟨hq, _⟩, i, _, rfl⟩ := h
    simp [levelPaths_length dist k E L q hq]

theorem levelPaths_nodup (dist : Nat → Dist) (k E : Nat) : ∀ L, (levelPaths dist k E L).Nodup
  | 0 => by simp [levelPaths]
  | L + 1 => by
    simp only [levelPaths]
    rw [List.nodup_flatMap]
    refine ⟨?_, ?_⟩
    · intro p _
      exact (List.nodup_range).map (fun a b h => (List.cons.inj h).1)
    · have hnd := (levelPaths_nodup dist k E L).filter (fun p => !(membersOf dist k E p).isEmpty)
      refine List.Pairwise.imp ?_ hnd
      intro p q hpq
      simp only [Function.onFun, List.disjoint_left, List.mem_map, List.mem_range]
      rintro x ⟨i, _, rfl⟩ ⟨j, _, h⟩
      exact hpq (List.cons.inj h).2.symm

theorem pathOf_mem_levelPaths (dist : Nat → Dist) (k E m : Nat) (hk : 1 ≤ k) (hm : m < E) :
    ∀ L, pathOf dist k E m L ∈ levelPaths dist k E L
  | 0 => by simp [levelPaths, pathOf]
  | L + 1 => by
    have ih := pathOf_mem_levelPaths dist k E m hk hm L
    have hmem := mem_pathOf dist k E m hk hm L
    simp only [levelPaths, List.mem_flatMap, List.mem_filter, List.mem_map, List.mem_range]
    refine ⟨pathOf dist k E m L, ⟨ih, ?_⟩, _, ?_, (pathOf_succ dist k E m L).symm⟩
    · cases h : membersOf dist k E (pathOf dist k E m L) with
      | nil => rw [h] at hmem; simp at hmem
      | cons a l => rfl
    · obtain ⟨_, _, _, hlen, hne⟩ := selectReps_spec (dist L) (membersOf dist k E (pathOf dist k E m L)) k
      have := childIdx_lt (dist L) _ m (hne (List.ne_nil_of_mem hmem) hk)
      omega

theorem filter_eq_singleton {α : Type} (P : α → Bool) (a : α) : ∀ (l : List α), l.Nodup → a ∈ l →
    P a = true → (∀ x ∈ l, P x = true → x = a) → l.filter P = [a]
  | [], _, h, _, _ => by simp at h
  | b :: l, hnd, hmem, hPa, huniq => by
    rw [List.nodup_cons] at hnd
    by_cases hb : b = a
    · subst hb
      rw [List.filter_cons_of_pos hPa]
      congr 1
      apply List.filter_eq_nil_iff.2
      intro x hx hPx
      have := huniq x (List.mem_cons_of_mem _ hx) (by simpa using hPx)
      subst this
      exact hnd.1 hx
    · have hPb : P b = false := by
        by_contra h
        exact hb (huniq b List.mem_cons_self (by simpa using h))
      rw [List.filter_cons_of_neg (by simp [hPb])]
      exact filter_eq_singleton P a l hnd.2 (by
        rcases List.mem_cons.1 hmem with h | h
        · exact absurd h.symm hb
        · exact h) hPa (fun x hx => huniq x (List.mem_cons_of_mem _ hx))

/-- the model's own dictionary (level by level) satisfies the order hypothesis of the code-level theorems -/
theorem treeBranches_chain (c : TreeCfg) (hk : 1 ≤ c.k) (m : Nat) (hm : m < c.E) :
    ChainOf c (treeBranches c.dist c.k c.E c.bts.length) m := by
  unfold ChainOf treeBranches
  rw [List.filter_flatMap, List.map_flatMap]
  have : ∀ L, (((levelPaths c.dist c.k c.E L).map (fun p => (p, membersOf c.dist c.k c.E p))).filter
      (fun br => br.2.contains m)).map (·.1) = [c.path m L] := by
    intro L
    rw [List.filter_map, List.map_map]
    have hid : ((fun x : List Nat × List Nat => x.1) ∘ fun p => (p, membersOf c.dist c.k c.E p)) = id := rfl
    rw [hid, List.map_id]
    apply filter_eq_singleton _ _ _ (levelPaths_nodup c.dist c.k c.E L)
      (pathOf_mem_levelPaths c.dist c.k c.E m hk hm L)
    · simpa using mem_pathOf c.dist c.k c.E m hk hm L
    · intro p hp hP
      have hmem : m ∈ membersOf c.dist c.k c.E p := by simpa using hP
      have := pathOf_unique c.dist c.k c.E m p hmem
      rw [levelPaths_length c.dist c.k c.E L p hp] at this
      exact this
  simp only [this]
  induction (List.range (c.bts.length + 1)) with
  | nil => rfl
  | cons a l ih => simp [List.flatMap_cons, ih]


/-! ## the symbol cache of `state_at` -/

/-- **Memoisation under an injective key is transparent**: every call returns what building the
    symbol for ITS OWN arguments gives, whatever was looked up before. -/
theorem memoRun_transparent {K V : Type} [DecidableEq K] (key : SymArgs → K) (build : SymArgs → V)
    (hinj : ∀ a b, key a = key b → a = b) :
    ∀ (calls : List SymArgs) (cache : List (K × V)), (∀ e ∈ cache, ∃ a, e = (key a, build a)) →
    memoRun key build calls cache = calls.map build
  | [], _, _ => rfl
  | a :: rest, cache, hc => by
    simp only [memoRun, List.map_cons]
    unfold memoGet
    cases hf : cache.find? (fun e => e.1 == key a) with
    | some e =>
      have hmem := List.mem_of_find?_eq_some hf
      have hk := List.find?_some hf
      obtain ⟨a', rfl⟩ := hc e hmem
      have : a' = a := hinj a' a (by simpa using hk)
      subst this
      simp only []
      rw [memoRun_transparent key build hinj rest cache hc]
    | none =>
      simp only []
      rw [memoRun_transparent key build hinj rest _ (by
        intro e he
        rcases List.mem_cons.1 he with rfl | he
        · exact ⟨a, rfl⟩
        · exact hc e he)]

theorem symbolKeyRef_injective : ∀ a b : SymArgs, symbolKeyRef a = symbolKeyRef b → a = b := by
  intro a b h
  cases a; cases b
  simp only [symbolKeyRef, Prod.mk.injEq] at h
  simp_all

end RtcVerif.C07
