import RtcVerif.Model.C07
import Mathlib.Algebra.Order.Field.Rat
import Mathlib.Tactic.Linarith
import Mathlib.Data.List.Basic
import Mathlib.Data.List.Nodup
/-!
Helper lemmas for `Props/C07.lean`: first-argmax / first-argmin scans, the representative
selection, the children of a branch, paths through the tree, the memoising allocator.
-/
namespace RtcVerif.C07

/-! ## scans -/

theorem argmaxFirst_mem (f : Nat → Rat) : ∀ (l : List Nat) (a : Nat), argmaxFirst f l = some a → a ∈ l
  | [], a, h => by simp [argmaxFirst] at h
  | x :: l, a, h => by
    unfold argmaxFirst at h
    cases hl : argmaxFirst f l with
    | none =>
      rw [hl] at h
      simp at h
      simp [h]
    | some b =>
      rw [hl] at h
      simp only at h
      split at h
      · simp at h; simp [h]
      · simp at h
        subst h
        exact List.mem_cons_of_mem _ (argmaxFirst_mem f l b hl)

theorem argmaxFirst_isSome (f : Nat → Rat) : ∀ (l : List Nat), l ≠ [] → ∃ a, argmaxFirst f l = some a
  | [], h => absurd rfl h
  | x :: l, _ => by
    unfold argmaxFirst
    cases argmaxFirst f l with
    | none => exact ⟨x, rfl⟩
    | some b =>
      simp only
      split
      · exact ⟨x, rfl⟩
      · exact ⟨b, rfl⟩

theorem argminFirst_mem (f : Nat → Rat) : ∀ (l : List Nat) (a : Nat), argminFirst f l = some a → a ∈ l
  | [], a, h => by simp [argminFirst] at h
  | x :: l, a, h => by
    unfold argminFirst at h
    cases hl : argminFirst f l with
    | none =>
      rw [hl] at h
      simp at h
      simp [h]
    | some b =>
      rw [hl] at h
      simp only at h
      split at h
      · simp at h; simp [h]
      · simp at h
        subst h
        exact List.mem_cons_of_mem _ (argminFirst_mem f l b hl)

theorem argminFirst_isSome (f : Nat → Rat) : ∀ (l : List Nat), l ≠ [] → ∃ a, argminFirst f l = some a
  | [], h => absurd rfl h
  | x :: l, _ => by
    unfold argminFirst
    cases argminFirst f l with
    | none => exact ⟨x, rfl⟩
    | some b =>
      simp only
      split
      · exact ⟨x, rfl⟩
      · exact ⟨b, rfl⟩

theorem argminFirst_congr (f g : Nat → Rat) : ∀ (l : List Nat), (∀ r ∈ l, f r = g r) →
    argminFirst f l = argminFirst g l
  | [], _ => rfl
  | x :: l, h => by
    unfold argminFirst
    rw [argminFirst_congr f g l (fun r hr => h r (List.mem_cons_of_mem _ hr))]
    cases hl : argminFirst g l with
    | none => rfl
    | some b =>
      have hb : b ∈ l := argminFirst_mem g l b hl
      simp only [h x (List.mem_cons_self), h b (List.mem_cons_of_mem _ hb)]

/-- the scan returns a minimiser -/
theorem argminFirst_le (f : Nat → Rat) : ∀ (l : List Nat) (a : Nat), argminFirst f l = some a →
    ∀ b ∈ l, f a ≤ f b
  | [], a, h => by simp [argminFirst] at h
  | x :: l, a, h => by
    unfold argminFirst at h
    cases hl : argminFirst f l with
    | none =>
      rw [hl] at h
      simp at h
      subst h
      intro b hb
      cases l with
      | nil => simp at hb; subst hb; exact le_refl _
      | cons y l => obtain ⟨z, hz⟩ := argminFirst_isSome f (y :: l) (by simp); rw [hz] at hl; cases hl
    | some c =>
      rw [hl] at h
      simp only at h
      have ih := argminFirst_le f l c hl
      split at h
      · rename_i hle
        simp at h
        subst h
        intro b hb
        rcases List.mem_cons.1 hb with rfl | hb
        · exact le_refl _
        · exact le_trans hle (ih b hb)
      · rename_i hnle
        simp at h
        subst h
        intro b hb
        rcases List.mem_cons.1 hb with rfl | hb
        · exact le_of_lt (not_le.1 hnle)
        · exact ih b hb

/-- the scan returns `a` when `a` is a minimiser and everything before it is strictly larger -/
theorem argminFirst_eq_of_first_min (f : Nat → Rat) (a : Nat) : ∀ (l1 l2 : List Nat),
    (∀ r ∈ l1, f a < f r) → (∀ r ∈ l2, f a ≤ f r) → argminFirst f (l1 ++ a :: l2) = some a
  | [], l2, _, h2 => by
    simp only [List.nil_append]
    unfold argminFirst
    cases hl : argminFirst f l2 with
    | none => rfl
    | some b =>
      have := h2 b (argminFirst_mem f l2 b hl)
      simp [this]
  | x :: l1, l2, h1, h2 => by
    have ih := argminFirst_eq_of_first_min f a l1 l2
      (fun r hr => h1 r (List.mem_cons_of_mem _ hr)) h2
    simp only [List.cons_append]
    unfold argminFirst
    rw [ih]
    have : ¬ f x ≤ f a := not_le.2 (h1 x (List.mem_cons_self))
    simp [this]

/-! ## minima over the representatives -/

theorem minOver_pos (f : Nat → Rat) : ∀ (l : List Nat) (v : Rat), minOver f l = some v →
    (0 < v ↔ ∀ j ∈ l, 0 < f j)
  | [], v, h => by simp [minOver] at h
  | x :: l, v, h => by
    unfold minOver at h
    cases hl : minOver f l with
    | none =>
      rw [hl] at h
      simp at h
      subst h
      cases l with
      | nil => simp
      | cons y l =>
        unfold minOver at hl
        cases h2 : minOver f l <;> simp [h2] at hl
    | some w =>
      rw [hl] at h
      simp at h
      subst h
      have ih := minOver_pos f l w hl
      constructor
      · intro hpos j hj
        rcases List.mem_cons.1 hj with rfl | hj
        · exact lt_of_lt_of_le hpos (min_le_left _ _)
        · exact (ih.1 (lt_of_lt_of_le hpos (min_le_right _ _))) j hj
      · intro hall
        exact lt_min (hall x (List.mem_cons_self)) (ih.2 (fun j hj => hall j (List.mem_cons_of_mem _ hj)))

theorem minOver_isSome (f : Nat → Rat) : ∀ (l : List Nat), l ≠ [] → ∃ v, minOver f l = some v
  | [], h => absurd rfl h
  | x :: l, _ => by
    unfold minOver
    cases minOver f l with
    | none => exact ⟨_, rfl⟩
    | some w => exact ⟨_, rfl⟩

theorem minTo_pos (d : Dist) (reps : List Nat) (c : Nat) (hne : reps ≠ []) :
    0 < minTo d reps c ↔ ∀ j ∈ reps, 0 < d j c := by
  obtain ⟨v, hv⟩ := minOver_isSome (fun j => d j c) reps hne
  unfold minTo
  rw [hv]
  exact minOver_pos _ reps v hv

/-! ## the representatives -/

/-- every later representative has a positive distance to every earlier one -/
def RepsSep (d : Dist) (reps : List Nat) : Prop := reps.Pairwise (fun j c => 0 < d j c)

theorem moreReps_spec (d : Dist) (ms : List Nat) : ∀ (n : Nat) (reps : List Nat),
    reps ≠ [] → (∀ r ∈ reps, r ∈ ms) → reps.Nodup → RepsSep d reps →
    (∀ r ∈ moreReps d ms n reps, r ∈ ms) ∧ (moreReps d ms n reps).Nodup ∧
    RepsSep d (moreReps d ms n reps) ∧ (moreReps d ms n reps).length ≤ reps.length + n ∧
    moreReps d ms n reps ≠ []
  | 0, reps, hne, hsub, hnd, hsep => by
    simp only [moreReps]
    exact ⟨hsub, hnd, hsep, by omega, hne⟩
  | n + 1, reps, hne, hsub, hnd, hsep => by
    unfold moreReps
    cases hc : argmaxFirst (minTo d reps) (ms.filter (fun a => !reps.contains a)) with
    | none =>
      dsimp only
      exact ⟨hsub, hnd, hsep, by omega, hne⟩
    | some c =>
      dsimp only
      split
      · rename_i hpos
        have hcm := argmaxFirst_mem _ _ c hc
        rw [List.mem_filter] at hcm
        obtain ⟨hcms, hcn⟩ := hcm
        have hcn' : c ∉ reps := by simpa using hcn
        have hne' : reps ++ [c] ≠ [] := by simp
        have hsub' : ∀ r ∈ reps ++ [c], r ∈ ms := by
          intro r hr
          rcases List.mem_append.1 hr with hr | hr
          · exact hsub r hr
          · simp at hr; subst hr; exact hcms
        have hnd' : (reps ++ [c]).Nodup := by
          rw [List.nodup_append]
          refine ⟨hnd, by simp, ?_⟩
          intro a ha b hb
          simp at hb
          subst hb
          intro h
          subst h
          exact hcn' ha
        have hsep' : RepsSep d (reps ++ [c]) := by
          unfold RepsSep
          rw [List.pairwise_append]
          refine ⟨hsep, by simp, ?_⟩
          intro j hj b hb
          simp at hb
          subst hb
          exact (minTo_pos d reps b hne).1 hpos j hj
        obtain ⟨h1, h2, h3, h4, h5⟩ := moreReps_spec d ms n (reps ++ [c]) hne' hsub' hnd' hsep'
        refine ⟨h1, h2, h3, ?_, h5⟩
        simp at h4
        omega
      · exact ⟨hsub, hnd, hsep, by omega, hne⟩

theorem selectReps_spec (d : Dist) (ms : List Nat) (k : Nat) :
    (∀ r ∈ selectReps d ms k, r ∈ ms) ∧ (selectReps d ms k).Nodup ∧
    RepsSep d (selectReps d ms k) ∧ (selectReps d ms k).length ≤ k ∧
    (ms ≠ [] → 1 ≤ k → selectReps d ms k ≠ []) := by
  cases k with
  | zero => simp [selectReps, RepsSep]
  | succ k =>
    unfold selectReps
    cases hr : argmaxFirst (colMax d ms) ms with
    | none =>
      refine ⟨by simp, by simp, by simp [RepsSep], by simp, ?_⟩
      intro hne
      obtain ⟨a, ha⟩ := argmaxFirst_isSome (colMax d ms) ms hne
      rw [ha] at hr
      cases hr
    | some r =>
      simp only
      have hrm := argmaxFirst_mem _ _ r hr
      obtain ⟨h1, h2, h3, h4, h5⟩ := moreReps_spec d ms k [r] (by simp)
        (by intro x hx; simp at hx; subst hx; exact hrm) (by simp) (by simp [RepsSep])
      refine ⟨h1, h2, h3, ?_, fun _ _ => h5⟩
      simp at h4
      omega

/-! ## child index -/

theorem nearestRep_lt (d : Dist) (reps : List Nat) (a : Nat) (hne : reps ≠ []) :
    nearestRep d reps a < reps.length := by
  unfold nearestRep
  obtain ⟨r, hr⟩ := argminFirst_isSome (fun r => d a r) reps hne
  rw [hr]
  exact List.idxOf_lt_length_of_mem (argminFirst_mem _ _ r hr)

theorem childIdx_lt (d : Dist) (reps : List Nat) (a : Nat) (hne : reps ≠ []) :
    childIdx d reps a < reps.length := by
  unfold childIdx
  split
  · rename_i h
    exact List.idxOf_lt_length_of_mem (by simpa using h)
  · exact nearestRep_lt d reps a hne

/-! ## the children of a branch -/

theorem children_getElem? (d : Dist) (k E : Nat) (ms : List Nat) (i : Nat) (hi : i < k) :
    (children d k E ms)[i]? = some
      (match (selectReps d ms k)[i]? with
       | none => []
       | some r => r :: ((List.range E).filter
            (fun a => ms.contains a && !(selectReps d ms k).contains a)).filter
            (fun a => nearestRep d (selectReps d ms k) a == i)) := by
  unfold children
  simp only [List.getElem?_map, List.getElem?_range hi, Option.map_some]
  rfl

/-- **membership in child `i`**: exactly the members of the parent whose child index is `i` -/
theorem mem_child_iff (d : Dist) (k E : Nat) (ms : List Nat) (hms : ∀ a ∈ ms, a < E) (i a : Nat) :
    a ∈ ((children d k E ms)[i]?).getD [] ↔
      a ∈ ms ∧ i < k ∧ childIdx d (selectReps d ms k) a = i := by
  by_cases hi : i < k
  · rw [children_getElem? d k E ms i hi]
    simp only [Option.getD_some]
    obtain ⟨hsub, hnd, _, hlen, hne⟩ := selectReps_spec d ms k
    generalize selectReps d ms k = reps at *
    cases hr : reps[i]? with
    | none =>
      simp only [List.not_mem_nil, false_iff, not_and]
      intro ha _
      have hne' : reps ≠ [] := hne (List.ne_nil_of_mem ha) (by omega)
      have h1 := childIdx_lt d reps a hne'
      have h2 : reps.length ≤ i := List.getElem?_eq_none_iff.1 hr
      omega
    | some r =>
      obtain ⟨hil, hri⟩ := List.getElem?_eq_some_iff.1 hr
      have hrmem : r ∈ reps := hri ▸ List.getElem_mem hil
      simp only [List.mem_cons, List.mem_filter, List.mem_range, Bool.and_eq_true,
        List.contains_iff_mem, Bool.not_eq_true', beq_iff_eq]
      constructor
      · rintro (rfl | ⟨⟨_, ham, har⟩, hn⟩)
        · refine ⟨hsub _ hrmem, hi, ?_⟩
          unfold childIdx
          rw [if_pos (by simpa using hrmem)]
          rw [← hri]
          exact List.Nodup.idxOf_getElem hnd i hil
        · refine ⟨ham, hi, ?_⟩
          unfold childIdx
          have : reps.contains a = false := by simpa using har
          rw [this]
          simpa using hn
      · rintro ⟨ham, _, hci⟩
        unfold childIdx at hci
        by_cases har : a ∈ reps
        · left
          rw [if_pos (by simpa using har)] at hci
          have h3 : reps.idxOf a < reps.length := List.idxOf_lt_length_of_mem har
          have h4 := List.getElem_idxOf h3
          rw [← h4, ← hri]
          congr 1
        · right
          have hc : reps.contains a = false := by simpa using har
          rw [hc] at hci
          exact ⟨⟨hms a ham, ham, by simpa using har⟩, by simpa using hci⟩
  · have : (children d k E ms)[i]? = none := by
      rw [List.getElem?_eq_none_iff]
      simp [children]
      omega
    rw [this]
    simp [hi]

theorem child_nodup (d : Dist) (k E : Nat) (ms : List Nat) (i : Nat) :
    (((children d k E ms)[i]?).getD []).Nodup := by
  by_cases hi : i < k
  · rw [children_getElem? d k E ms i hi]
    simp only [Option.getD_some]
    cases hr : (selectReps d ms k)[i]? with
    | none => simp
    | some r =>
      obtain ⟨hil, hri⟩ := List.getElem?_eq_some_iff.1 hr
      have hrmem : r ∈ selectReps d ms k := hri ▸ List.getElem_mem hil
      simp only [List.nodup_cons]
      refine ⟨?_, List.Nodup.filter _ (List.Nodup.filter _ List.nodup_range)⟩
      intro hmem
      rw [List.mem_filter, List.mem_filter] at hmem
      have := hmem.1.2
      simp [hrmem] at this
  · have : (children d k E ms)[i]? = none := by
      rw [List.getElem?_eq_none_iff]
      simp [children]
      omega
    rw [this]
    simp

/-! ## paths through the tree -/

theorem membersOf_lt (dist : Nat → Dist) (k E : Nat) : ∀ (p : List Nat), ∀ a ∈ membersOf dist k E p, a < E
  | [], a, h => by simpa [membersOf] using h
  | i :: p, a, h => by
    unfold membersOf at h
    exact membersOf_lt dist k E p a
      ((mem_child_iff (dist p.length) k E _ (membersOf_lt dist k E p) i a).1 h).1

theorem membersOf_nodup (dist : Nat → Dist) (k E : Nat) : ∀ (p : List Nat), (membersOf dist k E p).Nodup
  | [] => by simpa [membersOf] using List.nodup_range
  | i :: p => by
    unfold membersOf
    exact child_nodup _ _ _ _ _

theorem pathOf_length (dist : Nat → Dist) (k E m : Nat) : ∀ L, (pathOf dist k E m L).length = L
  | 0 => rfl
  | L + 1 => by simp [pathOf, pathOf_length dist k E m L]

theorem pathOf_succ (dist : Nat → Dist) (k E m L : Nat) :
    pathOf dist k E m (L + 1) =
      childIdx (dist L) (selectReps (dist L) (membersOf dist k E (pathOf dist k E m L)) k) m
        :: pathOf dist k E m L := rfl

/-- a member of the ensemble is in the branch its path names, at every depth -/
theorem mem_pathOf (dist : Nat → Dist) (k E m : Nat) (hk : 1 ≤ k) (hm : m < E) :
    ∀ L, m ∈ membersOf dist k E (pathOf dist k E m L)
  | 0 => by simpa [pathOf, membersOf] using hm
  | L + 1 => by
    have ih := mem_pathOf dist k E m hk hm L
    rw [pathOf_succ]
    unfold membersOf
    rw [pathOf_length]
    rw [mem_child_iff (dist L) k E _ (membersOf_lt dist k E _)]
    refine ⟨ih, ?_, rfl⟩
    obtain ⟨_, _, _, hlen, hne⟩ := selectReps_spec (dist L) (membersOf dist k E (pathOf dist k E m L)) k
    have := childIdx_lt (dist L) _ m (hne (List.ne_nil_of_mem ih) hk)
    omega

/-- and in no other branch: a branch that contains `m` is the one `pathOf` computes -/
theorem pathOf_unique (dist : Nat → Dist) (k E m : Nat) :
    ∀ (p : List Nat), m ∈ membersOf dist k E p → p = pathOf dist k E m p.length
  | [], _ => rfl
  | i :: p, h => by
    unfold membersOf at h
    obtain ⟨hmem, _, hci⟩ := (mem_child_iff (dist p.length) k E _ (membersOf_lt dist k E p) i m).1 h
    have ih := pathOf_unique dist k E m p hmem
    simp only [List.length_cons]
    rw [pathOf_succ, ← ih, hci]

/-- paths only grow at the front: agreeing at depth `L` implies agreeing at every smaller depth -/
theorem pathOf_prefix (dist : Nat → Dist) (k E m1 m2 : Nat) : ∀ (L L' : Nat), L' ≤ L →
    pathOf dist k E m1 L = pathOf dist k E m2 L → pathOf dist k E m1 L' = pathOf dist k E m2 L'
  | 0, L', h, _ => by
    have : L' = 0 := by omega
    subst this
    rfl
  | L + 1, L', h, heq => by
    rcases Nat.lt_or_ge L' (L + 1) with hlt | hge
    · rw [pathOf_succ, pathOf_succ] at heq
      exact pathOf_prefix dist k E m1 m2 L L' (by omega) (List.cons.inj heq).2
    · have : L' = L + 1 := by omega
      subst this
      exact heq

/-! ## the memoising allocator -/

section Allocator
variable {κ : Type} [DecidableEq κ]

theorem lookup_nil (key : κ) : lookup ([] : List (κ × Nat)) key = none := rfl

theorem lookup_cons (c : List (κ × Nat)) (k : κ) (s : Nat) (key : κ) :
    lookup ((k, s) :: c) key = if k = key then some s else lookup c key := by
  unfold lookup
  by_cases h : k = key
  · simp [List.find?, h]
  · have hb : (k == key) = false := by simpa using h
    simp [List.find?, hb, h]

/-- invariant of the allocator for blocks of size `size key`: every cached block lies below the
    counter and blocks of different keys do not overlap -/
structure Inv (size : κ → Nat) (st : Alloc κ) : Prop where
  bound : ∀ key s, lookup st.cache key = some s → s + size key ≤ st.count
  disj : ∀ k1 k2 s1 s2, lookup st.cache k1 = some s1 → lookup st.cache k2 = some s2 → k1 ≠ k2 →
    s1 + size k1 ≤ s2 ∨ s2 + size k2 ≤ s1

theorem inv_init (size : κ → Nat) (c0 : Nat) : Inv size (⟨c0, []⟩ : Alloc κ) :=
  ⟨by intro key s h; simp [lookup_nil] at h, by intro k1 k2 s1 s2 h; simp [lookup_nil] at h⟩

theorem req_spec (size : κ → Nat) (st : Alloc κ) (hinv : Inv size st) (key : κ) :
    Inv size (req st key (size key)).1 ∧
    lookup (req st key (size key)).1.cache key = some (req st key (size key)).2 ∧
    (∀ key' s, lookup st.cache key' = some s → lookup (req st key (size key)).1.cache key' = some s) ∧
    st.count ≤ (req st key (size key)).1.count := by
  unfold req
  cases hl : lookup st.cache key with
  | some s =>
    exact ⟨hinv, hl, fun _ _ h => h, le_refl _⟩
  | none =>
    dsimp only
    refine ⟨⟨?_, ?_⟩, ?_, ?_, by omega⟩
    · intro key' s h
      rw [lookup_cons] at h
      dsimp only
      split at h
      · rename_i hk
        cases h
        subst hk
        omega
      · have := hinv.bound key' s h
        omega
    · intro k1 k2 s1 s2 h1 h2 hne
      rw [lookup_cons] at h1 h2
      split at h1 <;> split at h2
      · rename_i e1 e2
        exact absurd (e1.symm.trans e2) hne
      · rename_i e1 _
        cases h1
        subst e1
        right
        exact hinv.bound k2 s2 h2
      · rename_i _ e2
        cases h2
        subst e2
        left
        exact hinv.bound k1 s1 h1
      · exact hinv.disj k1 k2 s1 s2 h1 h2 hne
    · rw [lookup_cons]
      simp
    · intro key' s h
      rw [lookup_cons]
      split
      · rename_i hk
        subst hk
        rw [hl] at h
        cases h
      · exact h

theorem reqAll_spec (size : κ → Nat) : ∀ (reqs : List (κ × Nat)) (st : Alloc κ), Inv size st →
    (∀ r ∈ reqs, r.2 = size r.1) →
    Inv size (reqAll st reqs).1 ∧
    (∀ key' s, lookup st.cache key' = some s → lookup (reqAll st reqs).1.cache key' = some s) ∧
    (∀ r ∈ reqs, ∃ s, lookup (reqAll st reqs).1.cache r.1 = some s) ∧
    st.count ≤ (reqAll st reqs).1.count
  | [], st, hinv, _ => by
    simp only [reqAll]
    exact ⟨hinv, fun _ _ h => h, by simp, le_refl _⟩
  | (key, n) :: rest, st, hinv, hsz => by
    have hn : n = size key := hsz (key, n) (List.mem_cons_self)
    subst hn
    obtain ⟨h1, h2, h3, h4⟩ := req_spec size st hinv key
    obtain ⟨i1, i2, i3, i4⟩ := reqAll_spec size rest (req st key (size key)).1 h1
      (fun r hr => hsz r (List.mem_cons_of_mem _ hr))
    simp only [reqAll]
    refine ⟨i1, fun key' s h => i2 key' s (h3 key' s h), ?_, le_trans h4 i4⟩
    intro r hr
    rcases List.mem_cons.1 hr with rfl | hr
    · exact ⟨_, i2 _ _ h2⟩
    · exact i3 r hr

end Allocator

/-! ## time segments -/

theorem lastLevel_some (p : Nat → Bool) : ∀ (n L : Nat), lastLevel p n = some L →
    L < n ∧ p L = true ∧ ∀ L', L < L' → L' < n → p L' = false
  | 0, L, h => by simp [lastLevel] at h
  | n + 1, L, h => by
    unfold lastLevel at h
    split at h
    · rename_i hp
      cases h
      exact ⟨by omega, hp, fun L' h1 h2 => by omega⟩
    · rename_i hp
      obtain ⟨h1, h2, h3⟩ := lastLevel_some p n L h
      refine ⟨by omega, h2, ?_⟩
      intro L' hl hl'
      rcases Nat.lt_or_ge L' n with hlt | hge
      · exact h3 L' hl hlt
      · have : L' = n := by omega
        subst this
        simpa using hp

theorem lastLevel_none (p : Nat → Bool) : ∀ (n : Nat), lastLevel p n = none → ∀ L, L < n → p L = false
  | 0, _, L, hL => by omega
  | n + 1, h, L, hL => by
    unfold lastLevel at h
    split at h
    · cases h
    · rename_i hp
      rcases Nat.lt_or_ge L n with hlt | hge
      · exact lastLevel_none p n h L hlt
      · have : L = n := by omega
        subst this
        simpa using hp

/-- from a level whose lower end is `<= t` on, some level's segment contains `t` -/
theorem exists_inSeg_ge (t0 : Rat) (bts : List Rat) (t : Rat) : ∀ (j L : Nat), L + j = bts.length →
    segLo t0 bts L ≤ t → ∃ L', L ≤ L' ∧ L' ≤ bts.length ∧ inSeg t0 bts L' t = true
  | 0, L, hL, hlo => by
    refine ⟨L, le_refl _, by omega, ?_⟩
    unfold inSeg
    have : bts[L]? = none := List.getElem?_eq_none_iff.2 (by omega)
    rw [this]
    simp [hlo]
  | j + 1, L, hL, hlo => by
    have hlt : L < bts.length := by omega
    by_cases hh : t < bts[L]
    · refine ⟨L, le_refl _, by omega, ?_⟩
      unfold inSeg
      rw [List.getElem?_eq_getElem hlt]
      simp [hlo, hh]
    · have hlo' : segLo t0 bts (L + 1) ≤ t := by
        simp only [segLo]
        rw [List.getD_eq_getElem?_getD, List.getElem?_eq_getElem hlt]
        simpa using not_lt.1 hh
      obtain ⟨L', h1, h2, h3⟩ := exists_inSeg_ge t0 bts t j (L + 1) (by omega) hlo'
      exact ⟨L', by omega, h2, h3⟩

theorem inSeg_lo (t0 : Rat) (bts : List Rat) (L : Nat) (t : Rat) (h : inSeg t0 bts L t = true) :
    segLo t0 bts L ≤ t := by
  unfold inSeg at h
  simp only [Bool.and_eq_true, decide_eq_true_eq] at h
  exact h.1

/-- every time stamp from `t0` on is covered by a segment -/
theorem levelAt_isSome (t0 : Rat) (bts : List Rat) (t : Rat) (h : t0 ≤ t) :
    ∃ L, levelAt t0 bts t = some L := by
  cases hl : levelAt t0 bts t with
  | some L => exact ⟨L, rfl⟩
  | none =>
    exfalso
    obtain ⟨L', _, h2, h3⟩ := exists_inSeg_ge t0 bts t bts.length 0 (by omega) (by simpa [segLo] using h)
    have := lastLevel_none _ _ hl L' (by omega)
    rw [h3] at this
    cases this

/-- the level is monotone in time (for any branching times, sorted or not) -/
theorem levelAt_mono (t0 : Rat) (bts : List Rat) (t t' : Rat) (L L' : Nat) (htt : t' ≤ t)
    (h : levelAt t0 bts t = some L) (h' : levelAt t0 bts t' = some L') : L' ≤ L := by
  obtain ⟨_, _, hmax⟩ := lastLevel_some _ _ _ h
  obtain ⟨hL', hp', _⟩ := lastLevel_some _ _ _ h'
  by_contra hcon
  have hlo : segLo t0 bts L' ≤ t := le_trans (inSeg_lo t0 bts L' t' hp') htt
  obtain ⟨L'', h1, h2, h3⟩ := exists_inSeg_ge t0 bts t (bts.length - L') L' (by omega) hlo
  have := hmax L'' (by omega) (by omega)
  rw [h3] at this
  cases this

theorem rankIn_lt_segCount (t0 : Rat) (bts : List Rat) (L : Nat) : ∀ (ts : List Rat) (i : Nat)
    (hi : i < ts.length), inSeg t0 bts L ts[i] = true → rankIn t0 bts L ts i < segCount t0 bts L ts
  | [], i, hi, _ => by simp at hi
  | x :: ts, 0, _, h => by
    simp only [List.getElem_cons_zero] at h
    simp [rankIn, segCount, List.filter, h]
  | x :: ts, i + 1, hi, h => by
    simp only [List.getElem_cons_succ] at h
    have ih := rankIn_lt_segCount t0 bts L ts i (by simpa using hi) h
    unfold rankIn segCount at *
    simp only [List.take_succ_cons, List.filter]
    cases inSeg t0 bts L x <;> simp <;> omega

theorem lastLevel_eq_some (p : Nat → Bool) : ∀ (n L : Nat), L < n → p L = true →
    (∀ L', L < L' → L' < n → p L' = false) → lastLevel p n = some L
  | 0, L, h, _, _ => by omega
  | n + 1, L, h, hp, hmax => by
    unfold lastLevel
    rcases Nat.lt_or_ge L n with hlt | hge
    · have hn : p n = false := hmax n hlt (by omega)
      rw [hn]
      simp only [Bool.false_eq_true, if_false]
      exact lastLevel_eq_some p n L hlt hp (fun L' h1 h2 => hmax L' h1 (by omega))
    · have : L = n := by omega
      subst this
      rw [hp]
      rfl

/-- in a non-decreasing list the entries `<= t` are exactly the first `c` ones -/
theorem sorted_count_split : ∀ (bts : List Rat), bts.Pairwise (· ≤ ·) → ∀ (t : Rat),
    (∀ j (h : j < bts.length), j < (bts.filter (fun b => decide (b ≤ t))).length → bts[j] ≤ t) ∧
    (∀ j (h : j < bts.length), (bts.filter (fun b => decide (b ≤ t))).length ≤ j → t < bts[j])
  | [], _, t => by simp
  | a :: l, hs, t => by
    rw [List.pairwise_cons] at hs
    obtain ⟨ih1, ih2⟩ := sorted_count_split l hs.2 t
    by_cases hat : a ≤ t
    · have hf : (a :: l).filter (fun b => decide (b ≤ t)) = a :: l.filter (fun b => decide (b ≤ t)) := by
        simp [List.filter, hat]
      rw [hf]
      constructor
      · intro j h hj
        cases j with
        | zero => simpa using hat
        | succ j =>
          simp only [List.getElem_cons_succ]
          exact ih1 j (by simpa using h) (by simpa using hj)
      · intro j h hj
        cases j with
        | zero => simp at hj
        | succ j =>
          simp only [List.getElem_cons_succ]
          exact ih2 j (by simpa using h) (by simpa using hj)
    · have hall : ∀ b ∈ l, ¬ b ≤ t := fun b hb hbt => hat (le_trans (hs.1 b hb) hbt)
      have hf : (a :: l).filter (fun b => decide (b ≤ t)) = [] := by
        rw [List.filter_eq_nil_iff]
        intro b hb
        rcases List.mem_cons.1 hb with rfl | hb
        · simpa using hat
        · simpa using hall b hb
      rw [hf]
      constructor
      · intro j _ hj
        simp at hj
      · intro j h _
        cases j with
        | zero => simpa using not_le.1 hat
        | succ j =>
          simp only [List.getElem_cons_succ]
          exact not_le.1 (hall _ (List.getElem_mem _))

/-- **for branching times in non-decreasing order the level at `t` is the number of branching
    times that have passed** (`<= t`) -/
theorem levelAt_sorted (t0 : Rat) (bts : List Rat) (hs : bts.Pairwise (· ≤ ·)) (t : Rat) (ht : t0 ≤ t) :
    levelAt t0 bts t = some (bts.filter (fun b => decide (b ≤ t))).length := by
  obtain ⟨h1, h2⟩ := sorted_count_split bts hs t
  have hc : (bts.filter (fun b => decide (b ≤ t))).length ≤ bts.length := List.length_filter_le _ _
  generalize hcdef : (bts.filter (fun b => decide (b ≤ t))).length = c at *
  unfold levelAt
  apply lastLevel_eq_some
  · omega
  · unfold inSeg
    have hlo : segLo t0 bts c ≤ t := by
      cases c with
      | zero => simpa [segLo] using ht
      | succ c' =>
        simp only [segLo]
        have hlt : c' < bts.length := by omega
        rw [List.getD_eq_getElem?_getD, List.getElem?_eq_getElem hlt]
        exact h1 c' hlt (by omega)
    rcases Nat.lt_or_ge c bts.length with hlt | hge
    · rw [List.getElem?_eq_getElem hlt]
      simp [hlo, h2 c hlt (le_refl _)]
    · rw [List.getElem?_eq_none_iff.2 hge]
      simp [hlo]
  · intro L' hL hL'
    cases L' with
    | zero => omega
    | succ j =>
      have hj : j < bts.length := by omega
      have hlo : segLo t0 bts (j + 1) = bts[j] := by
        simp only [segLo]
        rw [List.getD_eq_getElem?_getD, List.getElem?_eq_getElem hj]
        rfl
      have := h2 j hj (by omega)
      unfold inSeg
      have hd : decide (segLo t0 bts (j + 1) ≤ t) = false := by
        rw [hlo]
        simpa using this
      rw [hd]
      rfl

/-! ## requests of the tree / flat policies -/

theorem treeReqs_consistent (c : TreeCfg) (ts : List Rat) :
    ∀ r ∈ treeReqs c ts, r.2 = (fun p : List Nat => segCount c.t0 c.bts p.length ts) r.1 := by
  intro r hr
  simp only [treeReqs, memberReqs, List.mem_flatMap, List.mem_map, List.mem_range] at hr
  obtain ⟨m, _, L, _, rfl⟩ := hr
  simp [TreeCfg.path, pathOf_length]

theorem treeReqs_mem (c : TreeCfg) (ts : List Rat) (m L : Nat) (hm : m < c.E)
    (hL : L < c.bts.length + 1) : (c.path m L, segCount c.t0 c.bts L ts) ∈ treeReqs c ts := by
  simp only [treeReqs, memberReqs, List.mem_flatMap, List.mem_map, List.mem_range]
  exact ⟨m, hm, L, by simpa [TreeCfg.nb] using hL, rfl⟩

theorem treeAlloc_spec (c : TreeCfg) (ts : List Rat) (count0 : Nat) :
    Inv (fun p : List Nat => segCount c.t0 c.bts p.length ts) (treeAlloc c ts count0) ∧
    ∀ m L, m < c.E → L < c.bts.length + 1 →
      ∃ s, lookup (treeAlloc c ts count0).cache (c.path m L) = some s := by
  obtain ⟨h1, _, h3, _⟩ := reqAll_spec (fun p : List Nat => segCount c.t0 c.bts p.length ts)
    (treeReqs c ts) ⟨count0, []⟩ (inv_init _ count0) (treeReqs_consistent c ts)
  refine ⟨h1, ?_⟩
  intro m L hm hL
  exact h3 _ (treeReqs_mem c ts m L hm hL)

theorem flatReqs_consistent (pol : Policy) (E n : Nat) :
    ∀ r ∈ flatReqs pol E n, r.2 = (fun _ : Option Nat => n) r.1 := by
  intro r hr
  simp only [flatReqs, List.mem_map, List.mem_range] at hr
  obtain ⟨m, _, rfl⟩ := hr
  cases pol <;> rfl


end RtcVerif.C07
