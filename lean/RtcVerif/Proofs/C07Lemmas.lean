import RtcVerif.Model.C07
import Mathlib.Algebra.Order.Field.Rat
import Mathlib.Tactic.Linarith
import Mathlib.Data.List.Basic
import Mathlib.Data.List.Nodup
/-!
Helper lemmas for `Props/C07.lean`: first-argmax / first-argmin scans, the representative
selection, the children of a branch, paths through the tree, the memoising allocator.
-/
namespace RtcVerif.C07

/-! ## scans -/

theorem argmaxFirst_mem (f : Nat → Rat) : ∀ (l : List Nat) (a : Nat), argmaxFirst f l = some a → a ∈ l
  | [], a, h => by simp [argmaxFirst] at h
  | x :: l, a, h => by
    unfold argmaxFirst at h
    cases hl : argmaxFirst f l with
    | none =>
      rw [hl] at h
      simp at h
      simp [h]
    | some b =>
      rw [hl] at h
      simp only at h
      split at h
      · simp at h; simp [h]
      · simp at h
        subst h
        exact List.mem_cons_of_mem _ (argmaxFirst_mem f l b hl)

theorem argmaxFirst_isSome (f : Nat → Rat) : ∀ (l : List Nat), l ≠ [] → ∃ a, argmaxFirst f l = some a
  | [], h => absurd rfl h
  | x :: l, _ => by
    unfold argmaxFirst
    cases argmaxFirst f l with
    | none => exact ⟨x, rfl⟩
    | some b =>
      simp only
      split
      · exact ⟨x, rfl⟩
      · exact ⟨b, rfl⟩

theorem argminFirst_mem (f : Nat → Rat) : ∀ (l : List Nat) (a : Nat), argminFirst f l = some a → a ∈ l
  | [], a, h => by simp [argminFirst] at h
  | x :: l, a, h => by
    unfold argminFirst at h
    cases hl : argminFirst f l with
    | none =>
      rw [hl] at h
      simp at h
      simp [h]
    | some b =>
      rw [hl] at h
      simp only at h
      split at h
      · simp at h; simp [h]
      · simp at h
        subst h
        exact List.mem_cons_of_mem _ (argminFirst_mem f l b hl)

theorem argminFirst_isSome (f : Nat → Rat) : ∀ (l : List Nat), l ≠ [] → ∃ a, argminFirst f l = some a
  | [], h => absurd rfl h
  | x :: l, _ => by
    unfold argminFirst
    cases argminFirst f l with
    | none => exact ⟨x, rfl⟩
    | some b =>
      simp only
      split
      · exact ⟨x, rfl⟩
      · exact ⟨b, rfl⟩

theorem argminFirst_congr (f g : Nat → Rat) : ∀ (l : List Nat), (∀ r ∈ l, f r = g r) →
    argminFirst f l = argminFirst g l
  | [], _ => rfl
  | x :: l, h => by
    unfold argminFirst
    rw [argminFirst_congr f g l (fun r hr => h r (List.mem_cons_of_mem _ hr))]
    cases hl : argminFirst g l with
    | none => rfl
    | some b =>
      have hb : b ∈ l := argminFirst_mem g l b hl
      simp only [h x (List.mem_cons_self), h b (List.mem_cons_of_mem _ hb)]

/-- the scan returns a minimiser -/
theorem argminFirst_le (f : Nat → Rat) : ∀ (l : List Nat) (a : Nat), argminFirst f l = some a →
    ∀ b ∈ l, f a ≤ f b
  | [], a, h => by simp [argminFirst] at h
  | x :: l, a, h => by
    unfold argminFirst at h
    cases hl : argminFirst f l with
    | none =>
      rw [hl] at h
      simp at h
      subst h
      intro b hb
      cases l with
      | nil => simp at hb; subst hb; exact le_refl _
      | cons y l => obtain ⟨z, hz⟩ := argminFirst_isSome f (y :: l) (by simp); rw [hz] at hl; cases hl
    | some c =>
      rw [hl] at h
      simp only at h
      have ih := argminFirst_le f l c hl
      split at h
      · rename_i hle
        simp at h
        subst h
        intro b hb
        rcases List.mem_cons.1 hb with rfl | hb
        · exact le_refl _
        · exact le_trans hle (ih b hb)
      · rename_i hnle
        simp at h
        subst h
        intro b hb
        rcases List.mem_cons.1 hb with rfl | hb
        · exact le_of_lt (not_le.1 hnle)
        · exact ih b hb

/-- the scan returns `a` when `a` is a minimiser and everything before it is strictly larger -/
theorem argminFirst_eq_of_first_min (f : Nat → Rat) (a : Nat) : ∀ (l1 l2 : List Nat),
    (∀ r ∈ l1, f a < f r) → (∀ r ∈ l2, f a ≤ f r) → argminFirst f (l1 ++ a :: l2) = some a
  | [], l2, _, h2 => by
    simp only [List.nil_append]
    unfold argminFirst
    cases hl : argminFirst f l2 with
    | none => rfl
    | some b =>
      have := h2 b (argminFirst_mem f l2 b hl)
      simp [this]
  | x :: l1, l2, h1, h2 => by
    have ih := argminFirst_eq_of_first_min f a l1 l2
      (fun r hr => h1 r (List.mem_cons_of_mem _ hr)) h2
    simp only [List.cons_append]
    unfold argminFirst
    rw [ih]
    have : ¬ f x ≤ f a := not_le.2 (h1 x (List.mem_cons_self))
    simp [this]

/-! ## minima over the representatives -/

theorem minOver_pos (f : Nat → Rat) : ∀ (l : List Nat) (v : Rat), minOver f l = some v →
    (0 < v ↔ ∀ j ∈ l, 0 < f j)
  | [], v, h => by simp [minOver] at h
  | x :: l, v, h => by
    unfold minOver at h
    cases hl : minOver f l with
    | none =>
      rw [hl] at h
      simp at h
      subst h
      cases l with
      | nil => simp
      | cons y l =>
        unfold minOver at hl
        cases h2 : minOver f l <;> simp [h2] at hl
    | some w =>
      rw [hl] at h
      simp at h
      subst h
      have ih := minOver_pos f l w hl
      constructor
      · intro hpos j hj
        rcases List.mem_cons.1 hj with rfl | hj
        · exact lt_of_lt_of_le hpos (min_le_left _ _)
        · exact (ih.1 (lt_of_lt_of_le hpos (min_le_right _ _))) j hj
      · intro hall
        exact lt_min (hall x (List.mem_cons_self)) (ih.2 (fun j hj => hall j (List.mem_cons_of_mem _ hj)))

theorem minOver_isSome (f : Nat → Rat) : ∀ (l : List Nat), l ≠ [] → ∃ v, minOver f l = some v
  | [], h => absurd rfl h
  | x :: l, _ => by
    unfold minOver
    cases minOver f l with
    | none => exact ⟨_, rfl⟩
    | some w => exact ⟨_, rfl⟩

theorem minTo_pos (d : Dist) (reps : List Nat) (c : Nat) (hne : reps ≠ []) :
    0 < minTo d reps c ↔ ∀ j ∈ reps, 0 < d j c := by
  obtain ⟨v, hv⟩ := minOver_isSome (fun j => d j c) reps hne
  unfold minTo
  rw [hv]
  exact minOver_pos _ reps v hv

/-! ## the representatives -/

/-- every later representative has a positive distance to every earlier one -/
def RepsSep (d : Dist) (reps : List Nat) : Prop := reps.Pairwise (fun j c => 0 < d j c)

theorem moreReps_spec (d : Dist) (ms : List Nat) : ∀ (n : Nat) (reps : List Nat),
    reps ≠ [] → (∀ r ∈ reps, r ∈ ms) → reps.Nodup → RepsSep d reps →
    (∀ r ∈ moreReps d ms n reps, r ∈ ms) ∧ (moreReps d ms n reps).Nodup ∧
    RepsSep d (moreReps d ms n reps) ∧ (moreReps d ms n reps).length ≤ reps.length + n ∧
    moreReps d ms n reps ≠ []
  | 0, reps, hne, hsub, hnd, hsep => by
    simp only [moreReps]
    exact ⟨hsub, hnd, hsep, by omega, hne⟩
  | n + 1, reps, hne, hsub, hnd, hsep => by
    unfold moreReps
    cases hc : argmaxFirst (minTo d reps) (ms.filter (fun a => !reps.contains a)) with
    | none =>
      dsimp only
      exact ⟨hsub, hnd, hsep, by omega, hne⟩
    | some c =>
      dsimp only
      split
      · rename_i hpos
        have hcm := argmaxFirst_mem _ _ c hc
        rw [List.mem_filter] at hcm
        obtain ⟨hcms, hcn⟩ := hcm
        have hcn' : c ∉ reps := by simpa using hcn
        have hne' : reps ++ [c] ≠ [] := by simp
        have hsub' : ∀ r ∈ reps ++ [c], r ∈ ms := by
          intro r hr
          rcases List.mem_append.1 hr with hr | hr
          · exact hsub r hr
          · simp at hr; subst hr; exact hcms
        have hnd' : (reps ++ [c]).Nodup := by
          rw [List.nodup_append]
          refine ⟨hnd, by simp, ?_⟩
          intro a ha b hb
          simp at hb
          subst hb
          intro h
          subst h
          exact hcn' ha
        have hsep' : RepsSep d (reps ++ [c]) := by
          unfold RepsSep
          rw [List.pairwise_append]
          refine ⟨hsep, by simp, ?_⟩
          intro j hj b hb
          simp at hb
          subst hb
          exact (minTo_pos d reps b hne).1 hpos j hj
        obtain ⟨h1, h2, h3, h4, h5⟩ := moreReps_spec d ms n (reps ++ [c]) hne' hsub' hnd' hsep'
        refine ⟨h1, h2, h3, ?_, h5⟩
        simp at h4
        omega
      · exact ⟨hsub, hnd, hsep, by omega, hne⟩

theorem selectReps_spec (d : Dist) (ms : List Nat) (k : Nat) :
    (∀ r ∈ selectReps d ms k, r ∈ ms) ∧ (selectReps d ms k).Nodup ∧
    RepsSep d (selectReps d ms k) ∧ (selectReps d ms k).length ≤ k ∧
    (ms ≠ [] → 1 ≤ k → selectReps d ms k ≠ []) := by
  cases k with
  | zero => simp [selectReps, RepsSep]
  | succ k =>
    unfold selectReps
    cases hr : argmaxFirst (colMax d ms) ms with
    | none =>
      refine ⟨by simp, by simp, by simp [RepsSep], by simp, ?_⟩
      intro hne
      obtain ⟨a, ha⟩ := argmaxFirst_isSome (colMax d ms) ms hne
      rw [ha] at hr
      cases hr
    | some r =>
      simp only
      have hrm := argmaxFirst_mem _ _ r hr
      obtain ⟨h1, h2, h3, h4, h5⟩ := moreReps_spec d ms k [r] (by simp)
        (by intro x hx; simp at hx; subst hx; exact hrm) (by simp) (by simp [RepsSep])
      refine ⟨h1, h2, h3, ?_, fun _ _ => h5⟩
      simp at h4
      omega

/-! ## child index -/

theorem nearestRep_lt (d : Dist) (reps : List Nat) (a : Nat) (hne : reps ≠ []) :
    nearestRep d reps a < reps.length := by
  unfold nearestRep
  obtain ⟨r, hr⟩ := argminFirst_isSome (fun r => d a r) reps hne
  rw [hr]
  exact List.idxOf_lt_length_of_mem (argminFirst_mem _ _ r hr)

theorem childIdx_lt (d : Dist) (reps : List Nat) (a : Nat) (hne : reps ≠ []) :
    childIdx d reps a < reps.length := by
  unfold childIdx
  split
  · rename_i h
    exact List.idxOf_lt_length_of_mem (by simpa using h)
  · exact nearestRep_lt d reps a hne

/-! ## the children of a branch -/

theorem children_getElem? (d : Dist) (k E : Nat) (ms : List Nat) (i : Nat) (hi : i < k) :
    (children d k E ms)[i]? = some
      (match (selectReps d ms k)[i]? with
       | none => []
       | some r => r :: ((List.range E).filter
            (fun a => ms.contains a && !(selectReps d ms k).contains a)).filter
            (fun a => nearestRep d (selectReps d ms k) a == i)) := by
  unfold children
  simp only [List.getElem?_map, List.getElem?_range hi, Option.map_some]
  rfl

/-- **membership in child `i`**: exactly the members of the parent whose child index is `i` -/
theorem mem_child_iff (d : Dist) (k E : Nat) (ms : List Nat) (hms : ∀ a ∈ ms, a < E) (i a : Nat) :
    a ∈ ((children d k E ms)[i]?).getD [] ↔
      a ∈ ms ∧ i < k ∧ childIdx d (selectReps d ms k) a = i := by
  by_cases hi : i < k
  · rw [children_getElem? d k E ms i hi]
    simp only [Option.getD_some]
    obtain ⟨hsub, hnd, _, hlen, hne⟩ := selectReps_spec d ms k
    generalize selectReps d ms k = reps at *
    cases hr : reps[i]? with
    | none =>
      simp only [List.not_mem_nil, false_iff, not_and]
      intro ha _
      have hne' : reps ≠ [] := hne (List.ne_nil_of_mem ha) (by omega)
      have h1 := childIdx_lt d reps a hne'
      have h2 : reps.length ≤ i := List.getElem?_eq_none_iff.1 hr
      omega
    | some r =>
      obtain ⟨hil, hri⟩ := List.getElem?_eq_some_iff.1 hr
      have hrmem : r ∈ reps := hri ▸ List.getElem_mem hil
      simp only [List.mem_cons, List.mem_filter, List.mem_range, Bool.and_eq_true,
        List.contains_iff_mem, Bool.not_eq_true', beq_iff_eq]
      constructor
      · rintro (rfl | ⟨⟨_, ham, har⟩, hn⟩)
        · refine ⟨hsub _ hrmem, hi, ?_⟩
          unfold childIdx
          rw [if_pos (by simpa using hrmem)]
          rw [← hri]
          exact List.Nodup.idxOf_getElem hnd i hil
        · refine ⟨ham, hi, ?_⟩
          unfold childIdx
          have : reps.contains a = false := by simpa using har
          rw [this]
          simpa using hn
      · rintro ⟨ham, _, hci⟩
        unfold childIdx at hci
        by_cases har : a ∈ reps
        · left
          rw [if_pos (by simpa using har)] at hci
          have h3 : reps.idxOf a < reps.length := List.idxOf_lt_length_of_mem har
          have h4 := List.getElem_idxOf h3
          rw [← h4, ← hri]
          congr 1
        · right
          have hc : reps.contains a = false := by simpa using har
          rw [hc] at hci
          exact ⟨⟨hms a ham, ham, by simpa using har⟩, by simpa using hci⟩
  · have : (children d k E ms)[i]? = none := by
      rw [List.getElem?_eq_none_iff]
      simp [children]
      omega
    rw [this]
    simp [hi]

theorem child_nodup (d : Dist) (k E : Nat) (ms : List Nat) (i : Nat) :
    (((children d k E ms)[i]?).getD []).Nodup := by
  by_cases hi : i < k
  · rw [children_getElem? d k E ms i hi]
    simp only [Option.getD_some]
    cases hr : (selectReps d ms k)[i]? with
    | none => simp
    | some r =>
      obtain ⟨hil, hri⟩ := List.getElem?_eq_some_iff.1 hr
      have hrmem : r ∈ selectReps d ms k := hri ▸ List.getElem_mem hil
      simp only [List.nodup_cons]
      refine ⟨?_, List.Nodup.filter _ (List.Nodup.filter _ List.nodup_range)⟩
      intro hmem
      rw [List.mem_filter, List.mem_filter] at hmem
      have := hmem.1.2
      simp [hrmem] at this
  · have : (children d k E ms)[i]? = none := by
      rw [List.getElem?_eq_none_iff]
      simp [children]
      omega
    rw [this]
    simp

/-! ## paths through the tree -/

theorem membersOf_lt (dist : Nat → Dist) (k E : Nat) : ∀ (p : List Nat), ∀ a ∈ membersOf dist k E p, a < E
  | [], a, h => by simpa [membersOf] using h
  | i :: p, a, h => by
    unfold membersOf at h
    exact membersOf_lt dist k E p a
      ((mem_child_iff (dist p.length) k E _ (membersOf_lt dist k E p) i a).1 h).1

theorem membersOf_nodup (dist : Nat → Dist) (k E : Nat) : ∀ (p : List Nat), (membersOf dist k E p).Nodup
  | [] => by simpa [membersOf] using List.nodup_range
  | i :: p => by
    unfold membersOf
    exact child_nodup _ _ _ _ _

theorem pathOf_length (dist : Nat → Dist) (k E m : Nat) : ∀ L, (pathOf dist k E m L).length = L
  | 0 => rfl
  | L + 1 => by simp [pathOf, pathOf_length dist k E m L]

theorem pathOf_succ (dist : Nat → Dist) (k E m L : Nat) :
    pathOf dist k E m (L + 1) =
      childIdx (dist L) (selectReps (dist L) (membersOf dist k E (pathOf dist k E m L)) k) m
        :: pathOf dist k E m L := rfl

/-- a member of the ensemble is in the branch its path names, at every depth -/
theorem mem_pathOf (dist : Nat → Dist) (k E m : Nat) (hk : 1 ≤ k) (hm : m < E) :
    ∀ L, m ∈ membersOf dist k E (pathOf dist k E m L)
  | 0 => by simpa [pathOf, membersOf] using hm
  | L + 1 => by
    have ih := mem_pathOf dist k E m hk hm L
    rw [pathOf_succ]
    unfold membersOf
    rw [pathOf_length]
    rw [mem_child_iff (dist L) k E _ (membersOf_lt dist k E _)]
    refine ⟨ih, ?_, rfl⟩
    obtain ⟨_, _, _, hlen, hne⟩ := selectReps_spec (dist L) (membersOf dist k E (pathOf dist k E m L)) k
    have := childIdx_lt (dist L) _ m (hne (List.ne_nil_of_mem ih) hk)
    omega

/-- and in no other branch: a branch that contains `m` is the one `pathOf` computes -/
theorem pathOf_unique (dist : Nat → Dist) (k E m : Nat) :
    ∀ (p : List Nat), m ∈ membersOf dist k E p → p = pathOf dist k E m p.length
  | [], _ => rfl
  | i :: p, h => by
    unfold membersOf at h
    obtain ⟨hmem, _, hci⟩ := (mem_child_iff (dist p.length) k E _ (membersOf_lt dist k E p) i m).1 h
    have ih := pathOf_unique dist k E m p hmem
    simp only [List.length_cons]
    rw [pathOf_succ, ← ih, hci]

/-- paths only grow at the front: agreeing at depth `L` implies agreeing at every smaller depth -/
theorem pathOf_prefix (dist : Nat → Dist) (k E m1 m2 : Nat) : ∀ (L L' : Nat), L' ≤ L →
    pathOf dist k E m1 L = pathOf dist k E m2 L → pathOf dist k E m1 L' = pathOf dist k E m2 L'
  | 0, L', h, _ => by
    have : L' = 0 := by omega
    subst this
    rfl
  | L + 1, L', h, heq => by
    rcases Nat.lt_or_ge L' (L + 1) with hlt | hge
    · rw [pathOf_succ, pathOf_succ] at heq
      exact pathOf_prefix dist k E m1 m2 L L' (by omega) (List.cons.inj heq).2
    · have : L' = L + 1 := by omega
      subst this
      exact heq

end RtcVerif.C07
