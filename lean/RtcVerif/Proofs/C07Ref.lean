import RtcVerif.Model.C07Ref
import RtcVerif.Proofs.C07Lemmas
import Mathlib.Data.List.Perm.Basic
import Mathlib.Data.List.Nodup
/-!
Bridging lemmas: the reference definitions that mirror the Python statements of the clustering
(`Model/C07Ref.lean`) equal the functions the C07 property theorems are about.
-/
namespace RtcVerif.C07

theorem moreReps_succ_eq (d : Dist) (ms : List Nat) (n : Nat) (reps : List Nat) :
    moreReps d ms (n + 1) reps =
      match nextSeed d ms reps with
      | none => reps
      | some c => moreReps d ms n (reps ++ [c]) := by
  rw [moreReps]
  unfold nextSeed
  cases argmaxFirst (minTo d reps) (ms.filter (fun a => !reps.contains a)) with
  | none => rfl
  | some c =>
    dsimp only
    split <;> rfl

theorem selectReps_eq_firstSeed (d : Dist) (ms : List Nat) (k : Nat) :
    selectReps d ms (k + 1) =
      match firstSeedRef d ms with
      | none => []
      | some r => moreReps d ms k [r] := rfl

/-! ### minimum over a list does not depend on the order -/

theorem minOver_cons (f : Nat → Rat) (a : Nat) (l : List Nat) :
    minOver f (a :: l) = some (match minOver f l with | none => f a | some v => min (f a) v) := by
  rw [minOver]
  cases minOver f l <;> rfl

theorem minOver_perm (f : Nat → Rat) {l1 l2 : List Nat} (h : l1.Perm l2) : minOver f l1 = minOver f l2 := by
  induction h with
  | nil => rfl
  | cons a _ ih => rw [minOver_cons, minOver_cons, ih]
  | swap a b l =>
    rw [minOver_cons, minOver_cons, minOver_cons, minOver_cons]
    cases minOver f l with
    | none => simp [min_comm]
    | some v => simp [min_left_comm]
  | trans _ _ ih1 ih2 => rw [ih1, ih2]

/-! ### argmax over all members with `-inf` for the unavailable ones -/

theorem argmaxNI_filter (g : Nat → Option Rat) (f : Nat → Rat) (p : Nat → Bool) : ∀ (l : List Nat),
    (∀ c ∈ l, g c = if p c then some (f c) else none) →
    argmaxNI g l = match argmaxFirst f (l.filter p) with
                   | some c => some c
                   | none => l.head?
  | [], _ => rfl
  | a :: l, h => by
    have ih := argmaxNI_filter g f p l (fun c hc => h c (List.mem_cons_of_mem _ hc))
    have ha := h a List.mem_cons_self
    rw [argmaxNI, ih]
    by_cases hpa : p a = true
    · rw [List.filter_cons_of_pos hpa, argmaxFirst]
      cases hl : argmaxFirst f (l.filter p) with
      | none =>
        dsimp only
        cases hh : l.head? with
        | none => rfl
        | some b =>
          dsimp only
          have hb : b ∈ l := List.mem_of_mem_head? hh
          have hpb : p b = false := by
            by_contra hcon
            have : b ∈ l.filter p := List.mem_filter.2 ⟨hb, by simpa using hcon⟩
            obtain ⟨z, hz⟩ := argmaxFirst_isSome f (l.filter p) (List.ne_nil_of_mem this)
            rw [hz] at hl
            cases hl
          rw [h b (List.mem_cons_of_mem _ hb), ha, hpa, hpb]
          simp [leNI]
      | some b =>
        dsimp only
        have hb := argmaxFirst_mem f _ b hl
        rw [List.mem_filter] at hb
        rw [h b (List.mem_cons_of_mem _ hb.1), ha, hpa, hb.2]
        simp only [if_true, leNI]
        by_cases hle : f b ≤ f a <;> simp [hle]
    · have hpa' : p a = false := by simpa using hpa
      rw [List.filter_cons_of_neg (by simpa using hpa')]
      cases hl : argmaxFirst f (l.filter p) with
      | none =>
        dsimp only
        cases hh : l.head? with
        | none => rfl
        | some b =>
          dsimp only
          have hb : b ∈ l := List.mem_of_mem_head? hh
          have hpb : p b = false := by
            by_contra hcon
            have : b ∈ l.filter p := List.mem_filter.2 ⟨hb, by simpa using hcon⟩
            obtain ⟨z, hz⟩ := argmaxFirst_isSome f (l.filter p) (List.ne_nil_of_mem this)
            rw [hz] at hl
            cases hl
          rw [h b (List.mem_cons_of_mem _ hb), ha, hpa', hpb]
          simp [leNI]
      | some b =>
        dsimp only
        have hb := argmaxFirst_mem f _ b hl
        rw [List.mem_filter] at hb
        rw [h b (List.mem_cons_of_mem _ hb.1), ha, hpa', hb.2]
        simp [leNI]

/-- **the seed continuation of the source is the model's**: with `available` = the members of
    the branch that are not representatives yet -/
theorem nextSeedRef_eq_model (d : Dist) (ms reps : List Nat) (hms : ms.Nodup) (hnd : reps.Nodup)
    (hsub : ∀ r ∈ reps, r ∈ ms) (hne : reps ≠ []) :
    nextSeedRef d ms (ms.filter (fun a => !reps.contains a)) = nextSeed d ms reps := by
  have hperm : (ms.filter (fun j => reps.contains j)).Perm reps := by
    rw [List.perm_ext_iff_of_nodup (List.Nodup.filter _ hms) hnd]
    intro a
    simp only [List.mem_filter, List.contains_iff_mem]
    exact ⟨fun h => h.2, fun h => ⟨hsub a h, h⟩⟩
  obtain ⟨v0, hv0⟩ : ∃ v, ∀ c, minOver (fun j => d j c) reps = some (minTo d reps c) := by
    refine ⟨0, fun c => ?_⟩
    obtain ⟨v, hv⟩ := minOver_isSome (fun j => d j c) reps hne
    simp [minTo, hv]
  have hscore : ∀ c ∈ ms, seedScoreRef d ms (ms.filter (fun a => !reps.contains a)) c
      = if (fun a => !reps.contains a) c then some (minTo d reps c) else none := by
    intro c hc
    unfold seedScoreRef
    by_cases hcr : c ∈ reps
    · have : (ms.filter (fun a => !reps.contains a)).contains c = false := by
        simp [List.mem_filter, hcr]
      simp [this, hcr, minOver]
    · have hcA : (ms.filter (fun a => !reps.contains a)).contains c = true := by
        simp [List.mem_filter, hc, hcr]
      have hfil : ms.filter (fun j => !(ms.filter (fun a => !reps.contains a)).contains j &&
          (ms.filter (fun a => !reps.contains a)).contains c) = ms.filter (fun j => reps.contains j) := by
        apply List.filter_congr
        intro j hj
        simp [List.mem_filter, hj, hc, hcr]
      rw [hfil, minOver_perm _ hperm, hv0 c]
      simp [hcr]
  unfold nextSeedRef nextSeed
  rw [argmaxNI_filter _ (minTo d reps) (fun a => !reps.contains a) ms hscore]
  cases hl : argmaxFirst (minTo d reps) (ms.filter (fun a => !reps.contains a)) with
  | none =>
    dsimp only
    cases hh : ms.head? with
    | none => rfl
    | some b =>
      dsimp only
      have hb : b ∈ ms := List.mem_of_mem_head? hh
      have hbr : b ∈ reps := by
        by_contra hcon
        have : b ∈ ms.filter (fun a => !reps.contains a) := List.mem_filter.2 ⟨hb, by simpa using hcon⟩
        obtain ⟨z, hz⟩ := argmaxFirst_isSome (minTo d reps) _ (List.ne_nil_of_mem this)
        rw [hz] at hl
        cases hl
      rw [hscore b hb]
      simp [hbr, leNI]
  | some c =>
    dsimp only
    have hc := argmaxFirst_mem _ _ c hl
    rw [List.mem_filter] at hc
    have hc2 : (fun a => !reps.contains a) c = true := hc.2
    rw [hscore c hc.1, if_pos hc2]
    simp only [leNI]
    by_cases hpos : 0 < minTo d reps c
    · simp [hpos, not_le.2 hpos]
    · simp [hpos, not_lt.1 hpos]

/-! ### the allocation scan -/

theorem scanFrom_cons (d : Dist) (a : Nat) (h : Option Nat) (t : List (Option Nat)) (i : Nat)
    (st : Nat × Option Rat) :
    scanFrom d a (h :: t) i st = scanFrom d a t (i + 1) (scanStep d a i h st) := by
  cases h <;> rfl

theorem scanFrom_nones (d : Dist) (a : Nat) : ∀ (m i : Nat) (st : Nat × Option Rat),
    scanFrom d a (List.replicate m none) i st = st
  | 0, _, _ => rfl
  | m + 1, i, st => by
    rw [List.replicate_succ, scanFrom]
    exact scanFrom_nones d a m (i + 1) st

theorem scanFrom_append (d : Dist) (a : Nat) : ∀ (l1 l2 : List (Option Nat)) (i : Nat) (st : Nat × Option Rat),
    scanFrom d a (l1 ++ l2) i st = scanFrom d a l2 (i + l1.length) (scanFrom d a l1 i st)
  | [], l2, i, st => by simp [scanFrom]
  | none :: t, l2, i, st => by
    simp only [List.cons_append, scanFrom, List.length_cons]
    rw [scanFrom_append d a t l2 (i + 1) st]
    congr 1
    omega
  | some r :: t, l2, i, st => by
    simp only [List.cons_append, scanFrom, List.length_cons]
    rw [scanFrom_append d a t l2 (i + 1)]
    congr 1
    omega

/-- the left-to-right scan with a strict `<` ends at the first minimiser -/
theorem scanFrom_somes (d : Dist) (a : Nat) : ∀ (rs : List Nat) (i mi : Nat) (m : Option Rat),
    (scanFrom d a (rs.map some) i (mi, m)).1 =
      match argminFirst (fun r => d a r) rs with
      | none => mi
      | some r => if ltInf (d a r) m then i + rs.idxOf r else mi
  | [], i, mi, m => rfl
  | r0 :: t, i, mi, m => by
    simp only [List.map_cons, scanFrom]
    rw [argminFirst]
    by_cases h0 : ltInf (d a r0) m = true
    · rw [if_pos h0, scanFrom_somes d a t (i + 1) i (some (d a r0))]
      cases hb : argminFirst (fun r => d a r) t with
      | none => simp [h0]
      | some b =>
        dsimp only
        by_cases hle : d a r0 ≤ d a b
        · have : ltInf (d a b) (some (d a r0)) = false := by simp [ltInf, not_lt.2 hle]
          simp [hle, this, h0]
        · have hlt : d a b < d a r0 := not_le.1 hle
          have hne : r0 ≠ b := by intro e; subst e; exact lt_irrefl _ hlt
          have h1 : ltInf (d a b) (some (d a r0)) = true := by simp [ltInf, hlt]
          have h2 : ltInf (d a b) m = true := by
            cases m with
            | none => rfl
            | some mv =>
              simp only [ltInf, decide_eq_true_eq] at h0 ⊢
              exact lt_trans hlt h0
          have hidx : (r0 :: t).idxOf b = t.idxOf b + 1 := by
            rw [List.idxOf_cons_ne _ hne]
          simp only [hle, if_false, h1, h2, if_true, hidx]
          rw [Nat.add_assoc i 1, Nat.add_comm 1]
    · have h0' : ltInf (d a r0) m = false := by simpa using h0
      rw [if_neg h0, scanFrom_somes d a t (i + 1) mi m]
      cases hb : argminFirst (fun r => d a r) t with
      | none => simp [h0']
      | some b =>
        dsimp only
        by_cases hle : d a r0 ≤ d a b
        · have : ltInf (d a b) m = false := by
            cases m with
            | none => simp [ltInf] at h0'
            | some mv =>
              simp only [ltInf, decide_eq_false_iff_not, not_lt] at h0' ⊢
              exact le_trans h0' hle
          simp [hle, this, h0']
        · have hlt : d a b < d a r0 := not_le.1 hle
          have hne : r0 ≠ b := by intro e; subst e; exact lt_irrefl _ hlt
          have hidx : (r0 :: t).idxOf b = t.idxOf b + 1 := by
            rw [List.idxOf_cons_ne _ hne]
          simp only [hle, if_false, hidx]
          rw [Nat.add_assoc i 1, Nat.add_comm 1]

/-- **the allocation scan of the source is the model's nearest representative**: the heads of
    the children are the representatives followed by empty children -/
theorem scanRef_eq_nearestRep (d : Dist) (a : Nat) (reps : List Nat) (m : Nat) :
    scanRef d a (reps.map some ++ List.replicate m none) = nearestRep d reps a := by
  unfold scanRef nearestRep
  rw [scanFrom_append, scanFrom_nones, scanFrom_somes]
  cases argminFirst (fun r => d a r) reps with
  | none => rfl
  | some r => simp [ltInf]

end RtcVerif.C07
