import RtcVerif.Model.C08
import RtcVerif.Proofs.C08Scale
/-! Small helper lemmas for `Props/C08.lean`. -/
namespace RtcVerif.C08
open RtcVerif

theorem within_iff (lo : EVal) (v : Rat) (hi : EVal) :
    within lo v hi = true ↔ lo ≤ EVal.fin v ∧ EVal.fin v ≤ hi := by
  simp [within, EVal.le_def]


theorem sideAt_sameButNom (b b' : C05.Blk) (h : SameButNom b b') (s : C05.Side) (fill : XVal) (c i : Nat) :
    C05.sideAt b s fill c i = C05.sideAt b' s fill c i := by
  obtain ⟨_, ht, hsc, _, _, hm⟩ := h
  cases s <;> simp [C05.sideAt, ht, hsc, hm]


theorem xmul_xdiv (x : XVal) (ν : Rat) (hν : ν ≠ 0) : C05.xmulPos (C05.xdivPos x ν) ν = x := by
  cases x with
  | nan => rfl
  | e v => simp [C05.xdivPos, C05.xmulPos, EVal.mulPos_divPos v ν hν]


end RtcVerif.C08
