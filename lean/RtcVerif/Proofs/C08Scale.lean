import RtcVerif.Proofs.NumOrder
import Mathlib.Algebra.Order.Field.Basic
import Mathlib.Tactic.Linarith
import Mathlib.Tactic.FieldSimp
import Mathlib.Tactic.Ring
/-!
Scaling by a positive nominal on extended values (`-inf | fin q | +inf`): used by C05
(`results_in_box`) and C08 (bounds scaling lemma).
-/
namespace RtcVerif.EVal

theorem mulPos_divPos (a : EVal) (ν : Rat) (hν : ν ≠ 0) : (a.divPos ν).mulPos ν = a := by
  cases a with
  | ninf => rfl
  | pinf => rfl
  | fin q => simp [divPos, mulPos, div_mul_cancel₀ q hν]

theorem divPos_mulPos (a : EVal) (ν : Rat) (hν : ν ≠ 0) : (a.mulPos ν).divPos ν = a := by
  cases a with
  | ninf => rfl
  | pinf => rfl
  | fin q => simp [divPos, mulPos, mul_div_cancel_right₀ q hν]

/-- `lb/ν ≤ x ↔ lb ≤ ν·x` for a positive nominal, also for `lb = ∓inf` -/
theorem divPos_le_fin_iff (L : EVal) (ν x : Rat) (hν : 0 < ν) :
    L.divPos ν ≤ fin x ↔ L ≤ fin (ν * x) := by
  cases L with
  | ninf => simp [divPos, le_def, le]
  | pinf => simp [divPos, le_def, le]
  | fin q =>
    simp only [divPos, le_fin_fin]
    rw [div_le_iff₀ hν, mul_comm]

/-- `x ≤ ub/ν ↔ ν·x ≤ ub` for a positive nominal, also for `ub = ±inf` -/
theorem fin_le_divPos_iff (U : EVal) (ν x : Rat) (hν : 0 < ν) :
    fin x ≤ U.divPos ν ↔ fin (ν * x) ≤ U := by
  cases U with
  | ninf => simp [divPos, le_def, le]
  | pinf => simp [divPos, le_def, le]
  | fin q =>
    simp only [divPos, le_fin_fin]
    rw [le_div_iff₀ hν, mul_comm]

/-- order is preserved by scaling with a positive constant -/
theorem divPos_le_divPos_iff (a b : EVal) (ν : Rat) (hν : 0 < ν) :
    a.divPos ν ≤ b.divPos ν ↔ a ≤ b := by
  cases a <;> cases b <;> simp [divPos, le_def, le]
  exact div_le_div_iff_of_pos_right hν

theorem mulPos_le_mulPos_iff (a b : EVal) (ν : Rat) (hν : 0 < ν) :
    a.mulPos ν ≤ b.mulPos ν ↔ a ≤ b := by
  cases a <;> cases b <;> simp [mulPos, le_def, le]
  exact mul_le_mul_iff_of_pos_right hν

end RtcVerif.EVal
