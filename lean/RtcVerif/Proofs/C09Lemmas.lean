import RtcVerif.Model.C09Sim
import Mathlib.Algebra.Order.Field.Rat
import Mathlib.Tactic.Linarith
import Mathlib.Tactic.Ring
import Mathlib.Tactic.FieldSimp
/-!
Helper lemmas for property C09 (list slicing, the scaling substitution, what `update` leaves in
the state vector).
-/
namespace RtcVerif.C09

/-- nominals are registered for unknowns of a step only (states, algebraics, extra variables):
    `self.__nominals` is filled from `states`, `alg_states` and `extra_variables()` -/
def NomWF (M : Static) : Prop := ∀ q ∈ M.nom, q.1 < M.L.nX

theorem lookup_none_of_wf {tab : NomTable} {n : Nat} (h : ∀ q ∈ tab, q.1 < n) (i : Nat) (hi : n ≤ i) :
    tab.lookup i = none := by
  induction tab with
  | nil => rfl
  | cons q rest ih =>
    obtain ⟨j, ν⟩ := q
    have hj : j < n := h (j, ν) (by simp)
    have hne : (i == j) = false := by
      apply beq_false_of_ne
      omega
    rw [List.lookup_cons, hne]
    exact ih (fun q hq => h q (by simp [hq]))

theorem nomAt_of_wf {M : Static} (h : NomWF M) (i : Nat) (hi : M.L.nX ≤ i) : nomAt M.nom i = 1 := by
  unfold nomAt
  rw [lookup_none_of_wf h i hi]

theorem scaleSubst_length (L : Layout) (tab : NomTable) (X : Vec) :
    (scaleSubst L tab X).length = X.length := by
  simp [scaleSubst]

theorem scaleSubst_getD (L : Layout) (tab : NomTable) (X : Vec) (i : Nat) (hi : i < X.length)
    (hx : i ≤ L.nX) : (scaleSubst L tab X).getD i 0 = X.getD i 0 * nomAt tab i := by
  unfold scaleSubst nomAt
  rw [List.getD_eq_getElem?_getD, List.getElem?_map, List.getElem?_range hi]
  simp only [Option.map_some, Option.getD_some]
  cases tab.lookup i with
  | none => simp
  | some ν => simp [hx]

theorem slice_length (v : Vec) (start n : Nat) (h : start + n ≤ v.length) :
    (slice v start n).length = n := by
  simp [slice]; omega

theorem slice_getD (v : Vec) (start n k : Nat) (hk : k < n) :
    (slice v start n).getD k 0 = v.getD (start + k) 0 := by
  simp only [slice, List.getD_eq_getElem?_getD, List.getElem?_take, hk, if_true, List.getElem?_drop]

/-- the physical `Env` of an object state: unknowns through the nominal substitution, raw time,
    the constant inputs, the frozen parameters -/
def envOf (M : Static) (s : Sim) : Env :=
  mkEnv M.L (scaleSubst M.L M.nom (s.sv.take M.L.nX)) (s.sv.getD M.L.iT 0)
    ((s.sv.drop (M.L.nX + 1)).take M.L.nU) M.p

/-- difference quotients of the states between two object states -/
def diffQuot (M : Static) (s s' : Sim) (dt : Rat) : Vec :=
  (List.range M.L.nS).map fun k => ((envOf M s').x.getD k 0 - (envOf M s).x.getD k 0) / dt

theorem mkEnv_x_getD (L : Layout) (X : Vec) (t : Rat) (u p : Vec) (k : Nat) (hk : k < L.nS) :
    (mkEnv L X t u p).x.getD k 0 = X.getD k 0 := by
  show (slice X 0 L.nS).getD k 0 = _
  rw [slice_getD _ _ _ _ hk, Nat.zero_add]

theorem mkEnv_d_getD (L : Layout) (X : Vec) (t : Rat) (u p : Vec) (k : Nat) (hk : k < L.nS) :
    (mkEnv L X t u p).d.getD k 0 = X.getD (L.iD k) 0 := by
  show (slice X (L.nS + L.nA) L.nS).getD k 0 = _
  rw [slice_getD _ _ _ _ hk]; rfl

theorem mkEnv_d_length (L : Layout) (X : Vec) (t : Rat) (u p : Vec) (h : L.nX ≤ X.length) :
    (mkEnv L X t u p).d.length = L.nS := by
  simp only [mkEnv]
  apply slice_length
  simp only [Layout.nX] at h
  omega

/-- the state vector after `set_var("time", …)`: only entry `nX` changes -/
theorem setVar_time_sv (M : Static) (s : Sim) (v : Rat) (hwf : NomWF M) :
    (setVar M s M.L.iT false v).sv = s.sv.set M.L.nX v := by
  simp [setVar, Layout.iT, nomAt_of_wf hwf M.L.nX (le_refl _)]

theorem getTime_raw (M : Static) (s : Sim) (hwf : NomWF M) : getTime M s = s.sv.getD M.L.iT 0 := by
  simp [getTime, getVar, Layout.iT, nomAt_of_wf hwf M.L.nX (le_refl _)]

/-- what `update` does, spelled out: the root finder is called on the step residual built from
    the old unknowns, the advanced time and the current inputs; on success its answer replaces
    the unknowns, on failure nothing but the time (and `dt`) has changed -/
theorem update_unfold (M : Static) (F G : ResFn) (root : Root) (s : Sim) (dtArg : Rat)
    (hwf : NomWF M) (hlen : s.sv.length = M.L.len) :
    let dt := if dtArg > 0 then dtArg else s.dt
    let sv2 := s.sv.set M.L.nX (s.sv.getD M.L.nX 0 + dt)
    let consts := sv2.take (M.L.nX + 1 + M.L.nU)
    update M F G root s dtArg =
      match root (fun X => stepResidual M F G X dt consts) (s.sv.take M.L.nX) with
      | none => .raised { sv := sv2, dt := dt }
      | some next => .returned { sv := next.take M.L.nX ++ sv2.drop M.L.nX, dt := dt } := by
  intro dt sv2 consts
  have hdt : (if dtArg > 0 then ({ s with dt := dtArg } : Sim) else s).dt = dt := by
    simp only [dt]; split <;> rfl
  have hsv : (if dtArg > 0 then ({ s with dt := dtArg } : Sim) else s).sv = s.sv := by
    split <;> rfl
  have hs2 : (setVar M (if dtArg > 0 then ({ s with dt := dtArg } : Sim) else s) M.L.iT false
      (getTime M (if dtArg > 0 then ({ s with dt := dtArg } : Sim) else s)
        + (if dtArg > 0 then ({ s with dt := dtArg } : Sim) else s).dt)) = { sv := sv2, dt := dt } := by
    have h1 := setVar_time_sv M (if dtArg > 0 then ({ s with dt := dtArg } : Sim) else s)
      (getTime M (if dtArg > 0 then ({ s with dt := dtArg } : Sim) else s)
        + (if dtArg > 0 then ({ s with dt := dtArg } : Sim) else s).dt) hwf
    have h2 : (setVar M (if dtArg > 0 then ({ s with dt := dtArg } : Sim) else s) M.L.iT false
      (getTime M (if dtArg > 0 then ({ s with dt := dtArg } : Sim) else s)
        + (if dtArg > 0 then ({ s with dt := dtArg } : Sim) else s).dt)).dt = dt := by
      simp only [setVar]; exact hdt
    rw [getTime_raw M _ hwf, hdt, hsv] at h1 h2
    rw [getTime_raw M _ hwf, hdt, hsv]
    generalize setVar M (if dtArg > 0 then ({ s with dt := dtArg } : Sim) else s) M.L.iT false
      (s.sv.getD M.L.iT 0 + dt) = r at h1 h2
    cases r
    simp only at h1 h2
    subst h1 h2
    rfl
  have htake : sv2.take M.L.nX = s.sv.take M.L.nX := by
    simp [sv2, List.take_set_of_le]
  have hlen2 : sv2.length = M.L.len := by simp [sv2, hlen]
  have hconsts : (if M.L.nP > 0 then sv2.take (sv2.length - M.L.nP) else sv2) = consts := by
    have : sv2.length - M.L.nP = M.L.nX + 1 + M.L.nU := by rw [hlen2]; simp [Layout.len]
    split
    · rw [this]
    · have hp : M.L.nP = 0 := by omega
      simp only [consts]
      rw [List.take_of_length_le]
      rw [hlen2]; simp [Layout.len, hp]
  unfold update
  simp only []
  rw [hs2]
  simp only [hconsts, htake, hdt]
  rfl


/-- contract of `ca.rootfinder`: an answer has the length of the guess and zeroes the residual -/
def RootSound (root : Root) : Prop :=
  ∀ r g x, root r g = some x → x.length = g.length ∧ ∀ v ∈ r x, v = 0

/-- contract of the initial-state NLP solver: an answer has the length of the guess, satisfies
    the equality constraints and lies within the variable bounds -/
def InitSound (solver : InitSolver) : Prop :=
  ∀ g bs x0 x, solver g bs x0 = some x →
    x.length = x0.length ∧ (∀ v ∈ g x, v = 0) ∧ withinBounds bs x

theorem Layout.nX_lt_len (L : Layout) : L.nX < L.len := by simp [Layout.len]; omega

/-- the environment seen by the residual in `update` is the physical environment of the new
    object state -/
theorem update_returned (M : Static) (F G : ResFn) (root : Root) (hroot : RootSound root)
    (hwf : NomWF M) (s s' : Sim) (dtArg : Rat) (hlen : s.sv.length = M.L.len)
    (h : update M F G root s dtArg = .returned s') :
    let dt := if dtArg > 0 then dtArg else s.dt
    (∀ v ∈ stepResidual M F G (s'.sv.take M.L.nX) dt
        ((s.sv.set M.L.nX (s.sv.getD M.L.nX 0 + dt)).take (M.L.nX + 1 + M.L.nU)), v = 0)
    ∧ s'.sv.length = M.L.len ∧ s'.dt = dt
    ∧ s'.sv.getD M.L.nX 0 = s.sv.getD M.L.nX 0 + dt
    ∧ s'.sv.drop (M.L.nX + 1) = s.sv.drop (M.L.nX + 1) := by
  intro dt
  have hu := update_unfold M F G root s dtArg hwf hlen
  simp only at hu
  rw [hu] at h
  have hnl := M.L.nX_lt_len
  split at h
  · cases h
  · rename_i next hr
    obtain ⟨hl, hz⟩ := hroot _ _ _ hr
    have hnext : next.length = M.L.nX := by
      rw [hl, List.length_take, hlen]; omega
    have htk : next.take M.L.nX = next := List.take_of_length_le (by omega)
    injection h with h
    subst h
    simp only [htk]
    have h1 : (next ++ List.drop M.L.nX (s.sv.set M.L.nX (s.sv.getD M.L.nX 0 + dt))).take M.L.nX
        = next := by
      rw [← hnext]; exact List.take_left
    refine ⟨?_, ?_, rfl, ?_, ?_⟩
    · rw [h1]; exact hz
    · simp [hnext, hlen]; omega
    · rw [List.getD_eq_getElem?_getD, List.getElem?_append_right (by omega), hnext,
        Nat.sub_self, List.getElem?_drop, Nat.add_zero,
        List.getElem?_set_self (by omega)]
      rfl
    · rw [← hnext, List.drop_append, List.drop_drop]
      simp only [hnext]
      rw [List.drop_of_length_le (by omega), List.nil_append]
      simp [List.drop_set_of_lt]

/-- the step residual, read in physical units of the old and the new object state -/
theorem stepResidual_phys (M : Static) (F G : ResFn) (s s' : Sim) (dt : Rat)
    (hlen : s.sv.length = M.L.len)
    (ht : s'.sv.getD M.L.nX 0 = s.sv.getD M.L.nX 0 + dt)
    (hd : s'.sv.drop (M.L.nX + 1) = s.sv.drop (M.L.nX + 1)) :
    stepResidual M F G (s'.sv.take M.L.nX) dt
        ((s.sv.set M.L.nX (s.sv.getD M.L.nX 0 + dt)).take (M.L.nX + 1 + M.L.nU))
      = F (envOf M s')
        ++ (List.range M.L.nS).map (fun k =>
              (envOf M s').d.getD k 0 - ((envOf M s').x.getD k 0 - (envOf M s).x.getD k 0) / dt)
        ++ G (envOf M s') := by
  have hnl := M.L.nX_lt_len
  have hc1 : ((s.sv.set M.L.nX (s.sv.getD M.L.nX 0 + dt)).take (M.L.nX + 1 + M.L.nU)).getD M.L.iT 0
      = s'.sv.getD M.L.nX 0 := by
    have hiT : M.L.iT = M.L.nX := rfl
    rw [hiT, ht, List.getD_eq_getElem?_getD, List.getElem?_take,
      if_pos (by omega), List.getElem?_set_self (by omega)]
    rfl
  have hc2 : ((s.sv.set M.L.nX (s.sv.getD M.L.nX 0 + dt)).take (M.L.nX + 1 + M.L.nU)).drop (M.L.nX + 1)
      = (s'.sv.drop (M.L.nX + 1)).take M.L.nU := by
    rw [hd, List.drop_take]
    congr 1
    · omega
    · simp [List.drop_set_of_lt]
  have hc3 : ((s.sv.set M.L.nX (s.sv.getD M.L.nX 0 + dt)).take (M.L.nX + 1 + M.L.nU)).take M.L.nX
      = s.sv.take M.L.nX := by
    rw [List.take_take, Nat.min_eq_left (by omega)]
    simp [List.take_set_of_le]
  unfold stepResidual
  simp only [hc1, hc2, hc3]
  have henv : mkEnv M.L (scaleSubst M.L M.nom (s'.sv.take M.L.nX)) (s'.sv.getD M.L.nX 0)
      ((s'.sv.drop (M.L.nX + 1)).take M.L.nU) M.p = envOf M s' := rfl
  rw [henv]
  congr 2
  apply List.map_congr_left
  intro k hk
  have hk : k < M.L.nS := List.mem_range.1 hk
  have e1 : (envOf M s').d.getD k 0 = (scaleSubst M.L M.nom (s'.sv.take M.L.nX)).getD (M.L.iD k) 0 :=
    mkEnv_d_getD _ _ _ _ _ _ hk
  have e2 : (envOf M s').x.getD k 0 = (scaleSubst M.L M.nom (s'.sv.take M.L.nX)).getD k 0 :=
    mkEnv_x_getD _ _ _ _ _ _ hk
  have e3 : (envOf M s).x.getD k 0 = (scaleSubst M.L M.nom (s.sv.take M.L.nX)).getD k 0 :=
    mkEnv_x_getD _ _ _ _ _ _ hk
  rw [e1, e2, e3]

/-! ### the `index <= n_states` guard -/

/-- `get_var` with the strict guard `index < n_states` (the reading one would expect) -/
def getVarStrict (M : Static) (s : Sim) (i : Nat) (neg : Bool) : Rat :=
  let v := s.sv.getD i 0
  let v := if neg then v * (-1) else v
  if i < M.L.nX then v * nomAt M.nom i else v

def setVarStrict (M : Static) (s : Sim) (i : Nat) (neg : Bool) (value : Rat) : Sim :=
  let v := if neg then value * (-1) else value
  let v := if i < M.L.nX then v / nomAt M.nom i else v
  { s with sv := s.sv.set i v }

def scaleSubstStrict (L : Layout) (tab : NomTable) (X : Vec) : Vec :=
  (List.range X.length).map fun i =>
    match tab.lookup i with
    | some ν => if i < L.nX then X.getD i 0 * ν else X.getD i 0
    | none => X.getD i 0

theorem envOf_x (M : Static) (s : Sim) (k : Nat) (hk : k < M.L.nS) (hlen : s.sv.length = M.L.len) :
    (envOf M s).x.getD k 0 = getVar M s k false := by
  have hnl := M.L.nX_lt_len
  have hkx : k < M.L.nX := by simp only [Layout.nX]; omega
  rw [envOf, mkEnv_x_getD _ _ _ _ _ _ hk,
    scaleSubst_getD _ _ _ _ (by rw [List.length_take, hlen]; omega) (by omega)]
  simp only [getVar, if_pos (show k ≤ M.L.nX by omega)]
  simp [List.getD_eq_getElem?_getD, hkx]

theorem envOf_d (M : Static) (s : Sim) (k : Nat) (hk : k < M.L.nS) (hlen : s.sv.length = M.L.len) :
    (envOf M s).d.getD k 0 = getVar M s (M.L.iD k) false := by
  have hnl := M.L.nX_lt_len
  have hkx : M.L.iD k < M.L.nX := by simp only [Layout.nX, Layout.iD]; omega
  rw [envOf, mkEnv_d_getD _ _ _ _ _ _ hk,
    scaleSubst_getD _ _ _ _ (by rw [List.length_take, hlen]; omega) (by omega)]
  simp only [getVar, if_pos (show M.L.iD k ≤ M.L.nX by omega)]
  simp [List.getD_eq_getElem?_getD, hkx]

theorem envOf_a (M : Static) (s : Sim) (j : Nat) (hj : j < M.L.nA) (hlen : s.sv.length = M.L.len) :
    (envOf M s).a.getD j 0 = getVar M s (M.L.nS + j) false := by
  have hnl := M.L.nX_lt_len
  have hkx : M.L.nS + j < M.L.nX := by simp only [Layout.nX]; omega
  have h1 : (envOf M s).a.getD j 0
      = (scaleSubst M.L M.nom (s.sv.take M.L.nX)).getD (M.L.nS + j) 0 := by
    show (slice _ M.L.nS M.L.nA).getD j 0 = _
    rw [slice_getD _ _ _ _ hj]
  rw [h1, scaleSubst_getD _ _ _ _ (by rw [List.length_take, hlen]; omega) (by omega)]
  simp only [getVar, if_pos (show M.L.nS + j ≤ M.L.nX by omega)]
  simp [List.getD_eq_getElem?_getD, hkx]

theorem envOf_u (M : Static) (s : Sim) (k : Nat) (hk : k < M.L.nU) :
    (envOf M s).u.getD k 0 = getVar M s (M.L.iU k) false := by
  have h1 : (envOf M s).u.getD k 0 = (slice s.sv (M.L.nX + 1) M.L.nU).getD k 0 := rfl
  rw [h1, slice_getD _ _ _ _ hk]
  have hiu : M.L.iU k = M.L.nX + 1 + k := rfl
  rw [hiu]
  unfold getVar
  simp only []
  rw [if_neg (show ¬ (M.L.nX + 1 + k ≤ M.L.nX) by omega)]
  simp

/-! ### the IO loop -/

/-- imported series are written to constant inputs only (the generator / a well-formed data
    set; see the finding on series named like a state) -/
def SeriesWF (io : IOStatic) : Prop := ∀ ser ∈ io.series, io.M.L.nX < ser.idx

theorem setVar_input (M : Static) (s : Sim) (i : Nat) (neg : Bool) (v : Rat) (hi : M.L.nX < i) :
    (setVar M s i neg v).sv.take (M.L.nX + 1) = s.sv.take (M.L.nX + 1)
    ∧ (setVar M s i neg v).sv.length = s.sv.length ∧ (setVar M s i neg v).dt = s.dt := by
  unfold setVar
  refine ⟨?_, by simp, rfl⟩
  simp only []
  rw [List.take_set_of_le (by omega)]

theorem feed_aux (M : Static) (tIdx : Nat) (l : List Series) (hl : ∀ ser ∈ l, M.L.nX < ser.idx)
    (s s1 : Sim)
    (h : l.foldlM (fun s ser =>
      match ser.vals[tIdx]? with
      | none => none
      | some none => some s
      | some (some v) => some (setVar M s ser.idx ser.neg v)) s = some s1) :
    s1.sv.take (M.L.nX + 1) = s.sv.take (M.L.nX + 1) ∧ s1.sv.length = s.sv.length ∧ s1.dt = s.dt := by
  induction l generalizing s with
  | nil =>
    simp only [List.foldlM_nil] at h
    cases h
    exact ⟨rfl, rfl, rfl⟩
  | cons ser rest ih =>
    rw [List.foldlM_cons] at h
    have hser := hl ser (by simp)
    have hrest : ∀ q ∈ rest, M.L.nX < q.idx := fun q hq => hl q (by simp [hq])
    cases hv : ser.vals[tIdx]? with
    | none => simp [hv] at h
    | some ov =>
      cases ov with
      | none =>
        simp only [hv, Option.bind_eq_bind, Option.bind_some] at h
        exact ih hrest s h
      | some v =>
        simp only [hv, Option.bind_eq_bind, Option.bind_some] at h
        obtain ⟨a, b, c⟩ := ih hrest _ h
        obtain ⟨a', b', c'⟩ := setVar_input M s ser.idx ser.neg v hser
        exact ⟨a.trans a', b.trans b', c.trans c'⟩

theorem feed_spec (io : IOStatic) (hs : SeriesWF io) (tIdx : Nat) (s s1 : Sim)
    (h : feed io tIdx s = some s1) :
    s1.sv.take (io.M.L.nX + 1) = s.sv.take (io.M.L.nX + 1) ∧ s1.sv.length = s.sv.length
    ∧ s1.dt = s.dt :=
  feed_aux io.M tIdx io.series hs s s1 h

/-- one `IOMixin.update` relates two object states: inputs for the new time are fed, then the
    model's `update` returns -/
def StepRel (io : IOStatic) (F G : ResFn) (root : Root) (dtImport : Rat) (s s' : Sim)
    (dtArg : Rat) : Prop :=
  ∃ s1, feed io (bisectLeft io.timesSec
      (getTime io.M s + (if dtArg < 0 then dtImport else dtArg))) s = some s1
    ∧ update io.M F G root s1 (if dtArg < 0 then dtImport else dtArg) = .returned s'

theorem ioUpdate_returned (io : IOStatic) (F G : ResFn) (root : Root) (dtImport : Rat)
    (st st' : IOSim) (dtArg : Rat) (h : ioUpdate io F G root dtImport st dtArg = .returned st') :
    StepRel io F G root dtImport st.sim st'.sim dtArg
    ∧ st'.times = st.times ++ [getTime io.M st.sim + (if dtArg < 0 then dtImport else dtArg)]
    ∧ st'.out = List.zipWith (fun l v => l ++ [v]) st.out (record io st'.sim) := by
  unfold ioUpdate at h
  simp only [] at h
  split at h
  · cases h
  · rename_i s1 hf
    split at h
    · cases h
    · rename_i s2 hu
      injection h with h
      subst h
      exact ⟨⟨s1, hf, hu⟩, rfl, rfl⟩

/-- `tr` is the sequence of object states of a run from `s` along the `dt` arguments -/
def IsTrace (io : IOStatic) (F G : ResFn) (root : Root) (dtImport : Rat) :
    Sim → List Rat → List Sim → Prop
  | s, [], tr => tr = [s]
  | s, dt :: rest, tr =>
    ∃ s' tr', tr = s :: tr' ∧ StepRel io F G root dtImport s s' dt
      ∧ IsTrace io F G root dtImport s' rest tr'

/-- append one recorded row per visited state to the per-variable output lists -/
def appendRows (out : List (List Rat)) (rows : List (List Rat)) : List (List Rat) :=
  rows.foldl (fun o r => List.zipWith (fun l v => l ++ [v]) o r) out

theorem ioRun_trace (io : IOStatic) (F G : ResFn) (root : Root) (dtImport : Rat)
    (dts : List Rat) (st st' : IOSim) (h : ioRun io F G root dtImport st dts = .returned st') :
    ∃ tr, IsTrace io F G root dtImport st.sim dts tr
      ∧ tr.length = dts.length + 1
      ∧ tr.getLast? = some st'.sim
      ∧ st'.out = appendRows st.out (tr.tail.map (record io))
      ∧ st'.times = st.times ++ (List.zipWith (fun (s : Sim) dtArg =>
            getTime io.M s + (if dtArg < 0 then dtImport else dtArg)) tr dts) := by
  induction dts generalizing st with
  | nil =>
    simp only [ioRun] at h
    injection h with h
    subst h
    exact ⟨[st.sim], rfl, rfl, rfl, rfl, by simp⟩
  | cons dt rest ih =>
    simp only [ioRun] at h
    split at h
    · cases h
    · rename_i st1 hu
      obtain ⟨hrel, ht, ho⟩ := ioUpdate_returned io F G root dtImport st st1 dt hu
      obtain ⟨tr', htr, hlen, hlast, hout, htimes⟩ := ih st1 h
      refine ⟨st.sim :: tr', ⟨st1.sim, tr', rfl, hrel, htr⟩, by simp [hlen], ?_, ?_, ?_⟩
      · cases tr' with
        | nil => simp at hlen
        | cons a b => simpa using hlast
      · cases tr' with
        | nil => simp at hlen
        | cons a b =>
          have ha : a = st1.sim := by
            cases rest with
            | nil => simp only [IsTrace] at htr; injection htr with h1 _
            | cons d r =>
              obtain ⟨_, _, h1, _, _⟩ := htr
              injection h1 with h1 _
          subst ha
          simp only [List.tail_cons, List.map_cons, appendRows, List.foldl_cons] at hout ⊢
          rw [hout, ho]
      · rw [htimes, ht]
        simp

theorem appendRows_spec (rows : List (List Rat)) (m : Nat) (hrows : ∀ r ∈ rows, r.length = m)
    (out : List (List Rat)) (hout : out.length = m) :
    (appendRows out rows).length = m
    ∧ ∀ o, o < m → (appendRows out rows).getD o [] = out.getD o [] ++ rows.map (fun r => r.getD o 0) := by
  induction rows generalizing out with
  | nil => exact ⟨hout, fun o _ => by simp [appendRows]⟩
  | cons r rest ih =>
    have hr : r.length = m := hrows r (by simp)
    have hlen : (List.zipWith (fun l v => l ++ [v]) out r).length = m := by simp [hout, hr]
    obtain ⟨h1, h2⟩ := ih (fun q hq => hrows q (by simp [hq])) _ hlen
    refine ⟨by simpa [appendRows] using h1, ?_⟩
    intro o ho
    have := h2 o ho
    simp only [appendRows, List.foldl_cons] at this ⊢
    rw [this]
    have hz : (List.zipWith (fun l v => l ++ [v]) out r).getD o [] = out.getD o [] ++ [r.getD o 0] := by
      rw [List.getD_eq_getElem?_getD, List.getElem?_zipWith]
      have ho1 : o < out.length := by omega
      have ho2 : o < r.length := by omega
      simp [List.getElem?_eq_getElem ho1, List.getElem?_eq_getElem ho2]
    rw [hz]
    simp

theorem record_length (io : IOStatic) (s : Sim) : (record io s).length = io.outs.length := by
  simp [record]

theorem record_getD (io : IOStatic) (s : Sim) (o : Nat) (ho : o < io.outs.length) :
    (record io s).getD o 0 = getVar io.M s (io.outs.getD o (0, false)).1 (io.outs.getD o (0, false)).2 := by
  simp [record, List.getD_eq_getElem?_getD, List.getElem?_map, List.getElem?_eq_getElem ho]

/-- under one IO update the clock advances by `dt`, the length is kept -/
theorem StepRel_time (io : IOStatic) (F G : ResFn) (root : Root) (hroot : RootSound root)
    (dtImport : Rat) (hwf : NomWF io.M) (hs : SeriesWF io) (s s' : Sim) (dtArg : Rat)
    (hlen : s.sv.length = io.M.L.len) (hpos : 0 < (if dtArg < 0 then dtImport else dtArg))
    (h : StepRel io F G root dtImport s s' dtArg) :
    getTime io.M s' = getTime io.M s + (if dtArg < 0 then dtImport else dtArg)
    ∧ s'.sv.length = io.M.L.len := by
  obtain ⟨s1, hf, hu⟩ := h
  obtain ⟨htk, hl1, _⟩ := feed_spec io hs _ s s1 hf
  have hlen1 : s1.sv.length = io.M.L.len := hl1.trans hlen
  obtain ⟨_, hl', _, ht, _⟩ := update_returned io.M F G root hroot hwf s1 s' _ hlen1 hu
  simp only [if_pos hpos] at ht
  have hnl := io.M.L.nX_lt_len
  have ht1 : s1.sv.getD io.M.L.nX 0 = s.sv.getD io.M.L.nX 0 := by
    have e1 : s1.sv.getD io.M.L.nX 0 = (s1.sv.take (io.M.L.nX + 1)).getD io.M.L.nX 0 := by
      simp [List.getD_eq_getElem?_getD]
    have e2 : s.sv.getD io.M.L.nX 0 = (s.sv.take (io.M.L.nX + 1)).getD io.M.L.nX 0 := by
      simp [List.getD_eq_getElem?_getD]
    rw [e1, e2, htk]
  refine ⟨?_, hl'⟩
  rw [getTime_raw _ _ hwf, getTime_raw _ _ hwf]
  show s'.sv.getD io.M.L.nX 0 = s.sv.getD io.M.L.nX 0 + _
  rw [ht, ht1]

theorem trace_times (io : IOStatic) (F G : ResFn) (root : Root) (hroot : RootSound root)
    (dtImport : Rat) (hwf : NomWF io.M) (hs : SeriesWF io) (dts : List Rat)
    (hpos : ∀ d ∈ dts, 0 < (if d < 0 then dtImport else d))
    (s : Sim) (tr : List Sim) (hlen : s.sv.length = io.M.L.len)
    (h : IsTrace io F G root dtImport s dts tr) :
    List.zipWith (fun (q : Sim) dtArg => getTime io.M q + (if dtArg < 0 then dtImport else dtArg)) tr dts
      = tr.tail.map (getTime io.M)
    ∧ (∀ q ∈ tr, q.sv.length = io.M.L.len) ∧ tr.head? = some s := by
  induction dts generalizing s tr with
  | nil =>
    simp only [IsTrace] at h
    subst h
    exact ⟨by simp, by simpa using hlen, rfl⟩
  | cons d rest ih =>
    obtain ⟨s', tr', rfl, hrel, htr⟩ := h
    obtain ⟨ht, hl'⟩ := StepRel_time io F G root hroot dtImport hwf hs s s' d hlen
      (hpos d (by simp)) hrel
    obtain ⟨h1, h2, h3⟩ := ih (fun q hq => hpos q (by simp [hq])) s' tr' hl' htr
    refine ⟨?_, ?_, rfl⟩
    · cases tr' with
      | nil => simp at h3
      | cons a b =>
        have ha : a = s' := by simpa using h3
        subst ha
        simp only [List.zipWith_cons_cons, List.tail_cons, List.map_cons] at h1 ⊢
        rw [h1, ht]
    · intro q hq
      rcases List.mem_cons.1 hq with rfl | hq
      · exact hlen
      · exact h2 q hq

theorem trace_times_const (io : IOStatic) (F G : ResFn) (root : Root) (hroot : RootSound root)
    (dtImport : Rat) (hwf : NomWF io.M) (hs : SeriesWF io) (δ : Rat) (hδ : 0 < δ) (dts : List Rat)
    (hconst : ∀ d ∈ dts, (if d < 0 then dtImport else d) = δ)
    (s : Sim) (tr : List Sim) (hlen : s.sv.length = io.M.L.len)
    (h : IsTrace io F G root dtImport s dts tr) :
    tr.map (getTime io.M) = (List.range (dts.length + 1)).map (fun (j : Nat) => getTime io.M s + (j : Rat) * δ) := by
  induction dts generalizing s tr with
  | nil =>
    simp only [IsTrace] at h
    subst h
    simp
  | cons d rest ih =>
    obtain ⟨s', tr', rfl, hrel, htr⟩ := h
    have hd := hconst d (by simp)
    obtain ⟨ht, hl'⟩ := StepRel_time io F G root hroot dtImport hwf hs s s' d hlen
      (by rw [hd]; exact hδ) hrel
    have := ih (fun q hq => hconst q (by simp [hq])) s' tr' hl' htr
    rw [List.map_cons, this, List.length_cons]
    conv_rhs => rw [List.range_succ_eq_map, List.map_cons, List.map_map]
    congr 1
    · simp
    · apply List.map_congr_left
      intro j _
      simp only [Function.comp]
      rw [ht, hd]
      push_cast
      ring

theorem getVar_congr (M : Static) (s s' : Sim) (i : Nat) (neg : Bool)
    (h : s'.sv.getD i 0 = s.sv.getD i 0) : getVar M s' i neg = getVar M s i neg := by
  unfold getVar; rw [h]

theorem setVar_getD_ne (M : Static) (s : Sim) (i j : Nat) (neg : Bool) (v : Rat) (h : i ≠ j) :
    (setVar M s i neg v).sv.getD j 0 = s.sv.getD j 0 := by
  unfold setVar
  simp only [List.getD_eq_getElem?_getD]
  rw [List.getElem?_set_ne h]

theorem getVar_setVar_input (M : Static) (s : Sim) (i : Nat) (neg : Bool) (v : Rat)
    (hi : M.L.nX < i) (hl : i < s.sv.length) : getVar M (setVar M s i neg v) i neg = v := by
  unfold getVar setVar
  simp only [List.getD_eq_getElem?_getD, List.getElem?_set_self hl, Option.getD_some]
  have hn : ¬ i ≤ M.L.nX := by omega
  cases neg <;> simp [hn]

/-- what `__set_input_variables` leaves in the state vector: a finite series value is what
    `get_var` of the target returns afterwards, a non-finite one keeps the previous value, every
    other entry is untouched -/
theorem feed_values_aux (M : Static) (tIdx : Nat) (l : List Series)
    (hd : l.Pairwise (fun a b => a.idx ≠ b.idx)) (hl : ∀ ser ∈ l, M.L.nX < ser.idx)
    (s s1 : Sim) (hlen : ∀ ser ∈ l, ser.idx < s.sv.length)
    (h : l.foldlM (fun s ser =>
      match ser.vals[tIdx]? with
      | none => none
      | some none => some s
      | some (some v) => some (setVar M s ser.idx ser.neg v)) s = some s1) :
    (∀ ser ∈ l, (∀ v, ser.vals[tIdx]? = some (some v) → getVar M s1 ser.idx ser.neg = v)
        ∧ (ser.vals[tIdx]? = some none → getVar M s1 ser.idx ser.neg = getVar M s ser.idx ser.neg))
    ∧ ∀ i, (∀ ser ∈ l, ser.idx ≠ i) → s1.sv.getD i 0 = s.sv.getD i 0 := by
  induction l generalizing s with
  | nil =>
    simp only [List.foldlM_nil] at h
    cases h
    exact ⟨fun _ h => (by cases h), fun _ _ => rfl⟩
  | cons ser rest ih =>
    rw [List.foldlM_cons] at h
    obtain ⟨hd1, hd2⟩ := List.pairwise_cons.1 hd
    have hrest : ∀ q ∈ rest, M.L.nX < q.idx := fun q hq => hl q (by simp [hq])
    cases hv : ser.vals[tIdx]? with
    | none => simp [hv] at h
    | some ov =>
      cases ov with
      | none =>
        simp only [hv, Option.bind_eq_bind, Option.bind_some] at h
        obtain ⟨h1, h2⟩ := ih hd2 hrest s (fun q hq => hlen q (by simp [hq])) h
        refine ⟨?_, fun i hi => h2 i (fun q hq => hi q (by simp [hq]))⟩
        intro q hq
        rcases List.mem_cons.1 hq with rfl | hq
        · refine ⟨fun v hv' => (by rw [hv] at hv'; cases hv'), fun _ => ?_⟩
          exact getVar_congr M s s1 _ _ (h2 _ (fun r hr => (hd1 r hr).symm))
        · exact h1 q hq
      | some v =>
        simp only [hv, Option.bind_eq_bind, Option.bind_some] at h
        have hlen' : ∀ q ∈ rest, q.idx < (setVar M s ser.idx ser.neg v).sv.length := by
          intro q hq
          have := hlen q (by simp [hq])
          simpa [setVar] using this
        obtain ⟨h1, h2⟩ := ih hd2 hrest _ hlen' h
        refine ⟨?_, ?_⟩
        · intro q hq
          rcases List.mem_cons.1 hq with rfl | hq
          · refine ⟨fun v' hv' => ?_, fun hn => (by rw [hv] at hn; cases hn)⟩
            have : v' = v := by rw [hv] at hv'; injection hv' with hv'; injection hv' with hv'; exact hv'.symm
            subst this
            rw [getVar_congr M _ s1 _ _ (h2 _ (fun r hr => (hd1 r hr).symm))]
            exact getVar_setVar_input M s _ _ _ (hl _ (by simp)) (hlen _ (by simp))
          · obtain ⟨a, b⟩ := h1 q hq
            refine ⟨a, fun hn => ?_⟩
            rw [b hn]
            exact getVar_congr M _ _ _ _ (setVar_getD_ne M s _ _ _ _ (hd1 q hq))
        · intro i hi
          rw [h2 i (fun q hq => hi q (by simp [hq]))]
          exact setVar_getD_ne M s _ _ _ _ (hi ser (by simp))

/-- the step residual with the constants spelled out as `X_prev ++ [time] ++ inputs` -/
theorem stepResidual_consts (M : Static) (F G : ResFn) (X Xprev : Vec) (dt t : Rat) (u : Vec)
    (hXp : Xprev.length = M.L.nX) :
    stepResidual M F G X dt (Xprev ++ t :: u)
      = F (mkEnv M.L (scaleSubst M.L M.nom X) t u M.p)
        ++ (List.range M.L.nS).map (fun k =>
              (mkEnv M.L (scaleSubst M.L M.nom X) t u M.p).d.getD k 0
                - ((mkEnv M.L (scaleSubst M.L M.nom X) t u M.p).x.getD k 0
                    - (mkEnv M.L (scaleSubst M.L M.nom Xprev) t u M.p).x.getD k 0) / dt)
        ++ G (mkEnv M.L (scaleSubst M.L M.nom X) t u M.p) := by
  have h1 : (Xprev ++ t :: u).take M.L.nX = Xprev := by rw [← hXp]; exact List.take_left
  have h2 : (Xprev ++ t :: u).getD M.L.iT 0 = t := by
    have hiT : M.L.iT = M.L.nX := rfl
    rw [hiT, List.getD_eq_getElem?_getD, List.getElem?_append_right (by omega), hXp, Nat.sub_self]
    rfl
  have h3 : (Xprev ++ t :: u).drop (M.L.nX + 1) = u := by
    rw [← hXp, ← List.drop_drop, List.drop_left]
    rfl
  unfold stepResidual
  simp only [h1, h2, h3]
  congr 2
  apply List.map_congr_left
  intro k hk
  have hk : k < M.L.nS := List.mem_range.1 hk
  rw [mkEnv_d_getD _ _ _ _ _ _ hk, mkEnv_x_getD _ _ _ _ _ _ hk, mkEnv_x_getD _ _ _ _ _ _ hk]

theorem zipWith_theta_one (r0 r1 : Vec) (h : r0.length = r1.length) :
    List.zipWith (fun a b => (1 - (1 : Rat)) * a + 1 * b) r0 r1 = r1 := by
  induction r0 generalizing r1 with
  | nil => cases r1 with
    | nil => rfl
    | cons _ _ => simp at h
  | cons a r0 ih =>
    cases r1 with
    | nil => simp at h
    | cons b r1 =>
      simp only [List.zipWith_cons_cons, List.cons.injEq]
      refine ⟨by ring, ih r1 (by simpa using h)⟩

/-- physical values to stored (scaled) values: divide by the nominal of the entry -/
def encode (tab : NomTable) (v : Vec) : Vec :=
  (List.range v.length).map fun i => v.getD i 0 / nomAt tab i

theorem scaleSubst_encode (L : Layout) (tab : NomTable) (v : Vec) (hv : v.length ≤ L.nX + 1)
    (hν : ∀ i, i < v.length → nomAt tab i ≠ 0) : scaleSubst L tab (encode tab v) = v := by
  apply List.ext_getElem
  · simp [scaleSubst, encode]
  · intro i h1 h2
    have hi : i < (encode tab v).length := by simpa [encode] using h2
    have := scaleSubst_getD L tab (encode tab v) i hi (by omega)
    rw [List.getD_eq_getElem?_getD, List.getElem?_eq_getElem h1] at this
    simp only [Option.getD_some] at this
    rw [this]
    have he : (encode tab v).getD i 0 = v.getD i 0 / nomAt tab i := by
      simp [encode, List.getD_eq_getElem?_getD, List.getElem?_map, List.getElem?_range h2]
    rw [he, div_mul_cancel₀ _ (hν i h2)]
    simp [List.getD_eq_getElem?_getD, List.getElem?_eq_getElem h2]

/-! ### concrete oracles that honour the contracts (used by the non-vacuity examples) -/

/-- a root finder that proposes `cand` and answers only if it is a root -/
def checkedRoot (cand : Vec) : Root := fun r g =>
  if cand.length = g.length ∧ (r cand).all (fun v => v == 0) = true then some cand else none

theorem checkedRoot_sound (cand : Vec) : RootSound (checkedRoot cand) := by
  intro r g x h
  unfold checkedRoot at h
  split at h
  · rename_i hc
    injection h with h
    subst h
    refine ⟨hc.1, fun v hv => ?_⟩
    have := List.all_eq_true.1 hc.2 v hv
    simpa using this
  · cases h

def boundOkB (b : VarBound) (x : Rat) : Bool :=
  (match b.lo with | some lo => decide (lo ≤ x) | none => true)
  && (match b.hi with | some hi => decide (x ≤ hi) | none => true)

def boundsOkB (bs : List VarBound) (X : Vec) : Bool :=
  (List.range bs.length).all fun i => boundOkB (bs.getD i { lo := none, hi := none }) (X.getD i 0)

/-- an NLP solver that proposes `cand` and answers only if it is feasible -/
def checkedInit (cand : Vec) : InitSolver := fun g bs x0 =>
  if cand.length = x0.length ∧ (g cand).all (fun v => v == 0) = true ∧ boundsOkB bs cand = true
  then some cand else none

theorem checkedInit_sound (cand : Vec) : InitSound (checkedInit cand) := by
  intro g bs x0 x h
  unfold checkedInit at h
  split at h
  · rename_i hc
    injection h with h
    subst h
    refine ⟨hc.1, fun v hv => ?_, ?_⟩
    · have := List.all_eq_true.1 hc.2.1 v hv
      simpa using this
    · intro i b hb
      have hi : i < bs.length := (List.getElem?_eq_some_iff.1 hb).1
      have := List.all_eq_true.1 hc.2.2 i (List.mem_range.2 hi)
      rw [List.getD_eq_getElem?_getD, hb] at this
      simp only [Option.getD_some, boundOkB, Bool.and_eq_true] at this
      refine ⟨fun lo hlo => ?_, fun hi' hhi => ?_⟩
      · have h1 := this.1; rw [hlo] at h1; simpa using h1
      · have h2 := this.2; rw [hhi] at h2; simpa using h2
  · cases h

theorem polyRes_length (qs : List Poly) (e : Env) : (polyRes qs e).length = qs.length := by
  simp [polyRes]


theorem checkedRoots_sound (cands : List Vec) : RootSound (checkedRoots cands) := by
  intro r g x h
  have := List.find?_some h
  simp only [Bool.and_eq_true, decide_eq_true_eq] at this
  refine ⟨this.1, fun v hv => ?_⟩
  have := List.all_eq_true.1 this.2 v hv
  simpa using this

/-- the driver's root finder honours the contract of the theorems (its answers are re-checked) -/
theorem soundAffineRoot_sound : RootSound soundAffineRoot := by
  intro r g x h
  unfold soundAffineRoot at h
  split at h
  · cases h
  · exact checkedRoots_sound _ r g x h


/-! ### the concrete instance used by the non-vacuity examples of `Props/C09.lean` -/

def exM : Static :=
  { L := { nS := 1, nA := 1, nE := 0, nU := 1, nP := 1 }, nom := [(0, 10), (1, 2)], p := [1/2] }
def exF : ResFn :=
  polyRes [[(1, [Slot.d 0]), (1, [Slot.x 0, Slot.p 0]), (-1, [Slot.u 0])],
           [(1, [Slot.a 0]), (-2, [Slot.x 0]), (-1/4, [Slot.x 0, Slot.x 0])]]
def exG : ResFn := fun _ => []
def exS : Sim := { sv := [1/10, 9/8, 0, 0, 3, 1/2], dt := 1 }
def exCands : List Vec := [[4/15, 32/9, 5/3], [17/45, 901/162, 10/9]]
def exSer : Series := { idx := 4, neg := false, vals := [some 7, some 3, some 3, none] }
def exIO : IOStatic :=
  { M := exM
    timesSec := [-1, 0, 1, 2]
    series := [exSer]
    outs := [(0, false), (1, true)] }
def exSt : IOSim := { sim := exS, times := [0], out := [[1], [-9/4]] }


/-! ### histories with failed steps: the object keeps its shape through every call -/

theorem update_obj_length (M : Static) (F G : ResFn) (root : Root) (hroot : RootSound root)
    (hwf : NomWF M) (s : Sim) (dtArg : Rat) (hlen : s.sv.length = M.L.len) :
    (update M F G root s dtArg).obj.sv.length = M.L.len := by
  cases h : update M F G root s dtArg with
  | returned s' => exact (update_returned M F G root hroot hwf s s' dtArg hlen h).2.1
  | raised s' =>
    have hu := update_unfold M F G root s dtArg hwf hlen
    simp only at hu
    rw [hu] at h
    split at h
    · cases h; simp [Outcome.obj, hlen]
    · cases h

theorem applyOp_lengths (M : Static) (F G : ResFn) (root : Root) (hroot : RootSound root)
    (hwf : NomWF M) (o : SimObj) (hcur : o.cur.sv.length = M.L.len) (hinit : o.init.length = M.L.len)
    (op : Op) :
    (applyOp M F G root o op).cur.sv.length = M.L.len ∧ (applyOp M F G root o op).init.length = M.L.len := by
  cases op with
  | update dtArg => exact ⟨update_obj_length M F G root hroot hwf o.cur dtArg hcur, hinit⟩
  | setVar i neg v => exact ⟨by simp [applyOp, setVar, hcur], hinit⟩
  | reset => exact ⟨hinit, hinit⟩

end RtcVerif.C09
