import RtcVerif.Model.C09Sim
import Mathlib.Algebra.Order.Field.Rat
import Mathlib.Tactic.Linarith
import Mathlib.Tactic.Ring
import Mathlib.Tactic.FieldSimp
/-!
Helper lemmas for property C09 (list slicing, the scaling substitution, what `update` leaves in
the state vector).
-/
namespace RtcVerif.C09

/-- nominals are registered for unknowns of a step only (states, algebraics, extra variables):
    `self.__nominals` is filled from `states`, `alg_states` and `extra_variables()` -/
def NomWF (M : Static) : Prop := ∀ q ∈ M.nom, q.1 < M.L.nX

theorem lookup_none_of_wf {tab : NomTable} {n : Nat} (h : ∀ q ∈ tab, q.1 < n) (i : Nat) (hi : n ≤ i) :
    tab.lookup i = none := by
  induction tab with
  | nil => rfl
  | cons q rest ih =>
    obtain ⟨j, ν⟩ := q
    have hj : j < n := h (j, ν) (by simp)
    have hne : (i == j) = false := by
      apply beq_false_of_ne
      omega
    rw [List.lookup_cons, hne]
    exact ih (fun q hq => h q (by simp [hq]))

theorem nomAt_of_wf {M : Static} (h : NomWF M) (i : Nat) (hi : M.L.nX ≤ i) : nomAt M.nom i = 1 := by
  unfold nomAt
  rw [lookup_none_of_wf h i hi]

theorem scaleSubst_length (L : Layout) (tab : NomTable) (X : Vec) :
    (scaleSubst L tab X).length = X.length := by
  simp [scaleSubst]

theorem scaleSubst_getD (L : Layout) (tab : NomTable) (X : Vec) (i : Nat) (hi : i < X.length)
    (hx : i ≤ L.nX) : (scaleSubst L tab X).getD i 0 = X.getD i 0 * nomAt tab i := by
  unfold scaleSubst nomAt
  rw [List.getD_eq_getElem?_getD, List.getElem?_map, List.getElem?_range hi]
  simp only [Option.map_some, Option.getD_some]
  cases tab.lookup i with
  | none => simp
  | some ν => simp [hx]

theorem slice_length (v : Vec) (start n : Nat) (h : start + n ≤ v.length) :
    (slice v start n).length = n := by
  simp [slice]; omega

theorem slice_getD (v : Vec) (start n k : Nat) (hk : k < n) :
    (slice v start n).getD k 0 = v.getD (start + k) 0 := by
  simp only [slice, List.getD_eq_getElem?_getD, List.getElem?_take, hk, if_true, List.getElem?_drop]

/-- the physical `Env` of an object state: unknowns through the nominal substitution, raw time,
    the constant inputs, the frozen parameters -/
def envOf (M : Static) (s : Sim) : Env :=
  mkEnv M.L (scaleSubst M.L M.nom (s.sv.take M.L.nX)) (s.sv.getD M.L.iT 0)
    ((s.sv.drop (M.L.nX + 1)).take M.L.nU) M.p

/-- difference quotients of the states between two object states -/
def diffQuot (M : Static) (s s' : Sim) (dt : Rat) : Vec :=
  (List.range M.L.nS).map fun k => ((envOf M s').x.getD k 0 - (envOf M s).x.getD k 0) / dt

theorem mkEnv_x_getD (L : Layout) (X : Vec) (t : Rat) (u p : Vec) (k : Nat) (hk : k < L.nS) :
    (mkEnv L X t u p).x.getD k 0 = X.getD k 0 := by
  show (slice X 0 L.nS).getD k 0 = _
  rw [slice_getD _ _ _ _ hk, Nat.zero_add]

theorem mkEnv_d_getD (L : Layout) (X : Vec) (t : Rat) (u p : Vec) (k : Nat) (hk : k < L.nS) :
    (mkEnv L X t u p).d.getD k 0 = X.getD (L.iD k) 0 := by
  show (slice X (L.nS + L.nA) L.nS).getD k 0 = _
  rw [slice_getD _ _ _ _ hk]; rfl

theorem mkEnv_d_length (L : Layout) (X : Vec) (t : Rat) (u p : Vec) (h : L.nX ≤ X.length) :
    (mkEnv L X t u p).d.length = L.nS := by
  simp only [mkEnv]
  apply slice_length
  simp only [Layout.nX] at h
  omega

/-- the state vector after `set_var("time", …)`: only entry `nX` changes -/
theorem setVar_time_sv (M : Static) (s : Sim) (v : Rat) (hwf : NomWF M) :
    (setVar M s M.L.iT false v).sv = s.sv.set M.L.nX v := by
  simp [setVar, Layout.iT, nomAt_of_wf hwf M.L.nX (le_refl _)]

theorem getTime_raw (M : Static) (s : Sim) (hwf : NomWF M) : getTime M s = s.sv.getD M.L.iT 0 := by
  simp [getTime, getVar, Layout.iT, nomAt_of_wf hwf M.L.nX (le_refl _)]

/-- what `update` does, spelled out: the root finder is called on the step residual built from
    the old unknowns, the advanced time and the current inputs; on success its answer replaces
    the unknowns, on failure nothing but the time (and `dt`) has changed -/
theorem update_unfold (M : Static) (F G : ResFn) (root : Root) (s : Sim) (dtArg : Rat)
    (hwf : NomWF M) (hlen : s.sv.length = M.L.len) :
    let dt := if dtArg > 0 then dtArg else s.dt
    let sv2 := s.sv.set M.L.nX (s.sv.getD M.L.nX 0 + dt)
    let consts := sv2.take (M.L.nX + 1 + M.L.nU)
    update M F G root s dtArg =
      match root (fun X => stepResidual M F G X dt consts) (s.sv.take M.L.nX) with
      | none => .raised { sv := sv2, dt := dt }
      | some next => .returned { sv := next.take M.L.nX ++ sv2.drop M.L.nX, dt := dt } := by
  intro dt sv2 consts
  have hdt : (if dtArg > 0 then ({ s with dt := dtArg } : Sim) else s).dt = dt := by
    simp only [dt]; split <;> rfl
  have hsv : (if dtArg > 0 then ({ s with dt := dtArg } : Sim) else s).sv = s.sv := by
    split <;> rfl
  have hs2 : (setVar M (if dtArg > 0 then ({ s with dt := dtArg } : Sim) else s) M.L.iT false
      (getTime M (if dtArg > 0 then ({ s with dt := dtArg } : Sim) else s)
        + (if dtArg > 0 then ({ s with dt := dtArg } : Sim) else s).dt)) = { sv := sv2, dt := dt } := by
    have h1 := setVar_time_sv M (if dtArg > 0 then ({ s with dt := dtArg } : Sim) else s)
      (getTime M (if dtArg > 0 then ({ s with dt := dtArg } : Sim) else s)
        + (if dtArg > 0 then ({ s with dt := dtArg } : Sim) else s).dt) hwf
    have h2 : (setVar M (if dtArg > 0 then ({ s with dt := dtArg } : Sim) else s) M.L.iT false
      (getTime M (if dtArg > 0 then ({ s with dt := dtArg } : Sim) else s)
        + (if dtArg > 0 then ({ s with dt := dtArg } : Sim) else s).dt)).dt = dt := by
      simp only [setVar]; exact hdt
    rw [getTime_raw M _ hwf, hdt, hsv] at h1 h2
    rw [getTime_raw M _ hwf, hdt, hsv]
    generalize setVar M (if dtArg > 0 then ({ s with dt := dtArg } : Sim) else s) M.L.iT false
      (s.sv.getD M.L.iT 0 + dt) = r at h1 h2
    cases r
    simp only at h1 h2
    subst h1 h2
    rfl
  have htake : sv2.take M.L.nX = s.sv.take M.L.nX := by
    simp [sv2, List.take_set_of_le]
  have hlen2 : sv2.length = M.L.len := by simp [sv2, hlen]
  have hconsts : (if M.L.nP > 0 then sv2.take (sv2.length - M.L.nP) else sv2) = consts := by
    have : sv2.length - M.L.nP = M.L.nX + 1 + M.L.nU := by rw [hlen2]; simp [Layout.len]
    split
    · rw [this]
    · have hp : M.L.nP = 0 := by omega
      simp only [consts]
      rw [List.take_of_length_le]
      rw [hlen2]; simp [Layout.len, hp]
  unfold update
  simp only []
  rw [hs2]
  simp only [hconsts, htake, hdt]
  rfl


/-- contract of `ca.rootfinder`: an answer has the length of the guess and zeroes the residual -/
def RootSound (root : Root) : Prop :=
  ∀ r g x, root r g = some x → x.length = g.length ∧ ∀ v ∈ r x, v = 0

/-- contract of the initial-state NLP solver: an answer has the length of the guess, satisfies
    the equality constraints and lies within the variable bounds -/
def InitSound (solver : InitSolver) : Prop :=
  ∀ g bs x0 x, solver g bs x0 = some x →
    x.length = x0.length ∧ (∀ v ∈ g x, v = 0) ∧ withinBounds bs x

theorem Layout.nX_lt_len (L : Layout) : L.nX < L.len := by simp [Layout.len]; omega

/-- the environment seen by the residual in `update` is the physical environment of the new
    object state -/
theorem update_returned (M : Static) (F G : ResFn) (root : Root) (hroot : RootSound root)
    (hwf : NomWF M) (s s' : Sim) (dtArg : Rat) (hlen : s.sv.length = M.L.len)
    (h : update M F G root s dtArg = .returned s') :
    let dt := if dtArg > 0 then dtArg else s.dt
    (∀ v ∈ stepResidual M F G (s'.sv.take M.L.nX) dt
        ((s.sv.set M.L.nX (s.sv.getD M.L.nX 0 + dt)).take (M.L.nX + 1 + M.L.nU)), v = 0)
    ∧ s'.sv.length = M.L.len ∧ s'.dt = dt
    ∧ s'.sv.getD M.L.nX 0 = s.sv.getD M.L.nX 0 + dt
    ∧ s'.sv.drop (M.L.nX + 1) = s.sv.drop (M.L.nX + 1) := by
  intro dt
  have hu := update_unfold M F G root s dtArg hwf hlen
  simp only at hu
  rw [hu] at h
  have hnl := M.L.nX_lt_len
  split at h
  · cases h
  · rename_i next hr
    obtain ⟨hl, hz⟩ := hroot _ _ _ hr
    have hnext : next.length = M.L.nX := by
      rw [hl, List.length_take, hlen]; omega
    have htk : next.take M.L.nX = next := List.take_of_length_le (by omega)
    injection h with h
    subst h
    simp only [htk]
    have h1 : (next ++ List.drop M.L.nX (s.sv.set M.L.nX (s.sv.getD M.L.nX 0 + dt))).take M.L.nX
        = next := by
      rw [← hnext]; exact List.take_left
    refine ⟨?_, ?_, rfl, ?_, ?_⟩
    · rw [h1]; exact hz
    · simp [hnext, hlen]; omega
    · rw [List.getD_eq_getElem?_getD, List.getElem?_append_right (by omega), hnext,
        Nat.sub_self, List.getElem?_drop, Nat.add_zero,
        List.getElem?_set_self (by omega)]
      rfl
    · rw [← hnext, List.drop_append, List.drop_drop]
      simp only [hnext]
      rw [List.drop_of_length_le (by omega), List.nil_append]
      simp [List.drop_set_of_lt]

/-- the step residual, read in physical units of the old and the new object state -/
theorem stepResidual_phys (M : Static) (F G : ResFn) (s s' : Sim) (dt : Rat)
    (hlen : s.sv.length = M.L.len)
    (ht : s'.sv.getD M.L.nX 0 = s.sv.getD M.L.nX 0 + dt)
    (hd : s'.sv.drop (M.L.nX + 1) = s.sv.drop (M.L.nX + 1)) :
    stepResidual M F G (s'.sv.take M.L.nX) dt
        ((s.sv.set M.L.nX (s.sv.getD M.L.nX 0 + dt)).take (M.L.nX + 1 + M.L.nU))
      = F (envOf M s')
        ++ (List.range M.L.nS).map (fun k =>
              (envOf M s').d.getD k 0 - ((envOf M s').x.getD k 0 - (envOf M s).x.getD k 0) / dt)
        ++ G (envOf M s') := by
  have hnl := M.L.nX_lt_len
  have hc1 : ((s.sv.set M.L.nX (s.sv.getD M.L.nX 0 + dt)).take (M.L.nX + 1 + M.L.nU)).getD M.L.iT 0
      = s'.sv.getD M.L.nX 0 := by
    have hiT : M.L.iT = M.L.nX := rfl
    rw [hiT, ht, List.getD_eq_getElem?_getD, List.getElem?_take,
      if_pos (by omega), List.getElem?_set_self (by omega)]
    rfl
  have hc2 : ((s.sv.set M.L.nX (s.sv.getD M.L.nX 0 + dt)).take (M.L.nX + 1 + M.L.nU)).drop (M.L.nX + 1)
      = (s'.sv.drop (M.L.nX + 1)).take M.L.nU := by
    rw [hd, List.drop_take]
    congr 1
    · omega
    · simp [List.drop_set_of_lt]
  have hc3 : ((s.sv.set M.L.nX (s.sv.getD M.L.nX 0 + dt)).take (M.L.nX + 1 + M.L.nU)).take M.L.nX
      = s.sv.take M.L.nX := by
    rw [List.take_take, Nat.min_eq_left (by omega)]
    simp [List.take_set_of_le]
  unfold stepResidual
  simp only [hc1, hc2, hc3]
  have henv : mkEnv M.L (scaleSubst M.L M.nom (s'.sv.take M.L.nX)) (s'.sv.getD M.L.nX 0)
      ((s'.sv.drop (M.L.nX + 1)).take M.L.nU) M.p = envOf M s' := rfl
  rw [henv]
  congr 2
  apply List.map_congr_left
  intro k hk
  have hk : k < M.L.nS := List.mem_range.1 hk
  have e1 : (envOf M s').d.getD k 0 = (scaleSubst M.L M.nom (s'.sv.take M.L.nX)).getD (M.L.iD k) 0 :=
    mkEnv_d_getD _ _ _ _ _ _ hk
  have e2 : (envOf M s').x.getD k 0 = (scaleSubst M.L M.nom (s'.sv.take M.L.nX)).getD k 0 :=
    mkEnv_x_getD _ _ _ _ _ _ hk
  have e3 : (envOf M s).x.getD k 0 = (scaleSubst M.L M.nom (s.sv.take M.L.nX)).getD k 0 :=
    mkEnv_x_getD _ _ _ _ _ _ hk
  rw [e1, e2, e3]

end RtcVerif.C09
