import RtcVerif.Model.C09Sim
/-!
Reference definitions for the source-to-Lean translation of `SimulationProblem.initialize`
(harness/translate_c09.py): a tiny algebra of "symbolic column vectors" as CasADi builds them —
functions of the stored unknowns `X`, the previous unknowns `X_prev`, `dt` and the constants — with
`vertcat` and the nominal-scaling substitution, and the two bridging lemmas that read the model's
`initConstraints` / `stepResidual` in that algebra.  Core Lean only.
-/
namespace RtcVerif.C09

/-- the symbols a residual expression of `initialize()` depends on -/
structure SymArgs where
  X : Vec
  Xprev : Vec
  dt : Rat
  t : Rat
  u : Vec
  p : Vec

/-- a CasADi column vector expression -/
abbrev SymExpr := SymArgs → Vec

/-- `ca.vertcat(a, b)` -/
def SymExpr.vcat (a b : SymExpr) : SymExpr := fun z => a z ++ b z

/-- `ca.vertcat()` of nothing (e.g. `*delay_equations` for a model without `delay`) -/
def SymExpr.nil : SymExpr := fun _ => []

/-- `ca.substitute(e, unscaled_symbols, scaled_symbols)` where the symbol lists were built by a
    loop that maps `X[i] ↦ scX i` and (when `prev`) `X_prev[i] ↦ scX i` -/
def SymExpr.substScale (sc : Vec → Vec) (prev : Bool) (e : SymExpr) : SymExpr :=
  fun z => e { z with X := sc z.X, Xprev := if prev then sc z.Xprev else z.Xprev }

/-- `self.__dae_residual`, `self.__initial_residual`, `extra_equations` as expressions -/
def symOf (L : Layout) (F : ResFn) : SymExpr := fun z => F (mkEnv L z.X z.t z.u z.p)

/-- one backward-Euler row: `derivative_state - (X[index] - X_prev[index]) / dt` -/
def symDerRows (L : Layout) (row : Rat → Rat → Rat → Rat → Rat) : SymExpr :=
  fun z => (List.range L.nS).map fun k =>
    row (z.X.getD (L.iD k) 0) (z.X.getD k 0) (z.Xprev.getD k 0) z.dt

/-- the model's row -/
def modelRow (d x xp dt : Rat) : Rat := d - (x - xp) / dt

/-- the equality constraints of the initial NLP, as the model has them -/
def symInitConstraints (M : Static) (F Finit G : ResFn) : SymExpr :=
  SymExpr.substScale (scaleSubst M.L M.nom) true
    (SymExpr.vcat (SymExpr.vcat (symOf M.L F) (symOf M.L Finit)) (symOf M.L G))

/-- the residual handed to the root finder, as the model has it -/
def symStepResidual (M : Static) (F G : ResFn) : SymExpr :=
  SymExpr.substScale (scaleSubst M.L M.nom) true
    (SymExpr.vcat (SymExpr.vcat (symOf M.L F) (symDerRows M.L modelRow)) (symOf M.L G))

theorem initConstraints_eq_sym (M : Static) (F Finit G : ResFn) (sv X : Vec) :
    initConstraints M F Finit G sv X
      = symInitConstraints M F Finit G
          { X := X, Xprev := [], dt := 0, t := (sv.drop M.L.nX).getD 0 0,
            u := ((sv.drop M.L.nX).drop 1).take M.L.nU, p := M.p } := rfl

theorem stepResidual_eq_sym (M : Static) (F G : ResFn) (X : Vec) (dt : Rat) (consts : Vec) :
    stepResidual M F G X dt consts
      = symStepResidual M F G
          { X := X, Xprev := consts.take M.L.nX, dt := dt, t := consts.getD M.L.iT 0,
            u := consts.drop (M.L.nX + 1), p := M.p } := rfl

end RtcVerif.C09
