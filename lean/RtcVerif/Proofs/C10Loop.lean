import RtcVerif.Model.C10Loop
import RtcVerif.Proofs.C10Priority
/-!
The statement-level reference of the priority loop (`Model/C10Loop.lean`) agrees with the
functional model (`loop` / `optimize` / `runOnce`) the C10 property theorems are about.
-/
namespace RtcVerif.C10

theorem effSkip_iff (v : Variant) (skip : Int → Bool) (p : Int) :
    (v = .multiPass ∧ skip p = true) ↔ effSkip v skip p = true := by
  cases v <;> simp [effSkip]

theorem forLoop_spec (v : Variant) (run : Nat) (skip : Int → Bool) (oracle : Nat → Bool)
    (res0 : Option ResId) (raw0 : Option (Nat × Int × Bool)) :
    ∀ (ps : List Int) (st : PSt) (k : Nat) (succ : Bool) (cache : Option Int) (raw : Option (Int × Bool)),
      st.nsolves = k → st.success = succ → st.current = cache.isSome →
      st.results = (match cache with | some p => some (run, p) | none => res0) →
      st.lastRaw = (match raw with | some (p, ok) => some (run, p, ok) | none => raw0) →
      (forLoop (passRef v run skip oracle) st ps).events
          = st.events ++ (loop (effSkip v skip) oracle ps k succ cache raw).events ∧
      (forLoop (passRef v run skip oracle) st ps).success
          = (loop (effSkip v skip) oracle ps k succ cache raw).success ∧
      (forLoop (passRef v run skip oracle) st ps).current
          = (loop (effSkip v skip) oracle ps k succ cache raw).cache.isSome ∧
      (forLoop (passRef v run skip oracle) st ps).results
          = (match (loop (effSkip v skip) oracle ps k succ cache raw).cache with
             | some p => some (run, p) | none => res0) ∧
      (forLoop (passRef v run skip oracle) st ps).lastRaw
          = (match (loop (effSkip v skip) oracle ps k succ cache raw).lastRaw with
             | some (p, ok) => some (run, p, ok) | none => raw0) ∧
      (forLoop (passRef v run skip oracle) st ps).nsolves
          = (loop (effSkip v skip) oracle ps k succ cache raw).nsolves ∧
      (forLoop (passRef v run skip oracle) st ps).views
          = st.views ++ (completedOf (loop (effSkip v skip) oracle ps k succ cache raw).events).map
              (fun q => (q, some (run, q)))
  | [], st, k, succ, cache, raw, hk, hs, hc, hr, hl => by
    simp only [forLoop, loop_nil, List.append_nil]
    exact ⟨trivial, hs, hc, hr, hl, hk, by simp [completedOf]⟩
  | p :: ps, st, k, succ, cache, raw, hk, hs, hc, hr, hl => by
    rcases loop_cases (effSkip v skip) oracle p k with h | ⟨h, ho⟩ | ⟨h, ho⟩
    · -- removed in priority_started
      have hcond : v = .multiPass ∧ skip p = true := (effSkip_iff v skip p).2 h
      have hpass : passRef v run skip oracle st p
          = ({ st with events := st.events ++ [.started p], skipFlag := skip p }, .next) := by
        obtain ⟨hv, hsk⟩ := hcond
        subst hv
        unfold passRef; simp only [hsk, if_true]
      rw [loop_skip _ _ _ _ _ _ _ _ h]
      simp only [forLoop, hpass]
      have ih := forLoop_spec v run skip oracle res0 raw0 ps
        { st with events := st.events ++ [.started p], skipFlag := skip p } k succ cache raw hk hs hc hr hl
      obtain ⟨i1, i2, i3, i4, i5, i6, i7⟩ := ih
      refine ⟨?_, i2, i3, i4, i5, i6, ?_⟩
      · rw [i1]; simp
      · rw [i7]; simp [completedOf]
    · -- solved successfully
      have hcond : ¬ (v = .multiPass ∧ skip p = true) := by
        rw [effSkip_iff]; simp [h]
      have ho' : oracle st.nsolves = true := by rw [hk]; exact ho
      have hpass : passRef v run skip oracle st p
          = ({ events := st.events ++ [.started p] ++ [.solve p true] ++ [.completed p],
               success := true, current := true, results := some (run, p),
               lastRaw := some (run, p, true), nsolves := st.nsolves + 1, skipFlag := skip p,
               views := st.views ++ [(p, some (run, p))] }, .next) := by
        have hsk : v = .multiPass → skip p = false := by
          intro hv; cases hq : skip p
          · rfl
          · exact absurd ⟨hv, hq⟩ hcond
        cases v
        · unfold passRef solveAndStore
          simp [hsk rfl, ho', extractNow]
        · unfold passRef solveAndStore
          simp [ho', extractNow]
      rw [loop_ok _ _ _ _ _ _ _ _ h ho]
      simp only [forLoop, hpass]
      have ih := forLoop_spec v run skip oracle res0 raw0 ps
        { events := st.events ++ [.started p] ++ [.solve p true] ++ [.completed p],
          success := true, current := true, results := some (run, p),
          lastRaw := some (run, p, true), nsolves := st.nsolves + 1, skipFlag := skip p,
          views := st.views ++ [(p, some (run, p))] }
        (k + 1) true (some p) (some (p, true)) (by simp [hk]) rfl rfl rfl rfl
      obtain ⟨i1, i2, i3, i4, i5, i6, i7⟩ := ih
      refine ⟨?_, i2, i3, i4, i5, i6, ?_⟩
      · rw [i1]; simp
      · rw [i7]; simp [completedOf]
    · -- solver failed
      have hcond : ¬ (v = .multiPass ∧ skip p = true) := by
        rw [effSkip_iff]; simp [h]
      have ho' : oracle st.nsolves = false := by rw [hk]; exact ho
      have hpass : passRef v run skip oracle st p
          = ({ st with events := st.events ++ [.started p] ++ [.solve p false], success := false,
                       lastRaw := some (run, p, false), nsolves := st.nsolves + 1,
                       skipFlag := skip p }, .stop) := by
        have hsk : v = .multiPass → skip p = false := by
          intro hv; cases hq : skip p
          · rfl
          · exact absurd ⟨hv, hq⟩ hcond
        cases v
        · unfold passRef solveAndStore
          simp only [hsk rfl, Bool.false_eq_true, if_false, ho', if_true]
        · unfold passRef solveAndStore
          simp only [ho', if_true]
      rw [loop_fail _ _ _ _ _ _ _ _ h ho]
      simp only [forLoop, hpass]
      refine ⟨by simp, trivial, hc, hr, trivial, by simp [hk], by simp [completedOf]⟩

/-- **Reference = model**: one `optimize()` call stated statement by statement produces the log and
    return value of `optimize` and leaves the instance in the state `runOnce` says -/
theorem optimizeRef_eq_model (v : Variant) (run : Nat) (pst : Persist) (r : RunSpec) :
    (optimizeRef v run pst r).events = (optimize v r.gs r.skip r.oracle).events ∧
    (optimizeRef v run pst r).success = (optimize v r.gs r.skip r.oracle).success ∧
    (optimizeRef v run pst r).persist = (runOnce v true run pst r).1 ∧
    (optimizeRef v run pst r).views
      = (completedOf (optimize v r.gs r.skip r.oracle).events).map (fun q => (q, some (run, q))) := by
  have h0 : ∀ st : PSt, st = prologueRef v (enter pst) →
      st.nsolves = 0 ∧ st.success = false ∧ st.current = false ∧ st.results = pst.results ∧
        st.lastRaw = pst.lastRaw ∧ st.events = [] ∧ st.views = [] := by
    intro st hst; subst hst; cases v <;> simp [prologueRef, enter]
  obtain ⟨a1, a2, a3, a4, a5, a6, a7⟩ := h0 _ rfl
  have hs := forLoop_spec v run r.skip r.oracle pst.results pst.lastRaw (priorities r.gs)
    (prologueRef v (enter pst)) 0 false none none a1 a2 (by simpa using a3) a4 a5
  obtain ⟨i1, i2, i3, i4, i5, _, i7⟩ := hs
  rw [a6, List.nil_append] at i1
  rw [a7, List.nil_append] at i7
  refine ⟨?_, ?_, ?_, ?_⟩
  · show (forLoop _ _ _).events ++ [Event.post] = _
    rw [i1]; rfl
  · show (forLoop _ _ _).success = _
    rw [i2]; rfl
  · show (⟨(forLoop _ _ _).results, (forLoop _ _ _).current, (forLoop _ _ _).lastRaw⟩ : Persist) = _
    rw [i3, i4, i5]
    unfold runOnce
    simp only [if_true]
    show _ = (⟨match (core v r.gs r.skip r.oracle).cache with | some p => some (run, p) | none => pst.results,
               match (core v r.gs r.skip r.oracle).cache with | some _ => true | none => false,
               match (core v r.gs r.skip r.oracle).lastRaw with | some (p, ok) => some (run, p, ok) | none => pst.lastRaw⟩ : Persist)
    unfold core
    cases (loop (effSkip v r.skip) r.oracle (priorities r.gs) 0 false none none).cache <;> rfl
  · show (forLoop _ _ _).views = _
    rw [i7, optimize_events, completedOf_append]
    simp [completedOf, core]

end RtcVerif.C10
