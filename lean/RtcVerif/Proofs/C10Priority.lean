import RtcVerif.Model.C10Priority
import Mathlib.Tactic.Linarith
import Mathlib.Order.Defs.LinearOrder
/-!
Helper lemmas for C10: `sortU` is `sorted(set(·))`; structure of the event log produced by the
priority loop, for arbitrary accumulators.
-/
namespace RtcVerif.C10

/-! ### `sortU` -/

theorem mem_insertU (x y : Int) : ∀ l : List Int, y ∈ insertU x l ↔ y = x ∨ y ∈ l
  | [] => by simp [insertU]
  | z :: zs => by
    unfold insertU
    split
    · simp
    · split
      · rename_i _ h; subst h; simp
      · simp only [List.mem_cons, mem_insertU x y zs]
        constructor
        · rintro (h | h | h)
          · exact Or.inr (Or.inl h)
          · exact Or.inl h
          · exact Or.inr (Or.inr h)
        · rintro (h | h | h)
          · exact Or.inr (Or.inl h)
          · exact Or.inl h
          · exact Or.inr (Or.inr h)

theorem insertU_sorted (x : Int) : ∀ l : List Int, l.Pairwise (· < ·) → (insertU x l).Pairwise (· < ·)
  | [], _ => by simp [insertU]
  | z :: zs, h => by
    unfold insertU
    have hz := List.pairwise_cons.1 h
    split
    · rename_i hlt
      refine List.pairwise_cons.2 ⟨?_, h⟩
      intro a ha
      rcases List.mem_cons.1 ha with rfl | ha
      · exact hlt
      · exact lt_trans hlt (hz.1 a ha)
    · split
      · exact h
      · rename_i hnlt hne
        refine List.pairwise_cons.2 ⟨?_, insertU_sorted x zs hz.2⟩
        intro a ha
        rcases (mem_insertU x a zs).1 ha with rfl | ha
        · omega
        · exact hz.1 a ha

theorem mem_sortU (y : Int) : ∀ l : List Int, y ∈ sortU l ↔ y ∈ l
  | [] => by simp [sortU]
  | x :: xs => by
    have ih := mem_sortU y xs
    unfold sortU at ih ⊢
    rw [List.foldr_cons, mem_insertU, ih, List.mem_cons]

theorem sortU_sorted : ∀ l : List Int, (sortU l).Pairwise (· < ·)
  | [] => by simp [sortU]
  | x :: xs => by
    have ih := sortU_sorted xs
    unfold sortU at ih ⊢
    rw [List.foldr_cons]
    exact insertU_sorted x _ ih

/-! ### reading solve lists -/

/-- priority of the last successful solve of a list of solver calls -/
def lastOk : List (Int × Bool) → Option Int
  | [] => none
  | (p, ok) :: t =>
    match lastOk t with
    | some q => some q
    | none => if ok then some p else none

/-- the bracketing grammar: `(started p · [solve p true · completed p])* · (started q · solve q false)?`
    where a `started p` without a solve is a priority removed by the hook -/
inductive Bracketed (skip : Int → Bool) : List Event → Prop
  | nil : Bracketed skip []
  | skipped (p : Int) (es : List Event) : skip p = true → Bracketed skip es →
      Bracketed skip (.started p :: es)
  | ok (p : Int) (es : List Event) : skip p = false → Bracketed skip es →
      Bracketed skip (.started p :: .solve p true :: .completed p :: es)
  | failed (p : Int) : skip p = false → Bracketed skip [.started p, .solve p false]

/-! ### one-step unfolding of the loop -/

section unfold
variable (skip : Int → Bool) (oracle : Nat → Bool)

theorem loop_nil (k : Nat) (succ : Bool) (cache : Option Int) (raw : Option (Int × Bool)) :
    loop skip oracle [] k succ cache raw = ⟨[], succ, cache, raw, k⟩ := rfl

theorem loop_skip (p : Int) (ps : List Int) (k : Nat) (succ : Bool) (cache : Option Int)
    (raw : Option (Int × Bool)) (h : skip p = true) :
    loop skip oracle (p :: ps) k succ cache raw =
      { loop skip oracle ps k succ cache raw with
        events := .started p :: (loop skip oracle ps k succ cache raw).events } := by
  rw [loop]; simp [h]

theorem loop_ok (p : Int) (ps : List Int) (k : Nat) (succ : Bool) (cache : Option Int)
    (raw : Option (Int × Bool)) (h : skip p = false) (ho : oracle k = true) :
    loop skip oracle (p :: ps) k succ cache raw =
      { loop skip oracle ps (k + 1) true (some p) (some (p, true)) with
        events := .started p :: .solve p true :: .completed p ::
          (loop skip oracle ps (k + 1) true (some p) (some (p, true))).events } := by
  rw [loop]; simp [h, ho]

theorem loop_fail (p : Int) (ps : List Int) (k : Nat) (succ : Bool) (cache : Option Int)
    (raw : Option (Int × Bool)) (h : skip p = false) (ho : oracle k = false) :
    loop skip oracle (p :: ps) k succ cache raw =
      ⟨[.started p, .solve p false], false, cache, some (p, false), k + 1⟩ := by
  rw [loop]; simp [h, ho]

end unfold

/-- case analysis of one pass -/
theorem loop_cases (skip : Int → Bool) (oracle : Nat → Bool) (p : Int) (k : Nat) :
    skip p = true ∨ (skip p = false ∧ oracle k = true) ∨ (skip p = false ∧ oracle k = false) := by
  cases skip p <;> cases oracle k <;> simp

/-! ### the log of the loop -/

theorem loop_started_prefix (skip : Int → Bool) (oracle : Nat → Bool) :
    ∀ (ps : List Int) (k : Nat) (succ : Bool) (cache : Option Int) (raw : Option (Int × Bool)),
      startedOf (loop skip oracle ps k succ cache raw).events <+: ps
  | [], k, succ, cache, raw => by simp [loop_nil, startedOf]
  | p :: ps, k, succ, cache, raw => by
    rcases loop_cases skip oracle p k with h | ⟨h, ho⟩ | ⟨h, ho⟩
    · rw [loop_skip _ _ _ _ _ _ _ _ h]
      simp only [startedOf]
      exact (List.prefix_cons_inj p).2 (loop_started_prefix skip oracle ps k succ cache raw)
    · rw [loop_ok _ _ _ _ _ _ _ _ h ho]
      simp only [startedOf]
      exact (List.prefix_cons_inj p).2 (loop_started_prefix skip oracle ps _ _ _ _)
    · rw [loop_fail _ _ _ _ _ _ _ _ h ho]
      simp [startedOf]

theorem loop_bracketed (skip : Int → Bool) (oracle : Nat → Bool) :
    ∀ (ps : List Int) (k : Nat) (succ : Bool) (cache : Option Int) (raw : Option (Int × Bool)),
      Bracketed skip (loop skip oracle ps k succ cache raw).events
  | [], k, succ, cache, raw => by rw [loop_nil]; exact .nil
  | p :: ps, k, succ, cache, raw => by
    rcases loop_cases skip oracle p k with h | ⟨h, ho⟩ | ⟨h, ho⟩
    · rw [loop_skip _ _ _ _ _ _ _ _ h]
      exact .skipped p _ h (loop_bracketed skip oracle ps k succ cache raw)
    · rw [loop_ok _ _ _ _ _ _ _ _ h ho]
      exact .ok p _ h (loop_bracketed skip oracle ps _ _ _ _)
    · rw [loop_fail _ _ _ _ _ _ _ _ h ho]
      exact .failed p h

/-- everything the final values say, in terms of the solver calls recorded in the log -/
theorem loop_solves (skip : Int → Bool) (oracle : Nat → Bool) :
    ∀ (ps : List Int) (k : Nat) (succ : Bool) (cache : Option Int) (raw : Option (Int × Bool)),
      let r := loop skip oracle ps k succ cache raw
      let sv := solvesOf r.events
      r.nsolves = k + sv.length ∧
      (∀ i (hi : i < sv.length), (sv[i]'hi).2 = oracle (k + i)) ∧
      r.success = (match sv.getLast? with | some x => x.2 | none => succ) ∧
      r.cache = (match lastOk sv with | some q => some q | none => cache) ∧
      r.lastRaw = (match sv.getLast? with | some x => some x | none => raw) ∧
      completedOf r.events = (sv.filter (·.2)).map (·.1) ∧
      (∀ x ∈ sv, skip x.1 = false)
  | [], k, succ, cache, raw => by
    simp [loop_nil, solvesOf, completedOf, lastOk]
  | p :: ps, k, succ, cache, raw => by
    rcases loop_cases skip oracle p k with h | ⟨h, ho⟩ | ⟨h, ho⟩
    · rw [loop_skip _ _ _ _ _ _ _ _ h]
      simpa [solvesOf, completedOf] using loop_solves skip oracle ps k succ cache raw
    · rw [loop_ok _ _ _ _ _ _ _ _ h ho]
      obtain ⟨i1, i2, i3, i4, i5, i6, i7⟩ := loop_solves skip oracle ps (k + 1) true (some p) (some (p, true))
      simp only [solvesOf, completedOf] at *
      refine ⟨?_, ?_, ?_, ?_, ?_, ?_, ?_⟩
      · rw [i1]; simp; omega
      · intro i hi
        cases i with
        | zero => simpa using ho
        | succ j =>
          simp only [List.getElem_cons_succ]
          have := i2 j (by simpa using hi)
          rw [this]; congr 1; omega
      · rw [i3]
        cases hsv : solvesOf (loop skip oracle ps (k + 1) true (some p) (some (p, true))).events with
        | nil => simp
        | cons a t =>
          cases hl : (a :: t).getLast? with
          | none => simp at hl
          | some x => rw [List.getLast?_cons_cons, hl]
      · rw [i4]
        simp only [lastOk]
        cases lastOk (solvesOf (loop skip oracle ps (k + 1) true (some p) (some (p, true))).events) <;> simp
      · rw [i5]
        cases hsv : solvesOf (loop skip oracle ps (k + 1) true (some p) (some (p, true))).events with
        | nil => simp
        | cons a t =>
          cases hl : (a :: t).getLast? with
          | none => simp at hl
          | some x => rw [List.getLast?_cons_cons, hl]
      · rw [i6]; simp
      · intro x hx
        rcases List.mem_cons.1 hx with rfl | hx
        · exact h
        · exact i7 x hx
    · rw [loop_fail _ _ _ _ _ _ _ _ h ho]
      simp [solvesOf, completedOf, lastOk, ho, h]

/-- a failure is the end of the loop: nothing follows it, and everything before it succeeded -/
theorem loop_failure_last (skip : Int → Bool) (oracle : Nat → Bool) :
    ∀ (ps : List Int) (k : Nat) (succ : Bool) (cache : Option Int) (raw : Option (Int × Bool)) (q : Int),
      (q, false) ∈ solvesOf (loop skip oracle ps k succ cache raw).events →
      ∃ es, (loop skip oracle ps k succ cache raw).events = es ++ [.started q, .solve q false] ∧
        (∀ x ∈ solvesOf es, x.2 = true)
  | [], k, succ, cache, raw, q => by simp [loop_nil, solvesOf]
  | p :: ps, k, succ, cache, raw, q => by
    rcases loop_cases skip oracle p k with h | ⟨h, ho⟩ | ⟨h, ho⟩
    · rw [loop_skip _ _ _ _ _ _ _ _ h]
      intro hm
      simp only [solvesOf] at hm
      obtain ⟨es, he, hall⟩ := loop_failure_last skip oracle ps k succ cache raw q hm
      exact ⟨.started p :: es, by simp [he], by simpa [solvesOf] using hall⟩
    · rw [loop_ok _ _ _ _ _ _ _ _ h ho]
      intro hm
      simp only [solvesOf, List.mem_cons, Prod.mk.injEq, Bool.false_eq_true, and_false, false_or] at hm
      obtain ⟨es, he, hall⟩ := loop_failure_last skip oracle ps _ _ _ _ q hm
      refine ⟨.started p :: .solve p true :: .completed p :: es, by simp [he], ?_⟩
      intro x hx
      simp only [solvesOf, List.mem_cons] at hx
      rcases hx with rfl | hx
      · rfl
      · exact hall x hx
    · rw [loop_fail _ _ _ _ _ _ _ _ h ho]
      intro hm
      simp only [solvesOf, List.mem_cons, Prod.mk.injEq, and_true, List.not_mem_nil, or_false] at hm
      subst hm
      exact ⟨[], by simp, by simp [solvesOf]⟩

/-- the priorities at which the solver is called form a sublist of the priority list -/
theorem loop_solves_sublist (skip : Int → Bool) (oracle : Nat → Bool) :
    ∀ (ps : List Int) (k : Nat) (succ : Bool) (cache : Option Int) (raw : Option (Int × Bool)),
      ((solvesOf (loop skip oracle ps k succ cache raw).events).map (·.1)).Sublist ps
  | [], k, succ, cache, raw => by simp [loop_nil, solvesOf]
  | p :: ps, k, succ, cache, raw => by
    rcases loop_cases skip oracle p k with h | ⟨h, ho⟩ | ⟨h, ho⟩
    · rw [loop_skip _ _ _ _ _ _ _ _ h]
      simp only [solvesOf]
      exact List.Sublist.cons p (loop_solves_sublist skip oracle ps k succ cache raw)
    · rw [loop_ok _ _ _ _ _ _ _ _ h ho]
      simp only [solvesOf, List.map_cons]
      exact List.Sublist.cons_cons p (loop_solves_sublist skip oracle ps _ _ _ _)
    · rw [loop_fail _ _ _ _ _ _ _ _ h ho]
      simp [solvesOf]

/-- when every solver call succeeds the loop visits every priority -/
theorem loop_all_started (skip : Int → Bool) (oracle : Nat → Bool) :
    ∀ (ps : List Int) (k : Nat) (succ : Bool) (cache : Option Int) (raw : Option (Int × Bool)),
      (∀ x ∈ solvesOf (loop skip oracle ps k succ cache raw).events, x.2 = true) →
      startedOf (loop skip oracle ps k succ cache raw).events = ps
  | [], k, succ, cache, raw => by simp [loop_nil, startedOf]
  | p :: ps, k, succ, cache, raw => by
    rcases loop_cases skip oracle p k with h | ⟨h, ho⟩ | ⟨h, ho⟩
    · rw [loop_skip _ _ _ _ _ _ _ _ h]
      intro hall
      simp only [solvesOf, startedOf] at *
      rw [loop_all_started skip oracle ps k succ cache raw hall]
    · rw [loop_ok _ _ _ _ _ _ _ _ h ho]
      intro hall
      simp only [solvesOf, startedOf, List.mem_cons] at *
      rw [loop_all_started skip oracle ps _ _ _ _ (fun x hx => hall x (Or.inr hx))]
    · rw [loop_fail _ _ _ _ _ _ _ _ h ho]
      intro hall
      have := hall (p, false) (by simp [solvesOf])
      simp at this

/-- no `post` event inside the loop -/
theorem loop_no_post (skip : Int → Bool) (oracle : Nat → Bool) :
    ∀ (ps : List Int) (k : Nat) (succ : Bool) (cache : Option Int) (raw : Option (Int × Bool)),
      Event.post ∉ (loop skip oracle ps k succ cache raw).events
  | [], k, succ, cache, raw => by simp [loop_nil]
  | p :: ps, k, succ, cache, raw => by
    rcases loop_cases skip oracle p k with h | ⟨h, ho⟩ | ⟨h, ho⟩
    · rw [loop_skip _ _ _ _ _ _ _ _ h]; simpa using loop_no_post skip oracle ps k succ cache raw
    · rw [loop_ok _ _ _ _ _ _ _ _ h ho]; simpa using loop_no_post skip oracle ps _ _ _ _
    · rw [loop_fail _ _ _ _ _ _ _ _ h ho]; simp

/-- in a list of solver calls with strictly increasing priorities, the priority identifies the call -/
theorem eq_of_same_priority : ∀ {l : List (Int × Bool)}, (l.map (·.1)).Pairwise (· < ·) →
    ∀ x ∈ l, ∀ y ∈ l, x.1 = y.1 → x = y
  | [], _, x, hx, _, _, _ => by cases hx
  | a :: t, h, x, hx, y, hy, hxy => by
    simp only [List.map_cons, List.pairwise_cons, List.mem_map, forall_exists_index, and_imp,
      forall_apply_eq_imp_iff₂] at h
    rcases List.mem_cons.1 hx with hxa | hxt
    · rcases List.mem_cons.1 hy with hya | hyt
      · rw [hxa, hya]
      · have := h.1 y hyt; rw [hxa] at hxy; omega
    · rcases List.mem_cons.1 hy with hya | hyt
      · have := h.1 x hxt; rw [hya] at hxy; omega
      · exact eq_of_same_priority h.2 x hxt y hyt hxy

theorem lastOk_append_fail (l : List (Int × Bool)) (q : Int) : lastOk (l ++ [(q, false)]) = lastOk l := by
  induction l with
  | nil => simp [lastOk]
  | cons a t ih =>
    obtain ⟨p, ok⟩ := a
    simp only [List.cons_append, lastOk, ih]

theorem lastOk_all_ok : ∀ (l : List (Int × Bool)), (∀ x ∈ l, x.2 = true) →
    lastOk l = l.getLast?.map (·.1)
  | [], _ => rfl
  | [(p, ok)], h => by
    have := h (p, ok) (by simp)
    simp only at this
    subst this
    simp [lastOk]
  | (p, ok) :: b :: t, h => by
    have ih := lastOk_all_ok (b :: t) (fun x hx => h x (List.mem_cons_of_mem _ hx))
    rw [lastOk, ih, List.getLast?_cons_cons]
    cases hl : (b :: t).getLast? with
    | none => simp at hl
    | some x => simp

theorem startedOf_append (a b : List Event) : startedOf (a ++ b) = startedOf a ++ startedOf b := by
  induction a with
  | nil => rfl
  | cons e t ih => cases e <;> simp [startedOf, ih]

theorem solvesOf_append (a b : List Event) : solvesOf (a ++ b) = solvesOf a ++ solvesOf b := by
  induction a with
  | nil => rfl
  | cons e t ih => cases e <;> simp [solvesOf, ih]

theorem completedOf_append (a b : List Event) : completedOf (a ++ b) = completedOf a ++ completedOf b := by
  induction a with
  | nil => rfl
  | cons e t ih => cases e <;> simp [completedOf, ih]

/-- the event log of `optimize` is the loop's log followed by exactly one `post` -/
theorem optimize_events (v : Variant) (gs : List Goal) (skip : Int → Bool) (oracle : Nat → Bool) :
    (optimize v gs skip oracle).events = (core v gs skip oracle).events ++ [.post] := rfl

/-- the cache flag/contents and the base-class output at the end of one run, read off its log -/
theorem optimize_cache_raw (v : Variant) (gs : List Goal) (skip : Int → Bool) (oracle : Nat → Bool) :
    (optimize v gs skip oracle).cache = lastOk (solvesOf (optimize v gs skip oracle).events) ∧
    (optimize v gs skip oracle).lastRaw = (solvesOf (optimize v gs skip oracle).events).getLast? := by
  have hsv : solvesOf (optimize v gs skip oracle).events = solvesOf (core v gs skip oracle).events := by
    rw [optimize_events, solvesOf_append]; simp [solvesOf]
  rw [hsv]
  have hs := loop_solves (effSkip v skip) oracle (priorities gs) 0 false none none
  simp only at hs
  obtain ⟨_, _, _, hcache, hraw, _⟩ := hs
  constructor
  · show (core v gs skip oracle).cache = _
    unfold core; rw [hcache]
    cases lastOk (solvesOf (loop (effSkip v skip) oracle (priorities gs) 0 false none none).events) <;> rfl
  · show (core v gs skip oracle).lastRaw = _
    unfold core; rw [hraw]
    cases (solvesOf (loop (effSkip v skip) oracle (priorities gs) 0 false none none).events).getLast? <;> rfl

theorem seqFrom_length (v : Variant) (reset : Bool) : ∀ (rs : List RunSpec) (k : Nat) (st : Persist),
    (seqFrom v reset k st rs).length = rs.length
  | [], _, _ => rfl
  | r :: rs, k, st => by simp [seqFrom, seqFrom_length v reset rs]

/-- the i-th element of a sequence is one `runOnce`, number `k + i`, from SOME carried state -/
theorem seqFrom_get (v : Variant) (reset : Bool) : ∀ (rs : List RunSpec) (k : Nat) (st : Persist)
    (i : Nat) (hi : i < rs.length),
    ∃ sti, (seqFrom v reset k st rs)[i]'(by rw [seqFrom_length]; exact hi) =
      ((runOnce v reset (k + i) sti rs[i]).2, exposedS (runOnce v reset (k + i) sti rs[i]).1)
  | [], _, _, i, hi => by simp at hi
  | r :: rs, k, st, 0, _ => ⟨st, by simp [seqFrom]⟩
  | r :: rs, k, st, i + 1, hi => by
    obtain ⟨sti, h⟩ := seqFrom_get v reset rs (k + 1) (runOnce v reset k st r).1 i (by simpa using hi)
    refine ⟨sti, ?_⟩
    simp only [seqFrom, List.getElem_cons_succ]
    rw [h]
    have : k + 1 + i = k + (i + 1) := by omega
    rw [this]

end RtcVerif.C10
