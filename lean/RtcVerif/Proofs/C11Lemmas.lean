import RtcVerif.Model.C11
import Mathlib.Algebra.Order.Field.Rat
import Mathlib.Algebra.Order.Field.Basic
import Mathlib.Tactic.Linarith
import Mathlib.Tactic.Ring
import Mathlib.Tactic.FieldSimp
import Mathlib.Tactic.NormNum
import Mathlib.Tactic.Push
/-! Helper lemmas for C11: rounding, list shifts of `resize`, padding. -/
namespace RtcVerif.C11

/-! ## rounding -/

theorem pyRound_intCast (k : Int) : pyRound (k : Rat) = k := by
  unfold pyRound
  simp only [Rat.floor_intCast, sub_self]
  norm_num

theorem pyRound_abs (q : Rat) : |(pyRound q : Rat) - q| ≤ 1 / 2 := by
  unfold pyRound
  have h1 := Rat.floor_le q
  have h2 := Rat.lt_floor_add_one q
  push_cast at h2
  simp only []
  rw [abs_le]
  split
  · constructor <;> linarith
  · split
    · push_cast; constructor <;> linarith
    · rename_i h3 h4
      have h5 : q - (q.floor : Rat) = 1 / 2 := le_antisymm (not_lt.1 h4) (not_lt.1 h3)
      split
      · constructor <;> linarith
      · push_cast; constructor <;> linarith

theorem roundDiv_mul (k d : Int) (hd : d ≠ 0) : roundDiv (k * d) d = k := by
  unfold roundDiv
  have hd' : (d : Rat) ≠ 0 := by exact_mod_cast hd
  have : ((k * d : Int) : Rat) / (d : Rat) = (k : Rat) := by
    push_cast
    field_simp
  rw [this, pyRound_intCast]

theorem roundDivP1_mul (k d : Int) (hd : d ≠ 0) : roundDivP1 (k * d) d = k + 1 := by
  unfold roundDivP1
  have hd' : (d : Rat) ≠ 0 := by exact_mod_cast hd
  have : ((k * d : Int) : Rat) / (d : Rat) + 1 = ((k + 1 : Int) : Rat) := by
    push_cast
    field_simp
  rw [this, pyRound_intCast]

theorem floorDT_grid (g d j : Int) (hd : 0 < d) : floorDT g d (g + j * d) = g + j * d := by
  have h2d : 0 < 2 * d := by omega
  unfold floorDT
  have hs : g + j * d - g = j * d := by ring
  simp only [hs]
  have : (2 * (j * d) + d) / (2 * d) = j := by
    have e : 2 * (j * d) + d = d + 2 * d * j := by ring
    rw [e, Int.add_mul_ediv_left _ _ (Int.ne_of_gt h2d)]
    have : d / (2 * d) = 0 := Int.ediv_eq_zero_of_lt (le_of_lt hd) (by omega)
    omega
  rw [this]
  ring

/-! ## bisect on strictly increasing stamps -/

theorem bisectLeft_head (t : Int) (l : List Int) : bisectLeft (t :: l) t = 0 := by
  simp [bisectLeft]

theorem bisectLeft_last (l : List Int) (hs : l.Pairwise (· < ·)) (x : Int)
    (hx : l.getLast? = some x) : bisectLeft l x + 1 = l.length := by
  induction l with
  | nil => cases hx
  | cons y l ih =>
    cases l with
    | nil =>
      simp only [List.getLast?_singleton, Option.some.injEq] at hx
      subst hx
      simp [bisectLeft]
    | cons z l' =>
      rw [List.getLast?_cons_cons] at hx
      rw [List.pairwise_cons] at hs
      have hmem : x ∈ z :: l' := List.mem_of_getLast? hx
      have hlt : y < x := hs.1 x hmem
      simp only [bisectLeft, hlt, if_true] at ih ⊢
      have := ih hs.2 hx
      simp only [List.length_cons] at this ⊢
      omega

theorem mem_gridTimes (start d : Int) (n : Nat) (t : Int) (h : t ∈ gridTimes start d n) :
    ∃ j : Int, t = start + j * d := by
  unfold gridTimes at h
  rw [List.mem_map] at h
  obtain ⟨i, _, rfl⟩ := h
  exact ⟨i, rfl⟩

theorem gridTimes_length (start d : Int) (n : Nat) : (gridTimes start d n).length = n := by
  simp [gridTimes]

/-! ## `getZ` under the shifts of `resize` -/

theorem nans_length (n : Nat) : (nans n).length = n := by simp [nans]

theorem getZ_neg (v : List XVal) (i : Int) (h : i < 0) : getZ v i = XVal.nan := by
  simp [getZ, not_le.2 h]

theorem getZ_nonneg (v : List XVal) (i : Int) (h : 0 ≤ i) : getZ v i = v.getD i.toNat XVal.nan := by
  simp [getZ, h]

theorem getZ_ge_length (v : List XVal) (i : Int) (h : (v.length : Int) ≤ i) : getZ v i = XVal.nan := by
  by_cases h0 : 0 ≤ i
  · rw [getZ_nonneg v i h0]
    have : v.length ≤ i.toNat := by omega
    simp [List.getD_eq_getElem?_getD, List.getElem?_eq_none this]
  · exact getZ_neg v i (by omega)

theorem getD_nans (n i : Nat) : (nans n).getD i XVal.nan = XVal.nan := by
  unfold nans
  rw [List.getD_eq_getElem?_getD]
  by_cases h : i < n
  · simp [h]
  · simp [h]

theorem shiftStart_length (a : Int) (v : List XVal) (ha : a ≤ v.length) :
    ((shiftStart a v).length : Int) = v.length - a := by
  unfold shiftStart
  split
  · simp only [List.length_drop]; omega
  · split
    · simp only [List.length_append, nans_length]; omega
    · omega

theorem getZ_shiftStart (a : Int) (v : List XVal) (i : Int) :
    getZ (shiftStart a v) i = if 0 ≤ i then getZ v (i + a) else XVal.nan := by
  by_cases hi : 0 ≤ i
  · rw [if_pos hi]
    unfold shiftStart
    split
    · rename_i ha
      rw [getZ_nonneg _ _ hi, getZ_nonneg _ _ (by omega)]
      rw [List.getD_eq_getElem?_getD, List.getD_eq_getElem?_getD, List.getElem?_drop]
      congr 2
      omega
    · split
      · rename_i _ ha
        rw [getZ_nonneg _ _ hi, List.getD_eq_getElem?_getD]
        by_cases hlt : i.toNat < (-a).toNat
        · rw [List.getElem?_append_left (by simpa [nans_length] using hlt)]
          have hneg : i + a < 0 := by omega
          rw [getZ_neg _ _ hneg]
          have := getD_nans (-a).toNat i.toNat
          rwa [List.getD_eq_getElem?_getD] at this
        · rw [List.getElem?_append_right (by simpa [nans_length] using Nat.le_of_not_lt hlt)]
          rw [getZ_nonneg _ _ (by omega), List.getD_eq_getElem?_getD]
          congr 2
          simp only [nans_length]
          omega
      · have : a = 0 := by omega
        simp [this]
  · rw [if_neg hi]
    exact getZ_neg _ _ (by omega)

theorem shiftEnd_length (b : Int) (v : List XVal) (hb : 0 ≤ (v.length : Int) + b) :
    ((shiftEnd b v).length : Int) = v.length + b := by
  unfold shiftEnd
  split
  · simp only [List.length_append, nans_length]; omega
  · split
    · simp only [List.length_take]; omega
    · omega

theorem getZ_shiftEnd (b : Int) (v : List XVal) (i : Int) :
    getZ (shiftEnd b v) i = if i < (v.length : Int) + b then getZ v i else XVal.nan := by
  by_cases hi : 0 ≤ i
  · unfold shiftEnd
    split
    · rename_i hb
      rw [getZ_nonneg _ _ hi, List.getD_eq_getElem?_getD]
      by_cases hlt : i.toNat < v.length
      · rw [List.getElem?_append_left hlt, if_pos (by omega), getZ_nonneg _ _ hi,
          List.getD_eq_getElem?_getD]
      · rw [List.getElem?_append_right (Nat.le_of_not_lt hlt)]
        have h1 := getD_nans b.toNat (i.toNat - v.length)
        rw [List.getD_eq_getElem?_getD] at h1
        rw [h1]
        have : getZ v i = XVal.nan := getZ_ge_length v i (by omega)
        rw [this]
        simp
    · split
      · rename_i _ hb
        rw [getZ_nonneg _ _ hi, List.getD_eq_getElem?_getD, List.getElem?_take]
        by_cases hlt : i < (v.length : Int) + b
        · rw [if_pos hlt, if_pos (by omega), getZ_nonneg _ _ hi, List.getD_eq_getElem?_getD]
        · rw [if_neg hlt, if_neg (by omega)]
          rfl
      · have hb0 : b = 0 := by omega
        subst hb0
        by_cases hlt : i < (v.length : Int) + 0
        · rw [if_pos hlt]
        · rw [if_neg hlt]
          exact getZ_ge_length v i (by omega)
  · rw [getZ_neg _ _ (by omega), getZ_neg _ _ (by omega)]
    simp

/-- one series under `resize` by `a` steps at the start and `b` at the end (`a ≤ length`, i.e. the
    new window starts at most one step after the old end — the complement is finding F26) -/
theorem getZ_resizeCore (a b : Int) (v : List XVal) (ha : a ≤ v.length) (i : Int) :
    getZ (shiftEnd b (shiftStart a v)) i =
      if 0 ≤ i ∧ i < (v.length : Int) - a + b then getZ v (i + a) else XVal.nan := by
  rw [getZ_shiftEnd, getZ_shiftStart, shiftStart_length a v ha]
  by_cases h1 : i < (v.length : Int) - a + b
  · by_cases h0 : 0 ≤ i
    · simp [h0, h1]
    · simp [h0, h1]
  · simp [h1]

theorem resizeCore_length (a b : Int) (v : List XVal) (ha : a ≤ v.length)
    (hb : 0 ≤ (v.length : Int) - a + b) :
    ((shiftEnd b (shiftStart a v)).length : Int) = (v.length : Int) - a + b := by
  rw [shiftEnd_length b _ (by rw [shiftStart_length a v ha]; exact hb), shiftStart_length a v ha]

/-! ## NetCDF axis, parameters, ids -/

theorem minList_le (l : List Int) (m : Int) (h : minList l = some m) : ∀ x ∈ l, m ≤ x := by
  induction l generalizing m with
  | nil => cases h
  | cons y l ih =>
    intro x hx
    simp only [minList] at h
    cases hm : minList l with
    | none =>
      rw [hm] at h
      simp only [Option.some.injEq] at h
      cases l with
      | nil =>
        simp only [List.mem_cons, List.not_mem_nil, or_false] at hx
        omega
      | cons z l' =>
        simp only [minList] at hm
        cases h2 : minList l' <;> rw [h2] at hm <;> cases hm
    | some m' =>
      rw [hm] at h
      simp only [Option.some.injEq] at h
      rcases List.mem_cons.1 hx with rfl | hx
      · split at h <;> omega
      · have := ih m' hm x hx
        split at h <;> omega

theorem minList_some_of_ne (l : List Int) (h : l ≠ []) : ∃ m, minList l = some m := by
  cases l with
  | nil => exact absurd rfl h
  | cons y l =>
    simp only [minList]
    cases minList l <;> simp

theorem findPar_setPar_same (p : Nat) (v : PVal) (pars : List (Nat × PVal)) (old : PVal)
    (h : findPar p pars = some old) : findPar p (setPar p v pars) = some v := by
  induction pars with
  | nil => cases h
  | cons x l ih =>
    obtain ⟨k, w⟩ := x
    simp only [findPar, setPar] at h ⊢
    by_cases hk : k = p
    · simp [hk, findPar]
    · simp only [hk, if_false] at h ⊢
      simp only [findPar, hk, if_false]
      exact ih h

theorem findPar_setPar_other (p p' : Nat) (hp : p' ≠ p) (v : PVal) (pars : List (Nat × PVal)) :
    findPar p' (setPar p v pars) = findPar p' pars := by
  induction pars with
  | nil => rfl
  | cons x l ih =>
    obtain ⟨k, w⟩ := x
    simp only [setPar]
    by_cases hk : k = p
    · subst hk
      simp only [if_true, findPar]
      have : ¬ k = p' := fun h => hp h.symm
      simp [this]
    · simp only [hk, if_false, findPar]
      rw [ih]

/-! ## association lists -/

theorem lookup_map_vals (f : List XVal → List XVal) (v : Nat) (sl : Slot) :
    lookup v (sl.map (fun e => { e with vals := f e.vals })) =
      (lookup v sl).map (fun e => { e with vals := f e.vals }) := by
  induction sl with
  | nil => rfl
  | cons x l ih =>
    simp only [List.map_cons, lookup]
    split
    · rfl
    · exact ih

theorem get_mapVals (f : List XVal → List XVal) (s : Store) (slots : List Slot) (m v : Nat)
    (h : slots = mapVals f s.slots) (s' : Store) (hs : s'.slots = slots) :
    s'.get m v = (s.get m v).map f := by
  subst h
  unfold Store.get
  rw [hs]
  unfold mapVals
  by_cases hm : m < s.slots.length
  · rw [List.getD_eq_getElem?_getD, List.getD_eq_getElem?_getD, List.getElem?_map,
      List.getElem?_eq_getElem hm]
    simp only [Option.map_some, Option.getD_some]
    rw [lookup_map_vals]
    cases lookup v s.slots[m] <;> rfl
  · have hm' : s.slots.length ≤ m := Nat.le_of_not_lt hm
    rw [List.getD_eq_getElem?_getD, List.getD_eq_getElem?_getD, List.getElem?_map,
      List.getElem?_eq_none hm']
    rfl

end RtcVerif.C11
