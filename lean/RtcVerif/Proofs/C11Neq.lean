import RtcVerif.Model.C11
import RtcVerif.Proofs.C11Lemmas
import RtcVerif.Proofs.C12Lemmas
/-! Nonequidistant `resize`: the values and the stamps are sliced together. -/
namespace RtcVerif.C11

open RtcVerif.C12 (Inc lookupAt)

theorem bisect_eq (l : List Int) (x : Int) : bisectLeft l x = RtcVerif.C12.bisectLeft l x := by
  induction l with
  | nil => rfl
  | cons y l ih => simp only [bisectLeft, RtcVerif.C12.bisectLeft, ih]

/-- the slice `[i, j]` of a list -/
def slice {α : Type} (i j : Nat) (l : List α) : List α := (l.take (j + 1)).drop i

theorem shift_slice (n i j : Nat) (hij : i ≤ j) (hj : j < n) (v : List XVal) (hl : v.length = n) :
    shiftEnd ((j : Int) - ((n : Int) - 1)) (shiftStart ((i : Int) - 0) v) = slice i j v := by
  have h1 : shiftStart ((i : Int) - 0) v = v.drop i := by
    unfold shiftStart
    by_cases hi : i = 0
    · subst hi; simp
    · have : (0 : Int) < (i : Int) - 0 := by omega
      rw [if_pos this]
      simp
  rw [h1]
  unfold shiftEnd slice
  have hlen : (v.drop i).length = n - i := by simp [hl]
  by_cases hb : j = n - 1
  · have : ¬ ((0 : Int) < (j : Int) - ((n : Int) - 1)) := by omega
    have h2 : ¬ ((j : Int) - ((n : Int) - 1) < 0) := by omega
    rw [if_neg this, if_neg h2]
    rw [List.take_of_length_le (by omega)]
  · have : ¬ ((0 : Int) < (j : Int) - ((n : Int) - 1)) := by omega
    have h2 : (j : Int) - ((n : Int) - 1) < 0 := by omega
    rw [if_neg this, if_pos h2, hlen, List.drop_take]
    congr 1
    omega

theorem mem_slice_times (ts : List Int) (h : Inc ts) (ns ne : Int) (hns : ns ∈ ts) (hne : ne ∈ ts) (t : Int) :
    t ∈ slice (RtcVerif.C12.bisectLeft ts ns) (RtcVerif.C12.bisectLeft ts ne) ts ↔
      t ∈ ts ∧ ns ≤ t ∧ t ≤ ne := by
  unfold slice
  constructor
  · intro ht
    have h1 : t ∈ ts.take (RtcVerif.C12.bisectLeft ts ne + 1) := List.mem_of_mem_drop ht
    rw [RtcVerif.C12.take_bisect_succ ts h ne hne, List.mem_filter] at h1
    have h2 : t ∈ ts.drop (RtcVerif.C12.bisectLeft ts ns) := by
      rw [List.drop_take] at ht
      exact List.mem_of_mem_take ht
    rw [RtcVerif.C12.drop_bisect ts h ns, List.mem_filter] at h2
    exact ⟨h1.1, by simpa using h2.2, by simpa using h1.2⟩
  · intro ⟨ht, h1, h2⟩
    have hk := RtcVerif.C12.get_bisect ts h t ht
    have hi := RtcVerif.C12.bisect_mono ts h ns t hns ht h1
    have hj := RtcVerif.C12.bisect_mono ts h t ne ht hne h2
    rw [List.mem_iff_getElem?]
    refine ⟨RtcVerif.C12.bisectLeft ts t - RtcVerif.C12.bisectLeft ts ns, ?_⟩
    rw [List.getElem?_drop, List.getElem?_take]
    rw [show RtcVerif.C12.bisectLeft ts ns + (RtcVerif.C12.bisectLeft ts t - RtcVerif.C12.bisectLeft ts ns)
        = RtcVerif.C12.bisectLeft ts t by omega]
    rw [if_pos (by omega)]
    exact hk

theorem lookup_slice (ts : List Int) (h : Inc ts) (v : List XVal) (i j : Nat) (t : Int)
    (ht : t ∈ slice i j ts) : lookupAt (slice i j ts) (slice i j v) t = lookupAt ts v t := by
  unfold slice at ht ⊢
  rw [RtcVerif.C12.lookup_drop _ (RtcVerif.C12.inc_take ts h _) _ _ _ ht]
  exact RtcVerif.C12.lookup_take _ _ _ _ (List.mem_of_mem_drop ht)

end RtcVerif.C11
