import RtcVerif.Model.C11
/-!
Skeletons of the record-level code of `pi.Timeseries` (first pass over the headers, second pass
"Parse data", `__add_header`, the event loop of `write`) in the statement order the translator
`harness/translate_c11.py: gen_pi_records` checks; the pieces (what each statement computes) are
parameters, so that the generated module `Gen/PiRecords.lean` can plug in what it read from the
source.  Bridging lemmas: the skeleton with the model's own pieces is the model function.
-/
namespace RtcVerif.C11

/-! ## reader, first pass (consistency loop) -/

def scanStepWith
    (fdt : Option Int → Option Int → Option (Option Int))     -- self.__dt, dt
    (fstart fstop : Option Int → Int → Int)                   -- self.__start/end_datetime, header value
    (ffc : Option Int → Hdr → Option Int)                     -- self.__forecast_datetime, header
    (fens : Nat → Hdr → Nat)                                  -- self.__ensemble_size, header
    (fcont : Bool → Hdr → Bool)                               -- self.__contains_ensemble, header
    (g : Glob) (h : Hdr) : Option Glob :=
  match fdt g.dt h.step with
  | none => none
  | some dt =>
    match ffc g.forecast h with
    | none => none
    | some fc =>
      some { dt := dt, start := some (fstart g.start h.start), stop := some (fstop g.stop h.stop),
             forecast := some fc, containsEns := fcont g.containsEns h, ensSize := fens g.ensSize h }

def scanDtRef (gdt hstep : Option Int) : Option (Option Int) :=
  match gdt with
  | none => some hstep
  | some d => if hstep = some d then some (some d) else none

def scanStartRef (gs : Option Int) (hs : Int) : Int :=
  match gs with
  | none => hs
  | some x => if hs < x then hs else x

def scanStopRef (gs : Option Int) (hs : Int) : Int :=
  match gs with
  | none => hs
  | some x => if x < hs then hs else x

def scanFcRef (gf : Option Int) (h : Hdr) : Option Int :=
  match gf with
  | none => some (h.forecast.getD h.start)
  | some x => if h.forecast.isSome && h.forecast.getD h.start != x then none else some x

def scanEnsRef (size : Nat) (h : Hdr) : Nat :=
  match h.member with
  | some k => if size - 1 < k then k + 1 else size
  | none => size

def scanContRef (gc : Bool) (h : Hdr) : Bool := gc || h.member.isSome

theorem scanStepRef_eq (g : Glob) (h : Hdr) :
    scanStepWith scanDtRef scanStartRef scanStopRef scanFcRef scanEnsRef scanContRef g h = scanStep g h := by
  unfold scanStepWith scanStep scanDtRef scanFcRef scanStartRef scanStopRef scanEnsRef scanContRef
  cases g.dt <;> cases g.forecast <;> cases g.start <;> cases g.stop <;> rfl

def scanWith (step : Glob → Hdr → Option Glob) : Glob → List Hdr → Option Glob
  | g, [] => some g
  | g, h :: hs =>
    match step g h with
    | none => none
    | some g' => scanWith step g' hs

theorem scanWith_eq (step : Glob → Hdr → Option Glob) (hstep : ∀ g h, step g h = scanStep g h)
    (g : Glob) (hs : List Hdr) : scanWith step g hs = scan g hs := by
  induction hs generalizing g with
  | nil => rfl
  | cons h hs ih =>
    unfold scanWith scan
    rw [hstep]
    cases scanStep g h with
    | none => rfl
    | some g' => exact ih g'

/-- the ensemble size never drops below its initial value 1 -/
theorem scanStep_ensSize_pos (g g' : Glob) (h : Hdr) (hp : 0 < g.ensSize) (hs : scanStep g h = some g') :
    0 < g'.ensSize := by
  rw [← scanStepRef_eq] at hs
  unfold scanStepWith at hs
  split at hs
  · exact absurd hs (by simp)
  · split at hs
    · exact absurd hs (by simp)
    · injection hs with hs
      subst hs
      simp only [scanEnsRef]
      split
      · split <;> omega
      · exact hp

theorem scan_ensSize_pos (g g' : Glob) (hs : List Hdr) (hp : 0 < g.ensSize) (h : scan g hs = some g') :
    0 < g'.ensSize := by
  induction hs generalizing g with
  | nil =>
    unfold scan at h
    injection h with h
    subst h
    exact hp
  | cons x xs ih =>
    unfold scan at h
    cases hx : scanStep g x with
    | none => rw [hx] at h; exact absurd h (by simp)
    | some g1 =>
      rw [hx] at h
      exact ih g1 (scanStep_ensSize_pos g g1 x hp hx) h

/-! ## reader, second pass (one `<series>`) -/

/-- the per-series body of the "Parse data" loop up to the padded array, statement by statement:
    count, raw values (binary stream / events), missing-value mask, front filler, back filler -/
def readSeriesWith
    (nv : Geo → Hdr → Option Int)
    (raw : Bool → Nat → List XVal → Option (List XVal) → List XVal × Option (List XVal))
    (miss : XVal → XVal → XVal)
    (pf pb : Geo → Hdr → Int)
    (asm : Nat → Nat → List XVal → List XVal)
    (g : Geo) (binary : Bool) (r : Rec) (stream : Option (List XVal)) :
    Option (List XVal × Option (List XVal)) :=
  match nv g r.hdr with
  | none => none
  | some n =>
    if n < 0 then none else                     -- np.empty(n) / np.fromfile(count=n)
    if pf g r.hdr < 0 ∨ pb g r.hdr < 0 then none else     -- np.empty(k) of the fillers
    let rs := raw binary n.toNat r.evs stream
    some (asm (pf g r.hdr).toNat (pb g r.hdr).toNat (rs.1.map (miss r.hdr.miss)), rs.2)

def rawRef (binary : Bool) (n : Nat) (evs : List XVal) (stream : Option (List XVal)) :
    List XVal × Option (List XVal) :=
  if binary then
    match stream with
    | some st => (st.take n, some (st.drop n))
    | none => (nans n, none)
  else (takePad n evs, stream)

def asmRef (pf pb : Nat) (v : List XVal) : List XVal := nans pf ++ v ++ nans pb

theorem readSeriesRef_eq (g : Geo) (binary : Bool) (r : Rec) (stream : Option (List XVal)) :
    readSeriesWith nValues rawRef missMap padFront padBack asmRef g binary r stream
      = readSeries g binary r stream := by
  unfold readSeriesWith readSeries rawRef asmRef
  cases nValues g r.hdr with
  | none => rfl
  | some n =>
    simp only
    by_cases hn : n < 0
    · rw [if_pos hn, if_pos hn]
    · rw [if_neg hn, if_neg hn]
      by_cases hp : padFront g r.hdr < 0 ∨ padBack g r.hdr < 0
      · rw [if_pos hp, if_pos hp]
      · rw [if_neg hp, if_neg hp]
        cases binary with
        | false => rfl
        | true => cases stream <;> rfl

/-- `for i in range(min(n, len(events)))` over a NaN-filled array of length `n` -/
theorem take_min_pad (n : Nat) (evs : List XVal) :
    evs.take (min n evs.length) ++ nans (n - min n evs.length) = takePad n evs := by
  unfold takePad
  by_cases h : n ≤ evs.length
  · rw [Nat.min_eq_left h]
    have : n - evs.length = 0 := by omega
    rw [this, Nat.sub_self]
  · have h' : evs.length ≤ n := by omega
    rw [Nat.min_eq_right h']
    rw [List.take_of_length_le (Nat.le_refl _), List.take_of_length_le h']

/-- `[m] + list(range(1, size))` is `range(size)` when `m = 0` -/
theorem zero_cons_range' (n : Nat) (hn : 0 < n) : 0 :: List.range' 1 (n - 1) = List.range n := by
  obtain ⟨k, rfl⟩ : ∃ k, n = k + 1 := ⟨n - 1, by omega⟩
  rw [List.range_eq_range', Nat.add_sub_cancel]
  rfl

/-- second pass over all series with the per-series pieces as parameters: values, the slots the
    series goes to, the stored entry (variable key, unit, array) -/
def fillWith
    (rd : Geo → Bool → Rec → Option (List XVal) → Option (List XVal × Option (List XVal)))
    (tg : Geo → Hdr → List Nat)
    (ent : Hdr → List XVal → Entry)
    (g : Geo) (binary : Bool) :
    List Rec → Option (List XVal) → List Slot → Option (List Slot)
  | [], _, slots => some slots
  | r :: rs, stream, slots =>
    match rd g binary r stream with
    | none => none
    | some (vals, stream') =>
      fillWith rd tg ent g binary rs stream' (placeAt (ent r.hdr vals) (tg g r.hdr) slots)

theorem fillWith_eq
    (rd : Geo → Bool → Rec → Option (List XVal) → Option (List XVal × Option (List XVal)))
    (tg : Geo → Hdr → List Nat) (ent : Hdr → List XVal → Entry) (g : Geo) (binary : Bool)
    (hrd : ∀ r st, rd g binary r st = readSeries g binary r st)
    (htg : ∀ h, tg g h = targets g h)
    (hent : ∀ h v, ent h v = ⟨h.var, h.unit, v⟩)
    (rs : List Rec) (stream : Option (List XVal)) (slots : List Slot) :
    fillWith rd tg ent g binary rs stream slots = fill g binary rs stream slots := by
  induction rs generalizing stream slots with
  | nil => rfl
  | cons r rs ih =>
    unfold fillWith fill
    rw [hrd]
    cases readSeries g binary r stream with
    | none => rfl
    | some p =>
      obtain ⟨vals, st'⟩ := p
      simp only
      rw [htg, hent]
      exact ih st' _

/-! ## writer -/

/-- series records of member `k`, `k+1`, … with the record maker and the keep test as parameters
    (first loop: one header per (member, sorted variable); second loop: series without values are
    removed) -/
def recsFromWith (mk : Nat → Entry → Rec) (keep : Entry → Bool) : Nat → List Slot → List Rec
  | _, [] => []
  | k, sl :: rest => ((sortSlot sl).filter keep).map (mk k) ++ recsFromWith mk keep (k + 1) rest

theorem recsFromWith_eq (s : Store) (binary : Bool) (mk : Nat → Entry → Rec) (keep : Entry → Bool)
    (hmk : ∀ m e, mk m e = mkRec s binary m e) (hkeep : ∀ e, keep e = !e.vals.isEmpty)
    (k : Nat) (slots : List Slot) : recsFromWith mk keep k slots = recsFrom s binary k slots := by
  induction slots generalizing k with
  | nil => rfl
  | cons sl rest ih =>
    unfold recsFromWith recsFrom
    have h1 : keep = (fun e => !e.vals.isEmpty) := funext hkeep
    have h2 : mk k = mkRec s binary k := funext (hmk k)
    rw [ih, h1, h2]

/-- the binary stream with the keep test and the per-series conversion as parameters -/
def streamFromWith (keep : Entry → Bool) (bv : Entry → List XVal) : List Slot → List XVal
  | [] => []
  | sl :: rest => ((sortSlot sl).filter keep).flatMap bv ++ streamFromWith keep bv rest

theorem streamFromWith_eq (r32 : XVal → XVal) (keep : Entry → Bool) (bv : Entry → List XVal)
    (hkeep : ∀ e, keep e = !e.vals.isEmpty) (hbv : ∀ e, bv e = e.vals.map r32) (slots : List Slot) :
    streamFromWith keep bv slots = streamFrom r32 slots := by
  induction slots with
  | nil => rfl
  | cons sl rest ih =>
    unfold streamFromWith streamFrom
    have h1 : keep = (fun e => !e.vals.isEmpty) := funext hkeep
    have h2 : bv = (fun e => e.vals.map r32) := funext hbv
    rw [ih, h1, h2]

/-- `write()` of a new file with the record list and the stream as parameters; the two error
    conditions are the model's reading of Python's IndexError (`self.times[i]`) / of series that
    would be written once per member -/
def writeWith (recsF : Store → Bool → Nat → List Slot → List Rec)
    (streamF : (XVal → XVal) → List Slot → List XVal)
    (r32 : XVal → XVal) (binary : Bool) (s : Store) : Option File :=
  let tooLong : Bool := s.dt.isNone && !binary &&
    s.slots.any (fun sl => sl.any (fun e => decide (s.times.length < e.vals.length)))
  let noEns : Bool := !s.containsEns && decide (1 < s.slots.length)
  if tooLong || noEns then none else
  some { tz := s.tz
         recs := recsF s binary 0 s.slots
         bin := if binary then some (streamF r32 s.slots) else none }

theorem writeWith_eq (recsF : Store → Bool → Nat → List Slot → List Rec)
    (streamF : (XVal → XVal) → List Slot → List XVal)
    (hr : ∀ s b k sl, recsF s b k sl = recsFrom s b k sl)
    (hs : ∀ r32 sl, streamF r32 sl = streamFrom r32 sl)
    (r32 : XVal → XVal) (binary : Bool) (s : Store) :
    writeWith recsF streamF r32 binary s = write r32 binary s := by
  unfold writeWith write
  rw [hr, hs]

/-! ## reader, the whole `__init__` of an existing file -/

/-- `pi.Timeseries.__init__` (not `make_new_file`) statement by statement: initial state, first pass,
    stamps, forecast date and index, second pass, trimming of nonequidistant stamps.  The positive-step
    requirement (`ok`) is the model's: a zero multiplier is outside the PI schema. -/
def readWith (init : Glob) (step : Glob → Hdr → Option Glob)
    (timesEq : Int → Int → Int → List Int)        -- start d stop
    (timesNeq : List Rec → List Int)
    (fcF : Option Int → Int → Int → Int)           -- dt start forecast
    (fcIdx : Int → List Int → Int)
    (trim : List Int → Int → Int → List Int)       -- stamps start stop
    (fillF : Geo → Bool → List Rec → Option (List XVal) → List Slot → Option (List Slot))
    (binary : Bool) (f : File) : Option Store :=
  match scanWith step init (f.recs.map (·.hdr)) with
  | none => none
  | some gl =>
    match gl.start, gl.stop, gl.forecast with
    | some start, some stop, some fc0 =>
      let ok : Bool := match gl.dt with
        | some d => decide (0 < d)
        | none => true
      if !ok then none else
      let times0 : List Int := match gl.dt with
        | some d => timesEq start d stop
        | none => timesNeq f.recs
      let fc : Int := fcF gl.dt start fc0
      let fcIndex : Int := fcIdx fc times0
      let g : Geo := ⟨gl.dt, start, stop, times0, gl.containsEns, gl.ensSize⟩
      match fillF g binary f.recs f.bin (List.replicate gl.ensSize []) with
      | none => none
      | some slots =>
        let times : List Int := match gl.dt with
          | some _ => times0
          | none => trim times0 start stop
        some { dt := gl.dt, start := start, stop := stop, times := times, forecast := fc,
               fcIndex := fcIndex, tz := f.tz, containsEns := gl.containsEns,
               ensSize := gl.ensSize, slots := slots }
    | _, _, _ => none

theorem readWith_eq (init : Glob) (step : Glob → Hdr → Option Glob)
    (timesEq : Int → Int → Int → List Int) (timesNeq : List Rec → List Int)
    (fcF : Option Int → Int → Int → Int) (fcIdx : Int → List Int → Int)
    (trim : List Int → Int → Int → List Int)
    (fillF : Geo → Bool → List Rec → Option (List XVal) → List Slot → Option (List Slot))
    (hinit : init = {}) (hstep : ∀ g h, step g h = scanStep g h)
    (hte : ∀ s d e, timesEq s d e = gridTimes s d (roundDivP1 (e - s) d).toNat)
    (htn : ∀ rs, timesNeq rs = longestTimes [] rs)
    (hfc : ∀ dt s x, fcF dt s x = match dt with | some d => floorDT s d x | none => x)
    (hidx : ∀ x ts, fcIdx x ts = if x ∈ ts then (ts.idxOf x : Int) else -1)
    (htrim : ∀ ts s e, trim ts s e = (ts.take (bisectLeft ts e + 1)).drop (bisectLeft ts s))
    (hfill : ∀ g b rs st sl, 0 < g.ensSize → fillF g b rs st sl = fill g b rs st sl)
    (binary : Bool) (f : File) :
    readWith init step timesEq timesNeq fcF fcIdx trim fillF binary f = read binary f := by
  unfold readWith read
  rw [scanWith_eq step hstep, hinit]
  cases hsc : scan {} (f.recs.map (·.hdr)) with
  | none => rfl
  | some gl =>
    have hp : 0 < gl.ensSize := scan_ensSize_pos {} gl _ (by decide) hsc
    simp only
    cases gl.start with
    | none => rfl
    | some start =>
      cases gl.stop with
      | none => rfl
      | some stop =>
        cases gl.forecast with
        | none => rfl
        | some fc0 =>
          simp only [hfc, hidx, htrim, hte, htn]
          cases hdt : gl.dt with
          | none =>
            simp only
            rw [hfill _ _ _ _ _ hp]
            rfl
          | some d =>
            simp only
            split
            · rfl
            · rw [hfill _ _ _ _ _ hp]
              rfl

/-! ## ParameterConfig (`get` / `set`) -/

/-- Python `int(new_value)` for the values `set` accepts (truncation toward zero) -/
def pyInt : PArg → Int
  | .bool b => if b then 1 else 0
  | .int i => i
  | .dbl x => if 0 ≤ x then x.floor else -((-x).floor)

/-- `str(new_value)` stored in a `dblValue` element, as `get` (`float(text)`) reads it back;
    `str(True)` is not a number text -/
def strAsDbl : PArg → Option PVal
  | .bool _ => none
  | .int i => some (.dbl (XVal.fin i))
  | .dbl x => some (.dbl (XVal.fin x))

/-- the group loop of `get` with the filter as a parameter -/
def pgetWith (passes : PGroup → Nat → Option Nat → Option Nat → Bool) :
    PConf → Nat → Nat → Option Nat → Option Nat → Option PVal
  | [], _, _, _, _ => none
  | g :: rest, gid, p, loc, model =>
    if passes g gid loc model then findPar p g.pars else pgetWith passes rest gid p loc model

theorem pgetWith_eq (passes : PGroup → Nat → Option Nat → Option Nat → Bool)
    (h : ∀ g gid loc model, passes g gid loc model = g.passes gid loc model)
    (c : PConf) (gid p : Nat) (loc model : Option Nat) :
    pgetWith passes c gid p loc model = pget c gid p loc model := by
  induction c with
  | nil => rfl
  | cons g rest ih =>
    unfold pgetWith pget
    rw [h, ih]

/-- the group loop of `set` with the filter and the typed store as parameters -/
def psetWith (passes : PGroup → Nat → Option Nat → Option Nat → Bool) (co : PVal → PArg → Option PVal) :
    PConf → Nat → Nat → PArg → Option Nat → Option Nat → Option PConf
  | [], _, _, _, _, _ => none
  | g :: rest, gid, p, a, loc, model =>
    if passes g gid loc model then
      match findPar p g.pars with
      | none => none
      | some old =>
        match co old a with
        | none => none
        | some v => some ({ g with pars := setPar p v g.pars } :: rest)
    else (psetWith passes co rest gid p a loc model).map (g :: ·)

theorem psetWith_eq (passes : PGroup → Nat → Option Nat → Option Nat → Bool) (co : PVal → PArg → Option PVal)
    (h : ∀ g gid loc model, passes g gid loc model = g.passes gid loc model)
    (hc : ∀ old a, co old a = coerce old a)
    (c : PConf) (gid p : Nat) (a : PArg) (loc model : Option Nat) :
    psetWith passes co c gid p a loc model = pset c gid p a loc model := by
  induction c with
  | nil => rfl
  | cons g rest ih =>
    unfold psetWith pset
    rw [h, ih]
    have : co = coerce := by funext old a; exact hc old a
    rw [this]
    split
    · rfl
    · rfl

end RtcVerif.C11
