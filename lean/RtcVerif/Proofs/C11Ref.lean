import RtcVerif.Model.C11
import RtcVerif.Proofs.C11Lemmas
/-!
Reference definitions in the shape in which the source of `pi.Timeseries.resize` reads (two loops
over all stored arrays, index arithmetic in between), with the bridging lemma to `C11.resize`.
`Gen/PiAxis.lean` (harness/translate_c11.py) proves `…Gen = …Ref` by `rfl`.
-/
namespace RtcVerif.C11

/-- first loop of `resize`, one array: `v[n:]` for `n > 0`, `hstack(filler(|n|), v)` for `n < 0` -/
def cutFrontRef (n : Int) (v : List XVal) : List XVal :=
  if n > 0 then v.drop n.toNat else if n < 0 then nans n.natAbs ++ v else v

/-- second loop of `resize`, one array: `hstack(v, filler(n))` for `n > 0`, `v[:n]` for `n < 0` -/
def fitEndRef (n : Int) (v : List XVal) : List XVal :=
  if n > 0 then v ++ nans n.toNat else if n < 0 then v.take (v.length - n.natAbs) else v

theorem cutFrontRef_eq (n : Int) (v : List XVal) : cutFrontRef n v = shiftStart n v := by
  unfold cutFrontRef shiftStart
  by_cases h1 : n > 0
  · rw [if_pos h1, if_pos h1]
  · rw [if_neg h1, if_neg h1]
    by_cases h2 : n < 0
    · rw [if_pos h2, if_pos h2]
      congr 2
      omega
    · rw [if_neg h2, if_neg h2]

theorem fitEndRef_eq (n : Int) (v : List XVal) : fitEndRef n v = shiftEnd n v := by
  unfold fitEndRef shiftEnd
  by_cases h1 : n > 0
  · rw [if_pos h1, if_pos h1]
  · rw [if_neg h1, if_neg h1]
    by_cases h2 : n < 0
    · rw [if_pos h2, if_pos h2]
      congr 2
      omega
    · rw [if_neg h2, if_neg h2]

/-- `resize` statement by statement; the pieces are parameters so that the generated module can
    plug in what it read from the source -/
def resizeWith
    (nDeltaSEq : Int → Int → Int → Int)                 -- d start ns
    (nTarget : Int → Int → Int → Int)                   -- d ns ne
    (timesEq : Int → Int → Int → List Int)              -- d ns nTarget
    (nDeltaSNeq nDeltaENeq : List Int → Int → Int → Option Int)   -- times old new
    (timesNeq : List Int → Int → Int → List Int)        -- times ns ne
    (cutFront fitEnd : Int → List XVal → List XVal)
    (ns ne : Int) (s : Store) : Option Store :=
  match s.dt with
  | some d =>
    some { s with start := ns, stop := ne,
                  times := timesEq d ns (nTarget d ns ne),
                  slots := mapVals (fun v =>
                    fitEnd (nTarget d ns ne - ((cutFront (nDeltaSEq d s.start ns) v).length : Int))
                      (cutFront (nDeltaSEq d s.start ns) v)) s.slots }
  | none =>
    match nDeltaSNeq s.times s.start ns with
    | none => none
    | some a =>
      match nDeltaENeq s.times s.stop ne with
      | none => none
      | some b =>
        some { s with start := ns, stop := ne,
                      times := timesNeq s.times ns ne,
                      slots := mapVals (fun v => fitEnd b (cutFront a v)) s.slots }

def nDeltaSEqRef (d start ns : Int) : Int := roundDiv (ns - start) d
def nTargetRef (d ns ne : Int) : Int := roundDiv (ne - ns) d + 1
def timesEqRef (d ns nt : Int) : List Int := (List.range nt.toNat).map (fun (i : Nat) => ns + (i : Int) * d)
def nDeltaSNeqRef (times : List Int) (start ns : Int) : Option Int :=
  if ns ≥ start then some ((bisectLeft times ns : Int) - (bisectLeft times start : Int)) else none
def nDeltaENeqRef (times : List Int) (stop ne : Int) : Option Int :=
  if ne ≤ stop then some ((bisectLeft times ne : Int) - (bisectLeft times stop : Int)) else none
def timesNeqRef (times : List Int) (ns ne : Int) : List Int :=
  (times.take (bisectLeft times ne + 1)).drop (bisectLeft times ns)

theorem resizeRef_eq (ns ne : Int) (s : Store) :
    resizeWith nDeltaSEqRef nTargetRef timesEqRef nDeltaSNeqRef nDeltaENeqRef timesNeqRef cutFrontRef fitEndRef ns ne s
      = resize ns ne s := by
  unfold resizeWith resize
  cases hdt : s.dt with
  | some d =>
    simp only [nDeltaSEqRef, nTargetRef, timesEqRef, cutFrontRef_eq, fitEndRef_eq, gridTimes]
    rfl
  | none =>
    simp only [nDeltaSNeqRef, nDeltaENeqRef, timesNeqRef]
    by_cases h1 : ns ≥ s.start
    · by_cases h2 : ne ≤ s.stop
      · have h3 : ¬ (ns < s.start ∨ s.stop < ne) := by omega
        rw [if_pos h1, if_pos h2, if_neg h3]
        simp only [cutFrontRef_eq, fitEndRef_eq]
      · have h3 : ns < s.start ∨ s.stop < ne := by omega
        rw [if_pos h1, if_neg h2, if_pos h3]
    · have h3 : ns < s.start ∨ s.stop < ne := by omega
      rw [if_neg h1, if_pos h3]

end RtcVerif.C11
