import RtcVerif.Model.C11
import RtcVerif.Proofs.C11Lemmas
/-! Helper definitions and lemmas for `C11_pi_roundtrip`: well-formed stores, the header scan of a
written file, the second pass rebuilding the slots. -/
namespace RtcVerif.C11

/-- what one value looks like after `write` then `read`: XML — NaN is printed as the missing
    value and every value equal to it reads back as NaN; binary — the float32 conversion `r32`,
    then the same missing-value replacement -/
def back (binary : Bool) (r32 : XVal → XVal) (v : XVal) : XVal :=
  missMap newMiss (if binary then r32 v else encXml v)

def backEntry (binary : Bool) (r32 : XVal → XVal) (e : Entry) : Entry :=
  { e with vals := e.vals.map (back binary r32) }

/-- well-formed in-memory object: one value per stamp in every series, stamps on the announced
    grid (or strictly increasing for nonequidistant data, which the binary format cannot carry),
    forecast date among the stamps, ensemble bookkeeping consistent, last member not empty,
    variables in `sorted` order -/
structure WF (binary : Bool) (s : Store) : Prop where
  n_pos : 1 ≤ s.times.length
  grid : match s.dt with
    | some d => 0 < d ∧ s.times = gridTimes s.start d s.times.length ∧
        s.stop = s.start + ((s.times.length : Int) - 1) * d
    | none => binary = false ∧ s.times.Pairwise (· < ·) ∧ s.times.head? = some s.start ∧
        s.times.getLast? = some s.stop
  fc_mem : s.forecast ∈ s.times
  fc_idx : s.fcIndex = (s.times.idxOf s.forecast : Int)
  slots_len : s.slots.length = s.ensSize
  ens_pos : 1 ≤ s.ensSize
  no_ens : s.containsEns = false → s.ensSize = 1
  last_ne : ∀ sl, s.slots.getLast? = some sl → sl ≠ []
  keys : ∀ sl ∈ s.slots, sl.Pairwise (fun a b => a.var < b.var)
  lens : ∀ sl ∈ s.slots, ∀ e ∈ sl, e.vals.length = s.times.length

/-! ## sorting / filtering are the identity on well-formed slots -/

theorem insertSorted_lt (e : Entry) (l : Slot) (h : ∀ x ∈ l, e.var < x.var) :
    insertSorted e l = e :: l := by
  cases l with
  | nil => rfl
  | cons x l =>
    have := h x (List.mem_cons_self)
    simp [insertSorted, Nat.le_of_lt this]

theorem sortSlot_sorted (sl : Slot) (h : sl.Pairwise (fun a b => a.var < b.var)) :
    sortSlot sl = sl := by
  induction sl with
  | nil => rfl
  | cons e l ih =>
    rw [List.pairwise_cons] at h
    simp only [sortSlot]
    rw [ih h.2, insertSorted_lt e l h.1]

theorem filter_nonempty (sl : Slot) (n : Nat) (hn : 1 ≤ n) (h : ∀ e ∈ sl, e.vals.length = n) :
    sl.filter (fun e => !e.vals.isEmpty) = sl := by
  rw [List.filter_eq_self]
  intro e he
  have := h e he
  cases hv : e.vals with
  | nil => rw [hv] at this; simp at this; omega
  | cons _ _ => rfl

theorem recsFrom_cons (s : Store) (binary : Bool) (k : Nat) (sl : Slot) (rest : List Slot)
    (n : Nat) (hn : 1 ≤ n) (hk : sl.Pairwise (fun a b => a.var < b.var))
    (hl : ∀ e ∈ sl, e.vals.length = n) :
    recsFrom s binary k (sl :: rest) = sl.map (mkRec s binary k) ++ recsFrom s binary (k + 1) rest := by
  simp only [recsFrom]
  rw [sortSlot_sorted sl hk, filter_nonempty sl n hn hl]

theorem streamFrom_cons (r32 : XVal → XVal) (sl : Slot) (rest : List Slot)
    (n : Nat) (hn : 1 ≤ n) (hk : sl.Pairwise (fun a b => a.var < b.var))
    (hl : ∀ e ∈ sl, e.vals.length = n) :
    streamFrom r32 (sl :: rest) = sl.flatMap (fun e => e.vals.map r32) ++ streamFrom r32 rest := by
  simp only [streamFrom]
  rw [sortSlot_sorted sl hk, filter_nonempty sl n hn hl]

/-! ## first pass over the headers of a written file -/

/-- header agrees with the object it was written from -/
def Unif (s : Store) (h : Hdr) : Prop :=
  h.step = s.dt ∧ h.start = s.start ∧ h.stop = s.stop ∧ h.forecast.getD h.start = s.forecast

theorem mkHdr_unif (s : Store) (m : Nat) (e : Entry) : Unif s (mkHdr s m e) := by
  refine ⟨rfl, rfl, rfl, ?_⟩
  simp only [mkHdr]
  by_cases h : s.forecast = s.start
  · simp [h]
  · simp [h]

def ensUpd (e : Nat) : Option Nat → Nat
  | some k => if e - 1 < k then k + 1 else e
  | none => e

def ensFold : Nat → List Hdr → Nat
  | e, [] => e
  | e, h :: hs => ensFold (ensUpd e h.member) hs

/-- state of the scan once the first header has been seen -/
def Settled (s : Store) (g : Glob) : Prop :=
  g.dt = s.dt ∧ g.start = some s.start ∧ g.stop = some s.stop ∧ g.forecast = some s.forecast

theorem scanStep_settled (s : Store) (g : Glob) (h : Hdr) (hg : Settled s g) (hu : Unif s h) :
    scanStep g h = some { g with containsEns := g.containsEns || h.member.isSome,
                                 ensSize := ensUpd g.ensSize h.member } := by
  obtain ⟨g1, g2, g3, g4⟩ := hg
  obtain ⟨u1, u2, u3, u4⟩ := hu
  obtain ⟨gdt, gstart, gstop, gfc, gce, ges⟩ := g
  simp only at g1 g2 g3 g4
  subst g1 g2 g3 g4
  unfold scanStep
  simp only [u1, u2, u3]
  have hfc : h.forecast.getD s.start = s.forecast := by rw [← u2]; exact u4
  cases hdt : s.dt with
  | none =>
    simp only [hfc, bne_self_eq_false, Bool.and_false, Bool.false_eq_true, if_false, lt_self_iff_false]
    cases h.member <;> simp [ensUpd]
  | some d =>
    simp only [hfc, bne_self_eq_false, Bool.and_false, Bool.false_eq_true, if_false, lt_self_iff_false,
      if_true]
    cases h.member <;> simp [ensUpd]

theorem scanStep_first (s : Store) (h : Hdr) (hu : Unif s h) :
    scanStep {} h = some { dt := s.dt, start := some s.start, stop := some s.stop,
                           forecast := some s.forecast, containsEns := h.member.isSome,
                           ensSize := ensUpd 1 h.member } := by
  obtain ⟨u1, u2, u3, u4⟩ := hu
  unfold scanStep
  simp only [u1, u2, u3]
  have hfc : h.forecast.getD s.start = s.forecast := by rw [← u2]; exact u4
  simp only [hfc]
  cases h.member <;> simp [ensUpd]

theorem scan_settled (s : Store) (hs : List Hdr) (hu : ∀ h ∈ hs, Unif s h) :
    ∀ (g : Glob), Settled s g →
    scan g hs = some { g with containsEns := g.containsEns || hs.any (·.member.isSome),
                              ensSize := ensFold g.ensSize hs } := by
  induction hs with
  | nil => intro g _; simp [scan, ensFold]
  | cons h hs ih =>
    intro g hg
    simp only [scan]
    rw [scanStep_settled s g h hg (hu h (List.mem_cons_self))]
    simp only []
    have := ih (fun h' hh => hu h' (List.mem_cons_of_mem _ hh))
      { g with containsEns := g.containsEns || h.member.isSome,
               ensSize := ensUpd g.ensSize h.member } ⟨hg.1, hg.2.1, hg.2.2.1, hg.2.2.2⟩
    rw [this]
    simp [ensFold, Bool.or_assoc]

theorem scan_first (s : Store) (h : Hdr) (hs : List Hdr) (hu : ∀ x ∈ h :: hs, Unif s x) :
    scan {} (h :: hs) = some { dt := s.dt, start := some s.start, stop := some s.stop,
                               forecast := some s.forecast,
                               containsEns := (h :: hs).any (·.member.isSome),
                               ensSize := ensFold 1 (h :: hs) } := by
  simp only [scan]
  rw [scanStep_first s h (hu h (List.mem_cons_self))]
  simp only []
  have := scan_settled s hs (fun x hx => hu x (List.mem_cons_of_mem _ hx))
    { dt := s.dt, start := some s.start, stop := some s.stop, forecast := some s.forecast,
      containsEns := h.member.isSome, ensSize := ensUpd 1 h.member } ⟨rfl, rfl, rfl, rfl⟩
  rw [this]
  simp [ensFold]


/-! ## the records of a written file, without the (identity) sort and filter -/

def recsS (s : Store) (binary : Bool) : Nat → List Slot → List Rec
  | _, [] => []
  | k, sl :: rest => sl.map (mkRec s binary k) ++ recsS s binary (k + 1) rest

def streamS (r32 : XVal → XVal) : List Slot → List XVal
  | [] => []
  | sl :: rest => sl.flatMap (fun e => e.vals.map r32) ++ streamS r32 rest

theorem recsFrom_eq (s : Store) (binary : Bool) (n : Nat) (hn : 1 ≤ n) (sls : List Slot) :
    ∀ k, (∀ sl ∈ sls, sl.Pairwise (fun a b => a.var < b.var)) →
    (∀ sl ∈ sls, ∀ e ∈ sl, e.vals.length = n) →
    recsFrom s binary k sls = recsS s binary k sls := by
  induction sls with
  | nil => intros; rfl
  | cons sl rest ih =>
    intro k hk hl
    rw [recsFrom_cons s binary k sl rest n hn (hk sl (List.mem_cons_self))
      (hl sl (List.mem_cons_self))]
    simp only [recsS]
    rw [ih (k + 1) (fun x hx => hk x (List.mem_cons_of_mem _ hx))
      (fun x hx => hl x (List.mem_cons_of_mem _ hx))]

theorem streamFrom_eq (r32 : XVal → XVal) (n : Nat) (hn : 1 ≤ n) (sls : List Slot) :
    (∀ sl ∈ sls, sl.Pairwise (fun a b => a.var < b.var)) →
    (∀ sl ∈ sls, ∀ e ∈ sl, e.vals.length = n) →
    streamFrom r32 sls = streamS r32 sls := by
  induction sls with
  | nil => intros; rfl
  | cons sl rest ih =>
    intro hk hl
    rw [streamFrom_cons r32 sl rest n hn (hk sl (List.mem_cons_self))
      (hl sl (List.mem_cons_self))]
    simp only [streamS]
    rw [ih (fun x hx => hk x (List.mem_cons_of_mem _ hx))
      (fun x hx => hl x (List.mem_cons_of_mem _ hx))]

theorem recsS_unif (s : Store) (binary : Bool) (sls : List Slot) :
    ∀ k, ∀ r ∈ recsS s binary k sls, Unif s r.hdr := by
  induction sls with
  | nil => intro k r hr; cases hr
  | cons sl rest ih =>
    intro k r hr
    simp only [recsS, List.mem_append, List.mem_map] at hr
    rcases hr with ⟨e, _, rfl⟩ | hr
    · exact mkHdr_unif s k e
    · exact ih (k + 1) r hr

/-! ### ensemble bookkeeping of the scan -/

theorem ensFold_append (e : Nat) (l1 l2 : List Hdr) :
    ensFold e (l1 ++ l2) = ensFold (ensFold e l1) l2 := by
  induction l1 generalizing e with
  | nil => rfl
  | cons h l ih => simp only [List.cons_append, ensFold]; exact ih _

theorem ensFold_none (e : Nat) (l : List Hdr) (h : ∀ x ∈ l, x.member = none) : ensFold e l = e := by
  induction l generalizing e with
  | nil => rfl
  | cons x l ih =>
    simp only [ensFold]
    rw [h x (List.mem_cons_self)]
    exact ih _ (fun y hy => h y (List.mem_cons_of_mem _ hy))

theorem ensFold_const (e k : Nat) (he : 1 ≤ e) (l : List Hdr) (h : ∀ x ∈ l, x.member = some k) :
    ensFold e l = if l = [] then e else max e (k + 1) := by
  induction l generalizing e with
  | nil => rfl
  | cons x l ih =>
    simp only [ensFold]
    rw [h x (List.mem_cons_self)]
    have hu : ensUpd e (some k) = max e (k + 1) := by
      simp only [ensUpd]
      split <;> omega
    rw [hu, ih (max e (k + 1)) (by omega) (fun y hy => h y (List.mem_cons_of_mem _ hy))]
    by_cases hl : l = []
    · simp [hl]
    · simp [hl]

theorem hdrs_member_true (s : Store) (binary : Bool) (hce : s.containsEns = true) (k : Nat) (sl : Slot) :
    ∀ x ∈ (sl.map (mkRec s binary k)).map (·.hdr), x.member = some k := by
  intro x hx
  simp only [List.map_map, List.mem_map, Function.comp] at hx
  obtain ⟨e, _, rfl⟩ := hx
  simp [mkRec, mkHdr, hce]

theorem ensFold_recsS (s : Store) (binary : Bool) (hce : s.containsEns = true) (sls : List Slot) :
    ∀ (k e : Nat), 1 ≤ e → e ≤ k + sls.length → sls ≠ [] →
    (∀ sl, sls.getLast? = some sl → sl ≠ []) →
    ensFold e ((recsS s binary k sls).map (·.hdr)) = k + sls.length := by
  induction sls with
  | nil => intro k e _ _ h; exact absurd rfl h
  | cons sl rest ih =>
    intro k e he hle _ hlast
    simp only [recsS, List.map_append]
    rw [ensFold_append, ensFold_const e k he _ (hdrs_member_true s binary hce k sl)]
    by_cases hr : rest = []
    · subst hr
      have hsl : sl ≠ [] := hlast sl rfl
      simp only [recsS, List.map_nil, ensFold, List.length_cons, List.length_nil]
      have : (sl.map (mkRec s binary k)).map (·.hdr) ≠ [] := by simpa using hsl
      rw [if_neg this]
      simp only [List.length_cons, List.length_nil] at hle
      omega
    · have hlast' : ∀ x, rest.getLast? = some x → x ≠ [] := by
        intro x hx
        apply hlast x
        rw [List.getLast?_cons_of_ne_nil hr]
        exact hx
      simp only [List.length_cons] at hle ⊢
      have key := ih (k + 1)
      split
      · rw [key e he (by omega) hr hlast']; omega
      · rw [key (max e (k + 1)) (by omega) (by omega) hr hlast']; omega

theorem recsS_ne_nil (s : Store) (binary : Bool) (sls : List Slot) :
    ∀ k, sls ≠ [] → (∀ sl, sls.getLast? = some sl → sl ≠ []) → recsS s binary k sls ≠ [] := by
  induction sls with
  | nil => intro k h; exact absurd rfl h
  | cons sl rest ih =>
    intro k _ hlast
    simp only [recsS]
    by_cases hr : rest = []
    · subst hr
      have hsl : sl ≠ [] := hlast sl rfl
      intro h
      rw [List.append_eq_nil_iff] at h
      exact hsl (List.map_eq_nil_iff.1 h.1)
    · have := ih (k + 1) hr (by
        intro x hx
        apply hlast x
        rw [List.getLast?_cons_of_ne_nil hr]
        exact hx)
      intro h
      rw [List.append_eq_nil_iff] at h
      exact this h.2


/-! ## second pass on a written file -/

def geoOf (s : Store) : Geo := ⟨s.dt, s.start, s.stop, s.times, s.containsEns, s.ensSize⟩

/-- the binary stream handed from series to series (absent for XML files) -/
def strm (binary : Bool) (l : List XVal) : Option (List XVal) := if binary then some l else none

theorem missMap_nan (miss : XVal) : missMap miss XVal.nan = XVal.nan := by
  unfold missMap; split <;> rfl

theorem wf_nValues (binary : Bool) (s : Store) (hWF : WF binary s) (k : Nat) (e : Entry) :
    nValues (geoOf s) (mkHdr s k e) = some (s.times.length : Int) := by
  have hg := hWF.grid
  unfold nValues geoOf mkHdr
  cases hdt : s.dt with
  | some d =>
    rw [hdt] at hg
    obtain ⟨hd, _, hstop⟩ := hg
    simp only []
    rw [if_neg (Int.ne_of_gt hd)]
    congr 1
    rw [hstop, show s.start + ((s.times.length : Int) - 1) * d - s.start
        = ((s.times.length : Int) - 1) * d by ring, roundDivP1_mul _ d (Int.ne_of_gt hd)]
    ring
  | none =>
    rw [hdt] at hg
    obtain ⟨_, hsort, hhead, hlast⟩ := hg
    simp only []
    congr 1
    have h1 := bisectLeft_last s.times hsort s.stop hlast
    have h0 : bisectLeft s.times s.start = 0 := by
      cases ht : s.times with
      | nil => rw [ht] at hhead; cases hhead
      | cons t l =>
        rw [ht] at hhead
        simp only [List.head?_cons, Option.some.injEq] at hhead
        subst hhead
        exact bisectLeft_head _ l
    rw [h0]
    omega

theorem wf_pads (s : Store) (k : Nat) (e : Entry) :
    padFront (geoOf s) (mkHdr s k e) = 0 ∧ padBack (geoOf s) (mkHdr s k e) = 0 := by
  unfold padFront padBack geoOf mkHdr
  simp

theorem back_xml (r32 : XVal → XVal) (l : List XVal) :
    (l.map encXml).map (missMap newMiss) = l.map (back false r32) := by
  rw [List.map_map]
  apply List.map_congr_left
  intro v _
  simp [back]

theorem back_bin (r32 : XVal → XVal) (l : List XVal) :
    (l.map r32).map (missMap newMiss) = l.map (back true r32) := by
  rw [List.map_map]
  apply List.map_congr_left
  intro v _
  simp [back]

theorem takePad_full (l : List XVal) : takePad l.length l = l := by
  simp [takePad, nans]

theorem readSeries_written (binary : Bool) (r32 : XVal → XVal) (s : Store) (hWF : WF binary s)
    (k : Nat) (e : Entry) (he : e.vals.length = s.times.length) (rest : List XVal) :
    readSeries (geoOf s) binary (mkRec s binary k e) (strm binary (e.vals.map r32 ++ rest))
      = some (e.vals.map (back binary r32), strm binary rest) := by
  unfold readSeries
  have hh : (mkRec s binary k e).hdr = mkHdr s k e := rfl
  rw [hh, wf_nValues binary s hWF k e, (wf_pads s k e).1, (wf_pads s k e).2]
  simp only [Int.toNat_natCast, Int.toNat_zero, nans, List.replicate_zero, List.nil_append,
    List.append_nil]
  have hneg : ¬ ((s.times.length : Int) < 0) := by omega
  rw [if_neg hneg]
  simp only [lt_self_iff_false, or_self, if_false]
  cases binary with
  | true =>
    simp only [strm, if_true, mkRec, mkHdr]
    have h1 : (List.map r32 e.vals ++ rest).take s.times.length = List.map r32 e.vals := by
      rw [← he]
      have : (List.map r32 e.vals).length = e.vals.length := by simp
      rw [← this, List.take_left']
      rfl
    have h2 : (List.map r32 e.vals ++ rest).drop s.times.length = rest := by
      rw [← he]
      have : (List.map r32 e.vals).length = e.vals.length := by simp
      rw [← this, List.drop_left']
      rfl
    rw [h1, h2, back_bin]
  | false =>
    simp only [strm, mkRec, mkHdr, Bool.false_eq_true, if_false]
    have : takePad s.times.length (List.map encXml e.vals) = List.map encXml e.vals := by
      rw [← he]
      have h := takePad_full (List.map encXml e.vals)
      simpa using h
    rw [this, back_xml r32]

theorem targets_written (s : Store) (k : Nat) (e : Entry)
    (hce : s.containsEns = true ∨ k = 0) :
    targets (geoOf s) (mkHdr s k e) = [k] := by
  unfold targets geoOf mkHdr
  rcases hce with h | h
  · simp [h]
  · subst h
    cases hc : s.containsEns <;> simp

theorem modify_eq_set (l : List Slot) (k : Nat) (f : Slot → Slot) (hk : k < l.length) :
    l.modify k f = l.set k (f l[k]) := by
  induction l generalizing k with
  | nil => simp at hk
  | cons x l ih =>
    cases k with
    | zero => simp
    | succ k =>
      simp only [List.length_cons, Nat.add_lt_add_iff_right] at hk
      simp [ih k hk]

theorem upsert_new (e : Entry) (l : Slot) (h : ∀ x ∈ l, x.var ≠ e.var) : upsert e l = l ++ [e] := by
  induction l with
  | nil => rfl
  | cons x l ih =>
    simp only [upsert]
    rw [if_neg (h x (List.mem_cons_self)), ih (fun y hy => h y (List.mem_cons_of_mem _ hy))]
    rfl

/-- the series of one member rebuild that member's slot -/
theorem fill_slot (binary : Bool) (r32 : XVal → XVal) (s : Store) (hWF : WF binary s) (k : Nat)
    (hce : s.containsEns = true ∨ k = 0) (restRecs : List Rec) (restStream : List XVal)
    (sl : Slot) :
    ∀ (pre : Slot) (acc : List Slot) (hk : k < acc.length),
    (pre ++ sl).Pairwise (fun a b => a.var < b.var) →
    (∀ e ∈ sl, e.vals.length = s.times.length) →
    acc[k] = pre.map (backEntry binary r32) →
    fill (geoOf s) binary (sl.map (mkRec s binary k) ++ restRecs)
        (strm binary (sl.flatMap (fun e => e.vals.map r32) ++ restStream)) acc
      = fill (geoOf s) binary restRecs (strm binary restStream)
          (acc.set k ((pre ++ sl).map (backEntry binary r32))) := by
  induction sl with
  | nil =>
    intro pre acc hk _ _ hacc
    simp only [List.map_nil, List.nil_append, List.flatMap_nil, List.append_nil]
    rw [← hacc, List.set_getElem_self]
  | cons e sl ih =>
    intro pre acc hk hkeys hlens hacc
    simp only [List.map_cons, List.cons_append, List.flatMap_cons, List.append_assoc, fill]
    rw [readSeries_written binary r32 s hWF k e (hlens e (List.mem_cons_self))]
    simp only []
    have hh : (mkRec s binary k e).hdr = mkHdr s k e := rfl
    rw [hh, targets_written s k e hce]
    simp only [placeAt]
    rw [modify_eq_set acc k _ hk, hacc]
    have hentry : Entry.mk (mkHdr s k e).var (mkHdr s k e).unit (e.vals.map (back binary r32))
        = backEntry binary r32 e := rfl
    rw [hentry]
    have hnew : ∀ x ∈ pre.map (backEntry binary r32), x.var ≠ (backEntry binary r32 e).var := by
      intro x hx
      rw [List.mem_map] at hx
      obtain ⟨y, hy, rfl⟩ := hx
      have := (List.pairwise_append.1 hkeys).2.2 y hy e (List.mem_cons_self)
      simp only [backEntry]
      omega
    rw [upsert_new _ _ hnew]
    have hacc' : (acc.set k (pre.map (backEntry binary r32) ++ [backEntry binary r32 e]))[k]'(by
        rw [List.length_set]; exact hk) = (pre ++ [e]).map (backEntry binary r32) := by
      simp
    have := ih (pre ++ [e]) (acc.set k (pre.map (backEntry binary r32) ++ [backEntry binary r32 e]))
      (by rw [List.length_set]; exact hk) (by simpa using hkeys)
      (fun x hx => hlens x (List.mem_cons_of_mem _ hx)) hacc'
    rw [this]
    congr 1
    simp

/-- the whole second pass rebuilds all slots -/
theorem fill_all (binary : Bool) (r32 : XVal → XVal) (s : Store) (hWF : WF binary s)
    (sls : List Slot) :
    ∀ (k : Nat) (done : List Slot), done.length = k →
    (s.containsEns = true ∨ (k = 0 ∧ sls.length ≤ 1)) →
    (∀ sl ∈ sls, sl.Pairwise (fun a b => a.var < b.var)) →
    (∀ sl ∈ sls, ∀ e ∈ sl, e.vals.length = s.times.length) →
    fill (geoOf s) binary (recsS s binary k sls) (strm binary (streamS r32 sls))
        (done ++ List.replicate sls.length [])
      = some (done ++ sls.map (fun sl => sl.map (backEntry binary r32))) := by
  induction sls with
  | nil =>
    intro k done _ _ _ _
    simp [recsS, fill]
  | cons sl rest ih =>
    intro k done hdone hce hkeys hlens
    simp only [recsS, streamS, List.length_cons, List.replicate_succ]
    have hk : k < (done ++ [] :: List.replicate rest.length []).length := by
      simp only [List.length_append, List.length_cons, List.length_replicate]; omega
    have hce1 : s.containsEns = true ∨ k = 0 := by
      rcases hce with h | h
      · exact Or.inl h
      · exact Or.inr h.1
    have hacc : (done ++ ([] : Slot) :: List.replicate rest.length [])[k]
        = ([] : Slot).map (backEntry binary r32) := by
      subst hdone
      simp
    rw [fill_slot binary r32 s hWF k hce1 (recsS s binary (k + 1) rest) (streamS r32 rest) sl []
      _ hk (by simpa using hkeys sl (List.mem_cons_self)) (hlens sl (List.mem_cons_self)) hacc]
    have hset : (done ++ ([] : Slot) :: List.replicate rest.length []).set k
          (([] ++ sl).map (backEntry binary r32))
        = (done ++ [sl.map (backEntry binary r32)]) ++ List.replicate rest.length [] := by
      subst hdone
      simp
    rw [hset]
    by_cases hr : rest = []
    · subst hr
      simp [recsS, streamS, fill]
    · have hce2 : s.containsEns = true ∨ (k + 1 = 0 ∧ rest.length ≤ 1) := by
        rcases hce with h | h
        · exact Or.inl h
        · exfalso
          simp only [List.length_cons] at h
          exact hr (List.length_eq_zero_iff.1 (by omega))
      rw [ih (k + 1) (done ++ [sl.map (backEntry binary r32)]) (by simp [hdone]) hce2
        (fun x hx => hkeys x (List.mem_cons_of_mem _ hx))
        (fun x hx => hlens x (List.mem_cons_of_mem _ hx))]
      simp


/-! ## assembling `read (write s)` -/

theorem recsS_member_none (s : Store) (binary : Bool) (hce : s.containsEns = false) (sls : List Slot) :
    ∀ k, ∀ r ∈ recsS s binary k sls, r.hdr.member = none := by
  induction sls with
  | nil => intro k r hr; cases hr
  | cons sl rest ih =>
    intro k r hr
    simp only [recsS, List.mem_append, List.mem_map] at hr
    rcases hr with ⟨e, _, rfl⟩ | hr
    · simp [mkRec, mkHdr, hce]
    · exact ih (k + 1) r hr

theorem recsS_member_some (s : Store) (binary : Bool) (hce : s.containsEns = true) (sls : List Slot) :
    ∀ k, ∀ r ∈ recsS s binary k sls, r.hdr.member.isSome = true := by
  induction sls with
  | nil => intro k r hr; cases hr
  | cons sl rest ih =>
    intro k r hr
    simp only [recsS, List.mem_append, List.mem_map] at hr
    rcases hr with ⟨e, _, rfl⟩ | hr
    · simp [mkRec, mkHdr, hce]
    · exact ih (k + 1) r hr

theorem recsS_evTimes (s : Store) (sls : List Slot)
    (hl : ∀ sl ∈ sls, ∀ e ∈ sl, e.vals.length = s.times.length) (hdt : s.dt = none) :
    ∀ k, ∀ r ∈ recsS s false k sls, r.evTimes = s.times := by
  induction sls with
  | nil => intro k r hr; cases hr
  | cons sl rest ih =>
    intro k r hr
    simp only [recsS, List.mem_append, List.mem_map] at hr
    rcases hr with ⟨e, he, rfl⟩ | hr
    · simp [mkRec, evTimesOf, hdt, hl sl (List.mem_cons_self) e he]
    · exact ih (fun x hx => hl x (List.mem_cons_of_mem _ hx)) (k + 1) r hr

theorem longestTimes_same (T : List Int) (recs : List Rec) (h : ∀ r ∈ recs, r.evTimes = T) :
    longestTimes T recs = T := by
  induction recs with
  | nil => rfl
  | cons r rs ih =>
    simp only [longestTimes]
    rw [h r (List.mem_cons_self)]
    simp only [lt_self_iff_false, if_false]
    exact ih (fun x hx => h x (List.mem_cons_of_mem _ hx))

theorem longestTimes_first (T : List Int) (hT : T ≠ []) (recs : List Rec) (hne : recs ≠ [])
    (h : ∀ r ∈ recs, r.evTimes = T) : longestTimes [] recs = T := by
  cases recs with
  | nil => exact absurd rfl hne
  | cons r rs =>
    simp only [longestTimes]
    rw [h r (List.mem_cons_self)]
    have : ([] : List Int).length < T.length := by
      cases T with
      | nil => exact absurd rfl hT
      | cons _ _ => simp
    rw [if_pos this]
    exact longestTimes_same T rs (fun x hx => h x (List.mem_cons_of_mem _ hx))

theorem mapVals_back (binary : Bool) (r32 : XVal → XVal) (slots : List Slot) :
    slots.map (fun sl => sl.map (backEntry binary r32))
      = mapVals (List.map (back binary r32)) slots := rfl

/-- `write` succeeds on a well-formed object and produces the plain record list -/
theorem write_wf (binary : Bool) (r32 : XVal → XVal) (s : Store) (hWF : WF binary s) :
    write r32 binary s = some
      { tz := s.tz, recs := recsS s binary 0 s.slots, bin := strm binary (streamS r32 s.slots) } := by
  unfold write
  have h1 : (s.slots.any (fun sl => sl.any (fun e => decide (s.times.length < e.vals.length)))) = false := by
    rw [List.any_eq_false]
    intro sl hsl
    rw [Bool.not_eq_true, List.any_eq_false]
    intro e he
    rw [hWF.lens sl hsl e he]
    simp
  have h2 : (!s.containsEns && decide (1 < s.slots.length)) = false := by
    cases hc : s.containsEns with
    | true => rfl
    | false =>
      have := hWF.no_ens hc
      rw [hWF.slots_len, this]
      rfl
  rw [h1, h2]
  simp only [Bool.and_false, Bool.or_self, Bool.false_eq_true, if_false]
  rw [recsFrom_eq s binary s.times.length hWF.n_pos s.slots 0 hWF.keys hWF.lens,
    streamFrom_eq r32 s.times.length hWF.n_pos s.slots hWF.keys hWF.lens]
  cases binary <;> rfl

theorem scan_written (binary : Bool) (s : Store) (hWF : WF binary s) :
    scan {} ((recsS s binary 0 s.slots).map (·.hdr)) = some
      { dt := s.dt, start := some s.start, stop := some s.stop, forecast := some s.forecast,
        containsEns := s.containsEns, ensSize := s.ensSize } := by
  have hslots : s.slots ≠ [] := by
    intro h
    have := hWF.slots_len
    rw [h] at this
    have := hWF.ens_pos
    simp at *
    omega
  have hne := recsS_ne_nil s binary s.slots 0 hslots hWF.last_ne
  obtain ⟨r, rs, hrs⟩ := List.exists_cons_of_ne_nil hne
  have hun : ∀ x ∈ (recsS s binary 0 s.slots).map (·.hdr), Unif s x := by
    intro x hx
    rw [List.mem_map] at hx
    obtain ⟨r', hr', rfl⟩ := hx
    exact recsS_unif s binary s.slots 0 r' hr'
  have hshape : (recsS s binary 0 s.slots).map (·.hdr) = r.hdr :: rs.map (·.hdr) := by
    rw [hrs]; rfl
  rw [hshape] at hun ⊢
  rw [scan_first s r.hdr (rs.map (·.hdr)) hun, ← hshape]
  congr 2
  · -- containsEns
    cases hc : s.containsEns with
    | false =>
      rw [List.any_eq_false]
      intro x hx
      rw [List.mem_map] at hx
      obtain ⟨r', hr', rfl⟩ := hx
      rw [recsS_member_none s binary hc s.slots 0 r' hr']
      simp
    | true =>
      rw [hshape]
      simp only [List.any_cons]
      have : r ∈ recsS s binary 0 s.slots := by rw [hrs]; exact List.mem_cons_self
      rw [recsS_member_some s binary hc s.slots 0 r this]
      rfl
  · -- ensSize
    cases hc : s.containsEns with
    | false =>
      rw [ensFold_none 1 _ (by
        intro x hx
        rw [List.mem_map] at hx
        obtain ⟨r', hr', rfl⟩ := hx
        exact recsS_member_none s binary hc s.slots 0 r' hr')]
      exact (hWF.no_ens hc).symm
    | true =>
      rw [ensFold_recsS s binary hc s.slots 0 1 (le_refl 1)
        (by rw [hWF.slots_len]; have := hWF.ens_pos; omega) hslots hWF.last_ne]
      rw [hWF.slots_len]
      omega


/-- reading back what `write` produced from a well-formed object -/
theorem read_written (binary : Bool) (r32 : XVal → XVal) (s : Store) (hWF : WF binary s) :
    read binary { tz := s.tz, recs := recsS s binary 0 s.slots,
                  bin := strm binary (streamS r32 s.slots) }
      = some { s with slots := mapVals (List.map (back binary r32)) s.slots } := by
  have hscan := scan_written binary s hWF
  have hfill := fill_all binary r32 s hWF s.slots 0 [] rfl
    (by
      cases hc : s.containsEns with
      | true => exact Or.inl rfl
      | false =>
        right
        refine ⟨rfl, ?_⟩
        rw [hWF.slots_len, hWF.no_ens hc])
    hWF.keys hWF.lens
  simp only [List.nil_append] at hfill
  rw [mapVals_back, hWF.slots_len] at hfill
  have hslots : s.slots ≠ [] := by
    intro h
    have h1 := hWF.slots_len
    rw [h] at h1
    have := hWF.ens_pos
    simp at h1
    omega
  have hrne := recsS_ne_nil s binary s.slots 0 hslots hWF.last_ne
  unfold read
  simp only [hscan]
  have hg := hWF.grid
  cases hdt : s.dt with
  | some d =>
    rw [hdt] at hg
    obtain ⟨hd, htimes, hstop⟩ := hg
    have hn : roundDivP1 (s.stop - s.start) d = (s.times.length : Int) := by
      rw [hstop, show s.start + ((s.times.length : Int) - 1) * d - s.start
        = ((s.times.length : Int) - 1) * d by ring, roundDivP1_mul _ d (Int.ne_of_gt hd)]
      ring
    have ht0 : gridTimes s.start d (roundDivP1 (s.stop - s.start) d).toNat = s.times := by
      rw [hn, Int.toNat_natCast]
      exact htimes.symm
    have hfc : floorDT s.start d s.forecast = s.forecast := by
      have hm := hWF.fc_mem
      rw [htimes] at hm
      obtain ⟨j, hj⟩ := mem_gridTimes _ _ _ _ hm
      rw [hj]
      exact floorDT_grid s.start d j hd
    simp only [decide_eq_true hd, Bool.not_true, Bool.false_eq_true, if_false, ht0, hfc]
    have hgeo : (⟨some d, s.start, s.stop, s.times, s.containsEns, s.ensSize⟩ : Geo) = geoOf s := by
      simp [geoOf, hdt]
    rw [hgeo, hfill]
    simp only [hWF.fc_mem, if_true, ← hWF.fc_idx]
  | none =>
    rw [hdt] at hg
    obtain ⟨hb, hsort, hhead, hlast⟩ := hg
    subst hb
    have hT : s.times ≠ [] := by
      intro h
      have := hWF.n_pos
      rw [h] at this
      simp at this
    have ht0 : longestTimes [] (recsS s false 0 s.slots) = s.times :=
      longestTimes_first s.times hT _ hrne (recsS_evTimes s s.slots hWF.lens hdt 0)
    simp only [Bool.not_true, Bool.false_eq_true, if_false, ht0]
    have hgeo : (⟨none, s.start, s.stop, s.times, s.containsEns, s.ensSize⟩ : Geo) = geoOf s := by
      simp [geoOf, hdt]
    rw [hgeo, hfill]
    have h1 := bisectLeft_last s.times hsort s.stop hlast
    have h0 : bisectLeft s.times s.start = 0 := by
      cases ht : s.times with
      | nil => exact absurd ht hT
      | cons t l =>
        rw [ht] at hhead
        simp only [List.head?_cons, Option.some.injEq] at hhead
        subst hhead
        exact bisectLeft_head _ l
    simp only [hWF.fc_mem, if_true, ← hWF.fc_idx, h1, h0, List.take_length, List.drop_zero]


/-! ## corollaries used by the property theorems -/

theorem mapVals_id_of (f : XVal → XVal) (slots : List Slot)
    (h : ∀ sl ∈ slots, ∀ e ∈ sl, ∀ v ∈ e.vals, f v = v) :
    mapVals (List.map f) slots = slots := by
  unfold mapVals
  conv_rhs => rw [← List.map_id slots]
  apply List.map_congr_left
  intro sl hsl
  conv_rhs => rw [id, ← List.map_id sl]
  apply List.map_congr_left
  intro e he
  have : e.vals.map f = e.vals := by
    conv_rhs => rw [← List.map_id e.vals]
    apply List.map_congr_left
    intro v hv
    exact h sl hsl e he v hv
  rw [this]
  rfl

theorem back_xml_id (r32 : XVal → XVal) (v : XVal) (h : v ≠ newMiss) : back false r32 v = v := by
  unfold back encXml missMap
  by_cases hv : v = XVal.nan
  · subst hv; simp
  · simp [hv, h]

theorem back_bin_id (r32 : XVal → XVal) (v : XVal) (h : r32 v ≠ newMiss) : back true r32 v = r32 v := by
  unfold back missMap
  simp [h]

theorem mem_mapVals (f : List XVal → List XVal) (slots : List Slot) (sl' : Slot)
    (h : sl' ∈ mapVals f slots) : ∃ sl ∈ slots, sl' = sl.map (fun e => { e with vals := f e.vals }) := by
  unfold mapVals at h
  rw [List.mem_map] at h
  obtain ⟨sl, hsl, rfl⟩ := h
  exact ⟨sl, hsl, rfl⟩

/-- mapping the values of a well-formed object keeps it well-formed -/
theorem WF_mapVals (binary : Bool) (s : Store) (hWF : WF binary s) (f : XVal → XVal) :
    WF binary { s with slots := mapVals (List.map f) s.slots } := by
  refine ⟨hWF.n_pos, hWF.grid, hWF.fc_mem, hWF.fc_idx, ?_, hWF.ens_pos, hWF.no_ens, ?_, ?_, ?_⟩
  · show (mapVals (List.map f) s.slots).length = s.ensSize
    simp [mapVals, hWF.slots_len]
  · intro sl' hl
    have hl' : (mapVals (List.map f) s.slots).getLast? = some sl' := hl
    unfold mapVals at hl'
    rw [List.getLast?_map] at hl'
    cases hg : s.slots.getLast? with
    | none => rw [hg] at hl'; cases hl'
    | some sl =>
      rw [hg] at hl'
      simp only [Option.map_some, Option.some.injEq] at hl'
      have := hWF.last_ne sl hg
      rw [← hl']
      intro h
      exact this (List.map_eq_nil_iff.1 h)
  · intro sl' hsl'
    obtain ⟨sl, hsl, rfl⟩ := mem_mapVals _ _ _ hsl'
    have := hWF.keys sl hsl
    rw [List.pairwise_map]
    exact this
  · intro sl' hsl' e' he'
    obtain ⟨sl, hsl, rfl⟩ := mem_mapVals _ _ _ hsl'
    rw [List.mem_map] at he'
    obtain ⟨e, he, rfl⟩ := he'
    simp only [List.length_map]
    exact hWF.lens sl hsl e he

/-! ## one series read into a longer global range -/

theorem getD_takePad (n j : Nat) (hj : j < n) (evs : List XVal) :
    (takePad n evs).getD j XVal.nan = evs.getD j XVal.nan := by
  unfold takePad
  rw [List.getD_eq_getElem?_getD, List.getD_eq_getElem?_getD]
  by_cases h : j < evs.length
  · rw [List.getElem?_append_left (by simp; omega), List.getElem?_take_of_lt hj]
  · have hle : evs.length ≤ j := Nat.le_of_not_lt h
    rw [List.getElem?_append_right (by simp; omega), List.getElem?_eq_none hle]
    have := getD_nans (n - evs.length) (j - (evs.take n).length)
    rw [List.getD_eq_getElem?_getD] at this
    rw [this]
    rfl

theorem takePad_length (n : Nat) (evs : List XVal) : (takePad n evs).length = n := by
  simp [takePad, nans]
  omega

theorem getD_padded (p q : Nat) (l : List XVal) (i : Nat) :
    (nans p ++ l ++ nans q).getD i XVal.nan
      = if p ≤ i ∧ i < p + l.length then l.getD (i - p) XVal.nan else XVal.nan := by
  rw [List.getD_eq_getElem?_getD]
  by_cases h1 : i < p
  · rw [List.append_assoc, List.getElem?_append_left (by simpa [nans] using h1)]
    have := getD_nans p i
    rw [List.getD_eq_getElem?_getD] at this
    rw [this, if_neg (by omega)]
  · rw [List.append_assoc, List.getElem?_append_right (by simp [nans]; omega)]
    simp only [nans_length]
    by_cases h2 : i - p < l.length
    · rw [List.getElem?_append_left h2, if_pos (by omega), List.getD_eq_getElem?_getD]
    · rw [List.getElem?_append_right (by omega)]
      have := getD_nans q (i - p - l.length)
      rw [List.getD_eq_getElem?_getD] at this
      rw [this, if_neg (by omega)]

end RtcVerif.C11
