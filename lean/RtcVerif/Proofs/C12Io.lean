import RtcVerif.Model.C12Io
import RtcVerif.Proofs.C12Lemmas
import RtcVerif.Proofs.C12Ref
/-!
Bridging lemmas between the statement-level shapes of `Model/C12Io.lean` (what the generated module
`Gen/IoSlices.lean` is proved equal to) and the model functions of the C12 property theorems.
-/
namespace RtcVerif.C12

theorem replNan_def (r : Rat) : replNan r = fun v => if v = XVal.nan then XVal.fin r else v := rfl

/-! ## DataStore -/

theorem grow'_eq (st : Store) (n : Nat) : grow' st n = grow st n := rfl

theorem ioSetRef_eq (n : Nat) (st : Store) (m v : Nat) (x : List XVal) :
    ioSetRef n st m v x = ioSet n st m v x := by
  unfold ioSetRef ioSet grow'
  by_cases h : x.length = n
  · have h1 : ¬ (n ≠ x.length) := fun e => e h.symm
    have h2 : ¬ (x.length ≠ n) := fun e => e h
    rw [if_neg h1, if_neg h2]
    by_cases hm : m ≥ st.length
    · rw [if_pos hm]
    · rw [if_neg hm]
      have : m + 1 - st.length = 0 := by omega
      simp [this]
  · rw [if_pos (fun e => h e.symm), if_pos h]

theorem ioGetRef_eq (st : Store) (m v : Nat) : ioGetRef st m v = ioGet st m v := by
  unfold ioGetRef ioGet
  by_cases hm : m ≥ st.length
  · rw [if_pos hm, List.getElem?_eq_none hm]
  · rw [if_neg hm]
    have hlt : m < st.length := by omega
    rw [List.getElem?_eq_getElem hlt]
    rfl

/-! ## the `times >= initial_time` mask is the part from t0 on -/

theorem maskSel_all_true (l : List Int) (vals : List XVal) (hl : vals.length = l.length)
    (h : ∀ t ∈ l, 0 ≤ t) : maskSel (l.map (fun t => decide (0 ≤ t))) vals = vals := by
  induction l generalizing vals with
  | nil =>
    cases vals with
    | nil => rfl
    | cons _ _ => simp at hl
  | cons y l ih =>
    cases vals with
    | nil => simp at hl
    | cons v vs =>
      have hy : 0 ≤ y := h y (List.mem_cons_self ..)
      simp only [List.map_cons, maskSel, hy, decide_true, if_true]
      rw [ih vs (by simpa using hl) (fun t ht => h t (List.mem_cons_of_mem _ ht))]

theorem maskSel_ge_eq_drop (ts : List Int) (hinc : Inc ts) (vals : List XVal)
    (hl : vals.length = ts.length) :
    maskSel (ts.map (fun t => decide (0 ≤ t))) vals = vals.drop (bisectLeft ts 0) := by
  induction ts generalizing vals with
  | nil =>
    cases vals with
    | nil => rfl
    | cons _ _ => simp at hl
  | cons y l ih =>
    cases vals with
    | nil => simp at hl
    | cons v vs =>
      have hl' : vs.length = l.length := by simpa using hl
      have hp := List.pairwise_cons.1 hinc
      by_cases hy : y < 0
      · have hny : ¬ (0 ≤ y) := by omega
        simp only [List.map_cons, maskSel, hny, decide_false, Bool.false_eq_true, if_false, bisectLeft,
          hy, if_true, List.drop_succ_cons]
        exact ih hp.2 vs hl'
      · have hy0 : 0 ≤ y := by omega
        have hall : ∀ t ∈ l, 0 ≤ t := fun t ht => by have := hp.1 t ht; omega
        simp only [List.map_cons, maskSel, hy0, decide_true, if_true, bisectLeft, hy, if_false,
          List.drop_zero]
        rw [maskSel_all_true l vs hl' hall]

/-! ## a NaN among the values = a stamp whose value is NaN -/

theorem any_nan_iff_lookup (a : List Int) (hinc : Inc a) (b : List XVal) (hl : b.length = a.length) :
    (b.any (fun v => decide (v = XVal.nan))) = true ↔ ∃ t ∈ a, lookupAt a b t = some XVal.nan := by
  induction a generalizing b with
  | nil =>
    cases b with
    | nil => simp
    | cons _ _ => simp at hl
  | cons y l ih =>
    cases b with
    | nil => simp at hl
    | cons v vs =>
      have hl' : vs.length = l.length := by simpa using hl
      have hp := List.pairwise_cons.1 hinc
      constructor
      · intro h
        simp only [List.any_cons, Bool.or_eq_true, decide_eq_true_eq] at h
        rcases h with h | h
        · exact ⟨y, List.mem_cons_self .., by simp [lookupAt, h]⟩
        · obtain ⟨t, ht, hlk⟩ := (ih hp.2 vs hl').1 h
          have hne : y ≠ t := by have := hp.1 t ht; omega
          exact ⟨t, List.mem_cons_of_mem _ ht, by simp only [lookupAt, if_neg hne]; exact hlk⟩
      · rintro ⟨t, ht, hlk⟩
        simp only [List.any_cons, Bool.or_eq_true, decide_eq_true_eq]
        by_cases hy : y = t
        · left
          simp only [lookupAt, hy, if_true, Option.some.injEq] at hlk
          exact hlk
        · right
          simp only [lookupAt, if_neg hy] at hlk
          rcases List.mem_cons.1 ht with rfl | ht
          · exact absurd rfl hy
          · exact (ih hp.2 vs hl').2 ⟨t, ht, hlk⟩

theorem inc_drop (l : List Int) (h : Inc l) (k : Nat) : Inc (l.drop k) :=
  List.Pairwise.sublist (List.drop_sublist k l) h

/-! ## parameter dictionaries -/

theorem aget_aset_same {α : Type} (k : Nat) (x : α) (l : List (Nat × α)) : aget k (aset k x l) = some x := by
  induction l with
  | nil => simp [aset, aget]
  | cons p l ih =>
    obtain ⟨k', y⟩ := p
    by_cases h : k' = k
    · simp [aset, aget, h]
    · simp [aset, aget, h, ih]

theorem aget_aset_other {α : Type} (k k' : Nat) (hk : k' ≠ k) (x : α) (l : List (Nat × α)) :
    aget k' (aset k x l) = aget k' l := by
  have hk' : ¬ k = k' := fun e => hk e.symm
  induction l with
  | nil => simp [aset, aget, hk']
  | cons p l ih =>
    obtain ⟨k2, y⟩ := p
    by_cases h : k2 = k
    · have h2 : ¬ k2 = k' := fun e => hk' (h ▸ e)
      simp [aset, aget, h, hk']
    · by_cases h2 : k2 = k'
      · subst h2
        simp [aset, aget, h]
      · simp [aset, aget, h, h2, ih]

/-- last value written for `k` in `io` (a Python dict has one value per key; for a list with repeated
    keys the last one wins, as with repeated assignment) -/
def alast {α : Type} (k : Nat) : List (Nat × α) → Option α
  | [] => none
  | (k', x) :: l => match alast k l with
    | some y => some y
    | none => if k' = k then some x else none

theorem aget_parametersMerge {α : Type} (parent io : List (Nat × α)) (k : Nat) :
    aget k (parametersMerge parent io) = (alast k io).orElse (fun _ => aget k parent) := by
  unfold parametersMerge
  induction io generalizing parent with
  | nil => simp [alast]
  | cons p io ih =>
    obtain ⟨k', x⟩ := p
    simp only [List.foldl_cons]
    rw [ih]
    simp only [alast]
    cases h : alast k io with
    | some y => simp
    | none =>
      by_cases hk : k' = k
      · subst hk
        simp [aget_aset_same]
      · simp [hk, aget_aset_other k' k (fun h => hk h.symm)]

/-! ## simulation -/

theorem simUpdate_stamps_eq_recorded (ts : List Int) (s : SimSt) (dt : Int)
    (h : s.stamps = s.recorded) : (simUpdate ts s dt).stamps = (simUpdate ts s dt).recorded := by
  simp only [simUpdate, h]

/-- invariant of a run: the listed stamps are the times at which the rows were read, the last listed
    stamp is the model time, and the `j`-th solve was fed the row found by bisection at the `j`-th stamp -/
structure SimInv (ts : List Int) (s : SimSt) : Prop where
  rec_eq : s.stamps = s.recorded
  last : s.stamps.getLast? = some s.time
  fed_eq : s.fed.map Prod.fst = s.stamps.map (bisectLeft ts)
  len : s.fed.length = s.stamps.length

theorem simInv_init (ts : List Int) (s : SimSt) (h : simInit ts = some s) : SimInv ts s := by
  unfold simInit at h
  split at h
  · cases h
    exact ⟨rfl, rfl, rfl, rfl⟩
  · cases h

theorem simInv_update (ts : List Int) (s : SimSt) (dt : Int) (h : SimInv ts s) :
    SimInv ts (simUpdate ts s dt) := by
  obtain ⟨h1, h2, h3, h4⟩ := h
  refine ⟨by simp only [simUpdate, h1], by simp [simUpdate], ?_, by simp [simUpdate, h4]⟩
  simp only [simUpdate, List.map_append, h3, List.map_cons, List.map_nil]

theorem simInv_foldl (ts : List Int) (dts : List Int) (s : SimSt) (h : SimInv ts s) :
    SimInv ts (dts.foldl (simUpdate ts) s) := by
  induction dts generalizing s with
  | nil => exact h
  | cons d l ih => exact ih _ (simInv_update ts s d h)

/-- stamps of a run with resolved steps `ds` from a state at time `t`: running sums -/
def runStamps : Int → List Int → List Int
  | _, [] => []
  | t, d :: l => (t + d) :: runStamps (t + d) l

theorem foldl_stamps (ts : List Int) (dts : List Int) (s : SimSt) (hpos : ∀ d ∈ dts, 0 ≤ d) :
    (dts.foldl (simUpdate ts) s).stamps = s.stamps ++ runStamps s.time dts := by
  induction dts generalizing s with
  | nil => simp [runStamps]
  | cons d l ih =>
    have hd : ¬ d < 0 := by have := hpos d (List.mem_cons_self ..); omega
    simp only [List.foldl_cons]
    rw [ih _ (fun x hx => hpos x (List.mem_cons_of_mem _ hx))]
    simp only [simUpdate, hd, if_false, runStamps, List.append_assoc, List.singleton_append]

/-! ## binary PI export -/

theorem headerOrder_succ (vars : Nat → List Nat) (E : Nat) :
    headerOrder vars (E + 1) = headerOrder vars E ++ (vars E).map (fun v => (E, v)) := by
  simp [headerOrder, List.range_succ]

theorem headerOrder_fst_lt (vars : Nat → List Nat) (E : Nat) : ∀ h ∈ headerOrder vars E, h.1 < E := by
  intro h hh
  simp only [headerOrder, List.mem_flatMap, List.mem_range, List.mem_map] at hh
  obtain ⟨m, hm, v, _, rfl⟩ := hh
  exact hm

theorem filter_member_block (vars : Nat → List Nat) (m' m : Nat) :
    ((vars m').map (fun v => ((m', v) : SKey))).filter (fun h => decide (h.1 = m))
      = if m' = m then (vars m').map (fun v => (m', v)) else [] := by
  by_cases h : m' = m
  · simp [h]
  · simp [h, List.filter_eq_nil_iff]

theorem filter_headerOrder (vars : Nat → List Nat) (E n : Nat) (hn : n < E) :
    (headerOrder vars E).filter (fun h => decide (h.1 = n)) = (vars n).map (fun v => (n, v)) := by
  induction E with
  | zero => omega
  | succ E ih =>
    rw [headerOrder_succ, List.filter_append, filter_member_block]
    by_cases h : n = E
    · subst h
      have : (headerOrder vars n).filter (fun h => decide (h.1 = n)) = [] := by
        rw [List.filter_eq_nil_iff]
        intro a ha
        have := headerOrder_fst_lt vars n a ha
        simp only [decide_eq_true_eq]
        omega
      simp [this]
    · rw [if_neg (fun e => h e.symm), ih (by omega)]
      simp

theorem recordOrder_prefix (vars : Nat → List Nat) (E n : Nat) (hn : n ≤ E) :
    (List.range n).flatMap (fun m => (headerOrder vars E).filter (fun h => decide (h.1 = m)))
      = headerOrder vars n := by
  induction n with
  | zero => simp [headerOrder]
  | succ n ih =>
    rw [List.range_succ, List.flatMap_append, ih (by omega), headerOrder_succ]
    simp [filter_headerOrder vars E n (by omega)]

/-- headers listed member by member: the blocks are appended in exactly the header order -/
theorem recordOrder_headerOrder (vars : Nat → List Nat) (E : Nat) :
    recordOrder (headerOrder vars E) E = headerOrder vars E :=
  recordOrder_prefix vars E E (Nat.le_refl E)

theorem binDecode_map {α : Type} (hs : List SKey) (val : SKey → α) (k : SKey) (hk : k ∈ hs) :
    binDecode hs (hs.map val) k = some (val k) := by
  induction hs with
  | nil => cases hk
  | cons h hs ih =>
    simp only [List.map_cons, binDecode]
    by_cases e : h = k
    · simp [e]
    · rw [if_neg e]
      rcases List.mem_cons.1 hk with rfl | hk
      · exact absurd rfl e
      · exact ih hk

/-- the record loop as the source reads: the block written while the loop is at member `m` and header
    `h` holds the values of (`m`, variable of `h`); `h` passed the member test, so that is `h` itself -/
theorem recordOrderCode_eq (hs : List SKey) (E : Nat) :
    (List.range E).flatMap (fun m => (hs.filter (fun h => decide (h.1 = m))).map (fun h => ((m, h.2) : SKey)))
      = recordOrder hs E := by
  unfold recordOrder
  congr 1
  funext m
  have key : ∀ h ∈ hs.filter (fun h => decide (h.1 = m)), ((m, h.2) : SKey) = id h := by
    intro h hh
    have := (List.mem_filter.1 hh).2
    simp only [decide_eq_true_eq] at this
    simp [← this]
  rw [List.map_congr_left key, List.map_id]

end RtcVerif.C12
