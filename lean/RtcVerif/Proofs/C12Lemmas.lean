import RtcVerif.Model.C12
import Mathlib.Tactic.Linarith
import Mathlib.Tactic.Ring
import Mathlib.Tactic.Push
/-! Helper lemmas for C12: bisect on strictly increasing stamps, parallel-list lookup, scatter. -/
namespace RtcVerif.C12

abbrev Inc (l : List Int) : Prop := l.Pairwise (· < ·)

theorem nans_length (n : Nat) : (nans n).length = n := by simp [nans]

/-! ## bisect on strictly increasing lists -/

theorem drop_bisect (l : List Int) (h : Inc l) (x : Int) :
    l.drop (bisectLeft l x) = l.filter (fun t => decide (x ≤ t)) := by
  induction l with
  | nil => rfl
  | cons y l ih =>
    replace h := List.pairwise_cons.1 h
    simp only [bisectLeft]
    by_cases hy : y < x
    · rw [if_pos hy]
      simp only [List.drop_succ_cons]
      rw [ih h.2, List.filter_cons]
      have : ¬ x ≤ y := not_le.2 hy
      simp [this]
    · rw [if_neg hy]
      have hxy : x ≤ y := not_lt.1 hy
      simp only [List.drop_zero]
      symm
      rw [List.filter_eq_self]
      intro t ht
      rcases List.mem_cons.1 ht with rfl | ht
      · simpa using hxy
      · have := h.1 t ht
        simp only [decide_eq_true_eq]
        omega

theorem take_bisect_succ (l : List Int) (h : Inc l) (x : Int) (hx : x ∈ l) :
    l.take (bisectLeft l x + 1) = l.filter (fun t => decide (t ≤ x)) := by
  induction l with
  | nil => cases hx
  | cons y l ih =>
    replace h := List.pairwise_cons.1 h
    simp only [bisectLeft]
    by_cases hy : y < x
    · rw [if_pos hy]
      have hxl : x ∈ l := by
        rcases List.mem_cons.1 hx with rfl | hx
        · omega
        · exact hx
      simp only [List.take_succ_cons]
      rw [ih h.2 hxl, List.filter_cons]
      have : y ≤ x := le_of_lt hy
      simp [this]
    · rw [if_neg hy]
      have hxy : x = y := by
        rcases List.mem_cons.1 hx with rfl | hx
        · rfl
        · have := h.1 x hx
          omega
      subst hxy
      simp only [Nat.zero_add, List.take_succ_cons, List.take_zero, List.filter_cons, le_refl,
        decide_true, if_true]
      congr 1
      symm
      rw [List.filter_eq_nil_iff]
      intro t ht
      have := h.1 t ht
      simp only [decide_eq_true_eq]
      omega

theorem bisect_lt_length (l : List Int) (x : Int) (hx : x ∈ l) : bisectLeft l x < l.length := by
  induction l with
  | nil => cases hx
  | cons y l ih =>
    simp only [bisectLeft]
    by_cases hy : y < x
    · rw [if_pos hy]
      have hxl : x ∈ l := by
        rcases List.mem_cons.1 hx with rfl | hx
        · omega
        · exact hx
      simp only [List.length_cons]
      have := ih hxl
      omega
    · rw [if_neg hy]; simp

theorem bisect_le_length (l : List Int) (x : Int) : bisectLeft l x ≤ l.length := by
  induction l with
  | nil => simp [bisectLeft]
  | cons y l ih =>
    simp only [bisectLeft]
    split
    · simp only [List.length_cons]; omega
    · simp

/-- on a strictly increasing list `bisect_left` finds the position of a member -/
theorem get_bisect (l : List Int) (h : Inc l) (x : Int) (hx : x ∈ l) :
    l[bisectLeft l x]? = some x := by
  induction l with
  | nil => cases hx
  | cons y l ih =>
    replace h := List.pairwise_cons.1 h
    simp only [bisectLeft]
    by_cases hy : y < x
    · rw [if_pos hy]
      have hxl : x ∈ l := by
        rcases List.mem_cons.1 hx with rfl | hx
        · omega
        · exact hx
      simp only [List.getElem?_cons_succ]
      exact ih h.2 hxl
    · rw [if_neg hy]
      have hxy : x = y := by
        rcases List.mem_cons.1 hx with rfl | hx
        · rfl
        · have := h.1 x hx
          omega
      simp [hxy]

theorem bisect_inj (l : List Int) (h : Inc l) (x y : Int) (hx : x ∈ l) (hy : y ∈ l)
    (e : bisectLeft l x = bisectLeft l y) : x = y := by
  have h1 := get_bisect l h x hx
  have h2 := get_bisect l h y hy
  rw [e, h2] at h1
  exact (Option.some.inj h1).symm

/-! ## lookup in parallel lists -/

/-- on a strictly increasing stamp list, looking a member stamp up is indexing at its position -/
theorem lookup_eq_get (ts : List Int) (h : Inc ts) (r : List XVal) (hl : r.length = ts.length)
    (t : Int) (ht : t ∈ ts) : lookupAt ts r t = r[bisectLeft ts t]? := by
  induction ts generalizing r with
  | nil => cases ht
  | cons y l ih =>
    replace h := List.pairwise_cons.1 h
    cases r with
    | nil => simp at hl
    | cons v vs =>
      simp only [List.length_cons, Nat.add_right_cancel_iff] at hl
      simp only [lookupAt, bisectLeft]
      by_cases hy : y = t
      · subst hy
        simp
      · rw [if_neg hy]
        have htl : t ∈ l := by
          rcases List.mem_cons.1 ht with rfl | ht
          · exact absurd rfl hy
          · exact ht
        have hlt : y < t := h.1 t htl
        rw [if_pos hlt]
        simp only [List.getElem?_cons_succ]
        exact ih h.2 vs hl htl

theorem lookup_map_sub (dts : List Int) (x : List XVal) (ref d : Int) :
    lookupAt (dts.map (· - ref)) x (d - ref) = lookupAt dts x d := by
  induction dts generalizing x with
  | nil => cases x <;> rfl
  | cons y l ih =>
    cases x with
    | nil => rfl
    | cons v vs =>
      simp only [List.map_cons, lookupAt]
      by_cases hy : y = d
      · subst hy; simp
      · have : ¬ (y - ref = d - ref) := by omega
        rw [if_neg hy, if_neg this]
        exact ih vs

theorem lookup_map (l : List Int) (v : List XVal) (f : XVal → XVal) (t : Int) :
    lookupAt l (v.map f) t = (lookupAt l v t).map f := by
  induction l generalizing v with
  | nil => cases v <;> rfl
  | cons y l ih =>
    cases v with
    | nil => rfl
    | cons a v =>
      simp only [List.map_cons, lookupAt]
      split
      · rfl
      · exact ih v

/-- looking a stamp up in a common prefix of both lists -/
theorem lookup_take (k : Nat) (a : List Int) (b : List XVal) (t : Int) (h : t ∈ a.take k) :
    lookupAt (a.take k) (b.take k) t = lookupAt a b t := by
  induction a generalizing k b with
  | nil => simp at h
  | cons y l ih =>
    cases k with
    | zero => simp at h
    | succ k =>
      cases b with
      | nil => simp [lookupAt]
      | cons v vs =>
        simp only [List.take_succ_cons, lookupAt]
        by_cases hy : y = t
        · simp [hy]
        · rw [if_neg hy, if_neg hy]
          simp only [List.take_succ_cons, List.mem_cons] at h
          rcases h with rfl | h
          · exact absurd rfl hy
          · exact ih k vs h

theorem inc_take (l : List Int) (h : Inc l) (k : Nat) : Inc (l.take k) :=
  List.Pairwise.sublist (List.take_sublist k l) h

/-- on a strictly increasing list the positions of members are ordered like the members -/
theorem bisect_mono (l : List Int) (h : Inc l) (x y : Int) (hx : x ∈ l) (hy : y ∈ l) (hxy : x ≤ y) :
    bisectLeft l x ≤ bisectLeft l y := by
  by_contra hlt
  have hlt' : bisectLeft l y < bisectLeft l x := Nat.lt_of_not_le hlt
  have hbx := bisect_lt_length l x hx
  have hby := bisect_lt_length l y hy
  have gx := get_bisect l h x hx
  have gy := get_bisect l h y hy
  rw [List.getElem?_eq_getElem hbx] at gx
  rw [List.getElem?_eq_getElem hby] at gy
  have := (List.pairwise_iff_getElem.1 h) _ _ hby hbx hlt'
  rw [Option.some.inj gx, Option.some.inj gy] at this
  omega

/-- looking a later stamp up in the common tail of both lists -/
theorem lookup_drop (l : List Int) (h : Inc l) (v : List XVal) (k : Nat) (t : Int)
    (ht : t ∈ l.drop k) : lookupAt (l.drop k) (v.drop k) t = lookupAt l v t := by
  induction k generalizing l v with
  | zero => rfl
  | succ k ih =>
    cases l with
    | nil => simp at ht
    | cons y l =>
      replace h := List.pairwise_cons.1 h
      simp only [List.drop_succ_cons] at ht ⊢
      cases v with
      | nil =>
        simp only [List.drop_nil]
        cases hl : l.drop k <;> simp [lookupAt]
      | cons a v =>
        simp only [List.drop_succ_cons, lookupAt]
        have hne : y ≠ t := by
          have := h.1 t (List.mem_of_mem_drop ht)
          omega
        rw [if_neg hne]
        exact ih l h.2 v ht

/-! ## the data store -/

theorem sget_sset_same (v : Nat) (x : List XVal) (s : Series) : sget v (sset v x s) = some x := by
  induction s with
  | nil => simp [sset, sget]
  | cons p l ih =>
    obtain ⟨k, y⟩ := p
    simp only [sset]
    by_cases hk : k = v
    · simp [hk, sget]
    · simp [hk, sget, ih]

theorem sget_sset_other (v v' : Nat) (hv : v' ≠ v) (x : List XVal) (s : Series) :
    sget v' (sset v x s) = sget v' s := by
  induction s with
  | nil =>
    simp only [sset, sget]
    rw [if_neg (fun h => hv h.symm)]
  | cons p l ih =>
    obtain ⟨k, y⟩ := p
    simp only [sset]
    by_cases hk : k = v
    · subst hk
      simp only [if_true, sget]
      rw [if_neg (fun h => hv h.symm), if_neg (fun h => hv h.symm)]
    · simp only [hk, if_false, sget]
      rw [ih]

/-! ## scatter -/

theorem scatter_length (ts : List Int) (times : List Int) (vals acc : List XVal) :
    (scatter ts times vals acc).length = acc.length := by
  induction times generalizing vals acc with
  | nil => cases vals <;> rfl
  | cons t times ih =>
    cases vals with
    | nil => rfl
    | cons v vals =>
      simp only [scatter]
      rw [ih, List.length_set]

/-- positions not addressed by any stamp keep their old content -/
theorem scatter_other (ts : List Int) (times : List Int) (vals acc : List XVal) (j : Nat)
    (hj : ∀ t ∈ times, bisectLeft ts t ≠ j) : (scatter ts times vals acc)[j]? = acc[j]? := by
  induction times generalizing vals acc with
  | nil => cases vals <;> rfl
  | cons t times ih =>
    cases vals with
    | nil => rfl
    | cons v vals =>
      simp only [scatter]
      rw [ih _ _ (fun t' ht' => hj t' (List.mem_cons_of_mem _ ht'))]
      rw [List.getElem?_set_ne (hj t (List.mem_cons_self))]

/-- the value of the `i`-th stamp ends up at that stamp's position -/
theorem scatter_at (ts : List Int) (h : Inc ts) (times : List Int) (vals acc : List XVal)
    (hsub : ∀ t ∈ times, t ∈ ts) (hnd : times.Nodup) (hlen : vals.length = times.length)
    (hacc : acc.length = ts.length) (i : Nat) (hi : i < times.length) :
    (scatter ts times vals acc)[bisectLeft ts (times[i])]? = vals[i]? := by
  induction times generalizing vals acc i with
  | nil => simp at hi
  | cons t times ih =>
    cases vals with
    | nil => simp at hlen
    | cons v vals =>
      simp only [List.length_cons, Nat.add_right_cancel_iff] at hlen
      rw [List.nodup_cons] at hnd
      simp only [scatter]
      cases i with
      | zero =>
        simp only [List.getElem_cons_zero, List.getElem?_cons_zero]
        rw [scatter_other ts times vals _ _ (by
          intro t' ht' e
          have := bisect_inj ts h t' t (hsub t' (List.mem_cons_of_mem _ ht')) (hsub t (List.mem_cons_self)) e
          subst this
          exact hnd.1 ht')]
        have hlt : bisectLeft ts t < acc.length := by
          rw [hacc]; exact bisect_lt_length ts t (hsub t (List.mem_cons_self))
        rw [List.getElem?_set_self hlt]
      | succ i =>
        simp only [List.length_cons, Nat.add_lt_add_iff_right] at hi
        simp only [List.getElem_cons_succ, List.getElem?_cons_succ]
        exact ih vals _ (fun t' ht' => hsub t' (List.mem_cons_of_mem _ ht')) hnd.2 hlen
          (by rw [List.length_set]; exact hacc) i hi

theorem inc_nodup (l : List Int) (h : Inc l) : l.Nodup := by
  apply List.Pairwise.imp _ h
  intro a b hab
  omega

theorem inc_map_sub (dts : List Int) (h : Inc dts) (ref : Int) : Inc (dts.map (· - ref)) := by
  rw [Inc, List.pairwise_map]
  apply List.Pairwise.imp _ h
  intro a b hab
  omega

end RtcVerif.C12
