import RtcVerif.Model.C12
import RtcVerif.Proofs.C12Lemmas
/-!
Reference definitions in the shape in which the source of `IOMixin.set_timeseries`,
`PIMixin.write` (time-step detection) and `DataStore.__update_ensemble_size` reads, with the
bridging lemmas to the model functions the C12 theorems are about.  The generated module
`Gen/IoAxis.lean` (harness/translate_c12.py) proves `…Gen = …Ref` by `rfl` and concludes with these.
-/
namespace RtcVerif.C12

theorem horizon_all_mem (ts : List Int) : (horizon ts).all (fun t => ts.contains t) = true := by
  rw [List.all_eq_true]
  intro t ht
  simpa using List.mem_of_mem_drop ht

/-- `IOMixin.set_timeseries` statement by statement -/
def setTsRef (ts : List Int) (arg : Arg) (check : Bool) : Option (List XVal) :=
  match arg with
  | .ts times values =>
    if values.length ≠ times.length then none
    else if ¬ (ts = times) then
      if check = true then
        if ¬ ((times.all (fun t => ts.contains t)) = true) then none
        else
          match times with
          | [] => none
          | t0 :: _ =>
            if (times.all (fun t => ts.contains t)) = true then some (scatter ts times values (nans ts.length))
            else stretch ts.length (bisectLeft ts t0) values
      else
        match times with
        | [] => none
        | t0 :: _ =>
          if (times.all (fun t => ts.contains t)) = true then some (scatter ts times values (nans ts.length))
          else stretch ts.length (bisectLeft ts t0) values
    else some values
  | .arr values =>
    if check = true then
      if (horizon ts).length ≠ values.length then none
      else if ¬ (((horizon ts).all (fun t => ts.contains t)) = true) then none
      else stretch ts.length (bisectLeft ts 0) values
    else stretch ts.length (bisectLeft ts 0) values

theorem setTsRef_eq (ts : List Int) (arg : Arg) (check : Bool) :
    setTsRef ts arg check = setTs ts arg check := by
  cases arg with
  | ts times values =>
    simp only [setTsRef, setTs]
    by_cases h1 : values.length ≠ times.length
    · rw [if_pos h1, if_pos h1]
    · rw [if_neg h1, if_neg h1]
      by_cases h2 : times = ts
      · rw [if_pos h2, if_neg (by rw [h2]; simp)]
      · rw [if_neg h2, if_pos (fun h => h2 h.symm)]
        cases check with
        | false => cases times <;> simp
        | true =>
          by_cases h3 : (times.all (fun t => ts.contains t)) = true
          · cases times <;> simp_all
          · cases times <;> simp_all
  | arr values =>
    simp only [setTsRef, setTs]
    cases check with
    | false => simp
    | true =>
      simp only [horizon_all_mem]
      by_cases h : (horizon ts).length ≠ values.length
      · simp [h]
      · simp [h]

/-- consecutive differences `a[1:] - a[:-1]` -/
def diffs : List Int → List Int
  | a :: b :: l => (b - a) :: diffs (b :: l)
  | _ => []

/-- time step announced by the PI export: the common step when all steps of the horizon are equal
    (`len(set(times[1:] - times[:-1])) == 1`), nonequidistant otherwise -/
def exportDt (hor : List Int) : Option Int :=
  if (diffs hor).eraseDups.length = 1 then some (hor.getD 1 0 - hor.getD 0 0) else none

/-- the per-member stores after `__update_ensemble_size(n)`: fresh empty stores are appended -/
def grow (st : Store) (n : Nat) : Store := st ++ List.replicate (n - st.length) []

theorem ioSet_grow (n : Nat) (st : Store) (m v : Nat) (x : List XVal) :
    ioSet n st m v x = if x.length ≠ n then none else some ((grow st (m + 1)).modify m (sset v x)) := rfl

end RtcVerif.C12
