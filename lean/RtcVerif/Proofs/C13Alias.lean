import RtcVerif.Model.C13
import RtcVerif.Proofs.C13Lemmas
/-!
Alias invariance of the operation machine: replacing the key of an operation by any other name
of the same quantity (and the value argument by its signed image) gives the same dictionary and
the signed image of the output.
-/
namespace RtcVerif.C13
open PyDict

variable {V : Type} [NegVal V]

/-- `k'` names the same quantity as `k`; `s` is their relative sign as a dictionary with flag
    `sv` sees it (always `+` for an unsigned dictionary) -/
def AliasOf (r : Rel) (sv : Bool) (k k' : VName) (s : Sign) : Prop :=
  (r k).1 = (r k').1 ∧ s = (csigned r sv k).2 * (csigned r sv k').2

/-- an output seen through a name of relative sign `s` -/
def Out.sgn (s : Sign) : Out V → Out V
  | .val v => .val (signed s v)
  | o => o

/-- item lists of two `update` arguments that address the same quantities -/
inductive UpdAlias (r : Rel) (sv : Bool) : List (VName × V) → List (VName × V) → Prop where
  | nil : UpdAlias r sv [] []
  | cons {k k' : VName} {s : Sign} {v : V} {l l' : List (VName × V)} :
      AliasOf r sv k k' s → UpdAlias r sv l l' →
      UpdAlias r sv ((k, v) :: l) ((k', signed s v) :: l')

/-- `op'` is `op` addressed through other names of the same quantities; `s` is the sign with
    which its output is seen -/
inductive OpAlias (r : Rel) (sv : Bool) : Op V → Op V → Sign → Prop where
  | refl (op : Op V) : OpAlias r sv op op .pos
  | set {k k' : VName} {s : Sign} (v : V) : AliasOf r sv k k' s →
      OpAlias r sv (.set k v) (.set k' (signed s v)) .pos
  | get {k k' : VName} {s : Sign} : AliasOf r sv k k' s → OpAlias r sv (.get k) (.get k') s
  | del {k k' : VName} {s : Sign} : AliasOf r sv k k' s → OpAlias r sv (.del k) (.del k') .pos
  | contains {k k' : VName} {s : Sign} : AliasOf r sv k k' s →
      OpAlias r sv (.contains k) (.contains k') .pos
  | setdefault {k k' : VName} {s : Sign} (v : V) : AliasOf r sv k k' s →
      OpAlias r sv (.setdefault k v) (.setdefault k' (signed s v)) s
  | getD {k k' : VName} {s : Sign} (v : V) : AliasOf r sv k k' s →
      OpAlias r sv (.getD k v) (.getD k' (signed s v)) s
  | update {l l' : List (VName × V)} : UpdAlias r sv l l' →
      OpAlias r sv (.update l) (.update l') .pos

inductive RunAlias (r : Rel) (sv : Bool) : List (Op V) → List (Op V) → List Sign → Prop where
  | nil : RunAlias r sv [] [] []
  | cons {op op' : Op V} {s : Sign} {ops ops' : List (Op V)} {ss : List Sign} :
      OpAlias r sv op op' s → RunAlias r sv ops ops' ss →
      RunAlias r sv (op :: ops) (op' :: ops') (s :: ss)

theorem AliasOf.fst {r : Rel} {sv : Bool} {k k' : VName} {s : Sign} (h : AliasOf r sv k k' s) :
    (csigned r sv k').1 = (csigned r sv k).1 := by
  unfold csigned; split <;> exact h.1.symm

variable [LawfulNegVal V]

theorem AliasOf.signed_in {r : Rel} {sv : Bool} {k k' : VName} {s : Sign}
    (h : AliasOf r sv k k' s) (v : V) :
    signed (csigned r sv k').2 (signed s v) = signed (csigned r sv k).2 v := by
  rw [h.2, signed_signed]
  generalize (csigned r sv k).2 = a
  generalize (csigned r sv k').2 = b
  cases a <;> cases b <;> rfl

theorem AliasOf.signed_out {r : Rel} {sv : Bool} {k k' : VName} {s : Sign}
    (h : AliasOf r sv k k' s) (w : V) :
    signed (csigned r sv k').2 w = signed s (signed (csigned r sv k).2 w) := by
  rw [h.2, signed_signed]
  generalize (csigned r sv k).2 = a
  generalize (csigned r sv k').2 = b
  cases a <;> cases b <;> rfl

theorem set_alias (r : Rel) (a : ADict V) {k k' : VName} {s : Sign}
    (h : AliasOf r a.signedValues k k' s) (v : V) :
    a.set r k' (signed s v) = a.set r k v := by
  unfold ADict.set
  rw [ok_signed, h.fst, h.signed_in]

theorem get_alias (r : Rel) (a : ADict V) {k k' : VName} {s : Sign}
    (h : AliasOf r a.signedValues k k' s) :
    a.get r k' = (match a.get r k with | .ok v => .ok (signed s v) | .error e => .error e) := by
  unfold ADict.get
  rw [h.fst]
  cases a.d.get (csigned r a.signedValues k).1 with
  | none => rfl
  | some w => simp only [h.signed_out]

omit [NegVal V] [LawfulNegVal V] in
theorem del_alias (r : Rel) (a : ADict V) {k k' : VName} {s : Sign}
    (h : AliasOf r a.signedValues k k' s) : a.del r k' = a.del r k := by
  unfold ADict.del; rw [h.fst]

omit [NegVal V] [LawfulNegVal V] in
theorem contains_alias (r : Rel) (a : ADict V) {k k' : VName} {s : Sign}
    (h : AliasOf r a.signedValues k k' s) : a.contains r k' = a.contains r k := by
  unfold ADict.contains; rw [h.fst]

omit [LawfulNegVal V] in
theorem set_flag (r : Rel) (a a' : ADict V) (k : VName) (v : V) (h : a.set r k v = .ok a') :
    a'.signedValues = a.signedValues := by
  unfold ADict.set at h
  split at h
  · injection h with h; subst h; rfl
  · cases h

omit [NegVal V] [LawfulNegVal V] in
theorem del_flag (r : Rel) (a a' : ADict V) (k : VName) (h : a.del r k = .ok a') :
    a'.signedValues = a.signedValues := by
  unfold ADict.del at h
  split at h
  · injection h with h; subst h; rfl
  · cases h

omit [LawfulNegVal V] in
theorem setdefault_flag (r : Rel) (a a' : ADict V) (k : VName) (v w : V)
    (h : a.setdefault r k v = .ok (a', w)) : a'.signedValues = a.signedValues := by
  unfold ADict.setdefault at h
  split at h
  · cases hg : a.get r k with
    | ok x => rw [hg] at h; injection h with h; injection h with h1 h2; subst h1; rfl
    | error e => rw [hg] at h; cases h
  · cases hs : a.set r k v with
    | ok a2 =>
      rw [hs] at h; injection h with h; injection h with h1 h2; subst h1
      exact set_flag r a _ k v hs
    | error e => rw [hs] at h; cases h

theorem setdefault_alias (r : Rel) (a : ADict V) {k k' : VName} {s : Sign}
    (h : AliasOf r a.signedValues k k' s) (v : V) :
    a.setdefault r k' (signed s v)
      = (match a.setdefault r k v with
         | .ok (a', w) => .ok (a', signed s w)
         | .error e => .error e) := by
  unfold ADict.setdefault
  rw [contains_alias r a h, get_alias r a h, set_alias r a h]
  cases a.contains r k
  · simp only [Bool.false_eq_true, if_false]
    cases a.set r k v <;> rfl
  · simp only [if_true]
    cases a.get r k <;> rfl

theorem getD_alias (r : Rel) (a : ADict V) {k k' : VName} {s : Sign}
    (h : AliasOf r a.signedValues k k' s) (v : V) :
    a.getD r k' (signed s v) = signed s (a.getD r k v) := by
  unfold ADict.getD
  rw [contains_alias r a h, get_alias r a h]
  cases a.contains r k
  · rfl
  · simp only [if_true]
    cases a.get r k <;> rfl

theorem update_alias (r : Rel) {l l' : List (VName × V)} :
    ∀ (a : ADict V), UpdAlias r a.signedValues l l' → a.update r l' = a.update r l := by
  intro a h
  generalize hsv : a.signedValues = sv at h
  induction h generalizing a with
  | nil => rfl
  | cons hk _ ih =>
    subst hsv
    simp only [ADict.update, set_alias r a hk]
    cases hs : a.set r _ _ with
    | ok a' => exact ih a' (set_flag r a a' _ _ hs)
    | error e => rfl

omit [LawfulNegVal V] in
theorem update_flag (r : Rel) (l : List (VName × V)) :
    ∀ a : ADict V, (a.update r l).1.signedValues = a.signedValues := by
  induction l with
  | nil => intro a; rfl
  | cons p rest ih =>
    intro a
    obtain ⟨k, v⟩ := p
    simp only [ADict.update]
    cases hs : a.set r k v with
    | ok a' => simp only; rw [ih a', set_flag r a a' k v hs]
    | error e => rfl

omit [LawfulNegVal V] in
/-- both dictionaries of the machine keep their `signed_values` flag -/
theorem step_flags (r : Rel) (s : St V) (op : Op V) (sv : Bool)
    (hc : s.cur.signedValues = sv) (ha : s.alt.signedValues = sv) :
    (step r s op).1.cur.signedValues = sv ∧ (step r s op).1.alt.signedValues = sv := by
  cases op with
  | set k v =>
    simp only [step]
    cases hs : s.cur.set r k v with
    | ok a' => exact ⟨(set_flag r _ _ k v hs).trans hc, ha⟩
    | error e => exact ⟨hc, ha⟩
  | get k => simp only [step]; cases s.cur.get r k <;> exact ⟨hc, ha⟩
  | del k =>
    simp only [step]
    cases hs : s.cur.del r k with
    | ok a' => exact ⟨(del_flag r _ _ k hs).trans hc, ha⟩
    | error e => exact ⟨hc, ha⟩
  | contains k => exact ⟨hc, ha⟩
  | len => exact ⟨hc, ha⟩
  | keys => exact ⟨hc, ha⟩
  | values => exact ⟨hc, ha⟩
  | items => exact ⟨hc, ha⟩
  | update kvs =>
    have := update_flag r kvs s.cur
    simp only [step]
    cases h : s.cur.update r kvs with
    | mk a e =>
      rw [h] at this
      cases e <;> exact ⟨this.trans hc, ha⟩
  | setdefault k v =>
    simp only [step]
    cases hs : s.cur.setdefault r k v with
    | ok p =>
      obtain ⟨a', w⟩ := p
      exact ⟨(setdefault_flag r _ _ k v w hs).trans hc, ha⟩
    | error e => exact ⟨hc, ha⟩
  | getD k v => exact ⟨hc, ha⟩
  | copy => exact ⟨hc, hc⟩
  | swap => exact ⟨ha, hc⟩

/-- one operation addressed through other names of the same quantities: same successor state,
    output seen with the relative sign -/
theorem step_alias (r : Rel) (s : St V) {op op' : Op V} {sg : Sign}
    (h : OpAlias r s.cur.signedValues op op' sg) :
    step r s op' = ((step r s op).1, Out.sgn sg (step r s op).2) := by
  cases h with
  | refl op =>
    cases h : (step r s op).2 <;> simp [Out.sgn, ← h]
  | set v hk =>
    simp only [step, set_alias r s.cur hk]
    cases s.cur.set r _ v <;> rfl
  | get hk =>
    simp only [step, get_alias r s.cur hk]
    cases s.cur.get r _ <;> rfl
  | del hk =>
    simp only [step, del_alias r s.cur hk]
    cases s.cur.del r _ <;> rfl
  | contains hk =>
    simp only [step, contains_alias r s.cur hk]; rfl
  | setdefault v hk =>
    simp only [step, setdefault_alias r s.cur hk]
    cases s.cur.setdefault r _ v with
    | ok p => obtain ⟨a', w⟩ := p; rfl
    | error e => rfl
  | getD v hk =>
    simp only [step, getD_alias r s.cur hk]; rfl
  | update hl =>
    simp only [step, update_alias r s.cur hl]
    cases h : s.cur.update r _ with
    | mk a e => cases e <;> rfl

end RtcVerif.C13

namespace RtcVerif.C13

variable {V : Type} [NegVal V]

/-- the relation with all signs forgotten -/
def Rel.unsign (r : Rel) : Rel := fun n => ((r n).1, Sign.pos)

theorem csigned_unsign (r : Rel) (k : VName) : csigned r.unsign false k = csigned r false k := rfl

theorem update_unsign (r : Rel) (l : List (VName × V)) :
    ∀ a : ADict V, a.signedValues = false → a.update r.unsign l = a.update r l := by
  induction l with
  | nil => intro a _; rfl
  | cons p rest ih =>
    intro a h
    obtain ⟨k, v⟩ := p
    have e : a.set r.unsign k v = a.set r k v := by simp [ADict.set, h, csigned_unsign]
    simp only [ADict.update, e]
    cases hs : a.set r k v with
    | ok a' => exact ih a' ((set_flag r a a' k v hs).trans h)
    | error e => rfl

/-- an unsigned dictionary does not see the signs of the relation at all -/
theorem step_unsign (r : Rel) (s : St V) (op : Op V) (h : s.cur.signedValues = false) :
    step r.unsign s op = step r s op := by
  cases op with
  | update kvs => simp only [step, update_unsign r kvs s.cur h]
  | _ => simp [step, ADict.set, ADict.get, ADict.del, ADict.contains, ADict.setdefault, ADict.getD, h,
      csigned_unsign]

end RtcVerif.C13
