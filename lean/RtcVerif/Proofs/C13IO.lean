import RtcVerif.Model.C13IO
import RtcVerif.Proofs.C13Lemmas
/-!
C13, data read from files under alias names (`CSVMixin.history`, `IOMixin.history / seed /
constant_inputs`): the reader keeps what it read in an alias-keyed store (`AliasDict`) and then, for
every *listed* (canonical) variable name, copies what the store gives into the result dictionary,
swallowing `KeyError`.  `readListed` is that loop; the lemma says the result read through ANY name
is the store read through that name.
-/
namespace RtcVerif.C13
open PyDict

variable {V : Type} [NegVal V]

theorem get_after_set_same [LawfulNegVal V] (r : Rel) (h : ADict V) (v k : VName) (x : V)
    (hx : ok x = true) (hv : r v = (v, Sign.pos)) (hk : (r k).1 = v) :
    ∃ h1, h.set r v x = .ok h1 ∧ h1.signedValues = h.signedValues ∧
      h1.get r k = .ok (signed (csigned r h.signedValues k).2 x) := by
  refine ⟨{ h with d := h.d.set v x }, ?_, rfl, ?_⟩
  · simp [ADict.set, hx, csigned, hv]
  · have h1 : (csigned r h.signedValues k).1 = v := by unfold csigned; split <;> exact hk
    simp only [ADict.get, h1, get_set_same]

theorem get_after_set_other (r : Rel) (h h1 : ADict V) (v k : VName) (x : V)
    (hset : h.set r v x = .ok h1) (hk : (r k).1 ≠ (r v).1) : h1.get r k = h.get r k := by
  unfold ADict.set at hset
  split at hset
  · injection hset with hset
    subst hset
    have h1 : (csigned r h.signedValues v).1 ≠ (csigned r h.signedValues k).1 := by
      unfold csigned; split <;> exact fun e => hk e.symm
    simp only [ADict.get, get_set_other _ _ _ _ h1]
  · cases hset

/-- reading through `k` what a signed store holds under the canonical name of `k` -/
theorem store_get_of_raw (r : Rel) (store : ADict V) (hs : store.signedValues = true) (k : VName) :
    store.get r k = match store.d.get (r k).1 with
      | some raw => .ok (signed (r k).2 raw)
      | none => .error .keyError := by
  simp only [ADict.get, csigned, hs, if_true]
  cases store.d.get (r k).1 <;> rfl

/-- **The listed-variable reader is alias transparent.**  `vars` are canonical names
    (`r v = (v, +)`), store and result are signed dictionaries, every stored value passes the pair
    test.  Then the loop succeeds and, through ANY name `k`:
    * if the canonical name of `k` is listed and the store holds something for it, the result read
      through `k` is the store read through `k` (so, by `C13_get_set`, sign(k) * sign(column) * the
      column that was stored -- whatever name headed the column);
    * otherwise the result read through `k` is what it was before. -/
theorem readListed_transparent [LawfulNegVal V] (r : Rel) (store : ADict V)
    (hs : store.signedValues = true) (hok : ∀ k x, store.get r k = .ok x → ok x = true)
    (vars : List VName) (hcan : ∀ v ∈ vars, r v = (v, Sign.pos)) :
    ∀ h : ADict V, h.signedValues = true →
      ∃ h', readListed r store h vars = .ok h' ∧ h'.signedValues = true ∧
        (∀ k x, (r k).1 ∈ vars → store.get r k = .ok x → h'.get r k = .ok x) ∧
        (∀ k, ((r k).1 ∉ vars ∨ store.get r k = .error .keyError) → h'.get r k = h.get r k) := by
  induction vars with
  | nil =>
    intro h hh
    refine ⟨h, rfl, hh, ?_, ?_⟩
    · intro k x hk
      cases hk
    · intro k _
      rfl
  | cons v vs ih =>
    intro h hh
    have hv : r v = (v, Sign.pos) := hcan v (List.mem_cons_self ..)
    have ih' := ih (fun w hw => hcan w (List.mem_cons_of_mem _ hw))
    have hsv := store_get_of_raw r store hs v
    rw [hv] at hsv
    cases hraw : store.d.get v with
    | none =>
      rw [hraw] at hsv
      obtain ⟨h', hrun, hsg, hA, hB⟩ := ih' h hh
      refine ⟨h', by simp [readListed, hsv, hrun], hsg, ?_, ?_⟩
      · intro k x hk hx
        rcases List.mem_cons.mp hk with hkv | hkvs
        · have := store_get_of_raw r store hs k
          rw [hkv, hraw] at this
          rw [this] at hx; cases hx
        · exact hA k x hkvs hx
      · intro k hk
        by_cases hkvs : (r k).1 ∈ vs
        · rcases hk with hk | hk
          · exact absurd (List.mem_cons_of_mem _ hkvs) hk
          · exact hB k (Or.inr hk)
        · exact hB k (Or.inl hkvs)
    | some raw =>
      rw [hraw] at hsv
      simp only [signed_pos] at hsv
      have hokraw : ok raw = true := hok v raw hsv
      obtain ⟨h1, hset, hsg1, _⟩ := get_after_set_same r h v v raw hokraw hv (by rw [hv])
      rw [hh] at hsg1
      obtain ⟨h', hrun, hsg, hA, hB⟩ := ih' h1 hsg1
      refine ⟨h', by simp [readListed, hsv, hset, hrun], hsg, ?_, ?_⟩
      · intro k x hk hx
        by_cases hkvs : (r k).1 ∈ vs
        · exact hA k x hkvs hx
        · have hkv : (r k).1 = v := by
            rcases List.mem_cons.mp hk with e | e
            · exact e
            · exact absurd e hkvs
          rw [hB k (Or.inl hkvs)]
          obtain ⟨h1', hset', _, hget⟩ := get_after_set_same r h v k raw hokraw hv hkv
          rw [hset] at hset'
          injection hset' with e
          subst e
          rw [hget]
          have := store_get_of_raw r store hs k
          rw [hkv, hraw] at this
          rw [this] at hx
          simp only [csigned, hh, if_true]
          exact hx
      · intro k hk
        have hne : (r k).1 ≠ (r v).1 := by
          rw [hv]
          intro e
          rcases hk with hk | hk
          · exact hk (e ▸ List.mem_cons_self ..)
          · have := store_get_of_raw r store hs k
            rw [e, hraw] at this
            rw [this] at hk; cases hk
        have hstep := get_after_set_other r h h1 v k raw hset hne
        by_cases hkvs : (r k).1 ∈ vs
        · rcases hk with hk | hk
          · exact absurd (List.mem_cons_of_mem _ hkvs) hk
          · rw [hB k (Or.inr hk), hstep]
        · rw [hB k (Or.inl hkvs), hstep]

end RtcVerif.C13
