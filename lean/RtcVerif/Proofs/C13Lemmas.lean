import RtcVerif.Model.C13
import Mathlib.Data.List.Basic
/-!
Helper lemmas for C13: sign algebra, lawful value types, Python-dict (association list) lemmas.
-/
namespace RtcVerif.C13

/-- value types whose unary minus is an involution and keeps the shape test of `__setitem__` -/
class LawfulNegVal (V : Type) [NegVal V] : Prop where
  neg_neg : ∀ v : V, neg (neg v) = v
  ok_neg : ∀ v : V, ok (neg v) = ok v

namespace Sign
@[simp] theorem pos_mul (s : Sign) : Sign.mul pos s = s := rfl
@[simp] theorem mul_pos (s : Sign) : Sign.mul s pos = s := by cases s <;> rfl
@[simp] theorem mul_self (s : Sign) : Sign.mul s s = pos := by cases s <;> rfl
theorem mul_comm (s t : Sign) : Sign.mul s t = Sign.mul t s := by cases s <;> cases t <;> rfl
theorem mul_assoc (s t u : Sign) : Sign.mul (Sign.mul s t) u = Sign.mul s (Sign.mul t u) := by
  cases s <;> cases t <;> cases u <;> rfl
@[simp] theorem hmul_eq (s t : Sign) : s * t = Sign.mul s t := rfl
end Sign

section signed
variable {V : Type} [NegVal V]

@[simp] theorem signed_pos (v : V) : signed Sign.pos v = v := rfl
@[simp] theorem signed_neg (v : V) : signed Sign.neg v = neg v := rfl

variable [LawfulNegVal V]

theorem signed_signed (s t : Sign) (v : V) : signed t (signed s v) = signed (Sign.mul s t) v := by
  cases s <;> cases t <;> simp [signed, Sign.mul, LawfulNegVal.neg_neg]

@[simp] theorem ok_signed (s : Sign) (v : V) : ok (signed s v) = ok v := by
  cases s <;> simp [signed, LawfulNegVal.ok_neg]

end signed

/-! ### the concrete value types are lawful -/

theorem xneg_xneg (x : XVal) : xneg (xneg x) = x := by
  cases x with
  | nan => rfl
  | e v => cases v <;> simp [xneg, EVal.neg]

theorem Atom.neg_neg (a : Atom) : a.neg.neg = a := by
  cases a with
  | num x => simp [Atom.neg, xneg_xneg]
  | ts t v =>
    simp only [Atom.neg, List.map_map]
    have : (xneg ∘ xneg) = id := by funext x; simp [xneg_xneg]
    rw [this, List.map_id]

theorem Val.neg_neg (v : Val) : v.neg.neg = v := by
  have h : (Atom.neg ∘ Atom.neg) = id := by funext x; simp [Atom.neg_neg]
  have ho : (Option.map Atom.neg ∘ Option.map Atom.neg) = id := by
    funext x; cases x <;> simp [Atom.neg_neg]
  cases v with
  | atom a => simp [Val.neg, Atom.neg_neg]
  | tup xs => simp [Val.neg, List.map_reverse, List.map_map, ho]
  | list xs => simp [Val.neg, List.map_map, h]

instance : LawfulNegVal Val where
  neg_neg := Val.neg_neg
  ok_neg := by
    intro v
    cases v <;> simp [NegVal.neg, NegVal.ok, Val.neg, Val.ok]

instance : LawfulNegVal Rat where
  neg_neg := by intro v; simp [NegVal.neg]
  ok_neg := by intro v; rfl

/-! ### Python dict -/

namespace PyDict
variable {V : Type}

@[simp] theorem get_nil (k : VName) : get ([] : PyDict V) k = none := rfl

theorem get_cons (k' : VName) (v : V) (rest : PyDict V) (k : VName) :
    get ((k', v) :: rest) k = if k' = k then some v else get rest k := rfl

theorem get_set_same (d : PyDict V) (k : VName) (v : V) : get (set d k v) k = some v := by
  induction d with
  | nil => simp [set, get]
  | cons p rest ih =>
    obtain ⟨k', v'⟩ := p
    by_cases h : k' = k
    · simp [set, get, h]
    · simp [set, get, h, ih]

theorem get_set_other (d : PyDict V) (k k2 : VName) (v : V) (hne : k ≠ k2) :
    get (set d k v) k2 = get d k2 := by
  induction d with
  | nil => simp [set, get, hne]
  | cons p rest ih =>
    obtain ⟨k', v'⟩ := p
    by_cases h : k' = k
    · subst h; simp [set, get, hne]
    · simp only [set, h, if_false, get_cons, ih]

theorem get_eq_none_iff (d : PyDict V) (k : VName) : get d k = none ↔ k ∉ keys d := by
  induction d with
  | nil => simp [keys]
  | cons p rest ih =>
    obtain ⟨k', v'⟩ := p
    by_cases h : k' = k
    · subst h; simp [get, keys]
    · have h' : ¬ k = k' := fun e => h e.symm
      simp [get, h, h', keys] at ih ⊢
      exact ih

theorem has_iff (d : PyDict V) (k : VName) : has d k = true ↔ k ∈ keys d := by
  unfold has
  rw [Option.isSome_iff_ne_none, Ne, get_eq_none_iff, not_not]

theorem keys_set (d : PyDict V) (k : VName) (v : V) :
    keys (set d k v) = if has d k then keys d else keys d ++ [k] := by
  induction d with
  | nil => simp [set, keys, has, get]
  | cons p rest ih =>
    obtain ⟨k', v'⟩ := p
    by_cases h : k' = k
    · subst h; simp [set, keys, has, get]
    · have e1 : keys (set ((k', v') :: rest) k v) = k' :: keys (set rest k v) := by
        simp [set, h, keys]
      have e2 : has ((k', v') :: rest) k = has rest k := by simp [has, get, h]
      rw [e1, e2, ih]
      split <;> simp [keys]

theorem keys_del (d : PyDict V) (k : VName) : keys (del d k) = (keys d).erase k := by
  induction d with
  | nil => simp [del, keys]
  | cons p rest ih =>
    obtain ⟨k', v'⟩ := p
    by_cases h : k' = k
    · subst h; simp [del, keys]
    · have : (k' == k) = false := by simp [h]
      simp only [del, h, if_false]
      show k' :: keys (del rest k) = (k' :: keys rest).erase k
      rw [List.erase_cons, this, ih]
      simp

theorem get_del_other (d : PyDict V) (k k2 : VName) (hne : k ≠ k2) :
    get (del d k) k2 = get d k2 := by
  induction d with
  | nil => simp [del]
  | cons p rest ih =>
    obtain ⟨k', v'⟩ := p
    by_cases h : k' = k
    · subst h; simp [del, get, hne]
    · simp only [del, h, if_false, get_cons, ih]

theorem get_del_same (d : PyDict V) (k : VName) (hnd : (keys d).Nodup) : get (del d k) k = none := by
  rw [get_eq_none_iff, keys_del]
  exact fun h => (List.Nodup.mem_erase_iff hnd).1 h |>.1 rfl

theorem nodup_set (d : PyDict V) (k : VName) (v : V) (hnd : (keys d).Nodup) :
    (keys (set d k v)).Nodup := by
  rw [keys_set]
  split
  · exact hnd
  · rename_i h
    have : k ∉ keys d := by rw [← has_iff]; exact h
    refine List.nodup_append.2 ⟨hnd, by simp, ?_⟩
    intro a ha b hb
    simp at hb
    subst hb
    exact fun e => this (e ▸ ha)

theorem nodup_del (d : PyDict V) (k : VName) (hnd : (keys d).Nodup) : (keys (del d k)).Nodup := by
  rw [keys_del]; exact hnd.erase k

theorem length_keys (d : PyDict V) : (keys d).length = d.length := by simp [keys]

/-- a dict with distinct keys is determined by its key order and its lookup function -/
theorem eq_filterMap (d : PyDict V) (hnd : (keys d).Nodup) :
    d = (keys d).filterMap (fun c => (get d c).map (fun v => (c, v))) := by
  induction d with
  | nil => simp [keys]
  | cons p rest ih =>
    obtain ⟨k', v'⟩ := p
    have hnd' : (keys rest).Nodup := (List.nodup_cons.1 hnd).2
    have hk' : k' ∉ keys rest := (List.nodup_cons.1 hnd).1
    have := ih hnd'
    simp only [keys, List.map_cons, List.filterMap_cons, get, if_true, Option.map_some]
    congr 1
    conv_lhs => rw [this]
    apply List.filterMap_congr
    intro c hc
    have : k' ≠ c := fun e => hk' (e ▸ hc)
    simp [this]

end PyDict

end RtcVerif.C13
