import RtcVerif.Model.C13
import RtcVerif.Proofs.C13Lemmas
import RtcVerif.Proofs.C13Alias
import Mathlib.Algebra.Order.Field.Rat
import Mathlib.Tactic.Ring
import Mathlib.Tactic.FieldSimp
/-! Lemmas about the simulation state vector (`get_var` / `set_var`). -/
namespace RtcVerif.C13

theorem sgnMul_mul (a b : Sign) (q : Rat) : sgnMul a (sgnMul b q) = sgnMul (Sign.mul a b) q := by
  cases a <;> cases b <;> simp [sgnMul, Sign.mul]

theorem sgnMul_div (a : Sign) (q n : Rat) : sgnMul a (q / n) = sgnMul a q / n := by
  cases a
  · simp [sgnMul]
  · simp only [sgnMul]; ring

theorem sgnMul_mul_right (a : Sign) (q n : Rat) : sgnMul a q * n = sgnMul a (q * n) := by
  cases a
  · simp [sgnMul]
  · simp only [sgnMul]; ring

/-- in an unsigned dictionary `get(key, default)` does not depend on which alias is used -/
theorem getD_unsigned {V : Type} [NegVal V] (r : Rel) (a : ADict V) (k k' : VName) (d : V)
    (hu : a.signedValues = false) (hc : (r k).1 = (r k').1) : a.getD r k' d = a.getD r k d := by
  unfold ADict.getD ADict.contains ADict.get
  simp only [csigned, hu, Bool.false_eq_true, if_false, hc]

theorem Sim.nominal_alias (r : Rel) (s : Sim) (a b : VName)
    (hu : s.nominals.signedValues = false) (hc : (r a).1 = (r b).1) :
    s.nominal r a = s.nominal r b := by
  unfold Sim.nominal
  exact getD_unsigned r s.nominals b a 1 hu hc.symm

theorem Sim.index_alias (r : Rel) (s : Sim) (a b : VName) (i : Nat) (sb : Sign)
    (hc : (r a).1 = (r b).1) (hb : s.index r b = some (i, sb)) :
    s.index r a = some (i, (r a).2) ∧ sb = (r b).2 := by
  unfold Sim.index at hb ⊢
  rw [hc]
  cases h : s.slot (r b).1 with
  | none => rw [h] at hb; cases hb
  | some j =>
    rw [h] at hb
    simp only [Option.some.injEq, Prod.mk.injEq] at hb
    obtain ⟨h1, h2⟩ := hb
    subst h1
    exact ⟨rfl, h2.symm⟩

end RtcVerif.C13
