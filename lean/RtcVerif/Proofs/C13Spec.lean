import RtcVerif.Model.C13
import RtcVerif.Proofs.C13Lemmas
/-!
The abstract map `canonical name ↦ value` (a mathematical function with an insertion order) that
`AliasDict` is claimed to implement, its operations stated directly on functions, the abstraction
function from the implementation's association list, and the one-step refinement lemma.
-/
namespace RtcVerif.C13
open PyDict

variable {V : Type}

/-- abstract dictionary: a partial function on canonical names plus the order of first insertion -/
structure ASpec (V : Type) where
  signedValues : Bool
  val : VName → Option V
  order : List VName

namespace ASpec

def put (m : ASpec V) (c : VName) (v : V) : ASpec V :=
  { m with
    val := fun x => if x = c then some v else m.val x
    order := if (m.val c).isSome then m.order else m.order ++ [c] }

def remove (m : ASpec V) (c : VName) : ASpec V :=
  { m with
    val := fun x => if x = c then none else m.val x
    order := m.order.erase c }

def items (m : ASpec V) : List (VName × V) :=
  m.order.filterMap (fun c => (m.val c).map (fun v => (c, v)))

variable [NegVal V]

def set (r : Rel) (m : ASpec V) (k : VName) (v : V) : Except Err (ASpec V) :=
  if ok v then
    .ok (m.put (csigned r m.signedValues k).1 (signed (csigned r m.signedValues k).2 v))
  else .error .assertion

def get (r : Rel) (m : ASpec V) (k : VName) : Except Err V :=
  match m.val (csigned r m.signedValues k).1 with
  | some v => .ok (signed (csigned r m.signedValues k).2 v)
  | none => .error .keyError

def del (r : Rel) (m : ASpec V) (k : VName) : Except Err (ASpec V) :=
  if (m.val (csigned r m.signedValues k).1).isSome then
    .ok (m.remove (csigned r m.signedValues k).1)
  else .error .keyError

def contains (r : Rel) (m : ASpec V) (k : VName) : Bool :=
  (m.val (csigned r m.signedValues k).1).isSome

def update (r : Rel) : ASpec V → List (VName × V) → ASpec V × Option Err
  | m, [] => (m, none)
  | m, (k, v) :: rest =>
    match set r m k v with
    | .ok m' => update r m' rest
    | .error e => (m, some e)

/-- `get(key, default)`: the value seen through `key`, else the default -/
def getD (r : Rel) (m : ASpec V) (k : VName) (dflt : V) : V :=
  match m.val (csigned r m.signedValues k).1 with
  | some v => signed (csigned r m.signedValues k).2 v
  | none => dflt

/-- `setdefault`: the value seen through `key` if present; else store the default and return it -/
def setdefault (r : Rel) (m : ASpec V) (k : VName) (dflt : V) : Except Err (ASpec V × V) :=
  match m.val (csigned r m.signedValues k).1 with
  | some v => .ok (m, signed (csigned r m.signedValues k).2 v)
  | none =>
    if ok dflt then
      .ok (m.put (csigned r m.signedValues k).1 (signed (csigned r m.signedValues k).2 dflt), dflt)
    else .error .assertion

end ASpec

structure SpecSt (V : Type) where
  cur : ASpec V
  alt : ASpec V

section
variable [NegVal V]

def specStep (r : Rel) (s : SpecSt V) : Op V → SpecSt V × Out V
  | .set k v =>
    match s.cur.set r k v with
    | .ok a => ({ s with cur := a }, .unit)
    | .error e => (s, .err e)
  | .get k =>
    match s.cur.get r k with
    | .ok v => (s, .val v)
    | .error e => (s, .err e)
  | .del k =>
    match s.cur.del r k with
    | .ok a => ({ s with cur := a }, .unit)
    | .error e => (s, .err e)
  | .contains k => (s, .bool (s.cur.contains r k))
  | .len => (s, .nat s.cur.order.length)
  | .keys => (s, .names s.cur.order)
  | .values => (s, .vals (s.cur.items.map Prod.snd))
  | .items => (s, .items s.cur.items)
  | .update kvs =>
    match s.cur.update r kvs with
    | (a, none) => ({ s with cur := a }, .unit)
    | (a, some e) => ({ s with cur := a }, .err e)
  | .setdefault k v =>
    match s.cur.setdefault r k v with
    | .ok (a, w) => ({ s with cur := a }, .val w)
    | .error e => (s, .err e)
  | .getD k v => (s, .val (s.cur.getD r k v))
  | .copy => ({ s with alt := s.cur }, .items s.cur.items)
  | .swap => (⟨s.alt, s.cur⟩, .unit)

def specRun (r : Rel) : SpecSt V → List (Op V) → SpecSt V × List (Out V)
  | s, [] => (s, [])
  | s, op :: ops =>
    let (s1, o) := specStep r s op
    let (s2, os) := specRun r s1 ops
    (s2, o :: os)

end

/-! ### abstraction -/

/-- the abstract map implemented by an `AliasDict`: lookup function and key order of `__d` -/
def absD (a : ADict V) : ASpec V := ⟨a.signedValues, a.d.get, a.d.keys⟩

def absS (s : St V) : SpecSt V := ⟨absD s.cur, absD s.alt⟩

/-- representation invariant of a Python dict: keys are distinct -/
def WF (a : ADict V) : Prop := (keys a.d).Nodup

theorem absD_put (a : ADict V) (c : VName) (v : V) :
    absD { a with d := a.d.set c v } = (absD a).put c v := by
  simp only [absD, ASpec.put]
  congr 1
  · funext x
    by_cases h : x = c
    · subst h; simp [get_set_same]
    · simp [h, get_set_other _ _ _ _ (fun e => h e.symm)]
  · rw [keys_set]; rfl

theorem absD_remove (a : ADict V) (c : VName) (h : WF a) :
    absD { a with d := a.d.del c } = (absD a).remove c := by
  simp only [absD, ASpec.remove]
  congr 1
  · funext x
    by_cases hx : x = c
    · subst hx; simp [get_del_same _ _ h]
    · simp [hx, get_del_other _ _ _ (fun e => hx e.symm)]
  · rw [keys_del]

theorem absD_items (a : ADict V) (h : WF a) : (absD a).items = a.d := by
  simp only [absD, ASpec.items]
  exact (eq_filterMap a.d h).symm

variable [NegVal V]

theorem set_refines (r : Rel) (a : ADict V) (k : VName) (v : V) :
    (match a.set r k v with | .ok a' => Except.ok (absD a') | .error e => .error e)
      = (absD a).set r k v := by
  unfold ADict.set ASpec.set
  cases h : ok v
  · simp
  · simp only [if_true]
    show Except.ok (absD _) = Except.ok _
    rw [absD_put]; rfl

omit [NegVal V] in
theorem del_refines (r : Rel) (a : ADict V) (k : VName) (h : WF a) :
    (match a.del r k with | .ok a' => Except.ok (absD a') | .error e => .error e)
      = (absD a).del r k := by
  unfold ADict.del ASpec.del
  have e : ((absD a).val (csigned r (absD a).signedValues k).1).isSome
      = a.d.has (csigned r a.signedValues k).1 := rfl
  simp only [e]
  cases hh : a.d.has (csigned r a.signedValues k).1
  · simp
  · simp only [if_true]
    show Except.ok (absD _) = Except.ok _
    rw [absD_remove _ _ h]; rfl

omit [NegVal V] in
theorem del_wf (r : Rel) (a a' : ADict V) (k : VName) (h : WF a)
    (hs : a.del r k = .ok a') : WF a' := by
  unfold ADict.del at hs
  split at hs
  · injection hs with hs; subst hs; exact nodup_del _ _ h
  · cases hs

theorem set_wf (r : Rel) (a a' : ADict V) (k : VName) (v : V) (h : WF a)
    (hs : a.set r k v = .ok a') : WF a' := by
  unfold ADict.set at hs
  split at hs
  · injection hs with hs; subst hs; exact nodup_set _ _ _ h
  · cases hs

theorem setdefault_refines (r : Rel) (a : ADict V) (k : VName) (v : V) :
    (match a.setdefault r k v with | .ok (a', w) => Except.ok (absD a', w) | .error e => .error e)
      = (absD a).setdefault r k v := by
  unfold ADict.setdefault ASpec.setdefault
  have e : (absD a).val (csigned r (absD a).signedValues k).1
      = a.d.get (csigned r a.signedValues k).1 := rfl
  simp only [e]
  cases hg : a.d.get (csigned r a.signedValues k).1 with
  | some w => simp [ADict.contains, has, hg, ADict.get]; rfl
  | none =>
    simp only [ADict.contains, has, hg, Option.isSome_none, Bool.false_eq_true, if_false]
    unfold ADict.set
    cases h : ok v
    · simp
    · simp only [if_true]
      show Except.ok (absD _, v) = Except.ok _
      rw [absD_put]; rfl

theorem setdefault_wf (r : Rel) (a a' : ADict V) (k : VName) (v w : V) (h : WF a)
    (hs : a.setdefault r k v = .ok (a', w)) : WF a' := by
  unfold ADict.setdefault at hs
  split at hs
  · split at hs
    · injection hs with hs; injection hs with h1 h2; subst h1; exact h
    · cases hs
  · cases h2 : a.set r k v with
    | ok a2 =>
      rw [h2] at hs
      injection hs with hs; injection hs with h1 h3; subst h1
      exact set_wf r a _ k v h h2
    | error e => rw [h2] at hs; cases hs

theorem getD_refines (r : Rel) (a : ADict V) (k : VName) (v : V) :
    a.getD r k v = (absD a).getD r k v := by
  unfold ADict.getD ASpec.getD
  have e : (absD a).val (csigned r (absD a).signedValues k).1
      = a.d.get (csigned r a.signedValues k).1 := rfl
  simp only [e]
  cases hg : a.d.get (csigned r a.signedValues k).1 <;> (simp [ADict.contains, has, hg, ADict.get]; try rfl)

theorem update_refines (r : Rel) (kvs : List (VName × V)) : ∀ (a : ADict V), WF a →
    ((a.update r kvs).1 |> absD, (a.update r kvs).2) = (absD a).update r kvs
      ∧ WF (a.update r kvs).1 := by
  induction kvs with
  | nil => intro a h; exact ⟨rfl, h⟩
  | cons p rest ih =>
    intro a h
    obtain ⟨k, v⟩ := p
    have hr := set_refines r a k v
    simp only [ADict.update, ASpec.update]
    cases hs : a.set r k v with
    | ok a' =>
      rw [hs] at hr
      rw [← hr]
      exact ih a' (set_wf r a a' k v h hs)
    | error e =>
      rw [hs] at hr
      rw [← hr]
      exact ⟨rfl, h⟩

/-- one operation on the implementation is the same operation on the abstract map, and the
    representation invariant is kept -/
theorem step_refines (r : Rel) (s : St V) (op : Op V) (hc : WF s.cur) (ha : WF s.alt) :
    specStep r (absS s) op = (absS (step r s op).1, (step r s op).2)
      ∧ WF (step r s op).1.cur ∧ WF (step r s op).1.alt := by
  cases op with
  | set k v =>
    have hr := set_refines r s.cur k v
    simp only [specStep, step, absS]
    cases hs : s.cur.set r k v with
    | ok a' => rw [hs] at hr; rw [← hr]; exact ⟨rfl, set_wf r _ _ k v hc hs, ha⟩
    | error e => rw [hs] at hr; rw [← hr]; exact ⟨rfl, hc, ha⟩
  | get k =>
    simp only [specStep, step, absS, ADict.get, ASpec.get, absD]
    cases s.cur.d.get (csigned r s.cur.signedValues k).1 <;> exact ⟨rfl, hc, ha⟩
  | del k =>
    have hr := del_refines r s.cur k hc
    simp only [specStep, step, absS]
    cases hs : s.cur.del r k with
    | ok a' => rw [hs] at hr; rw [← hr]; exact ⟨rfl, del_wf r _ _ k hc hs, ha⟩
    | error e => rw [hs] at hr; rw [← hr]; exact ⟨rfl, hc, ha⟩
  | contains k => exact ⟨rfl, hc, ha⟩
  | len =>
    simp only [specStep, step, absS, absD, ADict.len, length_keys]
    exact ⟨trivial, hc, ha⟩
  | keys => exact ⟨rfl, hc, ha⟩
  | values =>
    simp only [specStep, step, absS]
    rw [absD_items _ hc]
    exact ⟨rfl, hc, ha⟩
  | items =>
    simp only [specStep, step, absS]
    rw [absD_items _ hc]
    exact ⟨rfl, hc, ha⟩
  | update kvs =>
    obtain ⟨h1, h2⟩ := update_refines r kvs s.cur hc
    simp only [specStep, step, absS]
    rw [← h1]
    cases h : (s.cur.update r kvs) with
    | mk a e =>
      rw [h] at h2
      cases e <;> exact ⟨rfl, h2, ha⟩
  | setdefault k v =>
    have hr := setdefault_refines r s.cur k v
    simp only [specStep, step, absS]
    cases hs : s.cur.setdefault r k v with
    | ok p =>
      obtain ⟨a', w⟩ := p
      rw [hs] at hr; rw [← hr]; exact ⟨rfl, setdefault_wf r _ _ k v w hc hs, ha⟩
    | error e => rw [hs] at hr; rw [← hr]; exact ⟨rfl, hc, ha⟩
  | getD k v =>
    simp only [specStep, step, absS, getD_refines]
    exact ⟨trivial, hc, ha⟩
  | copy =>
    simp only [specStep, step, absS, ADict.copy, ADict.items]
    rw [absD_items _ hc]
    exact ⟨rfl, hc, hc⟩
  | swap => exact ⟨rfl, ha, hc⟩

end RtcVerif.C13

namespace RtcVerif.C13
open PyDict

variable {V : Type} [NegVal V]

/-- an invariant of single steps is an invariant of runs -/
theorem run_invariant (r : Rel) (P : St V → Prop) (hstep : ∀ s op, P s → P (step r s op).1) :
    ∀ (ops : List (Op V)) (s : St V), P s → P (run r s ops).1 := by
  intro ops
  induction ops with
  | nil => intro s h; exact h
  | cons op ops ih =>
    intro s h
    simp only [run]
    exact ih _ (hstep s op h)

omit [NegVal V] in
theorem PyDict.get_of_mem (d : PyDict V) (hnd : (keys d).Nodup) (c : VName) (v : V)
    (hm : (c, v) ∈ d) : get d c = some v := by
  induction d with
  | nil => cases hm
  | cons p rest ih =>
    obtain ⟨k', v'⟩ := p
    have hnd' : (keys rest).Nodup := (List.nodup_cons.1 hnd).2
    have hk' : k' ∉ keys rest := (List.nodup_cons.1 hnd).1
    rcases List.mem_cons.1 hm with h | h
    · injection h with h1 h2; subst h1; subst h2; simp [get]
    · have : k' ≠ c := by
        intro e; subst e
        exact hk' (List.mem_map.2 ⟨(k', v), h, rfl⟩)
      simp [get, this, ih hnd' h]

/-- every key of the private dict is a canonical name (its own canonical, sign `+`) -/
def Canon (r : Rel) (a : ADict V) : Prop := ∀ c ∈ keys a.d, r c = (c, Sign.pos)

theorem set_canon (r : Rel) (hr : r.Idem) (a a' : ADict V) (k : VName) (v : V) (h : Canon r a)
    (hs : a.set r k v = .ok a') : Canon r a' := by
  unfold ADict.set at hs
  split at hs
  · injection hs with hs; subst hs
    intro c hc
    simp only [keys_set] at hc
    split at hc
    · exact h c hc
    · rcases List.mem_append.1 hc with h1 | h1
      · exact h c h1
      · simp only [List.mem_singleton] at h1
        subst h1
        unfold csigned
        split <;> exact hr k
  · cases hs

omit [NegVal V] in
theorem del_canon (r : Rel) (a a' : ADict V) (k : VName) (h : Canon r a)
    (hs : a.del r k = .ok a') : Canon r a' := by
  unfold ADict.del at hs
  split at hs
  · injection hs with hs; subst hs
    intro c hc
    simp only [keys_del] at hc
    exact h c (List.mem_of_mem_erase hc)
  · cases hs

theorem update_canon (r : Rel) (hr : r.Idem) (l : List (VName × V)) :
    ∀ a : ADict V, Canon r a → Canon r (a.update r l).1 := by
  induction l with
  | nil => intro a h; exact h
  | cons p rest ih =>
    intro a h
    obtain ⟨k, v⟩ := p
    simp only [ADict.update]
    cases hs : a.set r k v with
    | ok a' => exact ih a' (set_canon r hr a a' k v h hs)
    | error e => exact h

theorem step_canon (r : Rel) (hr : r.Idem) (s : St V) (op : Op V)
    (h : Canon r s.cur ∧ Canon r s.alt) :
    Canon r (step r s op).1.cur ∧ Canon r (step r s op).1.alt := by
  obtain ⟨hc, ha⟩ := h
  cases op with
  | set k v =>
    simp only [step]
    cases hs : s.cur.set r k v with
    | ok a' => exact ⟨set_canon r hr _ _ k v hc hs, ha⟩
    | error e => exact ⟨hc, ha⟩
  | get k => simp only [step]; cases s.cur.get r k <;> exact ⟨hc, ha⟩
  | del k =>
    simp only [step]
    cases hs : s.cur.del r k with
    | ok a' => exact ⟨del_canon r _ _ k hc hs, ha⟩
    | error e => exact ⟨hc, ha⟩
  | contains k => exact ⟨hc, ha⟩
  | len => exact ⟨hc, ha⟩
  | keys => exact ⟨hc, ha⟩
  | values => exact ⟨hc, ha⟩
  | items => exact ⟨hc, ha⟩
  | update kvs =>
    have := update_canon r hr kvs s.cur hc
    simp only [step]
    cases h : s.cur.update r kvs with
    | mk a e =>
      rw [h] at this
      cases e <;> exact ⟨this, ha⟩
  | setdefault k v =>
    simp only [step, ADict.setdefault]
    split
    · rename_i heq
      split at heq
      · cases hg : s.cur.get r k with
        | ok x => rw [hg] at heq; injection heq with heq; injection heq with h1 h2; subst h1; exact ⟨hc, ha⟩
        | error e => rw [hg] at heq; cases heq
      · cases hs : s.cur.set r k v with
        | ok a2 =>
          rw [hs] at heq; injection heq with heq; injection heq with h1 h2; subst h1
          exact ⟨set_canon r hr _ _ k v hc hs, ha⟩
        | error e => rw [hs] at heq; cases heq
    · exact ⟨hc, ha⟩
  | getD k v => exact ⟨hc, ha⟩
  | copy => exact ⟨hc, hc⟩
  | swap => exact ⟨ha, hc⟩

end RtcVerif.C13
