import RtcVerif.Model.C14
import RtcVerif.Proofs.NumOrder
import Mathlib.Order.Lattice
import Mathlib.Data.List.Nodup
/-! Helper lemmas for C14. -/
namespace RtcVerif.C14
open RtcVerif

theorem eabs_nonneg (x : EVal) : EVal.fin 0 ≤ eabs x := by
  cases x with
  | ninf => decide
  | pinf => decide
  | fin q =>
    simp only [eabs, EVal.le_fin_fin]
    split
    · rename_i h; exact le_of_lt (by simpa using neg_pos.2 h)
    · rename_i h; exact not_lt.1 h

/-- the accumulation loop of `__init__` (append the name when the role test holds) is a filter -/
theorem foldl_collect (r : InputRec → Role) (tag : Role) (l : List InputRec) (acc : List String) :
    l.foldl (fun acc i => if r i = tag then acc ++ [i.name] else acc) acc
      = acc ++ (l.filter (fun i => r i = tag)).map (·.name) := by
  induction l generalizing acc with
  | nil => simp
  | cons a t ih =>
    simp only [List.foldl_cons, ih]
    by_cases h : r a = tag <;> simp [h]

theorem mem_roleListOf {r : Role} {inputs : List InputRec} {n : String} :
    n ∈ roleListOf r inputs ↔ ∃ i ∈ inputs, i.role = r ∧ i.name = n := by
  simp [roleListOf, List.mem_map, List.mem_filter, and_assoc]

/-- with pairwise distinct input names a name is listed as often as it has the role: 0 or 1 times -/
theorem count_roleListOf (r : Role) (inputs : List InputRec) (hnd : (inputs.map (·.name)).Nodup)
    (i : InputRec) (hi : i ∈ inputs) :
    (roleListOf r inputs).count i.name = if i.role = r then 1 else 0 := by
  induction inputs with
  | nil => cases hi
  | cons a t ih =>
    simp only [List.map_cons, List.nodup_cons, List.mem_map, not_exists, not_and] at hnd
    obtain ⟨hna, hnt⟩ := hnd
    have hnot : ∀ r', (roleListOf r' t).count a.name = 0 := by
      intro r'
      rw [List.count_eq_zero]
      intro hm
      obtain ⟨j, hj, _, hjn⟩ := mem_roleListOf.1 hm
      exact hna j hj hjn
    rcases List.mem_cons.1 hi with rfl | hit
    · by_cases h : i.role = r
      · simp [roleListOf, h] at hnot ⊢
        simpa [roleListOf] using hnot r
      · simp [roleListOf, h] at hnot ⊢
        simpa [roleListOf] using hnot r
    · have hne : a.name ≠ i.name := fun e => hna i hit e.symm
      have := ih hnt hit
      by_cases h : a.role = r
      · simp only [roleListOf, List.filter_cons, h, decide_true, if_true, List.map_cons] at this ⊢
        rw [List.count_cons_of_ne hne]; exact this
      · simp only [roleListOf, List.filter_cons, h, decide_false, Bool.false_eq_true, if_false] at this ⊢
        exact this

end RtcVerif.C14

namespace RtcVerif.EVal

theorem max_comm' (a b : EVal) : EVal.max a b = EVal.max b a := by
  rw [EVal.max_eq, EVal.max_eq]; exact _root_.max_comm a b

theorem min_comm' (a b : EVal) : EVal.min a b = EVal.min b a := by
  rw [EVal.min_eq, EVal.min_eq]; exact _root_.min_comm a b

end RtcVerif.EVal
