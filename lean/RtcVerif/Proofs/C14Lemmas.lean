import RtcVerif.Model.C14
import RtcVerif.Proofs.NumOrder
import Mathlib.Order.Lattice
/-! Helper lemmas for C14. -/
namespace RtcVerif.C14
open RtcVerif

theorem eabs_nonneg (x : EVal) : EVal.fin 0 ≤ eabs x := by
  cases x with
  | ninf => decide
  | pinf => decide
  | fin q =>
    simp only [eabs, EVal.le_fin_fin]
    split
    · rename_i h; exact le_of_lt (by simpa using neg_pos.2 h)
    · rename_i h; exact not_lt.1 h


end RtcVerif.C14

namespace RtcVerif.EVal

theorem max_comm' (a b : EVal) : EVal.max a b = EVal.max b a := by
  rw [EVal.max_eq, EVal.max_eq]; exact _root_.max_comm a b

theorem min_comm' (a b : EVal) : EVal.min a b = EVal.min b a := by
  rw [EVal.min_eq, EVal.min_eq]; exact _root_.min_comm a b

end RtcVerif.EVal
