import RtcVerif.Model.C15
import RtcVerif.Proofs.InterpLemmas
import Mathlib.Algebra.Order.Field.Rat
import Mathlib.Algebra.Order.Field.Basic
import Mathlib.Tactic.Linarith
import Mathlib.Tactic.FieldSimp
import Mathlib.Tactic.Ring
/-! Helper lemmas for the C15 model: the interpolants are homogeneous in the knot values (so
that scaling by the nominal and the alias sign commute with interpolation), the interpolants are
finite, list facts about windows and the trapezoid rule. -/
namespace RtcVerif.C15
open RtcVerif RtcVerif.Interp

/-! ### `Res` -/

@[simp] theorem Res.scale_num (c q : Rat) : (Res.num q).scale c = .num (c * q) := rfl
@[simp] theorem Res.scale_nan (c : Rat) : Res.nan.scale c = .nan := rfl
@[simp] theorem Res.scale_raise (c : Rat) : Res.raise.scale c = .raise := rfl
@[simp] theorem Res.neg_num (q : Rat) : (Res.num q).neg = .num (-q) := rfl
@[simp] theorem Res.divBy_num (c q : Rat) : (Res.num q).divBy c = .num (q / c) := rfl

theorem Res.neg_eq_scale (r : Res) : r.neg = r.scale (-1) := by
  cases r <;> simp [Res.neg, Res.scale, Res.map]

theorem Res.scale_scale (a b : Rat) (r : Res) : (r.scale a).scale b = r.scale (b * a) := by
  cases r <;> simp [Res.scale, Res.map, mul_assoc]

theorem Res.scale_one (r : Res) : r.scale 1 = r := by
  cases r <;> simp [Res.scale, Res.map]

theorem applySign_eq_scale (neg : Bool) (r : Res) : applySign neg r = r.scale (sgn neg) := by
  cases neg
  · simp [applySign, sgn, Res.scale_one]
  · simp [applySign, sgn, Res.neg_eq_scale]

/-! ### scaling of knots, fills and interpolation results -/

/-- scale an interpolation result (finite values only; NaN and exceptions are kept) -/
def scaleX (c : Rat) : XVal → XVal
  | .e (EVal.fin q) => XVal.fin (c * q)
  | x => x

def scaleFill (c : Rat) : Fill → Fill := Option.map (scaleX c)

theorem ofOut_val_scaleX (c : Rat) (x : XVal) :
    ofOut (.val (scaleX c x)) = (ofOut (.val x)).scale c := by
  cases x with
  | nan => rfl
  | e v => cases v <;> rfl

theorem ofOut_fillOut_scale (c : Rat) (f : Fill) :
    ofOut (fillOut (scaleFill c f)) = (ofOut (fillOut f)).scale c := by
  cases f with
  | none => rfl
  | some x => exact ofOut_val_scaleX c x

@[simp] theorem scaleFill_finFill (c q : Rat) : scaleFill c (finFill q) = finFill (c * q) := rfl
@[simp] theorem scaleFill_nanFill (c : Rat) : scaleFill c nanFill = nanFill := rfl

@[simp] theorem ofOut_fin (q : Rat) : ofOut (.val (XVal.fin q)) = .num q := rfl

theorem scaleKnots_cons (c : Rat) (a : Rat × Rat) (l : Knots) :
    scaleKnots c (a :: l) = (a.1, c * a.2) :: scaleKnots c l := rfl

theorem firstVal_scaleKnots (c : Rat) (ks : Knots) : firstVal (scaleKnots c ks) = c * firstVal ks := by
  cases ks with
  | nil => simp [firstVal, scaleKnots]
  | cons a l => simp [firstVal, scaleKnots]

theorem lastTime_scaleKnots (c : Rat) (ks : Knots) : lastTime (scaleKnots c ks) = lastTime ks := by
  induction ks with
  | nil => rfl
  | cons a l ih =>
    cases l with
    | nil => simp [lastTime, scaleKnots]
    | cons b l =>
      rw [scaleKnots_cons, scaleKnots_cons, lastTime_cons_cons, lastTime_cons_cons,
        ← scaleKnots_cons]
      exact ih

theorem lastVal_scaleKnots (c : Rat) (ks : Knots) : lastVal (scaleKnots c ks) = c * lastVal ks := by
  induction ks with
  | nil => simp [lastVal, scaleKnots]
  | cons a l ih =>
    cases l with
    | nil => simp [lastVal, scaleKnots]
    | cons b l =>
      rw [scaleKnots_cons, scaleKnots_cons, lastVal_cons_cons, lastVal_cons_cons,
        ← scaleKnots_cons]
      exact ih

theorem linFrom_scale (c : Rat) (ks : Knots) (r r' : Out) (t : Rat)
    (hr : ofOut r' = (ofOut r).scale c) :
    ofOut (linFrom (scaleKnots c ks) r' t) = (ofOut (linFrom ks r t)).scale c := by
  induction ks with
  | nil => simpa [scaleKnots, linFrom] using hr
  | cons a l ih =>
    obtain ⟨t0, f0⟩ := a
    cases l with
    | nil =>
      simp only [scaleKnots, List.map_cons, List.map_nil, linFrom]
      by_cases h : t0 < t
      · simpa [h] using hr
      · simp [h]
    | cons b l =>
      obtain ⟨t1, f1⟩ := b
      by_cases h : t < t1
      · simp only [scaleKnots, List.map_cons, linFrom, h, if_true, ofOut_fin, Res.scale_num]
        congr 1
        ring
      · have := ih
        simp only [scaleKnots, List.map_cons] at this ⊢
        rw [linFrom_step _ _ _ _ _ _ _ h, linFrom_step _ _ _ _ _ _ _ h]
        exact this

theorem prevFrom_scale (c : Rat) (ks : Knots) (cur t : Rat) :
    prevFrom (scaleKnots c ks) (c * cur) t = c * prevFrom ks cur t := by
  induction ks generalizing cur with
  | nil => rfl
  | cons a l ih =>
    obtain ⟨t0, f0⟩ := a
    simp only [scaleKnots, List.map_cons, prevFrom]
    by_cases h : t0 ≤ t
    · simp only [h, if_true]
      exact ih f0
    · simp [h]

theorem nextFrom_scale (c : Rat) (ks : Knots) (last t : Rat) :
    nextFrom (scaleKnots c ks) (c * last) t = c * nextFrom ks last t := by
  induction ks generalizing last with
  | nil => rfl
  | cons a l ih =>
    obtain ⟨t0, f0⟩ := a
    simp only [scaleKnots, List.map_cons, nextFrom]
    by_cases h : t ≤ t0
    · simp [h]
    · simp only [h, if_false]
      exact ih f0

/-- **the interpolant is homogeneous in the values**: scaling the knot values and the fills
    scales the result (all three modes; exceptions and NaN are preserved) -/
theorem interpCore_scale (c : Rat) (mode : Nat) (ks : Knots) (fl fr : Fill) (t : Rat) :
    ofOut (interpCore mode (scaleKnots c ks) (scaleFill c fl) (scaleFill c fr) t)
      = (ofOut (interpCore mode ks fl fr t)).scale c := by
  cases ks with
  | nil => rfl
  | cons a l =>
    obtain ⟨t0, f0⟩ := a
    have hlt : lastTime (scaleKnots c ((t0, f0) :: l)) = lastTime ((t0, f0) :: l) :=
      lastTime_scaleKnots c _
    rw [scaleKnots_cons] at hlt ⊢
    simp only [interpCore, hlt]
    by_cases h1 : t < t0
    · simp only [h1, if_true]
      by_cases hm : mode ≤ 2
      · simpa [hm] using ofOut_fillOut_scale c fl
      · simp [hm, ofOut]
    · simp only [h1, if_false]
      by_cases h2 : lastTime ((t0, f0) :: l) < t
      · simp only [h2, if_true]
        by_cases hm : mode ≤ 2
        · simpa [hm] using ofOut_fillOut_scale c fr
        · simp [hm, ofOut]
      · simp only [h2, if_false]
        match mode with
        | 0 =>
          have := linFrom_scale c ((t0, f0) :: l) (fillOut fr) (fillOut (scaleFill c fr)) t
            (ofOut_fillOut_scale c fr)
          simpa [scaleKnots_cons] using this
        | 1 =>
          show ofOut (.val (XVal.fin (prevFrom (scaleKnots c l) (c * f0) t))) = _
          rw [prevFrom_scale]; rfl
        | 2 =>
          have he : (t0, c * f0) :: scaleKnots c l = scaleKnots c ((t0, f0) :: l) := rfl
          show ofOut (.val (XVal.fin (nextFrom ((t0, c * f0) :: scaleKnots c l) _ t))) = _
          rw [he, lastVal_scaleKnots, nextFrom_scale]; rfl
        | _ + 3 => rfl

theorem interpSym_scale (c : Rat) (mode : Nat) (ks : Knots) (t : Rat) :
    ofOut (interpSym mode (scaleKnots c ks) t) = (ofOut (interpSym mode ks t)).scale c := by
  unfold interpSym
  rw [firstVal_scaleKnots, lastVal_scaleKnots]
  exact interpCore_scale c mode ks (some (XVal.fin (firstVal ks))) (some (XVal.fin (lastVal ks))) t

theorem interpScalar_scale (c : Rat) (mode : Nat) (ks : Knots) (fl fr : Fill) (t : Rat) :
    ofOut (interpScalar mode (scaleKnots c ks) (scaleFill c fl) (scaleFill c fr) t)
      = (ofOut (interpScalar mode ks fl fr t)).scale c := by
  cases ks with
  | nil => rfl
  | cons a l =>
    obtain ⟨t0, f0⟩ := a
    rw [scaleKnots_cons]
    simp only [interpScalar]
    by_cases h : t0 = t
    · simp [h]
    · simp only [h, if_false]
      exact interpCore_scale c mode ((t0, f0) :: l) fl fr t

theorem zip_map_scale (c : Rat) (ts xs : List Rat) :
    ts.zip (xs.map (c * ·)) = scaleKnots c (ts.zip xs) := by
  induction ts generalizing xs with
  | nil => simp [scaleKnots]
  | cons t ts ih =>
    cases xs with
    | nil => simp [scaleKnots]
    | cons x xs => simp [scaleKnots_cons, ih]

theorem negKnots_eq_scale (ks : Knots) : negKnots ks = scaleKnots (-1) ks := by
  simp [negKnots, scaleKnots]

theorem scaleKnots_scaleKnots (a b : Rat) (ks : Knots) :
    scaleKnots a (scaleKnots b ks) = scaleKnots (a * b) ks := by
  simp [scaleKnots, mul_assoc]

theorem scaleKnots_times (c : Rat) (ks : Knots) : (scaleKnots c ks).map (·.1) = ks.map (·.1) := by
  simp [scaleKnots]

theorem sorted_scaleKnots (c : Rat) (ks : Knots) (h : Sorted ks) : Sorted (scaleKnots c ks) := by
  induction ks with
  | nil => trivial
  | cons a l ih =>
    cases l with
    | nil => trivial
    | cons b l =>
      exact ⟨h.1, ih h.2⟩

/-! ### decoded results -/

theorem resultKnots_eq_scale (v : SVar) (neg : Bool) :
    v.resultKnots neg = scaleKnots (sgn neg * v.nominal) v.knots := by
  unfold SVar.resultKnots SVar.signedResults SVar.results SVar.knots
  rw [List.map_map, ← zip_map_scale]
  congr 1
  apply List.map_congr_left
  intro x _
  simp [mul_assoc]

theorem sgn_mul_self (neg : Bool) : sgn neg * sgn neg = 1 := by cases neg <;> simp [sgn]
theorem sgn_ne_zero (neg : Bool) : sgn neg ≠ 0 := by cases neg <;> simp [sgn]

theorem knots_times (v : SVar) (hlen : v.times.length = v.xs.length) :
    v.knots.map (·.1) = v.times := by
  unfold SVar.knots
  rw [List.map_fst_zip]
  omega

theorem resultKnots_times (v : SVar) (neg : Bool) (hlen : v.times.length = v.xs.length) :
    (v.resultKnots neg).map (·.1) = v.times := by
  rw [resultKnots_eq_scale, scaleKnots_times, knots_times v hlen]

theorem sorted_resultKnots (v : SVar) (neg : Bool) (hs : Sorted v.knots) :
    Sorted (v.resultKnots neg) := by
  rw [resultKnots_eq_scale]; exact sorted_scaleKnots _ _ hs

theorem firstTime_eq (ks : Knots) : firstTime ks = ((ks.map (·.1)).head?).getD 0 := by
  cases ks <;> simp [firstTime]

theorem lastTime_eq (ks : Knots) : lastTime ks = ((ks.map (·.1)).getLast?).getD 0 := by
  simp [lastTime, List.getLast?_map]

theorem signedHist_eq_scale (neg : Bool) (h : Knots) : signedHist neg h = scaleKnots (sgn neg) h := by
  cases neg
  · simp [signedHist, sgn, scaleKnots]
  · simp [signedHist, sgn, negKnots_eq_scale]

/-! ### `der_at`: locating the interval -/

theorem findSeg_cons_skip (a b : Rat) (rest : List Rat) (t : Rat) (h : ¬ (a < t ∧ t ≤ b)) :
    findSeg (a :: b :: rest) t = findSeg (b :: rest) t := by
  rw [findSeg]; simp only [h, if_false]

theorem findSeg_spec (pre post : List Rat) (a b t : Rat)
    (hs : (pre ++ a :: b :: post).Pairwise (· < ·)) (h1 : a < t) (h2 : t ≤ b) :
    findSeg (pre ++ a :: b :: post) t = some (a, b) := by
  induction pre with
  | nil => simp [findSeg, h1, h2]
  | cons p pre ih =>
    have hs' : (pre ++ a :: b :: post).Pairwise (· < ·) := (List.pairwise_cons.1 hs).2
    have hpa : ∀ x ∈ pre ++ a :: b :: post, p < x := (List.pairwise_cons.1 hs).1
    cases pre with
    | nil =>
      have : ¬ (p < t ∧ t ≤ a) := fun h => absurd h.2 (not_le.2 h1)
      simp only [List.cons_append, List.nil_append]
      rw [findSeg_cons_skip _ _ _ _ this]
      exact ih hs'
    | cons q pre =>
      have hqa : q < a := by
        have := (List.pairwise_cons.1 hs').1 a (by simp)
        exact this
      have : ¬ (p < t ∧ t ≤ q) := fun h => absurd (lt_of_le_of_lt h.2 hqa) (not_lt.2 (le_of_lt h1))
      simp only [List.cons_append]
      rw [findSeg_cons_skip _ _ _ _ this]
      exact ih hs'

theorem findSeg_none_of_le_head (h0 : Rat) (rest : List Rat) (t : Rat)
    (hs : (h0 :: rest).Pairwise (· < ·)) (h : t ≤ h0) : findSeg (h0 :: rest) t = none := by
  induction rest generalizing h0 with
  | nil => simp [findSeg]
  | cons b rest ih =>
    have hb : h0 < b := (List.pairwise_cons.1 hs).1 b (by simp)
    have : ¬ (h0 < t ∧ t ≤ b) := fun hh => absurd hh.1 (not_lt.2 h)
    rw [findSeg_cons_skip _ _ _ _ this]
    exact ih b (List.pairwise_cons.1 hs).2 (le_trans h (le_of_lt hb))

theorem findSeg_none_of_last_lt (l : List Rat) (t : Rat) (h : ∀ x ∈ l, x < t) :
    findSeg l t = none := by
  induction l with
  | nil => simp [findSeg]
  | cons a l ih =>
    cases l with
    | nil => simp [findSeg]
    | cons b l =>
      have : ¬ (a < t ∧ t ≤ b) := fun hh => absurd hh.2 (not_le.2 (h b (by simp)))
      rw [findSeg_cons_skip _ _ _ _ this]
      exact ih (fun x hx => h x (by simp [hx]))

theorem sorted_pairwise (ks : Knots) (hs : Sorted ks) : (ks.map (·.1)).Pairwise (· < ·) := by
  induction ks with
  | nil => simp
  | cons a l ih =>
    rw [List.map_cons, List.pairwise_cons]
    refine ⟨?_, ih (Sorted.tail hs)⟩
    intro x hx
    obtain ⟨k, hk, rfl⟩ := List.mem_map.1 hx
    exact Sorted.head_lt hs k hk

/-! ### `states_in` helpers -/

theorem state_eq_resultKnots (v : SVar) (neg : Bool) :
    v.times.zip (v.xs.map (fun x => x * v.nominal * sgn neg)) = v.resultKnots neg := by
  unfold SVar.resultKnots SVar.signedResults SVar.results
  rw [List.map_map]
  congr 1
  apply List.map_congr_left
  intro x _
  simp only [Function.comp]
  ring

theorem endKnot_spec (p : Prob) (name : String) (inner : Knots) (t : Rat) (x : Knots)
    (h : endKnot p name inner t = some x) : EndOK p name inner t x := by
  unfold endKnot at h
  by_cases hh : hasTime inner t = true
  · simp only [hh, if_true, Option.some.injEq] at h
    exact Or.inl ⟨hh, h.symm⟩
  · have hf : hasTime inner t = false := by simpa using hh
    rw [hf] at h
    simp only [Bool.false_eq_true, if_false] at h
    right
    refine ⟨hf, ?_⟩
    unfold endPoint at h
    cases hs : stateAt p name t false true with
    | num q =>
      rw [hs] at h
      simp only [Res.toRat?, Option.map_some, Option.some.injEq] at h
      exact ⟨q, rfl, h.symm⟩
    | nan => rw [hs] at h; simp [Res.toRat?] at h
    | raise => rw [hs] at h; simp [Res.toRat?] at h

theorem mem_inWindow (a b : Rat) (ks : Knots) (k : Rat × Rat) :
    k ∈ inWindow a b ks ↔ k ∈ ks ∧ a ≤ k.1 ∧ k.1 ≤ b := by
  simp [inWindow, List.mem_filter]

theorem signedHist_dropLast_mem (neg : Bool) (h : Knots) (k : Rat × Rat)
    (hk : k ∈ (if neg then negKnots h.dropLast else h.dropLast)) : k ∈ signedHist neg h := by
  cases neg
  · simp only [Bool.false_eq_true, if_false] at hk
    simpa [signedHist] using List.dropLast_subset _ hk
  · simp only [if_true] at hk
    simp only [signedHist, if_true]
    unfold negKnots at hk ⊢
    obtain ⟨k', hk', rfl⟩ := List.mem_map.1 hk
    exact List.mem_map.2 ⟨k', List.dropLast_subset _ hk', rfl⟩

theorem signedHist_dropLast_time (neg : Bool) (h : Knots) (k : Rat × Rat)
    (hk : k ∈ (if neg then negKnots h.dropLast else h.dropLast)) : ∃ k' ∈ h.dropLast, k'.1 = k.1 := by
  cases neg
  · simp only [Bool.false_eq_true, if_false] at hk
    exact ⟨k, hk, rfl⟩
  · simp only [if_true] at hk
    unfold negKnots at hk
    obtain ⟨k', hk', rfl⟩ := List.mem_map.1 hk
    exact ⟨k', hk', rfl⟩

theorem results_getD (v : SVar) (i : Nat) : v.results.getD i 0 = v.nominal * v.xs.getD i 0 := by
  unfold SVar.results
  simp only [List.getD_eq_getElem?_getD, List.getElem?_map]
  cases v.xs[i]? <;> simp

/-! ### windows and end points (additivity of `integral`) -/

theorem inWindow_cons (a b : Rat) (k : Rat × Rat) (K : Knots) :
    inWindow a b (k :: K) = if a ≤ k.1 ∧ k.1 ≤ b then k :: inWindow a b K else inWindow a b K := by
  unfold inWindow
  rw [List.filter_cons]
  by_cases h : a ≤ k.1 ∧ k.1 ≤ b <;> simp [h]

theorem inWindow_append (a b : Rat) (K L : Knots) :
    inWindow a b (K ++ L) = inWindow a b K ++ inWindow a b L := by
  simp [inWindow]

theorem inWindow_eq_nil_of_gt (a b : Rat) (K : Knots) (h : ∀ k ∈ K, b < k.1) : inWindow a b K = [] := by
  unfold inWindow
  rw [List.filter_eq_nil_iff]
  intro k hk
  have := h k hk
  simp [not_le.2 this]

theorem inWindow_eq_nil_of_lt (a b : Rat) (K : Knots) (h : ∀ k ∈ K, k.1 < a) : inWindow a b K = [] := by
  unfold inWindow
  rw [List.filter_eq_nil_iff]
  intro k hk
  have := h k hk
  simp [not_le.2 this]

theorem inWindow_congr_left (a a' b : Rat) (K : Knots) (h : ∀ k ∈ K, a ≤ k.1 ∧ a' ≤ k.1) :
    inWindow a b K = inWindow a' b K := by
  unfold inWindow
  apply List.filter_congr
  intro k hk
  simp [(h k hk).1, (h k hk).2]

/-- splitting a window at a knot: the knots of `[a, c]` are the knots of `[a, b]` followed by the
    knots of `[b, c]` without their first one (the shared knot at `b`) -/
theorem inWindow_split (a b c : Rat) (K : Knots) (hs : Sorted K) (hab : a ≤ b) (hbc : b ≤ c)
    (kb : Rat × Rat) (hkb : kb ∈ K) (hb : kb.1 = b) :
    ∃ pre post, inWindow a b K = pre ++ [kb] ∧ inWindow b c K = kb :: post ∧
      inWindow a c K = pre ++ kb :: post := by
  induction K with
  | nil => cases hkb
  | cons k K ih =>
    have hgt := Sorted.head_lt hs
    rcases List.mem_cons.1 hkb with rfl | hmem
    · -- the head is the knot at b; everything after it is later than b
      have hK : ∀ x ∈ K, b < x.1 := fun x hx => hb ▸ hgt x hx
      refine ⟨[], inWindow b c K, ?_, ?_, ?_⟩
      · rw [inWindow_cons, inWindow_eq_nil_of_gt a b K hK]
        simp [hb, hab]
      · rw [inWindow_cons]
        simp [hb, hbc]
      · rw [inWindow_cons]
        have : a ≤ kb.1 ∧ kb.1 ≤ c := ⟨hb ▸ hab, hb ▸ hbc⟩
        simp only [this, and_self, if_true, List.nil_append]
        congr 1
        exact inWindow_congr_left a b c K (fun x hx => ⟨le_trans hab (le_of_lt (hK x hx)), le_of_lt (hK x hx)⟩)
    · have hk : k.1 < b := hb ▸ hgt kb hmem
      obtain ⟨pre, post, h1, h2, h3⟩ := ih (Sorted.tail hs) hmem
      have hnb : ¬ (b ≤ k.1 ∧ k.1 ≤ c) := fun h => absurd h.1 (not_le.2 hk)
      by_cases hak : a ≤ k.1
      · refine ⟨k :: pre, post, ?_, ?_, ?_⟩
        · rw [inWindow_cons]; simp [hak, le_of_lt hk, h1]
        · rw [inWindow_cons]; simp only [hnb, if_false]; exact h2
        · rw [inWindow_cons]; simp [hak, le_trans (le_of_lt hk) hbc, h3]
      · refine ⟨pre, post, ?_, ?_, ?_⟩
        · rw [inWindow_cons]; simp [hak, h1]
        · rw [inWindow_cons]; simp only [hnb, if_false]; exact h2
        · rw [inWindow_cons]; simp [hak, h3]



theorem hasTime_inWindow (a b t : Rat) (K : Knots) (h1 : a ≤ t) (h2 : t ≤ b) :
    hasTime (inWindow a b K) t = hasTime K t := by
  unfold hasTime inWindow
  rw [List.any_filter]
  congr 1
  funext k
  by_cases h : k.1 = t
  · simp [h, h1, h2]
  · simp [h]

theorem EndOK_unique (p : Prob) (name : String) (i1 i2 : Knots) (t : Rat) (x1 x2 : Knots)
    (h : hasTime i1 t = hasTime i2 t) (e1 : EndOK p name i1 t x1) (e2 : EndOK p name i2 t x2) :
    x1 = x2 := by
  rcases e1 with ⟨h1, rfl⟩ | ⟨h1, q1, hq1, rfl⟩ <;> rcases e2 with ⟨h2, rfl⟩ | ⟨h2, q2, hq2, rfl⟩
  · rfl
  · rw [h, h2] at h1; cases h1
  · rw [h, h2] at h1; cases h1
  · rw [hq1] at hq2
    cases hq2
    rfl

theorem EndOK_of_hasTime (p : Prob) (name : String) (inner : Knots) (t : Rat) (x : Knots)
    (h : hasTime inner t = true) (e : EndOK p name inner t x) : x = [] := by
  rcases e with ⟨_, rfl⟩ | ⟨h1, _⟩
  · rfl
  · rw [h] at h1; cases h1

theorem hasTime_of_mem (K : Knots) (k : Rat × Rat) (hk : k ∈ K) : hasTime K k.1 = true := by
  unfold hasTime
  rw [List.any_eq_true]
  exact ⟨k, hk, by simp⟩


/-! ### negated constant inputs; `sequence` -/

theorem ciStateAt_neg (c : CIn) (t : Rat) (extrap : Bool) :
    ciStateAt c true t extrap = (ciStateAt c false t extrap).neg := by
  unfold ciStateAt
  simp only [if_true, Bool.false_eq_true, if_false]
  rw [Res.neg_eq_scale, negKnots_eq_scale, firstVal_scaleKnots, lastVal_scaleKnots]
  cases extrap
  · simpa using interpScalar_scale (-1) c.mode c.series nanFill nanFill t
  · simpa using interpScalar_scale (-1) c.mode c.series (finFill (firstVal c.series)) (finFill (lastVal c.series)) t

theorem sequence_eq_some (l : List Out) (xs : List XVal) (h : sequence l = some xs) : l = xs.map Out.val := by
  induction l generalizing xs with
  | nil => simp [sequence] at h; subst h; rfl
  | cons a l ih =>
    cases a with
    | raise => simp [sequence] at h
    | val v =>
      simp only [sequence, Option.map_eq_some_iff] at h
      obtain ⟨ys, hys, rfl⟩ := h
      rw [ih ys hys]; rfl

end RtcVerif.C15
