import RtcVerif.Model.C15
import RtcVerif.Proofs.C15
/-! The interpolants used by the accessors are finite (never NaN / never raise) when the fills are. -/
namespace RtcVerif.C15
open RtcVerif RtcVerif.Interp

theorem linFrom_finite (ks : Knots) (hne : ks ≠ []) (r t : Rat) :
    ∃ q, linFrom ks (.val (XVal.fin r)) t = .val (XVal.fin q) := by
  induction ks with
  | nil => exact absurd rfl hne
  | cons a l ih =>
    obtain ⟨t0, f0⟩ := a
    cases l with
    | nil =>
      simp only [linFrom]
      by_cases h : t0 < t
      · exact ⟨r, by simp [h]⟩
      · exact ⟨f0, by simp [h]⟩
    | cons b l =>
      obtain ⟨t1, f1⟩ := b
      by_cases h : t < t1
      · exact ⟨f0 + (f1 - f0) / (t1 - t0) * (t - t0), by simp [linFrom, h]⟩
      · rw [linFrom_step _ _ _ _ _ _ _ h]
        exact ih (by simp)

/-- with finite fills and a valid mode the interpolant is always a number -/
theorem interpCore_finite (mode : Nat) (hm : mode ≤ 2) (ks : Knots) (hne : ks ≠ []) (a b t : Rat) :
    ∃ q, interpCore mode ks (finFill a) (finFill b) t = .val (XVal.fin q) := by
  obtain ⟨⟨t0, f0⟩, rest, rfl⟩ := List.exists_cons_of_ne_nil hne
  simp only [interpCore]
  by_cases h1 : t < t0
  · exact ⟨a, by simp [h1, hm, finFill, fillOut]⟩
  · by_cases h2 : lastTime ((t0, f0) :: rest) < t
    · exact ⟨b, by simp [h1, h2, hm, finFill, fillOut]⟩
    · simp only [h1, h2, if_false]
      obtain rfl | rfl | rfl : mode = 0 ∨ mode = 1 ∨ mode = 2 := by omega
      · exact linFrom_finite _ (by simp) b t
      · exact ⟨_, rfl⟩
      · exact ⟨_, rfl⟩

theorem interpSym_finite (mode : Nat) (hm : mode ≤ 2) (ks : Knots) (hne : ks ≠ []) (t : Rat) :
    ∃ q, ofOut (interpSym mode ks t) = .num q := by
  obtain ⟨q, hq⟩ := interpCore_finite mode hm ks hne (firstVal ks) (lastVal ks) t
  exact ⟨q, by unfold interpSym; rw [show (some (XVal.fin (firstVal ks)) : Fill) = finFill (firstVal ks) from rfl, show (some (XVal.fin (lastVal ks)) : Fill) = finFill (lastVal ks) from rfl, hq]; rfl⟩

theorem interpScalar_finite (mode : Nat) (hm : mode ≤ 2) (ks : Knots) (hne : ks ≠ []) (a b t : Rat) :
    ∃ q, ofOut (interpScalar mode ks (finFill a) (finFill b) t) = .num q := by
  obtain ⟨⟨t0, f0⟩, rest, rfl⟩ := List.exists_cons_of_ne_nil hne
  simp only [interpScalar]
  by_cases h : t0 = t
  · exact ⟨f0, by simp [h]⟩
  · simp only [h, if_false]
    obtain ⟨q, hq⟩ := interpCore_finite mode hm ((t0, f0) :: rest) (by simp) a b t
    exact ⟨q, by rw [hq]; rfl⟩

end RtcVerif.C15
