import RtcVerif.Props.C15
/-! Bridging lemmas between the reference forms used by the source-to-Lean translation
(`harness/translate_c15.py`, `lean/RtcVerif/Gen/Accessors.lean`) and the C15 model. -/
namespace RtcVerif.C15
open RtcVerif RtcVerif.Interp

theorem findSeg_eq_scanPairs (l : List Rat) (t : Rat) :
    findSeg l t = scanPairs (fun a b => decide (a < t) && decide (t ≤ b)) l := by
  induction l with
  | nil => rfl
  | cons a l ih =>
    cases l with
    | nil => rfl
    | cons b l =>
      rw [findSeg, scanPairs, ih]
      by_cases h1 : a < t <;> by_cases h2 : t ≤ b <;> simp [h1, h2]

theorem statesTimesIn_eq_assemble (p : Prob) (name : String) (a? b? : Option Rat) :
    statesTimesIn p name a? b? =
      (p.svars.lookup (p.canon name).1).bind (fun v =>
        (windowHist v (p.canon name).2 (a?.getD ((p.timesOf name).headD 0)) ((p.timesOf name).headD 0)).bind
          (fun hist => assemble p name (a?.getD ((p.timesOf name).headD 0))
            (b?.getD (((p.timesOf name).getLast?).getD 0)) hist
            (v.times.zip (v.xs.map (fun x => x * v.nominal * sgn (p.canon name).2))))) := rfl

theorem zipWith_dropLast_tail {α β : Type} (f : α → α → β) (l : List α) :
    List.zipWith f l.dropLast l.tail = List.zipWith f l l.tail := by
  induction l with
  | nil => rfl
  | cons a l ih =>
    cases l with
    | nil => rfl
    | cons b l =>
      simp only [List.dropLast_cons_cons, List.tail_cons, List.zipWith_cons_cons] at ih ⊢
      congr 1

theorem zipWith_tail_dropLast {α β : Type} (f : α → α → β) (l : List α) :
    List.zipWith f l.tail l.dropLast = List.zipWith f l.tail l := by
  induction l with
  | nil => rfl
  | cons a l ih =>
    cases l with
    | nil => rfl
    | cons b l =>
      simp only [List.dropLast_cons_cons, List.tail_cons, List.zipWith_cons_cons] at ih ⊢
      congr 1

theorem trapzVec_core (ks : Knots) :
    (List.zipWith (fun x1 x2 : Rat => x1 * x2)
      (List.map (fun x : Rat => 1 / 2 * x)
        (List.zipWith (fun x1 x2 : Rat => x1 + x2) (ks.map (·.2)) (ks.map (·.2)).tail))
      (List.zipWith (fun x1 x2 : Rat => x1 - x2) (ks.map (·.1)).tail (ks.map (·.1)))).sum = trapz ks := by
  induction ks with
  | nil => rfl
  | cons a l ih =>
    cases l with
    | nil => rfl
    | cons b l =>
      simp only [List.map_cons, List.tail_cons, List.zipWith_cons_cons, List.sum_cons] at ih ⊢
      rw [trapz_cons_cons, ← ih]
      ring

theorem trapzVec_eq_trapz (ks : Knots) : trapzVec ks = trapz ks := by
  unfold trapzVec vmul vscale vadd vsub
  rw [zipWith_dropLast_tail, zipWith_tail_dropLast]
  by_cases h : ks.length > 1
  · simp only [h, if_true]
    exact trapzVec_core ks
  · simp only [h, if_false]
    cases ks with
    | nil => rfl
    | cons a l =>
      cases l with
      | nil => rfl
      | cons b l => simp at h

theorem hasTime_append (K L : Knots) (t : Rat) : hasTime (K ++ L) t = (hasTime K t || hasTime L t) := by
  simp [hasTime]

theorem vadd_comm (u v : List Rat) : vadd u v = vadd v u := by
  unfold vadd
  exact List.zipWith_comm_of_comm (fun a b => add_comm a b)

theorem vmul_comm (u v : List Rat) : vmul u v = vmul v u := by
  unfold vmul
  exact List.zipWith_comm_of_comm (fun a b => mul_comm a b)

theorem res_scale_one (r : Res) : Res.scale 1 r = r := by
  cases r <;> simp [Res.scale, Res.map]

theorem res_divBy_one (r : Res) : Res.divBy 1 r = r := by
  cases r <;> simp [Res.divBy, Res.map]

@[simp] theorem res_scale_num (c q : Rat) : Res.scale c (.num q) = .num (c * q) := rfl
@[simp] theorem res_divBy_num (c q : Rat) : Res.divBy c (.num q) = .num (q / c) := rfl
@[simp] theorem res_neg_num (q : Rat) : Res.neg (.num q) = .num (-q) := rfl
@[simp] theorem res_scale_nan (c : Rat) : Res.scale c .nan = .nan := rfl
@[simp] theorem res_divBy_nan (c : Rat) : Res.divBy c .nan = .nan := rfl
@[simp] theorem res_neg_nan : Res.neg .nan = .nan := rfl

theorem res_scale_neg_one (r : Res) : Res.scale (-1) r = Res.neg r := by
  cases r <;> simp [Res.scale, Res.neg, Res.map]

/-- the two `[:-1]` slices of a history series (times, values), zipped again, are the series without its
    last entry -/
theorem zip_dropLast_split (h : Knots) :
    List.zip (h.map (·.1)).dropLast (h.map (·.2)).dropLast = h.dropLast := by
  induction h with
  | nil => rfl
  | cons a l ih =>
    cases l with
    | nil => rfl
    | cons b l =>
      simp only [List.map_cons, List.dropLast_cons_cons, List.zip_cons_cons] at ih ⊢
      rw [ih]

/-- … with the values negated (a new array: `history = -history`) this is the negated series -/
theorem zip_dropLast_split_neg (h : Knots) :
    List.zip (h.map (·.1)).dropLast ((h.map (·.2)).dropLast.map (- ·)) = negKnots h.dropLast := by
  induction h with
  | nil => rfl
  | cons a l ih =>
    cases l with
    | nil => rfl
    | cons b l =>
      simp only [List.map_cons, List.dropLast_cons_cons, List.zip_cons_cons, negKnots] at ih ⊢
      rw [ih]

end RtcVerif.C15
