import RtcVerif.Model.C16
import RtcVerif.Proofs.InterpLemmas
import Mathlib.Data.Rat.Floor
import Mathlib.Data.List.Induction
import Mathlib.Algebra.Order.Field.Rat
import Mathlib.Algebra.Order.Field.Basic
import Mathlib.Tactic.Linarith
import Mathlib.Tactic.FieldSimp
import Mathlib.Tactic.Ring
/-! Helper lemmas for the C16 model (ceil, the shifted expression `dbar`, the buffer). -/
namespace RtcVerif.C16
open RtcVerif RtcVerif.Interp RtcVerif.C15

theorem ceilNat_eq (q : Rat) : ceilNat q = ⌈q⌉.toNat := by
  unfold ceilNat
  rw [Rat.ceil_def']

theorem ceilNat_bounds (q : Rat) (hq : 0 < q) :
    ((ceilNat q : Nat) : Rat) - 1 < q ∧ q ≤ (ceilNat q : Nat) ∧ 1 ≤ ceilNat q := by
  rw [ceilNat_eq]
  have hpos : 0 < ⌈q⌉ := Int.ceil_pos.2 hq
  have hcast : ((⌈q⌉.toNat : Nat) : Rat) = ((⌈q⌉ : Int) : Rat) := by
    have : ((⌈q⌉.toNat : Nat) : Int) = ⌈q⌉ := Int.toNat_of_nonneg (le_of_lt hpos)
    exact_mod_cast this
  refine ⟨?_, ?_, ?_⟩
  · rw [hcast]
    have := Int.ceil_lt_add_one q
    linarith
  · rw [hcast]; exact Int.le_ceil q
  · omega


theorem dbar_append_of_le (d0 x : Rat) (ds : List Rat) (i : Int) (hi : i ≤ ds.length) :
    dbar d0 (ds ++ [x]) i = dbar d0 ds i := by
  unfold dbar
  by_cases h : i ≤ 0
  · simp [h]
  · simp only [h, if_false]
    have : i.toNat - 1 < ds.length := by omega
    simp [List.getD_eq_getElem?_getD, List.getElem?_append_left this]

theorem dbar_append_last (d0 x : Rat) (ds : List Rat) :
    dbar d0 (ds ++ [x]) ((ds.length : Int) + 1) = x := by
  unfold dbar
  have h : ¬ ((ds.length : Int) + 1 ≤ 0) := by omega
  simp only [h, if_false]
  have : ((ds.length : Int) + 1).toNat - 1 = ds.length := by omega
  rw [this]
  simp [List.getD_eq_getElem?_getD]

theorem bufSpec_nil (n : Nat) (d0 : Rat) : bufSpec n d0 [] = List.replicate n d0 := by
  unfold bufSpec
  apply List.ext_getElem
  · simp
  · intro i h1 h2
    simp [dbar]

theorem bufSpec_dropLast (m : Nat) (d0 : Rat) (ds : List Rat) :
    (bufSpec (m + 1) d0 ds).dropLast = bufSpec m d0 ds := by
  unfold bufSpec
  rw [List.range_succ, List.map_append]
  simp

theorem bufSpec_step (m : Nat) (d0 x : Rat) (ds : List Rat) :
    x :: bufSpec m d0 ds = bufSpec (m + 1) d0 (ds ++ [x]) := by
  unfold bufSpec
  rw [List.range_succ_eq_map, List.map_cons, List.map_map]
  congr 1
  · have := dbar_append_last d0 x ds
    simp only [List.length_append, List.length_singleton, Nat.cast_add, Nat.cast_one, Nat.cast_zero,
      sub_zero]
    exact this.symm
  · apply List.map_congr_left
    intro k _
    simp only [Function.comp, List.length_append, List.length_singleton, Nat.cast_add, Nat.cast_one,
      Nat.cast_succ]
    rw [← dbar_append_of_le d0 x ds _ (by omega)]
    congr 1
    ring

theorem bufSpec_getLastD (m : Nat) (d0 : Rat) (ds : List Rat) :
    (bufSpec (m + 1) d0 ds).getLastD 0 = dbar d0 ds ((ds.length : Int) - m) := by
  unfold bufSpec
  rw [List.range_succ, List.map_append]
  simp

/-! ### optimisation helpers -/

theorem resKnots_num (ts vs : List Rat) : resKnots ts (vs.map Res.num) = ts.zip vs := by
  induction ts generalizing vs with
  | nil => simp [resKnots]
  | cons t ts ih =>
    cases vs with
    | nil => simp [resKnots]
    | cons v vs =>
      have := ih vs
      simp only [resKnots] at this ⊢
      rw [List.map_cons, List.zip_cons_cons, List.filterMap_cons]
      have h1 : (Res.num v).toRat? = some v := rfl
      simp only [h1, Option.map_some]
      rw [this, List.zip_cons_cons]

theorem searchLeft_le_length (l : List Rat) (e : Rat) : searchLeft l e ≤ l.length := by
  induction l with
  | nil => simp [searchLeft]
  | cons a rest ih =>
    simp only [searchLeft]
    by_cases h : a < e
    · simp only [h, if_true, List.length_cons]; omega
    · simp [h]

theorem searchLeft_spec (l : List Rat) (e : Rat) (hs : l.Pairwise (· < ·)) :
    (∀ i, i < searchLeft l e → l.getD i 0 < e) ∧
    (∀ i, searchLeft l e ≤ i → i < l.length → e ≤ l.getD i 0) := by
  induction l with
  | nil => simp [searchLeft]
  | cons a rest ih =>
    have ih' := ih (List.pairwise_cons.1 hs).2
    have ha := (List.pairwise_cons.1 hs).1
    simp only [searchLeft]
    by_cases h : a < e
    · simp only [h, if_true]
      constructor
      · intro i hi
        cases i with
        | zero => simpa using h
        | succ i => simpa using ih'.1 i (by omega)
      · intro i hi hlen
        cases i with
        | zero => omega
        | succ i =>
          simp only [List.length_cons] at hlen
          simpa using ih'.2 i (by omega) (by omega)
    · simp only [h, if_false]
      constructor
      · intro i hi; omega
      · intro i _ hlen
        cases i with
        | zero => simpa using not_lt.1 h
        | succ i =>
          simp only [List.length_cons] at hlen
          have hi : i < rest.length := by omega
          have hmem : rest.getD i 0 ∈ rest := by
            simp [List.getD_eq_getElem?_getD, hi]
          have := ha _ hmem
          have h2 : (a :: rest).getD (i + 1) 0 = rest.getD i 0 := by simp
          rw [h2]
          exact le_of_lt (lt_of_le_of_lt (not_lt.1 h) this)

theorem pairwise_getD_lt (l : List Rat) (hs : l.Pairwise (· < ·)) (i j : Nat) (hij : i < j)
    (hj : j < l.length) : l.getD i 0 < l.getD j 0 := by
  have hi : i < l.length := by omega
  have := (List.pairwise_iff_getElem.1 hs) i j hi hj hij
  simpa [List.getD_eq_getElem?_getD, hi, hj] using this

theorem minList_le (l : List Rat) (x : Rat) (hx : x ∈ l) : minList l ≤ x := by
  induction l with
  | nil => cases hx
  | cons a rest ih =>
    cases rest with
    | nil =>
      have : x = a := by simpa using hx
      simp [minList, this]
    | cons b rest =>
      simp only [minList]
      rcases List.mem_cons.1 hx with rfl | h
      · exact min_le_left _ _
      · exact le_trans (min_le_right _ _) (ih h)

/-! ### history interpolation with NaN entries -/

theorem numK_cons (k : Rat × Rat) (ks : Knots) : numK (k :: ks) = (k.1, Res.num k.2) :: numK ks := rfl

theorem interpNaN_step (mode : Nat) (a : Rat) (fa : Res) (b : Rat) (fb : Res) (rest : RKnots) (t : Rat)
    (h : b ≤ t) (hab : a < b) :
    interpNaN mode ((a, fa) :: (b, fb) :: rest) t = interpNaN mode ((b, fb) :: rest) t := by
  have h1 : ¬ t < a := not_lt.2 (le_trans (le_of_lt hab) h)
  have h2 : t ≠ a := ne_of_gt (lt_of_lt_of_le hab h)
  have h3 : ¬ t < b := not_lt.2 h
  rw [interpNaN]
  simp only [h1, h2, h3, if_false]

/-- on a segment `a ≤ t < b` between consecutive knots -/
theorem interpNaN_seg (mode : Nat) (pre post : Knots) (a fa b fb t : Rat)
    (hs : Sorted (pre ++ (a, fa) :: (b, fb) :: post)) (hat : a ≤ t) (htb : t < b) :
    interpNaN mode (numK (pre ++ (a, fa) :: (b, fb) :: post)) t =
      if t = a then .num fa else segVal mode a b t (.num fa) (.num fb) := by
  induction pre with
  | nil =>
    simp only [List.nil_append, numK_cons]
    rw [interpNaN]
    simp only [not_lt.2 hat, if_false, htb, if_true]
  | cons p pre ih =>
    obtain ⟨tp, fp⟩ := p
    have hs' := Sorted.tail hs
    cases pre with
    | nil =>
      have hpa : tp < a := hs.1
      simp only [List.cons_append, List.nil_append, numK_cons] at ih ⊢
      rw [interpNaN_step mode tp _ a _ _ t hat hpa]
      exact ih hs'
    | cons q pre =>
      obtain ⟨tq, fq⟩ := q
      have hpq : tp < tq := hs.1
      have hqa : tq < a := Sorted.append_lt hs' (tq, fq) (by simp)
      simp only [List.cons_append, numK_cons] at ih ⊢
      rw [interpNaN_step mode tp _ tq _ _ t (le_trans (le_of_lt hqa) hat) hpq]
      exact ih hs'

/-- at and beyond the last knot -/
theorem interpNaN_last (mode : Nat) (pre : Knots) (a fa t : Rat) (hs : Sorted (pre ++ [(a, fa)]))
    (hat : a ≤ t) :
    interpNaN mode (numK (pre ++ [(a, fa)])) t = if t = a then .num fa else .nan := by
  induction pre with
  | nil => simp [numK, interpNaN]
  | cons p pre ih =>
    obtain ⟨tp, fp⟩ := p
    have hs' := Sorted.tail hs
    cases pre with
    | nil =>
      have hpa : tp < a := hs.1
      simp only [List.cons_append, List.nil_append, numK_cons] at ih ⊢
      rw [interpNaN_step mode tp _ a _ _ t hat hpa]
      exact ih hs'
    | cons q pre =>
      obtain ⟨tq, fq⟩ := q
      have hpq : tp < tq := hs.1
      have hqa : tq < a := Sorted.append_lt hs' (tq, fq) (by simp)
      simp only [List.cons_append, numK_cons] at ih ⊢
      rw [interpNaN_step mode tp _ tq _ _ t (le_trans (le_of_lt hqa) hat) hpq]
      exact ih hs'

theorem interpNaN_before (mode : Nat) (k : Rat × Rat) (ks : Knots) (t : Rat) (h : t < k.1) :
    interpNaN mode (numK (k :: ks)) t = .nan := by
  cases ks with
  | nil => simp [numK, interpNaN, ne_of_lt h]
  | cons b ks =>
    simp only [numK_cons]
    rw [interpNaN]
    simp [h]


theorem position (ks : Knots) (hne : ks ≠ []) (t : Rat) :
    t < firstTime ks ∨
    (∃ pre a fa b fb post, ks = pre ++ (a, fa) :: (b, fb) :: post ∧ a ≤ t ∧ t < b) ∨
    (∃ pre a fa, ks = pre ++ [(a, fa)] ∧ a ≤ t) := by
  induction ks with
  | nil => exact absurd rfl hne
  | cons k ks ih =>
    obtain ⟨tk, fk⟩ := k
    by_cases h : t < tk
    · left; simpa [firstTime] using h
    · right
      cases ks with
      | nil => right; exact ⟨[], tk, fk, rfl, not_lt.1 h⟩
      | cons k' rest =>
        obtain ⟨tk', fk'⟩ := k'
        by_cases h' : t < tk'
        · left; exact ⟨[], tk, fk, tk', fk', rest, rfl, not_lt.1 h, h'⟩
        · rcases ih (by simp) with h1 | ⟨pre, a, fa, b, fb, post, e, h1, h2⟩ | ⟨pre, a, fa, e, h1⟩
          · exact absurd (by simpa [firstTime] using h1) h'
          · left; exact ⟨(tk, fk) :: pre, a, fa, b, fb, post, by rw [e]; rfl, h1, h2⟩
          · right; exact ⟨(tk, fk) :: pre, a, fa, by rw [e]; rfl, h1⟩


theorem getD_map_neg (xs : List Rat) (k : Nat) : (xs.map (- ·)).getD k 0 = - xs.getD k 0 := by
  simp only [List.getD_eq_getElem?_getD, List.getElem?_map]
  cases xs[k]? <;> simp

end RtcVerif.C16
