import RtcVerif.Model.C16
import Mathlib.Data.Rat.Floor
import Mathlib.Data.List.Induction
import Mathlib.Algebra.Order.Field.Rat
import Mathlib.Algebra.Order.Field.Basic
import Mathlib.Tactic.Linarith
import Mathlib.Tactic.FieldSimp
import Mathlib.Tactic.Ring
/-! Helper lemmas for the C16 model (ceil, the shifted expression `dbar`, the buffer). -/
namespace RtcVerif.C16
open RtcVerif RtcVerif.Interp RtcVerif.C15

theorem ceilNat_eq (q : Rat) : ceilNat q = ⌈q⌉.toNat := by
  unfold ceilNat
  rw [Rat.ceil_def']

theorem ceilNat_bounds (q : Rat) (hq : 0 < q) :
    ((ceilNat q : Nat) : Rat) - 1 < q ∧ q ≤ (ceilNat q : Nat) ∧ 1 ≤ ceilNat q := by
  rw [ceilNat_eq]
  have hpos : 0 < ⌈q⌉ := Int.ceil_pos.2 hq
  have hcast : ((⌈q⌉.toNat : Nat) : Rat) = ((⌈q⌉ : Int) : Rat) := by
    have : ((⌈q⌉.toNat : Nat) : Int) = ⌈q⌉ := Int.toNat_of_nonneg (le_of_lt hpos)
    exact_mod_cast this
  refine ⟨?_, ?_, ?_⟩
  · rw [hcast]
    have := Int.ceil_lt_add_one q
    linarith
  · rw [hcast]; exact Int.le_ceil q
  · omega


theorem dbar_append_of_le (d0 x : Rat) (ds : List Rat) (i : Int) (hi : i ≤ ds.length) :
    dbar d0 (ds ++ [x]) i = dbar d0 ds i := by
  unfold dbar
  by_cases h : i ≤ 0
  · simp [h]
  · simp only [h, if_false]
    have : i.toNat - 1 < ds.length := by omega
    simp [List.getD_eq_getElem?_getD, List.getElem?_append_left this]

theorem dbar_append_last (d0 x : Rat) (ds : List Rat) :
    dbar d0 (ds ++ [x]) ((ds.length : Int) + 1) = x := by
  unfold dbar
  have h : ¬ ((ds.length : Int) + 1 ≤ 0) := by omega
  simp only [h, if_false]
  have : ((ds.length : Int) + 1).toNat - 1 = ds.length := by omega
  rw [this]
  simp [List.getD_eq_getElem?_getD]

theorem bufSpec_nil (n : Nat) (d0 : Rat) : bufSpec n d0 [] = List.replicate n d0 := by
  unfold bufSpec
  apply List.ext_getElem
  · simp
  · intro i h1 h2
    simp [dbar]

theorem bufSpec_dropLast (m : Nat) (d0 : Rat) (ds : List Rat) :
    (bufSpec (m + 1) d0 ds).dropLast = bufSpec m d0 ds := by
  unfold bufSpec
  rw [List.range_succ, List.map_append]
  simp

theorem bufSpec_step (m : Nat) (d0 x : Rat) (ds : List Rat) :
    x :: bufSpec m d0 ds = bufSpec (m + 1) d0 (ds ++ [x]) := by
  unfold bufSpec
  rw [List.range_succ_eq_map, List.map_cons, List.map_map]
  congr 1
  · have := dbar_append_last d0 x ds
    simp only [List.length_append, List.length_singleton, Nat.cast_add, Nat.cast_one, Nat.cast_zero,
      sub_zero]
    exact this.symm
  · apply List.map_congr_left
    intro k _
    simp only [Function.comp, List.length_append, List.length_singleton, Nat.cast_add, Nat.cast_one,
      Nat.cast_succ]
    rw [← dbar_append_of_le d0 x ds _ (by omega)]
    congr 1
    ring

theorem bufSpec_getLastD (m : Nat) (d0 : Rat) (ds : List Rat) :
    (bufSpec (m + 1) d0 ds).getLastD 0 = dbar d0 ds ((ds.length : Int) - m) := by
  unfold bufSpec
  rw [List.range_succ, List.map_append]
  simp

end RtcVerif.C16
