import RtcVerif.Model.C16
import Mathlib.Data.Rat.Floor
import Mathlib.Data.List.Induction
import Mathlib.Algebra.Order.Field.Rat
import Mathlib.Algebra.Order.Field.Basic
import Mathlib.Tactic.Linarith
import Mathlib.Tactic.FieldSimp
import Mathlib.Tactic.Ring
/-! Helper lemmas for the C16 model (ceil, the shifted expression `dbar`, the buffer). -/
namespace RtcVerif.C16
open RtcVerif RtcVerif.Interp RtcVerif.C15

theorem ceilNat_eq (q : Rat) : ceilNat q = ⌈q⌉.toNat := by
  unfold ceilNat
  rw [Rat.ceil_def']

theorem ceilNat_bounds (q : Rat) (hq : 0 < q) :
    ((ceilNat q : Nat) : Rat) - 1 < q ∧ q ≤ (ceilNat q : Nat) ∧ 1 ≤ ceilNat q := by
  rw [ceilNat_eq]
  have hpos : 0 < ⌈q⌉ := Int.ceil_pos.2 hq
  have hcast : ((⌈q⌉.toNat : Nat) : Rat) = ((⌈q⌉ : Int) : Rat) := by
    have : ((⌈q⌉.toNat : Nat) : Int) = ⌈q⌉ := Int.toNat_of_nonneg (le_of_lt hpos)
    exact_mod_cast this
  refine ⟨?_, ?_, ?_⟩
  · rw [hcast]
    have := Int.ceil_lt_add_one q
    linarith
  · rw [hcast]; exact Int.le_ceil q
  · omega


theorem dbar_append_of_le (d0 x : Rat) (ds : List Rat) (i : Int) (hi : i ≤ ds.length) :
    dbar d0 (ds ++ [x]) i = dbar d0 ds i := by
  unfold dbar
  by_cases h : i ≤ 0
  · simp [h]
  · simp only [h, if_false]
    have : i.toNat - 1 < ds.length := by omega
    simp [List.getD_eq_getElem?_getD, List.getElem?_append_left this]

theorem dbar_append_last (d0 x : Rat) (ds : List Rat) :
    dbar d0 (ds ++ [x]) ((ds.length : Int) + 1) = x := by
  unfold dbar
  have h : ¬ ((ds.length : Int) + 1 ≤ 0) := by omega
  simp only [h, if_false]
  have : ((ds.length : Int) + 1).toNat - 1 = ds.length := by omega
  rw [this]
  simp [List.getD_eq_getElem?_getD]

theorem bufSpec_nil (n : Nat) (d0 : Rat) : bufSpec n d0 [] = List.replicate n d0 := by
  unfold bufSpec
  apply List.ext_getElem
  · simp
  · intro i h1 h2
    simp [dbar]

theorem bufSpec_dropLast (m : Nat) (d0 : Rat) (ds : List Rat) :
    (bufSpec (m + 1) d0 ds).dropLast = bufSpec m d0 ds := by
  unfold bufSpec
  rw [List.range_succ, List.map_append]
  simp

theorem bufSpec_step (m : Nat) (d0 x : Rat) (ds : List Rat) :
    x :: bufSpec m d0 ds = bufSpec (m + 1) d0 (ds ++ [x]) := by
  unfold bufSpec
  rw [List.range_succ_eq_map, List.map_cons, List.map_map]
  congr 1
  · have := dbar_append_last d0 x ds
    simp only [List.length_append, List.length_singleton, Nat.cast_add, Nat.cast_one, Nat.cast_zero,
      sub_zero]
    exact this.symm
  · apply List.map_congr_left
    intro k _
    simp only [Function.comp, List.length_append, List.length_singleton, Nat.cast_add, Nat.cast_one,
      Nat.cast_succ]
    rw [← dbar_append_of_le d0 x ds _ (by omega)]
    congr 1
    ring

theorem bufSpec_getLastD (m : Nat) (d0 : Rat) (ds : List Rat) :
    (bufSpec (m + 1) d0 ds).getLastD 0 = dbar d0 ds ((ds.length : Int) - m) := by
  unfold bufSpec
  rw [List.range_succ, List.map_append]
  simp

/-! ### optimisation helpers -/

theorem resKnots_num (ts vs : List Rat) : resKnots ts (vs.map Res.num) = ts.zip vs := by
  induction ts generalizing vs with
  | nil => simp [resKnots]
  | cons t ts ih =>
    cases vs with
    | nil => simp [resKnots]
    | cons v vs =>
      have := ih vs
      simp only [resKnots] at this ⊢
      rw [List.map_cons, List.zip_cons_cons, List.filterMap_cons]
      have h1 : (Res.num v).toRat? = some v := rfl
      simp only [h1, Option.map_some]
      rw [this, List.zip_cons_cons]

theorem searchLeft_le_length (l : List Rat) (e : Rat) : searchLeft l e ≤ l.length := by
  induction l with
  | nil => simp [searchLeft]
  | cons a rest ih =>
    simp only [searchLeft]
    by_cases h : a < e
    · simp only [h, if_true, List.length_cons]; omega
    · simp [h]

theorem searchLeft_spec (l : List Rat) (e : Rat) (hs : l.Pairwise (· < ·)) :
    (∀ i, i < searchLeft l e → l.getD i 0 < e) ∧
    (∀ i, searchLeft l e ≤ i → i < l.length → e ≤ l.getD i 0) := by
  induction l with
  | nil => simp [searchLeft]
  | cons a rest ih =>
    have ih' := ih (List.pairwise_cons.1 hs).2
    have ha := (List.pairwise_cons.1 hs).1
    simp only [searchLeft]
    by_cases h : a < e
    · simp only [h, if_true]
      constructor
      · intro i hi
        cases i with
        | zero => simpa using h
        | succ i => simpa using ih'.1 i (by omega)
      · intro i hi hlen
        cases i with
        | zero => omega
        | succ i =>
          simp only [List.length_cons] at hlen
          simpa using ih'.2 i (by omega) (by omega)
    · simp only [h, if_false]
      constructor
      · intro i hi; omega
      · intro i _ hlen
        cases i with
        | zero => simpa using not_lt.1 h
        | succ i =>
          simp only [List.length_cons] at hlen
          have hi : i < rest.length := by omega
          have hmem : rest.getD i 0 ∈ rest := by
            simp [List.getD_eq_getElem?_getD, hi]
          have := ha _ hmem
          have h2 : (a :: rest).getD (i + 1) 0 = rest.getD i 0 := by simp
          rw [h2]
          exact le_of_lt (lt_of_le_of_lt (not_lt.1 h) this)

theorem pairwise_getD_lt (l : List Rat) (hs : l.Pairwise (· < ·)) (i j : Nat) (hij : i < j)
    (hj : j < l.length) : l.getD i 0 < l.getD j 0 := by
  have hi : i < l.length := by omega
  have := (List.pairwise_iff_getElem.1 hs) i j hi hj hij
  simpa [List.getD_eq_getElem?_getD, hi, hj] using this

theorem minList_le (l : List Rat) (x : Rat) (hx : x ∈ l) : minList l ≤ x := by
  induction l with
  | nil => cases hx
  | cons a rest ih =>
    cases rest with
    | nil =>
      have : x = a := by simpa using hx
      simp [minList, this]
    | cons b rest =>
      simp only [minList]
      rcases List.mem_cons.1 hx with rfl | h
      · exact min_le_left _ _
      · exact le_trans (min_le_right _ _) (ih h)

end RtcVerif.C16
