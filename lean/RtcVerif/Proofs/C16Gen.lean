import RtcVerif.Props.C16
/-! Bridging lemmas between the reference forms used by the source-to-Lean translation
(`harness/translate_c16.py`, `lean/RtcVerif/Gen/DelayRows.lean`) and the C16 model. -/
namespace RtcVerif.C16
open RtcVerif RtcVerif.Interp RtcVerif.C15

/-- the column of the variable that receives the delayed value -/
def DelayProb.outCol (d : DelayProb) : ColVar := d.mp.cols.getD d.out ⟨⟨0, [], [], 0, none, none⟩, 0⟩

theorem getD_map_mul (c : Rat) (xs : List Rat) (k : Nat) : (xs.map (c * ·)).getD k 0 = c * xs.getD k 0 := by
  simp only [List.getD_eq_getElem?_getD, List.getElem?_map]
  cases xs[k]? <;> simp

/-- reference form of `x_in` for the translation: one coefficient (alias sign × nominal) applied to
    the raw entries, before the interpolation to the collocation times or without it -/
theorem yAt_ref (d : DelayProb) (k : Nat) :
    d.yAt k =
      (if d.outCol.sv.times.length = d.ts.length then
         .num ((sgn d.outNeg * d.outCol.sv.nominal) * d.outCol.sv.xs.getD k 0)
       else ofOut (interpSym d.outCol.sv.mode
              (d.outCol.sv.times.zip (d.outCol.sv.xs.map ((sgn d.outNeg * d.outCol.sv.nominal) * ·)))
              (d.ts.getD k 0))) := by
  unfold DelayProb.yAt
  rw [applySign_eq_scale]
  show Res.scale (sgn d.outNeg) (d.outCol.valueAt d.ts k) = _
  unfold ColVar.valueAt
  by_cases h : d.outCol.sv.times.length = d.ts.length
  · simp only [h, if_true, Res.scale_num]
    congr 1; ring
  · simp only [h, if_false]
    rw [zip_map_scale, interpSym_scale, Res.scale_scale]
    rfl

theorem histD_length (d : DelayProb) : d.histD.length = d.hts.length := by simp [DelayProb.histD]

/-- reference form of the knots after the history has been dropped: both vectors lose their first
    `len(history_times)` entries -/
theorem outKnots_incomplete_ref (d : DelayProb) (hi : d.incomplete = true) :
    d.outKnots = resKnots ((d.hts ++ d.ts).drop d.hts.length) ((d.histD ++ d.trajD).drop d.hts.length) := by
  have h1 : (d.hts ++ d.ts).drop d.hts.length = d.ts := List.drop_left
  have h2 : (d.histD ++ d.trajD).drop d.hts.length = d.trajD := by
    rw [← histD_length d]; exact List.drop_left
  rw [h1, h2]
  simp [DelayProb.outKnots, hi]

end RtcVerif.C16
