import RtcVerif.Proofs.C16Gen
/-! Reference forms for the translation of the delayed-feedback history block, the delay-duration
resolution, the row scaling and the alias resolution of the receiving variable
(`harness/translate_c16.py`, `lean/RtcVerif/Gen/DelayHist.lean`), with the bridging lemmas to the
C16 model. -/
namespace RtcVerif.C16
open RtcVerif RtcVerif.Interp RtcVerif.C15

/-- interpolation mode of collocated variable `j` (`self.interpolation_method(var_name)`) -/
def DelayProb.colMode (d : DelayProb) (j : Nat) : Nat :=
  (d.mp.cols.getD j ⟨⟨0, [], [], 0, none, none⟩, 0⟩).sv.mode

/-- nominal of collocated variable `j` (`self.variable_nominal(var.name())`) -/
def DelayProb.colNominal (d : DelayProb) (j : Nat) : Rat :=
  (d.mp.cols.getD j ⟨⟨0, [], [], 0, none, none⟩, 0⟩).sv.nominal

/-- the member's raw series of constant input `j` (`self.constant_inputs(ensemble_member)[name]`) -/
def DelayProb.cinRaw (d : DelayProb) (j : Nat) : CIn := d.mp.cins.getD j ⟨[], 0⟩

/-- `constant_inputs[name]` of the member loop at stamp `k`: the member's series interpolated to the
    collocation times (C15 model of `ensemble_store[m]["constant_inputs"]`) -/
def DelayProb.cinAt (d : DelayProb) (j k : Nat) : Res := symAt d.mp k (.cin j)

/-- `np.diff(V, axis=0)` of one column that may hold NaN -/
def resDiff (v : List Res) : List Res := List.zipWith (fun x y => y.sub x) v v.tail

/-- `np.diff(T)` -/
def ratDiff (t : List Rat) : List Rat := List.zipWith (fun x y => y - x) t t.tail

/-- `A / B[:, None]` for one column -/
def resDivRows (a : List Res) (b : List Rat) : List Res := List.zipWith (fun x y => x.divBy y) a b

theorem zipWith_zipWith_zip {α β γ δ ε ζ : Type} (f : ε → ζ → γ) (g : α → β → ε) (h : δ → δ → ζ)
    (a : List α) (b : List β) (c e : List δ) :
    List.zipWith f (List.zipWith g a b) (List.zipWith h c e)
      = List.zipWith (fun (p : α × β) (q : δ × δ) => f (g p.1 p.2) (h q.1 q.2)) (a.zip b) (c.zip e) := by
  induction a generalizing b c e with
  | nil => simp
  | cons x xs ih =>
    cases b with
    | nil => simp
    | cons y ys =>
      cases c with
      | nil => simp
      | cons z zs =>
        cases e with
        | nil => simp
        | cons w ws => simp [ih]

/-- reference form of the history derivatives of one column, as the code builds them: a NaN row,
    followed (for two or more history stamps) by the difference quotients -/
def histDerRef (vals : List Res) (hts : List Rat) : List Res :=
  if hts.length > 1 then Res.nan :: resDivRows (resDiff vals) (ratDiff hts) else [Res.nan]

/-- the code-shaped derivative column and the model's agree on every row that is read (with no
    history stamp the code's single NaN row is never indexed) -/
theorem histDerRef_getD (vals : List Res) (hts : List Rat) (hl : vals.length = hts.length) (i : Nat) :
    (histDerRef vals hts).getD i .nan = (histDerColumn vals hts).getD i .nan := by
  unfold histDerRef
  match vals, hts, hl with
  | [], [], _ => cases i <;> simp [histDerColumn]
  | [v], [t], _ => simp [histDerColumn]
  | v0 :: v1 :: vs, t0 :: t1 :: tsr, _ =>
    have hlen : (t0 :: t1 :: tsr).length > 1 := by simp
    rw [if_pos hlen]
    unfold histDerColumn resDivRows resDiff ratDiff
    rw [zipWith_zipWith_zip]
    rfl

theorem histColumn_length (mode : Nat) (s : Option RKnots) (hts : List Rat) :
    (histColumn mode s hts).length = hts.length := by
  cases s <;> simp [histColumn]

theorem getD_map_lt {α β : Type} (f : α → β) (l : List α) (i : Nat) (a : α) (b : β) (hi : i < l.length) :
    (l.map f).getD i b = f (l.getD i a) := by
  simp [List.getD_eq_getElem?_getD, List.getElem?_map, List.getElem?_eq_getElem hi]

/-- the symbols a delay duration may refer to: parameters and constant inputs (the mapped delay
    function of the code has no other inputs except `time`, which the model excludes) -/
def tauSymOK : Sym → Bool
  | .par _ => true
  | .cin _ => true
  | _ => false

theorem Expr.eval_congr (e : Expr) (f g : Sym → Res)
    (h : ∀ tm ∈ e.terms, ∀ s ∈ tm.2, f s = g s) : e.eval f = e.eval g := by
  unfold Expr.eval
  have key : ∀ (l : List (Rat × List Sym)) (acc : Res), (∀ tm ∈ l, ∀ s ∈ tm.2, f s = g s) →
      l.foldl (fun acc tm => acc.add (tm.2.foldl (fun m s => m.mul (f s)) (.num tm.1))) acc
      = l.foldl (fun acc tm => acc.add (tm.2.foldl (fun m s => m.mul (g s)) (.num tm.1))) acc := by
    intro l
    induction l with
    | nil => intro acc _; rfl
    | cons tm rest ih =>
      intro acc hl
      simp only [List.foldl_cons]
      have inner : ∀ (ss : List Sym) (m : Res), (∀ s ∈ ss, f s = g s) →
          ss.foldl (fun m s => m.mul (f s)) m = ss.foldl (fun m s => m.mul (g s)) m := by
        intro ss
        induction ss with
        | nil => intro m _; rfl
        | cons s ss ih2 =>
          intro m hs
          simp only [List.foldl_cons]
          rw [hs s (by simp)]
          exact ih2 _ (fun s' hs' => hs s' (by simp [hs']))
      rw [inner tm.2 _ (hl tm (by simp))]
      exact ih _ (fun tm' h' => hl tm' (by simp [h']))
  exact key e.terms _ h

end RtcVerif.C16
