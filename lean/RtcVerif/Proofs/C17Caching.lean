import RtcVerif.Model.C17Caching
import RtcVerif.Proofs.NumOrder
import Mathlib.Algebra.Order.Field.Rat
import Mathlib.Tactic.Linarith
import Mathlib.Tactic.Ring
/-! Lemmas for the `CachingQPSol` model (C17). -/
namespace RtcVerif.C17

/-! ## finite sums -/

theorem sumTo_congr (n : ℕ) (f g : ℕ → ℚ) (h : ∀ i, i < n → f i = g i) : sumTo n f = sumTo n g := by
  induction n with
  | zero => rfl
  | succ n ih =>
    rw [sumTo, sumTo, ih (fun i hi => h i (Nat.lt_succ_of_lt hi)), h n (Nat.lt_succ_self n)]

theorem sumTo_add (n : ℕ) (f g : ℕ → ℚ) : sumTo n (fun i => f i + g i) = sumTo n f + sumTo n g := by
  induction n with
  | zero => simp [sumTo]
  | succ n ih => simp only [sumTo, ih]; ring

theorem sumTo_mul_left (n : ℕ) (a : ℚ) (f : ℕ → ℚ) : sumTo n (fun i => a * f i) = a * sumTo n f := by
  induction n with
  | zero => simp [sumTo]
  | succ n ih => simp only [sumTo, ih]; ring

theorem sumTo_zero (n : ℕ) : sumTo n (fun _ => (0 : ℚ)) = 0 := by
  induction n with
  | zero => rfl
  | succ n ih => simp [sumTo, ih]

/-- exchange of the order of summation -/
theorem sumTo_comm (n m : ℕ) (f : ℕ → ℕ → ℚ) :
    sumTo n (fun i => sumTo m fun j => f i j) = sumTo m (fun j => sumTo n fun i => f i j) := by
  induction n with
  | zero => simp [sumTo, sumTo_zero]
  | succ n ih =>
    simp only [sumTo, ih]
    rw [← sumTo_add]

/-! ## lists built over `List.range` -/

theorem getD_map_range {α : Type} (n i : ℕ) (f : ℕ → α) (d : α) (h : i < n) :
    ((List.range n).map f).getD i d = f i := by
  simp [List.getD, h]

theorem dotTo_normalise (n : ℕ) (a : List ℚ) (x : ℕ → ℚ) :
    dotTo n ((List.range n).map fun j => a.getD j 0) x = dotTo n a x := by
  unfold dotTo
  apply sumTo_congr
  intro j hj
  rw [getD_map_range n j _ 0 hj]

/-! ## the extracted Hessian and linear term -/

theorem gradient_length (n : ℕ) (f : QuadF) : (gradient n f).length = n := by simp [gradient]

theorem extractH_entry (p : NLP) (i j : ℕ) (hi : i < p.n) (hj : j < p.n) :
    entry (extractH p).rows i j = entry p.f.Q i j + entry p.f.Q j i := by
  unfold extractH jacobian gradient entry
  simp only [List.map_map]
  rw [getD_map_range p.n i _ [] hi]
  simp only [Function.comp]
  rw [getD_map_range p.n j _ 0 hj, getD_map_range p.n j _ 0 hj]

theorem extractC_getD (p : NLP) (i : ℕ) (hi : i < p.n) : (extractC p).getD i 0 = p.f.c.getD i 0 := by
  unfold extractC affAtZero gradient
  simp only [List.map_map]
  rw [getD_map_range p.n i _ 0 hi]
  rfl

/-- `x'(Q + Q')x = 2 x'Qx` -/
theorem quadTo_extractH (p : NLP) (x : ℕ → ℚ) : quadTo p.n (extractH p).rows x = 2 * quadTo p.n p.f.Q x := by
  unfold quadTo
  have h1 : sumTo p.n (fun i => sumTo p.n fun j => entry (extractH p).rows i j * x i * x j)
      = sumTo p.n (fun i => sumTo p.n fun j => entry p.f.Q i j * x i * x j + entry p.f.Q j i * x i * x j) := by
    apply sumTo_congr; intro i hi
    apply sumTo_congr; intro j hj
    rw [extractH_entry p i j hi hj]; ring
  rw [h1]
  have h2 : ∀ i, sumTo p.n (fun j => entry p.f.Q i j * x i * x j + entry p.f.Q j i * x i * x j)
      = sumTo p.n (fun j => entry p.f.Q i j * x i * x j) + sumTo p.n (fun j => entry p.f.Q j i * x i * x j) :=
    fun i => sumTo_add p.n _ _
  simp only [h2]
  rw [sumTo_add, sumTo_comm p.n p.n (fun i j => entry p.f.Q j i * x i * x j)]
  have h3 : sumTo p.n (fun j => sumTo p.n fun i => entry p.f.Q j i * x i * x j)
      = sumTo p.n (fun j => sumTo p.n fun i => entry p.f.Q j i * x j * x i) := by
    apply sumTo_congr; intro j _
    apply sumTo_congr; intro i _
    ring
  rw [h3]; ring

theorem dotTo_extractC (p : NLP) (x : ℕ → ℚ) : dotTo p.n (extractC p) x = dotTo p.n p.f.c x := by
  unfold dotTo
  apply sumTo_congr; intro i hi
  rw [extractC_getD p i hi]

/-! ## constructions -/

theorem construct_none (p : NLP) : construct none p = .ok (extract p, cacheOf p) := rfl

theorem jacobian_append (n : ℕ) (g t : List AffRow) :
    jacobian n (g ++ t) = vcatMat (jacobian n g) (jacobian n t) := by
  simp [jacobian, vcatMat]

theorem affAtZero_append (g t : List AffRow) : affAtZero (g ++ t) = vcatVec (affAtZero g) (affAtZero t) := by
  simp [affAtZero, vcatVec]

theorem construct_cached (p q : NLP) (h : Extends p q) :
    construct (some (cacheOf p)) q = .ok (extract q, cacheOf q) := by
  obtain ⟨hn, t, ht⟩ := h
  have hA : (cacheOf p).A.ncol = q.n := by simp [cacheOf, extractA, jacobian, hn]
  have hlen : (cacheOf p).A.rows.length = p.g.length := by simp [cacheOf, extractA, jacobian]
  have eA : extractA q = vcatMat (extractA p) (jacobian q.n t) := by
    unfold extractA; rw [ht, jacobian_append, hn]
  have eB : extractB q = vcatVec (extractB p) (affAtZero t) := by
    unfold extractB; rw [ht, affAtZero_append]
  unfold construct
  simp only [hA, hlen, beq_self_eq_true, Bool.not_true, Bool.false_eq_true, ↓reduceIte]
  by_cases hl : p.g.length = q.g.length
  · have ht0 : t = [] := by
      have := congrArg List.length ht
      simp only [List.length_append] at this
      exact List.eq_nil_of_length_eq_zero (by omega)
    subst ht0
    simp only [List.append_nil] at ht
    have eA' : extractA q = extractA p := by unfold extractA; rw [ht, hn]
    have eB' : extractB q = extractB p := by unfold extractB; rw [ht]
    simp only [hl, beq_self_eq_true, ↓reduceIte]
    simp [extract, cacheOf, extractH, extractC, quadAtZero, eA', eB']
  · have hd : q.g.drop p.g.length = t := by rw [ht]; simp
    simp only [beq_iff_eq, hl, ↓reduceIte, hd]
    simp [extract, cacheOf, extractH, extractC, quadAtZero, eA, eB]

/-! ## calls -/

theorem call_eq_freshIn (p : NLP) (i : CallIn) (d : SolverIn)
    (hh : d.h = some (extractH p)) (hg : d.g = some (extractC p)) (ha : d.a = some (extractA p))
    (r : SolverIn) (hr : call (extract p) d i = .ok r) : r = freshIn p i := by
  unfold call at hr
  split at hr
  · cases hr
  · cases hr
    cases d
    simp only at hh hg ha
    subst hh hg ha
    rfl

/-- a successful call leaves `h`, `g`, `a` alone -/
theorem call_keeps (s : SolverObj) (d r : SolverIn) (i : CallIn) (hr : call s d i = .ok r) :
    r.h = d.h ∧ r.g = d.g ∧ r.a = d.a := by
  unfold call at hr
  split at hr
  · cases hr
  · cases hr; exact ⟨rfl, rfl, rfl⟩

/-- whether a call raises does not depend on the dict -/
theorem call_isOk_indep (s : SolverObj) (d d' : SolverIn) (i : CallIn) :
    (call s d i).isOk = (call s d' i).isOk := by
  unfold call
  split <;> rfl

theorem callsOn_eq_fresh (p : NLP) (is : List CallIn) (d : SolverIn)
    (hh : d.h = some (extractH p)) (hg : d.g = some (extractC p)) (ha : d.a = some (extractA p)) :
    callsOn (extract p) d is = is.map fun i => call (extract p) (extract p).sin i := by
  induction is generalizing d with
  | nil => rfl
  | cons i is ih =>
    rw [callsOn, List.map_cons]
    cases hc : call (extract p) d i with
    | error e =>
      have h0 : call (extract p) (extract p).sin i = .error e := by
        unfold call at hc ⊢
        split at hc
        · rename_i hcond; rw [if_pos hcond]; exact hc
        · cases hc
      simp only [h0]
      rw [ih d hh hg ha]
    | ok r =>
      have hr := call_eq_freshIn p i d hh hg ha r hc
      have h0 : call (extract p) (extract p).sin i = .ok r := by
        have hok : (call (extract p) (extract p).sin i).isOk = true := by
          rw [call_isOk_indep (extract p) (extract p).sin d i, hc]; rfl
        cases h1 : call (extract p) (extract p).sin i with
        | error e => rw [h1] at hok; cases hok
        | ok r' =>
          rw [call_eq_freshIn p i (extract p).sin rfl rfl rfl r' h1, hr]
      simp only [h0]
      obtain ⟨k1, k2, k3⟩ := call_keeps _ _ _ _ hc
      rw [ih r (k1.trans hh) (k2.trans hg) (k3.trans ha)]

/-! ## sessions -/

theorem session_eq_fresh_aux (p0 : NLP) (evs : List (NLP × List CallIn))
    (hc : chainOK (p0 :: evs.map (·.1))) :
    session (some (cacheOf p0)) evs = sessionFresh evs := by
  induction evs generalizing p0 with
  | nil => rfl
  | cons ev rest ih =>
    obtain ⟨q, is⟩ := ev
    simp only [List.map_cons, chainOK] at hc
    rw [session, construct_cached p0 q hc.1]
    simp only [sessionFresh, List.map_cons]
    rw [callsOn_eq_fresh q is (extract q).sin rfl rfl rfl]
    congr 1
    exact ih q hc.2

/-! ## bounds -/

theorem shift_le_fin (lo : EVal) (b v : ℚ) : (shift lo b).le (.fin v) = lo.le (.fin (v + b)) := by
  cases lo with
  | ninf => rfl
  | pinf => rfl
  | fin l =>
    simp only [shift, EVal.le]
    by_cases h : l ≤ v + b
    · have : l - b ≤ v := by linarith
      simp [h, this]
    · have : ¬ l - b ≤ v := fun h' => h (by linarith)
      simp [h, this]

theorem fin_le_shift (hi : EVal) (b v : ℚ) : (EVal.fin v).le (shift hi b) = (EVal.fin (v + b)).le hi := by
  cases hi with
  | ninf => rfl
  | pinf => rfl
  | fin u =>
    simp only [shift, EVal.le]
    by_cases h : v + b ≤ u
    · have : v ≤ u - b := by linarith
      simp [h, this]
    · have : ¬ v ≤ u - b := fun h' => h (by linarith)
      simp [h, this]

theorem inRows_shift (n : ℕ) (g : List AffRow) (lbg ubg : List EVal) (x : ℕ → ℚ) :
    inRows ((jacobian n g).rows.map fun r => dotTo n r x) (subVec lbg (affAtZero g)) (subVec ubg (affAtZero g))
      = inRows (g.map fun r => r.eval n x) lbg ubg := by
  induction g generalizing lbg ubg with
  | nil => cases lbg <;> cases ubg <;> rfl
  | cons r g ih =>
    cases lbg with
    | nil => simp [subVec, inRows]
    | cons l ls =>
      cases ubg with
      | nil => simp [subVec, affAtZero, jacobian, inRows]
      | cons u us =>
        have ih' := ih ls us
        simp only [jacobian, affAtZero, subVec, List.map_cons, List.zipWith_cons_cons, inRows, List.map_map]
          at ih' ⊢
        rw [ih', shift_le_fin, fin_le_shift, dotTo_normalise]
        rfl

end RtcVerif.C17
