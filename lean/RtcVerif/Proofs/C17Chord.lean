import RtcVerif.Model.C17LinOrder
import Mathlib.Analysis.Convex.Mul
import Mathlib.Analysis.Convex.Slope
import Mathlib.Algebra.Order.Field.Rat
import Mathlib.Tactic.Linarith
import Mathlib.Tactic.FieldSimp
import Mathlib.Tactic.Ring
import Mathlib.Tactic.Positivity
/-! Chords of `x^n` majorise it inside their segment and minorise it outside; tangent inequality;
    the maximum of the chords of an increasing knot vector is the chord of the segment one is in. -/
namespace RtcVerif.C17
open Set

def chord (n : ℕ) (a b x : ℚ) : ℚ := a ^ n + (b ^ n - a ^ n) / (b - a) * (x - a)

theorem chord_ge_inside (n : ℕ) (a b x : ℚ) (ha : 0 ≤ a) (hab : a < b) (hax : a ≤ x) (hxb : x ≤ b) :
    x ^ n ≤ chord n a b x := by
  have hc := convexOn_pow (𝕜 := ℚ) n
  unfold chord
  have hba : 0 < b - a := sub_pos.mpr hab
  rcases eq_or_lt_of_le hax with rfl | hax'
  · simp
  rcases eq_or_lt_of_le hxb with rfl | hxb'
  · field_simp; ring_nf; rfl
  have key := hc.secant_mono_aux1 (x := a) (y := x) (z := b) (mem_Ici.mpr ha)
    (mem_Ici.mpr (le_trans ha (le_of_lt hab))) hax' hxb'
  rw [div_mul_eq_mul_div, ← sub_le_iff_le_add', le_div_iff₀ hba]
  nlinarith [key]

theorem chord_le_right (n : ℕ) (a b x : ℚ) (ha : 0 ≤ a) (hab : a < b) (hbx : b ≤ x) :
    chord n a b x ≤ x ^ n := by
  have hc := convexOn_pow (𝕜 := ℚ) n
  unfold chord
  have hba : 0 < b - a := sub_pos.mpr hab
  rcases eq_or_lt_of_le hbx with rfl | hbx'
  · field_simp; ring_nf; rfl
  have key := hc.secant_mono_aux1 (x := a) (y := b) (z := x) (mem_Ici.mpr ha)
    (mem_Ici.mpr (le_trans ha (le_trans (le_of_lt hab) hbx))) hab hbx'
  rw [div_mul_eq_mul_div, ← le_sub_iff_add_le', div_le_iff₀ hba]
  nlinarith [key]

theorem chord_le_left (n : ℕ) (a b x : ℚ) (hx : 0 ≤ x) (hab : a < b) (hxa : x ≤ a) :
    chord n a b x ≤ x ^ n := by
  have hc := convexOn_pow (𝕜 := ℚ) n
  unfold chord
  have hba : 0 < b - a := sub_pos.mpr hab
  rcases eq_or_lt_of_le hxa with rfl | hxa'
  · simp
  have key := hc.secant_mono_aux1 (x := x) (y := a) (z := b) (mem_Ici.mpr hx)
    (mem_Ici.mpr (le_trans hx (le_trans hxa (le_of_lt hab)))) hxa' hab
  rw [div_mul_eq_mul_div, ← le_sub_iff_add_le', div_le_iff₀ hba]
  nlinarith [key]

theorem chord_left (n : ℕ) (a b : ℚ) : chord n a b a = a ^ n := by simp [chord]

theorem chord_right (n : ℕ) (a b : ℚ) (h : a ≠ b) : chord n a b b = b ^ n := by
  unfold chord
  have : b - a ≠ 0 := sub_ne_zero.mpr (Ne.symm h)
  field_simp; ring

theorem lineAt_chordCoef (r : ℕ) (p q x : ℚ) (h : p ≠ q) :
    lineAt (chordCoef r p q) x = chord r p q x := by
  unfold lineAt chordCoef chord
  have : q - p ≠ 0 := sub_ne_zero.mpr (Ne.symm h)
  simp only
  field_simp; ring

/-- tangent inequality (Bernoulli form): `y^(r+1) + (r+1) y^r (x - y) ≤ x^(r+1)` on `x, y ≥ 0` -/
theorem pow_succ_tangent_le (r : ℕ) (x y : ℚ) (hx : 0 ≤ x) (hy : 0 ≤ y) :
    y ^ (r + 1) + ((r : ℚ) + 1) * y ^ r * (x - y) ≤ x ^ (r + 1) := by
  induction r with
  | zero => simp
  | succ r ih =>
    have hyr : 0 ≤ y ^ r := pow_nonneg hy r
    have h1 : x * (y ^ (r + 1) + ((r : ℚ) + 1) * y ^ r * (x - y)) ≤ x * x ^ (r + 1) :=
      mul_le_mul_of_nonneg_left ih hx
    have h2 : 0 ≤ ((r : ℚ) + 1) * y ^ r * (x - y) ^ 2 := by positivity
    push_cast
    have e1 : x ^ (r + 1 + 1) = x * x ^ (r + 1) := by ring
    have e2 : y ^ (r + 1 + 1) = y * y ^ (r + 1) := by ring
    have e3 : y ^ (r + 1) = y * y ^ r := by ring
    rw [e1, e2]
    rw [e3] at h1 ⊢
    nlinarith [h1, h2]

theorem tangentAt_le (r : ℕ) (p x : ℚ) (hp : 0 ≤ p) (hx : 0 ≤ x) : tangentAt r p x ≤ x ^ r := by
  unfold tangentAt
  cases r with
  | zero => simp
  | succ r =>
    have := pow_succ_tangent_le r x p hx hp
    simpa [Nat.add_sub_cancel] using this

/-! ### maximum of lines -/

theorem le_linMax (cs : List (ℚ × ℚ)) (x : ℚ) : ∀ l ∈ cs, lineAt l x ≤ linMax cs x := by
  induction cs with
  | nil => simp
  | cons a rest ih =>
    intro l hl
    cases rest with
    | nil => simp only [List.mem_singleton] at hl; subst hl; simp [linMax]
    | cons b rest' =>
      simp only [linMax]
      rcases List.mem_cons.1 hl with rfl | h
      · exact le_max_left _ _
      · exact le_trans (ih l h) (le_max_right _ _)

theorem linMax_le (cs : List (ℚ × ℚ)) (x v : ℚ) (hne : cs ≠ []) (h : ∀ l ∈ cs, lineAt l x ≤ v) :
    linMax cs x ≤ v := by
  induction cs with
  | nil => exact absurd rfl hne
  | cons a rest ih =>
    cases rest with
    | nil => simpa [linMax] using h a (by simp)
    | cons b rest' =>
      simp only [linMax]
      exact max_le (h a (by simp)) (ih (by simp) (fun l hl => h l (by simp [hl])))

theorem linMax_cons (a b : ℚ × ℚ) (rest : List (ℚ × ℚ)) (x : ℚ) :
    linMax (a :: b :: rest) x = max (lineAt a x) (linMax (b :: rest) x) := rfl

theorem linMax_convex (cs : List (ℚ × ℚ)) (x y t : ℚ) (ht0 : 0 ≤ t) (ht1 : t ≤ 1) :
    linMax cs (t * x + (1 - t) * y) ≤ t * linMax cs x + (1 - t) * linMax cs y := by
  by_cases hne : cs = []
  · subst hne; simp [linMax]
  · apply linMax_le cs _ _ hne
    intro l hl
    have h1 := le_linMax cs x l hl
    have h2 := le_linMax cs y l hl
    have h3 : 0 ≤ 1 - t := by linarith
    have e : lineAt l (t * x + (1 - t) * y) = t * lineAt l x + (1 - t) * lineAt l y := by
      unfold lineAt; ring
    rw [e]
    have := mul_le_mul_of_nonneg_left h1 ht0
    have := mul_le_mul_of_nonneg_left h2 h3
    linarith

theorem linMax_mono (cs : List (ℚ × ℚ)) (x y : ℚ) (hs : ∀ l ∈ cs, 0 ≤ l.1) (hxy : x ≤ y) :
    linMax cs x ≤ linMax cs y := by
  by_cases hne : cs = []
  · subst hne; simp [linMax]
  · apply linMax_le cs _ _ hne
    intro l hl
    refine le_trans ?_ (le_linMax cs y l hl)
    unfold lineAt
    have := mul_le_mul_of_nonneg_left hxy (hs l hl)
    linarith

/-! ### knot vectors -/

/-- consecutive pairs -/
def segs : List ℚ → List (ℚ × ℚ)
  | p :: q :: rest => (p, q) :: segs (q :: rest)
  | _ => []

theorem coeffs_eq_map (r : ℕ) (xs : List ℚ) : coeffs r xs = (segs xs).map fun s => chordCoef r s.1 s.2 := by
  induction xs with
  | nil => rfl
  | cons p rest ih =>
    cases rest with
    | nil => rfl
    | cons q rest' => simp only [coeffs, segs, List.map_cons, ih]

theorem increasing_cons {p q : ℚ} {rest : List ℚ} (h : increasing (p :: q :: rest) = true) :
    p < q ∧ increasing (q :: rest) = true := by
  simpa [increasing] using h

/-- every segment of an increasing list starting at `q` lies to the right of `q` and is non-degenerate -/
theorem segs_right (q : ℚ) (rest : List ℚ) (h : increasing (q :: rest) = true) :
    ∀ s ∈ segs (q :: rest), q ≤ s.1 ∧ s.1 < s.2 := by
  induction rest generalizing q with
  | nil => simp [segs]
  | cons q2 rest' ih =>
    obtain ⟨h1, h2⟩ := increasing_cons h
    intro s hs
    simp only [segs, List.mem_cons] at hs
    rcases hs with rfl | hs
    · exact ⟨le_refl _, h1⟩
    · obtain ⟨h3, h4⟩ := ih q2 h2 s hs
      exact ⟨le_trans (le_of_lt h1) h3, h4⟩

theorem segs_le_last (q : ℚ) (rest : List ℚ) (h : increasing (q :: rest) = true) :
    q ≤ lastD (q :: rest) 0 ∧ ∀ s ∈ segs (q :: rest), s.2 ≤ lastD (q :: rest) 0 := by
  induction rest generalizing q with
  | nil => simp [segs, lastD]
  | cons q2 rest' ih =>
    obtain ⟨h1, h2⟩ := increasing_cons h
    obtain ⟨h3, h4⟩ := ih q2 h2
    have hl : lastD (q :: q2 :: rest') 0 = lastD (q2 :: rest') 0 := rfl
    rw [hl]
    refine ⟨le_trans (le_of_lt h1) h3, ?_⟩
    intro s hs
    simp only [segs, List.mem_cons] at hs
    rcases hs with rfl | hs
    · exact h3
    · exact h4 s hs

/-- left of (or at) the first knot every line of the table is below `x^r` -/
theorem lines_le_pow_left (r : ℕ) (q : ℚ) (rest : List ℚ) (x : ℚ) (h : increasing (q :: rest) = true)
    (hx : 0 ≤ x) (hxq : x ≤ q) : ∀ l ∈ coeffs r (q :: rest), lineAt l x ≤ x ^ r := by
  intro l hl
  rw [coeffs_eq_map] at hl
  obtain ⟨s, hs, rfl⟩ := List.mem_map.1 hl
  obtain ⟨h1, h2⟩ := segs_right q rest h s hs
  rw [lineAt_chordCoef r s.1 s.2 x (ne_of_lt h2)]
  exact chord_le_left r s.1 s.2 x hx h2 (le_trans hxq h1)

/-- **Own chord.**  On an increasing knot vector with non-negative first knot, at any `x` between the
    first and the last knot the maximum of all lines is the chord of a segment containing `x`. -/
theorem linMax_eq_own_chord (r : ℕ) (x : ℚ) (rest : List ℚ) :
    ∀ p q, increasing (p :: q :: rest) = true → 0 ≤ p → p ≤ x → x ≤ lastD (p :: q :: rest) 0 →
      ∃ s ∈ segs (p :: q :: rest), 0 ≤ s.1 ∧ s.1 < s.2 ∧ s.1 ≤ x ∧ x ≤ s.2
        ∧ linMax (coeffs r (p :: q :: rest)) x = chord r s.1 s.2 x := by
  induction rest with
  | nil =>
    intro p q hinc hp hpx hxl
    obtain ⟨hpq, _⟩ := increasing_cons hinc
    refine ⟨(p, q), by simp [segs], hp, hpq, hpx, by simpa [lastD] using hxl, ?_⟩
    simp [coeffs, linMax, lineAt_chordCoef r p q x (ne_of_lt hpq)]
  | cons q2 rest' ih =>
    intro p q hinc hp hpx hxl
    obtain ⟨hpq, hinc'⟩ := increasing_cons hinc
    have hx0 : 0 ≤ x := le_trans hp hpx
    have hco : coeffs r (p :: q :: q2 :: rest') = chordCoef r p q :: coeffs r (q :: q2 :: rest') := rfl
    have hne : coeffs r (q :: q2 :: rest') ≠ [] := by simp [coeffs]
    have hc1 : coeffs r (q :: q2 :: rest') = chordCoef r q q2 :: coeffs r (q2 :: rest') := rfl
    by_cases hxq : x ≤ q
    · refine ⟨(p, q), by simp [segs], hp, hpq, hpx, hxq, ?_⟩
      rw [hco, hc1, linMax_cons, ← hc1, lineAt_chordCoef r p q x (ne_of_lt hpq)]
      apply max_eq_left
      apply linMax_le _ _ _ hne
      intro l hl
      exact le_trans (lines_le_pow_left r q (q2 :: rest') x hinc' hx0 hxq l hl)
        (chord_ge_inside r p q x hp hpq hpx hxq)
    · have hqx : q ≤ x := le_of_lt (not_le.1 hxq)
      have hq0 : 0 ≤ q := le_trans hp (le_of_lt hpq)
      have hxl' : x ≤ lastD (q :: q2 :: rest') 0 := hxl
      obtain ⟨s, hs, hs0, hs12, hs1x, hxs2, heq⟩ := ih q q2 hinc' hq0 hqx hxl'
      refine ⟨s, ?_, hs0, hs12, hs1x, hxs2, ?_⟩
      · show s ∈ (p, q) :: segs (q :: q2 :: rest')
        exact List.mem_cons_of_mem _ hs
      · rw [hco, hc1, linMax_cons, ← hc1, lineAt_chordCoef r p q x (ne_of_lt hpq), heq]
        apply max_eq_right
        exact le_trans (chord_le_right r p q x hp hpq hqx)
          (chord_ge_inside r s.1 s.2 x hs0 hs12 hs1x hxs2)

/-- on its own segment the chord exceeds `x^r` by at most the chord-vs-tangent gap at the right knot -/
theorem chord_sub_pow_le_segGap (r : ℕ) (p q x : ℚ) (hp : 0 ≤ p) (hpq : p < q) (hpx : p ≤ x) (hxq : x ≤ q) :
    chord r p q x - x ^ r ≤ segGap r p q := by
  have hx0 : 0 ≤ x := le_trans hp hpx
  have hq0 : 0 ≤ q := le_trans hp (le_of_lt hpq)
  have ht := tangentAt_le r p x hp hx0
  have htq := tangentAt_le r p q hp hq0
  have hqp : 0 < q - p := sub_pos.mpr hpq
  unfold segGap
  unfold tangentAt at ht htq ⊢
  unfold chord
  set a := (q ^ r - p ^ r) / (q - p) with ha
  set t := (r : ℚ) * p ^ (r - 1) with htdef
  have haq : a * (q - p) = q ^ r - p ^ r := by
    rw [ha]; field_simp
  have hat : t ≤ a := by
    by_contra hcon
    have hlt : a < t := not_le.1 hcon
    have := mul_lt_mul_of_pos_right hlt hqp
    linarith
  have h1 : (a - t) * (x - p) ≤ (a - t) * (q - p) :=
    mul_le_mul_of_nonneg_left (by linarith) (by linarith)
  nlinarith [h1, haq]

theorem slope_nonneg (r : ℕ) (p q : ℚ) (hp : 0 ≤ p) (hpq : p < q) : 0 ≤ (chordCoef r p q).1 := by
  unfold chordCoef
  simp only
  apply div_nonneg
  · have := pow_le_pow_left₀ hp (le_of_lt hpq) r
    linarith
  · linarith

end RtcVerif.C17
