import RtcVerif.Model.C17SinglePass
import RtcVerif.Proofs.C03Cert
import Mathlib.Algebra.Order.Field.Rat
import Mathlib.Tactic.Linarith
import Mathlib.Tactic.Ring
import Mathlib.Tactic.FieldSimp
/-! Lemmas on the constraint sets of the three goal-programming loops. -/
namespace RtcVerif.C17
open RtcVerif.C03

theorem rowsFeasible_iff (l : List Row) (x : List Rat) :
    rowsFeasible l x = true ↔ ∀ r ∈ l, inBnd r.lo r.hi (rowDot r.coefs x + r.b0) = true := by
  induction l with
  | nil => simp [rowsFeasible]
  | cons r rest ih => simp [rowsFeasible, ih]

theorem rowsFeasible_append (a b : List Row) (x : List Rat) :
    rowsFeasible (a ++ b) x = (rowsFeasible a x && rowsFeasible b x) := by
  induction a with
  | nil => simp [rowsFeasible]
  | cons r rest ih => simp [rowsFeasible, ih, Bool.and_assoc]

theorem inBnd_unbounded (v : Rat) : inBnd EVal.ninf EVal.pinf v = true := by
  simp [inBnd, EVal.le]

/-- pre-allocated objective rows: the rows of unsolved priorities are vacuous -/
theorem updateObj_aux (l : List (Row × (EVal × EVal))) (s k : Nat) (x : List Rat) :
    rowsFeasible ((l.zipIdx s).map fun rbi =>
        if rbi.2 < k then withBnd rbi.1.1 rbi.1.2 else withBnd rbi.1.1 (EVal.ninf, EVal.pinf)) x
      = rowsFeasible ((l.take (k - s)).map fun rb => withBnd rb.1 rb.2) x := by
  induction l generalizing s with
  | nil => simp
  | cons rb rest ih =>
    simp only [List.zipIdx_cons, List.map_cons]
    by_cases h : s < k
    · have hk : k - s = (k - (s + 1)) + 1 := by omega
      rw [hk, List.take_succ_cons, List.map_cons]
      simp only [h, if_true, rowsFeasible, ih (s + 1)]
    · have hk : k - s = 0 := by omega
      have hk1 : k - (s + 1) = 0 := by omega
      have hih := ih (s + 1)
      rw [hk1] at hih
      simp only [h, if_false, hk, List.take_zero, List.map_nil, rowsFeasible]
      rw [hih]
      simp [rowsFeasible, withBnd, inBnd_unbounded]

theorem rowDot_append (a b : SRow) (x : List Rat) : rowDot (a ++ b) x = rowDot a x + rowDot b x := by
  induction a with
  | nil => simp [rowDot]
  | cons jv rest ih => obtain ⟨j, v⟩ := jv; simp [rowDot, ih]; ring

theorem rowDot_scale (f : SRow) (n : Rat) (x : List Rat) :
    rowDot (f.map fun jv => (jv.1, jv.2 / n)) x = rowDot f x / n := by
  induction f with
  | nil => simp [rowDot]
  | cons jv rest ih => obtain ⟨j, v⟩ := jv; simp [rowDot, ih]; ring

theorem getD_setAt_ne (x : List Rat) (e j : Nat) (a : Rat) (h : j ≠ e) :
    (setAt x e a).getD j 0 = x.getD j 0 := by
  induction x generalizing e j with
  | nil => simp [setAt]
  | cons v xs ih =>
    cases e with
    | zero =>
      cases j with
      | zero => exact absurd rfl h
      | succ j => simp [setAt]
    | succ e =>
      cases j with
      | zero => simp [setAt]
      | succ j => simpa [setAt] using ih e j (by omega)

theorem getD_setAt_eq (x : List Rat) (e : Nat) (a : Rat) (h : e < x.length) :
    (setAt x e a).getD e 0 = a := by
  induction x generalizing e with
  | nil => simp at h
  | cons v xs ih =>
    cases e with
    | zero => simp [setAt]
    | succ e => simpa [setAt] using ih e (by simpa using h)

theorem setAt_length (x : List Rat) (e : Nat) (a : Rat) : (setAt x e a).length = x.length := by
  induction x generalizing e with
  | nil => rfl
  | cons v xs ih => cases e <;> simp [setAt, ih]

/-- a row that does not mention coordinate `e` does not see a change of it -/
theorem rowDot_setAt_of_not_mem (row : SRow) (x : List Rat) (e : Nat) (a : Rat)
    (h : ∀ jv ∈ row, jv.1 ≠ e) : rowDot row (setAt x e a) = rowDot row x := by
  induction row with
  | nil => simp [rowDot]
  | cons jv rest ih =>
    obtain ⟨j, v⟩ := jv
    have hj : j ≠ e := h (j, v) (by simp)
    simp only [rowDot, getD_setAt_ne x e j a hj]
    rw [ih (fun jv hjv => h jv (by simp [hjv]))]

end RtcVerif.C17

namespace RtcVerif.C17
open RtcVerif.C03

theorem rowsFeasible_setAt_of_not_mem (rows : List Row) (x : List Rat) (e : Nat) (a : Rat)
    (h : ∀ r ∈ rows, ∀ jv ∈ r.coefs, jv.1 ≠ e) :
    rowsFeasible rows (setAt x e a) = rowsFeasible rows x := by
  induction rows with
  | nil => simp [rowsFeasible]
  | cons r rest ih =>
    simp only [rowsFeasible]
    rw [rowDot_setAt_of_not_mem r.coefs x e a (h r (by simp)),
      ih (fun r' hr' => h r' (by simp [hr']))]

theorem soft_value_at_one (f : SRow) (f0 : Rat) (e : Nat) (bound target nominal : Rat) (lo hi : EVal)
    (x : List Rat) (he : e < x.length) (hf : ∀ jv ∈ f, jv.1 ≠ e) :
    rowDot (softRow f f0 e bound target nominal lo hi).coefs (setAt x e 1)
        + (softRow f f0 e bound target nominal lo hi).b0
      = (rowDot f x + f0 - bound) / nominal := by
  simp only [softRow, rowDot_append, rowDot_scale, rowDot, getD_setAt_eq x e 1 he,
    rowDot_setAt_of_not_mem f x e 1 hf]
  ring

/-- the two soft rows of a later goal hold once its epsilon is 1 and the function is in its range -/
theorem later_rows_feasible (g : Later) (x : List Rat) (hnom : 0 < g.nominal) (he : g.e < x.length)
    (hf : ∀ jv ∈ g.f, jv.1 ≠ g.e) (hlo : g.m ≤ rowDot g.f x + g.f0) (hhi : rowDot g.f x + g.f0 ≤ g.M) :
    rowsFeasible g.rows (setAt x g.e 1) = true := by
  have h1 := soft_value_at_one g.f g.f0 g.e g.m g.tmin g.nominal (.fin 0) .pinf x he hf
  have h2 := soft_value_at_one g.f g.f0 g.e g.M g.tmax g.nominal .ninf (.fin 0) x he hf
  have a1 : 0 ≤ (rowDot g.f x + g.f0 - g.m) / g.nominal := div_nonneg (by linarith) (le_of_lt hnom)
  have a2 : (rowDot g.f x + g.f0 - g.M) / g.nominal ≤ 0 :=
    div_nonpos_of_nonpos_of_nonneg (by linarith) (le_of_lt hnom)
  simp only [Later.rows, rowsFeasible, Bool.and_true, Bool.and_eq_true, inBnd, h1, h2]
  simp [softRow, EVal.le, a1, a2]

theorem later_rows_coefs (g : Later) : ∀ r ∈ g.rows, ∀ jv ∈ r.coefs, jv.1 = g.e ∨ ∃ jv' ∈ g.f, jv'.1 = jv.1 := by
  intro r hr jv hjv
  simp only [Later.rows, List.mem_cons, List.not_mem_nil, or_false] at hr
  rcases hr with rfl | rfl <;>
  · simp only [softRow, List.mem_append, List.mem_map, List.mem_singleton] at hjv
    rcases hjv with ⟨jv', hjv', rfl⟩ | rfl
    · exact Or.inr ⟨jv', hjv', rfl⟩
    · exact Or.inl rfl

/-- **extension**: rows that mention none of the later epsilons stay satisfied, and all soft rows of
    the later goals become satisfied, when those epsilons are put to 1 -/
theorem extend_later (gs : List Later) :
    ∀ (done : List Row) (x : List Rat), rowsFeasible done x = true →
      (∀ g ∈ gs, 0 < g.nominal ∧ g.e < x.length ∧ g.m ≤ rowDot g.f x + g.f0 ∧ rowDot g.f x + g.f0 ≤ g.M) →
      (∀ g ∈ gs, ∀ r ∈ done, ∀ jv ∈ r.coefs, jv.1 ≠ g.e) →
      (∀ g ∈ gs, ∀ g' ∈ gs, ∀ jv ∈ g'.f, jv.1 ≠ g.e) →
      distinctEps gs →
      rowsFeasible (done ++ gs.flatMap Later.rows) (setAll x gs) = true := by
  induction gs with
  | nil => intro done x h _ _ _ _; simpa [setAll] using h
  | cons g rest ih =>
    intro done x hdone hc hd hff hdist
    obtain ⟨hnom, he, hlo, hhi⟩ := hc g (by simp)
    have hfg : ∀ jv ∈ g.f, jv.1 ≠ g.e := hff g (by simp) g (by simp)
    have h1 : rowsFeasible done (setAt x g.e 1) = true := by
      rw [rowsFeasible_setAt_of_not_mem done x g.e 1 (hd g (by simp))]; exact hdone
    have h2 := later_rows_feasible g x hnom he hfg hlo hhi
    have hdone1 : rowsFeasible (done ++ g.rows) (setAt x g.e 1) = true := by
      rw [rowsFeasible_append, h1, h2]; rfl
    have hc' : ∀ g' ∈ rest, 0 < g'.nominal ∧ g'.e < (setAt x g.e 1).length
        ∧ g'.m ≤ rowDot g'.f (setAt x g.e 1) + g'.f0 ∧ rowDot g'.f (setAt x g.e 1) + g'.f0 ≤ g'.M := by
      intro g' hg'
      obtain ⟨a, b, c, d⟩ := hc g' (by simp [hg'])
      have hnm : ∀ jv ∈ g'.f, jv.1 ≠ g.e := hff g (by simp) g' (by simp [hg'])
      rw [setAt_length, rowDot_setAt_of_not_mem g'.f x g.e 1 hnm]
      exact ⟨a, b, c, d⟩
    have hd' : ∀ g' ∈ rest, ∀ r ∈ done ++ g.rows, ∀ jv ∈ r.coefs, jv.1 ≠ g'.e := by
      intro g' hg' r hr jv hjv
      rcases List.mem_append.1 hr with hr | hr
      · exact hd g' (by simp [hg']) r hr jv hjv
      · rcases later_rows_coefs g r hr jv hjv with h | ⟨jv', hjv', h⟩
        · rw [h]; exact fun hcon => (hdist.1 g' hg') hcon.symm
        · rw [← h]; exact hff g' (by simp [hg']) g (by simp) jv' hjv'
    have hff' : ∀ a ∈ rest, ∀ b ∈ rest, ∀ jv ∈ b.f, jv.1 ≠ a.e :=
      fun a ha b hb => hff a (by simp [ha]) b (by simp [hb])
    have := ih (done ++ g.rows) (setAt x g.e 1) hdone1 hc' hd' hff' hdist.2
    simpa [setAll, List.flatMap_cons, List.append_assoc] using this

end RtcVerif.C17

namespace RtcVerif.C17
open RtcVerif.C03

theorem getD_setAll (gs : List Later) (x : List Rat) (j : Nat) (h : ∀ g ∈ gs, g.e ≠ j) :
    (setAll x gs).getD j 0 = x.getD j 0 := by
  induction gs generalizing x with
  | nil => rfl
  | cons g rest ih =>
    simp only [setAll]
    rw [ih (setAt x g.e 1) (fun g' hg' => h g' (by simp [hg']))]
    exact getD_setAt_ne x g.e j 1 (fun hcon => h g (by simp) hcon.symm)

theorem setAll_length (gs : List Later) (x : List Rat) : (setAll x gs).length = x.length := by
  induction gs generalizing x with
  | nil => rfl
  | cons g rest ih => simp [setAll, ih, setAt_length]

theorem flatten_take_drop (l : List (List Row)) (n : Nat) :
    l.flatten = (l.take n).flatten ++ (l.drop n).flatten := by
  rw [← List.flatten_append, List.take_append_drop]

end RtcVerif.C17
