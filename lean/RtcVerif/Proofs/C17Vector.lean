import RtcVerif.Model.C17Vector
import RtcVerif.Proofs.C03Objective
/-! Lemmas for `vector_goal_eq_scalars`. -/
namespace RtcVerif.C17
open RtcVerif.C03

theorem getD_map_getD (rows : List (List XVal)) (c i : Nat) :
    (rows.map fun r => r.getD c XVal.nan).getD i XVal.nan = (rows.getD i []).getD c XVal.nan := by
  induction rows generalizing i with
  | nil => simp
  | cons r rest ih =>
    cases i with
    | zero => simp
    | succ i => simpa using ih i

/-- column `c` of a target, read as a scalar goal's target, has the entries of column `c` -/
theorem compTarget_entry (t : Target) (c i : Nat) : (compTarget t c).entry 0 i = t.entry c i := by
  cases t with
  | scalar v => rfl
  | vec vs => simp [compTarget, Target.entry]
  | ts1 vs => rfl
  | ts2 rows =>
    simp only [compTarget, Target.entry]
    exact getD_map_getD rows c i

theorem compGoal_activeAt (g : Goal) (c i : Nat) : (compGoal g c).activeAt 0 i = g.activeAt c i := by
  simp [Goal.activeAt, compGoal, compTarget_entry]

theorem compGoal_activeCount (g : Goal) (T c : Nat) : (compGoal g c).activeCount T 0 = g.activeCount T c := by
  simp [Goal.activeCount, compGoal_activeAt]

theorem compGoal_nominalAt (g : Goal) (c : Nat) : (compGoal g c).nominalAt 0 = g.nominalAt c := by
  simp [Goal.nominalAt, compGoal]

theorem splitOK_at {g : Goal} (h : splitOK g = true) {c : Nat} (hc : c < g.size) :
    (compGoal g c).hasBounds = g.hasBounds := by
  simp only [splitOK, List.all_eq_true, List.mem_range, beq_iff_eq] at h
  exact h c hc

theorem compGoal_nActiveDoc (g : Goal) (sbs : Bool) (T c : Nat) (hb : (compGoal g c).hasBounds = g.hasBounds) :
    nActiveDoc (compGoal g c) sbs true T 0 = nActiveDoc g sbs true T c := by
  simp [nActiveDoc, hb, compGoal_activeCount]

theorem compGoal_base (g : Goal) (isPath : Bool) (j f c m i : Nat) (val val' : Val)
    (hb : (compGoal g c).hasBounds = g.hasBounds) (hv : val' isPath f 0 m i = val isPath j c m i) :
    base (compGoal g c) isPath f val' m i 0 = base g isPath j val m i c := by
  simp [base, hb, hv, compGoal_nominalAt]

/-! ### enumeration of both formulations by `quads` -/

theorem indexFrom_append (K : Nat) (a b : List Goal) :
    indexFrom K (a ++ b) = indexFrom K a ++ indexFrom (K + a.length) b := by
  induction a generalizing K with
  | nil => simp [indexFrom]
  | cons g a ih =>
    simp only [List.cons_append, indexFrom, List.length_cons]
    rw [ih]
    have : K + 1 + a.length = K + (a.length + 1) := by omega
    rw [this]

theorem indexFrom_map_range (K n : Nat) (f : Nat → Goal) (s : Nat) :
    indexFrom (K + s) ((List.range' s n).map f) = (List.range' s n).map fun c => (f c, K + c) := by
  induction n generalizing s with
  | zero => simp [indexFrom]
  | succ n ih =>
    simp only [List.range'_succ, List.map_cons, indexFrom]
    congr 1
    have := ih (s + 1)
    simpa [Nat.add_assoc] using this

theorem indexFrom_split (K : Nat) (g : Goal) :
    indexFrom K (split g) = (List.range g.size).map fun c => (compGoal g c, K + c) := by
  have := indexFrom_map_range K g.size (compGoal g) 0
  simpa [split, List.range_eq_range'] using this

theorem split_length (g : Goal) : (split g).length = g.size := by simp [split]

/-- the indexed scalar goals, read off the quadruples -/
theorem indexFrom_splitAll (k K : Nat) (gs : List Goal) :
    indexFrom K (splitAll gs) = (quads k K gs).map fun q => (compGoal q.1 q.2.2.1, q.2.2.2) := by
  induction gs generalizing k K with
  | nil => simp [splitAll, quads, indexFrom]
  | cons g gs ih =>
    have h : splitAll (g :: gs) = split g ++ splitAll gs := by simp [splitAll]
    rw [h, indexFrom_append, indexFrom_split, split_length, ih (k + 1) (K + g.size)]
    simp [quads, List.map_append, List.map_map, Function.comp]

/-- a double sum over indexed vector goals and their components, read off the quadruples -/
theorem sum_indexFrom_quads (k K : Nat) (gs : List Goal) (H : Goal → Nat → Nat → Rat) :
    ((indexFrom k gs).map fun gj => ((List.range gj.1.size).map fun c => H gj.1 gj.2 c).sum).sum
      = ((quads k K gs).map fun q => H q.1 q.2.1 q.2.2.1).sum := by
  induction gs generalizing k K with
  | nil => simp [quads, indexFrom]
  | cons g gs ih =>
    simp only [indexFrom, quads, List.map_cons, List.sum_cons, List.map_append, List.sum_append,
      List.map_map]
    rw [ih (k + 1) (K + g.size)]
    rfl

theorem quads_mem_size (k K : Nat) (gs : List Goal) :
    ∀ q ∈ quads k K gs, q.1 ∈ gs ∧ q.2.2.1 < q.1.size := by
  induction gs generalizing k K with
  | nil => simp [quads]
  | cons g gs ih =>
    intro q hq
    simp only [quads, List.mem_append, List.mem_map, List.mem_range] at hq
    rcases hq with ⟨c, hc, rfl⟩ | hq
    · exact ⟨by simp, hc⟩
    · obtain ⟨h1, h2⟩ := ih (k + 1) (K + g.size) q hq
      exact ⟨by simp [h1], h2⟩

theorem quads_sub (k K : Nat) (g : Goal) (gs : List Goal) :
    ∀ q ∈ quads (k + 1) (K + g.size) gs, q ∈ quads k K (g :: gs) := by
  intro q hq; simp [quads, hq]

/-- number of objective entries: the same in both formulations -/
theorem nGoals_splitAll (gs : List Goal) :
    (((splitAll gs).filter fun g => !g.critical).map (·.size)).sum
      = ((gs.filter fun g => !g.critical).map (·.size)).sum := by
  induction gs with
  | nil => simp [splitAll]
  | cons g gs ih =>
    have h : splitAll (g :: gs) = split g ++ splitAll gs := by simp [splitAll]
    rw [h, List.filter_append, List.map_append, List.sum_append, ih]
    have hs : (((split g).filter fun g => !g.critical).map (·.size)).sum = if !g.critical then g.size else 0 := by
      rw [natsum_filter']
      simp only [split, List.map_map]
      cases hc : g.critical <;> simp [Function.comp_def, compGoal, hc]
    rw [hs]
    cases hc : g.critical <;> simp [hc]

end RtcVerif.C17

namespace RtcVerif.C17
open RtcVerif.C03

theorem ite_sum_range (b : Bool) (n : Nat) (f : Nat → Rat) :
    (if b then ((List.range n).map f).sum else 0) = ((List.range n).map fun c => if b then f c else 0).sum := by
  cases b <;> simp

theorem docPoint_comp (val' : Val) (m : Nat) (g : Goal) (c f : Nat) :
    docPoint val' m (compGoal g c, f) = g.weight * (base (compGoal g c) false f val' m 0 0) ^ g.order := by
  simp [docPoint, compGoal]

theorem docPath_comp (sbs : Bool) (T : Nat) (val' : Val) (m : Nat) (g : Goal) (c f : Nat) :
    docPath sbs T val' m (compGoal g c, f)
      = ((List.range T).map fun i => g.weight * (base (compGoal g c) true f val' m i 0) ^ g.order).sum
          / nActiveDoc (compGoal g c) sbs true T 0 := by
  simp [docPath, compGoal]

/-- point goals: the documented sum over the scalar goals equals the one over the vector goals -/
theorem point_sum_eq (m : Nat) (gs : List Goal) (val val' : Val)
    (hok : ∀ g ∈ gs, splitOK g = true) (hv : valsAgree false gs val val') :
    (((indexed (splitAll gs)).filter fun gj => !gj.1.critical).map (docPoint val' m)).sum
      = (((indexed gs).filter fun gj => !gj.1.critical).map (docPoint val m)).sum := by
  rw [sum_filter', sum_filter']
  have hr : ((indexed gs).map fun gj => if !gj.1.critical then docPoint val m gj else 0).sum
      = ((quads 0 0 gs).map fun q =>
          if !q.1.critical then q.1.weight * (base q.1 false q.2.1 val m 0 q.2.2.1) ^ q.1.order else 0).sum := by
    rw [← sum_indexFrom_quads 0 0 gs
      (fun g j c => if !g.critical then g.weight * (base g false j val m 0 c) ^ g.order else 0)]
    apply sum_map_congr'
    intro gj _
    simp only [docPoint]
    exact ite_sum_range _ _ _
  rw [hr, indexed, indexFrom_splitAll 0 0 gs, List.map_map]
  apply sum_map_congr'
  intro q hq
  obtain ⟨hmem, hc⟩ := quads_mem_size 0 0 gs q hq
  have hb := splitOK_at (hok q.1 hmem) hc
  have hcr : (compGoal q.1 q.2.2.1).critical = q.1.critical := rfl
  simp only [Function.comp, hcr, docPoint_comp]
  rw [compGoal_base q.1 false q.2.1 q.2.2.2 q.2.2.1 m 0 val val' hb (hv q hq m 0)]

/-- path goals: likewise, including the per-component divisor `n_active` -/
theorem path_sum_eq (sbs : Bool) (T m : Nat) (gs : List Goal) (val val' : Val)
    (hok : ∀ g ∈ gs, splitOK g = true) (hv : valsAgree true gs val val') :
    (((indexed (splitAll gs)).filter fun gj => !gj.1.critical).map (docPath sbs T val' m)).sum
      = (((indexed gs).filter fun gj => !gj.1.critical).map (docPath sbs T val m)).sum := by
  rw [sum_filter', sum_filter']
  have hr : ((indexed gs).map fun gj => if !gj.1.critical then docPath sbs T val m gj else 0).sum
      = ((quads 0 0 gs).map fun q =>
          if !q.1.critical then
            ((List.range T).map fun i => q.1.weight * (base q.1 true q.2.1 val m i q.2.2.1) ^ q.1.order).sum
              / nActiveDoc q.1 sbs true T q.2.2.1
          else 0).sum := by
    rw [← sum_indexFrom_quads 0 0 gs
      (fun g j c => if !g.critical then
          ((List.range T).map fun i => g.weight * (base g true j val m i c) ^ g.order).sum
            / nActiveDoc g sbs true T c else 0)]
    apply sum_map_congr'
    intro gj _
    simp only [docPath]
    exact ite_sum_range _ _ _
  rw [hr, indexed, indexFrom_splitAll 0 0 gs, List.map_map]
  apply sum_map_congr'
  intro q hq
  obtain ⟨hmem, hc⟩ := quads_mem_size 0 0 gs q hq
  have hb := splitOK_at (hok q.1 hmem) hc
  have hcr : (compGoal q.1 q.2.2.1).critical = q.1.critical := rfl
  simp only [Function.comp, hcr, docPath_comp, compGoal_nActiveDoc q.1 sbs T q.2.2.1 hb]
  have hi : ∀ i, base (compGoal q.1 q.2.2.1) true q.2.2.2 val' m i 0 = base q.1 true q.2.1 val m i q.2.2.1 :=
    fun i => compGoal_base q.1 true q.2.1 q.2.2.2 q.2.2.1 m i val val' hb (hv q hq m i)
  simp only [hi]

theorem nGoalsDoc_splitAll (goals pathGoals : List Goal) :
    nGoalsDoc (splitAll goals) (splitAll pathGoals) = nGoalsDoc goals pathGoals := by
  simp only [nGoalsDoc, nGoals_splitAll]

end RtcVerif.C17
