import RtcVerif.Model.C18Homotopy
import Mathlib.Tactic.Linarith
import Mathlib.Tactic.NormNum
import Mathlib.Tactic.Ring
import Mathlib.Algebra.Order.Field.Rat
import Mathlib.Algebra.Order.Field.Basic
/-!
Helper lemmas for C18: the invariant of the repaired homotopy loop, the specification of the
solve log (`LogOK`), one-step lemmas, the potential used for termination.
-/
namespace RtcVerif.C18

/-- smallest amount by which a pass that keeps the loop running lowers the potential -/
def mu (o : Opts) : Rat := min o.delta0 o.deltaMin

/-- potential: distance to 1 plus twice the increment -/
def pot (s : St) : Rat := (1 - s.theta) + 2 * s.delta

/-- What the log says about an entry `e`, given the entries `t` before it (newest first). -/
def EntryOK (o : Opts) (t : List Solve) (e : Solve) : Prop :=
  o.thetaStart ≤ e.theta ∧ e.theta ≤ 1 ∧ 0 < e.delta ∧
  match t with
  | [] => e.theta = o.thetaStart ∧ e.delta = o.delta0 ∧ e.seed = .base
  | p :: _ =>
      o.thetaStart < e.theta ∧
      (∃ a, lastAcc t = some a ∧ e.seed = .stored a ∧ e.theta = a + e.delta ∧ o.thetaStart ≤ a) ∧
      (p.ok = true → p.theta < 1 ∧ e.theta = min (p.theta + p.delta) 1 ∧
          e.delta = min p.delta (1 - p.theta) ∧ p.theta < e.theta) ∧
      (p.ok = false → e.theta = p.theta - p.delta / 2 ∧ e.delta = p.delta / 2 ∧ e.theta < p.theta ∧
          o.deltaMin ≤ p.delta / 2)

/-- every entry of the log (newest first) is as specified relative to its own history -/
def LogOK (o : Opts) : List Solve → Prop
  | [] => True
  | e :: t => EntryOK o t e ∧ LogOK o t

/-- invariant of the running loop (holds whenever a solve is about to start) -/
structure Inv (o : Opts) (s : St) : Prop where
  log : LogOK o s.solves
  accEq : s.acc = lastAcc s.solves
  next : ∀ ok, EntryOK o s.solves ⟨s.theta, s.delta, ok, seedOf o s⟩
  dmin : s.theta < 1 → mu o ≤ s.delta

/-! ### field projections of the small state transformers -/
section proj
variable (o : Opts) (s : St) (ok : Bool)

@[simp] theorem push_theta : (push o s ok).theta = s.theta := rfl
@[simp] theorem push_delta : (push o s ok).delta = s.delta := rfl
@[simp] theorem push_acc : (push o s ok).acc = s.acc := rfl
@[simp] theorem push_solves :
    (push o s ok).solves = ⟨s.theta, s.delta, ok, seedOf o s⟩ :: s.solves := rfl

@[simp] theorem mark_theta : (mark s).theta = s.theta := by unfold mark; split <;> rfl
@[simp] theorem mark_delta : (mark s).delta = s.delta := by unfold mark; split <;> rfl
@[simp] theorem mark_acc : (mark s).acc = s.acc := by unfold mark; split <;> rfl
@[simp] theorem mark_solves : (mark s).solves = s.solves := by unfold mark; split <;> rfl

@[simp] theorem accept_theta : (accept s).theta = s.theta := by simp [accept]
@[simp] theorem accept_delta : (accept s).delta = s.delta := by simp [accept]
@[simp] theorem accept_acc : (accept s).acc = some s.theta := by simp [accept]
@[simp] theorem accept_solves : (accept s).solves = s.solves := by simp [accept]

@[simp] theorem stepBack_theta : (stepBack s).theta = s.theta - s.delta := rfl
@[simp] theorem stepBack_delta : (stepBack s).delta = s.delta / 2 := rfl
@[simp] theorem stepBack_acc : (stepBack s).acc = s.acc := rfl
@[simp] theorem stepBack_solves : (stepBack s).solves = s.solves := rfl

@[simp] theorem advance_acc : (advance s).acc = s.acc := by unfold advance; split <;> rfl
@[simp] theorem advance_solves : (advance s).solves = s.solves := by unfold advance; split <;> rfl
theorem advance_theta : (advance s).theta = min (s.theta + s.delta) 1 := by
  unfold advance; split
  · rename_i h; simp [min_eq_right h]
  · rename_i h; simp only [ge_iff_le, not_le] at h; simp [min_eq_left (le_of_lt h)]
theorem advance_delta : (advance s).delta = min s.delta (1 - s.theta) := by
  unfold advance; split
  · rename_i h; simp only [ge_iff_le] at h; simp; linarith
  · rename_i h; simp only [ge_iff_le, not_le] at h; simp; linarith

/-- the `while` test after `advance` never ends the loop -/
theorem guard_advance : guard (advance s) ok = (advance s, .running) := by
  unfold guard
  rw [if_pos]
  rw [advance_theta]; exact min_le_right _ _

end proj

theorem lastAcc_cons (e : Solve) (t : List Solve) :
    lastAcc (e :: t) = if e.ok then some e.theta else lastAcc t := rfl

theorem inv_init (o : Opts) (h1 : o.thetaStart ≤ 1) (hd : 0 < o.delta0) : Inv o (init o) where
  log := trivial
  accEq := rfl
  next := fun _ => ⟨le_refl _, h1, hd, rfl, rfl, by simp [seedOf, init]⟩
  dmin := fun _ => min_le_left _ _

/-! ### reading the invariant -/

theorem Inv.lo {o s} (h : Inv o s) : o.thetaStart ≤ s.theta := (h.next true).1
theorem Inv.hi {o s} (h : Inv o s) : s.theta ≤ 1 := (h.next true).2.1
theorem Inv.dpos {o s} (h : Inv o s) : 0 < s.delta := (h.next true).2.2.1

/-- before the first solve: nothing accepted, theta is still `theta_start` -/
theorem Inv.first {o s} (h : Inv o s) (hs : s.solves = []) :
    s.acc = none ∧ s.theta = o.thetaStart ∧ s.delta = o.delta0 := by
  have h1 := h.accEq
  have h2 := (h.next true).2.2.2
  rw [hs] at h1 h2
  exact ⟨h1, h2.1, h2.2.1⟩

/-- after the first solve: an accepted solve exists and `theta = accepted + delta` -/
theorem Inv.later {o s} (h : Inv o s) (hs : s.solves ≠ []) :
    o.thetaStart < s.theta ∧ ∃ a, s.acc = some a ∧ s.theta = a + s.delta ∧ o.thetaStart ≤ a := by
  obtain ⟨p, t, hpt⟩ := List.exists_cons_of_ne_nil hs
  have h2 := (h.next true).2.2.2
  have h1 := h.accEq
  rw [hpt] at h2
  simp only at h2
  obtain ⟨hlt, ⟨a, ha, _, hth, hle⟩, _⟩ := h2
  rw [hpt] at h1
  exact ⟨hlt, a, h1.trans ha, hth, hle⟩

/-- the code's test `theta == theta_start` is exactly "this is the first solve" -/
theorem Inv.theta_eq_start_iff {o s} (h : Inv o s) : s.theta = o.thetaStart ↔ s.solves = [] := by
  constructor
  · intro heq
    by_contra hne
    have := (h.later hne).1
    linarith
  · intro hs; exact (h.first hs).2.1

theorem seedOf_later {o s} (h : Inv o s) (hs : s.solves ≠ []) :
    ∃ a, s.acc = some a ∧ seedOf o s = .stored a := by
  obtain ⟨hlt, a, ha, _, _⟩ := h.later hs
  exact ⟨a, ha, by simp [seedOf, hlt, ha]⟩

/-! ### one pass of the loop body -/

/-- closed form of the loop body under the invariant -/
theorem step_true_ge {o s} (h1 : 1 ≤ s.theta) :
    step o s true = (accept (push o s true), .finished true) := by
  unfold step
  simp only [if_true, accept_theta, push_theta, ge_iff_le, h1]

theorem step_true_one {o s} (h1 : s.theta = 1) :
    step o s true = (accept (push o s true), .finished true) := step_true_ge (le_of_eq h1.symm)

theorem step_true_lt {o s} (hlt : s.theta < 1) :
    step o s true = (advance (accept (push o s true)), .running) := by
  unfold step
  simp only [if_true, accept_theta, push_theta, ge_iff_le, not_le.2 hlt, if_false, guard_advance]

theorem step_false_first {o s} (h0 : s.theta = o.thetaStart) :
    step o s false = (push o s false, .finished false) := by
  unfold step
  simp only [Bool.false_eq_true, if_false, push_theta, h0, if_true]

theorem step_false_min {o s} (h0 : s.theta ≠ o.thetaStart) (hd : s.delta / 2 < o.deltaMin) :
    step o s false = (stepBack (push o s false), .finished false) := by
  unfold step
  simp only [Bool.false_eq_true, if_false, push_theta, h0, stepBack_delta, push_delta, hd, if_true]

theorem step_false_cont {o s} (h0 : s.theta ≠ o.thetaStart) (hd : ¬ s.delta / 2 < o.deltaMin) :
    step o s false = (advance (stepBack (push o s false)), .running) := by
  unfold step
  simp only [Bool.false_eq_true, if_false, push_theta, h0, stepBack_delta, push_delta, hd,
    guard_advance]

theorem step_solves (o : Opts) (s : St) (ok : Bool) :
    (step o s ok).1.solves = ⟨s.theta, s.delta, ok, seedOf o s⟩ :: s.solves := by
  cases ok
  · by_cases h0 : s.theta = o.thetaStart
    · rw [step_false_first h0]; simp
    · by_cases hd : s.delta / 2 < o.deltaMin
      · rw [step_false_min h0 hd]; simp
      · rw [step_false_cont h0 hd]; simp
  · by_cases h1 : 1 ≤ s.theta
    · rw [step_true_ge h1]; simp
    · rw [step_true_lt (not_le.1 h1)]; simp

/-- the stored results are always those of the last accepted solve of the log -/
theorem step_acc {o s} (h : s.acc = lastAcc s.solves) (ok : Bool) :
    (step o s ok).1.acc = lastAcc (step o s ok).1.solves := by
  rw [step_solves, lastAcc_cons]
  cases ok
  · simp only [Bool.false_eq_true, if_false]
    by_cases h0 : s.theta = o.thetaStart
    · rw [step_false_first h0]; simpa using h
    · by_cases hd : s.delta / 2 < o.deltaMin
      · rw [step_false_min h0 hd]; simpa using h
      · rw [step_false_cont h0 hd]; simpa using h
  · simp only [if_true]
    by_cases h1 : 1 ≤ s.theta
    · rw [step_true_ge h1]; simp
    · rw [step_true_lt (not_le.1 h1)]; simp

/-- the status after one pass, under the invariant -/
theorem step_status {o s} (h : Inv o s) (ok : Bool) :
    (step o s ok).2 =
      if ok then (if s.theta = 1 then .finished true else .running)
      else (if s.solves = [] ∨ s.delta / 2 < o.deltaMin then .finished false else .running) := by
  cases ok
  · simp only [Bool.false_eq_true, if_false]
    by_cases h0 : s.theta = o.thetaStart
    · rw [step_false_first h0, if_pos (Or.inl (h.theta_eq_start_iff.1 h0))]
    · have hne : s.solves ≠ [] := fun hs => h0 (h.theta_eq_start_iff.2 hs)
      by_cases hd : s.delta / 2 < o.deltaMin
      · rw [step_false_min h0 hd, if_pos (Or.inr hd)]
      · rw [step_false_cont h0 hd, if_neg]
        rintro (h' | h')
        · exact hne h'
        · exact hd h'
  · simp only [if_true]
    by_cases h1 : s.theta = 1
    · rw [step_true_one h1, if_pos h1]
    · rw [step_true_lt (lt_of_le_of_ne h.hi h1), if_neg h1]

/-- the log stays as specified after any pass (also a final one) -/
theorem step_log {o s} (h : Inv o s) (ok : Bool) : LogOK o (step o s ok).1.solves := by
  rw [step_solves]
  exact ⟨h.next ok, h.log⟩

/-- a pass that keeps the loop running preserves the invariant and lowers the potential by at
    least `mu = min delta0 deltaMin` -/
theorem step_running {o s s'} {ok : Bool} (h : Inv o s) (hr : step o s ok = (s', .running)) :
    Inv o s' ∧ pot s' ≤ pot s - mu o := by
  have hlo := h.lo
  have hhi := h.hi
  have hdp := h.dpos
  cases ok
  · -- failure that continues
    by_cases h0 : s.theta = o.thetaStart
    · rw [step_false_first h0] at hr; simp at hr
    by_cases hd : s.delta / 2 < o.deltaMin
    · rw [step_false_min h0 hd] at hr; simp at hr
    rw [step_false_cont h0 hd] at hr
    simp only [Prod.mk.injEq, and_true] at hr
    have hne : s.solves ≠ [] := fun hs => h0 (h.theta_eq_start_iff.2 hs)
    obtain ⟨hlt, a, ha, hth, hale⟩ := h.later hne
    have hdmin : o.deltaMin ≤ s.delta / 2 := not_lt.1 hd
    have hsum : ¬ (s.theta - s.delta + s.delta / 2 ≥ 1) := by
      simp only [ge_iff_le, not_le]; linarith
    have hT : s'.theta = s.theta - s.delta / 2 := by
      rw [← hr, advance_theta]; simp only [stepBack_theta, stepBack_delta, push_theta, push_delta]
      rw [min_eq_left (by linarith)]; ring
    have hD : s'.delta = s.delta / 2 := by
      rw [← hr, advance_delta]; simp only [stepBack_theta, stepBack_delta, push_theta, push_delta]
      rw [min_eq_left (by linarith)]
    have hA : s'.acc = some a := by rw [← hr]; simpa using ha
    have hS : s'.solves = ⟨s.theta, s.delta, false, seedOf o s⟩ :: s.solves := by
      rw [← hr]; simp
    have hLA : lastAcc s'.solves = some a := by
      rw [hS, lastAcc_cons]; simp only [Bool.false_eq_true, if_false]; rw [← h.accEq]; exact ha
    have hgt : o.thetaStart < s'.theta := by rw [hT]; linarith
    refine ⟨⟨?_, ?_, ?_, ?_⟩, ?_⟩
    · rw [hS]; exact ⟨h.next false, h.log⟩
    · rw [hA, hLA]
    · intro ok'
      refine ⟨le_of_lt hgt, by rw [hT]; linarith, by rw [hD]; linarith, ?_⟩
      rw [hS]
      simp only
      refine ⟨hgt, ⟨a, ?_, ?_, ?_, hale⟩, ?_, ?_⟩
      · rw [← hS]; exact hLA
      · simp [seedOf, hgt, hA]
      · rw [hT, hD]; linarith
      · intro hc; simp at hc
      · intro _; exact ⟨hT, hD, by rw [hT]; linarith, hdmin⟩
    · intro _; rw [hD]; exact le_trans (min_le_right _ _) hdmin
    · unfold pot; rw [hT, hD]
      have : mu o ≤ s.delta / 2 := le_trans (min_le_right _ _) hdmin
      linarith
  · -- success below 1
    by_cases h1 : s.theta = 1
    · rw [step_true_one h1] at hr; simp at hr
    have hlt1 : s.theta < 1 := lt_of_le_of_ne hhi h1
    rw [step_true_lt hlt1] at hr
    simp only [Prod.mk.injEq, and_true] at hr
    have hmu := h.dmin hlt1
    have hT : s'.theta = min (s.theta + s.delta) 1 := by rw [← hr, advance_theta]; simp
    have hD : s'.delta = min s.delta (1 - s.theta) := by rw [← hr, advance_delta]; simp
    have hA : s'.acc = some s.theta := by rw [← hr]; simp
    have hS : s'.solves = ⟨s.theta, s.delta, true, seedOf o s⟩ :: s.solves := by
      rw [← hr]; simp
    have hLA : lastAcc s'.solves = some s.theta := by rw [hS, lastAcc_cons]; simp
    have hgt : s.theta < s'.theta := by rw [hT]; exact lt_min (by linarith) hlt1
    have hTD : s'.theta = s.theta + s'.delta := by
      rw [hT, hD]
      rcases le_total (s.theta + s.delta) 1 with hc | hc
      · rw [min_eq_left hc, min_eq_left (by linarith)]
      · rw [min_eq_right hc, min_eq_right (by linarith)]; ring
    have hDpos : 0 < s'.delta := by rw [hD]; exact lt_min hdp (by linarith)
    refine ⟨⟨?_, ?_, ?_, ?_⟩, ?_⟩
    · rw [hS]; exact ⟨h.next true, h.log⟩
    · rw [hA, hLA]
    · intro ok'
      refine ⟨by linarith, by rw [hT]; exact min_le_right _ _, hDpos, ?_⟩
      rw [hS]
      simp only
      refine ⟨by linarith, ⟨s.theta, ?_, ?_, hTD, hlo⟩, ?_, ?_⟩
      · rw [← hS]; exact hLA
      · have : o.thetaStart < s'.theta := by linarith
        simp [seedOf, this, hA]
      · intro _; exact ⟨hlt1, hT, hD, hgt⟩
      · intro hc; simp at hc
    · intro hl
      have : s.theta + s.delta < 1 := by
        by_contra hc
        rw [hT, min_eq_right (not_lt.1 hc)] at hl
        exact lt_irrefl _ hl
      rw [hD, min_eq_left (by linarith)]; exact hmu
    · unfold pot
      rw [hTD]
      have : s'.delta ≤ s.delta := by rw [hD]; exact min_le_left _ _
      rcases le_total (s.theta + s.delta) 1 with hc | hc
      · have : s'.delta = s.delta := by rw [hD, min_eq_left (by linarith)]
        rw [this]; linarith
      · have hd' : s'.delta = 1 - s.theta := by rw [hD, min_eq_right (by linarith)]
        rw [hd']; linarith

theorem pot_nonneg {o s} (h : Inv o s) : 0 ≤ pot s := by
  unfold pot; have := h.hi; have := h.dpos; linarith

/-! ### what a log satisfying `LogOK` tells about its entries -/

/-- decomposition: the entry at any position is as specified relative to what precedes it -/
theorem LogOK.entry {o : Opts} (pre : List Solve) (e : Solve) (t : List Solve) :
    LogOK o (pre ++ e :: t) → EntryOK o t e := by
  induction pre with
  | nil => intro h; exact h.1
  | cons _ pre ih => intro h; exact ih h.2

theorem LogOK.tail {o : Opts} (pre t : List Solve) : LogOK o (pre ++ t) → LogOK o t := by
  induction pre with
  | nil => intro h; exact h
  | cons _ pre ih => intro h; exact ih h.2

/-! ### runs -/

/-- specification of a whole run from a state satisfying the invariant -/
theorem run_spec (o : Opts) : ∀ (l : List Bool) (s : St), Inv o s →
    LogOK o (run step o s l).1.solves ∧
    (∃ new, (run step o s l).1.solves = new ++ s.solves ∧ new.length ≤ l.length ∧
        ((run step o s l).2 = none → new.length = l.length)) ∧
    ((run step o s l).2 = none → Inv o (run step o s l).1) ∧
    ((run step o s l).1.acc = lastAcc (run step o s l).1.solves) ∧
    (∀ b, (run step o s l).2 = some b →
        ∃ e t, (run step o s l).1.solves = e :: t ∧ e.ok = b ∧ (b = true → e.theta = 1) ∧
          (b = false → t = [] ∨ e.delta / 2 < o.deltaMin))
  | [], s, h => by
    refine ⟨h.log, ⟨[], by simp [run], by simp, fun _ => rfl⟩, fun _ => h, h.accEq, ?_⟩
    intro b hb; simp [run] at hb
  | ok :: rest, s, h => by
    have hst := step_status h ok
    have hsol := step_solves o s ok
    unfold run
    split
    · -- finished
      rename_i s1 b heq
      have h1 : (step o s ok).1 = s1 := by rw [heq]
      have h2 : (step o s ok).2 = .finished b := by rw [heq]
      refine ⟨by rw [← h1]; exact step_log h ok, ⟨[⟨s.theta, s.delta, ok, seedOf o s⟩], ?_, by simp, ?_⟩,
        ?_, ?_, ?_⟩
      · rw [← h1, hsol]; rfl
      · intro hc; simp at hc
      · intro hc; simp at hc
      · rw [← h1]; exact step_acc h.accEq ok
      · intro b' hb'
        simp only [Option.some.injEq] at hb'
        subst hb'
        refine ⟨⟨s.theta, s.delta, ok, seedOf o s⟩, s.solves, by rw [← h1, hsol], ?_, ?_, ?_⟩
        · rw [h2] at hst
          cases ok
          · simp only [Bool.false_eq_true, if_false] at hst
            split at hst
            · simpa using hst.symm
            · simp at hst
          · simp only [if_true] at hst
            split at hst
            · simpa using hst.symm
            · simp at hst
        · intro hb
          subst hb
          rw [h2] at hst
          cases ok
          · simp only [Bool.false_eq_true, if_false] at hst
            split at hst <;> simp at hst
          · simp only [if_true] at hst
            split at hst
            · assumption
            · simp at hst
        · intro hb
          subst hb
          rw [h2] at hst
          cases ok
          · simp only [Bool.false_eq_true, if_false] at hst
            split at hst
            · assumption
            · simp at hst
          · simp only [if_true] at hst
            split at hst <;> simp at hst
    · -- still running
      rename_i s1 heq
      obtain ⟨hinv1, _⟩ := step_running h heq
      have h1 : (step o s ok).1 = s1 := by rw [heq]
      obtain ⟨r1, ⟨new, hnew, hlen, hnone⟩, r3, r4, r5⟩ := run_spec o rest s1 hinv1
      refine ⟨r1, ⟨new ++ [⟨s.theta, s.delta, ok, seedOf o s⟩], ?_, ?_, ?_⟩, r3, r4, r5⟩
      · rw [hnew, ← h1, hsol]; simp
      · simp; exact hlen
      · intro hc; simp; exact hnone hc

/-- number of solves: every pass but the last lowers the potential by `mu` -/
theorem run_count (o : Opts) (hmu : 0 < mu o) : ∀ (l : List Bool) (s : St), Inv o s →
    (((run step o s l).1.solves.length : Rat) - s.solves.length) * mu o ≤ pot s + mu o
  | [], s, h => by
    simp only [run, sub_self, zero_mul]
    have := pot_nonneg h; linarith
  | ok :: rest, s, h => by
    have hsol := step_solves o s ok
    unfold run
    split
    · rename_i s1 b heq
      have h1 : (step o s ok).1 = s1 := by rw [heq]
      rw [← h1, hsol]
      simp only [List.length_cons, Nat.cast_add, Nat.cast_one, add_sub_cancel_left, one_mul]
      have := pot_nonneg h; linarith
    · rename_i s1 heq
      obtain ⟨hinv1, hpot⟩ := step_running h heq
      have h1 : (step o s ok).1 = s1 := by rw [heq]
      have ih := run_count o hmu rest s1 hinv1
      have hlen : (s1.solves.length : Rat) = s.solves.length + 1 := by
        rw [← h1, hsol]; simp
      rw [hlen] at ih
      have : ((run step o s1 rest).1.solves.length : Rat) - s.solves.length
          = ((run step o s1 rest).1.solves.length - (s.solves.length + 1)) + 1 := by ring
      rw [this, add_mul, one_mul]
      linarith

/-- termination: any outcome list longer than `pot / mu` finishes the loop, whatever it contains -/
theorem run_terminates (o : Opts) (hmu : 0 < mu o) : ∀ (l : List Bool) (s : St), Inv o s →
    pot s < (l.length : Rat) * mu o → (run step o s l).2 ≠ none
  | [], s, hinv, hp => by
    have := pot_nonneg hinv
    simp at hp; linarith
  | ok :: rest, s, hinv, hp => by
    unfold run
    split
    · simp
    · rename_i s1 heq
      obtain ⟨hinv1, hpot⟩ := step_running hinv heq
      apply run_terminates o hmu rest s1 hinv1
      have : ((ok :: rest).length : Rat) = (rest.length : Rat) + 1 := by simp
      rw [this] at hp
      linarith

/-! ### accepted thetas, linear-model bookkeeping -/

/-- thetas of the accepted solves of a log, newest first -/
def accs (log : List Solve) : List Rat := (log.filter (·.ok)).map (·.theta)

theorem accs_cons (e : Solve) (t : List Solve) :
    accs (e :: t) = if e.ok then e.theta :: accs t else accs t := by
  unfold accs
  cases h : e.ok <;> simp [h]

theorem lastAcc_eq_head (log : List Solve) : lastAcc log = (accs log).head? := by
  induction log with
  | nil => rfl
  | cons e t ih =>
    rw [lastAcc_cons, accs_cons]
    cases e.ok <;> simp [ih]

/-- accepted thetas strictly increase in time (the newest-first list is strictly decreasing) -/
theorem LogOK.accs_decreasing {o : Opts} : ∀ {log : List Solve}, LogOK o log →
    (accs log).Pairwise (· > ·)
  | [], _ => by simp [accs]
  | e :: t, h => by
    have ih := LogOK.accs_decreasing h.2
    rw [accs_cons]
    cases hok : e.ok
    · simpa using ih
    · simp only [if_true]
      refine List.pairwise_cons.2 ⟨?_, ih⟩
      intro a ha
      -- all earlier accepted thetas are ≤ the last accepted one, which is < e.theta
      have he := h.1
      cases t with
      | nil => simp [accs] at ha
      | cons p t' =>
        have hpos := he.2.2.1
        obtain ⟨_, _, _, _, ⟨b, hb, _, hth, _⟩, _⟩ := he
        rw [lastAcc_eq_head] at hb
        cases hacc : accs (p :: t') with
        | nil => rw [hacc] at ha; cases ha
        | cons c cs =>
          rw [hacc] at hb ha ih
          simp only [List.head?_cons, Option.some.injEq] at hb
          subst hb
          rcases List.mem_cons.1 ha with rfl | ha'
          · rw [hth]; linarith
          · have := (List.pairwise_cons.1 ih).1 a ha'
            rw [hth]; linarith

/-- number of accepted solves at theta = 0 -/
def zeroAcc (log : List Solve) : Nat := (log.filter (fun e => e.ok && decide (e.theta = 0))).length

theorem zeroAcc_cons (e : Solve) (t : List Solve) :
    zeroAcc (e :: t) = (if e.ok = true ∧ e.theta = 0 then 1 else 0) + zeroAcc t := by
  unfold zeroAcc
  by_cases h1 : e.ok = true <;> by_cases h2 : e.theta = 0 <;> (simp [h1, h2]; try omega)

/-- bookkeeping of the `theta == 0.0` block: `cleared` counts the accepted solves at theta = 0 and
    the linear flags are untouched exactly while that count is 0 (no invariant needed) -/
theorem step_cleared (o : Opts) (s : St) (ok : Bool)
    (h : s.cleared = zeroAcc s.solves ∧ (s.linear = true ↔ s.cleared = 0)) :
    (step o s ok).1.cleared = zeroAcc (step o s ok).1.solves ∧
      ((step o s ok).1.linear = true ↔ (step o s ok).1.cleared = 0) := by
  rw [step_solves, zeroAcc_cons]
  have key : ∀ s' : St, s'.cleared = s.cleared → s'.linear = s.linear →
      ((mark s').cleared = (if s'.theta = 0 then 1 else 0) + s.cleared) ∧
      ((mark s').linear = true ↔ (mark s').cleared = 0) := by
    intro s' hc hl
    by_cases ht : s'.theta = 0
    · have hm : mark s' = { s' with linear := false, cleared := s'.cleared + 1 } := by
        unfold mark; rw [if_pos ht]
      rw [hm, if_pos ht]
      refine ⟨by simp only; omega, ?_⟩
      constructor
      · intro hc'; cases hc'
      · intro hc'; simp only at hc'; omega
    · have hm : mark s' = s' := by unfold mark; rw [if_neg ht]
      rw [hm, if_neg ht, hc, hl]; exact ⟨by omega, h.2⟩
  cases ok
  · simp only [Bool.false_eq_true, false_and, if_false, Nat.zero_add]
    by_cases h0 : s.theta = o.thetaStart
    · rw [step_false_first h0]; exact h
    · by_cases hd : s.delta / 2 < o.deltaMin
      · rw [step_false_min h0 hd]; exact h
      · rw [step_false_cont h0 hd]
        have e1 : (advance (stepBack (push o s false))).cleared = s.cleared := by
          unfold advance; split <;> rfl
        have e2 : (advance (stepBack (push o s false))).linear = s.linear := by
          unfold advance; split <;> rfl
        rw [e1, e2]; exact h
  · simp only [true_and]
    have hk := key { push o s true with acc := some (push o s true).theta } rfl rfl
    simp only [push_theta] at hk
    by_cases h1 : 1 ≤ s.theta
    · rw [step_true_ge h1]
      show (mark _).cleared = _ ∧ ((mark _).linear = true ↔ (mark _).cleared = 0)
      rw [← h.1]; exact hk
    · rw [step_true_lt (not_le.1 h1)]
      have e1 : ∀ x : St, (advance x).cleared = x.cleared := by
        intro x; unfold advance; split <;> rfl
      have e2 : ∀ x : St, (advance x).linear = x.linear := by
        intro x; unfold advance; split <;> rfl
      rw [e1, e2]
      show (mark _).cleared = _ ∧ ((mark _).linear = true ↔ (mark _).cleared = 0)
      rw [← h.1]; exact hk

theorem run_cleared (o : Opts) : ∀ (l : List Bool) (s : St),
    (s.cleared = zeroAcc s.solves ∧ (s.linear = true ↔ s.cleared = 0)) →
    (run step o s l).1.cleared = zeroAcc (run step o s l).1.solves ∧
      ((run step o s l).1.linear = true ↔ (run step o s l).1.cleared = 0)
  | [], s, h => by simpa [run] using h
  | ok :: rest, s, h => by
    have hs := step_cleared o s ok h
    unfold run
    split
    · rename_i s1 b heq
      have h1 : (step o s ok).1 = s1 := by rw [heq]
      rw [← h1]; exact hs
    · rename_i s1 heq
      have h1 : (step o s ok).1 = s1 := by rw [heq]
      exact run_cleared o rest s1 (h1 ▸ hs)

/-! ### a call on an object that already holds results behaves like a call on a fresh object -/

/-- the state `s2` of a call that started with `self.__results = prev` simulates the state `s`
    of the same call on a fresh object -/
structure Sim (prev : Option Rat) (s s2 : St) : Prop where
  theta : s2.theta = s.theta
  delta : s2.delta = s.delta
  solves : s2.solves = s.solves
  acc : s2.acc = (match s.acc with | some a => some a | none => prev)

/-- the lemma: the stored results are only read when `theta > theta_start`, and then they have
    been stored by this very call -/
theorem seedOf_sim {o : Opts} {prev : Option Rat} {s s2 : St} (h : Inv o s) (hs : Sim prev s s2) :
    seedOf o s2 = seedOf o s := by
  unfold seedOf
  rw [hs.theta]
  by_cases hgt : s.theta > o.thetaStart
  · have hne : s.solves ≠ [] := by
      intro hnil; have := (h.first hnil).2.1; rw [this] at hgt; exact lt_irrefl _ hgt
    obtain ⟨_, a, ha, _⟩ := h.later hne
    have : s2.acc = some a := by rw [hs.acc, ha]
    simp [hgt, ha, this]
  · simp [hgt]

theorem step_sim {o : Opts} {prev : Option Rat} {s s2 : St} (h : Inv o s) (hs : Sim prev s s2) (ok : Bool) :
    (step o s2 ok).2 = (step o s ok).2 ∧ Sim prev (step o s ok).1 (step o s2 ok).1 := by
  have hseed := seedOf_sim h hs
  have hth := hs.theta
  have hdl := hs.delta
  have hpush : ∀ b, Sim prev (push o s b) (push o s2 b) := by
    intro b
    exact ⟨by simpa using hth, by simpa using hdl, by simp [hth, hdl, hseed, hs.solves], by simpa using hs.acc⟩
  cases ok
  · by_cases h0 : s.theta = o.thetaStart
    · have h0' : s2.theta = o.thetaStart := by rw [hth]; exact h0
      rw [step_false_first h0, step_false_first h0']
      exact ⟨rfl, hpush false⟩
    · have h0' : s2.theta ≠ o.thetaStart := by rw [hth]; exact h0
      by_cases hd : s.delta / 2 < o.deltaMin
      · have hd' : s2.delta / 2 < o.deltaMin := by rw [hdl]; exact hd
        rw [step_false_min h0 hd, step_false_min h0' hd']
        refine ⟨rfl, ⟨?_, ?_, ?_, ?_⟩⟩
        · simp [hth, hdl]
        · simp [hdl]
        · simpa using (hpush false).solves
        · simpa using hs.acc
      · have hd' : ¬ s2.delta / 2 < o.deltaMin := by rw [hdl]; exact hd
        rw [step_false_cont h0 hd, step_false_cont h0' hd']
        refine ⟨rfl, ⟨?_, ?_, ?_, ?_⟩⟩
        · rw [advance_theta, advance_theta]; simp [hth, hdl]
        · rw [advance_delta, advance_delta]; simp [hth, hdl]
        · simpa using (hpush false).solves
        · simpa using hs.acc
  · by_cases h1 : 1 ≤ s.theta
    · have h1' : 1 ≤ s2.theta := by rw [hth]; exact h1
      rw [step_true_ge h1, step_true_ge h1']
      refine ⟨rfl, ⟨?_, ?_, ?_, ?_⟩⟩
      · simpa using hth
      · simpa using hdl
      · simpa using (hpush true).solves
      · simp [hth]
    · have h1' : ¬ 1 ≤ s2.theta := by rw [hth]; exact h1
      rw [step_true_lt (not_le.1 h1), step_true_lt (not_le.1 h1')]
      refine ⟨rfl, ⟨?_, ?_, ?_, ?_⟩⟩
      · rw [advance_theta, advance_theta]; simp [hth, hdl]
      · rw [advance_delta, advance_delta]; simp [hth, hdl]
      · simpa using (hpush true).solves
      · simp [hth]

theorem run_sim (o : Opts) (prev : Option Rat) : ∀ (l : List Bool) (s s2 : St), Inv o s → Sim prev s s2 →
    (run step o s2 l).2 = (run step o s l).2 ∧ Sim prev (run step o s l).1 (run step o s2 l).1
  | [], s, s2, _, hs => ⟨rfl, hs⟩
  | ok :: rest, s, s2, h, hs => by
    obtain ⟨hst, hsim⟩ := step_sim h hs ok
    rw [run, run]
    cases hr : step o s ok with
    | mk s' st =>
      cases hr2 : step o s2 ok with
      | mk s2' st2 =>
        rw [hr, hr2] at hst hsim
        simp only at hst hsim
        subst hst
        cases st2 with
        | finished b => exact ⟨rfl, hsim⟩
        | running => exact run_sim o prev rest s' s2' (step_running h hr).1 hsim

theorem seqFrom_length (stp : Opts → St → Bool → St × Status) :
    ∀ (runs : List (Opts × List Bool)) (prev : Option Rat), (seqFrom stp prev runs).length = runs.length
  | [], _ => rfl
  | (o, l) :: rest, prev => by simp [seqFrom, seqFrom_length stp rest]

theorem seqFrom_get (stp : Opts → St → Bool → St × Status) :
    ∀ (runs : List (Opts × List Bool)) (prev : Option Rat) (i : Nat) (hi : i < runs.length),
      ∃ pv, (seqFrom stp prev runs)[i]'(by rw [seqFrom_length]; exact hi)
        = optimizeFromWith stp runs[i].1 pv runs[i].2
  | [], _, i, hi => by simp at hi
  | (o, l) :: rest, prev, 0, _ => ⟨prev, by simp [seqFrom]⟩
  | (o, l) :: rest, prev, i + 1, hi => by
    obtain ⟨pv, h⟩ := seqFrom_get stp rest
      (match optimizeFromWith stp o prev l with | some (s, _) => s.acc | none => prev) i (by simpa using hi)
    refine ⟨pv, ?_⟩
    simp only [seqFrom, List.getElem_cons_succ]
    exact h

/-- `optimize` either raises (theta_start > 1) or is the run of the loop from the initial state -/
theorem optimize_some {o : Opts} {l : List Bool} {s : St} {r : Option Bool}
    (h : optimize o l = some (s, r)) :
    o.thetaStart ≤ 1 ∧ run step o (init o) l = (s, r) := by
  unfold optimize optimizeWith at h
  split at h
  · rename_i h1; exact ⟨h1, by simpa using h⟩
  · simp at h

end RtcVerif.C18
