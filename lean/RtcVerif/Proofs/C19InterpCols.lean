import RtcVerif.Model.C19InterpCols
import RtcVerif.Proofs.InterpCode
import Mathlib.Tactic.Common
/-! Helper lemmas for the 2-D branch of `interpolate` (column-wise application). -/
namespace RtcVerif.InterpCode
open RtcVerif.Interp

theorem mapM_id_map {α β : Type} (f : α → Option β) (l : List α) : (l.map f).mapM id = l.mapM f := by
  induction l with
  | nil => rfl
  | cons a l ih => simp [List.mapM_cons, ih]

theorem mapM_some_map {α β : Type} (g : α → β) (l : List α) :
    l.mapM (fun x => some (g x)) = some (l.map g) := by
  induction l with
  | nil => rfl
  | cons a l ih => simp [List.mapM_cons, ih]

theorem mapM_congr_mem {α β : Type} (f g : α → Option β) (l : List α) (h : ∀ x ∈ l, f x = g x) :
    l.mapM f = l.mapM g := by
  induction l with
  | nil => rfl
  | cons a l ih =>
    simp only [List.mapM_cons]
    rw [h a (List.mem_cons_self ..), ih (fun x hx => h x (List.mem_cons_of_mem _ hx))]

theorem sequenceC_embed_map {α : Type} (g : α → Out) (l : List α) :
    sequenceC (l.map fun x => embed (g x)) = l.mapM (fun x => (g x).toOption) := by
  induction l with
  | nil => rfl
  | cons a l ih =>
    simp only [List.map_cons, List.mapM_cons]
    cases h : g a with
    | val v =>
      have e1 : embed (Out.val v) = OutC.val v := rfl
      have e2 : (Out.val v).toOption = some v := rfl
      simp only [e1, e2, sequenceC, ih, Option.bind_eq_bind, Option.pure_def, Option.bind_some]
      cases List.mapM (fun x => (g x).toOption) l <;> rfl
    | raise =>
      have e1 : embed Out.raise = OutC.raise := rfl
      have e2 : Out.raise.toOption = none := rfl
      simp only [e1, e2, sequenceC, Option.bind_eq_bind, Option.bind_none]

/-- what `l.mapM f = some res` says element by element -/
theorem mapM_get {α β : Type} (f : α → Option β) (l : List α) (res : List β) (h : l.mapM f = some res) :
    res.length = l.length ∧ ∀ c (hc : c < l.length), (res[c]?) = f l[c] := by
  induction l generalizing res with
  | nil =>
    simp at h
    subst h
    simp
  | cons a l ih =>
    simp only [List.mapM_cons, Option.bind_eq_bind, Option.pure_def] at h
    cases h1 : f a with
    | none => simp [h1] at h
    | some r =>
      cases h2 : List.mapM f l with
      | none => simp [h1, h2] at h
      | some rs =>
        simp [h1, h2] at h
        subst h
        obtain ⟨hl, hrs⟩ := ih rs h2
        refine ⟨by simp [hl], ?_⟩
        intro c hc
        cases c with
        | zero => simp [h1]
        | succ c =>
          simp only [List.length_cons, Nat.add_lt_add_iff_right] at hc
          simpa using hrs c hc

end RtcVerif.InterpCode
