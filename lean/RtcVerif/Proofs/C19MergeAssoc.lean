import RtcVerif.Model.Merge
import RtcVerif.Proofs.MergeLemmas
import Mathlib.Tactic.Common
import Mathlib.Tactic.SplitIfs
/-! Associativity of the `merge_bounds` model (values AND rejections) on non-degenerate bounds. -/
namespace RtcVerif.Merge

/-- apply `g` to every value of a side -/
def mapVals (g : EVal → EVal) : Bnd → Bnd
  | .sc x => .sc (g x)
  | .vec xs => .vec (xs.map g)
  | .ts1 t xs => .ts1 t (xs.map g)
  | .ts2 t rows => .ts2 t (rows.map fun r => r.map g)

/-- every vector Timeseries has at least one row (a `(0, k)` array has no `k` in a list of rows) -/
def NonDeg : Bnd → Prop
  | .ts2 _ rows => rows ≠ []
  | _ => True

theorem mapVals_comp (g h : EVal → EVal) (b : Bnd) : mapVals g (mapVals h b) = mapVals (g ∘ h) b := by
  cases b <;> simp [mapVals, Function.comp_def]

theorem mergeN_sc_left (f : EVal → EVal → EVal) (x : EVal) (b : Bnd) :
    mergeN f (.sc x) b = some (mapVals (f x) b) := by
  cases b <;>
    simp [mergeN, upcast, combine, mapVals, zipSame_const_left, zipRows_const_left]

theorem mergeN_sc_right (f : EVal → EVal → EVal) (y : EVal) (a : Bnd) :
    mergeN f a (.sc y) = some (mapVals (fun v => f v y) a) := by
  cases a <;>
    simp [mergeN, upcast, combine, mapVals, zipSame_const_right, zipRows_const_right]

theorem zipWith_map_left' (f : EVal → EVal → EVal) (g : EVal → EVal) (hg : ∀ y z, f (g y) z = g (f y z)) :
    ∀ ys zs : List EVal, List.zipWith f (ys.map g) zs = (List.zipWith f ys zs).map g
  | [], _ => by simp
  | _ :: _, [] => by simp
  | y :: ys, z :: zs => by simp [hg, zipWith_map_left' f g hg ys zs]

theorem zipSame_map_left (f : EVal → EVal → EVal) (g : EVal → EVal) (hg : ∀ y z, f (g y) z = g (f y z))
    (ys zs : List EVal) : zipSame f (ys.map g) zs = (zipSame f ys zs).map (·.map g) := by
  unfold zipSame
  by_cases h : ys.length = zs.length <;> simp [h, zipWith_map_left' f g hg]

theorem zipRows_map_left (f : EVal → EVal → EVal) (g : EVal → EVal) (hg : ∀ y z, f (g y) z = g (f y z)) :
    ∀ a b : List (List EVal),
      zipRows f (a.map fun r => r.map g) b = (zipRows f a b).map (·.map fun r => r.map g)
  | [], [] => by simp [zipRows]
  | [], _ :: _ => by simp [zipRows]
  | _ :: _, [] => by simp [zipRows]
  | r :: rs, s :: ss => by
      simp only [List.map_cons, zipRows, zipSame_map_left f g hg, zipRows_map_left f g hg rs ss,
        Option.bind_eq_bind, Option.pure_def]
      cases zipSame f r s <;> cases zipRows f rs ss <;> simp

theorem mergeN_vec_ts2 (f : EVal → EVal → EVal) (xs : List EVal) (t : List Rat) (rows : List (List EVal)) :
    mergeN f (.vec xs) (.ts2 t rows) =
      if (rows.all fun r => r.length == xs.length) = true
      then some (.ts2 t (rows.map fun r => List.zipWith f xs r)) else none := by
  by_cases hall : (rows.all fun r => r.length == xs.length) = true
  · have hz := zipRows_vec_left f xs rows hall
    simp only [mergeN, upcast, combine, hall, hz, if_true, ↓reduceIte, Option.bind_eq_bind, Option.bind_some,
      Option.map_some]
  · simp only [mergeN, upcast, hall, ↓reduceIte, Option.bind_eq_bind, Option.bind_none, Bool.false_eq_true]

theorem mergeN_ts2_vec (f : EVal → EVal → EVal) (xs : List EVal) (t : List Rat) (rows : List (List EVal)) :
    mergeN f (.ts2 t rows) (.vec xs) =
      if (rows.all fun r => r.length == xs.length) = true
      then some (.ts2 t (rows.map fun r => List.zipWith f r xs)) else none := by
  by_cases hall : (rows.all fun r => r.length == xs.length) = true
  · have hz := zipRows_vec_right f xs rows hall
    simp only [mergeN, upcast, combine, hall, hz, if_true, ↓reduceIte, Option.bind_eq_bind, Option.bind_some,
      Option.map_some]
  · simp only [mergeN, upcast, hall, ↓reduceIte, Option.bind_eq_bind, Option.bind_some, Option.bind_none,
      Bool.false_eq_true]

theorem all_len_map (g : EVal → EVal) (rows : List (List EVal)) (n : Nat) :
    ((rows.map fun r => r.map g).all fun r => r.length == n) = (rows.all fun r => r.length == n) := by
  induction rows with
  | nil => rfl
  | cons r rs ih => simp [ih]

/-- `mapVals g` on the left operand commutes with the merge when `g` commutes with `f` on the left -/
theorem mergeN_mapVals_left (f : EVal → EVal → EVal) (g : EVal → EVal) (hg : ∀ y z, f (g y) z = g (f y z))
    (b c : Bnd) : mergeN f (mapVals g b) c = (mergeN f b c).map (mapVals g) := by
  cases b with
  | sc y =>
    have e : f (g y) = g ∘ f y := by funext z; exact hg y z
    rw [show mapVals g (.sc y) = .sc (g y) from rfl, mergeN_sc_left, mergeN_sc_left, Option.map_some,
      mapVals_comp, e]
  | vec ys =>
    cases c with
    | sc z =>
      have e : ((fun v => f v z) ∘ g) = (g ∘ fun v => f v z) := by funext v; exact hg v z
      simp only [mergeN_sc_right, Option.map_some, mapVals_comp, e]
    | vec zs =>
      simp only [mapVals, mergeN, upcast, combine, Option.bind_eq_bind, Option.bind_some,
        zipSame_map_left f g hg]
      cases zipSame f ys zs <;> simp [mapVals]
    | ts1 t zs => simp [mapVals, mergeN, upcast]
    | ts2 t rows =>
      rw [show mapVals g (.vec ys) = .vec (ys.map g) from rfl, mergeN_vec_ts2, mergeN_vec_ts2, List.length_map]
      by_cases hall : (rows.all fun r => r.length == ys.length) = true
      · simp [hall, mapVals, zipWith_map_left' f g hg]
      · simp [hall]
  | ts1 t ys =>
    cases c with
    | sc z =>
      have e : ((fun v => f v z) ∘ g) = (g ∘ fun v => f v z) := by funext v; exact hg v z
      simp only [mergeN_sc_right, Option.map_some, mapVals_comp, e]
    | vec zs => simp [mapVals, mergeN, upcast]
    | ts1 u zs =>
      by_cases htu : t = u
      · subst htu
        simp only [mapVals, mergeN, upcast, combine, Option.bind_eq_bind, Option.bind_some, if_true,
          zipSame_map_left f g hg]
        cases zipSame f ys zs <;> simp [mapVals]
      · simp [mapVals, mergeN, upcast, combine, htu]
    | ts2 u rows => simp [mapVals, mergeN, upcast, combine]
  | ts2 t rows =>
    cases c with
    | sc z =>
      have e : ((fun v => f v z) ∘ g) = (g ∘ fun v => f v z) := by funext v; exact hg v z
      simp only [mergeN_sc_right, Option.map_some, mapVals_comp, e]
    | vec zs =>
      rw [show mapVals g (.ts2 t rows) = .ts2 t (rows.map fun r => r.map g) from rfl, mergeN_ts2_vec,
        mergeN_ts2_vec, all_len_map]
      by_cases hall : (rows.all fun r => r.length == zs.length) = true
      · simp [hall, mapVals, zipWith_map_left' f g hg, Function.comp_def]
      · simp [hall]
    | ts1 u zs => simp [mapVals, mergeN, upcast, combine]
    | ts2 u rows2 =>
      by_cases htu : t = u
      · subst htu
        simp only [mapVals, mergeN, upcast, combine, Option.bind_eq_bind, Option.bind_some, if_true,
          zipRows_map_left f g hg]
        cases zipRows f rows rows2 <;> simp [mapVals]
      · simp [mapVals, mergeN, upcast, combine, htu]

theorem mergeN_mapVals_right (f : EVal → EVal → EVal) (hc : ∀ a b, f a b = f b a) (g : EVal → EVal)
    (hg : ∀ y z, f y (g z) = g (f y z)) (a b : Bnd) :
    mergeN f a (mapVals g b) = (mergeN f a b).map (mapVals g) := by
  have hg' : ∀ y z, f (g y) z = g (f y z) := fun y z => by rw [hc (g y) z, hg z y, hc z y]
  rw [mergeN_comm f hc a (mapVals g b), mergeN_mapVals_left f g hg' b a, mergeN_comm f hc b a]

/-- the two groupings of a three-fold merge (on normalised sides) -/
def AssocN (f : EVal → EVal → EVal) (a b c : Bnd) : Prop :=
  (mergeN f a b).bind (fun ab => mergeN f ab c) = (mergeN f b c).bind (fun bc => mergeN f a bc)

section
variable (f : EVal → EVal → EVal) (hc : ∀ a b, f a b = f b a) (ha : ∀ x y z, f (f x y) z = f x (f y z))
include hc ha

theorem assocN_sc_left (x : EVal) (b c : Bnd) : AssocN f (.sc x) b c := by
  unfold AssocN
  rw [mergeN_sc_left, Option.bind_some, mergeN_mapVals_left f (f x) (fun y z => ha x y z) b c]
  cases mergeN f b c <;> simp [mergeN_sc_left]

theorem assocN_sc_right (a b : Bnd) (z : EVal) : AssocN f a b (.sc z) := by
  unfold AssocN
  rw [mergeN_sc_right, Option.bind_some,
    mergeN_mapVals_right f hc (fun v => f v z) (fun y z' => (ha y z' z).symm) a b]
  cases mergeN f a b <;> simp [mergeN_sc_right]

theorem assocN_sc_mid (a : Bnd) (y : EVal) (c : Bnd) : AssocN f a (.sc y) c := by
  unfold AssocN
  have e : (fun v => f v y) = f y := by funext v; exact hc v y
  rw [mergeN_sc_right, mergeN_sc_left, Option.bind_some, Option.bind_some, e,
    mergeN_mapVals_left f (f y) (fun v z => by rw [hc y v, ha v y z, hc y (f v z), ha v z y, hc z y]) a c,
    mergeN_mapVals_right f hc (f y) (fun v z => by rw [← ha v y z, hc v y, ha y v z]) a c]

end

/-! pairwise forms -/
theorem mergeN_vec_vec (f : EVal → EVal → EVal) (xs ys : List EVal) :
    mergeN f (.vec xs) (.vec ys) = (zipSame f xs ys).map .vec := by
  simp [mergeN, upcast, combine]
theorem mergeN_ts1_ts1 (f : EVal → EVal → EVal) (t u : List Rat) (xs ys : List EVal) :
    mergeN f (.ts1 t xs) (.ts1 u ys) = if t = u then (zipSame f xs ys).map (.ts1 t) else none := by
  simp [mergeN, upcast, combine]
theorem mergeN_ts2_ts2 (f : EVal → EVal → EVal) (t u : List Rat) (xs ys : List (List EVal)) :
    mergeN f (.ts2 t xs) (.ts2 u ys) = if t = u then (zipRows f xs ys).map (.ts2 t) else none := by
  simp [mergeN, upcast, combine]
theorem mergeN_vec_ts1 (f : EVal → EVal → EVal) (xs : List EVal) (t : List Rat) (ys : List EVal) :
    mergeN f (.vec xs) (.ts1 t ys) = none := by simp [mergeN, upcast]
theorem mergeN_ts1_vec (f : EVal → EVal → EVal) (xs : List EVal) (t : List Rat) (ys : List EVal) :
    mergeN f (.ts1 t ys) (.vec xs) = none := by simp [mergeN, upcast]
theorem mergeN_ts1_ts2 (f : EVal → EVal → EVal) (t u : List Rat) (xs : List EVal) (ys : List (List EVal)) :
    mergeN f (.ts1 t xs) (.ts2 u ys) = none := by simp [mergeN, upcast, combine]
theorem mergeN_ts2_ts1 (f : EVal → EVal → EVal) (t u : List Rat) (xs : List EVal) (ys : List (List EVal)) :
    mergeN f (.ts2 u ys) (.ts1 t xs) = none := by simp [mergeN, upcast, combine]

theorem zipWith_assoc (f : EVal → EVal → EVal) (ha : ∀ x y z, f (f x y) z = f x (f y z)) :
    ∀ xs ys zs : List EVal,
      List.zipWith f (List.zipWith f xs ys) zs = List.zipWith f xs (List.zipWith f ys zs)
  | [], _, _ => by simp
  | _ :: _, [], _ => by simp
  | _ :: _, _ :: _, [] => by simp
  | x :: xs, y :: ys, z :: zs => by simp [ha, zipWith_assoc f ha xs ys zs]

theorem zipSame_assoc (f : EVal → EVal → EVal) (ha : ∀ x y z, f (f x y) z = f x (f y z))
    (xs ys zs : List EVal) :
    (zipSame f xs ys).bind (fun w => zipSame f w zs) = (zipSame f ys zs).bind (fun w => zipSame f xs w) := by
  unfold zipSame
  by_cases h1 : xs.length = ys.length <;> by_cases h2 : ys.length = zs.length
  · have e1 : min xs.length ys.length = zs.length := by omega
    have e2 : xs.length = min ys.length zs.length := by omega
    simp only [if_pos h1, if_pos h2, Option.bind_some, List.length_zipWith, if_pos e1, if_pos e2,
      zipWith_assoc f ha]
  · have e1 : ¬ min xs.length ys.length = zs.length := by omega
    simp only [if_pos h1, if_neg h2, Option.bind_some, Option.bind_none, List.length_zipWith, if_neg e1]
  · have e2 : ¬ xs.length = min ys.length zs.length := by omega
    simp only [if_neg h1, if_pos h2, Option.bind_some, Option.bind_none, List.length_zipWith, if_neg e2]
  · simp only [if_neg h1, if_neg h2, Option.bind_none]

theorem zipRows_assoc (f : EVal → EVal → EVal) (ha : ∀ x y z, f (f x y) z = f x (f y z)) :
    ∀ a b c : List (List EVal),
      (zipRows f a b).bind (fun w => zipRows f w c) = (zipRows f b c).bind (fun w => zipRows f a w)
  | [], [], [] => by simp [zipRows]
  | [], [], _ :: _ => by simp [zipRows]
  | [], _ :: _, [] => by simp [zipRows]
  | [], _ :: _, _ :: _ => by
      simp only [zipRows, Option.bind_none]
      rename_i s ss u us
      cases zipSame f s u <;> cases zipRows f ss us <;> simp [zipRows]
  | _ :: _, [], [] => by simp [zipRows]
  | _ :: _, [], _ :: _ => by simp [zipRows]
  | r :: rs, s :: ss, [] => by
      simp only [zipRows, Option.bind_none]
      cases zipSame f r s <;> cases zipRows f rs ss <;> simp [zipRows]
  | r :: rs, s :: ss, u :: us => by
      have h1 := zipSame_assoc f ha r s u
      have h2 := zipRows_assoc f ha rs ss us
      simp only [zipRows, Option.bind_eq_bind, Option.pure_def]
      cases e1 : zipSame f r s <;> cases e2 : zipRows f rs ss <;> cases e3 : zipSame f s u <;>
        cases e4 : zipRows f ss us <;>
        simp only [e1, e2, e3, e4, Option.bind_some, Option.bind_none, zipRows, Option.bind_eq_bind,
          Option.pure_def] at h1 h2 ⊢ <;>
        first
          | rfl
          | (simp [h1, h2]; done)
          | (simp [← h1, ← h2]; done)
          | (simp [← h1, h2]; done)
          | (simp [h1, ← h2]; done)
          | (rw [h1, h2]; done)
          | (rw [← h1, ← h2]; done)

theorem assocN_vvv (f : EVal → EVal → EVal) (ha : ∀ x y z, f (f x y) z = f x (f y z)) (xs ys zs : List EVal) :
    AssocN f (.vec xs) (.vec ys) (.vec zs) := by
  unfold AssocN
  have h := congrArg (Option.map Bnd.vec) (zipSame_assoc f ha xs ys zs)
  simp only [mergeN_vec_vec]
  cases e1 : zipSame f xs ys <;> cases e2 : zipSame f ys zs <;>
    simp only [e1, e2, Option.bind_some, Option.bind_none, Option.map_some, Option.map_none,
      mergeN_vec_vec] at h ⊢ <;>
    first | rfl | exact h | exact h.symm ▸ rfl | (rw [← h]) | (rw [h])

theorem assocN_111 (f : EVal → EVal → EVal) (ha : ∀ x y z, f (f x y) z = f x (f y z)) (t u v : List Rat)
    (xs ys zs : List EVal) : AssocN f (.ts1 t xs) (.ts1 u ys) (.ts1 v zs) := by
  unfold AssocN
  by_cases h1 : t = u <;> by_cases h2 : u = v
  · subst h1; subst h2
    have h := congrArg (Option.map (Bnd.ts1 t)) (zipSame_assoc f ha xs ys zs)
    simp only [mergeN_ts1_ts1, if_true]
    cases e1 : zipSame f xs ys <;> cases e2 : zipSame f ys zs <;>
      simp only [e1, e2, Option.bind_some, Option.bind_none, Option.map_some, Option.map_none,
        mergeN_ts1_ts1, if_true] at h ⊢ <;>
      first | rfl | exact h | (rw [← h]) | (rw [h])
  · subst h1
    simp only [mergeN_ts1_ts1, if_true, if_neg h2, Option.bind_none]
    cases zipSame f xs ys <;> simp [mergeN_ts1_ts1, h2]
  · subst h2
    simp only [mergeN_ts1_ts1, if_true, if_neg h1, Option.bind_none]
    cases zipSame f ys zs <;> simp [mergeN_ts1_ts1, h1]
  · simp only [mergeN_ts1_ts1, if_neg h1, if_neg h2, Option.bind_none]

theorem assocN_222 (f : EVal → EVal → EVal) (ha : ∀ x y z, f (f x y) z = f x (f y z)) (t u v : List Rat)
    (xs ys zs : List (List EVal)) : AssocN f (.ts2 t xs) (.ts2 u ys) (.ts2 v zs) := by
  unfold AssocN
  by_cases h1 : t = u <;> by_cases h2 : u = v
  · subst h1; subst h2
    have h := congrArg (Option.map (Bnd.ts2 t)) (zipRows_assoc f ha xs ys zs)
    simp only [mergeN_ts2_ts2, if_true]
    cases e1 : zipRows f xs ys <;> cases e2 : zipRows f ys zs <;>
      simp only [e1, e2, Option.bind_some, Option.bind_none, Option.map_some, Option.map_none,
        mergeN_ts2_ts2, if_true] at h ⊢ <;>
      first | rfl | exact h | (rw [← h]) | (rw [h])
  · subst h1
    simp only [mergeN_ts2_ts2, if_true, if_neg h2, Option.bind_none]
    cases zipRows f xs ys <;> simp [mergeN_ts2_ts2, h2]
  · subst h2
    simp only [mergeN_ts2_ts2, if_true, if_neg h1, Option.bind_none]
    cases zipRows f ys zs <;> simp [mergeN_ts2_ts2, h1]
  · simp only [mergeN_ts2_ts2, if_neg h1, if_neg h2, Option.bind_none]

/-- a 1-D Timeseries together with a vector or a 2-D Timeseries: both groupings are rejected -/
macro "assoc_none" : tactic =>
  `(tactic| (unfold AssocN
             ((try simp only [mergeN_vec_vec, mergeN_ts1_ts1, mergeN_ts2_ts2, mergeN_vec_ts1, mergeN_ts1_vec,
               mergeN_ts1_ts2, mergeN_ts2_ts1, mergeN_vec_ts2, mergeN_ts2_vec, Option.bind_none,
               Option.bind_some]) <;>
              (try split_ifs) <;>
              (try simp [mergeN_vec_vec, mergeN_ts1_ts1, mergeN_ts2_ts2, mergeN_vec_ts1, mergeN_ts1_vec,
                 mergeN_ts1_ts2, mergeN_ts2_ts1, mergeN_vec_ts2, mergeN_ts2_vec, Option.bind_map,
                 Function.comp_def]))))

theorem assocN_with_ts1 (f : EVal → EVal → EVal) (xs ys : List EVal) (t : List Rat) (zs : List EVal)
    (u v : List Rat) (r1 r2 : List (List EVal)) :
    AssocN f (.vec xs) (.vec ys) (.ts1 t zs) ∧ AssocN f (.vec xs) (.ts1 t zs) (.vec ys) ∧
    AssocN f (.ts1 t zs) (.vec xs) (.vec ys) ∧ AssocN f (.vec xs) (.ts1 t zs) (.ts1 u ys) ∧
    AssocN f (.ts1 t zs) (.vec xs) (.ts1 u ys) ∧ AssocN f (.ts1 t zs) (.ts1 u ys) (.vec xs) ∧
    AssocN f (.ts2 u r1) (.ts2 v r2) (.ts1 t zs) ∧ AssocN f (.ts2 u r1) (.ts1 t zs) (.ts2 v r2) ∧
    AssocN f (.ts1 t zs) (.ts2 u r1) (.ts2 v r2) ∧ AssocN f (.ts2 u r1) (.ts1 t zs) (.ts1 v ys) ∧
    AssocN f (.ts1 t zs) (.ts2 u r1) (.ts1 v ys) ∧ AssocN f (.ts1 t zs) (.ts1 v ys) (.ts2 u r1) ∧
    AssocN f (.vec xs) (.ts1 t zs) (.ts2 u r1) ∧ AssocN f (.vec xs) (.ts2 u r1) (.ts1 t zs) ∧
    AssocN f (.ts1 t zs) (.vec xs) (.ts2 u r1) ∧ AssocN f (.ts1 t zs) (.ts2 u r1) (.vec xs) ∧
    AssocN f (.ts2 u r1) (.vec xs) (.ts1 t zs) ∧ AssocN f (.ts2 u r1) (.ts1 t zs) (.vec xs) := by
  refine ⟨?_, ?_, ?_, ?_, ?_, ?_, ?_, ?_, ?_, ?_, ?_, ?_, ?_, ?_, ?_, ?_, ?_, ?_⟩ <;> assoc_none

/-- row lengths after a row-wise map, for an array with at least one row -/
theorem all_len_map_const (rows : List (List EVal)) (g : List EVal → List EVal) (k n : Nat)
    (hk : ∀ r ∈ rows, (g r).length = k) (hne : rows ≠ []) :
    ((rows.map g).all fun r => r.length == n) = (k == n) := by
  match rows, hne with
  | r :: rs, _ =>
    simp only [List.map_cons, List.all_cons, hk r (List.mem_cons_self ..)]
    by_cases h : k = n
    · subst h
      simp only [beq_self_eq_true, Bool.true_and, List.all_eq_true, List.mem_map, beq_iff_eq]
      rintro x ⟨y, hy, rfl⟩
      exact hk y (List.mem_cons_of_mem _ hy)
    · simp [h]

theorem all_len_iff (rows : List (List EVal)) (n : Nat) :
    (rows.all fun r => r.length == n) = true ↔ ∀ r ∈ rows, r.length = n := by
  simp [List.all_eq_true]

theorem assocN_vvT (f : EVal → EVal → EVal) (ha : ∀ x y z, f (f x y) z = f x (f y z)) (xs ys : List EVal)
    (t : List Rat) (rows : List (List EVal)) (hne : rows ≠ []) :
    AssocN f (.vec xs) (.vec ys) (.ts2 t rows) := by
  unfold AssocN
  rw [mergeN_vec_vec, mergeN_vec_ts2]
  by_cases hl : xs.length = ys.length
  · have hz : zipSame f xs ys = some (List.zipWith f xs ys) := by simp [zipSame, hl]
    have hwl : (List.zipWith f xs ys).length = ys.length := by simp [hl]
    rw [hz, Option.map_some, Option.bind_some, mergeN_vec_ts2, hwl]
    by_cases hall : (rows.all fun r => r.length == ys.length) = true
    · have hrows := (all_len_iff rows ys.length).1 hall
      have hk : ∀ r ∈ rows, (List.zipWith f ys r).length = ys.length := by
        intro r hr; simp [hrows r hr]
      have hyx : (ys.length == xs.length) = true := by simp [hl]
      simp only [if_pos hall, Option.bind_some, mergeN_vec_ts2,
        all_len_map_const rows _ ys.length xs.length hk hne, if_pos hyx, List.map_map]
      congr 2
      apply List.map_congr_left
      intro r _
      simp [Function.comp, zipWith_assoc f ha]
    · simp only [if_neg hall, Option.bind_none]
  · have hz : zipSame f xs ys = none := by simp [zipSame, hl]
    rw [hz, Option.map_none, Option.bind_none]
    by_cases hall : (rows.all fun r => r.length == ys.length) = true
    · have hrows := (all_len_iff rows ys.length).1 hall
      have hk : ∀ r ∈ rows, (List.zipWith f ys r).length = ys.length := by
        intro r hr; simp [hrows r hr]
      have hyx : ¬ (ys.length == xs.length) = true := by
        simp only [beq_iff_eq]; exact fun h => hl h.symm
      simp only [if_pos hall, Option.bind_some, mergeN_vec_ts2,
        all_len_map_const rows _ ys.length xs.length hk hne, if_neg hyx]
    · simp only [if_neg hall, Option.bind_none]

theorem exists_mem_of_ne_nil {α : Type} (l : List α) (h : l ≠ []) : ∃ x, x ∈ l := by
  cases l with
  | nil => exact absurd rfl h
  | cons a l => exact ⟨a, List.mem_cons_self ..⟩

theorem assocN_vTv (f : EVal → EVal → EVal) (ha : ∀ x y z, f (f x y) z = f x (f y z)) (xs : List EVal)
    (t : List Rat) (rows : List (List EVal)) (zs : List EVal) (hne : rows ≠ []) :
    AssocN f (.vec xs) (.ts2 t rows) (.vec zs) := by
  unfold AssocN
  rw [mergeN_vec_ts2, mergeN_ts2_vec]
  by_cases h1 : (rows.all fun r => r.length == xs.length) = true <;>
    by_cases h2 : (rows.all fun r => r.length == zs.length) = true
  · have r1 := (all_len_iff rows xs.length).1 h1
    have r2 := (all_len_iff rows zs.length).1 h2
    obtain ⟨r0, hr0⟩ := exists_mem_of_ne_nil rows hne
    have hxz : xs.length = zs.length := by rw [← r1 r0 hr0, r2 r0 hr0]
    have hk1 : ∀ r ∈ rows, (List.zipWith f xs r).length = xs.length := by
      intro r hr; simp [r1 r hr]
    have hk2 : ∀ r ∈ rows, (List.zipWith f r zs).length = zs.length := by
      intro r hr; simp [r2 r hr]
    have e1 : (xs.length == zs.length) = true := by simp [hxz]
    have e2 : (zs.length == xs.length) = true := by simp [hxz]
    simp only [if_pos h1, if_pos h2, Option.bind_some, mergeN_ts2_vec, mergeN_vec_ts2,
      all_len_map_const rows _ xs.length zs.length hk1 hne,
      all_len_map_const rows _ zs.length xs.length hk2 hne, if_pos e1, if_pos e2, List.map_map]
    congr 2
    apply List.map_congr_left
    intro r _
    simp [Function.comp, zipWith_assoc f ha]
  · have r1 := (all_len_iff rows xs.length).1 h1
    have hk1 : ∀ r ∈ rows, (List.zipWith f xs r).length = xs.length := by
      intro r hr; simp [r1 r hr]
    have e1 : ¬ (xs.length == zs.length) = true := by
      simp only [beq_iff_eq]; intro h; exact h2 (h ▸ h1)
    simp only [if_pos h1, if_neg h2, Option.bind_some, Option.bind_none, mergeN_ts2_vec,
      all_len_map_const rows _ xs.length zs.length hk1 hne, if_neg e1]
  · have r2 := (all_len_iff rows zs.length).1 h2
    have hk2 : ∀ r ∈ rows, (List.zipWith f r zs).length = zs.length := by
      intro r hr; simp [r2 r hr]
    have e2 : ¬ (zs.length == xs.length) = true := by
      simp only [beq_iff_eq]; intro h; exact h1 (h ▸ h2)
    simp only [if_neg h1, if_pos h2, Option.bind_some, Option.bind_none, mergeN_vec_ts2,
      all_len_map_const rows _ zs.length xs.length hk2 hne, if_neg e2]
  · simp only [if_neg h1, if_neg h2, Option.bind_none]

theorem zipSame_zipWith_left (f : EVal → EVal → EVal) (ha : ∀ x y z, f (f x y) z = f x (f y z))
    (xs r s : List EVal) (h : r.length = xs.length) :
    zipSame f (List.zipWith f xs r) s = (zipSame f r s).map (List.zipWith f xs) := by
  unfold zipSame
  have e : (List.zipWith f xs r).length = r.length := by simp [h]
  rw [e]
  by_cases hl : r.length = s.length
  · simp only [if_pos hl, Option.map_some, zipWith_assoc f ha]
  · simp only [if_neg hl, Option.map_none]

theorem zipRows_zipWith_left (f : EVal → EVal → EVal) (ha : ∀ x y z, f (f x y) z = f x (f y z))
    (xs : List EVal) :
    ∀ rows rows2 : List (List EVal), (∀ r ∈ rows, r.length = xs.length) →
      zipRows f (rows.map (List.zipWith f xs)) rows2
        = (zipRows f rows rows2).map (·.map (List.zipWith f xs))
  | [], [], _ => by simp [zipRows]
  | [], _ :: _, _ => by simp [zipRows]
  | _ :: _, [], _ => by simp [zipRows]
  | r :: rs, s :: ss, h => by
      have ih := zipRows_zipWith_left f ha xs rs ss (fun x hx => h x (List.mem_cons_of_mem _ hx))
      simp only [List.map_cons, zipRows, zipSame_zipWith_left f ha xs r s (h r (List.mem_cons_self ..)), ih,
        Option.bind_eq_bind, Option.pure_def]
      cases zipSame f r s <;> cases zipRows f rs ss <;> simp

theorem zipSame_len (f : EVal → EVal → EVal) (r s z : List EVal) (h : zipSame f r s = some z) :
    r.length = s.length ∧ z.length = r.length := by
  unfold zipSame at h
  split at h
  · rename_i hl
    cases h
    exact ⟨hl, by simp [hl]⟩
  · cases h

/-- rows that zip have the same lengths, and so has the result -/
theorem zipRows_all_len (f : EVal → EVal → EVal) :
    ∀ (a b Z : List (List EVal)), zipRows f a b = some Z → ∀ n,
      (a.all fun r => r.length == n) = (b.all fun r => r.length == n) ∧
      (Z.all fun r => r.length == n) = (a.all fun r => r.length == n)
  | [], [], Z, h, n => by simp [zipRows] at h; subst h; simp
  | [], _ :: _, Z, h, n => by simp [zipRows] at h
  | _ :: _, [], Z, h, n => by simp [zipRows] at h
  | r :: rs, s :: ss, Z, h, n => by
      simp only [zipRows, Option.bind_eq_bind, Option.pure_def] at h
      cases h1 : zipSame f r s with
      | none => simp [h1] at h
      | some z =>
        cases h2 : zipRows f rs ss with
        | none => simp [h1, h2] at h
        | some zs =>
          simp [h1, h2] at h
          subst h
          obtain ⟨e1, e2⟩ := zipSame_len f r s z h1
          obtain ⟨i1, i2⟩ := zipRows_all_len f rs ss zs h2 n
          simp only [List.all_cons, i1, i2, e2, ← e1, and_self]

theorem assocN_vTT (f : EVal → EVal → EVal) (ha : ∀ x y z, f (f x y) z = f x (f y z)) (xs : List EVal)
    (t u : List Rat) (rows rows2 : List (List EVal)) :
    AssocN f (.vec xs) (.ts2 t rows) (.ts2 u rows2) := by
  unfold AssocN
  rw [mergeN_vec_ts2, mergeN_ts2_ts2]
  by_cases htu : t = u
  · subst htu
    simp only [if_true]
    by_cases h1 : (rows.all fun r => r.length == xs.length) = true
    · have r1 := (all_len_iff rows xs.length).1 h1
      simp only [if_pos h1, Option.bind_some, mergeN_ts2_ts2, if_true, zipRows_zipWith_left f ha xs rows rows2 r1]
      cases hz : zipRows f rows rows2 with
      | none => simp
      | some Z =>
        have hZ := (zipRows_all_len f rows rows2 Z hz xs.length).2
        simp only [Option.map_some, Option.bind_some, mergeN_vec_ts2, hZ, if_pos h1]
    · simp only [if_neg h1, Option.bind_none]
      cases hz : zipRows f rows rows2 with
      | none => simp
      | some Z =>
        have hZ := (zipRows_all_len f rows rows2 Z hz xs.length).2
        simp only [Option.map_some, Option.bind_some, mergeN_vec_ts2, hZ, if_neg h1]
  · simp only [if_neg htu, Option.bind_none]
    by_cases h1 : (rows.all fun r => r.length == xs.length) = true
    · simp only [if_pos h1, Option.bind_some, mergeN_ts2_ts2, if_neg htu]
    · simp only [if_neg h1, Option.bind_none]

theorem zipSame_zipWith_mid (f : EVal → EVal → EVal) (ha : ∀ x y z, f (f x y) z = f x (f y z))
    (r ys s : List EVal) (h1 : r.length = ys.length) (h2 : s.length = ys.length) :
    zipSame f (List.zipWith f r ys) s = zipSame f r (List.zipWith f ys s) := by
  unfold zipSame
  have e1 : (List.zipWith f r ys).length = s.length := by simp [h1, h2]
  have e2 : r.length = (List.zipWith f ys s).length := by simp [h1, h2]
  simp only [if_pos e1, if_pos e2, zipWith_assoc f ha]

theorem zipRows_zipWith_mid (f : EVal → EVal → EVal) (ha : ∀ x y z, f (f x y) z = f x (f y z))
    (ys : List EVal) :
    ∀ rows rows2 : List (List EVal), (∀ r ∈ rows, r.length = ys.length) → (∀ r ∈ rows2, r.length = ys.length) →
      zipRows f (rows.map fun r => List.zipWith f r ys) rows2
        = zipRows f rows (rows2.map (List.zipWith f ys))
  | [], [], _, _ => by simp [zipRows]
  | [], _ :: _, _, _ => by simp [zipRows]
  | _ :: _, [], _, _ => by simp [zipRows]
  | r :: rs, s :: ss, h1, h2 => by
      have ih := zipRows_zipWith_mid f ha ys rs ss (fun x hx => h1 x (List.mem_cons_of_mem _ hx))
        (fun x hx => h2 x (List.mem_cons_of_mem _ hx))
      simp only [List.map_cons, zipRows, ih,
        zipSame_zipWith_mid f ha r ys s (h1 r (List.mem_cons_self ..)) (h2 s (List.mem_cons_self ..))]

theorem assocN_TvT (f : EVal → EVal → EVal) (ha : ∀ x y z, f (f x y) z = f x (f y z)) (ys : List EVal)
    (t u : List Rat) (rows rows2 : List (List EVal)) :
    AssocN f (.ts2 t rows) (.vec ys) (.ts2 u rows2) := by
  unfold AssocN
  rw [mergeN_ts2_vec, mergeN_vec_ts2]
  by_cases h1 : (rows.all fun r => r.length == ys.length) = true <;>
    by_cases h2 : (rows2.all fun r => r.length == ys.length) = true
  · have r1 := (all_len_iff rows ys.length).1 h1
    have r2 := (all_len_iff rows2 ys.length).1 h2
    simp only [if_pos h1, if_pos h2, Option.bind_some, mergeN_ts2_ts2, zipRows_zipWith_mid f ha ys rows rows2 r1 r2]
  · have r1 := (all_len_iff rows ys.length).1 h1
    simp only [if_pos h1, if_neg h2, Option.bind_some, Option.bind_none, mergeN_ts2_ts2]
    by_cases htu : t = u
    · simp only [if_pos htu]
      cases hz : zipRows f (rows.map fun r => List.zipWith f r ys) rows2 with
      | none => rfl
      | some Z =>
        exfalso
        have hR : ((rows.map fun r => List.zipWith f r ys).all fun r => r.length == ys.length) = true := by
          rw [all_len_iff]
          intro r' hr'
          obtain ⟨r, hr, rfl⟩ := List.mem_map.1 hr'
          simp [r1 r hr]
        have := (zipRows_all_len f _ rows2 Z hz ys.length).1
        rw [hR] at this
        exact h2 this.symm
    · simp only [if_neg htu]
  · have r2 := (all_len_iff rows2 ys.length).1 h2
    simp only [if_neg h1, if_pos h2, Option.bind_some, Option.bind_none, mergeN_ts2_ts2]
    by_cases htu : t = u
    · simp only [if_pos htu]
      cases hz : zipRows f rows (rows2.map (List.zipWith f ys)) with
      | none => rfl
      | some Z =>
        exfalso
        have hR : ((rows2.map (List.zipWith f ys)).all fun r => r.length == ys.length) = true := by
          rw [all_len_iff]
          intro r' hr'
          obtain ⟨r, hr, rfl⟩ := List.mem_map.1 hr'
          simp [r2 r hr]
        have := (zipRows_all_len f rows _ Z hz ys.length).1
        rw [hR] at this
        exact h1 this
    · simp only [if_neg htu]
  · simp only [if_neg h1, if_neg h2, Option.bind_none]

/-- with a commutative `f` the mirrored triple is associative too -/
theorem assocN_mirror (f : EVal → EVal → EVal) (hc : ∀ a b, f a b = f b a) (a b c : Bnd)
    (h : AssocN f c b a) : AssocN f a b c := by
  unfold AssocN at h ⊢
  have e1 : (fun ab => mergeN f ab c) = (fun ab => mergeN f c ab) := funext fun ab => mergeN_comm f hc ab c
  have e2 : (fun bc => mergeN f a bc) = (fun bc => mergeN f bc a) := funext fun bc => mergeN_comm f hc a bc
  rw [e1, e2, mergeN_comm f hc a b, mergeN_comm f hc b c]
  exact h.symm

/-- **associativity of the merge of normalised sides**, values and rejections, when every vector
    Timeseries has at least one row -/
theorem mergeN_assoc (f : EVal → EVal → EVal) (hc : ∀ a b, f a b = f b a)
    (ha : ∀ x y z, f (f x y) z = f x (f y z)) (a b c : Bnd) (na : NonDeg a) (nb : NonDeg b) (nc : NonDeg c) :
    AssocN f a b c := by
  cases a with
  | sc x => exact assocN_sc_left f hc ha x b c
  | vec xs =>
    cases b with
    | sc y => exact assocN_sc_mid f hc ha _ y c
    | vec ys =>
      cases c with
      | sc z => exact assocN_sc_right f hc ha _ _ z
      | vec zs => exact assocN_vvv f ha xs ys zs
      | ts1 t zs => exact (assocN_with_ts1 f xs ys t zs [] [] [] []).1
      | ts2 t rows => exact assocN_vvT f ha xs ys t rows nc
    | ts1 t ys =>
      cases c with
      | sc z => exact assocN_sc_right f hc ha _ _ z
      | vec zs => exact (assocN_with_ts1 f xs zs t ys [] [] [] []).2.1
      | ts1 u zs => exact (assocN_with_ts1 f xs zs t ys u [] [] []).2.2.2.1
      | ts2 u rows => exact (assocN_with_ts1 f xs [] t ys u [] rows []).2.2.2.2.2.2.2.2.2.2.2.2.1
    | ts2 t rows =>
      cases c with
      | sc z => exact assocN_sc_right f hc ha _ _ z
      | vec zs => exact assocN_vTv f ha xs t rows zs nb
      | ts1 u zs => exact (assocN_with_ts1 f xs [] u zs t [] rows []).2.2.2.2.2.2.2.2.2.2.2.2.2.1
      | ts2 u rows2 => exact assocN_vTT f ha xs t u rows rows2
  | ts1 t xs =>
    cases b with
    | sc y => exact assocN_sc_mid f hc ha _ y c
    | vec ys =>
      cases c with
      | sc z => exact assocN_sc_right f hc ha _ _ z
      | vec zs => exact (assocN_with_ts1 f ys zs t xs [] [] [] []).2.2.1
      | ts1 u zs => exact (assocN_with_ts1 f ys zs t xs u [] [] []).2.2.2.2.1
      | ts2 u rows => exact (assocN_with_ts1 f ys [] t xs u [] rows []).2.2.2.2.2.2.2.2.2.2.2.2.2.2.1
    | ts1 u ys =>
      cases c with
      | sc z => exact assocN_sc_right f hc ha _ _ z
      | vec zs => exact (assocN_with_ts1 f zs ys t xs u [] [] []).2.2.2.2.2.1
      | ts1 v zs => exact assocN_111 f ha t u v xs ys zs
      | ts2 v rows => exact (assocN_with_ts1 f [] ys t xs v u rows []).2.2.2.2.2.2.2.2.2.2.2.1
    | ts2 u rows =>
      cases c with
      | sc z => exact assocN_sc_right f hc ha _ _ z
      | vec zs => exact (assocN_with_ts1 f zs [] t xs u [] rows []).2.2.2.2.2.2.2.2.2.2.2.2.2.2.2.1
      | ts1 v zs => exact (assocN_with_ts1 f [] zs t xs u v rows []).2.2.2.2.2.2.2.2.2.2.1
      | ts2 v rows2 => exact (assocN_with_ts1 f [] [] t xs u v rows rows2).2.2.2.2.2.2.2.2.1
  | ts2 t rows =>
    cases b with
    | sc y => exact assocN_sc_mid f hc ha _ y c
    | vec ys =>
      cases c with
      | sc z => exact assocN_sc_right f hc ha _ _ z
      | vec zs => exact assocN_mirror f hc _ _ _ (assocN_vvT f ha zs ys t rows na)
      | ts1 u zs => exact (assocN_with_ts1 f ys [] u zs t [] rows []).2.2.2.2.2.2.2.2.2.2.2.2.2.2.2.2.1
      | ts2 u rows2 => exact assocN_TvT f ha ys t u rows rows2
    | ts1 u ys =>
      cases c with
      | sc z => exact assocN_sc_right f hc ha _ _ z
      | vec zs => exact (assocN_with_ts1 f zs [] u ys t [] rows []).2.2.2.2.2.2.2.2.2.2.2.2.2.2.2.2.2
      | ts1 v zs => exact (assocN_with_ts1 f [] zs u ys t v rows []).2.2.2.2.2.2.2.2.2.1
      | ts2 v rows2 => exact (assocN_with_ts1 f [] [] u ys t v rows rows2).2.2.2.2.2.2.2.1
    | ts2 u rows2 =>
      cases c with
      | sc z => exact assocN_sc_right f hc ha _ _ z
      | vec zs => exact assocN_mirror f hc _ _ _ (assocN_vTT f ha zs u t rows2 rows)
      | ts1 v zs => exact (assocN_with_ts1 f [] [] v zs t u rows rows2).2.2.2.2.2.2.1
      | ts2 v rows3 => exact assocN_222 f ha t u v rows rows2 rows3

theorem zipRows_some' (f : EVal → EVal → EVal) (a b z : List (List EVal)) (h : zipRows f a b = some z) :
    z.length = min a.length b.length := by
  induction a generalizing b z with
  | nil =>
    cases b with
    | nil => simp [zipRows] at h; subst h; rfl
    | cons s ss => simp [zipRows] at h
  | cons r rs ih =>
    cases b with
    | nil => simp [zipRows] at h
    | cons s ss =>
      simp only [zipRows, Option.bind_eq_bind, Option.pure_def] at h
      cases h1 : zipSame f r s with
      | none => simp [h1] at h
      | some x =>
        cases h2 : zipRows f rs ss with
        | none => simp [h1, h2] at h
        | some xs =>
          simp [h1, h2] at h
          subst h
          simp [ih ss xs h2]

/-! ### from normalised sides to `mergeSide` / `mergeBounds` -/

theorem normalize_vec_of_len (vs : List EVal) (h : vs.length ≠ 1) : normalize (.vec vs) = .vec vs := by
  match vs, h with
  | [], _ => rfl
  | [x], h => exact absurd rfl h
  | _ :: _ :: _, _ => rfl

theorem len_of_normalize_vec (vs : List EVal) (h : normalize (.vec vs) = .vec vs) : vs.length ≠ 1 := by
  match vs, h with
  | [], _ => simp
  | [x], h => simp [normalize] at h
  | _ :: _ :: _, _ => simp

theorem normalize_idem (b : Bnd) : normalize (normalize b) = normalize b := by
  cases b with
  | vec vs =>
    match vs with
    | [] => rfl
    | [x] => rfl
    | _ :: _ :: _ => rfl
  | _ => rfl

theorem nonDeg_normalize (b : Bnd) (h : NonDeg b) : NonDeg (normalize b) := by
  cases b with
  | vec vs =>
    match vs with
    | [] => exact h
    | [x] => trivial
    | _ :: _ :: _ => exact h
  | _ => exact h

theorem normalize_mapVals (g : EVal → EVal) (b : Bnd) (h : normalize b = b) :
    normalize (mapVals g b) = mapVals g b := by
  cases b with
  | vec vs =>
    have := len_of_normalize_vec vs h
    exact normalize_vec_of_len _ (by simpa using this)
  | _ => rfl

/-- the merge of normalised, non-degenerate sides is normalised and non-degenerate -/
theorem mergeN_result (f : EVal → EVal → EVal) (a b r : Bnd) (ha : normalize a = a) (hb : normalize b = b)
    (na : NonDeg a) (nb : NonDeg b) (h : mergeN f a b = some r) : normalize r = r ∧ NonDeg r := by
  cases a with
  | sc x =>
    rw [mergeN_sc_left] at h
    cases h
    refine ⟨normalize_mapVals _ b hb, ?_⟩
    cases b <;> simp_all [mapVals, NonDeg]
  | vec xs =>
    cases b with
    | sc y =>
      rw [mergeN_sc_right] at h
      cases h
      exact ⟨normalize_mapVals _ _ ha, trivial⟩
    | vec ys =>
      rw [mergeN_vec_vec] at h
      obtain ⟨z, hz, rfl⟩ := Option.map_eq_some_iff.1 h
      obtain ⟨e1, e2⟩ := zipSame_len f xs ys z hz
      have := len_of_normalize_vec xs ha
      exact ⟨normalize_vec_of_len z (by omega), trivial⟩
    | ts1 t ys => rw [mergeN_vec_ts1] at h; cases h
    | ts2 t rows =>
      rw [mergeN_vec_ts2] at h
      split at h
      · cases h
        exact ⟨rfl, by simpa [NonDeg] using nb⟩
      · cases h
  | ts1 t xs =>
    cases b with
    | sc y =>
      rw [mergeN_sc_right] at h
      cases h
      exact ⟨rfl, trivial⟩
    | vec ys => rw [mergeN_ts1_vec] at h; cases h
    | ts1 u ys =>
      rw [mergeN_ts1_ts1] at h
      split at h
      · obtain ⟨z, hz, rfl⟩ := Option.map_eq_some_iff.1 h
        exact ⟨rfl, trivial⟩
      · cases h
    | ts2 u rows => rw [mergeN_ts1_ts2] at h; cases h
  | ts2 t rows =>
    cases b with
    | sc y =>
      rw [mergeN_sc_right] at h
      cases h
      exact ⟨rfl, by simpa [NonDeg, mapVals] using na⟩
    | vec ys =>
      rw [mergeN_ts2_vec] at h
      split at h
      · cases h
        exact ⟨rfl, by simpa [NonDeg] using na⟩
      · cases h
    | ts1 u ys => rw [mergeN_ts2_ts1] at h; cases h
    | ts2 u rows2 =>
      rw [mergeN_ts2_ts2] at h
      split at h
      · obtain ⟨z, hz, rfl⟩ := Option.map_eq_some_iff.1 h
        refine ⟨rfl, ?_⟩
        have hzz := zipRows_some' f rows rows2 z hz
        intro hnil
        subst hnil
        cases rows with
        | nil => exact na rfl
        | cons r rs =>
          cases rows2 with
          | nil => exact nb rfl
          | cons s ss => simp at hzz
      · cases h

theorem mergeSide_assoc (f : EVal → EVal → EVal) (hc : ∀ a b, f a b = f b a)
    (ha : ∀ x y z, f (f x y) z = f x (f y z)) (a b c : Bnd) (na : NonDeg a) (nb : NonDeg b) (nc : NonDeg c) :
    (mergeSide f a b).bind (fun ab => mergeSide f ab c) = (mergeSide f b c).bind (fun bc => mergeSide f a bc) := by
  have h := mergeN_assoc f hc ha (normalize a) (normalize b) (normalize c) (nonDeg_normalize a na)
    (nonDeg_normalize b nb) (nonDeg_normalize c nc)
  unfold AssocN at h
  have e1 : (mergeSide f a b).bind (fun ab => mergeSide f ab c)
      = (mergeN f (normalize a) (normalize b)).bind (fun ab => mergeN f ab (normalize c)) := by
    rw [mergeSide_eq]
    cases hm : mergeN f (normalize a) (normalize b) with
    | none => rfl
    | some ab =>
      have := (mergeN_result f _ _ ab (normalize_idem a) (normalize_idem b) (nonDeg_normalize a na)
        (nonDeg_normalize b nb) hm).1
      simp only [Option.bind_some, mergeSide_eq, this]
  have e2 : (mergeSide f b c).bind (fun bc => mergeSide f a bc)
      = (mergeN f (normalize b) (normalize c)).bind (fun bc => mergeN f (normalize a) bc) := by
    rw [mergeSide_eq]
    cases hm : mergeN f (normalize b) (normalize c) with
    | none => rfl
    | some bc =>
      have := (mergeN_result f _ _ bc (normalize_idem b) (normalize_idem c) (nonDeg_normalize b nb)
        (nonDeg_normalize c nc) hm).1
      simp only [Option.bind_some, mergeSide_eq, this]
  rw [e1, e2, h]

end RtcVerif.Merge
