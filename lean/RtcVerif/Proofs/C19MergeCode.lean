import RtcVerif.Model.C19MergeCode
import RtcVerif.Proofs.MergeLemmas
import RtcVerif.Proofs.NumOrder
import Mathlib.Tactic.Common
/-!
Bridging lemmas between `merge_bounds` as written (`Model/C19MergeCode.lean`, over the dynamically typed
universe `PyV`) and the model `Merge.mergeBounds` the property theorems are about.
-/
namespace RtcVerif.MergeCode
open RtcVerif RtcVerif.Merge

/-- the upcasting loop over the four index pairs of the source, unrolled -/
theorem frame_orderRef (check : PyV → Bool) (norm : PyV → PyV) (upcast : PyV → PyV → Option PyV)
    (asserts : PyV → PyV → PyV → PyV → Bool) (lo hi : PyV → PyV → Option PyV) (a A b B : PyV) :
    frame check norm orderRef upcast asserts lo hi a A b B =
      if !([a, A, b, B].all check) then none else
      (upcast (norm a) (norm b)).bind fun a1 =>
      (upcast (norm b) a1).bind fun b1 =>
      (upcast (norm A) (norm B)).bind fun A1 =>
      (upcast (norm B) A1).bind fun B1 =>
        if !(asserts a1 A1 b1 B1) then none
        else (lo a1 b1).bind fun m => (hi A1 B1).bind fun M => some (m, M) := by
  unfold frame orderRef
  by_cases hc : ([a, A, b, B].all check) = true
  · simp only [hc, Bool.not_true, Bool.false_eq_true, if_false, List.map, List.foldlM, List.getD_cons_zero,
      List.getD_cons_succ, List.set_cons_zero, Option.bind_eq_bind, Option.pure_def]
    cases h1 : upcast (norm a) (norm b) with
    | none => simp
    | some a1 =>
      simp only [Option.map_some, Option.bind_some, List.getD_cons_zero, List.getD_cons_succ,
        List.set_cons_zero, List.set_cons_succ]
      cases h2 : upcast (norm b) a1 with
      | none => simp
      | some b1 =>
        simp only [Option.map_some, Option.bind_some, List.getD_cons_zero, List.getD_cons_succ,
          List.set_cons_zero, List.set_cons_succ]
        cases h3 : upcast (norm A) (norm B) with
        | none => simp
        | some A1 =>
          simp only [Option.map_some, Option.bind_some, List.getD_cons_zero, List.getD_cons_succ,
            List.set_cons_zero, List.set_cons_succ]
          cases h4 : upcast (norm B) A1 with
          | none => simp
          | some B1 => simp
  · simp [hc]

/-- normal forms after the first loop: no Python int, no one-element vector -/
def Normal : PyV → Prop
  | .num i _ => i = false
  | .arr _ vs => vs.length ≠ 1
  | .ts1 _ _ | .ts2 _ _ => True
  | _ => False

theorem normRef_spec (v : PyV) (hv : Valid v) :
    den (normRef v) = normalize (den v) ∧ Normal (normRef v) ∧ (WF v → WF (normRef v)) := by
  cases v with
  | num i x => cases i <;> simp [normRef, isArr, isInt, toFloat, den, normalize, Normal, WF]
  | arr i vs =>
    match vs with
    | [] => simp [normRef, isArr, size, isInt, den, normalize, Normal, WF]
    | [x] => cases i <;> simp [normRef, isArr, size, item, isInt, toFloat, den, normalize, Normal, WF]
    | x :: y :: rest => simp [normRef, isArr, size, isInt, den, normalize, Normal, WF]
  | ts1 t vals => simp [normRef, isArr, isInt, den, normalize, Normal]
  | ts2 t rows => simp [normRef, isArr, isInt, den, normalize, Normal]
  | arr2 rows => exact absurd hv (by simp [Valid])
  | arrObj => exact absurd hv (by simp [Valid])
  | other => exact absurd hv (by simp [Valid])

def fOf (mx : Bool) : EVal → EVal → EVal := if mx then EVal.max else EVal.min

theorem pyMM_den (mx : Bool) (i j : Bool) (x y : EVal) :
    den (pyMM mx (.num i x) (.num j y)) = .sc (fOf mx x y) := by
  have tot : EVal.le x y = true ∨ EVal.le y x = true := EVal.le_total' x y
  cases mx
  · -- min
    simp only [pyMM, fOf, EVal.min, EVal.lt, Bool.false_eq_true, if_false]
    by_cases h : EVal.le x y = true
    · simp [h, den]
    · have h' : EVal.le y x = true := tot.resolve_left h
      simp [h, h', den]
  · simp only [pyMM, fOf, EVal.max, EVal.lt, if_true]
    by_cases h : EVal.le x y = true
    · by_cases h' : EVal.le y x = true
      · have : x = y := EVal.le_antisymm' x y h h'
        subst this; simp [den]
      · simp [h, h', den]
    · simp [h, den]

/-- `Timeseries(times, <1-D float array>)` keeps the array when the invariant of 1-D series holds -/
theorem tsInit_arr (t : List Rat) (i : Bool) (vs : List EVal) (h : vs.length = 1 → t.length = 1) :
    tsInit t (.arr i vs) = .ts1 t vs := by
  match vs, h with
  | [], _ => simp [tsInit, isArr, isList, len, iterable, mkTs, asFloatArray]
  | [x], h =>
    have h1 : t.length = 1 := h rfl
    match t, h1 with
    | [t0], _ => simp [tsInit, isArr, isList, len, iterable, getItem0, mkTs, fullTimes, numVal]
  | x :: y :: rest, _ => simp [tsInit, isArr, isList, len, iterable, mkTs, asFloatArray]

theorem tsInit_arr2 (t : List Rat) (rows : List (List EVal)) :
    tsInit t (.arr2 rows) = .ts2 t rows := by
  match rows with
  | [] => simp [tsInit, isArr, isList, len, iterable, mkTs, asFloatArray]
  | [r] => simp [tsInit, isArr, isList, len, iterable, getItem0, mkTs, asFloatArray]
  | r :: s :: rest => simp [tsInit, isArr, isList, len, iterable, mkTs, asFloatArray]


theorem zipSame_some (f : EVal → EVal → EVal) (a b z : List EVal) (h : zipSame f a b = some z) :
    z = List.zipWith f a b := by
  unfold zipSame at h
  split at h
  · cases h; rfl
  · cases h

theorem zipRows_some (f : EVal → EVal → EVal) :
    ∀ (a b z : List (List EVal)), zipRows f a b = some z → z = List.zipWith (List.zipWith f) a b
  | [], [], z, h => by simp [zipRows] at h; subst h; rfl
  | [], _ :: _, z, h => by simp [zipRows] at h
  | _ :: _, [], z, h => by simp [zipRows] at h
  | r :: rs, s :: ss, z, h => by
      simp only [zipRows, Option.bind_eq_bind, Option.pure_def] at h
      cases h1 : zipSame f r s with
      | none => simp [h1] at h
      | some x =>
        cases h2 : zipRows f rs ss with
        | none => simp [h1, h2] at h
        | some xs =>
          simp [h1, h2] at h
          subst h
          rw [zipSame_some f r s x h1, zipRows_some f rs ss xs h2]
          rfl

/-- rectangular 2-D arrays: `zipRows` succeeds exactly when the NumPy shapes are equal -/
theorem zipRows_rect (f : EVal → EVal → EVal) :
    ∀ (r1 r2 : List (List EVal)) (n1 n2 : Nat), (∀ r ∈ r1, r.length = n1) → (∀ r ∈ r2, r.length = n2) →
      zipRows f r1 r2 =
        if r1.length = r2.length ∧ (r1 = [] ∨ n1 = n2) then some (List.zipWith (List.zipWith f) r1 r2) else none
  | [], [], _, _, _, _ => by simp [zipRows]
  | [], _ :: _, _, _, _, _ => by simp [zipRows]
  | _ :: _, [], _, _, _, _ => by simp [zipRows]
  | r :: rs, s :: ss, n1, n2, h1, h2 => by
      have hr : r.length = n1 := h1 r (List.mem_cons_self ..)
      have hs : s.length = n2 := h2 s (List.mem_cons_self ..)
      have ih := zipRows_rect f rs ss n1 n2 (fun x hx => h1 x (List.mem_cons_of_mem _ hx))
        (fun x hx => h2 x (List.mem_cons_of_mem _ hx))
      simp only [zipRows, zipSame, hr, hs, ih, Option.bind_eq_bind, Option.pure_def]
      by_cases hn : n1 = n2
      · by_cases hl : rs.length = ss.length <;> simp [hn, hl]
      · simp [hn]

theorem zipRows_shape (f : EVal → EVal → EVal) (r1 r2 : List (List EVal))
    (h1 : ∀ r ∈ r1, r.length = shape1 (.arr2 r1)) (h2 : ∀ r ∈ r2, r.length = shape1 (.arr2 r2)) :
    zipRows f r1 r2 =
      if shapeOf (.arr2 r1) = shapeOf (.arr2 r2) then some (List.zipWith (List.zipWith f) r1 r2) else none := by
  rw [zipRows_rect f r1 r2 _ _ h1 h2]
  match r1, r2 with
  | [], [] => simp [shapeOf, shape1]
  | [], _ :: _ => simp [shapeOf]
  | _ :: _, [] => simp [shapeOf]
  | r :: rs, s :: ss => simp [shapeOf]

/-- merge of one side as written, on normalised values -/
def sideN (mx : Bool) (a b : PyV) : Option PyV :=
  (upcastRef a b).bind fun a1 => (upcastRef b a1).bind fun b1 =>
    if sameType a1 b1 then combineRef mx a1 b1 else none

@[simp] theorem den_num (i : Bool) (x : EVal) : den (.num i x) = .sc x := rfl
@[simp] theorem den_arr (i : Bool) (xs : List EVal) : den (.arr i xs) = .vec xs := rfl
@[simp] theorem den_ts1 (t : List Rat) (xs : List EVal) : den (.ts1 t xs) = .ts1 t xs := rfl
@[simp] theorem den_ts2 (t : List Rat) (xs : List (List EVal)) : den (.ts2 t xs) = .ts2 t xs := rfl

theorem fOf_eq (mx : Bool) : (if mx = true then EVal.max else EVal.min) = fOf mx := rfl

theorem sideN_num (mx : Bool) (i : Bool) (x : EVal) (b : PyV) (na : Normal (.num i x)) (nb : Normal b) (wa : WF (.num i x)) (wb : WF b) :
    (sideN mx (.num i x) b).map den = mergeN (fOf mx) (den (.num i x)) (den b) := by
  cases b <;> (try exact False.elim nb)
  case num j y =>
    simp only [Normal] at na nb; subst na; subst nb
    simp [sideN, upcastRef, sameType, combineRef, isArr, isTs, mergeN, upcast, combine, pyMM_den]
  case arr j ys =>
    simp only [Normal] at na; subst na
    simp [sideN, upcastRef, sameType, combineRef, isArr, isTs, isInt, isFloat, fullLikeF, numVal, shapeOf, npMM,
      mergeN, upcast, combine, zipSame, fOf_eq]
  case ts1 t ys =>
    simp only [Normal] at na; subst na
    have h1 : tsInit t (.arr false (ys.map fun _ => x)) = .ts1 t (ys.map fun _ => x) :=
      tsInit_arr t false _ (by intro h; exact wb (by simpa using h))
    have h2 : tsInit t (.arr false (List.zipWith (fOf mx) (ys.map fun _ => x) ys))
        = .ts1 t (List.zipWith (fOf mx) (ys.map fun _ => x) ys) :=
      tsInit_arr t false _ (by intro h; refine wb ?_; simp at h; omega)
    simp [sideN, upcastRef, sameType, combineRef, isArr, isTs, isInt, isFloat, fullLike, valuesOf, timesOf,
      numVal, shapeOf, npMM, mergeN, upcast, combine, zipSame, fOf_eq, h1, h2]
  case ts2 t rows =>
    simp only [Normal] at na; subst na
    have hz := zipRows_const_left (fOf mx) x rows
    have hs := zipRows_some _ _ _ _ hz
    have hsh : shape1 (.arr2 (rows.map fun r => r.map fun _ => x)) = shape1 (.arr2 rows) := by
      cases rows <;> simp [shape1]
    simp [sideN, upcastRef, sameType, combineRef, isArr, isTs, isInt, isFloat, fullLike, valuesOf, timesOf,
      numVal, shapeOf, hsh, npMM, mergeN, upcast, combine, fOf_eq, tsInit_arr2, hz, ← hs]

theorem sideN_arr (mx : Bool) (i : Bool) (xs : List EVal) (b : PyV) (na : Normal (.arr i xs)) (nb : Normal b) (wa : WF (.arr i xs)) (wb : WF b) :
    (sideN mx (.arr i xs) b).map den = mergeN (fOf mx) (den (.arr i xs)) (den b) := by
  cases b <;> (try exact False.elim nb)
  case num j y =>
    simp only [Normal] at nb; subst nb
    simp [sideN, upcastRef, sameType, combineRef, isArr, isTs, isInt, isFloat, fullLikeF, numVal, shapeOf, npMM,
      mergeN, upcast, combine, zipSame, fOf_eq]
  case arr j ys =>
    by_cases hl : xs.length = ys.length <;>
      simp [sideN, upcastRef, sameType, combineRef, isArr, isTs, shapeOf, npMM, mergeN, upcast, combine, zipSame,
        fOf_eq, hl]
  case ts1 t ys =>
    simp [sideN, upcastRef, sameType, isArr, isTs, isInt, isFloat, valuesOf, ndim, mergeN, upcast]
  case ts2 t rows =>
    obtain ⟨hne, hrect⟩ := wb
    by_cases hk : xs.length = shape1 (.arr2 rows)
    · have hall : (rows.all fun r => r.length == xs.length) = true := by
        simp only [List.all_eq_true, beq_iff_eq]
        intro r hr; rw [hrect r hr, hk]
      have hz := zipRows_vec_left (fOf mx) xs rows hall
      have hs := zipRows_some _ _ _ _ hz
      have hsh : shape1 (.arr2 (rows.map fun _ => xs)) = shape1 (.arr2 rows) := by
        cases rows with
        | nil => exact absurd rfl hne
        | cons r rs => simp [shape1] at hk ⊢; exact hk
      simp [sideN, upcastRef, sameType, combineRef, isArr, isTs, isInt, isFloat, valuesOf, timesOf, ndim, len,
        broadcastLike, hk, shapeOf, hsh, npMM, mergeN, upcast, fOf_eq, tsInit_arr2, ← hs]
      rw [if_pos hrect]
      simp [combine, hz]
    · have hall : ¬ (rows.all fun r => r.length == xs.length) = true := by
        intro h
        simp only [List.all_eq_true, beq_iff_eq] at h
        cases rows with
        | nil => exact hne rfl
        | cons r rs =>
          have := h r (List.mem_cons_self ..)
          apply hk; simp [shape1, this]
      simp [sideN, upcastRef, sameType, isArr, isTs, isInt, isFloat, valuesOf, ndim, len, hk, mergeN, upcast, hall]

theorem sideN_ts1 (mx : Bool) (t : List Rat) (xs : List EVal) (b : PyV) (na : Normal (.ts1 t xs)) (nb : Normal b) (wa : WF (.ts1 t xs)) (wb : WF b) :
    (sideN mx (.ts1 t xs) b).map den = mergeN (fOf mx) (den (.ts1 t xs)) (den b) := by
  cases b <;> (try exact False.elim nb)
  case num j y =>
    simp only [Normal] at nb; subst nb
    have h1 : tsInit t (.arr false (xs.map fun _ => y)) = .ts1 t (xs.map fun _ => y) :=
      tsInit_arr t false _ (by intro h; exact wa (by simpa using h))
    have h2 : tsInit t (.arr false (List.zipWith (fOf mx) xs (xs.map fun _ => y)))
        = .ts1 t (List.zipWith (fOf mx) xs (xs.map fun _ => y)) :=
      tsInit_arr t false _ (by intro h; refine wa ?_; simp at h; omega)
    simp [sideN, upcastRef, sameType, combineRef, isArr, isTs, isInt, isFloat, fullLike, valuesOf, timesOf,
      numVal, shapeOf, npMM, mergeN, upcast, combine, zipSame, fOf_eq, h1, h2]
  case arr j ys =>
    simp [sideN, upcastRef, sameType, isArr, isTs, isInt, isFloat, valuesOf, ndim, mergeN, upcast]
  case ts1 u ys =>
    by_cases htu : t = u
    · subst htu
      by_cases hl : xs.length = ys.length
      · have h2 : tsInit t (.arr false (List.zipWith (fOf mx) xs ys)) = .ts1 t (List.zipWith (fOf mx) xs ys) :=
          tsInit_arr t false _ (by intro h; refine wa ?_; simp at h; omega)
        simp [sideN, upcastRef, sameType, combineRef, isArr, isTs, valuesOf, timesOf, shapeOf, npMM, mergeN,
          upcast, combine, zipSame, fOf_eq, hl, h2]
      · simp [sideN, upcastRef, sameType, combineRef, isArr, isTs, valuesOf, timesOf, shapeOf, mergeN,
          upcast, combine, zipSame, hl]
    · by_cases hl : t.length = u.length <;>
        simp [sideN, upcastRef, sameType, combineRef, isArr, isTs, timesOf, mergeN, upcast, combine, htu, hl]
  case ts2 u rows =>
    by_cases htu : t = u <;> by_cases hl : t.length = u.length <;>
      simp [sideN, upcastRef, sameType, combineRef, isArr, isTs, timesOf, valuesOf, shapeOf, mergeN, upcast,
        combine, htu, hl]

theorem sideN_ts2 (mx : Bool) (t : List Rat) (rows : List (List EVal)) (b : PyV) (na : Normal (.ts2 t rows)) (nb : Normal b) (wa : WF (.ts2 t rows)) (wb : WF b) :
    (sideN mx (.ts2 t rows) b).map den = mergeN (fOf mx) (den (.ts2 t rows)) (den b) := by
  cases b <;> (try exact False.elim nb)
  case num j y =>
    simp only [Normal] at nb; subst nb
    have hz := zipRows_const_right (fOf mx) y rows
    have hs := zipRows_some _ _ _ _ hz
    have hsh : shape1 (.arr2 (rows.map fun r => r.map fun _ => y)) = shape1 (.arr2 rows) := by
      cases rows <;> simp [shape1]
    simp [sideN, upcastRef, sameType, combineRef, isArr, isTs, isInt, isFloat, fullLike, valuesOf, timesOf,
      numVal, shapeOf, hsh, npMM, mergeN, upcast, combine, fOf_eq, tsInit_arr2, hz, ← hs]
  case arr j ys =>
    obtain ⟨hne, hrect⟩ := wa
    by_cases hk : ys.length = shape1 (.arr2 rows)
    · have hall : (rows.all fun r => r.length == ys.length) = true := by
        simp only [List.all_eq_true, beq_iff_eq]
        intro r hr; rw [hrect r hr, hk]
      have hz := zipRows_vec_right (fOf mx) ys rows hall
      have hs := zipRows_some _ _ _ _ hz
      have hsh : shape1 (.arr2 (rows.map fun _ => ys)) = shape1 (.arr2 rows) := by
        cases rows with
        | nil => exact absurd rfl hne
        | cons r rs => simp [shape1] at hk ⊢; exact hk
      simp [sideN, upcastRef, sameType, combineRef, isArr, isTs, isInt, isFloat, valuesOf, timesOf, ndim, len,
        broadcastLike, hk, shapeOf, hsh, npMM, mergeN, upcast, fOf_eq, tsInit_arr2, ← hs]
      rw [if_pos hrect]
      simp [combine, hz]
    · have hall : ¬ ∀ r ∈ rows, r.length = ys.length := by
        intro h
        cases rows with
        | nil => exact hne rfl
        | cons r rs =>
          have := h r (List.mem_cons_self ..)
          apply hk; simp [shape1, this]
      simp [sideN, upcastRef, sameType, isArr, isTs, isInt, isFloat, valuesOf, ndim, len, hk, mergeN, upcast, hall]
  case ts1 u ys =>
    by_cases htu : t = u <;> by_cases hl : t.length = u.length <;>
      simp [sideN, upcastRef, sameType, combineRef, isArr, isTs, timesOf, valuesOf, shapeOf, mergeN, upcast,
        combine, htu, hl]
  case ts2 u r2 =>
    by_cases htu : t = u
    · subst htu
      have hz := zipRows_shape (fOf mx) rows r2 wa.2 wb.2
      by_cases hsh : shapeOf (.arr2 rows) = shapeOf (.arr2 r2)
      · rw [if_pos hsh] at hz
        simp [sideN, upcastRef, sameType, combineRef, isArr, isTs, valuesOf, timesOf, hsh, npMM, mergeN,
          upcast, combine, fOf_eq, tsInit_arr2, hz]
      · rw [if_neg hsh] at hz
        simp [sideN, upcastRef, sameType, combineRef, isArr, isTs, valuesOf, timesOf, hsh, mergeN,
          upcast, combine, hz]
    · by_cases hl : t.length = u.length <;>
        simp [sideN, upcastRef, sameType, combineRef, isArr, isTs, timesOf, mergeN, upcast, combine, htu, hl]



theorem sideN_is_model (mx : Bool) (a b : PyV) (na : Normal a) (nb : Normal b) (wa : WF a) (wb : WF b) :
    (sideN mx a b).map den = mergeN (fOf mx) (den a) (den b) := by
  cases a <;> (try exact False.elim na)
  case num i x => exact sideN_num mx i x b na nb wa wb
  case arr i xs => exact sideN_arr mx i xs b na nb wa wb
  case ts1 t xs => exact sideN_ts1 mx t xs b na nb wa wb
  case ts2 t rows => exact sideN_ts2 mx t rows b na nb wa wb

theorem checkRef_valid (v : PyV) : checkRef v = true ↔ Valid v := by
  cases v with
  | num i x => cases i <;> simp [checkRef, isArr, isFloat, isInt, isTs, Valid]
  | _ => simp [checkRef, isArr, ndim, numericDtype, isFloat, isInt, isTs, Valid]

/-- one side of `merge_bounds` as written computes the model's `mergeSide` -/
theorem side_is_model (mx : Bool) (a b : PyV) (ha : Valid a) (hb : Valid b) (wa : WF a) (wb : WF b) :
    (sideN mx (normRef a) (normRef b)).map den = mergeSide (fOf mx) (den a) (den b) := by
  obtain ⟨da, na, wa'⟩ := normRef_spec a ha
  obtain ⟨db, nb, wb'⟩ := normRef_spec b hb
  rw [mergeSide_eq, ← da, ← db]
  exact sideN_is_model mx _ _ na nb (wa' wa) (wb' wb)

/-- the unrolled frame, side by side -/
theorem frame_sides (x y X Y : PyV) :
    ((upcastRef x y).bind fun a1 =>
      (upcastRef y a1).bind fun b1 =>
      (upcastRef X Y).bind fun A1 =>
      (upcastRef Y A1).bind fun B1 =>
        if !(assertsRef a1 A1 b1 B1) then none
        else (combineRef true a1 b1).bind fun m => (combineRef false A1 B1).bind fun M => some (m, M))
      = (sideN true x y).bind fun m => (sideN false X Y).bind fun M => some (m, M) := by
  unfold sideN assertsRef
  cases h1 : upcastRef x y with
  | none => simp
  | some a1 =>
    cases h2 : upcastRef y a1 with
    | none => simp [h2]
    | some b1 =>
      cases h3 : upcastRef X Y with
      | none => simp [h2]
      | some A1 =>
        cases h4 : upcastRef Y A1 with
        | none => simp [h2, h4]
        | some B1 =>
          cases hs1 : sameType a1 b1 <;> cases hs2 : sameType A1 B1 <;> simp [h2, h4, hs1, hs2]

theorem mergeBoundsRef_valid (a A b B : PyV) (ha : Valid a) (hA : Valid A) (hb : Valid b) (hB : Valid B) :
    mergeBoundsRef a A b B =
      (sideN true (normRef a) (normRef b)).bind fun m =>
        (sideN false (normRef A) (normRef B)).bind fun M => some (m, M) := by
  unfold mergeBoundsRef
  rw [frame_orderRef, ← frame_sides]
  have h : ([a, A, b, B].all checkRef) = true := by
    simp [(checkRef_valid a).2 ha, (checkRef_valid A).2 hA, (checkRef_valid b).2 hb, (checkRef_valid B).2 hB]
  simp [h]

theorem mergeBoundsRef_invalid (a A b B : PyV) (h : ¬ (Valid a ∧ Valid A ∧ Valid b ∧ Valid B)) :
    mergeBoundsRef a A b B = none := by
  unfold mergeBoundsRef
  rw [frame_orderRef]
  have hc : ¬ ([a, A, b, B].all checkRef) = true := by
    intro hc
    simp only [List.all_cons, List.all_nil, Bool.and_true, Bool.and_eq_true] at hc
    exact h ⟨(checkRef_valid a).1 hc.1, (checkRef_valid A).1 hc.2.1, (checkRef_valid b).1 hc.2.2.1,
      (checkRef_valid B).1 hc.2.2.2⟩
  simp [hc]

end RtcVerif.MergeCode
