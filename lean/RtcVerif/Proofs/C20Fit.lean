import RtcVerif.Model.C20Fit
import Mathlib.Algebra.Order.Field.Rat
import Mathlib.Tactic.Linarith
namespace RtcVerif.C20

theorem pySlice_length (x : List Rat) (a b : Nat) : (pySlice x a b).length = x.length - b - a := by
  simp only [pySlice, List.length_drop, List.length_take]
  omega

theorem interiorKnots_length (x : List Rat) (k : Nat) (h : k + 1 ≤ x.length) :
    (interiorKnots x k).length = x.length - k - 1 := by
  unfold interiorKnots
  split
  · rw [pySlice_length]; omega
  · rw [List.length_zipWith, pySlice_length, pySlice_length]; omega

theorem fitKnots_length (x : List Rat) (k : Nat) (δ : Rat) (h : k + 1 ≤ x.length) :
    (fitKnots x k δ none).length = x.length + k + 1 := by
  simp [fitKnots, interiorKnots_length x k h]
  omega

theorem fitKnots_length_given (x : List Rat) (k : Nat) (δ : Rat) (l : List Rat) :
    (fitKnots x k δ (some l)).length = l.length + 2 * (k + 1) := by
  simp [fitKnots]
  omega

end RtcVerif.C20
