import RtcVerif.Model.C20BSpline
import Mathlib.Algebra.Order.Field.Rat
import Mathlib.Algebra.Order.Field.Basic
import Mathlib.Tactic.Linarith
import Mathlib.Tactic.Ring
import Mathlib.Tactic.FieldSimp
import Mathlib.Tactic.Positivity
/-!
Helper lemmas for C20: finite sums `sumN`, the Cox-de Boor recursion (support, sign, telescoping),
Abel summation for the derivative formula.
-/
namespace RtcVerif.C20

/-! ### `sumN` -/

theorem sumN_succ (n : Nat) (f : Nat → Rat) : sumN (n + 1) f = sumN n f + f n := rfl

theorem sumN_congr {n : Nat} {f g : Nat → Rat} (h : ∀ i, i < n → f i = g i) :
    sumN n f = sumN n g := by
  induction n with
  | zero => rfl
  | succ n ih =>
    rw [sumN_succ, sumN_succ, ih (fun i hi => h i (Nat.lt_succ_of_lt hi)), h n (Nat.lt_succ_self n)]

theorem sumN_zero {n : Nat} {f : Nat → Rat} (h : ∀ i, i < n → f i = 0) : sumN n f = 0 := by
  induction n with
  | zero => rfl
  | succ n ih =>
    rw [sumN_succ, ih (fun i hi => h i (Nat.lt_succ_of_lt hi)), h n (Nat.lt_succ_self n)]; simp

theorem sumN_le {n : Nat} {f g : Nat → Rat} (h : ∀ i, i < n → f i ≤ g i) :
    sumN n f ≤ sumN n g := by
  induction n with
  | zero => exact le_refl _
  | succ n ih =>
    rw [sumN_succ, sumN_succ]
    exact add_le_add (ih (fun i hi => h i (Nat.lt_succ_of_lt hi))) (h n (Nat.lt_succ_self n))

theorem sumN_nonneg {n : Nat} {f : Nat → Rat} (h : ∀ i, i < n → 0 ≤ f i) : 0 ≤ sumN n f := by
  induction n with
  | zero => exact le_refl _
  | succ n ih =>
    rw [sumN_succ]
    exact add_nonneg (ih (fun i hi => h i (Nat.lt_succ_of_lt hi))) (h n (Nat.lt_succ_self n))

theorem sumN_mul_left (c : Rat) (n : Nat) (f : Nat → Rat) :
    sumN n (fun i => c * f i) = c * sumN n f := by
  induction n with
  | zero => simp [sumN]
  | succ n ih => rw [sumN_succ, sumN_succ, ih]; ring

theorem sumN_mul_right (c : Rat) (n : Nat) (f : Nat → Rat) :
    sumN n (fun i => f i * c) = sumN n f * c := by
  induction n with
  | zero => simp [sumN]
  | succ n ih => rw [sumN_succ, sumN_succ, ih]; ring

theorem sumN_succ_bot (n : Nat) (f : Nat → Rat) :
    sumN (n + 1) f = f 0 + sumN n (fun i => f (i + 1)) := by
  induction n with
  | zero => simp [sumN]
  | succ n ih => rw [sumN_succ, ih, sumN_succ]; ring

/-- telescoping of shifted summands -/
theorem sumN_telescope (A B : Nat → Rat) (a m : Nat) :
    sumN m (fun i => A (a + i) + B (a + i + 1)) + B a
      = sumN m (fun i => A (a + i) + B (a + i)) + B (a + m) := by
  induction m with
  | zero => simp [sumN]
  | succ m ih =>
    rw [sumN_succ, sumN_succ]
    have : a + (m + 1) = a + m + 1 := rfl
    rw [this]
    linarith

/-- Abel summation -/
theorem sumN_abel (w E : Nat → Rat) (m : Nat) :
    sumN (m + 1) (fun i => w i * (E i - E (i + 1)))
      = w 0 * E 0 - w m * E (m + 1) + sumN m (fun i => (w (i + 1) - w i) * E (i + 1)) := by
  induction m with
  | zero => simp [sumN]; ring
  | succ m ih => rw [sumN_succ, ih, sumN_succ]; ring

/-! ### monotone knots -/

theorem Mono.step {t : Nat → Rat} (hm : Mono t) (i : Nat) : t i ≤ t (i + 1) := hm i (i + 1) (Nat.le_succ i)

theorem mono_of_step {t : Nat → Rat} (h : ∀ i, t i ≤ t (i + 1)) : Mono t := by
  intro i j hij
  induction hij with
  | refl => exact le_refl _
  | step _ ih => exact le_trans ih (h _)

/-! ### one-step unfoldings -/

theorem basis_zero (t : Nat → Rat) (tl x : Rat) (i : Nat) :
    basis t tl x 0 i = if inside0 t tl x i then 1 else 0 := rfl

theorem basis_succ (t : Nat → Rat) (tl x : Rat) (k i : Nat) :
    basis t tl x (k + 1) i =
      (if t i < t (i + k + 1) then (x - t i) / (t (i + k + 1) - t i) * basis t tl x k i else 0)
      + (if t (i + 1) < t (i + k + 2) then
          (t (i + k + 2) - x) / (t (i + k + 2) - t (i + 1)) * basis t tl x k (i + 1) else 0) := rfl

/-! ### support -/

theorem InSupport.lift_left {t : Nat → Rat} {tl x : Rat} {k i : Nat} (hm : Mono t)
    (hl : ∀ j, t j ≤ tl) (h : InSupport t tl x k i) : InSupport t tl x (k + 1) i := by
  obtain ⟨h1, h2⟩ := h
  refine ⟨h1, ?_⟩
  have hstep : t (i + k + 1) ≤ t (i + (k + 1) + 1) := hm _ _ (by omega)
  rcases h2 with h2 | ⟨h2, h3, h4⟩
  · exact Or.inl (lt_of_lt_of_le h2 hstep)
  · refine Or.inr ⟨h2, ?_, h4⟩
    exact le_antisymm (hl _) (h3 ▸ hstep)

theorem InSupport.lift_right {t : Nat → Rat} {tl x : Rat} {k i : Nat} (hm : Mono t)
    (h : InSupport t tl x k (i + 1)) : InSupport t tl x (k + 1) i := by
  obtain ⟨h1, h2⟩ := h
  have e : i + 1 + k + 1 = i + (k + 1) + 1 := by omega
  rw [e] at h2
  refine ⟨le_trans (hm.step i) h1, ?_⟩
  rcases h2 with h2 | ⟨h2, h3, h4⟩
  · exact Or.inl h2
  · exact Or.inr ⟨h2, h3, lt_of_le_of_lt (hm.step i) h4⟩

/-- **local support**: outside its support a basis function is zero -/
theorem basis_eq_zero_of_not_inSupport {t : Nat → Rat} {tl x : Rat} (hm : Mono t)
    (hl : ∀ j, t j ≤ tl) : ∀ (k i : Nat), ¬ InSupport t tl x k i → basis t tl x k i = 0 := by
  intro k
  induction k with
  | zero =>
    intro i hns
    rw [basis_zero]
    have : ¬ inside0 t tl x i := by
      intro h
      apply hns
      rcases h with ⟨h1, h2⟩ | ⟨h1, h2, h3⟩
      · exact ⟨h1, Or.inl h2⟩
      · refine ⟨?_, Or.inr ⟨h3, h2, h2 ▸ h1⟩⟩
        rw [h3, ← h2]; exact le_of_lt h1
    simp [this]
  | succ k ih =>
    intro i hns
    have h1 : basis t tl x k i = 0 := ih i (fun h => hns (h.lift_left hm hl))
    have h2 : basis t tl x k (i + 1) = 0 := ih (i + 1) (fun h => hns (h.lift_right hm))
    rw [basis_succ, h1, h2]
    simp

/-- an empty knot span carries no basis function -/
theorem basis_eq_zero_of_empty_span {t : Nat → Rat} {tl x : Rat} (hm : Mono t)
    (hl : ∀ j, t j ≤ tl) (k i : Nat) (h : ¬ t i < t (i + k + 1)) : basis t tl x k i = 0 := by
  apply basis_eq_zero_of_not_inSupport hm hl
  have heq : t (i + k + 1) = t i := le_antisymm (not_lt.1 h) (hm _ _ (by omega))
  rintro ⟨h1, h2 | ⟨_, h3, h4⟩⟩
  · rw [heq] at h2; exact absurd h1 (not_le.2 h2)
  · rw [heq] at h3; rw [h3] at h4; exact lt_irrefl _ h4

/-- **non-negativity** -/
theorem basis_nonneg' {t : Nat → Rat} {tl x : Rat} (hm : Mono t) (hl : ∀ j, t j ≤ tl) :
    ∀ (k i : Nat), 0 ≤ basis t tl x k i := by
  intro k
  induction k with
  | zero =>
    intro i
    rw [basis_zero]
    split <;> norm_num
  | succ k ih =>
    intro i
    rw [basis_succ]
    apply add_nonneg
    · split
      · rename_i hg
        by_cases hx : t i ≤ x
        · exact mul_nonneg (div_nonneg (sub_nonneg.2 hx) (le_of_lt (sub_pos.2 hg))) (ih i)
        · have : basis t tl x k i = 0 :=
            basis_eq_zero_of_not_inSupport hm hl k i (fun h => hx h.1)
          rw [this]; simp
      · exact le_refl _
    · split
      · rename_i hg
        by_cases hx : x ≤ t (i + k + 2)
        · exact mul_nonneg (div_nonneg (sub_nonneg.2 hx) (le_of_lt (sub_pos.2 hg))) (ih (i + 1))
        · have : basis t tl x k (i + 1) = 0 := by
            apply basis_eq_zero_of_not_inSupport hm hl
            have e : i + 1 + k + 1 = i + k + 2 := by omega
            rintro ⟨_, h2⟩
            rw [e] at h2
            rcases h2 with h2 | ⟨h2, h3, _⟩
            · exact hx (le_of_lt h2)
            · exact hx (by rw [h2, h3])
          rw [this]; simp
      · exact le_refl _

/-! ### partition of unity -/

/-- the two halves of the recursion, indexed by the lower-order basis function they multiply -/
def partA (t : Nat → Rat) (tl x : Rat) (k j : Nat) : Rat :=
  if t j < t (j + k + 1) then (x - t j) / (t (j + k + 1) - t j) * basis t tl x k j else 0

def partB (t : Nat → Rat) (tl x : Rat) (k j : Nat) : Rat :=
  if t j < t (j + k + 1) then (t (j + k + 1) - x) / (t (j + k + 1) - t j) * basis t tl x k j else 0

theorem basis_succ_parts (t : Nat → Rat) (tl x : Rat) (k i : Nat) :
    basis t tl x (k + 1) i = partA t tl x k i + partB t tl x k (i + 1) := by
  have e : i + 1 + k + 1 = i + k + 2 := by omega
  rw [basis_succ, partA, partB, e]

theorem partA_add_partB {t : Nat → Rat} {tl x : Rat} (hm : Mono t) (hl : ∀ j, t j ≤ tl)
    (k j : Nat) : partA t tl x k j + partB t tl x k j = basis t tl x k j := by
  unfold partA partB
  by_cases hg : t j < t (j + k + 1)
  · rw [if_pos hg, if_pos hg]
    have hd : t (j + k + 1) - t j ≠ 0 := ne_of_gt (sub_pos.2 hg)
    field_simp
    ring
  · rw [if_neg hg, if_neg hg, basis_eq_zero_of_empty_span hm hl k j hg]; simp

theorem partB_eq_zero_of_basis {t : Nat → Rat} {tl x : Rat} {k j : Nat}
    (h : basis t tl x k j = 0) : partB t tl x k j = 0 := by
  unfold partB; rw [h]; simp

/-- sum of consecutive basis functions of order `k + 1` in terms of order `k` -/
theorem sum_basis_succ {t : Nat → Rat} {tl x : Rat} (hm : Mono t) (hl : ∀ j, t j ≤ tl)
    (k a m : Nat) :
    sumN m (fun i => basis t tl x (k + 1) (a + i))
      = sumN m (fun i => basis t tl x k (a + i)) + partB t tl x k (a + m) - partB t tl x k a := by
  have h1 : sumN m (fun i => basis t tl x (k + 1) (a + i))
      = sumN m (fun i => partA t tl x k (a + i) + partB t tl x k (a + i + 1)) :=
    sumN_congr (fun i _ => basis_succ_parts t tl x k (a + i))
  have h2 : sumN m (fun i => partA t tl x k (a + i) + partB t tl x k (a + i))
      = sumN m (fun i => basis t tl x k (a + i)) :=
    sumN_congr (fun i _ => partA_add_partB hm hl k (a + i))
  have h3 := sumN_telescope (partA t tl x k) (partB t tl x k) a m
  rw [h1, ← h2]
  linarith

/-- order 0: consecutive indicator functions add up to the indicator of the union -/
theorem sum_basis_zero {t : Nat → Rat} {tl x : Rat} (hm : Mono t) (hl : ∀ j, t j ≤ tl)
    (a : Nat) : ∀ m : Nat,
    sumN m (fun i => basis t tl x 0 (a + i)) = if InDomain t tl x 0 a (a + m) then 1 else 0 := by
  intro m
  induction m with
  | zero =>
    have : ¬ InDomain t tl x 0 a (a + 0) := by
      rintro ⟨h1, h2 | ⟨_, h3, h4⟩⟩
      · exact absurd h1 (not_le.2 h2)
      · simp only [Nat.add_zero] at h3 h4; rw [h3] at h4; exact lt_irrefl _ h4
    rw [if_neg this]; rfl
  | succ m ih =>
    rw [sumN_succ, ih, basis_zero]
    have hab : t a ≤ t (a + m) := hm _ _ (by omega)
    have hstep : t (a + m) ≤ t (a + m + 1) := hm.step _
    have e0 : a + 0 = a := rfl
    by_cases hC : InDomain t tl x 0 a (a + m)
    · -- already covered; the next interval does not contain x
      have hnot : ¬ inside0 t tl x (a + m) := by
        obtain ⟨_, h2⟩ := hC
        rintro (⟨g1, _⟩ | ⟨g1, g2, g3⟩)
        · rcases h2 with h2 | ⟨h2, h3, _⟩
          · exact absurd g1 (not_le.2 h2)
          · have : x < tl := lt_of_lt_of_le ‹x < t (a + m + 1)› (hl _)
            exact absurd h2 (ne_of_lt this)
        · rcases h2 with h2 | ⟨_, h3, _⟩
          · rw [g3] at h2; exact absurd (hl (a + m)) (not_le.2 h2)
          · rw [h3, ← g2] at g1; exact lt_irrefl _ g1
      have hC' : InDomain t tl x 0 a (a + (m + 1)) := by
        obtain ⟨h1, h2⟩ := hC
        refine ⟨h1, ?_⟩
        rcases h2 with h2 | ⟨h2, h3, h4⟩
        · exact Or.inl (lt_of_lt_of_le h2 hstep)
        · exact Or.inr ⟨h2, le_antisymm (hl _) (h3 ▸ hstep), h4⟩
      rw [if_pos hC, if_neg hnot, if_pos hC']; norm_num
    · by_cases hI : inside0 t tl x (a + m)
      · have hC' : InDomain t tl x 0 a (a + (m + 1)) := by
          rcases hI with ⟨g1, g2⟩ | ⟨g1, g2, g3⟩
          · exact ⟨le_trans hab g1, Or.inl g2⟩
          · refine ⟨?_, Or.inr ⟨g3, g2, ?_⟩⟩
            · show t (a + 0) ≤ x
              rw [g3, ← g2]; exact le_trans hab (le_of_lt g1)
            · show t (a + 0) < tl
              rw [← g2]; exact lt_of_le_of_lt hab g1
        rw [if_neg hC, if_pos hI, if_pos hC']; norm_num
      · have hC' : ¬ InDomain t tl x 0 a (a + (m + 1)) := by
          rintro ⟨h1, h2⟩
          rcases h2 with h2 | ⟨h2, h3, h4⟩
          · by_cases hx : x < t (a + m)
            · exact hC ⟨h1, Or.inl hx⟩
            · exact hI (Or.inl ⟨not_lt.1 hx, h2⟩)
          · by_cases hx : t (a + m) < tl
            · exact hI (Or.inr ⟨h3 ▸ hx, h3, h2⟩)
            · exact hC ⟨h1, Or.inr ⟨h2, le_antisymm (hl _) (not_lt.1 hx), h4⟩⟩
        rw [if_neg hC, if_neg hI, if_neg hC']; norm_num

/-- **partition of unity**, general range form: on `InDomain … k a (a + m)` the basis functions
    `B_{a,k}, …, B_{a+m-1,k}` add up to one -/
theorem sum_basis_eq_one {t : Nat → Rat} {tl x : Rat} (hm : Mono t) (hl : ∀ j, t j ≤ tl) :
    ∀ (k a m : Nat), InDomain t tl x k a (a + m) →
      sumN m (fun i => basis t tl x k (a + i)) = 1 := by
  intro k
  induction k with
  | zero =>
    intro a m h
    rw [sum_basis_zero hm hl a m, if_pos h]
  | succ k ih =>
    intro a m h
    obtain ⟨h1, h2⟩ := h
    -- the range is not empty
    have hlt : t (a + (k + 1)) < t (a + m) := by
      rcases h2 with h2 | ⟨_, h3, h4⟩
      · exact lt_of_le_of_lt h1 h2
      · rw [h3]; exact h4
    have hm1 : 1 ≤ m := by
      by_contra hcon
      have : m = 0 := by omega
      subst this
      exact absurd (hm (a + 0) (a + (k + 1)) (by omega)) (not_le.2 hlt)
    obtain ⟨m', rfl⟩ : ∃ m', m = m' + 1 := ⟨m - 1, by omega⟩
    rw [sum_basis_succ hm hl k a (m' + 1)]
    -- the boundary terms vanish
    have hB0 : basis t tl x k a = 0 := by
      apply basis_eq_zero_of_not_inSupport hm hl
      rintro ⟨_, g2 | ⟨g2, g3, _⟩⟩
      · exact absurd h1 (not_le.2 g2)
      · rcases h2 with h2 | ⟨_, _, h4⟩
        · rw [g2] at h2; exact absurd (hl _) (not_le.2 h2)
        · rw [show a + (k + 1) = a + k + 1 from rfl, g3] at h4; exact lt_irrefl _ h4
    have hB1 : basis t tl x k (a + (m' + 1)) = 0 := by
      apply basis_eq_zero_of_not_inSupport hm hl
      rintro ⟨g1, g2 | ⟨_, _, g4⟩⟩
      · rcases h2 with h2 | ⟨h2, h3, _⟩
        · exact absurd g1 (not_le.2 h2)
        · rw [h2] at g2; exact absurd (hl _) (not_le.2 g2)
      · rcases h2 with h2 | ⟨_, h3, _⟩
        · exact absurd g1 (not_le.2 h2)
        · rw [h3] at g4; exact lt_irrefl _ g4
    rw [partB_eq_zero_of_basis hB0, partB_eq_zero_of_basis hB1, sumN_succ_bot]
    simp only [Nat.add_zero]
    rw [hB0]
    have hshift : sumN m' (fun i => basis t tl x k (a + (i + 1)))
        = sumN m' (fun i => basis t tl x k (a + 1 + i)) :=
      sumN_congr (fun i _ => by rw [show a + (i + 1) = a + 1 + i by omega])
    rw [hshift, ih (a + 1) m' ?_]
    · ring
    · have e1 : a + 1 + k = a + (k + 1) := by omega
      have e2 : a + 1 + m' = a + (m' + 1) := by omega
      unfold InDomain
      rw [e1, e2]
      exact ⟨h1, h2⟩

/-! ### list front end, windowed basis, first derivative -/

theorem knotFn_lt {l : List Rat} {i : Nat} (h : i < l.length) : knotFn l i = l[i] := by
  unfold knotFn
  simp [List.getD, h]

theorem knotFn_ge {l : List Rat} {i : Nat} (h : l.length ≤ i) (hne : l ≠ []) :
    knotFn l i = knotFn l (l.length - 1) := by
  have hpos : 0 < l.length := List.length_pos_iff.2 hne
  have h1 : knotFn l i = l.getLast?.getD 0 := by
    unfold knotFn
    simp [List.getD, h]
  rw [h1, knotFn_lt (by omega), List.getLast?_eq_getElem?]
  simp [hpos]

theorem wbasis_eq_basis (t : Nat → Rat) (tl x : Rat) (hm : Mono t) (hl : ∀ j, t j ≤ tl)
    (k i : Nat) : wbasis t tl k x i = basis t tl x k i := by
  unfold wbasis
  split
  · rfl
  · rename_i hw
    rw [basis_eq_zero_of_not_inSupport hm hl k i]
    rintro ⟨h1, h2 | ⟨h2, h3, _⟩⟩
    · exact hw ⟨h1, le_of_lt h2⟩
    · exact hw ⟨h1, by rw [h2, h3]⟩

theorem dbasis_zero (t : Nat → Rat) (tl x : Rat) (k i : Nat) :
    dbasis t tl x 0 k i = basis t tl x k i := by
  cases k <;> rfl

/-- `B_{j,k} / (t_{j+k+1} - t_j)`, zero for an empty span -/
def scaledBasis (t : Nat → Rat) (tl x : Rat) (k j : Nat) : Rat :=
  if t j < t (j + k + 1) then basis t tl x k j / (t (j + k + 1) - t j) else 0

theorem dbasis_one (t : Nat → Rat) (tl x : Rat) (k i : Nat) :
    dbasis t tl x 1 (k + 1) i
      = ((k : Rat) + 1) * (scaledBasis t tl x k i - scaledBasis t tl x k (i + 1)) := by
  have e : i + 1 + k + 1 = i + k + 2 := by omega
  unfold scaledBasis
  rw [e]
  show ((k : Rat) + 1) * ((if t i < t (i + k + 1) then dbasis t tl x 0 k i / (t (i + k + 1) - t i) else 0)
      - (if t (i + 1) < t (i + k + 2) then dbasis t tl x 0 k (i + 1) / (t (i + k + 2) - t (i + 1)) else 0)) = _
  rw [dbasis_zero, dbasis_zero]

end RtcVerif.C20
