import RtcVerif.Model.C20BSpline
import Mathlib.Algebra.Order.Field.Rat
import Mathlib.Algebra.Order.Field.Basic
import Mathlib.Tactic.Linarith
/-!
Helper lemmas for C20: the inverse lookup (`invertAll`) and the fit-cache state machine.
-/
namespace RtcVerif.C20

/-! ### inverse lookup -/

/-- what a returned entry must satisfy with respect to its target -/
def RevRel (c : RevCfg) (ε : Rat) (y x : Y) : Prop :=
  match y with
  | none => x = none
  | some q => ∃ r, x = some r ∧ c.lo ≤ r ∧ r ≤ c.hi ∧ -ε ≤ c.f r - q ∧ c.f r - q ≤ ε

theorem invertOne_sound {c : RevCfg} {root : Root} {ε : Rat} (hr : RootSound ε root) (y x : Y)
    (h : invertOne c root y = .ok x) : RevRel c ε y x := by
  cases y with
  | none =>
    simp only [invertOne] at h
    cases h
    rfl
  | some q =>
    simp only [invertOne] at h
    cases hroot : root (fun x => c.f x - q) c.lo c.hi with
    | none => rw [hroot] at h; cases h
    | some r =>
      rw [hroot] at h
      cases h
      obtain ⟨h1, h2, h3, h4⟩ := hr _ _ _ _ hroot
      exact ⟨r, rfl, h1, h2, h3, h4⟩

theorem invertAll_sound {c : RevCfg} {root : Root} {ε : Rat} (hr : RootSound ε root) :
    ∀ (ys xs : List Y), invertAll c root ys = .ok xs → List.Forall₂ (RevRel c ε) ys xs := by
  intro ys
  induction ys with
  | nil =>
    intro xs h
    simp only [invertAll] at h
    cases h
    exact List.Forall₂.nil
  | cons y ys ih =>
    intro xs h
    simp only [invertAll] at h
    cases h1 : invertOne c root y with
    | error e => rw [h1] at h; cases h
    | ok x =>
      rw [h1] at h
      cases h2 : invertAll c root ys with
      | error e => rw [h2] at h; cases h
      | ok xs' =>
        rw [h2] at h
        cases h
        exact List.Forall₂.cons (invertOne_sound hr y x h1) (ih xs' h2)

theorem invertAll_total {c : RevCfg} {root : Root}
    (hc : ∀ q, some q ∈ ys → (root (fun x => c.f x - q) c.lo c.hi).isSome = true) :
    ∃ xs, invertAll c root ys = .ok xs := by
  induction ys with
  | nil => exact ⟨[], rfl⟩
  | cons y ys ih =>
    obtain ⟨xs, hxs⟩ := ih (fun q hq => hc q (List.mem_cons_of_mem _ hq))
    cases y with
    | none => exact ⟨none :: xs, by simp [invertAll, invertOne, hxs]⟩
    | some q =>
      have := hc q (List.mem_cons_self)
      obtain ⟨r, hr⟩ := Option.isSome_iff_exists.1 this
      exact ⟨some r :: xs, by simp [invertAll, invertOne, hr, hxs]⟩

theorem invertAll_error_of_refused {c : RevCfg} {root : Root} {q : Rat}
    (hq : some q ∈ ys) (hnone : root (fun x => c.f x - q) c.lo c.hi = none) :
    ∃ e, invertAll c root ys = .error e := by
  induction ys with
  | nil => cases hq
  | cons y ys ih =>
    simp only [invertAll]
    rcases List.mem_cons.1 hq with h | h
    · subst h
      simp only [invertOne, hnone]
      exact ⟨_, rfl⟩
    · cases h1 : invertOne c root y with
      | error e => exact ⟨e, rfl⟩
      | ok x =>
        obtain ⟨e, he⟩ := ih h
        rw [he]
        exact ⟨e, rfl⟩

theorem mem_finiteOf {ys : List Y} {q : Rat} : q ∈ finiteOf ys ↔ some q ∈ ys := by
  unfold finiteOf
  simp [List.mem_filterMap]

/-- a value between the two end values gives a sign-changing bracket -/
theorem bracket_of_between {a b q : Rat} (h1 : min a b ≤ q) (h2 : q ≤ max a b) :
    (a - q) * (b - q) ≤ 0 := by
  rcases le_total a b with h | h
  · rw [min_eq_left h] at h1; rw [max_eq_right h] at h2
    exact mul_nonpos_of_nonpos_of_nonneg (by linarith) (by linarith)
  · rw [min_eq_right h] at h1; rw [max_eq_left h] at h2
    exact mul_nonpos_of_nonneg_of_nonpos (by linarith) (by linarith)

/-! ### fit cache -/

/-- the cache, when its time stamps make it valid, was computed from what is current; and it is
    not younger than `T` (the time of the last event) -/
def CacheInv (T : Nat) (s : St) : Prop :=
  ∀ id m l, s.cache = some (id, m, l) →
    m ≤ T ∧ (s.csvM < m → (∀ o mi, s.ini = some (o, mi) → mi < m) → id = s.current)

theorem validCache_files {s : St} (h : validCache s.files = true) :
    ∃ id m, s.cache = some (id, m, true) ∧ s.csvM < m ∧ (∀ o mi, s.ini = some (o, mi) → mi < m) := by
  unfold validCache St.files at h
  cases hc : s.cache with
  | none => rw [hc] at h; simp at h
  | some c =>
    obtain ⟨id, m, l⟩ := c
    rw [hc] at h
    simp only [Option.map_some, Option.getD_some] at h
    cases hi : s.ini with
    | none =>
      rw [hi] at h
      simp at h
      exact ⟨id, m, by rw [h.2], h.1, by intro o mi ho; cases ho⟩
    | some p =>
      rw [hi] at h
      simp at h
      refine ⟨id, m, by rw [h.2], h.1.1, ?_⟩
      intro o mi ho
      cases ho
      exact h.1.2

theorem step_inv {T : Nat} {s : St} (hinv : CacheInv T s) (τ : Nat) (hτ : T ≤ τ) (e : Ev)
    (hne : e ≠ .delIni) : CacheInv τ (step s (τ, e)) := by
  cases e with
  | delIni => exact absurd rfl hne
  | editCsv d =>
    intro id m l hc
    have hc' : s.cache = some (id, m, l) := hc
    obtain ⟨hm, _⟩ := hinv id m l hc'
    refine ⟨le_trans hm hτ, ?_⟩
    intro hlt
    have : τ < m := hlt
    omega
  | editIni o =>
    intro id m l hc
    have hc' : s.cache = some (id, m, l) := hc
    obtain ⟨hm, _⟩ := hinv id m l hc'
    refine ⟨le_trans hm hτ, ?_⟩
    intro _ hini
    have : τ < m := hini o τ rfl
    omega
  | corrupt =>
    intro id m l hc
    simp only [step] at hc
    cases hcs : s.cache with
    | none => rw [hcs] at hc; cases hc
    | some c0 =>
      obtain ⟨id0, m0, l0⟩ := c0
      rw [hcs] at hc
      simp only [Option.map_some, Option.some.injEq, Prod.mk.injEq] at hc
      obtain ⟨rfl, rfl, _⟩ := hc
      obtain ⟨hm, hcur⟩ := hinv id0 m0 l0 hcs
      exact ⟨le_trans hm hτ, hcur⟩
  | pre =>
    simp only [step]
    by_cases hv : validCache s.files = true
    · rw [if_pos hv]
      obtain ⟨id, m, hc, _, _⟩ := validCache_files hv
      rw [hc]
      intro id' m' l' hc'
      simp only [Option.some.injEq, Prod.mk.injEq] at hc'
      obtain ⟨rfl, rfl, rfl⟩ := hc'
      obtain ⟨hm, hcur⟩ := hinv id m true hc
      exact ⟨le_trans hm hτ, hcur⟩
    · rw [if_neg hv]
      intro id m l hc
      simp only [Option.some.injEq, Prod.mk.injEq] at hc
      obtain ⟨rfl, rfl, _⟩ := hc
      exact ⟨le_refl _, fun _ _ => rfl⟩

/-- what one `pre()` hands out -/
theorem step_pre_served {T : Nat} {s : St} (hinv : CacheInv T s) (τ : Nat) :
    ∃ b, (step s (τ, .pre)).served = s.served ++ [(s.current, b)]
      ∧ (b = true ↔ validCache s.files = true) ∧ (step s (τ, .pre)).current = s.current := by
  simp only [step]
  by_cases hv : validCache s.files = true
  · rw [if_pos hv]
    obtain ⟨id, m, hc, h1, h2⟩ := validCache_files hv
    rw [hc]
    have : id = s.current := (hinv id m true hc).2 h1 h2
    subst this
    exact ⟨true, rfl, by simp [hv], rfl⟩
  · rw [if_neg hv]
    exact ⟨false, rfl, by simp [hv], rfl⟩

theorem step_served_of_ne_pre (s : St) (τ : Nat) (e : Ev) (h : e ≠ .pre) :
    (step s (τ, e)).served = s.served := by
  cases e <;> first | rfl | exact absurd rfl h

end RtcVerif.C20
