import RtcVerif.Model.InterpCode
import RtcVerif.Proofs.InterpLemmas
import Mathlib.Tactic.Linarith
import Mathlib.Tactic.SplitIfs
/-!
Bridging lemmas between the code-level vocabulary (`Model/InterpCode.lean`: prefix counts, index
reads, `np.interp`) and the recursive model functions of `Model/Interp.lean`.  No sortedness needed.
-/
namespace RtcVerif.InterpCode
open RtcVerif.Interp

theorem atIdx_zero (a : Rat × Rat) (l : Knots) : atIdx (a :: l) 0 = a.2 := by
  simp [atIdx]

theorem atIdx_succ (a : Rat × Rat) (l : Knots) (n : Nat) :
    atIdx (a :: l) ((n : Int) + 1) = atIdx l n := by
  have h1 : ¬ ((n : Int) + 1 < 0) := by omega
  have h2 : ¬ ((n : Int) < 0) := by omega
  have h3 : ((n : Int) + 1).toNat = n + 1 := by omega
  simp [atIdx, h1, h2, h3]

theorem ssRight_cons (a : Rat × Rat) (l : Knots) (t : Rat) :
    ssRight (a :: l) t = if a.1 ≤ t then ssRight l t + 1 else 0 := by
  unfold ssRight
  by_cases h : a.1 ≤ t <;> simp [List.takeWhile, h]

theorem ssLeft_cons (a : Rat × Rat) (l : Knots) (t : Rat) :
    ssLeft (a :: l) t = if a.1 < t then ssLeft l t + 1 else 0 := by
  unfold ssLeft
  by_cases h : a.1 < t <;> simp [List.takeWhile, h]

/-- `prevFrom` reads the knot before the prefix count -/
theorem prevFrom_idx (rest : Knots) (cur t : Rat) :
    prevFrom rest cur t =
      if ssRight rest t = 0 then cur else atIdx rest ((ssRight rest t : Int) - 1) := by
  induction rest generalizing cur with
  | nil => simp [prevFrom, ssRight]
  | cons a rest ih =>
    obtain ⟨t0, f0⟩ := a
    by_cases h : t0 ≤ t
    · simp only [prevFrom, h, if_true, ssRight_cons]
      rw [ih f0]
      by_cases hz : ssRight rest t = 0
      · simp [hz, atIdx_zero]
      · obtain ⟨n, hn⟩ := Nat.exists_eq_succ_of_ne_zero hz
        have e1 : ((ssRight rest t + 1 : Nat) : Int) - 1 = ((n : Int) + 1) := by omega
        have e2 : ((ssRight rest t : Nat) : Int) - 1 = (n : Int) := by omega
        simp only [hz, if_false, Nat.succ_ne_zero, e1, e2, atIdx_succ]
    · simp [prevFrom, h, ssRight_cons]

/-- mode 1 index expression of the code = the model's `prevFrom` -/
theorem prev_code (t0 f0 : Rat) (rest : Knots) (t : Rat) (h : t0 ≤ t) :
    atIdx ((t0, f0) :: rest) (max ((ssRight ((t0, f0) :: rest) t : Int) - 1) 0) = prevFrom rest f0 t := by
  rw [prevFrom_idx, ssRight_cons]
  simp only [h, if_true]
  by_cases hz : ssRight rest t = 0
  · simp [hz, atIdx_zero]
  · obtain ⟨n, hn⟩ := Nat.exists_eq_succ_of_ne_zero hz
    have e1 : max (((ssRight rest t + 1 : Nat) : Int) - 1) 0 = ((n : Int) + 1) := by omega
    have e2 : ((ssRight rest t : Nat) : Int) - 1 = (n : Int) := by omega
    simp only [hz, if_false, e1, e2, atIdx_succ]

/-- mode 2 index expression of the code = the model's `nextFrom` -/
theorem next_code (a : Rat × Rat) (rest : Knots) (last t : Rat) :
    atIdx (a :: rest) (min (ssLeft (a :: rest) t : Int) (((a :: rest).length : Int) - 1))
      = nextFrom (a :: rest) last t := by
  induction rest generalizing a last with
  | nil =>
    obtain ⟨t0, f0⟩ := a
    have : min ((ssLeft [(t0, f0)] t : Nat) : Int) ((([(t0, f0)] : Knots).length : Int) - 1) = 0 := by
      simp only [List.length_singleton]; omega
    rw [this, atIdx_zero]
    by_cases h : t ≤ t0 <;> simp [nextFrom, h]
  | cons b rest ih =>
    obtain ⟨t0, f0⟩ := a
    by_cases h : t ≤ t0
    · have hl : ¬ t0 < t := not_lt.2 h
      have : min ((ssLeft ((t0, f0) :: b :: rest) t : Nat) : Int)
          ((((t0, f0) :: b :: rest : Knots).length : Int) - 1) = 0 := by
        rw [ssLeft_cons]; simp only [hl, if_false, List.length_cons]; omega
      rw [this, atIdx_zero]; simp [nextFrom, h]
    · have hl : t0 < t := not_le.1 h
      have hn : nextFrom ((t0, f0) :: b :: rest) last t = nextFrom (b :: rest) f0 t := by
        simp [nextFrom, h]
      rw [hn, ← ih b f0]
      have : min ((ssLeft ((t0, f0) :: b :: rest) t : Nat) : Int)
          ((((t0, f0) :: b :: rest : Knots).length : Int) - 1)
          = ((min (ssLeft (b :: rest) t) ((b :: rest).length - 1) : Nat) : Int) + 1 := by
        rw [ssLeft_cons]; simp only [hl, if_true, List.length_cons]; omega
      rw [this, atIdx_succ]
      congr 1
      simp only [List.length_cons]; omega

theorem sequenceC_map_embed (l : List Out) : sequenceC (l.map embed) = sequence l := by
  induction l with
  | nil => rfl
  | cons a l ih =>
    cases a with
    | val v => simp [sequenceC, sequence, embed, ih]
    | raise => simp [sequenceC, sequence, embed]

end RtcVerif.InterpCode
