import RtcVerif.Model.Interp
import Mathlib.Algebra.Order.Field.Rat
import Mathlib.Tactic.Linarith
import Mathlib.Tactic.FieldSimp
import Mathlib.Tactic.Ring
/-! Helper lemmas about the interpolation model (list recursion over sorted knots). -/
namespace RtcVerif.Interp

theorem Sorted.tail {a : Rat × Rat} {l : Knots} (h : Sorted (a :: l)) : Sorted l := by
  cases l with
  | nil => trivial
  | cons b rest => exact h.2

theorem Sorted.head_lt {x : Rat × Rat} {rest : Knots} (h : Sorted (x :: rest)) :
    ∀ p ∈ rest, x.1 < p.1 := by
  induction rest generalizing x with
  | nil => intro p hp; cases hp
  | cons b rest ih =>
    intro p hp
    rcases List.mem_cons.1 hp with rfl | hp
    · exact h.1
    · exact lt_trans h.1 (ih h.2 p hp)

theorem Sorted.append_right {pre : Knots} {l : Knots} (h : Sorted (pre ++ l)) : Sorted l := by
  induction pre with
  | nil => simpa using h
  | cons p pre ih => exact ih (Sorted.tail h)

theorem Sorted.append_lt {pre : Knots} {x : Rat × Rat} {rest : Knots}
    (h : Sorted (pre ++ x :: rest)) : ∀ p ∈ pre, p.1 < x.1 := by
  induction pre with
  | nil => intro p hp; cases hp
  | cons q pre ih =>
    intro p hp
    rcases List.mem_cons.1 hp with rfl | hp
    · exact Sorted.head_lt (x := p) h x (by simp)
    · exact ih (Sorted.tail h) p hp

theorem Sorted.first_le {x : Rat × Rat} {rest : Knots} (h : Sorted (x :: rest)) :
    ∀ p ∈ x :: rest, x.1 ≤ p.1 := by
  intro p hp
  rcases List.mem_cons.1 hp with rfl | hp
  · exact le_refl _
  · exact le_of_lt (Sorted.head_lt h p hp)

theorem lastTime_cons_cons (a b : Rat × Rat) (l : Knots) :
    lastTime (a :: b :: l) = lastTime (b :: l) := by
  simp [lastTime, List.getLast?_cons_cons]

theorem lastVal_cons_cons (a b : Rat × Rat) (l : Knots) :
    lastVal (a :: b :: l) = lastVal (b :: l) := by
  simp [lastVal, List.getLast?_cons_cons]

theorem Sorted.le_last {ks : Knots} (h : Sorted ks) : ∀ p ∈ ks, p.1 ≤ lastTime ks := by
  induction ks with
  | nil => intro p hp; cases hp
  | cons a l ih =>
    cases l with
    | nil =>
      intro p hp
      have : p = a := by simpa using hp
      subst this
      simp [lastTime]
    | cons b l =>
      intro p hp
      rw [lastTime_cons_cons]
      rcases List.mem_cons.1 hp with rfl | hp
      · exact le_trans (le_of_lt h.1) (ih h.2 b (by simp))
      · exact ih h.2 p hp

theorem lastTime_append_cons (pre : Knots) (x : Rat × Rat) (post : Knots) :
    lastTime (pre ++ x :: post) = lastTime (x :: post) := by
  induction pre with
  | nil => rfl
  | cons p pre ih =>
    cases pre with
    | nil => simp [lastTime_cons_cons]
    | cons q pre => rw [List.cons_append, List.cons_append, lastTime_cons_cons]; simpa using ih

theorem lastVal_append_cons (pre : Knots) (x : Rat × Rat) (post : Knots) :
    lastVal (pre ++ x :: post) = lastVal (x :: post) := by
  induction pre with
  | nil => rfl
  | cons p pre ih =>
    cases pre with
    | nil => simp [lastVal_cons_cons]
    | cons q pre => rw [List.cons_append, List.cons_append, lastVal_cons_cons]; simpa using ih

/-! ### linear mode -/

theorem linFrom_step (t0 f0 t1 f1 : Rat) (rest : Knots) (right : Out) (t : Rat) (h : ¬ t < t1) :
    linFrom ((t0, f0) :: (t1, f1) :: rest) right t = linFrom ((t1, f1) :: rest) right t := by
  rw [linFrom]; simp only [h, if_false]

theorem linFrom_seg (pre post : Knots) (a fa b fb : Rat) (right : Out) (t : Rat)
    (h : Sorted (pre ++ (a, fa) :: (b, fb) :: post)) (hat : a ≤ t) (htb : t < b) :
    linFrom (pre ++ (a, fa) :: (b, fb) :: post) right t
      = .val (XVal.fin (fa + (fb - fa) / (b - a) * (t - a))) := by
  induction pre with
  | nil => simp [linFrom, htb]
  | cons p pre ih =>
    obtain ⟨tp, fp⟩ := p
    cases pre with
    | nil =>
      have : ¬ t < a := not_lt.2 hat
      simp only [List.cons_append, List.nil_append]
      rw [linFrom_step _ _ _ _ _ _ _ this]
      simpa using ih (Sorted.tail h)
    | cons q pre =>
      obtain ⟨tq, fq⟩ := q
      have hq : tq < a := Sorted.append_lt (Sorted.tail h) (tq, fq) (by simp)
      have : ¬ t < tq := not_lt.2 (le_trans (le_of_lt hq) hat)
      simp only [List.cons_append]
      rw [linFrom_step _ _ _ _ _ _ _ this]
      simpa using ih (Sorted.tail h)

theorem linFrom_last (pre : Knots) (a fa : Rat) (right : Out)
    (h : Sorted (pre ++ [(a, fa)])) :
    linFrom (pre ++ [(a, fa)]) right a = .val (XVal.fin fa) := by
  induction pre with
  | nil => simp [linFrom]
  | cons p pre ih =>
    obtain ⟨tp, fp⟩ := p
    cases pre with
    | nil =>
      simp only [List.cons_append, List.nil_append]
      rw [linFrom_step _ _ _ _ _ _ _ (lt_irrefl a)]
      simp [linFrom]
    | cons q pre =>
      obtain ⟨tq, fq⟩ := q
      have hq : tq < a := Sorted.append_lt (Sorted.tail h) (tq, fq) (by simp)
      have : ¬ a < tq := not_lt.2 (le_of_lt hq)
      simp only [List.cons_append]
      rw [linFrom_step _ _ _ _ _ _ _ this]
      simpa using ih (Sorted.tail h)

/-! ### previous-value mode -/

theorem prevFrom_seg (pre post : Knots) (a fa : Rat) (d t : Rat)
    (h : Sorted (pre ++ (a, fa) :: post)) (hat : a ≤ t)
    (hpost : ∀ p ∈ post.head?, t < p.1) :
    prevFrom (pre ++ (a, fa) :: post) d t = fa := by
  induction pre generalizing d with
  | nil =>
    cases post with
    | nil => simp [prevFrom, hat]
    | cons q post =>
      obtain ⟨tq, fq⟩ := q
      have : ¬ tq ≤ t := not_le.2 (hpost (tq, fq) (by simp))
      simp [prevFrom, hat, this]
  | cons p pre ih =>
    obtain ⟨tp, fp⟩ := p
    have hp : tp < a := Sorted.append_lt h (tp, fp) (by simp)
    have : tp ≤ t := le_trans (le_of_lt hp) hat
    simp only [List.cons_append, prevFrom, this, if_true]
    exact ih fp (Sorted.tail h)

theorem prevFrom_cons_le (t0 f0 : Rat) (rest : Knots) (d t : Rat) (h : t0 ≤ t) :
    prevFrom ((t0, f0) :: rest) d t = prevFrom rest f0 t := by
  simp [prevFrom, h]

/-! ### next-value mode -/

theorem nextFrom_seg (pre post : Knots) (b fb : Rat) (d t : Rat)
    (hpre : ∀ p ∈ pre, p.1 < t) (htb : t ≤ b) :
    nextFrom (pre ++ (b, fb) :: post) d t = fb := by
  induction pre generalizing d with
  | nil => simp [nextFrom, htb]
  | cons p pre ih =>
    obtain ⟨tp, fp⟩ := p
    have : ¬ t ≤ tp := not_le.2 (hpre (tp, fp) (by simp))
    simp only [List.cons_append, nextFrom, this, if_false]
    exact ih fp (fun p hp => hpre p (by simp [hp]))

/-! ### `sequence` -/

theorem sequence_map_val (l : List XVal) : sequence (l.map Out.val) = some l := by
  induction l with
  | nil => rfl
  | cons a l ih => simp [sequence, ih]

end RtcVerif.Interp
