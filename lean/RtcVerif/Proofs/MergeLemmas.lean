import RtcVerif.Model.Merge
import Mathlib.Tactic.Common
/-! Helper lemmas about the `merge_bounds` model. -/
namespace RtcVerif.Merge

theorem normalize_vec_two (xs : List EVal) (h : 2 ≤ xs.length) : normalize (.vec xs) = .vec xs := by
  match xs, h with
  | a :: b :: rest, _ => rfl

theorem zipSame_comm (f : EVal → EVal → EVal) (hf : ∀ a b, f a b = f b a) (a b : List EVal) :
    zipSame f a b = zipSame f b a := by
  unfold zipSame
  by_cases h : a.length = b.length
  · rw [if_pos h, if_pos h.symm, List.zipWith_comm_of_comm hf]
  · rw [if_neg h, if_neg (Ne.symm h)]

theorem zipRows_comm (f : EVal → EVal → EVal) (hf : ∀ a b, f a b = f b a) :
    ∀ a b : List (List EVal), zipRows f a b = zipRows f b a
  | [], [] => rfl
  | [], _ :: _ => rfl
  | _ :: _, [] => rfl
  | r :: rs, s :: ss => by
      simp only [zipRows, zipSame_comm f hf r s, zipRows_comm f hf rs ss]

theorem zipSame_at (f : EVal → EVal → EVal) (a b r : List EVal) (h : zipSame f a b = some r)
    (j : Nat) (x y : EVal) (hx : a[j]? = some x) (hy : b[j]? = some y) : r[j]? = some (f x y) := by
  unfold zipSame at h
  split at h
  · cases h
    simp [List.getElem?_zipWith, hx, hy]
  · cases h

theorem zipRows_at (f : EVal → EVal → EVal) :
    ∀ (a b r : List (List EVal)), zipRows f a b = some r →
      ∀ (i j : Nat) (x y : EVal), (a[i]?).bind (·[j]?) = some x → (b[i]?).bind (·[j]?) = some y →
        (r[i]?).bind (·[j]?) = some (f x y)
  | [], [], r, h, i, j, x, y, hx, _ => by simp at hx
  | [], _ :: _, r, h, _, _, _, _, _, _ => by simp [zipRows] at h
  | _ :: _, [], r, h, _, _, _, _, _, _ => by simp [zipRows] at h
  | p :: ps, q :: qs, r, h, i, j, x, y, hx, hy => by
      simp only [zipRows, Option.bind_eq_bind, Option.pure_def] at h
      cases h1 : zipSame f p q with
      | none => simp [h1] at h
      | some z =>
        cases h2 : zipRows f ps qs with
        | none => simp [h1, h2] at h
        | some zs =>
          simp [h1, h2] at h
          subst h
          cases i with
          | zero =>
            simp at hx hy ⊢
            exact zipSame_at f p q z h1 j x y hx hy
          | succ i =>
            simp at hx hy ⊢
            exact zipRows_at f ps qs zs h2 i j x y (by simpa using hx) (by simpa using hy)

theorem zipSame_idem (f : EVal → EVal → EVal) (hf : ∀ a, f a a = a) (a : List EVal) :
    zipSame f a a = some a := by
  unfold zipSame
  simp only [if_true]
  congr 1
  induction a with
  | nil => rfl
  | cons x xs ih => simp [List.zipWith, hf, ih]

theorem zipRows_idem (f : EVal → EVal → EVal) (hf : ∀ a, f a a = a) :
    ∀ a : List (List EVal), zipRows f a a = some a
  | [] => rfl
  | r :: rs => by simp [zipRows, zipSame_idem f hf r, zipRows_idem f hf rs]

/-- merge of two normalised sides -/
def mergeN (f : EVal → EVal → EVal) (a b : Bnd) : Option Bnd := do
  let a' ← upcast a b
  let b' ← upcast b a'
  combine f a' b'

theorem mergeSide_eq (f : EVal → EVal → EVal) (a b : Bnd) :
    mergeSide f a b = mergeN f (normalize a) (normalize b) := rfl

theorem zipSame_const_left (f : EVal → EVal → EVal) (x : EVal) (vs : List EVal) :
    zipSame f (vs.map fun _ => x) vs = some (vs.map (f x)) := by
  unfold zipSame
  simp only [List.length_map, if_true]
  congr 1
  induction vs with
  | nil => rfl
  | cons v vs ih => simp [List.zipWith, ih]

theorem zipSame_const_right (f : EVal → EVal → EVal) (x : EVal) (vs : List EVal) :
    zipSame f vs (vs.map fun _ => x) = some (vs.map (fun v => f v x)) := by
  unfold zipSame
  simp only [List.length_map, if_true]
  congr 1
  induction vs with
  | nil => rfl
  | cons v vs ih => simp [List.zipWith, ih]

theorem zipRows_const_left (f : EVal → EVal → EVal) (x : EVal) :
    ∀ rows : List (List EVal),
      zipRows f (rows.map fun r => r.map fun _ => x) rows = some (rows.map fun r => r.map (f x))
  | [] => rfl
  | r :: rs => by simp [zipRows, zipSame_const_left, zipRows_const_left f x rs]

theorem zipRows_const_right (f : EVal → EVal → EVal) (x : EVal) :
    ∀ rows : List (List EVal),
      zipRows f rows (rows.map fun r => r.map fun _ => x)
        = some (rows.map fun r => r.map (fun v => f v x))
  | [] => rfl
  | r :: rs => by simp [zipRows, zipSame_const_right, zipRows_const_right f x rs]

theorem zipRows_vec_left (f : EVal → EVal → EVal) (vs : List EVal) :
    ∀ rows : List (List EVal), (rows.all fun r => r.length == vs.length) = true →
      zipRows f (rows.map fun _ => vs) rows = some (rows.map fun r => List.zipWith f vs r)
  | [], _ => rfl
  | r :: rs, h => by
      simp only [List.all_cons, Bool.and_eq_true, beq_iff_eq] at h
      simp [zipRows, zipSame, h.1, zipRows_vec_left f vs rs h.2]

theorem zipRows_vec_right (f : EVal → EVal → EVal) (vs : List EVal) :
    ∀ rows : List (List EVal), (rows.all fun r => r.length == vs.length) = true →
      zipRows f rows (rows.map fun _ => vs) = some (rows.map fun r => List.zipWith f r vs)
  | [], _ => rfl
  | r :: rs, h => by
      simp only [List.all_cons, Bool.and_eq_true, beq_iff_eq] at h
      simp [zipRows, zipSame, h.1, zipRows_vec_right f vs rs h.2]

theorem mergeN_comm (f : EVal → EVal → EVal) (hf : ∀ a b, f a b = f b a) (a b : Bnd) :
    mergeN f a b = mergeN f b a := by
  cases a <;> cases b <;>
    simp only [mergeN, upcast, combine, Option.bind_eq_bind, Option.bind_some, Option.bind_none]
  case sc.sc => rw [hf]
  case sc.vec x vs => rw [zipSame_comm f hf]
  case sc.ts1 x t vs => rw [zipSame_comm f hf]
  case sc.ts2 x t rows => rw [zipRows_comm f hf]
  case vec.sc vs x => rw [zipSame_comm f hf]
  case vec.vec xs ys => rw [zipSame_comm f hf]
  case vec.ts2 vs t rows =>
    by_cases hall : (rows.all fun r => r.length == vs.length) = true
    · simp [hall, combine, zipRows_comm f hf rows]
    · simp [hall]
  case ts1.sc t vs x => rw [zipSame_comm f hf]
  case ts1.ts1 t1 v1 t2 v2 =>
    by_cases h : t1 = t2
    · subst h; simp [zipSame_comm f hf v1 v2]
    · simp [h, Ne.symm h]
  case ts2.sc t rows x => rw [zipRows_comm f hf]
  case ts2.vec t rows vs =>
    by_cases hall : (rows.all fun r => r.length == vs.length) = true
    · simp [hall, combine, zipRows_comm f hf rows]
    · simp [hall]
  case ts2.ts2 t1 v1 t2 v2 =>
    by_cases h : t1 = t2
    · subst h; simp [zipRows_comm f hf v1 v2]
    · simp [h, Ne.symm h]

theorem mergeSide_comm (f : EVal → EVal → EVal) (hf : ∀ a b, f a b = f b a) (a b : Bnd) :
    mergeSide f a b = mergeSide f b a := by
  rw [mergeSide_eq, mergeSide_eq, mergeN_comm f hf]

theorem mergeN_idem (f : EVal → EVal → EVal) (hf : ∀ a, f a a = a) (a : Bnd) :
    mergeN f a a = some a := by
  cases a <;>
    simp [mergeN, upcast, combine, hf, zipSame_idem f hf, zipRows_idem f hf]

theorem mergeSide_idem (f : EVal → EVal → EVal) (hf : ∀ a, f a a = a) (a : Bnd) :
    mergeSide f a a = some (normalize a) := by
  rw [mergeSide_eq, mergeN_idem f hf]

theorem getElem?_map_const {α β : Type} (l : List α) (x : β) (j : Nat) (y : α) (h : l[j]? = some y) :
    (l.map fun _ => x)[j]? = some x := by
  simp [List.getElem?_map, h]

theorem rows_const_at (rows : List (List EVal)) (x y : EVal) (i j : Nat)
    (h : (rows[i]?).bind (·[j]?) = some y) :
    ((rows.map fun r => r.map fun _ => x)[i]?).bind (·[j]?) = some x := by
  rw [List.getElem?_map]
  cases hr : rows[i]? with
  | none => simp [hr] at h
  | some r =>
    simp only [hr, Option.bind_some, Option.map_some] at h ⊢
    exact getElem?_map_const r x j y h

theorem rows_vec_at (rows : List (List EVal)) (vs : List EVal) (x y : EVal) (i j : Nat)
    (hx : vs[j]? = some x) (h : (rows[i]?).bind (·[j]?) = some y) :
    ((rows.map fun _ => vs)[i]?).bind (·[j]?) = some x := by
  rw [List.getElem?_map]
  cases hr : rows[i]? with
  | none => simp [hr] at h
  | some r => simpa using hx

theorem mergeN_at (f : EVal → EVal → EVal) (a b m : Bnd) (h : mergeN f a b = some m)
    (i j : Nat) (x y : EVal) (hx : a.at i j = some x) (hy : b.at i j = some y) :
    m.at i j = some (f x y) := by
  cases a <;> cases b <;>
    simp only [mergeN, upcast, combine, Option.bind_eq_bind, Option.bind_some, Option.bind_none,
      Bnd.at, if_true] at h hx hy
  case sc.sc a b =>
    cases hx; cases hy; cases h; rfl
  case sc.vec a vs =>
    cases hx
    obtain ⟨r, hr, rfl⟩ := Option.map_eq_some_iff.1 h
    exact zipSame_at f _ _ r hr j x y (getElem?_map_const vs x j y hy) hy
  case sc.ts1 a t vs =>
    cases hx
    obtain ⟨r, hr, rfl⟩ := Option.map_eq_some_iff.1 h
    exact zipSame_at f _ _ r hr i x y (getElem?_map_const vs x i y hy) hy
  case sc.ts2 a t rows =>
    cases hx
    obtain ⟨r, hr, rfl⟩ := Option.map_eq_some_iff.1 h
    exact zipRows_at f _ rows r hr i j x y (rows_const_at rows x y i j hy) hy
  case vec.sc vs b =>
    cases hy
    obtain ⟨r, hr, rfl⟩ := Option.map_eq_some_iff.1 h
    exact zipSame_at f _ _ r hr j x y hx (getElem?_map_const vs y j x hx)
  case vec.vec xs ys =>
    obtain ⟨r, hr, rfl⟩ := Option.map_eq_some_iff.1 h
    exact zipSame_at f _ _ r hr j x y hx hy
  case vec.ts1 => cases h
  case vec.ts2 vs t rows =>
    by_cases hall : (rows.all fun r => r.length == vs.length) = true
    · simp only [hall, if_true, Option.bind_some, combine] at h
      obtain ⟨r, hr, rfl⟩ := Option.map_eq_some_iff.1 h
      exact zipRows_at f _ rows r hr i j x y (rows_vec_at rows vs x y i j hx hy) hy
    · simp [hall] at h
  case ts1.sc t vs b =>
    cases hy
    obtain ⟨r, hr, rfl⟩ := Option.map_eq_some_iff.1 h
    exact zipSame_at f _ _ r hr i x y hx (getElem?_map_const vs y i x hx)
  case ts1.vec => cases h
  case ts1.ts1 t1 v1 t2 v2 =>
    by_cases ht : t1 = t2
    · simp only [ht, if_true] at h
      obtain ⟨r, hr, rfl⟩ := Option.map_eq_some_iff.1 h
      exact zipSame_at f _ _ r hr i x y hx hy
    · simp [ht] at h
  case ts1.ts2 => cases h
  case ts2.sc t rows b =>
    cases hy
    obtain ⟨r, hr, rfl⟩ := Option.map_eq_some_iff.1 h
    exact zipRows_at f rows _ r hr i j x y hx (rows_const_at rows y x i j hx)
  case ts2.vec t rows vs =>
    by_cases hall : (rows.all fun r => r.length == vs.length) = true
    · simp only [hall, if_true, Option.bind_some, combine] at h
      obtain ⟨r, hr, rfl⟩ := Option.map_eq_some_iff.1 h
      exact zipRows_at f rows _ r hr i j x y hx (rows_vec_at rows vs y x i j hy hx)
    · simp [hall] at h
  case ts2.ts1 => cases h
  case ts2.ts2 t1 v1 t2 v2 =>
    by_cases ht : t1 = t2
    · simp only [ht, if_true] at h
      obtain ⟨r, hr, rfl⟩ := Option.map_eq_some_iff.1 h
      exact zipRows_at f _ _ r hr i j x y hx hy
    · simp [ht] at h

theorem mergeSide_at (f : EVal → EVal → EVal) (a b m : Bnd) (h : mergeSide f a b = some m)
    (i j : Nat) (x y : EVal) (hx : (normalize a).at i j = some x)
    (hy : (normalize b).at i j = some y) : m.at i j = some (f x y) :=
  mergeN_at f (normalize a) (normalize b) m (by rwa [← mergeSide_eq]) i j x y hx hy

/-- normalisation only extends where a side is defined: the values it denotes stay -/
theorem normalize_at (b : Bnd) (i j : Nat) (v : EVal) (h : b.at i j = some v) :
    (normalize b).at i j = some v := by
  cases b with
  | vec vs =>
    match vs, h with
    | [], h => simp [Bnd.at] at h
    | [x], h =>
      cases j with
      | zero => simpa [normalize, Bnd.at] using h
      | succ j => simp [Bnd.at] at h
    | x :: y :: rest, h => exact h
  | _ => exact h

end RtcVerif.Merge
