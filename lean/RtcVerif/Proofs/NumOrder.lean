import RtcVerif.Model.Num
import Mathlib.Order.Defs.LinearOrder
import Mathlib.Algebra.Order.Field.Rat
/-!
`EVal` (`-inf | fin q | +inf`) is a linear order whose `≤`, `max`, `min` are exactly the
executable functions of the model (`EVal.le/max/min`).  Order-theoretic lemmas proved for an
arbitrary linear order therefore apply to the values the driver computes with.
-/
namespace RtcVerif.EVal

instance : LE EVal := ⟨fun a b => le a b = true⟩
instance : LT EVal := ⟨fun a b => a ≤ b ∧ ¬ b ≤ a⟩

theorem le_def (a b : EVal) : a ≤ b ↔ le a b = true := Iff.rfl

@[simp] theorem le_fin_fin (a b : Rat) : (fin a ≤ fin b) ↔ a ≤ b := by
  simp [le_def, le]

instance (a b : EVal) : Decidable (a ≤ b) := inferInstanceAs (Decidable (le a b = true))

protected theorem le_refl' (a : EVal) : a ≤ a := by
  cases a <;> simp [le_def, le]

protected theorem le_trans' (a b c : EVal) : a ≤ b → b ≤ c → a ≤ c := by
  cases a <;> cases b <;> cases c <;> simp [le_def, le]
  exact fun h1 h2 => le_trans h1 h2

protected theorem le_antisymm' (a b : EVal) : a ≤ b → b ≤ a → a = b := by
  cases a <;> cases b <;> simp [le_def, le]
  exact fun h1 h2 => le_antisymm h1 h2

protected theorem le_total' (a b : EVal) : a ≤ b ∨ b ≤ a := by
  cases a <;> cases b <;> simp [le_def, le]
  exact le_total _ _

instance : LinearOrder EVal where
  le_refl := EVal.le_refl'
  le_trans := EVal.le_trans'
  le_antisymm := EVal.le_antisymm'
  le_total := EVal.le_total'
  toDecidableLE := fun a b => inferInstance
  lt_iff_le_not_ge := fun _ _ => Iff.rfl
  max := EVal.max
  min := EVal.min
  max_def := by
    intro a b
    show EVal.max a b = if a ≤ b then b else a
    simp [EVal.max, le_def]
  min_def := by
    intro a b
    show EVal.min a b = if a ≤ b then a else b
    simp [EVal.min, le_def]

/-- the model's `max`/`min` are the order's -/
theorem max_eq (a b : EVal) : EVal.max a b = Max.max a b := rfl
theorem min_eq (a b : EVal) : EVal.min a b = Min.min a b := rfl

end RtcVerif.EVal
