import RtcVerif.Model.C01Colloc
import RtcVerif.Proofs.C01Lists
import RtcVerif.Proofs.C01Colloc
import RtcVerif.Proofs.C01Rows
import RtcVerif.Proofs.C01Inputs
import RtcVerif.Proofs.C01Own
import RtcVerif.Proofs.C01Plumb
import Mathlib.Algebra.Order.Group.Abs
/-!
# C01 — transcribed dynamics are exactly the theta-method discretisation of the DAE

All theorems are about the executable model `Model/C01Colloc.lean` (the code path of
`transcribe()`), for an **arbitrary** residual function `F` and initial-equation function `Finit`
(linear or not), any numbers of variables / inputs / parameters / equations, any layout `idx`,
any grid, any `theta`, any nominals, any ensemble size and any per-member data.  Helper lemmas
live in `Proofs/C01*.lean`.

Remark on hypotheses.  The refinement theorems need neither `0 ≤ theta ≤ 1`, nor positive
nominals, nor a strictly increasing grid: the code-level assembly and the specification agree as
functions for all values.  (For a grid with a repeated stamp both sides divide by `dt = 0`, which
is `0` in Lean and `inf/nan` in the implementation; a strictly increasing grid is a precondition
of the property, not of the refinement.)
-/
namespace RtcVerif.C01
open RtcVerif RtcVerif.Interp

/-! ## The specification -/

/-- the member's own constant inputs at collocation time `i` -/
def memberInputs (I : Inst) (m i : Nat) : List Rat :=
  (List.range I.sys.nc).map (fun j => inputOwn I m j (I.sys.ts i))

/-- the member's decoded physical trajectory on the collocation grid -/
def traj (I : Inst) (X : Vec) (m i : Nat) : List Rat := decode I.sys X (I.idx m) i

/-- **theta-method residual** of member `m` on step `i` (all equations): the formula of the
    property statement with the member's own parameters and inputs -/
def thetaRes (F : Residual) (I : Inst) (X : Vec) (m i : Nat) : List Rat :=
  thetaSpec F I.sys.theta I.sys.t0 (I.pvals m) (traj I X m) (memberInputs I m) I.sys.ts i

/-- equation `e` of it -/
def thetaRow (F : Residual) (I : Inst) (X : Vec) (m i e : Nat) : Rat := (thetaRes F I X m i).getD e 0

/-- physical state at `t0` -/
def initState (I : Inst) (X : Vec) (m : Nat) : List Rat :=
  (List.range I.sys.k).map (fun v => I.sys.nom v * X (I.idx m v 0))

/-- initial derivatives: the decoded free initial-derivative variables for the differentiated
    states; the backward difference of the last two history points (or `0`) otherwise -/
def initDer (I : Inst) (X : Vec) (m : Nat) : List Rat :=
  (List.range I.sys.k).map (fun v =>
    if v < I.sys.nd then I.sys.dnom v * X (I.didx m v) else histDer (I.hist m v) I.sys.t0)

/-- **initial residual** of member `m`: `F = 0` and the initial equations at `t0` (model time 0) -/
def initRes (F Finit : Residual) (I : Inst) (X : Vec) (m : Nat) : List Rat :=
  F (initState I X m) (initDer I X m) (memberInputs I m 0) 0 (I.pvals m)
    ++ Finit (initState I X m) (initDer I X m) (memberInputs I m 0) 0 (I.pvals m)

def initRow (F Finit : Residual) (I : Inst) (X : Vec) (m e : Nat) : Rat := (initRes F Finit I X m).getD e 0

/-! ## Per-member parameters and constant inputs -/

/-- the parameter classification ("constant over the ensemble" ⇒ inlined with member 0's value)
    is invisible: every member's residual sees that member's own parameter values -/
theorem C01_parameters_member_own (I : Inst) (hw : I.WF) (m : Nat) (hm : m < I.E) :
    (I.mem m).par = I.pvals m :=
  effPar_eq I.E I.npar I.dyn I.pvals m hm (hw.par_len m hm)

/-- the classification on the unrepaired tree (finding F1) is NOT invisible: with parameter
    values `(1, 2)` over two members, member 1 sees `1` -/
theorem C01_parameters_legacy_witness :
    effParLegacy 2 1 (fun m => if m = 0 then [1] else [2]) 1 = [1]
    ∧ effPar 2 1 (fun _ => false) (fun m => if m = 0 then [1] else [2]) 1 = [2]
    ∧ effParLegacy 2 1 (fun m => if m = 0 then [0] else [5]) 1 = [0] := by
  refine ⟨?_, ?_, ?_⟩ <;> decide +kernel

/-- the constant inputs handed to the rows at collocation time `i` are the member's own series
    evaluated at that time (interpolation mode of the input, `0` outside the series) -/
theorem C01_inputs_member_own (I : Inst) (hw : I.WF) (m : Nat) (hm : m < I.E) (i : Nat)
    (hi : i < I.sys.n) : inputsAt I.sys (I.mem m) i = memberInputs I m i := by
  unfold inputsAt memberInputs
  apply List.map_congr_left
  intro j hj
  have hj' := List.mem_range.1 hj
  exact ciVals_getD (I.cmode j) (hw.cmode_ok j hj') (I.cin m j) (hw.cin_sorted m j hm hj')
    (hw.cin_ne m j hm hj') I.sys.tsL i hi

/-- the hypotheses `Inst.WF` of the theorems below are decidable; the model driver evaluates
    `Inst.wfb` on every instance of the correspondence run and refuses instances outside it -/
theorem C01_wf_checkable (I : Inst) (h : I.wfb = true) : I.WF := wfb_sound I h

/-! ## The collocation rows are the theta-method residuals -/

/-- **C01_rows_eq_theta**: for every member and every step, the rows the code assembles (index
    lists `inds[:-1]` / `inds[1:]`, tiled nominals, column-major reshape, overwritten columns of
    variables with their own stamps, slices of the mapped input row, finite differences, three-way
    theta branch, `[:ne]` slice of the mapped output, inlined / per-member parameters,
    interpolated inputs) are the theta-method residuals of the decoded physical trajectory with
    that member's own parameters and inputs — for every residual function `F`. -/
theorem C01_rows_eq_theta (F : Residual) (I : Inst) (hw : I.WF)
    (hF : ∀ a b c d e, (F a b c d e).length = I.sys.ne) (X : Vec)
    (m : Nat) (hm : m < I.E) (i : Nat) (hi : i < I.sys.n - 1) :
    collocRowsCode F I.sys (I.mem m) X i = thetaRes F I X m i := by
  rw [collocRows_eq_theta F I.sys (I.mem m) X hF i hi]
  unfold thetaRes thetaSpec traj
  rw [C01_parameters_member_own I hw m hm,
    C01_inputs_member_own I hw m hm i (by omega),
    C01_inputs_member_own I hw m hm (i + 1) (by omega)]
  rfl

/-- the same, equation by equation -/
theorem C01_rows_eq_theta_entry (F : Residual) (I : Inst) (hw : I.WF)
    (hF : ∀ a b c d e, (F a b c d e).length = I.sys.ne) (X : Vec)
    (m : Nat) (hm : m < I.E) (i : Nat) (hi : i < I.sys.n - 1) (e : Nat) :
    (collocRowsCode F I.sys (I.mem m) X i).getD e 0 = thetaRow F I X m i e := by
  rw [C01_rows_eq_theta F I hw hF X m hm i hi]
  rfl

/-- **the formula of the property statement**, per equation:
    `(1-θ)·F(z_i, ż, c_i, t_i-t0, p)_e + θ·F(z_{i+1}, ż, c_{i+1}, t_{i+1}-t0, p)_e` with
    `ż = (z_{i+1} - z_i) / (t_{i+1} - t_i)` -/
theorem C01_theta_row_formula (F : Residual) (I : Inst)
    (hF : ∀ a b c d e, (F a b c d e).length = I.sys.ne) (X : Vec) (m i e : Nat) (he : e < I.sys.ne) :
    thetaRow F I X m i e =
      let z0 := traj I X m i
      let z1 := traj I X m (i + 1)
      let zd := (vsub z1 z0).map (· / (I.sys.ts (i + 1) - I.sys.ts i))
      (1 - I.sys.theta) * (F z0 zd (memberInputs I m i) (I.sys.ts i - I.sys.t0) (I.pvals m)).getD e 0
        + I.sys.theta * (F z1 zd (memberInputs I m (i + 1)) (I.sys.ts (i + 1) - I.sys.t0) (I.pvals m)).getD e 0 := by
  unfold thetaRow thetaRes
  rw [thetaSpec_eq_blend]
  exact blend_getD _ _ _ _ (by rw [hF]; exact he) (by rw [hF]; exact he)

/-- on the collocation grid itself (no own stamps) the decoded value is `nominal · X[index]`,
    the number `extract_results` reports -/
theorem C01_decode_same_grid (I : Inst) (X : Vec) (m v i : Nat) (h : I.sys.own v = none) :
    decodeVar I.sys X (I.idx m) v i = I.sys.nom v * X (I.idx m v i) := by
  simp [decodeVar, h]

/-- a variable with its own (coarser) stamps enters the rows through the interpolant of its
    **physical** values (nominal · decision variables at its own stamps) at the collocation time,
    in its own interpolation mode -/
theorem C01_decode_own_grid (I : Inst) (X : Vec) (m v i : Nat) (o : Own) (h : I.sys.own v = some o)
    (hne : o.times ≠ []) :
    decodeVar I.sys X (I.idx m) v i
      = outRat (interpSym o.mode
          (o.times.zip ((List.range o.times.length).map (fun q => I.sys.nom v * X (I.idx m v q))))
          (I.sys.ts i)) := by
  simp only [decodeVar, h]
  exact interpOwn_physical X (I.idx m v) (I.sys.nom v) o (I.sys.ts i) hne

/-! ## The special cases theta = 0 and theta = 1 -/

/-- **C01_theta_branches**: the code's three-way branch (`theta == 0`: explicit residual only;
    `theta == 1`: implicit residual only; else the blend) equals the blend formula for every
    `theta`; in particular the two special cases are the formula at `theta = 0` and `theta = 1`. -/
theorem C01_theta_branches (F : Residual) (ne : Nat) (hF : ∀ a b c d e, (F a b c d e).length = ne)
    (theta tinit : Rat) (p s0 s1 c0 c1 : List Rat) (ta tb : Rat) :
    let fd := (vsub s1 s0).map (· / (tb - ta))
    collocBlock F theta tinit p s0 s1 c0 c1 ta tb
        = blend theta (F s0 fd c0 (ta - tinit) p) (F s1 fd c1 (tb - tinit) p)
    ∧ collocBlock F 0 tinit p s0 s1 c0 c1 ta tb = F s0 fd c0 (ta - tinit) p
    ∧ collocBlock F 1 tinit p s0 s1 c0 c1 ta tb = F s1 fd c1 (tb - tinit) p
    ∧ blend 0 (F s0 fd c0 (ta - tinit) p) (F s1 fd c1 (tb - tinit) p) = F s0 fd c0 (ta - tinit) p
    ∧ blend 1 (F s0 fd c0 (ta - tinit) p) (F s1 fd c1 (tb - tinit) p) = F s1 fd c1 (tb - tinit) p := by
  intro fd
  refine ⟨collocBlock_eq_blend F ne hF theta tinit p s0 s1 c0 c1 ta tb, ?_, ?_, ?_, ?_⟩
  · simp [collocBlock, fd]
  · simp [collocBlock, fd]
  · unfold blend
    rw [sub_zero]
    exact vadd_scale_zero_right _ _ (by rw [hF, hF])
  · unfold blend
    rw [sub_self]
    exact vadd_scale_zero_left _ _ (by rw [hF, hF])

/-! ## The initial rows -/

/-- **C01_initial_rows**: the initial rows of member `m` are `F = 0` followed by the initial
    equations, at the decoded state at `t0`, model time `0`, the member's inputs at `t0`, the
    member's own parameters, and the initial derivatives = the member's free
    initial-derivative variables (times their nominal) for differentiated states and the history
    backward difference (or `0`) for algebraic states and controls. -/
theorem C01_initial_rows (F Finit : Residual) (I : Inst) (hw : I.WF) (X : Vec)
    (m : Nat) (hm : m < I.E) (hn : 0 < I.sys.n) :
    initRowsCode F Finit I.sys (I.mem m) X = initRes F Finit I X m := by
  rw [initRowsCode_eq F Finit I.sys (I.mem m) X hw.nd_le]
  unfold initRes
  rw [C01_parameters_member_own I hw m hm, C01_inputs_member_own I hw m hm 0 hn]
  rfl

/-! ## Every member, step, equation once — and nothing else -/

/-- the specification of the whole list of model rows: initial rows member by member, then for
    every member every step every equation -/
def specRows (F Finit : Residual) (I : Inst) (X : Vec) : List Rat :=
  (List.range I.E).flatMap (fun m => initRes F Finit I X m)
    ++ (List.range I.E).flatMap (fun m => (List.range (I.sys.n - 1)).flatMap (fun i => thetaRes F I X m i))

/-- **C01_complete_and_nothing_else**: the list of equality rows contributed on behalf of the
    model is exactly `{initRes m} ++ {thetaRes m i}` — every member, every step, every equation
    once, nothing else — with known length, every row at a known position, and all bounds `0 / 0`. -/
theorem C01_complete_and_nothing_else (F Finit : Residual) (I : Inst) (hw : I.WF) (ni : Nat)
    (hF : ∀ a b c d e, (F a b c d e).length = I.sys.ne)
    (hFi : ∀ a b c d e, (Finit a b c d e).length = ni) (X : Vec) (hn : 0 < I.sys.n) :
    gRows F Finit I X = specRows F Finit I X
    ∧ (gRows F Finit I X).length = I.E * (I.sys.ne + ni) + I.E * ((I.sys.n - 1) * I.sys.ne)
    ∧ (∀ m e, m < I.E → e < I.sys.ne + ni →
        (gRows F Finit I X).getD (m * (I.sys.ne + ni) + e) 0 = initRow F Finit I X m e)
    ∧ (∀ m i e, m < I.E → i < I.sys.n - 1 → e < I.sys.ne →
        (gRows F Finit I X).getD
          (I.E * (I.sys.ne + ni) + (m * ((I.sys.n - 1) * I.sys.ne) + (i * I.sys.ne + e))) 0
          = thetaRow F I X m i e)
    ∧ gBounds F Finit I X = List.replicate (I.E * (I.sys.ne + ni) + I.E * ((I.sys.n - 1) * I.sys.ne)) 0 := by
  have h1 : gRows F Finit I X = specRows F Finit I X := by
    unfold gRows specRows
    congr 1
    · apply flatMap_congr'
      intro m hm
      exact C01_initial_rows F Finit I hw X m (List.mem_range.1 hm) hn
    · apply flatMap_congr'
      intro m hm
      unfold collocMemberRows
      apply flatMap_congr'
      intro i hi
      exact C01_rows_eq_theta F I hw hF X m (List.mem_range.1 hm) i (List.mem_range.1 hi)
  have hli : ∀ m, (initRes F Finit I X m).length = I.sys.ne + ni := by
    intro m; simp [initRes, hF, hFi]
  have hlt : ∀ m i, (thetaRes F I X m i).length = I.sys.ne := by
    intro m i; exact thetaSpec_length F I.sys.ne hF _ _ _ _ _ _ _
  have hlm : ∀ m, ((List.range (I.sys.n - 1)).flatMap (fun i => thetaRes F I X m i)).length
      = (I.sys.n - 1) * I.sys.ne := by
    intro m; exact flatMap_range_length _ _ (hlt m) _
  have hA : ((List.range I.E).flatMap (fun m => initRes F Finit I X m)).length = I.E * (I.sys.ne + ni) :=
    flatMap_range_length _ _ hli _
  have hB : ((List.range I.E).flatMap (fun m => (List.range (I.sys.n - 1)).flatMap
      (fun i => thetaRes F I X m i))).length = I.E * ((I.sys.n - 1) * I.sys.ne) :=
    flatMap_range_length _ _ hlm _
  have hlen : (gRows F Finit I X).length = I.E * (I.sys.ne + ni) + I.E * ((I.sys.n - 1) * I.sys.ne) := by
    rw [h1]; unfold specRows; rw [List.length_append, hA, hB]
  refine ⟨h1, hlen, ?_, ?_, ?_⟩
  · intro m e hm he
    rw [h1]
    unfold specRows initRow
    have hpos : m * (I.sys.ne + ni) + e < I.E * (I.sys.ne + ni) := by
      calc m * (I.sys.ne + ni) + e < m * (I.sys.ne + ni) + (I.sys.ne + ni) := by omega
        _ = (m + 1) * (I.sys.ne + ni) := by ring
        _ ≤ I.E * (I.sys.ne + ni) := Nat.mul_le_mul_right _ hm
    rw [List.getD_append _ _ _ _ (by rw [hA]; exact hpos)]
    exact flatMap_range_getD _ _ 0 hli I.E m e hm he
  · intro m i e hm hi he
    rw [h1]
    unfold specRows thetaRow
    rw [List.getD_append_right _ _ _ _ (by rw [hA]; omega), hA, Nat.add_sub_cancel_left]
    rw [flatMap_range_getD _ _ 0 hlm I.E m (i * I.sys.ne + e) hm (by
      calc i * I.sys.ne + e < i * I.sys.ne + I.sys.ne := by omega
        _ = (i + 1) * I.sys.ne := by ring
        _ ≤ (I.sys.n - 1) * I.sys.ne := Nat.mul_le_mul_right _ hi)]
    exact flatMap_range_getD _ _ 0 (hlt m) (I.sys.n - 1) i e hi he
  · unfold gBounds
    rw [hlen]

/-! ## Feasible points satisfy the residuals -/

/-- **C01_feasible_satisfies_residuals** (tolerance form): a decision vector that meets the
    bounds `lbg ≤ g(X) ≤ ubg` of the model rows to within `eps` has every theta-method residual
    and every initial residual within `eps` of zero — every member, step and equation. -/
theorem C01_feasible_satisfies_residuals (F Finit : Residual) (I : Inst) (hw : I.WF) (ni : Nat)
    (hF : ∀ a b c d e, (F a b c d e).length = I.sys.ne)
    (hFi : ∀ a b c d e, (Finit a b c d e).length = ni) (X : Vec) (hn : 0 < I.sys.n) (eps : Rat)
    (hfeas : ∀ r, r < (gRows F Finit I X).length →
      (gBounds F Finit I X).getD r 0 - eps ≤ (gRows F Finit I X).getD r 0
      ∧ (gRows F Finit I X).getD r 0 ≤ (gBounds F Finit I X).getD r 0 + eps) :
    (∀ m i e, m < I.E → i < I.sys.n - 1 → e < I.sys.ne → |thetaRow F I X m i e| ≤ eps)
    ∧ (∀ m e, m < I.E → e < I.sys.ne + ni → |initRow F Finit I X m e| ≤ eps) := by
  obtain ⟨_, hlen, hinit, hstep, hb⟩ := C01_complete_and_nothing_else F Finit I hw ni hF hFi X hn
  have hzero : ∀ r, r < (gRows F Finit I X).length → (gBounds F Finit I X).getD r 0 = 0 := by
    intro r hr
    rw [hb]
    exact List.getD_replicate _ (by rw [← hlen]; exact hr)
  constructor
  · intro m i e hm hi he
    have hpos : I.E * (I.sys.ne + ni) + (m * ((I.sys.n - 1) * I.sys.ne) + (i * I.sys.ne + e))
        < (gRows F Finit I X).length := by
      rw [hlen]
      have h1 : i * I.sys.ne + e < (I.sys.n - 1) * I.sys.ne := by
        calc i * I.sys.ne + e < i * I.sys.ne + I.sys.ne := by omega
          _ = (i + 1) * I.sys.ne := by ring
          _ ≤ (I.sys.n - 1) * I.sys.ne := Nat.mul_le_mul_right _ hi
      have h2 : m * ((I.sys.n - 1) * I.sys.ne) + (i * I.sys.ne + e) < I.E * ((I.sys.n - 1) * I.sys.ne) := by
        calc m * ((I.sys.n - 1) * I.sys.ne) + (i * I.sys.ne + e)
            < m * ((I.sys.n - 1) * I.sys.ne) + (I.sys.n - 1) * I.sys.ne := by omega
          _ = (m + 1) * ((I.sys.n - 1) * I.sys.ne) := by ring
          _ ≤ I.E * ((I.sys.n - 1) * I.sys.ne) := Nat.mul_le_mul_right _ hm
      omega
    have := hfeas _ hpos
    rw [hzero _ hpos, hstep m i e hm hi he] at this
    exact abs_le.2 ⟨by linarith [this.1], by linarith [this.2]⟩
  · intro m e hm he
    have hpos : m * (I.sys.ne + ni) + e < (gRows F Finit I X).length := by
      rw [hlen]
      have : m * (I.sys.ne + ni) + e < I.E * (I.sys.ne + ni) := by
        calc m * (I.sys.ne + ni) + e < m * (I.sys.ne + ni) + (I.sys.ne + ni) := by omega
          _ = (m + 1) * (I.sys.ne + ni) := by ring
          _ ≤ I.E * (I.sys.ne + ni) := Nat.mul_le_mul_right _ hm
      omega
    have := hfeas _ hpos
    rw [hzero _ hpos, hinit m e hm he] at this
    exact abs_le.2 ⟨by linarith [this.1], by linarith [this.2]⟩

/-- exact form: `lbg ≤ g(X) ≤ ubg` with the zero bounds forces every residual to vanish -/
theorem C01_feasible_exact (F Finit : Residual) (I : Inst) (hw : I.WF) (ni : Nat)
    (hF : ∀ a b c d e, (F a b c d e).length = I.sys.ne)
    (hFi : ∀ a b c d e, (Finit a b c d e).length = ni) (X : Vec) (hn : 0 < I.sys.n)
    (hfeas : ∀ r, r < (gRows F Finit I X).length →
      (gBounds F Finit I X).getD r 0 ≤ (gRows F Finit I X).getD r 0
      ∧ (gRows F Finit I X).getD r 0 ≤ (gBounds F Finit I X).getD r 0) :
    (∀ m i e, m < I.E → i < I.sys.n - 1 → e < I.sys.ne → thetaRow F I X m i e = 0)
    ∧ (∀ m e, m < I.E → e < I.sys.ne + ni → initRow F Finit I X m e = 0) := by
  have := C01_feasible_satisfies_residuals F Finit I hw ni hF hFi X hn 0
    (by intro r hr; simpa using hfeas r hr)
  exact ⟨fun m i e hm hi he => abs_nonpos_iff.1 (this.1 m i e hm hi he),
         fun m e hm he => abs_nonpos_iff.1 (this.2 m e hm he)⟩


/-! ## Non-vacuity: a concrete instance (cross-checked against the real `transcribe()`)

One state `x` (nominal 2) and one control `u` (nominal 1/2), one constant input on the stamps
`{0, 3}`, one parameter with the per-member values `(1, 2)` (the pattern of finding F1), two
members, grid `0, 1, 3`, `theta = 1/4`, residual `der(x) + p·x - u - c + t`, initial equation
`x - 5`; layout as the implementation lays it out (shared control first).  The same instance is in
the corpus of `harness/c01.py`; the real code returns exactly the row values below. -/

def F0 : Residual := fun v d c t p =>
  [d.getD 0 0 + p.getD 0 0 * v.getD 0 0 - v.getD 1 0 - c.getD 0 0 + t]
def Fi0 : Residual := fun v _ _ _ _ => [v.getD 0 0 - 5]

def S0 : Sys where
  k := 2
  nd := 1
  nc := 1
  ne := 1
  tsL := [0, 1, 3]
  theta := 1 / 4
  nom := fun v => if v = 0 then 2 else 1 / 2
  dnom := fun _ => 2
  own := fun _ => none

def I0 : Inst where
  sys := S0
  E := 2
  idx := fun m v i => if v = 1 then i else 3 + m * 4 + i
  didx := fun m _ => 6 + m * 4
  npar := 1
  pvals := fun m => [(m : Rat) + 1]
  dyn := fun _ => false
  cin := fun m _ => [(0, 1), (3, 4 + (m : Rat))]
  cmode := fun _ => 0
  hist := fun _ _ => none
  extraU := fun _ _ => []
  other := fun _ i => [1000 + (i : Rat)]

def X0 : Vec := fun i => (i : Rat) + 1

/-- a feasible decision vector of the example -/
def Xfeas : Vec := fun i =>
  [18, -128 / 3, 116, 5 / 2, 22 / 15, -37 / 45, 5 / 2, 5 / 2, 0, 0, 0].getD i 0

theorem I0_wf : I0.WF where
  par_len := by intro m _; simp [I0]
  cin_sorted := by
    intro m j _ _
    show (0 : Rat) < 3 ∧ True
    exact ⟨by norm_num, trivial⟩
  cin_ne := by intro m j _ _; simp [I0]
  cmode_ok := by intro j _; simp [I0]
  nd_le := by decide

theorem F0_len : ∀ a b c d e, (F0 a b c d e).length = I0.sys.ne := fun _ _ _ _ _ => rfl
theorem Fi0_len : ∀ a b c d e, (Fi0 a b c d e).length = 1 := fun _ _ _ _ _ => rfl

/-- the hypotheses of the theorems are satisfiable and the rows are not trivial: the model's rows
    at `X = (1, 2, …, 11)` (the real `nlp['g']` evaluates to the same eight numbers) -/
example : gRows F0 Fi0 I0 X0 = [41 / 2, 3, 105 / 2, 11, 71 / 8, 75 / 8, 799 / 24, 283 / 8] := by
  decide +kernel

/-- `C01_rows_eq_theta` instantiated: member 1 (parameter value 2, its own input series), step 1 -/
example : thetaRes F0 I0 X0 1 1 = [283 / 8] := by
  rw [← C01_rows_eq_theta F0 I0 I0_wf F0_len X0 1 (by decide) 1 (by decide)]
  decide +kernel

/-- members differ only through their own data: same step, member 0 -/
example : thetaRes F0 I0 X0 0 1 = [75 / 8] := by
  rw [← C01_rows_eq_theta F0 I0 I0_wf F0_len X0 0 (by decide) 1 (by decide)]
  decide +kernel

/-- the feasibility theorem is not vacuous: a decision vector with `lbg ≤ g(X) ≤ ubg` exists and
    therefore has all residuals zero -/
example : (∀ m i e, m < 2 → i < 2 → e < 1 → thetaRow F0 I0 Xfeas m i e = 0)
    ∧ (∀ m e, m < 2 → e < 2 → initRow F0 Fi0 I0 Xfeas m e = 0) := by
  have hg : gRows F0 Fi0 I0 Xfeas = [0, 0, 0, 0, 0, 0, 0, 0] := by decide +kernel
  have hb : gBounds F0 Fi0 I0 Xfeas = [0, 0, 0, 0, 0, 0, 0, 0] := by
    unfold gBounds; rw [hg]; rfl
  refine C01_feasible_exact F0 Fi0 I0 I0_wf 1 F0_len Fi0_len Xfeas (by decide) ?_
  intro r _
  rw [hg, hb]
  exact ⟨le_refl _, le_refl _⟩

/-- finding F1 at the level of the rows: with the classification of the unrepaired tree member 1
    (parameter value 2) is transcribed with member 0's value and its row is NOT the theta-method
    residual; with the repaired classification it is (`C01_rows_eq_theta`) -/
theorem C01_legacy_F1_rows_witness :
    collocRowsCode F0 I0.sys { I0.mem 1 with par := effParLegacy I0.E I0.npar I0.pvals 1 } X0 1
      ≠ thetaRes F0 I0 X0 1 1 := by
  decide +kernel

/-- the history constant of finding F36: an algebraic state with history `[1.5, -4.5, 1.75]` at
    `[-2, -1, 0]` enters the initial residual with the derivative `6.25`; a history of one point,
    or none, gives `0` -/
example : histDer (some [(-2, 3 / 2), (-1, -9 / 2), (0, 7 / 4)]) 0 = 25 / 4
    ∧ histDer (some [(0, 7 / 4)]) 0 = 0 ∧ histDer none 0 = 0 := by
  decide +kernel

/-- a control on its own coarser stamps `{0, 3}` (linear mode): at the collocation time `1` the
    rows see the interpolant of its physical values -/
def S1 : Sys := { S0 with own := fun v => if v = 1 then some ⟨[0, 3], 0⟩ else none }
def I1 : Inst := { I0 with sys := S1, idx := fun m v i => if v = 1 then i else 2 + m * 4 + i,
                            didx := fun m _ => 5 + m * 4 }

example : decode I1.sys X0 (I1.idx 0) 1 = [8, 2 / 3] := by decide +kernel

example : decodeVar I1.sys X0 (I1.idx 0) 1 1 = 2 / 3 := by
  rw [C01_decode_own_grid I1 X0 0 1 1 ⟨[0, 3], 0⟩ rfl (by simp)]
  decide +kernel

/-! ## The plumbing at the level of Python lists and NumPy calls

The statements below are about the code-level definitions of `Model/C01Plumb.lean`; on every run
`harness/translate_c01.py` re-generates those definitions from the source
(`Gen/CollocPlumbing.lean`) and proves the generated ones equal to the model functions used above. -/

/-- **index lists**: the lists the loop builds from `indices_as_lists[member][variable]` (copy,
    `extend(place_holder)`, `[:n]`, then `[:-1]` / `[1:]`) are the model's `explicitInds` /
    `implicitInds` of the index table read off the raw lists — whatever the lengths of the raw
    lists; and a variable on the collocation grid is read at its own entries -/
theorem C01_index_lists_code (raw : Nat → List Nat) (k n ph : Nat) :
    explicitIndsCode raw k n ph = explicitInds (idxOf raw ph) k n
    ∧ implicitIndsCode raw k n ph = implicitInds (idxOf raw ph) k n
    ∧ (∀ v i (h : i < (raw v).length), idxOf raw ph v i = (raw v)[i]) :=
  ⟨explicitIndsCode_eq raw k n ph, implicitIndsCode_eq raw k n ph, fun v i h => idxOf_lt raw ph v i h⟩

/-- **tiling and reshape**: entry `(i, j)` resp. `(i, k + j)` of the column-major reshape to
    `(n-1) × 2k` of `vertcat(X[explicit], X[implicit]) * np.tile(np.repeat(nominals, n-1), 2)` is
    `nominal_j · X[index of variable j at collocation time i resp. i+1]`: each variable meets its own
    nominal and its own stamps, for every number of variables and stamps -/
theorem C01_state_matrix_code (X : Vec) (raw : Nat → List Nat) (nom : Nat → Rat) (k n ph i j : Nat)
    (hj : j < k) (hi : i < n - 1) (hlen : (raw j).length = n) :
    reshapeAt (interpolatedFlatCode X raw nom k n ph) (n - 1) i j
        = nom j * X ((raw j).getD i 0)
    ∧ reshapeAt (interpolatedFlatCode X raw nom k n ph) (n - 1) i (k + j)
        = nom j * X ((raw j).getD (i + 1) 0) := by
  obtain ⟨h1, h2⟩ := stateMatrixCode_entries X raw nom k n ph i j hj hi
  have e1 : idxOf raw ph j i = (raw j).getD i 0 := by
    simp [idxOf, List.getD_eq_getElem?_getD, List.getElem?_eq_getElem (by omega : i < (raw j).length)]
  have e2 : idxOf raw ph j (i + 1) = (raw j).getD (i + 1) 0 := by
    simp [idxOf, List.getD_eq_getElem?_getD, List.getElem?_eq_getElem (by omega : i + 1 < (raw j).length)]
  rw [h1, h2, e1, e2]
  exact ⟨rfl, rfl⟩

/-- **history block**: the statements of the block (`h.times[0] == t0 or len(h.values) == 1`,
    negative indices, `except KeyError`) compute the model's `histDer`; with at least two points
    and a first stamp different from `t0` that is the backward difference of the last two points -/
theorem C01_history_block_code (h : Option Knots) (t0 : Rat) :
    histDerCode h t0 = histDer h t0
    ∧ histDerCode none t0 = 0
    ∧ (∀ p, histDerCode (some [p]) t0 = 0)
    ∧ (∀ (pre : Knots) (ta fa tb fb : Rat), firstTime (pre ++ [(ta, fa), (tb, fb)]) ≠ t0 →
        histDerCode (some (pre ++ [(ta, fa), (tb, fb)])) t0 = (fb - fa) / (tb - ta)) := by
  refine ⟨histDerCode_eq h t0, rfl, ?_, ?_⟩
  · intro p
    simp [histDerCode]
  · intro pre ta fa tb fb hne
    rw [histDerCode_eq]
    have hl : ¬ (pre ++ [(ta, fa), (tb, fb)]).length = 1 := by simp
    simp only [histDer, hne, hl, or_self, if_false]
    simp

/-- **`reduce_matvec` on the initial derivatives** (finding F36): the initial derivatives handed to
    the initial residual are affine in the decision vector; keeping the linear part and the
    constant part gives exactly the vector `C01_initial_rows` is about -/
theorem C01_initial_ders_reduced (s : Sys) (c : Mem) (X : Vec) (hnd : s.nd ≤ s.k) :
    List.zipWith affVal (initDersLin s c X) (initDersConst s c) = initDersCode s c X := by
  rw [initDers_affine, initDersCode_eq s c X hnd]

/-- non-vacuity: variable 0 on the grid (`n = 3`), variable 1 with two own stamps; place holder 99 -/
example : explicitIndsCode (fun v => if v = 0 then [3, 4, 5] else [0, 1]) 2 3 99 = [3, 4, 0, 1]
    ∧ implicitIndsCode (fun v => if v = 0 then [3, 4, 5] else [0, 1]) 2 3 99 = [4, 5, 1, 99] := by
  decide +kernel

example : repeatedNominalsCode (fun v => if v = 0 then 2 else 1 / 2) 2 3 = [2, 2, 1 / 2, 1 / 2, 2, 2, 1 / 2, 1 / 2] := by
  decide +kernel

/-- the reshaped matrix of the example instance: row 1 is `(x(t1), u(t1), x(t2), u(t2))` in
    physical units -/
example : (List.range 4).map (reshapeAt (interpolatedFlatCode X0 (fun v => if v = 0 then [3, 4, 5] else [0, 1, 2])
    S0.nom 2 3 99) 2 1) = [10, 1, 12, 3 / 2] := by
  decide +kernel

example : histDerCode (some [(-2, 3 / 2), (-1, -9 / 2), (0, 7 / 4)]) 0 = 25 / 4
    ∧ histDerCode (some [(0, 7 / 4)]) 0 = 0 ∧ histDerCode none 0 = 0
    ∧ histDerCode (some [(0, 1), (1, 5)]) 0 = 0 := by
  decide +kernel

/-- finding F36 at the level of the initial derivatives: with the history constant `25/4` of an
    algebraic variable, dropping the constant part (the unrepaired `reduce_matvec`) changes the
    vector handed to the initial residual -/
theorem C01_legacy_F36_witness :
    let c : Mem := { I0.mem 0 with dconst := fun _ => 25 / 4 }
    List.zipWith affVal (initDersLin S0 c X0) (initDersConst S0 c) = [14, 25 / 4]
    ∧ List.zipWith affValLegacy (initDersLin S0 c X0) (initDersConst S0 c) = [14, 0]
    ∧ initDersCode S0 c X0 = [14, 25 / 4] := by
  decide +kernel

/-- **cache clearing is history-free**: when `clear_transcription_cache()` resets every cached function
    that `transcribe()` would otherwise reuse, the transcription after a clear consists of the same
    functions as that of a fresh object with the current data, whatever was cached before (the
    generated `clearCoversCacheGen` establishes the hypothesis for the current source) -/
theorem C01_clear_then_fresh {α β : Type} (slots cl : List String) (h : ∀ s ∈ slots, s ∈ cl)
    (build : α → String → β) (d : α) (cache : Cache β) :
    transcribeWith slots build d (clearSlots cl cache) = transcribeWith slots build d (fun _ => none) :=
  clear_then_fresh slots cl h build d cache

/-- non-vacuity, and the hypothesis is needed: a slot that is read but not cleared keeps the function
    built from the old data (`1`) instead of the current data (`2`) -/
example : transcribeWith ["a", "b"] (fun (d : Nat) _ => d) 2 (clearSlots ["a", "b"] (fun _ => some 1)) = [2, 2]
    ∧ transcribeWith ["a", "b"] (fun (d : Nat) _ => d) 2 (clearSlots ["a"] (fun _ => some 1)) = [2, 1] := by
  decide

end RtcVerif.C01
