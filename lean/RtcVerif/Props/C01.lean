import RtcVerif.Model.C01Colloc
namespace RtcVerif.C01
theorem stub_placeholder : (1 : Nat) = 1 := rfl
end RtcVerif.C01
