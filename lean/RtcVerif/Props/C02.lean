import RtcVerif.Model.C02Loop
import RtcVerif.Model.C04Json
import RtcVerif.Model.C02KeepSoft
import RtcVerif.Proofs.C04Store
import RtcVerif.Proofs.C02Loop
import RtcVerif.Proofs.C02Fold
import RtcVerif.Proofs.C04Elem
import RtcVerif.Proofs.C02KeepSoft
import RtcVerif.Proofs.C02Example
import RtcVerif.Proofs.C02Book
import Mathlib.Algebra.Order.Field.Basic
import Mathlib.Tactic.Linarith
import Mathlib.Tactic.Ring
import Mathlib.Tactic.FieldSimp
import Mathlib.Tactic.NormNum
/-!
# C02 — lexicographic order: later priorities never degrade earlier ones

Model: `Model/C02Loop.lean` (store + multi-pass loop over an arbitrary solver oracle),
`Model/C04Store.lean` (`update_bounds`, soft-to-hard conversion), `Model/C02KeepSoft.lean`
(keep_soft / single-pass objective rows).  Helper lemmas: `Proofs/C04Store.lean`,
`Proofs/C02Loop.lean`, `Proofs/C02KeepSoft.lean`.
-/
namespace RtcVerif.C02
open RtcVerif RtcVerif.C04

/-! ## `_GoalConstraint.update_bounds` (any linear order: scalars, ±inf, element-wise series) -/

/-- the executable `updateBounds` on `EVal` is the generic function the lemmas talk about -/
theorem updateBounds_model_is_generic (s o : EIvl) (e : Bool) : updateBounds s o e = ub s o e := rfl

/-- `enforce="other"` (soft-to-hard conversion): the result lies inside the previous entry -/
theorem updateBounds_other_within_previous {α : Type} [LinearOrder α] (new prev : Ivl α)
    (h : prev.lo ≤ prev.hi) : (ub new prev false).sub prev := ub_other_sub new prev h

/-- `enforce="self"` (critical goal merged into the store; repaired code, c555684): the result
    lies inside the stored entry -/
theorem updateBounds_self_within_previous {α : Type} [LinearOrder α] (stored new : Ivl α)
    (h : stored.lo ≤ stored.hi) : (ub stored new true).sub stored := ub_self_sub stored new h

/-- when the two intervals intersect, both modes return exactly the intersection -/
theorem updateBounds_eq_intersection {α : Type} [LinearOrder α] (s o : Ivl α) (e : Bool) (x : α)
    (hs : Ivl.mem x s) (ho : Ivl.mem x o) : ub s o e = ⟨max s.lo o.lo, min s.hi o.hi⟩ :=
  ub_eq_inter s o e x hs ho

/-- the result is always a consistent interval -/
theorem updateBounds_consistent {α : Type} [LinearOrder α] (s o : Ivl α) (e : Bool) :
    (ub s o e).lo ≤ (ub s o e).hi := ub_ok s o e

/-- a new interval (e.g. an equality-folded one) inside a hull `[a, b]` that shares the achieved
    value `v` with the previous entry merges to something inside the hull -/
theorem updateBounds_other_within_hull {α : Type} [LinearOrder α] (new prev : Ivl α) (a b v : α)
    (hn : new.lo ≤ new.hi) (hna : a ≤ new.lo) (hnb : new.hi ≤ b) (hva : a ≤ v) (hvb : v ≤ b)
    (hv : Ivl.mem v prev) : (ub new prev false).sub ⟨a, b⟩ :=
  ub_other_within_hull new prev a b v hn hna hnb hva hvb hv

/-- **F4 (fixed): the code before c555684 loosened the store**: stored `[2, 5]` merged with a new
    `[0, 10]` gave `[0, 10]`; the repaired code keeps `[2, 5]`. -/
theorem updateBounds_self_loosens_witness :
    updateBoundsLegacy ⟨EVal.fin 2, EVal.fin 5⟩ ⟨EVal.fin 0, EVal.fin 10⟩ true = ⟨EVal.fin 0, EVal.fin 10⟩
    ∧ updateBounds ⟨EVal.fin 2, EVal.fin 5⟩ ⟨EVal.fin 0, EVal.fin 10⟩ true = ⟨EVal.fin 2, EVal.fin 5⟩
    ∧ updateBoundsLegacy ⟨EVal.fin 2, EVal.pinf⟩ ⟨EVal.ninf, EVal.fin 8⟩ true = ⟨EVal.ninf, EVal.fin 8⟩
    ∧ updateBounds ⟨EVal.fin 2, EVal.pinf⟩ ⟨EVal.ninf, EVal.fin 8⟩ true = ⟨EVal.fin 2, EVal.fin 8⟩ := by
  decide

/-! ## the mask code of the conversion is the model (second half of the source-to-Lean tie) -/

/-- `Gen/HardConstraint.lean` (generated from /repo on every run) proves the source of
    `__goal_hard_constraint`, read element-wise, equal to `C04.hardElemX`; this theorem proves
    `hardElemX`, called as `__soft_to_hard_constraints` calls it, equal to `hardStep` — under a
    non-zero nominal and a finite function range for non-critical target goals (validation). -/
theorem mask_code_is_hardStep (o : HOpts) (g : Goal) (s : Sol) (gj i : Nat) (hnom : g.nomAt 0 ≠ 0)
    (hr : g.hasTargetBounds = true → g.critical = true ∨
      ((∃ lo, g.loAt 0 = XVal.e (EVal.fin lo)) ∧ ∃ hi, g.hiAt 0 = XVal.e (EVal.fin hi))) :
    hardElemX (if g.hasTargetBounds then s.eps gj i + o.violationRelaxation else s.fval g.fk i)
        (g.mAt 0 i) (g.MAt 0 i) (g.loAt 0) (g.hiAt 0) g.relaxation (g.nomAt 0) g.critical
        g.hasMin g.hasMax g.hasTargetBounds o.equalityThreshold o.constraintRelaxation (vtX o)
        o.fixMinimizedValues (s.fval g.fk i)
      = (XVal.e (hardStep o g s gj i).lo, XVal.e (hardStep o g s gj i).hi) :=
  hardElemX_eq_hardStep o g s gj i hnom hr

/-- the merge at the end of `__goal_hard_constraint` (`Gen`: `hardMergeGen = mergeNew`) is what
    `storeOther` stores; `_gp_update_constraint_store` (`updateStoreGen = mergeStored`) is `storeSelf` -/
theorem merge_code_is_store_ops (st : Store) (k : Key) (new : EIvl) :
    (storeOther st k new).get k = some (mergeNew EVal.max EVal.min new (st.get k)) ∧
    (storeSelf st k new).get k = some (mergeStored EVal.max EVal.min (st.get k) new) :=
  ⟨storeOther_get_eq_mergeNew st k new, storeSelf_get_eq_mergeStored st k new⟩

/-! ## function keys of state goals -/

/-- goals on a state and on a negated alias of a state never have the same function key (state
    names do not start with `-`), and two state goals share a key exactly when they act on the same
    canonical state with the same sign -/
theorem stateGoalKey_injective (c c' : String) (p p' : Bool)
    (hc : c.toList.head? ≠ some '-') (hc' : c'.toList.head? ≠ some '-') :
    stateGoalKey c p = stateGoalKey c' p' ↔ c = c' ∧ p = p' := by
  have hneg : ∀ a b : String, b.toList.head? ≠ some '-' → "-" ++ a ≠ b := by
    intro a b hb h
    apply hb
    rw [← h]
    simp [String.toList_append]
  cases p <;> cases p' <;> simp only [stateGoalKey, Bool.false_eq_true, if_false, if_true]
  · constructor
    · intro h
      have := congrArg String.toList h
      simp only [String.toList_append, List.append_cancel_left_eq] at this
      exact ⟨String.ext this, trivial⟩
    · rintro ⟨rfl, _⟩; rfl
  · constructor
    · intro h; exact absurd h (hneg c c' hc')
    · rintro ⟨_, h⟩; cases h
  · constructor
    · intro h; exact absurd h.symm (hneg c' c hc)
    · rintro ⟨_, h⟩; cases h
  · simp

/-- hence: converting / inserting a goal on `-x` never touches the store entry of `x` -/
theorem store_entries_of_other_keys_untouched (st : Store) (k k' : Key) (new : EIvl) (h : k' ≠ k) :
    (storeOther st k new).get k' = st.get k' ∧ (storeSelf st k new).get k' = st.get k' := by
  constructor
  · unfold storeOther
    cases st.get k <;> exact get_set_other _ _ _ _ h
  · unfold storeSelf
    cases st.get k <;> exact get_set_other _ _ _ _ h

/-! ## the store only tightens -/

/-- one soft-to-hard conversion keeps every consistent entry, possibly tightened -/
theorem store_monotone_convert (st : Store) (k : Key) (new : EIvl) : Shrinks st (storeOther st k new) :=
  storeOther_shrinks st k new

/-- one critical-goal insertion keeps every consistent entry, possibly tightened -/
theorem store_monotone_critical (st : Store) (k : Key) (new : EIvl) : Shrinks st (storeSelf st k new) :=
  storeSelf_shrinks st k new

/-- **`store_monotone`**: along any run — any goals, any solver answers — the stores handed to the
    solver at consecutive priorities form a chain: every consistent entry of the store at priority
    `k` is still present at `k+1`, contained in the previous interval. -/
theorem store_monotone (o : HOpts) (n : Nat) (oracle : Store → List Goal → Option Sol)
    (prios : List (List Goal)) (st : Store) : Chained (runStores o n oracle prios st) :=
  (runStores_chained o n oracle prios st).1

/-! ## no degradation -/

/-- **`C02_no_degradation_nofold`** (multi-pass, exact: no folding slack).  For every list of priorities, every option set with
    non-negative relaxations, and *every* solver oracle that, when it answers, answers with a point
    satisfying the store rows and the soft rows of the priority (`SatStore`, `SoftOK`): in the run
    of the loop, for all solved priorities `a < b` and every non-critical goal `g` of priority `a`,
    at every step the scaled value of `g` in the solution of `b` lies in the interval
    `hardStep` derived from the solution of `a` (achieved epsilon + `violation_relaxation`, goal
    relaxation, `constraint_relaxation`; steps violated beyond `violation_tolerance`: the achieved
    function value; minimisation goals: achieved value).
    `NoFold`: equality folding (two bounds closer than `equality_threshold` replaced by their
    mean) does not trigger — with folding the statement holds for a key used by one goal per
    priority (`updateBounds_other_within_hull`) and otherwise up to `equality_threshold/2`.
    `Sane`: what validation guarantees (range finite, targets inside, relaxation ≥ 0) and one
    nominal per function key (finding candidate F25 otherwise). -/
theorem C02_no_degradation_nofold (o : HOpts) (n : Nat) (nomOf : String → Rat)
    (oracle : Store → List Goal → Option Sol) (prios : List (List Goal))
    (hvr : 0 ≤ o.violationRelaxation) (hcr : 0 ≤ o.constraintRelaxation)
    (hsane : ∀ gs ∈ prios, ∀ g ∈ gs, g.critical = false → Sane nomOf g)
    (hfeas : ∀ st gs s, gs ∈ prios → oracle st gs = some s →
      SatStore nomOf s st ∧
      ∀ gj g, gs[gj]? = some g → g.critical = false → g.hasTargetBounds = true → ∀ i < n,
        SoftOK g s gj i ∧ (vtFires o (s.eps gj i + o.violationRelaxation) = false →
          NoFold o g (s.eps gj i + o.violationRelaxation) i)) :
    NoDegr o n nomOf (runLoop o n oracle prios [] []).1 := by
  apply runLoop_noDegr o n nomOf oracle prios
  · intro st gs s hgs ho
    obtain ⟨hsat, hsoft⟩ := hfeas st gs s hgs ho
    refine ⟨hsat, ?_⟩
    intro gj g hg hcrit i hi
    exact valueIn_of_feasible o nomOf g s gj i hcrit
      (hsane gs hgs g (List.mem_of_getElem? hg) hcrit) hvr hcr
      (fun ht => (hsoft gj g hg hcrit ht i hi).1) (fun ht hvt => (hsoft gj g hg hcrit ht i hi).2 hvt)
  · exact fun gs h => h
  · intro p hp; cases hp
  · intro a b pa pb _ ha; simp at ha

/-- what `NoDegr` says for the lower side of a target goal: with `ε` the violation achieved at
    the goal's own priority, every later solution has
    `f ≥ m_t + (ε + violation_relaxation)(m - m_t) - relaxation - constraint_relaxation·nom`. -/
theorem C02_retained_target_min (o : HOpts) (nomOf : String → Rat) (g : Goal) (sa sb : Sol) (gj i : Nat)
    (tm lo : Rat) (ht : g.hasTargetBounds = true) (hcrit : g.critical = false)
    (hmin : g.hasMin = true) (htm : g.mAt 0 i = XVal.e (EVal.fin tm)) (hlo : g.loAt 0 = XVal.e (EVal.fin lo))
    (hnom : g.nomAt 0 = nomOf g.fk) (hpos : 0 < nomOf g.fk)
    (hvt : vtFires o (sa.eps gj i + o.violationRelaxation) = false)
    (hnf : NoFold o g (sa.eps gj i + o.violationRelaxation) i)
    (h : Ivl.mem (scaled nomOf sb (g.fk, i)) (hardStep o g sa gj i)) :
    tm + (sa.eps gj i + o.violationRelaxation) * (lo - tm) - g.relaxation
      - o.constraintRelaxation * nomOf g.fk ≤ sb.fval g.fk i := by
  have h1 := h.1
  unfold NoFold at hnf
  simp only [hardStep, ht, hvt, if_true, Bool.false_eq_true, if_false, hardTargetStep, hnf, scaled] at h1
  have hval : targetLo g (sa.eps gj i + o.violationRelaxation) i =
      EVal.fin (((sa.eps gj i + o.violationRelaxation) * (lo - tm) + tm - g.relaxation) / nomOf g.fk) := by
    simp [targetLo, hmin, htm, finOr, hcrit, hlo, finVal, hnom]
  rw [hval] at h1
  simp only [subFin, EVal.le_fin_fin] at h1
  have h2 : ((sa.eps gj i + o.violationRelaxation) * (lo - tm) + tm - g.relaxation) / nomOf g.fk
      ≤ sb.fval g.fk i / nomOf g.fk + o.constraintRelaxation := by linarith
  have h3 := (div_le_iff₀ hpos).1 h2
  have h4 : (sb.fval g.fk i / nomOf g.fk + o.constraintRelaxation) * nomOf g.fk
      = sb.fval g.fk i + o.constraintRelaxation * nomOf g.fk := by
    field_simp
  rw [h4] at h3
  linarith

/-- the upper side -/
theorem C02_retained_target_max (o : HOpts) (nomOf : String → Rat) (g : Goal) (sa sb : Sol) (gj i : Nat)
    (tM hi : Rat) (ht : g.hasTargetBounds = true) (hcrit : g.critical = false)
    (hmax : g.hasMax = true) (htM : g.MAt 0 i = XVal.e (EVal.fin tM)) (hhi : g.hiAt 0 = XVal.e (EVal.fin hi))
    (hnom : g.nomAt 0 = nomOf g.fk) (hpos : 0 < nomOf g.fk)
    (hvt : vtFires o (sa.eps gj i + o.violationRelaxation) = false)
    (hnf : NoFold o g (sa.eps gj i + o.violationRelaxation) i)
    (h : Ivl.mem (scaled nomOf sb (g.fk, i)) (hardStep o g sa gj i)) :
    sb.fval g.fk i ≤ tM + (sa.eps gj i + o.violationRelaxation) * (hi - tM) + g.relaxation
      + o.constraintRelaxation * nomOf g.fk := by
  have h1 := h.2
  unfold NoFold at hnf
  simp only [hardStep, ht, hvt, if_true, Bool.false_eq_true, if_false, hardTargetStep, hnf, scaled] at h1
  have hval : targetHi g (sa.eps gj i + o.violationRelaxation) i =
      EVal.fin (((sa.eps gj i + o.violationRelaxation) * (hi - tM) + tM + g.relaxation) / nomOf g.fk) := by
    simp [targetHi, hmax, htM, finOr, hcrit, hhi, finVal, hnom]
  rw [hval] at h1
  simp only [addFin, EVal.le_fin_fin] at h1
  have h2 : sb.fval g.fk i / nomOf g.fk - o.constraintRelaxation
      ≤ ((sa.eps gj i + o.violationRelaxation) * (hi - tM) + tM + g.relaxation) / nomOf g.fk := by linarith
  have h3 := (le_div_iff₀ hpos).1 h2
  have h4 : (sb.fval g.fk i / nomOf g.fk - o.constraintRelaxation) * nomOf g.fk
      = sb.fval g.fk i - o.constraintRelaxation * nomOf g.fk := by
    field_simp
  rw [h4] at h3
  linarith

/-- a step violated beyond `violation_tolerance`: every later solution keeps the achieved function
    value, `|f - f*| ≤ relaxation + constraint_relaxation·nom`. -/
theorem C02_retained_violated_fixed (o : HOpts) (nomOf : String → Rat) (g : Goal) (sa sb : Sol) (gj i : Nat)
    (ht : g.hasTargetBounds = true) (hnom : g.nomAt 0 = nomOf g.fk) (hpos : 0 < nomOf g.fk)
    (hvt : vtFires o (sa.eps gj i + o.violationRelaxation) = true)
    (h : Ivl.mem (scaled nomOf sb (g.fk, i)) (hardStep o g sa gj i)) :
    sa.fval g.fk i - g.relaxation - o.constraintRelaxation * nomOf g.fk ≤ sb.fval g.fk i
    ∧ sb.fval g.fk i ≤ sa.fval g.fk i + g.relaxation + o.constraintRelaxation * nomOf g.fk := by
  simp only [hardStep, ht, hvt, if_true, fixedStep, scaled, hnom, Ivl.mem, EVal.le_fin_fin] at h
  obtain ⟨h1, h2⟩ := h
  have e1 : (sa.fval g.fk i - g.relaxation) / nomOf g.fk ≤ sb.fval g.fk i / nomOf g.fk + o.constraintRelaxation := by
    linarith
  have e2 : sb.fval g.fk i / nomOf g.fk - o.constraintRelaxation ≤ (sa.fval g.fk i + g.relaxation) / nomOf g.fk := by
    linarith
  have a := (div_le_iff₀ hpos).1 e1
  have b := (le_div_iff₀ hpos).1 e2
  have ha : (sb.fval g.fk i / nomOf g.fk + o.constraintRelaxation) * nomOf g.fk
      = sb.fval g.fk i + o.constraintRelaxation * nomOf g.fk := by field_simp
  have hb : (sb.fval g.fk i / nomOf g.fk - o.constraintRelaxation) * nomOf g.fk
      = sb.fval g.fk i - o.constraintRelaxation * nomOf g.fk := by field_simp
  rw [ha] at a
  rw [hb] at b
  constructor <;> linarith

/-- minimisation goals: every later solution has `f ≤ f* + relaxation + constraint_relaxation·nom`,
    and `f = f*` when the value is fixed (`fix_minimized_values`, no goal relaxation). -/
theorem C02_retained_minimisation (o : HOpts) (nomOf : String → Rat) (g : Goal) (sa sb : Sol) (gj i : Nat)
    (ht : g.hasTargetBounds = false) (hnom : g.nomAt 0 = nomOf g.fk) (hpos : 0 < nomOf g.fk)
    (hcr : 0 ≤ o.constraintRelaxation) (hrel : 0 ≤ g.relaxation)
    (h : Ivl.mem (scaled nomOf sb (g.fk, i)) (hardStep o g sa gj i)) :
    sb.fval g.fk i ≤ sa.fval g.fk i + g.relaxation + o.constraintRelaxation * nomOf g.fk
    ∧ ((o.fixMinimizedValues && g.relaxation == 0) = true → sb.fval g.fk i = sa.fval g.fk i) := by
  simp only [hardStep, ht, Bool.false_eq_true, if_false, hardMinStep, scaled, hnom] at h
  have hcn : 0 ≤ o.constraintRelaxation * nomOf g.fk := mul_nonneg hcr (le_of_lt hpos)
  constructor
  · split at h
    · have h2 := h.2
      simp only [EVal.le_fin_fin] at h2
      have h3 := (div_le_div_iff_of_pos_right hpos).1 h2
      linarith
    · have h2 := h.2
      simp only [EVal.le_fin_fin] at h2
      have h4 := (div_le_iff₀ hpos).1 h2
      have h5 : ((sa.fval g.fk i + g.relaxation) / nomOf g.fk + o.constraintRelaxation) * nomOf g.fk
          = sa.fval g.fk i + g.relaxation + o.constraintRelaxation * nomOf g.fk := by
        field_simp
      rw [h5] at h4
      exact h4
  · intro hfix
    rw [if_pos hfix] at h
    obtain ⟨h1, h2⟩ := h
    simp only [EVal.le_fin_fin] at h1 h2
    have a := (div_le_div_iff_of_pos_right hpos).1 h1
    have b := (div_le_div_iff_of_pos_right hpos).1 h2
    exact le_antisymm b a

/-! ## no degradation, equality folding included, all members and both stores -/

/-- **`C02_no_degradation`** (multi-pass, full strength).  The loop runs over a family of
    independent stores `ι` (ensemble members × {point, path} store; `n j` steps each), one solver
    call per priority for all of them.  For every list of priorities, every option set with
    non-negative relaxations and `equality_threshold`, and *every* solver oracle whose answers
    satisfy the store rows and the soft rows (`SatStore`, `SoftOK`): for every store index `j`, all
    solved priorities `a < b`, every non-critical goal `g` of `a` and every step, the scaled value of
    `g` in the solution of `b` lies in `hullStep`: the hull of the interval derived from the solution
    of `a` *without folding* (`unfoldedStep`: achieved epsilon + `violation_relaxation`, goal
    relaxation, `constraint_relaxation`; fixed value for steps beyond `violation_tolerance`;
    achieved value for minimisation goals) and of `[v_a - thr/2, v_a + thr/2]` around the value
    attained at `a` — i.e. the retained bound up to the folding slack `equality_threshold/2` (in
    scaled units; `× function_nominal` in physical units), see `C02_retained_with_fold_slack` and
    `C02_retained_target_min_folded`.  Any number of goals may share a function key inside one priority.
    `Sane`: what validation guarantees, and one nominal per function key (candidate F25 otherwise). -/
theorem C02_no_degradation {ι : Type} (o : HOpts) (n : ι → Nat) (nomOf : String → Rat)
    (oracle : (ι → Store) → (ι → List Goal) → Option (ι → Sol)) (prios : List (ι → List Goal))
    (hvr : 0 ≤ o.violationRelaxation) (hcr : 0 ≤ o.constraintRelaxation)
    (hthr : 0 ≤ o.equalityThreshold)
    (hsane : ∀ gs ∈ prios, ∀ j, ∀ g ∈ gs j, g.critical = false → Sane nomOf g)
    (hfeas : ∀ st gs s, gs ∈ prios → oracle st gs = some s → ∀ j,
      SatStore nomOf (s j) (st j) ∧
      ∀ gj g, (gs j)[gj]? = some g → g.critical = false → g.hasTargetBounds = true → ∀ i < n j,
        SoftOK g (s j) gj i) :
    NoDegrM o n nomOf (runLoopM o n oracle prios (fun _ => []) []).1 := by
  apply runLoopM_noDegr o n nomOf oracle prios hthr
  · intro st gs s hgs ho j
    obtain ⟨hsat, hsoft⟩ := hfeas st gs s hgs ho j
    refine ⟨hsat, ?_⟩
    intro gj g hg hcrit i hi
    exact stepFacts_of_feasible o nomOf g (s j) gj i hcrit
      (hsane gs hgs j g (List.mem_of_getElem? hg) hcrit) hvr hcr hthr
      (fun ht => hsoft gj g hg hcrit ht i hi)
  · exact fun gs h => h
  · intro j p hp; cases hp
  · intro j a b pa pb _ ha; simp at ha

/-- what membership in `hullStep` means: the unfolded retained bounds, loosened by at most
    `equality_threshold/2` (scaled units) — given that the goal's own solution satisfied them
    (`hown`, a consequence of feasibility at its own priority, `stepFacts_of_feasible`). -/
theorem C02_retained_with_fold_slack (o : HOpts) (nomOf : String → Rat) (g : Goal) (sa : Sol) (gj i : Nat)
    (x : Rat) (hthr : 0 ≤ o.equalityThreshold)
    (hown : Ivl.mem (scaled nomOf sa (g.fk, i)) (unfoldedStep o g sa gj i))
    (h : Ivl.mem (EVal.fin x) (hullStep o nomOf g sa gj i)) :
    subFin (unfoldedStep o g sa gj i).lo (o.equalityThreshold / 2) ≤ EVal.fin x ∧
    EVal.fin x ≤ addFin (unfoldedStep o g sa gj i).hi (o.equalityThreshold / 2) := by
  have hd : 0 ≤ o.equalityThreshold / 2 := by linarith
  obtain ⟨h1, h2⟩ := h
  simp only [hullStep] at h1 h2
  constructor
  · refine le_trans ?_ h1
    apply le_min (subFin_le _ _ hd)
    have := subFin_mono _ _ (o.equalityThreshold / 2) hown.1
    simpa [scaled, ball, subFin] using this
  · refine le_trans h2 ?_
    apply max_le (le_addFin _ _ hd)
    have := addFin_mono _ _ (o.equalityThreshold / 2) hown.2
    simpa [scaled, ball, addFin] using this

/-- the lower side of a target goal in physical units: every later solution has
    `f ≥ m_t + (ε + violation_relaxation)(m - m_t) - relaxation - constraint_relaxation·nom
         - (equality_threshold/2)·nom`, whether or not folding triggered anywhere on the key. -/
theorem C02_retained_target_min_folded (o : HOpts) (nomOf : String → Rat) (g : Goal) (sa sb : Sol)
    (gj i : Nat) (tm lo : Rat) (ht : g.hasTargetBounds = true) (hcrit : g.critical = false)
    (hmin : g.hasMin = true) (htm : g.mAt 0 i = XVal.e (EVal.fin tm)) (hlo : g.loAt 0 = XVal.e (EVal.fin lo))
    (hnom : g.nomAt 0 = nomOf g.fk) (hpos : 0 < nomOf g.fk) (hthr : 0 ≤ o.equalityThreshold)
    (hvt : vtFires o (sa.eps gj i + o.violationRelaxation) = false)
    (hown : Ivl.mem (scaled nomOf sa (g.fk, i)) (unfoldedStep o g sa gj i))
    (h : Ivl.mem (scaled nomOf sb (g.fk, i)) (hullStep o nomOf g sa gj i)) :
    tm + (sa.eps gj i + o.violationRelaxation) * (lo - tm) - g.relaxation
      - o.constraintRelaxation * nomOf g.fk - o.equalityThreshold / 2 * nomOf g.fk ≤ sb.fval g.fk i := by
  have h1 := (C02_retained_with_fold_slack o nomOf g sa gj i _ hthr hown h).1
  have hval : targetLo g (sa.eps gj i + o.violationRelaxation) i =
      EVal.fin (((sa.eps gj i + o.violationRelaxation) * (lo - tm) + tm - g.relaxation) / nomOf g.fk) := by
    simp [targetLo, hmin, htm, finOr, hcrit, hlo, finVal, hnom]
  simp only [unfoldedStep, ht, hvt, if_true, Bool.false_eq_true, if_false, hval, subFin,
    EVal.le_fin_fin] at h1
  have h2 : ((sa.eps gj i + o.violationRelaxation) * (lo - tm) + tm - g.relaxation) / nomOf g.fk
      ≤ sb.fval g.fk i / nomOf g.fk + o.constraintRelaxation + o.equalityThreshold / 2 := by linarith
  have h3 := (div_le_iff₀ hpos).1 h2
  have h4 : (sb.fval g.fk i / nomOf g.fk + o.constraintRelaxation + o.equalityThreshold / 2) * nomOf g.fk
      = sb.fval g.fk i + o.constraintRelaxation * nomOf g.fk + o.equalityThreshold / 2 * nomOf g.fk := by
    field_simp
  rw [h4] at h3
  linarith

/-- the one-store loop is the `ι = Unit` instance of the family loop -/
theorem runLoop_eq_runLoopM_unit (o : HOpts) (n : Nat) (oracle : Store → List Goal → Option Sol) :
    ∀ (prios : List (List Goal)) (st : Store) (done : List (List Goal × Sol)),
      ((runLoopM o (fun _ : Unit => n) (fun st gs => (oracle (st ()) (gs ())).map fun s _ => s)
          (prios.map fun gs _ => gs) (fun _ => st)
          (done.map fun p => ((fun _ => p.1), (fun _ => p.2)))).1.map fun p => (p.1 (), p.2 ()))
        = (runLoop o n oracle prios st done).1
      ∧ (runLoopM o (fun _ : Unit => n) (fun st gs => (oracle (st ()) (gs ())).map fun s _ => s)
          (prios.map fun gs _ => gs) (fun _ => st)
          (done.map fun p => ((fun _ => p.1), (fun _ => p.2)))).2
        = (runLoop o n oracle prios st done).2 := by
  intro prios
  induction prios with
  | nil =>
    intro st done
    simp [runLoopM, runLoop, Function.comp_def]
  | cons gs rest ih =>
    intro st done
    simp only [List.map_cons, runLoopM, runLoop]
    cases ho : oracle (insertCriticals o n st gs) gs with
    | none => simp [Function.comp_def]
    | some s =>
      simp only [Option.map_some]
      have := ih (convertAll o n s (insertCriticals o n st gs) gs) (done ++ [(gs, s)])
      simpa using this

/-! ## keep_soft_constraints and single pass: the objective of every solved priority is retained -/

/-- **keep_soft / single pass (append method)**: for every solver oracle whose answers satisfy the
    retained objective rows, the goal objective of every solved priority `a` evaluated at the
    solution of any later priority `b` is at most its value at the solution of `a` plus
    `constraint_relaxation` (and equal to it under `fix_minimized_values`). -/
theorem C02_keep_soft_no_degradation (fix : Bool) (cr : Rat)
    (oracle : List ObjRow → Nat → Option ObjSol)
    (hc : ∀ rows k s, oracle rows k = some s → SatRows s rows) (K : Nat) :
    ObjNoDegr fix cr 0 (appendLoop fix cr oracle K 0 [] []).1 := by
  have := appendLoop_noDegr fix cr oracle hc 0 K [] [] (by simp) (by intro a b sa sb _ ha; simp at ha)
  simpa using this

/-- **single pass, `UPDATE_OBJECTIVE_CONSTRAINT_BOUNDS`**: the same with all objective rows present
    from the start (free) and their bounds overwritten after each priority. -/
theorem C02_single_pass_update_no_degradation (fix : Bool) (cr : Rat)
    (oracle : List ObjRow → Nat → Option ObjSol)
    (hc : ∀ rows k s, oracle rows k = some s → SatRows s rows) (K : Nat) :
    ObjNoDegr fix cr 0 (updateLoop fix cr oracle K 0 (freeRows K) []).1 := by
  have := updateLoop_noDegr fix cr oracle hc K (freeRows K) [] (by simp [freeRows])
    (by intro a sa ha; simp at ha) (by intro a b sa sb _ ha; simp at ha)
  simpa using this

/-! ## non-vacuity -/

/-- a two-priority run with a concrete oracle: p1 `x ≥ 2` (range (-10, 10)) answered with ε = 1/4
    (x = -1), p2 minimise x answered with x = -1: the hypotheses of `C02_no_degradation_nofold` hold and the
    retained bound `2 + 1/4·(-12) = -1 ≤ x` is what the second answer meets. -/
example :
    let g1 : Goal := { fk := "x", tmin := .scalar (.fin 2), rangeLo := [.fin (-10)], rangeHi := [.fin 10],
                       rangeDefault := false }
    let g2 : Goal := { fk := "m", priority := 2 }
    let s1 : Sol := { fval := fun _ _ => -1, eps := fun _ _ => 1/4 }
    (convertAll {} 1 s1 [] [g1]).get ("x", 0) = some ⟨EVal.fin (-1), EVal.pinf⟩
    ∧ hardStep {} g2 s1 0 0 = ⟨EVal.ninf, EVal.fin (-1)⟩ := by
  decide +kernel

/-- the hypotheses of `C02_no_degradation_nofold` are satisfiable: the run of `Proofs/C02Example.lean`
    (a solver that answers the two problems of the run with feasible points) succeeds and the
    theorem applies to it -/
example : (runLoop {} 1 exOracle [[exG1], [exG2]] [] []).2 = true := by decide +kernel

example : NoDegr {} 1 (fun _ => 1) (runLoop {} 1 exOracle [[exG1], [exG2]] [] []).1 := by
  apply C02_no_degradation_nofold {} 1 (fun _ => 1) exOracle [[exG1], [exG2]] (by decide) (by decide)
  · intro gs hgs g hg _
    simp only [List.mem_cons, List.mem_nil_iff, or_false] at hgs
    rcases hgs with rfl | rfl
    · simp only [List.mem_cons, List.mem_nil_iff, or_false] at hg
      subst hg
      refine ⟨rfl, by norm_num, by decide, fun _ => ⟨-10, rfl⟩, fun _ => ⟨10, rfl⟩, ?_, ?_⟩
      · intro i tm lo h1 h2
        have : tm = 2 := by
          have : exG1.mAt 0 i = XVal.e (EVal.fin 2) := rfl
          rw [this] at h1; injection h1 with h; injection h with h; exact h.symm
        have hl : lo = -10 := by
          have : exG1.loAt 0 = XVal.e (EVal.fin (-10)) := rfl
          rw [this] at h2; injection h2 with h; injection h with h; exact h.symm
        subst this hl
        exact ⟨by norm_num, by simp only [qabs, floatMax]; norm_num⟩
      · intro i tM hi h1 _
        have : exG1.MAt 0 i = XVal.nan := rfl
        rw [this] at h1; cases h1
    · simp only [List.mem_cons, List.mem_nil_iff, or_false] at hg
      subst hg
      refine ⟨rfl, by norm_num, by decide, (fun h => by cases h), (fun h => by cases h), ?_, ?_⟩
      · intro i tm lo h1 _
        have : exG2.mAt 0 i = XVal.nan := rfl
        rw [this] at h1; cases h1
      · intro i tM hi h1 _
        have : exG2.MAt 0 i = XVal.nan := rfl
        rw [this] at h1; cases h1
  · intro st gs s hgs ho
    simp only [exOracle] at ho
    split at ho
    · rename_i h
      obtain ⟨rfl, rfl⟩ := h
      cases ho
      refine ⟨by intro k e h; simp [Store.get] at h, ?_⟩
      intro gj g hg _ _ i hi
      have hi0 : i = 0 := by omega
      subst hi0
      cases gj with
      | succ j => simp at hg
      | zero =>
        simp only [List.getElem?_cons_zero, Option.some.injEq] at hg
        subst hg
        refine ⟨⟨?_, ?_⟩, ?_⟩
        · intro tm lo _ h1 h2
          have : tm = 2 := by
            have : exG1.mAt 0 0 = XVal.e (EVal.fin 2) := rfl
            rw [this] at h1; injection h1 with h; injection h with h; exact h.symm
          have hl : lo = -10 := by
            have : exG1.loAt 0 = XVal.e (EVal.fin (-10)) := rfl
            rw [this] at h2; injection h2 with h; injection h with h; exact h.symm
          subst this hl
          simp only [softRow, qabs, floatMax, exS1, exG1, Goal.nomAt, getB]
          norm_num
        · intro tM hi' h
          cases h
        · exact fun _ => noFold_of_one_sided _ exG1 _ _ rfl
    · split at ho
      · rename_i h
        obtain ⟨rfl, rfl⟩ := h
        cases ho
        refine ⟨?_, ?_⟩
        · intro k e h
          simp only [Store.get, exSt1, List.lookup_cons, List.lookup_nil] at h
          split at h
          · cases h
            simp only [Ivl.mem, scaled, exS2]
            rename_i hk
            have : k = ("x", 0) := by simpa using hk
            subst this
            constructor
            · simp only [EVal.le_fin_fin]; norm_num
            · simp [EVal.le_def, EVal.le]
          · cases h
        · intro gj g hg _ ht
          cases gj with
          | succ j => simp at hg
          | zero =>
            simp only [List.getElem?_cons_zero, Option.some.injEq] at hg
            subst hg
            cases ht
      · cases ho
/-- non-vacuity with folding: in the second run of `Proofs/C02Example.lean` the retained interval
    `[2, 2 + 1e-9]` is folded to its mid point, the run succeeds, and `C02_no_degradation` applies -/
example : hardStep {} exF1 exFS1 0 0 = ⟨EVal.fin exC, EVal.fin exC⟩
    ∧ unfoldedStep {} exF1 exFS1 0 0 = ⟨EVal.fin 2, EVal.fin (2 + 1 / 1000000000)⟩ := by
  decide +kernel

example : (runLoopM {} (fun _ : Unit => 1) exOracleM [fun _ => [exF1], fun _ => [exF2]] (fun _ => []) []).2
    = true := by decide +kernel

example : NoDegrM {} (fun _ : Unit => 1) (fun _ => 1)
    (runLoopM {} (fun _ : Unit => 1) exOracleM [fun _ => [exF1], fun _ => [exF2]] (fun _ => []) []).1 := by
  apply C02_no_degradation {} (fun _ : Unit => 1) (fun _ => 1) exOracleM _ (by decide) (by decide)
    (by decide +kernel)
  · intro gs hgs j g hg _
    simp only [List.mem_cons, List.mem_nil_iff, or_false] at hgs
    rcases hgs with rfl | rfl
    · simp only [List.mem_cons, List.mem_nil_iff, or_false] at hg
      subst hg
      refine ⟨rfl, by norm_num, by decide, fun _ => ⟨-10, rfl⟩, fun _ => ⟨10, rfl⟩, ?_, ?_⟩
      · intro i tm lo h1 h2
        have : tm = 2 := by
          have : exF1.mAt 0 i = XVal.e (EVal.fin 2) := rfl
          rw [this] at h1; injection h1 with h; injection h with h; exact h.symm
        have hl : lo = -10 := by
          have : exF1.loAt 0 = XVal.e (EVal.fin (-10)) := rfl
          rw [this] at h2; injection h2 with h; injection h with h; exact h.symm
        subst this hl
        exact ⟨by norm_num, by simp only [qabs, floatMax]; norm_num⟩
      · intro i tM hi h1 h2
        have : tM = 2 + 1 / 1000000000 := by
          have : exF1.MAt 0 i = XVal.e (EVal.fin (2 + 1 / 1000000000)) := rfl
          rw [this] at h1; injection h1 with h; injection h with h; exact h.symm
        have hl : hi = 10 := by
          have : exF1.hiAt 0 = XVal.e (EVal.fin 10) := rfl
          rw [this] at h2; injection h2 with h; injection h with h; exact h.symm
        subst this hl
        exact ⟨by norm_num, by simp only [qabs, floatMax]; norm_num⟩
    · simp only [List.mem_cons, List.mem_nil_iff, or_false] at hg
      subst hg
      refine ⟨rfl, by norm_num, by decide, (fun h => by cases h), (fun h => by cases h), ?_, ?_⟩
      · intro i tm lo h1 _
        have : exF2.mAt 0 i = XVal.nan := rfl
        rw [this] at h1; cases h1
      · intro i tM hi h1 _
        have : exF2.MAt 0 i = XVal.nan := rfl
        rw [this] at h1; cases h1
  · intro st gs s hgs ho j
    simp only [exOracleM] at ho
    split at ho
    · rename_i h
      obtain ⟨h1, h2⟩ := h
      cases ho
      refine ⟨by intro k e h; rw [h1] at h; simp [Store.get] at h, ?_⟩
      intro gj g hg _ _ i hi
      have hi0 : i = 0 := by omega
      subst hi0
      rw [h2] at hg
      cases gj with
      | succ j => simp at hg
      | zero =>
        simp only [List.getElem?_cons_zero, Option.some.injEq] at hg
        subst hg
        refine ⟨?_, ?_⟩
        · intro tm lo _ h1 h2
          have : tm = 2 := by
            have : exF1.mAt 0 0 = XVal.e (EVal.fin 2) := rfl
            rw [this] at h1; injection h1 with h; injection h with h; exact h.symm
          have hl : lo = -10 := by
            have : exF1.loAt 0 = XVal.e (EVal.fin (-10)) := rfl
            rw [this] at h2; injection h2 with h; injection h with h; exact h.symm
          subst this hl
          simp only [softRow, qabs, floatMax, exFS1, exF1, Goal.nomAt, getB]
          norm_num
        · intro tM hi' _ h1 h2
          have : tM = 2 + 1 / 1000000000 := by
            have : exF1.MAt 0 0 = XVal.e (EVal.fin (2 + 1 / 1000000000)) := rfl
            rw [this] at h1; injection h1 with h; injection h with h; exact h.symm
          have hl : hi' = 10 := by
            have : exF1.hiAt 0 = XVal.e (EVal.fin 10) := rfl
            rw [this] at h2; injection h2 with h; injection h with h; exact h.symm
          subst this hl
          simp only [softRow, qabs, floatMax, exFS1, exF1, Goal.nomAt, getB]
          norm_num
    · split at ho
      · rename_i h
        obtain ⟨h1, h2⟩ := h
        cases ho
        refine ⟨?_, ?_⟩
        · intro k e h
          rw [h1] at h
          simp only [Store.get, exFSt1, List.lookup_cons, List.lookup_nil] at h
          split at h
          · cases h
            rename_i hk
            have : k = ("x", 0) := by simpa using hk
            subst this
            simp only [Ivl.mem, scaled, exFS2, EVal.le_fin_fin]
            constructor <;> norm_num
          · cases h
        · intro gj g hg _ ht
          rw [h2] at hg
          cases gj with
          | succ j => simp at hg
          | zero =>
            simp only [List.getElem?_cons_zero, Option.some.injEq] at hg
            subst hg
            cases ht
      · cases ho
example : ObjNoDegr false (1/2) 0 [fun _ => 3, fun k => if k = 0 then 7/2 else 1] := by
  intro a b sa sb hab ha hb
  have : a = 0 ∧ b = 1 := by
    have hb' := (List.getElem?_eq_some_iff.1 hb).1
    simp at hb'
    omega
  obtain ⟨rfl, rfl⟩ := this
  simp at ha hb
  subst ha hb
  simp
  norm_num

/-! ## the constraint bookkeeping of the code is the loop model

`Gen/GpBookkeeping.lean` (generated from /repo on every run by harness/translate_c02.py) proves the
statements of `__soft_to_hard_constraints`, of `optimize()` around the solve, of
`__add_subproblem_objective_constraint` and of `constraints()` / `path_constraints()` equal to the
statement-level reference `Model/C02Book.lean`; the theorems below prove that reference equal to the
functions `insertCriticals` / `convertAll` of which `runLoopM` (`store_monotone`, `C02_no_degradation`)
is composed. -/

/-- `__soft_to_hard_constraints(goals, sym, is_path_goal)`: the selected store of every member `m < E`
    becomes `convertAll` of that member's store with that member's solution (every non-critical goal enters
    once, through the hard-constraint conversion and `storeOther`; critical goals are skipped); nothing else
    — other members' indices, the other store, the row lists — is written.  `s m` is the solution of member
    `m` as the code reads it: violation variables from `self.__results[m]["[path_]eps_<sym>_<j>"]`, function
    values from `goal.function(self, m)` at the solver output. -/
theorem book_soft_to_hard_is_convertAll {ρ : Type} (o : HOpts) (E nT : Nat) (R : Reads) (sym : Nat) (p : Bool)
    (goals : List Goal) (B : Book ρ) (s : Nat → Sol)
    (heps : ∀ m j i, (s m).eps j i = R.results m (epsName p sym j) i)
    (hfv : ∀ m, ∀ g ∈ goals, ∀ i, (s m).fval g.fk i = R.fvalue m p g i) :
    softToHardRef o E nT R sym p goals B
      = B.putAll p (fun m => if m < E then convertAll o (nSteps p nT) (s m) (B.sel p m) goals else B.sel p m) := by
  unfold softToHardRef
  exact forRange_put p (fun m st => convertAll o (nSteps p nT) (s m) st goals) _
    (fun B' m => softToHard_inner o nT R sym p m (s m) (heps m) goals 0 B' (hfv m)) E B

/-- `_gp_update_constraint_store(store, hard_constraints)`: every member's store gets the critical goals
    through `storeSelf` (`insertCriticals`), nothing else is written -/
theorem book_insert_hard_is_insertCriticals {ρ : Type} (o : HOpts) (E nT : Nat) (p : Bool) (goals : List Goal)
    (B : Book ρ) :
    insertHard o E nT p p goals B
      = B.putAll p (fun m => if m < E then insertCriticals o (nSteps p nT) (B.sel p m) goals else B.sel p m) := by
  unfold insertHard
  exact forRange_put p (fun _ st => insertCriticals o (nSteps p nT) st goals) _ (fun _ _ => rfl) E B

/-- one pass of the default branch (`keep_soft_constraints` off) — `beforeSolveRef`, solve, `afterSolveRef` —
    is exactly the step function of `runLoopM` over the index set (member, point / path), for every member
    `m < E` and both stores -/
theorem book_pass_is_loop_step {ρ : Type} (o : HOpts) (E nT : Nat) (R : Reads) (i : Nat)
    (softOf : List Goal → Bool → Nat → List ρ) (goals pathGoals : List Goal) (row : ρ) (B : Book ρ)
    (s : Nat × Bool → Sol)
    (heps : ∀ p m j k, (s (m, p)).eps j k = R.results m (epsName p i j) k)
    (hfvp : ∀ m, ∀ g ∈ goals, ∀ k, (s (m, false)).fval g.fk k = R.fvalue m false g k)
    (hfvq : ∀ m, ∀ g ∈ pathGoals, ∀ k, (s (m, true)).fval g.fk k = R.fvalue m true g k)
    (p : Bool) (m : Nat) (hm : m < E) :
    (afterSolveRef o E nT R i false goals pathGoals row
        (beforeSolveRef o E nT softOf goals pathGoals B)).sel p m
      = convertAll o (nSteps p nT) (s (m, p))
          (insertCriticals o (nSteps p nT) (B.sel p m) (if p then pathGoals else goals))
          (if p then pathGoals else goals) := by
  unfold afterSolveRef beforeSolveRef
  simp only [Bool.false_eq_true, if_false]
  rw [book_soft_to_hard_is_convertAll o E nT R i true pathGoals _ (fun m => s (m, true)) (heps true) hfvq,
      book_soft_to_hard_is_convertAll o E nT R i false goals _ (fun m => s (m, false)) (heps false) hfvp,
      book_insert_hard_is_insertCriticals, book_insert_hard_is_insertCriticals]
  cases p <;> simp [Book.putAll, Book.sel, hm]

/-- the `keep_soft_constraints` branch leaves both stores of every member as they are: the soft rows of the
    priority are retained for each member and one objective row goes to the last member (its bounds:
    `objRow`, `C02_keep_soft_no_degradation`) -/
theorem book_keep_soft_stores_untouched {ρ : Type} (o : HOpts) (E nT : Nat) (R : Reads) (i : Nat)
    (goals pathGoals : List Goal) (row : ρ) (B : Book ρ) (hE : 0 < E) :
    let B' := afterSolveRef o E nT R i true goals pathGoals row B
    B'.point = B.point ∧ B'.path = B.path ∧ B'.sub = B.sub ∧ B'.subPath = B.subPath
      ∧ B'.prob (E - 1) = B.prob (E - 1) ++ B.sub (E - 1) ++ [row]
      ∧ (∀ m, m + 1 < E → B'.prob m = B.prob m ++ B.sub m)
      ∧ (∀ m, m < E → B'.probPath m = B.probPath m ++ B.subPath m) := by
  have key : ∀ n (B0 : Book ρ),
      let A := forRange n (fun (B : Book ρ) m =>
        { B with prob := upd B.prob m (B.prob m ++ B.sub m),
                 probPath := upd B.probPath m (B.probPath m ++ B.subPath m) }) B0
      A.point = B0.point ∧ A.path = B0.path ∧ A.sub = B0.sub ∧ A.subPath = B0.subPath
        ∧ (∀ m, A.prob m = if m < n then B0.prob m ++ B0.sub m else B0.prob m)
        ∧ (∀ m, A.probPath m = if m < n then B0.probPath m ++ B0.subPath m else B0.probPath m) := by
    intro n B0
    induction n with
    | zero => simp [forRange]
    | succ n ih =>
      have hstep : ∀ f : Book ρ → Nat → Book ρ, forRange (n + 1) f B0 = f (forRange n f B0) n := by
        intro f
        unfold forRange
        rw [List.range_succ, List.foldl_append]
        rfl
      simp only [hstep]
      obtain ⟨h1, h2, h3, h4, h5, h6⟩ := ih
      refine ⟨h1, h2, h3, h4, ?_, ?_⟩
      · intro m
        simp only [upd]
        by_cases hk : m = n
        · subst hk
          simp [h5, h3]
        · have : (m < n + 1) = (m < n) := by
            apply propext; constructor <;> intro h <;> omega
          simp [hk, h5, this]
      · intro m
        simp only [upd]
        by_cases hk : m = n
        · subst hk
          simp [h6, h4]
        · have : (m < n + 1) = (m < n) := by
            apply propext; constructor <;> intro h <;> omega
          simp [hk, h6, this]
  intro B'
  obtain ⟨h1, h2, h3, h4, h5, h6⟩ := key E B
  have hB' : B' = addObjectiveRef E row B := by
    simp [B', afterSolveRef]
  rw [hB']
  unfold addObjectiveRef
  refine ⟨h1, h2, h3, h4, ?_, ?_, ?_⟩
  · have : E - 1 < E := by omega
    simp [upd, h5, this]
  · intro m hm
    have h1' : m ≠ E - 1 := by omega
    have h2' : m < E := by omega
    simp [upd, h1', h5, h2']
  · intro m hm
    simp [h6, hm]

/-- the resets of `optimize()`: whatever an earlier `optimize()` on the same instance left behind, the
    first priority starts from empty stores and no retained rows, for every member -/
theorem book_reset_empty {ρ : Type} (B : Book ρ) (p : Bool) (m : Nat) :
    (resetRef B).sel p m = [] ∧ (resetRef B).prob m = [] ∧ (resetRef B).probPath m = [] := by
  cases p <;> simp [resetRef, Book.sel]

/-- `constraints(m)` / `path_constraints(m)` hand the transcription member `m`'s own store, the rows retained
    for member `m` and this priority's soft rows of member `m` — nothing of another member -/
theorem book_handed_own_member {ρ : Type} (B B' : Book ρ) (m : Nat)
    (h : B.point m = B'.point m ∧ B.path m = B'.path m ∧ B.prob m = B'.prob m ∧ B.probPath m = B'.probPath m
      ∧ B.sub m = B'.sub m ∧ B.subPath m = B'.subPath m) :
    constraintsRef B m = constraintsRef B' m ∧ pathConstraintsRef B m = pathConstraintsRef B' m := by
  obtain ⟨h1, h2, h3, h4, h5, h6⟩ := h
  simp [constraintsRef, pathConstraintsRef, h1, h2, h3, h4, h5, h6]

/-- non-vacuity: two members, priority index 0, the goal `x ≥ 2` of `Proofs/C02Example.lean`; member 1's
    results hold ε = 1/4, member 0's ε = 0: member 1's store gets `[-1, inf)`, member 0's `[2, inf)`, the path
    store stays empty -/
example :
    let R : Reads := { results := fun m _ _ => if m = 1 then 1/4 else 0,
                       fvalue := fun _ _ _ _ => -1 }
    let B0 : Book Unit := ⟨fun _ => [], fun _ => [], fun _ => [], fun _ => [], fun _ => [], fun _ => []⟩
    let B1 := softToHardRef {} 2 3 R 0 false [exG1] B0
    (B1.point 1).get ("x", 0) = some ⟨EVal.fin (-1), EVal.pinf⟩
    ∧ (B1.point 0).get ("x", 0) = some ⟨EVal.fin 2, EVal.pinf⟩
    ∧ B1.point 2 = [] ∧ B1.path 1 = [] := by
  decide +kernel

end RtcVerif.C02
