import RtcVerif.Model.C02Loop
/-! placeholder while the harness is brought up -/
namespace RtcVerif.C02
theorem placeholder : (1 : Nat) = 1 := rfl
end RtcVerif.C02
