import RtcVerif.Model.C03Subproblem
import RtcVerif.Model.C03Cert
import RtcVerif.Proofs.C03Cert
import RtcVerif.Proofs.C03Objective
import RtcVerif.Model.C03Closures
import RtcVerif.Proofs.C03Closures
import Mathlib.Algebra.Order.Field.Rat
import Mathlib.Tactic.Linarith
import Mathlib.Tactic.Ring
/-!
# C03 — each priority solves exactly the documented subproblem, to optimality

Part 1: the objective assembled per priority by the code-shaped model (objective functions per
goal, `n_active`, `n_objectives`, path objective per time stamp, probability-weighted member sum)
equals the documented formula, for every goal set / option combination; the coefficient table the
driver prints evaluates to it.

Part 2 (optimality certificate, proved once for all sizes).  The executable `lagrangianBound`
(Model/C03Cert.lean) is what the driver evaluates, in exact rationals, on the real transcribed
problem of every priority solved by the harness.
-/
namespace RtcVerif.C03

/-! ## Part 1 — the problem handed to the solver is the documented problem (objective) -/

/-- `_gp_n_objectives` (rows of the concatenated objective vectors, evaluated per member) is the
    documented count: the sizes of the priority's non-critical goals and path goals. -/
theorem C03_n_objectives (sbs : Bool) (T : Nat) (val : Val) (m : Nat) (goals pathGoals : List Goal) :
    nObjectives sbs T val m goals pathGoals = nGoalsDoc goals pathGoals :=
  nObjectives_eq sbs T val m goals pathGoals

/-- objective of one ensemble member in documented form -/
theorem memberObjective_documented (sbs : Bool) (T : Nat) (val : Val) (goals pathGoals : List Goal) (m : Nat) :
    memberObjective sbs T val goals pathGoals m
      = ((((indexed goals).filter (fun gj => !gj.1.critical)).map (docPoint val m)).sum
          + (((indexed pathGoals).filter (fun gj => !gj.1.critical)).map (docPath sbs T val m)).sum)
        / (if sbs then (nGoalsDoc goals pathGoals : Rat) else 1) :=
  memberObjective_doc sbs T val goals pathGoals m

/-- **The assembled objective is the documented one**, for every goal set (scalar / vector, target /
    minimisation / critical goals, any target shapes), every number of time steps and members, any
    probabilities, with and without `scale_by_problem_size`:
    `Σ_m p_m · ( Σ_goals Σ_c w·v^r + Σ_pathgoals Σ_c (Σ_t w·v^r) / n_active_c ) / n_objectives`,
    `v` = epsilon (target goals) or `f / nominal` (minimisation goals). -/
theorem C03_subproblem_is_documented (sbs : Bool) (T : Nat) (probs : List Rat) (val : Val)
    (goals pathGoals : List Goal) :
    objective sbs T probs val goals pathGoals = documented sbs T probs val goals pathGoals :=
  objective_eq_documented sbs T probs val goals pathGoals

/-- the coefficient table printed by the driver (one term per goal component, member and time
    step, divisors applied in the code's order) evaluates to the assembled objective -/
theorem C03_terms_eval (sbs : Bool) (T : Nat) (probs : List Rat) (val : Val) (goals pathGoals : List Goal) :
    evalTerms val (terms sbs T probs goals pathGoals) = objective sbs T probs val goals pathGoals := by
  unfold terms objective
  rw [evalTerms_flatMap]
  apply sum_map_congr'
  intro pm _
  simp only [memberTerms, evalTerms_append, evalTerms_flatMap, eval_goalTerms, nObjectives_eq,
    memberObjective, gpObjective_eq, vertcat_sum]
  rw [sum_map_mul_left', sum_map_div']
  have h : ∀ i, ((indexed pathGoals).map fun gj =>
        pm.1 * ((objVec sbs true T val pm.2 i gj).sum / (if sbs then (nGoalsDoc goals pathGoals : Rat) else 1))).sum
      = pm.1 * (((indexed pathGoals).map fun gj => (objVec sbs true T val pm.2 i gj).sum).sum
          / (if sbs then (nGoalsDoc goals pathGoals : Rat) else 1)) := by
    intro i; rw [sum_map_mul_left', sum_map_div']
  simp only [h]
  rw [sum_map_mul_left']; ring

/-- the table therefore evaluates to the documented formula -/
theorem C03_terms_documented (sbs : Bool) (T : Nat) (probs : List Rat) (val : Val) (goals pathGoals : List Goal) :
    evalTerms val (terms sbs T probs goals pathGoals) = documented sbs T probs val goals pathGoals := by
  rw [C03_terms_eval, C03_subproblem_is_documented]

/-- the divisor of a path target goal counts the time steps with a finite target on either side,
    per component, and never drops below one -/
theorem C03_n_active_counts (g : Goal) (T c : Nat) (hb : g.hasBounds = true) :
    g.nActive true true T c = ((max 1 ((List.range T).filter (fun i =>
        (g.tmin.entry c i).isFinite || (g.tmax.entry c i).isFinite)).length : Nat) : Rat)
    ∧ 1 ≤ g.nActive true true T c := by
  constructor
  · simp [Goal.nActive, hb, Goal.activeCount, Goal.activeAt, Nat.max_comm]
  · simp only [Goal.nActive, hb, Bool.and_self, if_true]
    exact_mod_cast Nat.le_max_right _ 1

/-- non-vacuity: two members, a point minimisation goal with nominal 10 and a size-2 vector path
    goal whose second component never has a finite target (guard `max(·,1)`), with
    `scale_by_problem_size`: the objective is non-trivial and equals the documented value -/
example :
    let g1 : Goal := { size := 1, weight := 2, order := 1, nominal := [10],
                       tmin := .scalar .nan, tmax := .scalar .nan, critical := false }
    let g2 : Goal := { size := 2, weight := 1, order := 2, nominal := [1],
                       tmin := .ts2 [[.fin 1, .nan], [.fin 2, .nan], [.nan, .nan]],
                       tmax := .scalar .nan, critical := false }
    let val : Val := fun isPath _ c m i => if isPath then (1 + c + m + i : Nat) / 4 else 5
    objective true 3 [1/4, 3/4] val [g1] [g2] = 587/384
      ∧ documented true 3 [1/4, 3/4] val [g1] [g2] = 587/384
      ∧ g2.nActive true true 3 0 = 2 ∧ g2.nActive true true 3 1 = 1
      ∧ nObjectives true 3 val 0 [g1] [g2] = 3 := by
  decide +kernel

/-- **Closure level.**  The objective lists of a priority are lists of closures `o(problem, ensemble_member)`
    (`closures`: one per non-critical goal, each evaluating ITS OWN goal, epsilon symbol and divisor for the member
    it is called with).  Evaluated the way `_gp_n_objectives`, `_gp_objective` (once) and `_gp_path_objective`
    (at every time step) evaluate them, they give the member objective of the theorems above — hence the documented
    formula.  The generated module `Gen/GpObjectiveFunc.lean` proves on every run that the closures read from the
    source are these. -/
theorem C03_closures_objective (sbs : Bool) (T : Nat) (val : Val) (goals pathGoals : List Goal) (m : Nat) :
    (let n := ((closures sbs false T val goals).flatMap (fun o => o m 0)).length
              + ((closures sbs true T val pathGoals).flatMap (fun o => o m 0)).length
     gpObjectiveCode sbs (fun o : Closure => o m 0) (closures sbs false T val goals) n
      + ((List.range T).map fun i =>
          gpObjectiveCode sbs (fun o : Closure => o m i) (closures sbs true T val pathGoals) n).sum)
      = ((((indexed goals).filter (fun gj => !gj.1.critical)).map (docPoint val m)).sum
          + (((indexed pathGoals).filter (fun gj => !gj.1.critical)).map (docPath sbs T val m)).sum)
        / (if sbs then (nGoalsDoc goals pathGoals : Rat) else 1) := by
  rw [← memberObjective_documented]
  simp only [nObjectives_closures, gpObjectiveCode_closures]
  rfl

/-- non-vacuity: a critical goal contributes no closure, the two others evaluate their own data
    (different weights, orders, nominals and positions `j`), per member and step -/
example :
    let g0 : Goal := { size := 1, weight := 1, order := 1, nominal := [1],
                       tmin := .scalar (.fin 0), tmax := .scalar .nan, critical := true }
    let g1 : Goal := { size := 2, weight := 3, order := 2, nominal := [1],
                       tmin := .ts2 [[.fin 1, .nan], [.fin 2, .nan], [.nan, .nan]], tmax := .scalar .nan,
                       critical := false }
    let g2 : Goal := { size := 1, weight := 2, order := 1, nominal := [10],
                       tmin := .scalar .nan, tmax := .scalar .nan, critical := false }
    let val : Val := fun isPath j c m i => if isPath then (1 + 2 * j + c + 3 * m + 5 * i : Nat) else 0
    (closures true true 3 val [g0, g1, g2]).map (fun o => o 1 2) = [[384, 867], [6 / 5]]
      ∧ (closures true true 3 val [g0, g1, g2]).map (fun o => o 0 1) = [[96, 243], [2 / 3]] := by
  decide +kernel

/-! ## Part 2 — optimality certificate -/

/-- **Weak duality for arbitrary multipliers.**  For the LP
    `min c·x + c0  s.t.  lo ≤ Ax + b0 ≤ hi,  lb ≤ x ≤ ub` (infinite bounds allowed) and ANY
    multiplier pairs `ys`: whenever the executable bound returns a value `L`, every feasible `x`
    has `L ≤ c·x + c0`.  (`none` is returned for a negative multiplier, a multiplier on an infinite
    side, a reduced cost pointing to an infinite column bound, or malformed input.) -/
theorem lagrangian_lower_bound (P : LP) (ys : List (Rat × Rat)) (L : Rat) (x : List Rat)
    (hL : lagrangianBound P ys = some L) (hx : P.feasible x = true) : L ≤ P.objective x := by
  unfold lagrangianBound at hL
  split at hL
  · next hwf =>
    simp only [Option.bind_eq_bind, Option.pure_def, Option.bind_eq_some_iff, Option.some.injEq] at hL
    obtain ⟨R, hR, B, hB, hLeq⟩ := hL
    simp only [LP.wf, Bool.and_eq_true, decide_eq_true_eq] at hwf
    simp only [LP.feasible, Bool.and_eq_true] at hx
    have h1 := rowPart_le P.rows ys x R hR hx.2
    have h2 := boxPart_le _ P.cols x B hB hx.1
    rw [dot_reduced P.c P.rows ys x hwf.2] at h2
    simp only [LP.objective]
    rw [← hLeq]; linarith
  · cases hL

/-- **Tangent bound for order-2 objectives.**  For a quadratic objective
    `c·x + c0 + Σ_k κ_k (a_k·x + d_k)²` with `κ_k ≥ 0` the affine objective of `tangentLP P xt`
    minorises it everywhere (and touches it at `xt`, next theorem). -/
theorem convex_tangent_bound (P : QP) (xt x : List Rat) (hwf : P.wf = true) :
    (P.tangentLP xt).objective x ≤ P.objective x := by
  simp only [QP.wf, Bool.and_eq_true, List.all_eq_true, decide_eq_true_eq] at hwf
  have hk : P.sqs.all (fun s => decide (0 ≤ s.kappa)) = true := by
    simp only [List.all_eq_true, decide_eq_true_eq]; exact fun s hs => (hwf.2 s hs).1
  have hr : P.sqs.all (fun s => rowInRange P.c.length s.coefs) = true := by
    simp only [List.all_eq_true]; exact fun s hs => (hwf.2 s hs).2
  have h := tangent_sum_le P.sqs xt x hk
  simp only [QP.tangentLP, LP.objective, QP.objective, tangentC0]
  rw [dot_tangentC P.c P.sqs xt x hr]
  linarith

theorem convex_tangent_exact (P : QP) (xt : List Rat) (hwf : P.wf = true) :
    (P.tangentLP xt).objective xt = P.objective xt := by
  simp only [QP.wf, Bool.and_eq_true, List.all_eq_true, decide_eq_true_eq] at hwf
  have hr : P.sqs.all (fun s => rowInRange P.c.length s.coefs) = true := by
    simp only [List.all_eq_true]; exact fun s hs => (hwf.2 s hs).2
  have h := tangent_sum_eq P.sqs xt
  simp only [QP.tangentLP, LP.objective, QP.objective, tangentC0]
  rw [dot_tangentC P.c P.sqs xt xt hr]
  linarith

/-- **Lower bound for the convex QP**: what the driver evaluates for order-2 priorities. -/
theorem qp_lower_bound (P : QP) (xt : List Rat) (ys : List (Rat × Rat)) (L : Rat) (x : List Rat)
    (hL : qpBound P xt ys = some L) (hx : P.toLP.feasible x = true) : L ≤ P.objective x := by
  unfold qpBound at hL
  split at hL
  · next h =>
    simp only [Bool.and_eq_true, decide_eq_true_eq] at h
    have hfeas : (P.tangentLP xt).feasible x = true := hx
    exact le_trans (lagrangian_lower_bound _ ys L x hL hfeas) (convex_tangent_bound P xt x h.1)
  · cases hL

/-- the bound is tight at an optimal primal-dual pair: non-vacuity of the certificate
    (`min x₀ + x₁  s.t.  x₀ + x₁ ≥ 1, 0 ≤ x ≤ 10`, multiplier 1: `L = 1`, attained at `(1, 0)`) -/
example :
    let P : LP := { c := [1, 1], c0 := 0,
                    rows := [{ coefs := [(0, 1), (1, 1)], b0 := 0, lo := .fin 1, hi := .pinf }],
                    cols := [{ lb := .fin 0, ub := .fin 10 }, { lb := .fin 0, ub := .fin 10 }] }
    lagrangianBound P [(1, 0)] = some 1 ∧ P.feasible [1, 0] = true ∧ P.objective [1, 0] = 1 := by
  decide +kernel

/-- order-2 instance: `min x₀² + x₁²  s.t.  x₀ + x₁ ≥ 1`: bound `1/2` at `xt = (1/2, 1/2)`, attained -/
example :
    let P : QP := { c := [0, 0], c0 := 0,
                    rows := [{ coefs := [(0, 1), (1, 1)], b0 := 0, lo := .fin 1, hi := .pinf }],
                    cols := [{ lb := .ninf, ub := .pinf }, { lb := .ninf, ub := .pinf }],
                    sqs := [{ kappa := 1, coefs := [(0, 1)], d := 0 }, { kappa := 1, coefs := [(1, 1)], d := 0 }] }
    qpBound P [1/2, 1/2] [(1, 0)] = some (1/2) ∧ P.toLP.feasible [1/2, 1/2] = true
      ∧ P.objective [1/2, 1/2] = 1/2 := by
  decide +kernel

/-- a multiplier on an infinite side or a wrong sign yields no bound (the totalised definition
    does not make the theorem true for the wrong reason) -/
example :
    let P : LP := { c := [1], c0 := 0, rows := [{ coefs := [(0, 1)], b0 := 0, lo := .fin 1, hi := .pinf }],
                    cols := [{ lb := .ninf, ub := .pinf }] }
    lagrangianBound P [(0, 1)] = none ∧ lagrangianBound P [(-1, 0)] = none
      ∧ lagrangianBound P [(1/2, 0)] = none ∧ lagrangianBound P [(1, 0)] = some 1 := by
  decide +kernel

end RtcVerif.C03
