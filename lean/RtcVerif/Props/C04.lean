import RtcVerif.Model.C04Goals
import RtcVerif.Model.C04Store
import RtcVerif.Model.C04Json
import RtcVerif.Proofs.C04Validate
import RtcVerif.Proofs.C04Store
import RtcVerif.Proofs.C04Rows
import RtcVerif.Proofs.C04Elem
import RtcVerif.Proofs.C04Code
import RtcVerif.Proofs.C04Inputs
import Mathlib.Algebra.Order.Field.Basic
import Mathlib.Tactic.Linarith
import Mathlib.Tactic.Ring
import Mathlib.Tactic.NormNum
/-!
# C04 — target goals stay inside their epsilon envelope; critical goals are hard; ill-formed
goals are rejected before any solve

Model: `Model/C04Goals.lean` (goals, validation, soft rows), `Model/C04Store.lean` (store).
Helper lemmas: `Proofs/C04Validate.lean`, `Proofs/C04Store.lean`.
-/
namespace RtcVerif.C04
open RtcVerif

/-! ## envelope -/

/-- **Envelope.**  For a positive nominal, wherever the lower soft row `≥ 0` and the upper soft
    row `≤ 0` hold (the constraints the solver is given), the goal function lies in
    `[m_t + ε(m - m_t), M_t + ε(M - M_t)]`.  (`0 ≤ ε ≤ 1` are the variable's bounds `epsBounds`;
    they are needed only for the corollary `C04_within_range`.) -/
theorem C04_envelope (tm tM f eps lo hi nom : Rat) (hnom : 0 < nom)
    (hm : qabs tm < floatMax) (hM : qabs tM < floatMax)
    (hlow : 0 ≤ softRow (XVal.e (EVal.fin tm)) f eps lo nom)
    (hup : softRow (XVal.e (EVal.fin tM)) f eps hi nom ≤ 0) :
    tm + eps * (lo - tm) ≤ f ∧ f ≤ tM + eps * (hi - tM) := by
  rw [softRow_active _ _ _ _ _ hm] at hlow
  rw [softRow_active _ _ _ _ _ hM] at hup
  have h1 : 0 ≤ f - eps * (lo - tm) - tm := by
    have := mul_nonneg hlow (le_of_lt hnom)
    rwa [div_mul_cancel₀ _ (ne_of_gt hnom)] at this
  have h2 : f - eps * (hi - tM) - tM ≤ 0 := by
    have := mul_nonpos_of_nonpos_of_nonneg hup (le_of_lt hnom)
    rwa [div_mul_cancel₀ _ (ne_of_gt hnom)] at this
  constructor <;> linarith

/-- `ε = 0` means the target is met. -/
theorem C04_eps_zero_target_met (tm tM f lo hi nom : Rat) (hnom : 0 < nom)
    (hm : qabs tm < floatMax) (hM : qabs tM < floatMax)
    (hlow : 0 ≤ softRow (XVal.e (EVal.fin tm)) f 0 lo nom)
    (hup : softRow (XVal.e (EVal.fin tM)) f 0 hi nom ≤ 0) : tm ≤ f ∧ f ≤ tM := by
  have := C04_envelope tm tM f 0 lo hi nom hnom hm hM hlow hup
  simpa using this

/-- with validated targets (`m ≤ m_t`, `M_t ≤ M`) and `0 ≤ ε ≤ 1` the function never leaves its
    declared range (only `ε ≤ 1` is needed). -/
theorem C04_within_range (tm tM f eps lo hi nom : Rat) (hnom : 0 < nom)
    (hm : qabs tm < floatMax) (hM : qabs tM < floatMax) (he1 : eps ≤ 1)
    (hlo : lo ≤ tm) (hhi : tM ≤ hi)
    (hlow : 0 ≤ softRow (XVal.e (EVal.fin tm)) f eps lo nom)
    (hup : softRow (XVal.e (EVal.fin tM)) f eps hi nom ≤ 0) : lo ≤ f ∧ f ≤ hi := by
  obtain ⟨h1, h2⟩ := C04_envelope tm tM f eps lo hi nom hnom hm hM hlow hup
  constructor
  · nlinarith
  · nlinarith

example : 0 ≤ softRow (XVal.e (EVal.fin 2)) 1 (1/2) (-10) 2
    ∧ softRow (XVal.e (EVal.fin 5)) 1 (1/2) 10 2 ≤ 0 := by
  simp only [softRow, qabs, floatMax]; norm_num

/-! ### the rows of a (vector) goal, component-wise -/

/-- **Envelope for the rows the model hands to the solver, component-wise (vector goals).**
    If every row of `softRows g n fs eps` is within its bounds, then for every component `c` and
    step `i` with a finite lower (upper) target the envelope inequality holds. -/
theorem C04_envelope_rows (g : Goal) (n : Nat) (fs eps : List (List Rat))
    (hrows : ∀ r ∈ softRows g n fs eps, r.lb ≤ EVal.fin r.val ∧ EVal.fin r.val ≤ r.ub)
    (c i : Nat) (hc : c < g.size) (hi : i < n) (hnom : 0 < g.nomAt c) :
    (∀ tm lo, g.hasMin = true → g.mAt c i = XVal.e (EVal.fin tm) → qabs tm < floatMax →
        g.loAt c = XVal.e (EVal.fin lo) → tm + getF eps c i * (lo - tm) ≤ getF fs c i) ∧
    (∀ tM hi', g.hasMax = true → g.MAt c i = XVal.e (EVal.fin tM) → qabs tM < floatMax →
        g.hiAt c = XVal.e (EVal.fin hi') → getF fs c i ≤ tM + getF eps c i * (hi' - tM)) := by
  constructor
  · intro tm lo hmin htm habs hlo
    have hk := keepMin_of_finite g n c i hi tm htm
    have hany : (List.range g.size).any (g.keepMin n) = true :=
      List.any_eq_true.2 ⟨c, List.mem_range.2 hc, hk⟩
    have hmem : (⟨softRow (g.minSym c i) (getF fs c i) (getF eps c i) lo (g.nomAt c), .fin 0, .pinf⟩ : Row)
        ∈ softRows g n fs eps := by
      simp only [softRows, hmin, hany, Bool.and_self, if_true, List.mem_append, List.mem_flatMap,
        List.mem_filter, List.mem_range, List.mem_map]
      left
      exact ⟨c, ⟨hc, hk⟩, i, hi, by simp [hlo]⟩
    have h0 := (hrows _ hmem).1
    simp only [Goal.minSym, htm, sentinelMin_fin] at h0
    have h0' : 0 ≤ softRow (XVal.e (EVal.fin tm)) (getF fs c i) (getF eps c i) lo (g.nomAt c) :=
      (EVal.le_fin_fin _ _).1 h0
    rw [softRow_active _ _ _ _ _ habs] at h0'
    have := mul_nonneg h0' (le_of_lt hnom)
    rw [div_mul_cancel₀ _ (ne_of_gt hnom)] at this
    linarith
  · intro tM hi' hmax htM habs hhi
    have hk := keepMax_of_finite g n c i hi tM htM
    have hany : (List.range g.size).any (g.keepMax n) = true :=
      List.any_eq_true.2 ⟨c, List.mem_range.2 hc, hk⟩
    have hmem : (⟨softRow (g.maxSym c i) (getF fs c i) (getF eps c i) hi' (g.nomAt c), .ninf, .fin 0⟩ : Row)
        ∈ softRows g n fs eps := by
      simp only [softRows, hmax, hany, Bool.and_self, if_true, List.mem_append, List.mem_flatMap,
        List.mem_filter, List.mem_range, List.mem_map]
      right
      exact ⟨c, ⟨hc, hk⟩, i, hi, by simp [hhi]⟩
    have h0 := (hrows _ hmem).2
    simp only [Goal.maxSym, htM, sentinelMax_fin] at h0
    have h0' : softRow (XVal.e (EVal.fin tM)) (getF fs c i) (getF eps c i) hi' (g.nomAt c) ≤ 0 :=
      (EVal.le_fin_fin _ _).1 h0
    rw [softRow_active _ _ _ _ _ habs] at h0'
    have := mul_nonpos_of_nonpos_of_nonneg h0' (le_of_lt hnom)
    rw [div_mul_cancel₀ _ (ne_of_gt hnom)] at this
    linarith

/-- non-vacuity of `C04_envelope_rows`: x ≥ 2 wanted on two steps (range (-10, 10), nominal 2), the
    second step inactive (NaN): with f = (3, 4) and ε = (1/2, 0) every row is within its bounds -/
example : ∀ r ∈ softRows { fk := "k", tmin := .series [[.fin 2, .nan]], rangeLo := [.fin (-10)],
                           rangeHi := [.fin 10], rangeDefault := false, nominal := [2] }
      2 [[3, 4]] [[1/2, 0]], r.lb ≤ EVal.fin r.val ∧ EVal.fin r.val ≤ r.ub := by
  decide +kernel

/-! ## inactive steps -/

/-- **A step whose target is NaN or ±inf imposes nothing**: with the `∓float_max` sentinel the
    code substitutes (arrays, Timeseries) or without it (scalars) the soft row is the constant `0`,
    whatever the goal function and the violation variable are — and `0` satisfies both row bounds
    `[0, inf)` and `(-inf, 0]`. -/
theorem C04_inactive_steps_free (isArr : Bool) (v : XVal) (hv : v.isFinite = false)
    (f eps b nom : Rat) :
    softRow (sentinelMin isArr v) f eps b nom = 0 ∧ softRow (sentinelMax isArr v) f eps b nom = 0 := by
  have hq : ¬ qabs (-floatMax) < floatMax := by simp only [qabs, floatMax]; norm_num
  have hq' : ¬ qabs floatMax < floatMax := by simp only [qabs, floatMax]; norm_num
  cases v with
  | nan => cases isArr <;> simp [sentinelMin, sentinelMax, softRow, XVal.fin, hq, hq']
  | e x =>
    cases x with
    | fin q => simp [XVal.isFinite] at hv
    | ninf =>
      cases isArr <;> simp [sentinelMin, sentinelMax, softRow, XVal.fin, XVal.ninf, hq]
    | pinf =>
      cases isArr <;> simp [sentinelMin, sentinelMax, softRow, XVal.fin, XVal.pinf, hq']

/-- the components a vector goal drops from its lower (upper) constraint have no finite target at
    any step: nothing but constant-zero rows is removed -/
theorem C04_dropped_components_inactive (g : Goal) (n c : Nat) :
    (g.keepMin n c = false → ∀ i < n, (g.mAt c i).isFinite = false) ∧
    (g.keepMax n c = false → ∀ i < n, (g.MAt c i).isFinite = false) := by
  constructor
  · intro hk i hi
    cases hf : (g.mAt c i).isFinite with
    | false => rfl
    | true =>
      obtain ⟨q, hq⟩ := (isFinite_iff _).1 hf
      rw [keepMin_of_finite g n c i hi q hq] at hk
      cases hk
  · intro hk i hi
    cases hf : (g.MAt c i).isFinite with
    | false => rfl
    | true =>
      obtain ⟨q, hq⟩ := (isFinite_iff _).1 hf
      rw [keepMax_of_finite g n c i hi q hq] at hk
      cases hk

example : softRow (sentinelMin true .nan) 123 (1/3) (-10) 2 = 0 := by
  simp only [sentinelMin, softRow, XVal.fin, qabs, floatMax]; norm_num

/-! ## validation -/

/-- **`validate = ok ↔ WellFormed`**: the validation accepts a goal list exactly when every goal
    satisfies the documented conditions (`GoalDefOK`, `GoalTargetsOK`) and — with
    `check_monotonicity` — the targets of every function key are monotone in priority order
    (`MonoChain` over the stable priority sort). -/
theorem C04_validate_sound_complete (o : Opts) (isPath : Bool) (nTimes : Nat) (goals : List Goal)
    (hshape : ∀ g ∈ goals, g.ShapeOK) :
    validate o isPath nTimes goals = none ↔ WellFormed o isPath nTimes goals := by
  simp only [validate, firstErr_none, List.mem_cons, List.not_mem_nil, or_false, forall_eq_or_imp,
    forall_eq, firstOf_none, mem_sortByPriority]
  have hfin : ∀ g ∈ goals, GoalDefOK o isPath g →
      (g.critical = false → g.hasTargetBounds = true →
        ∀ c < g.size, (g.loAt c).isFinite = true ∧ (g.hiAt c).isFinite = true) := by
    intro g hg hd hc ht c hcs
    obtain ⟨f1, f2⟩ := hd.range_finite hc ht
    exact ⟨f1 _ (getB_mem g.rangeLo c .nan g.size hcs (hshape g hg).rangeLo_len),
      f2 _ (getB_mem g.rangeHi c .nan g.size hcs (hshape g hg).rangeHi_len)⟩
  constructor
  · rintro ⟨h1, h2, h3⟩
    have hd : ∀ g ∈ goals, GoalDefOK o isPath g :=
      fun g hg => (checkDef_none o isPath g (hshape g hg)).1 (h1 g hg)
    refine ⟨hd, ?_, ?_⟩
    · intro hm
      rw [if_pos hm] at h2
      exact (monoWalk_none_iff_chain _ _).1 h2
    · intro g hg
      exact (checkTargets_none _ g (hfin g hg (hd g hg))).1 (h3 g hg)
  · intro h
    refine ⟨?_, ?_, ?_⟩
    · intro g hg
      exact (checkDef_none o isPath g (hshape g hg)).2 (h.defs g hg)
    · by_cases hm : o.checkMonotonicity = true
      · rw [if_pos hm]
        exact (monoWalk_none_iff_chain _ _).2 (h.mono hm)
      · rw [if_neg hm]
    · intro g hg
      exact (checkTargets_none _ g (hfin g hg (h.defs g hg))).2 (h.targets g hg)

/-- both validation calls of `optimize()` -/
theorem C04_validateAll_sound_complete (o : Opts) (nTimes : Nat) (goals pathGoals : List Goal)
    (hs1 : ∀ g ∈ goals, g.ShapeOK) (hs2 : ∀ g ∈ pathGoals, g.ShapeOK) :
    validateAll o nTimes goals pathGoals = none ↔
      WellFormed o false nTimes goals ∧ WellFormed o true nTimes pathGoals := by
  simp only [validateAll, firstErr_none, List.mem_cons, List.not_mem_nil, or_false, forall_eq_or_imp,
    forall_eq]
  rw [C04_validate_sound_complete o false nTimes goals hs1,
    C04_validate_sound_complete o true nTimes pathGoals hs2]

/-- the walk order of the validation is a stable-insertion sort by priority -/
theorem C04_validation_order (goals : List Goal) :
    (sortByPriority goals).Perm goals ∧
      (sortByPriority goals).Pairwise (fun a b => a.priority ≤ b.priority) :=
  ⟨sortByPriority_perm goals, sortByPriority_sorted goals⟩

/-- **Ill-formed goals are rejected before any solve**: when the validation fails, `optimize()`
    ends with that exception whatever the priority loop would have done — no event of the loop
    (no `started`, no `solve`) happens. -/
theorem rejected_before_any_solve (o : Opts) (nTimes : Nat) (goals pathGoals : List Goal)
    (loop : Unit → List Event × Bool) (e : Err)
    (h : validateAll o nTimes goals pathGoals = some e) :
    optimize o nTimes goals pathGoals loop = .error e := by
  simp [optimize, h]

/-- conversely the loop runs exactly when the validation passes -/
theorem accepted_iff_loop_runs (o : Opts) (nTimes : Nat) (goals pathGoals : List Goal)
    (loop : Unit → List Event × Bool) :
    (∃ r, optimize o nTimes goals pathGoals loop = .ok r) ↔
      validateAll o nTimes goals pathGoals = none := by
  unfold optimize
  cases validateAll o nTimes goals pathGoals <;> simp

/-- a concrete well-formed goal (x ≥ 2 wanted, range (-10, 10)) and ill-formed variants -/
example : validate {} true 3
    [{ fk := "k", tmin := .scalar (.fin 2), rangeLo := [.fin (-10)], rangeHi := [.fin 10],
       rangeDefault := false }] = none := by decide
example : validate {} true 3
    [{ fk := "k", tmin := .scalar (.fin (-10)), rangeLo := [.fin (-10)], rangeHi := [.fin 10],
       rangeDefault := false }] = some .tminLeLb := by decide
example : validate {} true 3 [{ fk := "k", nominal := [0] }] = some .nominal := by decide
example : validate {} true 2
    [{ fk := "k", priority := 2, tmin := .scalar (.fin 1), rangeLo := [.fin (-10)],
       rangeHi := [.fin 10], rangeDefault := false },
     { fk := "k", priority := 1, tmin := .scalar (.fin 2), rangeLo := [.fin (-10)],
       rangeHi := [.fin 10], rangeDefault := false }]
    = some .monoMin := by decide

/-- the well-formedness predicate is satisfiable (through the theorem) -/
example : WellFormed {} true 3
    [{ fk := "k", tmin := .scalar (.fin 2), rangeLo := [.fin (-10)], rangeHi := [.fin 10],
       rangeDefault := false }] :=
  (C04_validate_sound_complete {} true 3 _ (by
      intro g hg
      simp only [List.mem_cons, List.mem_nil_iff, or_false] at hg
      subst hg
      exact ⟨Or.inl rfl, Or.inl rfl⟩)).1 (by decide)

/-! ## critical goals -/

/-- the hard interval of a critical goal at a step with finite targets lies inside
    `[(m_t - relaxation)/nom - cr, (M_t + relaxation)/nom + cr]`; in particular inside
    `[m_t/nom, M_t/nom]` when no relaxation is configured — also after equality folding. -/
theorem C04_critical_interval (o : HOpts) (g : Goal) (eps : Rat) (i : Nat) (tm tM : Rat)
    (hcrit : g.critical = true) (hmin : g.hasMin = true) (hmax : g.hasMax = true)
    (htm : g.mAt 0 i = XVal.e (EVal.fin tm)) (htM : g.MAt 0 i = XVal.e (EVal.fin tM))
    (hle : tm ≤ tM) (hnom : 0 < g.nomAt 0) (hrel : 0 ≤ g.relaxation)
    (hcr : 0 ≤ o.constraintRelaxation) :
    (hardTargetStep o g eps i).sub
        ⟨EVal.fin ((tm - g.relaxation) / g.nomAt 0 - o.constraintRelaxation),
         EVal.fin ((tM + g.relaxation) / g.nomAt 0 + o.constraintRelaxation)⟩
      ∧ (hardTargetStep o g eps i).ok := by
  have hab : (tm - g.relaxation) / g.nomAt 0 ≤ (tM + g.relaxation) / g.nomAt 0 := by
    apply div_le_div_of_nonneg_right _ (le_of_lt hnom)
    linarith
  have hlo : targetLo g eps i = EVal.fin ((tm - g.relaxation) / g.nomAt 0) := by
    simp [targetLo, hcrit, hmin, htm, finOr]
  have hhi : targetHi g eps i = EVal.fin ((tM + g.relaxation) / g.nomAt 0) := by
    simp [targetHi, hcrit, hmax, htM, finOr]
  simp only [hardTargetStep, hlo, hhi, foldEq]
  split
  · simp only [subFin, addFin, Ivl.sub, Ivl.ok, EVal.le_fin_fin]
    refine ⟨⟨?_, ?_⟩, ?_⟩ <;> linarith
  · simp only [subFin, addFin, Ivl.sub, Ivl.ok, EVal.le_fin_fin]
    refine ⟨⟨?_, ?_⟩, ?_⟩ <;> linarith

/-- one-sided critical goals (only `target_min`, or only `target_max`, finite at this step) -/
theorem C04_critical_interval_min (o : HOpts) (g : Goal) (eps : Rat) (i : Nat) (tm : Rat)
    (hcrit : g.critical = true) (hmin : g.hasMin = true)
    (htm : g.mAt 0 i = XVal.e (EVal.fin tm)) (hM : (g.hasMax && (g.MAt 0 i).isFinite) = false) :
    hardTargetStep o g eps i =
      ⟨EVal.fin ((tm - g.relaxation) / g.nomAt 0 - o.constraintRelaxation), EVal.pinf⟩ := by
  have hlo : targetLo g eps i = EVal.fin ((tm - g.relaxation) / g.nomAt 0) := by
    simp [targetLo, hcrit, hmin, htm, finOr]
  have hhi : targetHi g eps i = EVal.pinf := by
    unfold targetHi
    cases hh : g.hasMax with
    | false => simp
    | true =>
      simp only [hh, Bool.true_and] at hM
      cases hv : g.MAt 0 i with
      | nan => simp [finOr]
      | e x => cases x with
        | fin q => simp [hv, XVal.isFinite] at hM
        | ninf => simp [finOr]
        | pinf => simp [finOr]
  simp [hardTargetStep, hlo, hhi, foldEq, subFin, addFin]

theorem C04_critical_interval_max (o : HOpts) (g : Goal) (eps : Rat) (i : Nat) (tM : Rat)
    (hcrit : g.critical = true) (hmax : g.hasMax = true)
    (htM : g.MAt 0 i = XVal.e (EVal.fin tM)) (hm : (g.hasMin && (g.mAt 0 i).isFinite) = false) :
    hardTargetStep o g eps i =
      ⟨EVal.ninf, EVal.fin ((tM + g.relaxation) / g.nomAt 0 + o.constraintRelaxation)⟩ := by
  have hhi : targetHi g eps i = EVal.fin ((tM + g.relaxation) / g.nomAt 0) := by
    simp [targetHi, hcrit, hmax, htM, finOr]
  have hlo : targetLo g eps i = EVal.ninf := by
    unfold targetLo
    cases hh : g.hasMin with
    | false => simp
    | true =>
      simp only [hh, Bool.true_and] at hm
      cases hv : g.mAt 0 i with
      | nan => simp [finOr]
      | e x => cases x with
        | fin q => simp [hv, XVal.isFinite] at hm
        | ninf => simp [finOr]
        | pinf => simp [finOr]
  simp [hardTargetStep, hlo, hhi, foldEq, subFin, addFin]

/-- the mask code of `_gp_goal_hard_constraint` for a critical goal (`epsilon = 0`;
    `Gen/HardConstraint.lean` proves the source equal to `hardElemX` on every run) is
    `hardTargetStep … 0`, for any `violation_tolerance ≥ 0` -/
theorem C04_critical_mask_code_is_model (o : HOpts) (g : Goal) (v : Rat) (i : Nat) (vt : XVal)
    (ht : g.hasTargetBounds = true) (hc : g.critical = true) (hnom : g.nomAt 0 ≠ 0)
    (hvt : xlt vt (XVal.fin 0) = false) :
    hardElemX 0 (g.mAt 0 i) (g.MAt 0 i) (g.loAt 0) (g.hiAt 0) g.relaxation (g.nomAt 0) g.critical
        g.hasMin g.hasMax g.hasTargetBounds o.equalityThreshold o.constraintRelaxation vt
        o.fixMinimizedValues v
      = (XVal.e (hardTargetStep o g 0 i).lo, XVal.e (hardTargetStep o g 0 i).hi) :=
  hardElemX_target o g 0 v i vt ht hnom (Or.inl hc) hvt

/-- **Critical goals are hard.**  Once a critical goal's interval `crit` has been put into the
    store — into an empty slot, or merged (`enforce="self"`) with an existing entry that shares a
    point with it — the entry of that function key stays inside `crit` under every later sequence
    of store operations (soft-to-hard conversions of later goals, further critical goals); hence
    every later solver answer, which satisfies the store's rows, meets the goal exactly. -/
theorem C04_critical_hard (existing : Option EIvl) (crit : EIvl) (hc : crit.ok)
    (hex : ∀ s, existing = some s → ∃ x, Ivl.mem x s ∧ Ivl.mem x crit)
    (ops : List (EIvl × Bool)) (x : EVal)
    (hx : Ivl.mem x (applyOps (critEntry existing crit) ops)) : Ivl.mem x crit := by
  obtain ⟨h1, h2⟩ := critEntry_sub existing crit hc hex
  exact Ivl.mem_of_sub h1 (Ivl.mem_of_sub (applyOps_sub ops _ h2).1 hx)

/-- end to end for a two-sided critical goal without relaxations: a later solution's scaled
    function value `x` in the store entry satisfies `m_t ≤ x·nom ≤ M_t`. -/
theorem C04_critical_met (o : HOpts) (g : Goal) (i : Nat) (tm tM : Rat)
    (hcrit : g.critical = true) (hmin : g.hasMin = true) (hmax : g.hasMax = true)
    (htm : g.mAt 0 i = XVal.e (EVal.fin tm)) (htM : g.MAt 0 i = XVal.e (EVal.fin tM))
    (hle : tm ≤ tM) (hnom : 0 < g.nomAt 0) (hrel : g.relaxation = 0) (hcr : o.constraintRelaxation = 0)
    (existing : Option EIvl)
    (hex : ∀ s, existing = some s → ∃ x, Ivl.mem x s ∧ Ivl.mem x (hardTargetStep o g 0 i))
    (ops : List (EIvl × Bool)) (x : Rat)
    (hx : Ivl.mem (EVal.fin x) (applyOps (critEntry existing (hardTargetStep o g 0 i)) ops)) :
    tm ≤ x * g.nomAt 0 ∧ x * g.nomAt 0 ≤ tM := by
  obtain ⟨hsub, hok⟩ := C04_critical_interval o g 0 i tm tM hcrit hmin hmax htm htM hle hnom (by rw [hrel]) (by rw [hcr])
  have hm := Ivl.mem_of_sub hsub (C04_critical_hard existing _ hok hex ops _ hx)
  simp only [Ivl.mem, hrel, hcr, sub_zero, add_zero, EVal.le_fin_fin] at hm
  obtain ⟨h1, h2⟩ := hm
  constructor
  · have := (div_le_iff₀ hnom).1 h1
    linarith
  · have := (le_div_iff₀ hnom).1 h2
    linarith

/-- **F27 (known finding): the intersection hypothesis of `C04_critical_hard` is needed.**  An
    earlier retained bound `x ≤ 5` merged with a critical `x ≥ 6` gives the entry `[5, 5]`: the
    critical goal is not met and nothing fails. -/
theorem C04_critical_disjoint_witness :
    critEntry (some (⟨EVal.ninf, EVal.fin 5⟩ : EIvl)) ⟨EVal.fin 6, EVal.pinf⟩ = ⟨EVal.fin 5, EVal.fin 5⟩
      ∧ ¬ Ivl.mem (EVal.fin 5) (⟨EVal.fin 6, EVal.pinf⟩ : EIvl) := by
  constructor
  · decide
  · simp [Ivl.mem]
    norm_num

/-- non-vacuity: store `[2, inf)` (an earlier goal x ≥ 2), critical `(-inf, 8]`, then a later
    soft-to-hard conversion `[0, 3]`: the entry ends as `[2, 3] ⊆ (-inf, 8]` -/
example : applyOps (critEntry (some (⟨EVal.fin 2, EVal.pinf⟩ : EIvl)) ⟨EVal.ninf, EVal.fin 8⟩)
    [(⟨EVal.fin 0, EVal.fin 3⟩, false)] = ⟨EVal.fin 2, EVal.fin 3⟩ := by decide

/-! ## the source, as translated on every run (`Gen/GoalCode.lean` = the references below)

`harness/translate_c04.py` (`gen_goal_code`) re-generates `validateGen`, `minArrGen` / `maxArrGen`,
`softRowsGen`, … from `goal_programming_mixin_base.py` on every run and proves them equal to the code-level
references `validateRef`, `minArrRef` / `maxArrRef`, `softRowsRef`, … of `Model/C04Code.lean`.  The theorems of
this section connect those references to the model every theorem above is about. -/

/-- **`_gp_validate_goals`, as written, is `validate`**: the chain of checks in source order (nesting of the
    `if` statements, NaN masks in front of the comparisons, the function-key walk) raises exactly the error
    the model returns, for path and non-path goals and all option values. -/
theorem C04_validate_code_is_model (o : Opts) (isPath : Bool) (nTimes : Nat) (goals : List Goal) :
    validateRef o isPath nTimes goals = validate o isPath nTimes goals :=
  validateRef_eq o isPath nTimes goals

/-- hence the code accepts exactly the well-formed goal sets -/
theorem C04_validate_code_sound_complete (o : Opts) (isPath : Bool) (nTimes : Nat) (goals : List Goal)
    (hshape : ∀ g ∈ goals, g.ShapeOK) :
    validateRef o isPath nTimes goals = none ↔ WellFormed o isPath nTimes goals := by
  rw [validateRef_eq]
  exact C04_validate_sound_complete o isPath nTimes goals hshape

example : validateRef {} true 3
    [{ fk := "k", tmin := .scalar (.fin 2), rangeLo := [.fin (-10)], rangeHi := [.fin 10],
       rangeDefault := false }] = none := by decide
example : validateRef {} true 2
    [{ fk := "k", tmin := .series [[.fin 2, .nan]], tmax := .series [[.fin 1, .fin 0]],
       rangeLo := [.fin (-10)], rangeHi := [.fin 10], rangeDefault := false }] = some .minGtMax := by decide

/-- **`_gp_min_max_arrays` reads the target entry the model reads.**  For every target kind, with or without
    `target_shape`, for scalar and vector goals: whenever the method passes its own shape assertions
    (`… = some v`), entry (component `c`, step `i`) of the returned lower / upper array is `Target.at`.
    (`hv`: an ndarray target of length one is read at component 0 only.) -/
theorem C04_min_max_code_reads_target (path gt1 : Bool) (tmin tmax : Target) (c i : Nat)
    (hv : ∀ t, t = tmin ∨ t = tmax → ∀ vs, t = .vector vs → vs.length = 1 → c = 0) :
    (∀ v, minArrRef path gt1 tmin tmax c i = some v → v = tmin.at c i) ∧
    (∀ v, maxArrRef path gt1 tmin tmax c i = some v → v = tmax.at c i) :=
  ⟨fun v h => minArrRef_reads path gt1 tmin tmax c i v h (hv tmin (Or.inl rfl)),
   fun v h => maxArrRef_reads path gt1 tmin tmax c i v h (hv tmax (Or.inr rfl))⟩

/-- the combinations the validation lets through pass the shape assertions: scalar targets always, 1-D
    Timeseries targets on path goals, ndarray / 2-D Timeseries targets on vector goals -/
theorem C04_min_max_code_defined (path gt1 : Bool) (tmin tmax : Target) (c i : Nat)
    (hmin : (∃ x, tmin = .scalar x) ∨ (∃ col, tmin = .series [col] ∧ path = true) ∨
         ((∃ vs, tmin = .vector vs) ∧ gt1 = true) ∨ ((∃ cols, tmin = .series cols) ∧ path = true ∧ gt1 = true))
    (hmax : (∃ x, tmax = .scalar x) ∨ (∃ col, tmax = .series [col] ∧ path = true) ∨
         ((∃ vs, tmax = .vector vs) ∧ gt1 = true) ∨ ((∃ cols, tmax = .series cols) ∧ path = true ∧ gt1 = true)) :
    (minArrRef path gt1 tmin tmax c i).isSome = true ∧ (maxArrRef path gt1 tmin tmax c i).isSome = true :=
  ⟨minArrRef_defined path gt1 tmin tmax c i hmin, maxArrRef_defined path gt1 tmin tmax c i hmax⟩

example : minArrRef true true (.series [[.fin 1, .nan], [.fin 3, .fin 4]]) (.vector [.fin 7, .pinf]) 1 0 = some (.fin 3)
    ∧ maxArrRef true true (.series [[.fin 1, .nan], [.fin 3, .fin 4]]) (.vector [.fin 7, .pinf]) 1 0 = some .pinf := by
  decide

/-- steps a Timeseries target does not cover get the fills `-inf` / `+inf` of the interpolation: such a step is
    never finite (it is skipped by the range checks, not counted in `n_active`), and its soft row is the
    constant `0` -/
theorem C04_target_fill_inactive (f eps b nom : Rat) :
    (minFillRef.1.isFinite = false ∧ minFillRef.2.isFinite = false ∧
      maxFillRef.1.isFinite = false ∧ maxFillRef.2.isFinite = false) ∧
    softRow (sentinelMin true minFillRef.1) f eps b nom = 0 ∧
    softRow (sentinelMax true maxFillRef.1) f eps b nom = 0 :=
  ⟨⟨rfl, rfl, rfl, rfl⟩, (C04_inactive_steps_free true minFillRef.1 rfl f eps b nom).1,
    (C04_inactive_steps_free true maxFillRef.1 rfl f eps b nom).2⟩

/-- **the soft-constraint construction of `_gp_goal_constraints`, as written, is `softRows`**: sentinel
    constants per target kind, slice indices of vector goals, the `if_else` expression of
    `_soft_constraint_func`, the two `_GoalConstraint` rows per side with their bounds. -/
theorem C04_soft_rows_code_is_model (g : Goal) (n : Nat) (fs eps : List (List Rat)) :
    softRowsRef g n fs eps = softRows g n fs eps :=
  softRowsRef_eq g n fs eps

/-- the pieces: constants, slice indices, expression -/
theorem C04_soft_pieces_code_is_model (g : Goal) (n c i : Nat) (t : XVal) (f e b nom : Rat) :
    minConstRef g c i = g.minSym c i ∧ maxConstRef g c i = g.maxSym c i ∧
    keepMinRef g n c = g.keepMin n c ∧ keepMaxRef g n c = g.keepMax n c ∧
    softExprRef t f e b nom = softRow t f e b nom :=
  ⟨minConstRef_eq g c i, maxConstRef_eq g c i, keepMinRef_eq g n c, keepMaxRef_eq g n c,
   softExprRef_eq t f e b nom⟩

/-- the envelope, stated for the rows the code builds -/
theorem C04_envelope_rows_code (g : Goal) (n : Nat) (fs eps : List (List Rat))
    (hrows : ∀ r ∈ softRowsRef g n fs eps, r.lb ≤ EVal.fin r.val ∧ EVal.fin r.val ≤ r.ub)
    (c i : Nat) (hc : c < g.size) (hi : i < n) (hnom : 0 < g.nomAt c) :
    (∀ tm lo, g.hasMin = true → g.mAt c i = XVal.e (EVal.fin tm) → qabs tm < floatMax →
        g.loAt c = XVal.e (EVal.fin lo) → tm + getF eps c i * (lo - tm) ≤ getF fs c i) ∧
    (∀ tM hi', g.hasMax = true → g.MAt c i = XVal.e (EVal.fin tM) → qabs tM < floatMax →
        g.hiAt c = XVal.e (EVal.fin hi') → getF fs c i ≤ tM + getF eps c i * (hi' - tM)) := by
  rw [softRowsRef_eq] at hrows
  exact C04_envelope_rows g n fs eps hrows c i hc hi hnom

example : ∀ r ∈ softRowsRef { fk := "k", tmin := .series [[.fin 2, .nan]], rangeLo := [.fin (-10)],
                              rangeHi := [.fin 10], rangeDefault := false, nominal := [2] }
      2 [[3, 4]] [[1/2, 0]], r.lb ≤ EVal.fin r.val ∧ EVal.fin r.val ≤ r.ub := by
  decide +kernel

/-- `n_active` (the divisor of a target goal's objective term): at least one — no division by zero when
    every step is inactive —, one unless a path goal is scaled by problem size, never more than the number of
    steps; it counts exactly the steps with a finite lower or upper target, i.e. the steps where
    `C04_inactive_steps_free` does not make both rows void.  The violation variable has one entry per
    component. -/
theorem C04_n_active_code (g : Goal) (isPath scale : Bool) (n c : Nat) :
    1 ≤ nActiveRef g isPath scale n c ∧ nActiveRef g isPath scale n c ≤ max n 1 ∧
    ((isPath && scale) = false → nActiveRef g isPath scale n c = 1) ∧
    nActiveRef g true true n c =
      max ((List.range n).filter fun i => (g.mAt c i).isFinite || (g.MAt c i).isFinite).length 1 ∧
    epsSizeRef g = g.size := by
  have hlen : ((List.range n).filter fun i => (g.mAt c i).isFinite || (g.MAt c i).isFinite).length ≤ n := by
    have := List.length_filter_le (fun i => (g.mAt c i).isFinite || (g.MAt c i).isFinite) (List.range n)
    simpa using this
  refine ⟨?_, ?_, ?_, rfl, rfl⟩
  · unfold nActiveRef; split <;> omega
  · unfold nActiveRef; split <;> omega
  · intro h; unfold nActiveRef; simp [h]

example : nActiveRef { fk := "k", tmin := .series [[.fin 2, .nan, .ninf]] } true true 3 0 = 1
    ∧ nActiveRef { fk := "k", tmin := .series [[.fin 2, .nan, .fin 1]] } true true 3 0 = 2 := by decide

/-- **critical goals, as the code builds them**: every member `m < E` gets exactly one hard constraint, in its own
    slot, built from its own member index, with `epsilon = 0` at every step (the value
    `C04_critical_mask_code_is_model` is stated for) and no existing constraint. -/
theorem C04_critical_calls_code (E : Nat) (isPath : Bool) (nTimes : Nat) :
    (critCallsRef E isPath nTimes).length = E ∧
    (∀ m < E, (m, m, (0 : Rat), (if isPath then nTimes else 1), true) ∈ critCallsRef E isPath nTimes) ∧
    (∀ x ∈ critCallsRef E isPath nTimes, x.1 = x.2.1 ∧ x.2.2.1 = 0 ∧ x.2.2.2.2 = true) := by
  refine ⟨by simp [critCallsRef], ?_, ?_⟩
  · intro m hm
    simp only [critCallsRef, List.mem_map, List.mem_range]
    exact ⟨m, hm, rfl⟩
  · intro x hx
    simp only [critCallsRef, List.mem_map, List.mem_range] at hx
    obtain ⟨m, _, rfl⟩ := hx
    exact ⟨rfl, rfl, rfl⟩

example : critCallsRef 2 true 4 = [(0, 0, 0, 4, true), (1, 1, 0, 4, true)] := by decide

/-- **the `Goal` properties the mixin branches on, as written, are the model's**: `has_target_min` /
    `has_target_max` (`Target.has`), `has_target_bounds`, `is_empty` (decides which goals form a priority). -/
theorem C04_goal_properties_code_is_model (g : Goal) :
    hasMinRef g = g.hasMin ∧ hasMaxRef g = g.hasMax ∧ hasTargetBoundsRef g = g.hasTargetBounds ∧
    isEmptyRef g = g.isEmpty :=
  ⟨hasMinRef_eq g, hasMaxRef_eq g, rfl, isEmptyRef_eq g⟩

example : isEmptyRef { fk := "k", tmin := .series [[.nan, .ninf]] } = true
    ∧ isEmptyRef { fk := "k", tmin := .series [[.nan, .fin 1]] } = false
    ∧ isEmptyRef { fk := "k" } = false := by decide

/-! ### how the registered constants reach the problem (`constant_inputs()` / `parameters()`) -/

/-- **The soft rows read the target that is registered now.**  After one call of the overridden
    `constant_inputs()` / `parameters()` (`inputsCallRef`; `Gen/GoalCode.lean` proves the four methods equal to it
    on every run), a name registered by the current priority reads the value registered LAST under it —
    whatever the dictionary returned by `super()` already held (a parent that caches one dictionary per member
    hands back the entries written for earlier priorities or by an earlier `optimize()` call). -/
theorem C04_target_constants_reach_problem {V : Type} (conv : V → V) (remember : Bool)
    (origKeys : Option (List String)) (d : Dict V) (pending : List (String × V)) (name : String) (t : V)
    (hlast : pending.reverse.find? (fun kv => kv.1 == name) = some (name, t)) :
    dictGet (inputsCallRef conv remember origKeys d pending).2 name = some (conv t) := by
  rw [inputsCall_reads, hlast]

/-- names written by earlier priorities that are no longer registered are removed (multi-pass mixin), the
    parent's own entries are untouched -/
theorem C04_stale_constants_removed {V : Type} (conv : V → V) (origKeys : Option (List String)) (d : Dict V)
    (pending : List (String × V)) (name : String)
    (hnot : pending.reverse.find? (fun kv => kv.1 == name) = none) :
    (name ∉ (inputsCallRef conv true origKeys d pending).1 →
        dictGet (inputsCallRef conv true origKeys d pending).2 name = none) ∧
    (name ∈ (inputsCallRef conv true origKeys d pending).1 →
        dictGet (inputsCallRef conv true origKeys d pending).2 name = dictGet d name) := by
  rw [inputsCall_reads, hnot]
  constructor <;> intro h <;> simp [h]

/-- the Timeseries a path-goal constant is converted to carries the target's entries: cell (component, step)
    of the constant input is the cell `Target.at` the soft row model reads -/
theorem C04_path_constant_cells (n : Nat) (t : Target) (c i : Nat) (hi : i < n)
    (hc : ∀ vs, t = .vector vs → c < vs.length) : (constConv n t).at c i = t.at c i :=
  constConv_at n t c i hi hc

/-- non-vacuity (the scenario of a cached parent dictionary): the dictionary still holds the target series of an
    earlier `optimize()` call under the same name and a stale name of an earlier priority; the call returns the
    new series and drops the stale name -/
example :
    let r := inputsCallRef (constConv 2) true (some ["c"])
      [("c", .series [[.fin 1, .fin 1]]), ("path_min_0_0", .series [[.fin 5, .fin 5]]), ("path_max_1_0", .scalar (.fin 9))]
      [("path_min_0_0", .scalar (.fin 7))]
    dictGet r.2 "path_min_0_0" = some (.series [[.fin 7, .fin 7]]) ∧ dictGet r.2 "path_max_1_0" = none ∧
      dictGet r.2 "c" = some (.series [[.fin 1, .fin 1]]) := by
  decide

end RtcVerif.C04
