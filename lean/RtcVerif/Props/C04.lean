import RtcVerif.Model.C04Store
import Mathlib.Tactic.Linarith
/-! placeholder while the harness is brought up -/
namespace RtcVerif.C04
theorem placeholder : (1 : Nat) = 1 := rfl
end RtcVerif.C04
